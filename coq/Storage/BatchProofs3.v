(* Storage/BatchProofs3.v — operation sequences with batches (C08): the weak invariant along every
   sequence, what it gives (slot injectivity, counters = recounts), the strong invariant when
   removal batches leave a gap-free volume, no counter guard fires inside a batch, and the
   witness that a cut removal followed by ShrinkVolume breaks the total counter. *)
From Coq Require Import Lia ZifyBool ZifyN ZifyNat.
From HostdBase Require Import Base.
From HostdStorage Require Import Model Lemmas Proofs Proofs2 Proofs3 WProofs Batch BatchProofs BatchProofs2.

Local Open Scope Z_scope.
Arguments stat_inc : simpl never.
Arguments vol_usage : simpl never.
Arguments set_slot : simpl never.
Arguments csum : simpl never.

Definition bruns (s : state) (l : list bop) : state := fold_left (fun s o => fst (bstep s o)) l s.

(* the one proviso: a ShrinkVolume must find every index below its target (see WProofs.v) *)
Definition bsafe (s : state) (o : bop) : bool :=
  match o with P o => shrink_safe s o | _ => true end.

Fixpoint bsafe_all (s : state) (l : list bop) : bool :=
  match l with [] => true | o :: t => bsafe s o && bsafe_all (fst (bstep s o)) t end.

Theorem winv_bstep s o : winv s -> bsafe s o = true -> winv (fst (bstep s o)).
Proof.
  intros I Safe. destruct o; cbn [bstep].
  - now apply winv_step.
  - now apply winv_remove_batch.
  - apply fin_winv; auto. intros; eapply winv_remove_final; eauto.
  - now apply winv_expire_batch.
  - now apply winv_temp_batch.
  - now apply winv_prune_batch.
  - pose proof (winv_mig_tx v start index call s I) as H.
    destruct (mig_tx v start index call s) as [[s' n] ob]. exact H.
Qed.

Theorem winv_bruns l : forall s, winv s -> bsafe_all s l = true -> winv (bruns s l).
Proof.
  induction l as [|o t IH]; intros s I Safe; [exact I|]. cbn in *.
  apply Bool.andb_true_iff in Safe as [S1 S2]. apply IH; [now apply winv_bstep|exact S2].
Qed.

(** * What the weak invariant gives *)
Lemma wslot_injective s v i v' i' r :
  winv s -> slot_at s v i = Some (Some r) -> slot_at s v' i' = Some (Some r) -> v = v' /\ i = i'.
Proof.
  intros I. unfold slot_at.
  destruct (vget v (vols s)) as [a|] eqn:Ga; [|discriminate].
  destruct (vget v' (vols s)) as [b|] eqn:Gb; [|discriminate].
  intros Sa Sb. pose proof (winv_inj s I r) as Hinj. unfold gcnt in Hinj.
  destruct (N.eq_dec v v') as [->|Hv].
  - split; [reflexivity|]. rewrite Ga in Gb; injection Gb as <-.
    destruct (N.eq_dec i i') as [|Hi]; [assumption|exfalso].
    pose proof (wsum_two r _ i i' Sa Sb Hi).
    apply vget_in in Ga as [Ga _].
    pose proof (gsum_in_le (fun vl => wsum (is_root r) (vslots vl)) _ a
                  (fun x => wsum_nonneg _ _ (is_root_nonneg r)) Ga). cbn in *. lia.
  - exfalso.
    pose proof (gsum_two (fun vl => wsum (is_root r) (vslots vl)) _ v v' a b
                  (fun x => wsum_nonneg _ _ (is_root_nonneg r)) Hv Ga Gb) as H. cbn in H.
    pose proof (wsum_one r _ i Sa). pose proof (wsum_one r _ i' Sb). lia.
Qed.

Lemma wslot_unique s : winv s ->
  NoDup (map vid (vols s)) /\ forall vl, In vl (vols s) -> NoDup (map fst (vslots vl)).
Proof.
  intros I; split; [apply (winv_vids s I)|]. intros vl Hin.
  pose proof (winv_vol s I) as HF. rewrite Forall_forall in HF. apply (HF vl Hin).
Qed.

Lemma wcounters_exact s : winv s ->
  (forall vl, In vl (vols s) -> vused vl = n_used vl /\ vtotal vl = n_slots vl) /\
  mTotal (mets s) = gsum n_slots (vols s) /\
  mPhys (mets s) = gsum n_used (vols s) /\
  mContract (mets s) = csum (cons s) /\
  mTemp (mets s) = Z.of_nat (length (temps s)).
Proof.
  intros I. pose proof (winv_vol s I) as HF. rewrite Forall_forall in HF.
  repeat split.
  - apply (HF vl H).
  - apply (HF vl H).
  - rewrite (winv_total s I). apply gsum_ext. intros x Hx. apply (HF x Hx).
  - rewrite (winv_phys s I). apply gsum_ext. intros x Hx. apply (HF x Hx).
  - apply (winv_contract s I).
  - apply (winv_temp s I).
Qed.

(* the statement of the C08 counters/slots part, for a state *)
Definition c08_state_ok (s : state) : Prop :=
  (forall v i v' i' r, slot_at s v i = Some (Some r) -> slot_at s v' i' = Some (Some r) -> v = v' /\ i = i') /\
  NoDup (map vid (vols s)) /\ (forall vl, In vl (vols s) -> NoDup (map fst (vslots vl))) /\
  (forall vl, In vl (vols s) -> vused vl = n_used vl /\ vtotal vl = n_slots vl) /\
  mTotal (mets s) = gsum n_slots (vols s) /\
  mPhys (mets s) = gsum n_used (vols s) /\
  mContract (mets s) = csum (cons s) /\
  mTemp (mets s) = Z.of_nat (length (temps s)).

Lemma winv_state_ok s : winv s -> c08_state_ok s.
Proof.
  intros I. destruct (wslot_unique s I) as [U1 U2]. destruct (wcounters_exact s I) as [C1 [C2 [C3 [C4 C5]]]].
  unfold c08_state_ok. repeat split; auto.
  - eapply (wslot_injective s v i v' i' r I); eauto.
  - eapply (wslot_injective s v i v' i' r I); eauto.
  - apply (C1 vl H).
  - apply (C1 vl H).
Qed.

(* every state of every sequence with batches, i.e. every state a cut can expose *)
Theorem batched_state_ok l : bsafe_all init l = true -> c08_state_ok (bruns init l).
Proof. intros S. apply winv_state_ok, winv_bruns; [apply winv_init|exact S]. Qed.

(* ... also the intermediate ones *)
Theorem batched_prefix_ok l1 l2 : bsafe_all init (l1 ++ l2) = true -> c08_state_ok (bruns init l1).
Proof.
  intros S. apply batched_state_ok. revert S. generalize init.
  induction l1 as [|o t IH]; intros s; cbn; [reflexivity|].
  intros H. apply Bool.andb_true_iff in H as [H1 H2]. rewrite H1. cbn. now apply IH.
Qed.

(* sequences without a removal batch need no proviso: the plain operations keep the volumes
   gap-free, where every accepted shrink is safe *)
Lemma plain_safe (l : list op) : forall s, inv s -> bsafe_all s (map P l) = true.
Proof.
  induction l as [|o t IH]; intros s I; cbn [map bsafe_all bsafe bstep]; [reflexivity|].
  rewrite (IH _ (inv_step s o I)), Bool.andb_true_r.
  destruct o; try reflexivity. now apply contig_safe.
Qed.

Lemma bruns_plain (l : list op) : forall s, bruns s (map P l) = runs s l.
Proof. induction l as [|o t IH]; intros s; [reflexivity|]. cbn. apply IH. Qed.

(** * Removal batches that leave a gap-free volume: the strong invariant survives *)
Definition contig_vol (vl : vol) : Prop := map fst (vslots vl) = nseq 0%N (length (vslots vl)).

Lemma inv_contig s : inv s -> Forall contig_vol (vols s).
Proof. intros I. eapply Forall_impl; [|exact (inv_vol s I)]. intros vl [O1 _]. exact O1. Qed.

Lemma inv_of_winv s : winv s -> Forall contig_vol (vols s) -> inv s.
Proof.
  intros [I1 I2 I3 I4 I5 I6 I7 I8] C. constructor; auto.
  rewrite Forall_forall in *. intros vl Hin. destruct (I2 vl Hin) as [_ [O2 O3]].
  split; [exact (C vl Hin)|auto].
Qed.

Definition keys_contig (l : slots) : bool := list_eqb N.eqb (map fst l) (nseq 0%N (length l)).

Lemma list_eqb_N_eq (a b : list N) : list_eqb N.eqb a b = true -> a = b.
Proof.
  revert b; induction a as [|x a IH]; intros [|y b]; cbn; try discriminate; [reflexivity|].
  intros H. apply Bool.andb_true_iff in H as [H1 H2]. apply N.eqb_eq in H1. subst. f_equal. auto.
Qed.

Lemma list_eqb_N_refl (a : list N) : list_eqb N.eqb a a = true.
Proof. induction a as [|x a IH]; cbn; [reflexivity|]. now rewrite N.eqb_refl, IH. Qed.

(* what fixes/C08-remove-batch-order.patch guarantees: a batch takes the highest indices, so the
   volume it leaves is gap-free again *)
Definition leaves_contig (s : state) (o : bop) : bool :=
  match o with
  | RemoveBatch v _ _ idxs =>
      match vget v (vols s) with Some vl => keys_contig (keep_slots idxs (vslots vl)) | None => true end
  | _ => true
  end.

Fixpoint contig_all (s : state) (l : list bop) : bool :=
  match l with [] => true | o :: t => leaves_contig s o && contig_all (fst (bstep s o)) t end.

Lemma wr_contig i x d vl : contig_vol vl -> contig_vol (wr i x d vl).
Proof. unfold contig_vol, wr; cbn. now rewrite sset_keys, sset_length. Qed.

Lemma contig_bstep s o : inv s -> leaves_contig s o = true -> Forall contig_vol (vols (fst (bstep s o))).
Proof.
  intros I L. pose proof (inv_contig s I) as C. pose proof (inv_winv s I) as W.
  destruct o; cbn [bstep].
  - apply inv_contig. now apply inv_step.
  - destruct (remove_batch v force b idxs s) as [s' ob] eqn:R. cbn [fst].
    destruct (remove_batch_shape _ _ _ _ _ _ _ R) as [->|[vl [G [_ [_ [_ ->]]]]]]; [exact C|].
    cbn [leaves_contig] in L. rewrite G in L. cbn. apply Forall_vupd; [exact C|].
    intros y Gy _. rewrite G in Gy; injection Gy as <-.
    unfold contig_vol, rb_vol; cbn. now apply list_eqb_N_eq.
  - unfold remove_final. destruct (vget v (vols s)) as [vl|]; cbn; [|exact C].
    destruct (vslots vl); cbn; [now apply Forall_vdel|exact C].
  - destruct (expire_batch v2 h b picks s) as [s' ob] eqn:R. cbn [fst].
    destruct (expire_batch_shape _ _ _ _ _ _ _ R) as [->|[_ ->]]; exact C.
  - destruct (temp_batch h b picks s) as [s' ob] eqn:R. cbn [fst].
    destruct (temp_batch_shape _ _ _ _ _ _ R) as [->|[_ ->]]; exact C.
  - rewrite (prune_batch_cases b picks s W). destruct (_ && _); cbn [fst]; [|exact C].
    unfold pb_state. cbn [vols with_mets with_vols]. apply Forall_forall. intros x Hx.
    apply in_map_iff in Hx as [y [<- Hy]]. rewrite Forall_forall in C. specialize (C y Hy).
    unfold contig_vol, pbvol in *; cbn. now rewrite pb_slots_keys, pb_slots_length.
  - unfold mig_tx.
    destruct (next_occ index (slots_of v s) None) as [[idx r]|]. 2:{ destruct call; exact C. }
    destruct (mig_has_target s v start); cbn [negb]. 2:{ destruct call; exact C. }
    destruct call as [[[fidx to] ok]|]; [|exact C].
    destruct (negb _); [exact C|]. destruct ok; [|exact C].
    destruct (mig_move v idx r to s) as [s1| |] eqn:M; try exact C. cbn [fst].
    destruct (mig_move_vols _ _ _ _ _ _ M) as [-> _].
    apply Forall_vupd.
    + apply Forall_vupd; [exact C|]. intros y _ Cy. now apply wr_contig.
    + intros y _ Cy. now apply wr_contig.
Qed.

Theorem inv_bstep_contig s o : inv s -> leaves_contig s o = true -> inv (fst (bstep s o)).
Proof.
  intros I L. apply inv_of_winv; [|now apply contig_bstep].
  apply winv_bstep; [now apply inv_winv|].
  destruct o; try reflexivity. cbn [bsafe]. destruct o; try reflexivity. now apply contig_safe.
Qed.

Theorem inv_bruns_contig l : forall s, inv s -> contig_all s l = true -> inv (bruns s l).
Proof.
  induction l as [|o t IH]; intros s I C; [exact I|]. cbn in *.
  apply Bool.andb_true_iff in C as [C1 C2]. apply IH; [now apply inv_bstep_contig|exact C2].
Qed.

(* the batch that takes the k highest indices of a gap-free volume leaves it gap-free *)
Lemma mem_nseq j a k : mem j (nseq a k) = ((a <=? j) && (j <? a + N.of_nat k))%N.
Proof.
  revert a; induction k as [|k IH]; intros a; cbn [nseq mem]; [lia|].
  rewrite IH. lia.
Qed.

Lemma top_batch_contig (l : slots) (k : nat) :
  map fst l = nseq 0%N (length l) -> (k <= length l)%nat ->
  keys_contig (keep_slots (nseq (N.of_nat (length l - k)) k) l) = true.
Proof.
  intros O1 Hk. set (a := N.of_nat (length l - k)).
  assert (E : keep_slots (nseq a k) l = filter (fun y => (fst y <? a)%N) l).
  { unfold keep_slots. apply filter_ext_in. intros [j y] Hin. cbn [fst].
    assert (Hj : In j (map fst l)) by (change j with (fst (j, y)); now apply in_map).
    rewrite O1 in Hj. rewrite mem_nseq.
    assert (j < N.of_nat (length l))%N.
    { assert (H : forall n b, In j (nseq b n) -> (j < b + N.of_nat n)%N).
      { clear. induction n as [|n IH]; intros b; cbn; [tauto|]. intros [<-|H]; [lia|]. apply IH in H. lia. }
      apply H in Hj. lia. }
    unfold a. lia. }
  unfold keys_contig. rewrite E.
  pose proof (filter_keys_below a l 0%N O1) as H. rewrite <- (map_length fst (filter _ _)).
  rewrite H by (unfold a; lia). rewrite nseq_length. replace (N.to_nat (a - 0)) with (N.to_nat (a - 0)) by reflexivity.
  apply list_eqb_N_refl.
Qed.

(** * No counter guard fires inside a batch *)
Lemma woccupied_used s v vl i r : winv s -> vget v (vols s) = Some vl -> sget i (vslots vl) = Some (Some r) ->
  1 <= vused vl /\ 1 <= mPhys (mets s).
Proof.
  intros I G S. destruct (wused_bounds s v vl I G) as [[_ [_ Hu]] [B1 _]].
  assert (1 <= wsum occ1 (vslots vl)).
  { pose proof (wsum_one r _ i S). pose proof (wsum_le (is_root r) occ1 (vslots vl) (is_root_le_occ r)). lia. }
  lia.
Qed.

Lemma wmig_move_no_panic v idx r to s vl tl :
  winv s -> vget v (vols s) = Some vl -> sget idx (vslots vl) = Some (Some r) ->
  vget (fst to) (vols s) = Some tl -> sget (snd to) (vslots tl) = Some None ->
  exists s', mig_move v idx r to s = Ok s'.
Proof.
  intros I G S Gt St. destruct to as [tv ti]. cbn [fst snd] in *. unfold mig_move. cbn [fst snd].
  destruct (v =? tv)%N eqn:Ev; [eexists; reflexivity|]. apply N.eqb_neq in Ev.
  destruct (woccupied_used s v vl idx r I G S) as [H1 H2].
  set (s1 := set_slot tv ti (Some r) (set_slot v idx None s)).
  assert (G1 : vget v (vols s1) = Some (set_slots vl (sset idx None (vslots vl)))).
  { unfold s1, set_slot; cbn. rewrite vget_vupd_other; [|reflexivity|congruence].
    now rewrite (vget_vupd_same v _ _ vl) by (auto; reflexivity). }
  destruct (vol_usage_some v (-1) s1 _ G1) as [s2 U1]; [cbn; lia|unfold s1, set_slot; cbn; lia|].
  rewrite U1. cbn [bind].
  pose proof U1 as U1'. apply vol_usage_ok in U1' as [x1 [_ [_ [Hv1 [Hm1 _]]]]].
  destruct (wused_bounds s tv tl I Gt) as [Otl _]. destruct (wvol_nonneg tl Otl) as [T1 _].
  assert (G2 : vget tv (vols s2) = Some (set_slots tl (sset ti (Some r) (vslots tl)))).
  { rewrite Hv1. rewrite vget_vupd_other; [|reflexivity|exact Ev].
    unfold s1, set_slot; cbn. rewrite (vget_vupd_same tv _ _ tl); [reflexivity|reflexivity|].
    rewrite vget_vupd_other; [exact Gt|reflexivity|exact Ev]. }
  destruct (vol_usage_some tv 1 s2 _ G2) as [s3 U2]; [cbn; lia|rewrite Hm1; unfold s1, set_slot; cbn; lia|].
  eexists; exact U2.
Qed.

Definition batch_op (o : bop) : bool := match o with P _ => false | _ => true end.

Theorem batch_no_panic s o : winv s -> batch_op o = true -> is_panic_obs (snd (bstep s o)) = false.
Proof.
  intros I B. destruct o; try discriminate; cbn [bstep].
  - destruct (vget v (vols s)) as [vl|] eqn:G.
    + destruct (negb force && negb (wsum occ1 (vslots vl) =? 0)) eqn:E.
      * unfold remove_batch. rewrite G, E. destruct idxs; reflexivity.
      * assert (F : force = true \/ wsum occ1 (vslots vl) = 0).
        { destruct force; [now left|right]. cbn in E. lia. }
        destruct (rm_choice_ok b idxs (vslots vl)) eqn:C.
        -- rewrite (remove_batch_ok v force b idxs s vl I G F C). reflexivity.
        -- unfold remove_batch. rewrite G, E, C. reflexivity.
    + unfold remove_batch. rewrite G. destruct idxs; reflexivity.
  - unfold remove_final. destruct (vget v (vols s)) as [vl|]; [|reflexivity]. destruct (vslots vl); reflexivity.
  - unfold expire_batch. set (l' := exp_batch_cons v2 h picks (cons s)).
    destruct (_ && _); [|reflexivity].
    pose proof (exp_batch_csum_le v2 h picks (cons s)) as Hle. fold l' in Hle.
    rewrite stat_inc_eq by (rewrite (winv_contract s I); pose proof (csum_nonneg l'); lia). reflexivity.
  - unfold temp_batch. set (l' := del_temps h picks 0 (temps s)).
    destruct (_ && _); [|reflexivity].
    pose proof (del_temps_length h picks 0 (temps s)) as Hle. fold l' in Hle.
    rewrite stat_inc_eq by (rewrite (winv_temp s I); lia). reflexivity.
  - rewrite (prune_batch_cases b picks s I). destruct (_ && _); reflexivity.
  - unfold mig_tx.
    destruct (next_occ index (slots_of v s) None) as [[idx r]|] eqn:Nx. 2:{ destruct call; reflexivity. }
    destruct (mig_has_target s v start); cbn [negb]. 2:{ destruct call; reflexivity. }
    destruct call as [[[fidx to] ok]|]; [|reflexivity].
    destruct ((fidx =? idx)%N && mig_valid_target s v start to) eqn:V; cbn [negb]; [|reflexivity].
    apply Bool.andb_true_iff in V as [_ V]. destruct ok; [|reflexivity].
    apply next_occ_in in Nx as [Nx|Nx]; [discriminate|].
    destruct (wslots_of_get v s idx r I Nx) as [vl [G S]].
    destruct (mig_valid_slot s v start to V) as [tl [Gt St]].
    destruct (wmig_move_no_panic v idx r to s vl tl I G S Gt St) as [s1 M]. rewrite M. reflexivity.
Qed.

(** * The witness: a cut removal followed by ShrinkVolume *)
(* 12 slots, the first batch of a removal (batch size 5) takes the slots 0..4 as SQLite does,
   the removal is cut, the volume is shrunk to 6 sectors: one slot (index 5) is left, total_sectors
   and the totalSectors metric say 6.  Completing the removal afterwards leaves the metric at 5
   with no volume at all. *)
Definition cut_then_shrink : list bop :=
  [P (AddVol 1 false); P (SetAvail 1 true); P (Grow 1 12);
   RemoveBatch 1 false 5 [0; 1; 2; 3; 4]; P (Shrink 1 6)]%N.

Lemma cut_then_shrink_breaks :
  let s := bruns init cut_then_shrink in
  snd (bstep (bruns init (removelast cut_then_shrink)) (P (Shrink 1 6))) = ORes (Ok tt) /\
  map (fun vl => (vtotal vl, n_slots vl)) (vols s) = [(6, 1)] /\
  mTotal (mets s) = 6 /\ gsum n_slots (vols s) = 1 /\
  let s' := bruns s [P (RemoveVol 1 false)] in
  vols s' = [] /\ mTotal (mets s') = 5.
Proof. vm_compute. repeat split; reflexivity. Qed.

Lemma cut_then_shrink_refutes :
  exists l : list bop,
    let s := bruns init l in
    (exists vl, In vl (vols s) /\ vtotal vl <> n_slots vl) /\ mTotal (mets s) <> gsum n_slots (vols s).
Proof.
  exists cut_then_shrink. cbn zeta. split.
  - eexists. split; [vm_compute; left; reflexivity|]. vm_compute. discriminate.
  - vm_compute. discriminate.
Qed.

(** * Lost sectors, batch by batch *)
(* a batch of a forced removal raises lostSectors by exactly the occupied slots it destroys *)
Lemma batch_lost_exact s v force b idxs : winv s ->
  let s' := fst (remove_batch v force b idxs s) in
  mLost (mets s') - mLost (mets s) = occ_total s - occ_total s' /\
  (force = false -> mLost (mets s') = mLost (mets s)).
Proof.
  intros I. cbn zeta. pose proof (winv_remove_batch v force b idxs s I) as I1.
  destruct (remove_batch v force b idxs s) as [s' o] eqn:R. cbn [fst] in *.
  destruct (wcounters_exact s I) as [_ [_ [P0 _]]]. destruct (wcounters_exact s' I1) as [_ [_ [P1 _]]].
  unfold occ_total. rewrite <- P0, <- P1.
  destruct (remove_batch_shape _ _ _ _ _ _ _ R) as [->|[vl [G [C [F [_ ->]]]]]]; [split; [lia|reflexivity]|].
  cbn. split; [lia|]. intros ->. destruct F as [F|F]; [discriminate|].
  pose proof (wsum_filter_le occ1 (fun x => negb (mem (fst x) idxs)) (vslots vl) occ1_nonneg) as Hle.
  fold (keep_slots idxs (vslots vl)) in Hle.
  pose proof (wsum_nonneg occ1 (keep_slots idxs (vslots vl)) occ1_nonneg). lia.
Qed.

Definition quiet_batch (o : bop) : bool :=
  match o with P _ | RemoveBatch _ _ _ _ => false | _ => true end.

Lemma batch_lost_unchanged s o : quiet_batch o = true -> mLost (mets (fst (bstep s o))) = mLost (mets s).
Proof.
  destruct o; try discriminate; intros _; cbn [bstep].
  - unfold remove_final. destruct (vget v (vols s)) as [vl|]; [|reflexivity]. destruct (vslots vl); reflexivity.
  - destruct (expire_batch v2 h b picks s) as [s' ob] eqn:R. cbn [fst].
    destruct (expire_batch_shape _ _ _ _ _ _ _ R) as [->|[_ ->]]; reflexivity.
  - destruct (temp_batch h b picks s) as [s' ob] eqn:R. cbn [fst].
    destruct (temp_batch_shape _ _ _ _ _ _ R) as [->|[_ ->]]; reflexivity.
  - unfold prune_batch. destruct (prune_batch_vols _ _ _) as [[vs n]| |]; try reflexivity.
    destruct (_ && _); [|reflexivity]. destruct (stat_inc _ _); reflexivity.
  - unfold mig_tx.
    destruct (next_occ index (slots_of v s) None) as [[idx r]|]. 2:{ destruct call; reflexivity. }
    destruct (mig_has_target s v start); cbn [negb]. 2:{ destruct call; reflexivity. }
    destruct call as [[[fidx to] ok]|]; [|reflexivity].
    destruct (negb _); [reflexivity|]. destruct ok; [|reflexivity].
    destruct (mig_move v idx r to s) as [s1| |] eqn:M; try reflexivity. cbn [fst].
    exact (mig_move_lost _ _ _ _ _ _ M).
Qed.
