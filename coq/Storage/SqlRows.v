(* Storage/SqlRows.v — the columns of persist/sqlite/init.sql that the expiry, prune and
   placement selections read (deleteExpiredContractSectors, deleteExpiredV2ContractSectors in
   contracts.go; deleteTempSectors, updatePruneableVolumeSectors in sectors.go; emptyLocation in
   volumes.go), as row records for tools/sqlgen (spec tools/sqlgen/c08.json).  One record field
   per column, named <prefix>_<column name>; Coq type per declared SQL type as in Actions/Rows.v:
     INTEGER NOT NULL / INTEGER PRIMARY KEY -> N       INTEGER (nullable) -> option N
     BOOLEAN NOT NULL -> bool (stored 0/1)
     contract_status  -> the status enumeration (v1 INTEGER, v2 TEXT; the stored representation
                         xst1_repr / xst2_repr is generated from the Go constants)
   A row that a statement reaches through an INNER JOIN on the joined table's primary key (at
   most one such row per row of the joining table) is a field of the joining row, [None] when
   the foreign key is NULL or dangling; tables that a statement ranges over (LEFT JOIN, EXISTS)
   are passed to the generated definition as lists of rows.  A stored sector is identified by
   its stored_sectors.id (sector_root is UNIQUE: the model numbers the roots).  No proofs here. *)
From HostdBase Require Import Base.

Inductive xst1 := XPending1 | XRejected1 | XActive1 | XSuccessful1 | XFailed1.
Inductive xst2 := XPending2 | XRejected2 | XActive2 | XRenewed2 | XSuccessful2 | XFailed2.

(* table contracts *)
Record x1row := {
  x1_contract_status : xst1;       (* INTEGER NOT NULL *)
  x1_window_end : N                (* INTEGER NOT NULL *)
}.
(* table contracts_v2 *)
Record x2row := {
  x2_contract_status : xst2;       (* TEXT NOT NULL *)
  x2_expiration_height : N         (* INTEGER NOT NULL *)
}.
(* table contract_sector_roots, with the contracts row contract_id points to *)
Record sr1row := {
  sr1_sector_id : N;               (* INTEGER NOT NULL REFERENCES stored_sectors(id) *)
  sr1_root_index : N;              (* INTEGER NOT NULL *)
  sr1_contract : option x1row      (* contract_id INTEGER NOT NULL REFERENCES contracts(id) *)
}.
(* table contract_v2_sector_roots, with the contracts_v2 row contract_id points to *)
Record sr2row := {
  sr2_sector_id : N;
  sr2_root_index : N;
  sr2_contract : option x2row
}.
(* table temp_storage_sector_roots *)
Record tsrow := {
  ts_sector_id : N;                (* INTEGER NOT NULL REFERENCES stored_sectors(id) *)
  ts_expiration_height : N         (* INTEGER NOT NULL *)
}.
(* table stored_sectors *)
Record ssrow := {
  ss_id : N;                       (* INTEGER PRIMARY KEY *)
  ss_last_access_timestamp : N     (* INTEGER NOT NULL: unix seconds *)
}.
(* table storage_volumes *)
Record svrow := {
  sv_id : N;                       (* INTEGER PRIMARY KEY *)
  sv_used_sectors : N;             (* INTEGER NOT NULL *)
  sv_total_sectors : N;            (* INTEGER NOT NULL *)
  sv_read_only : bool;             (* BOOLEAN NOT NULL *)
  sv_available : bool              (* BOOLEAN NOT NULL *)
}.
(* table volume_sectors, with the storage_volumes row volume_id points to and the
   stored_sectors row sector_id points to (None when sector_id is NULL) *)
Record vsrow := {
  vs_volume_id : N;                (* INTEGER NOT NULL REFERENCES storage_volumes(id): the column itself *)
  vs_volume_index : N;             (* INTEGER NOT NULL *)
  vs_sector_id : option N;         (* INTEGER UNIQUE REFERENCES stored_sectors(id) *)
  vs_sector_writes : N;            (* INTEGER NOT NULL *)
  vs_volume : option svrow;        (* volume_id INTEGER NOT NULL REFERENCES storage_volumes(id) *)
  vs_sector : option ssrow
}.
