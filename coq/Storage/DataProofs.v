(* Storage/DataProofs.v — the data invariant behind C02 *)
From Coq Require Import Lia ZifyBool ZifyN ZifyNat.
From HostdBase Require Import Base.
From HostdStorage Require Import Model Lemmas Proofs Proofs2 DataModel DataLemmas.

Arguments stat_inc : simpl never.
Arguments vol_usage : simpl never.
Arguments set_slot : simpl never.
Arguments csum : simpl never.

Definition druns (d : dstate) (l : list dop) : dstate := fold_left (fun d o => fst (dstep d o)) l d.

(* the sector has a slot and reading that slot returns its bytes *)
Definition written (d : dstate) (r : N) : Prop :=
  exists v i, slot_at (md d) v i = Some (Some r) /\ content d v i = r.
(* ... now and after a crash *)
Definition durable (d : dstate) (r : N) : Prop :=
  exists v i, slot_at (md d) v i = Some (Some r) /\ content d v i = r /\ dcontent d v i = r.

Lemma durable_written d r : durable d r -> written d r.
Proof. intros [v [i [H1 [H2 _]]]]; exists v, i; auto. Qed.

Record dinv (d : dstate) : Prop := mk_dinv {
  d_inv : inv (md d);
  d_known : forall r v i, slot_at (md d) v i = Some (Some r) -> mem r (known (md d)) = true;
  d_tids : NoDup (map fst (thr d));
  (* a writer between slot commit and data write holds a slot that names its root but not (yet) its bytes *)
  d_thr : forall t r v i, alookup t (thr d) = Some (r, v, i) ->
            slot_at (md d) v i = Some (Some r) /\ content d v i <> r;
  (* the cache never holds other bytes for a sector than the ones written for it *)
  d_cache : forall r c, cget r (cache d) = Some c -> written d r -> c = r;
  (* every referenced sector is durably written *)
  d_refs : forall r, refd (md d) r = true -> durable d r }.

Lemma dinv_init n : dinv (dinit n).
Proof.
  constructor.
  - apply inv_init.
  - intros r v i H; discriminate.
  - constructor.
  - intros t r v i H; discriminate.
  - intros r c H; discriminate.
  - intros r H; discriminate.
Qed.

(** * Steps the theorems are about *)
(* (a) a store call that adds a reference adds it for a durably written sector — what Write
       returning nil followed by Sync is meant to guarantee to the RPC handlers;
   (b) the slot handed to a new sector does not already contain that very sector's bytes
       (false only for a re-upload into the stale slot of a pruned copy; then migration could
       move the slot under the writer);
   (c) no explicit sector deletion, no forced volume removal. *)
Definition step_ok (d : dstate) (o : dop) : Prop :=
  match o with
  | DMeta m => forall r, refd (md (fst (dstep d o))) r = true -> refd (md d) r = true \/ durable d r
  | DReserve t r (Some (v, i)) => content d v i <> r
  | DRemoveSector _ => False
  | DRemoveT _ force => force = false
  | _ => True
  end.

Fixpoint steps_ok (d : dstate) (l : list dop) : Prop :=
  match l with
  | [] => True
  | o :: t => step_ok d o /\ steps_ok (fst (dstep d o)) t
  end.

(** * Occupied slots under store calls without a data side *)
Definition same_refs (m m' : state) : Prop := cons m' = cons m /\ temps m' = temps m.
Definition same_slots (m m' : state) : Prop :=
  forall v i r, slot_at m' v i = Some (Some r) <-> slot_at m v i = Some (Some r).

Lemma refd_same m m' r : same_refs m m' -> refd m' r = refd m r.
Proof. intros [H1 H2]. unfold refd. now rewrite H1, H2. Qed.

Lemma same_slots_vols m m' : vols m' = vols m -> same_slots m m'.
Proof. intros H v i r. unfold slot_at. now rewrite H. Qed.

Ltac brk :=
  match goal with
  | |- context [match ?x with _ => _ end] =>
      lazymatch x with
      | context [match _ with _ => _ end] => fail
      | _ => destruct x eqn:?
      end
  end.

Lemma slot_at_vins s n v i :
  vget (vid n) (vols s) = None ->
  slot_at (with_vols s (vins n (vols s))) v i =
  if (v =? vid n)%N then sget i (vslots n) else slot_at s v i.
Proof.
  intros G. unfold slot_at; cbn.
  induction (vols s) as [|x t IH]; cbn.
  - destruct (v =? vid n)%N; reflexivity.
  - cbn in G. destruct (vid n =? vid x)%N eqn:E; [discriminate|].
    destruct (vid n <? vid x)%N; cbn.
    + destruct (v =? vid n)%N; reflexivity.
    + destruct (v =? vid x)%N eqn:Ev.
      * destruct (v =? vid n)%N eqn:Ev2; [|reflexivity].
        apply N.eqb_eq in Ev, Ev2. rewrite Ev in Ev2. rewrite Ev2, N.eqb_refl in E. discriminate.
      * apply IH; exact G.
Qed.

Lemma sget_app_new i l (new : list N) :
  sget i (l ++ map (fun j => (j, None)) new) =
  match sget i l with Some x => Some x | None => if mem i new then Some None else None end.
Proof.
  induction l as [|[j y] t IH]; cbn.
  - induction new as [|a new IH]; cbn; [reflexivity|].
    destruct (i =? a)%N; cbn; auto.
  - destruct (i =? j)%N; auto.
Qed.

(* meta operations neither create, move nor clear an occupied slot, and only add known roots *)
Lemma meta_same_slots o s : meta_op o = true -> same_slots s (fst (step s o)).
Proof.
  intros M. destruct o; try discriminate; cbn [step].
  all: try (apply same_slots_vols; reflexivity).
  - (* AddVol *) unfold add_vol. destruct (vget v (vols s)) eqn:G; cbn [fst]; [apply same_slots_vols; reflexivity|].
    intros w i r. rewrite slot_at_vins by exact G. cbn.
    destruct (w =? v)%N eqn:E; [|tauto]. apply N.eqb_eq in E; subst w.
    unfold slot_at. rewrite G. split; discriminate.
  - (* Grow *) unfold grow, stat_inc, fin, bind. repeat brk; cbn [fst]; try (apply same_slots_vols; reflexivity).
    intros w i r. unfold slot_at; cbn.
    destruct (N.eq_dec w v) as [->|Hne].
    + rewrite (vget_vupd_same v _ _ v0) by (auto; reflexivity). rewrite Heqo. cbn.
      rewrite sget_app_new. destruct (sget i (vslots v0)) as [x|]; [tauto|].
      destruct (mem i _); split; discriminate.
    + rewrite vget_vupd_other; [tauto|reflexivity|congruence].
  - (* SetRO *) intros w i r. unfold slot_at, set_flag; cbn.
    destruct (N.eq_dec w v) as [->|Hne].
    + destruct (vget v (vols s)) as [vl|] eqn:G.
      * rewrite (vget_vupd_same v _ _ vl) by (auto; reflexivity). cbn. tauto.
      * rewrite vupd_none by auto. rewrite G. tauto.
    + rewrite vget_vupd_other; [tauto|reflexivity|congruence].
  - (* SetAvail *) intros w i r. unfold slot_at, set_flag; cbn.
    destruct (N.eq_dec w v) as [->|Hne].
    + destruct (vget v (vols s)) as [vl|] eqn:G.
      * rewrite (vget_vupd_same v _ _ vl) by (auto; reflexivity). cbn. tauto.
      * rewrite vupd_none by auto. rewrite G. tauto.
    + rewrite vget_vupd_other; [tauto|reflexivity|congruence].
  - unfold add_temps, stat_inc, fin, bind. repeat brk; apply same_slots_vols; reflexivity.
  - unfold add_temp1, stat_inc, fin, bind. repeat brk; apply same_slots_vols; reflexivity.
  - unfold expire_temp, stat_inc, fin, bind. repeat brk; apply same_slots_vols; reflexivity.
  - unfold add_contract, fin. repeat brk; apply same_slots_vols; reflexivity.
  - unfold revise_v1, fin, bind. repeat brk; apply same_slots_vols; reflexivity.
  - unfold revise_v2, stat_inc, fin, bind. repeat brk; apply same_slots_vols; reflexivity.
  - unfold renew, fin. repeat brk; apply same_slots_vols; reflexivity.
  - unfold expire_cons. set (l' := map _ (cons s)). unfold stat_inc, fin, bind. repeat brk; apply same_slots_vols; reflexivity.
  - unfold expire_cons. set (l' := map _ (cons s)). unfold stat_inc, fin, bind. repeat brk; apply same_slots_vols; reflexivity.
  - unfold drop_root, stat_inc, fin, bind. repeat brk; apply same_slots_vols; reflexivity.
  - unfold drop_temp, stat_inc, fin, bind. repeat brk; apply same_slots_vols; reflexivity.
Qed.

Lemma mem_cons_or r x l : mem r (x :: l) = true <-> r = x \/ mem r l = true.
Proof. cbn. rewrite Bool.orb_true_iff, N.eqb_eq. tauto. Qed.

Lemma meta_known o s r : meta_op o = true -> mem r (known s) = true -> mem r (known (fst (step s o))) = true.
Proof.
  intros M H. destruct o; try discriminate; cbn [step]; try exact H.
  - unfold add_vol. repeat brk; exact H.
  - unfold grow, stat_inc, fin, bind. repeat brk; exact H.
  - unfold add_temps, stat_inc, fin, bind. repeat brk; exact H.
  - unfold add_temp1, stat_inc, fin, bind. repeat brk; exact H.
  - unfold expire_temp, stat_inc, fin, bind. repeat brk; exact H.
  - unfold add_contract, fin. repeat brk; exact H.
  - unfold revise_v1, fin, bind. repeat brk; exact H.
  - unfold revise_v2, stat_inc, fin, bind. repeat brk; exact H.
  - unfold renew, fin. repeat brk; exact H.
  - unfold expire_cons. set (l' := map _ (cons s)). unfold stat_inc, fin, bind. repeat brk; exact H.
  - unfold expire_cons. set (l' := map _ (cons s)). unfold stat_inc, fin, bind. repeat brk; exact H.
  - unfold drop_root, stat_inc, fin, bind. repeat brk; exact H.
  - unfold drop_temp, stat_inc, fin, bind. repeat brk; exact H.
Qed.
