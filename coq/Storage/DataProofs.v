(* Storage/DataProofs.v — the data invariant behind C02 *)
From Coq Require Import Lia ZifyBool ZifyN ZifyNat.
From HostdBase Require Import Base.
From HostdStorage Require Import Model Lemmas Proofs Proofs2 Proofs3 DataModel DataLemmas.

Arguments stat_inc : simpl never.
Arguments vol_usage : simpl never.
Arguments set_slot : simpl never.
Arguments csum : simpl never.

Definition druns (d : dstate) (l : list dop) : dstate := fold_left (fun d o => fst (dstep d o)) l d.

(* the sector has a slot and reading that slot returns its bytes *)
Definition written (d : dstate) (r : N) : Prop :=
  exists v i, slot_at (md d) v i = Some (Some r) /\ content d v i = r.
(* ... now and after a crash *)
Definition durable (d : dstate) (r : N) : Prop :=
  exists v i, slot_at (md d) v i = Some (Some r) /\ content d v i = r /\ dcontent d v i = r.

Lemma durable_written d r : durable d r -> written d r.
Proof. intros [v [i [H1 [H2 _]]]]; exists v, i; auto. Qed.

Ltac brk :=
  match goal with
  | |- context [match ?x with _ => _ end] =>
      lazymatch x with
      | context [match _ with _ => _ end] => fail
      | _ => destruct x eqn:?
      end
  end.

(* [E]: the roots whose loss is excused — the targets of an operator's explicit RemoveSector
   (empty for the runs of c02_readable_partial, which contain none).
   A writer between slot commit and data write ("in flight") holds a slot that names its root;
   what the file holds at that slot is NOT constrained (it may be garbage, zeroes, or — after
   upload, prune, re-upload into the stale slot — already the very bytes of the sector).  Instead
   the two clauses about bytes are stated for sectors whose upload is complete: the cache is
   coherent for them, and a referenced sector is durably written AND not in flight. *)
Record dinvE (E : N -> Prop) (d : dstate) : Prop := mk_dinv {
  d_inv : inv (md d);
  d_known : forall r v i, slot_at (md d) v i = Some (Some r) -> mem r (known (md d)) = true;
  d_tids : NoDup (map fst (thr d));
  (* a writer between slot commit and data write holds a slot that names its root *)
  d_thr : forall t r v i, alookup t (thr d) = Some (r, v, i) -> slot_at (md d) v i = Some (Some r);
  d_troots : forall t t' x x', alookup t (thr d) = Some x -> alookup t' (thr d) = Some x' ->
            fst (fst x) = fst (fst x') -> t = t';
  (* the cache never holds other bytes for a completely uploaded sector than the ones written for it *)
  d_cache : forall r c, cget r (cache d) = Some c -> written d r -> in_flight r (thr d) = false -> c = r;
  (* every referenced sector is durably written, and its upload is complete *)
  d_refs : forall r, refd (md d) r = true -> ~ E r -> durable d r /\ in_flight r (thr d) = false }.
Arguments d_inv {E} d _.
Arguments d_known {E} d _.
Arguments d_tids {E} d _.
Arguments d_thr {E} d _.
Arguments d_troots {E} d _.
Arguments d_cache {E} d _.
Arguments d_refs {E} d _.


Lemma touch_md r d : md (touch r d) = md d.
Proof. unfold touch; destruct (mem r (fresh d)); reflexivity. Qed.
Lemma touch_thr r d : thr (touch r d) = thr d.
Proof. unfold touch; destruct (mem r (fresh d)); reflexivity. Qed.
Lemma touch_cache r d : cache (touch r d) = cache d.
Proof. unfold touch; destruct (mem r (fresh d)); reflexivity. Qed.
Lemma touch_files r d : disk (touch r d) = disk d /\ pend (touch r d) = pend d.
Proof. unfold touch; destruct (mem r (fresh d)); split; reflexivity. Qed.

(** * Steps the theorems are about *)
(* the sector's upload is complete: it has a slot whose bytes are its own, on stable storage, and
   no writer is between the slot commit and the data write for it *)
Definition settled (d : dstate) (r : N) : Prop := durable d r /\ in_flight r (thr d) = false.

(* (a) a store call that adds a reference adds it for a sector whose upload is complete and
       durable — what Write returning nil followed by Sync is meant to guarantee to the RPC
       handlers (and does not, on the "exists" path: known findings);
   (m) a migration does not move a sector whose upload is in flight (possible only when the slot
       handed to the writer already holds the very bytes of the sector — upload, prune, re-upload
       into the stale slot — because migrateSector verifies the root of what it reads; see
       migrate_in_flight_refuted for why it cannot be dropped);
   (c) no explicit sector deletion, no forced volume removal.
   The former clause "(b) a freshly reserved slot does not already contain the new sector's
   bytes" is gone: it is violated by ordinary executions and was an artefact of the invariant. *)
Definition step_ok (d : dstate) (o : dop) : Prop :=
  match o with
  | DMeta m => forall r, refd (md (fst (dstep d o))) r = true -> refd (md d) r = true \/ settled d r
  | DMigrate v _ calls => forall t r j to, alookup t (thr d) = Some (r, v, j) -> ~ In (j, to, 0%N) calls
  | DRemoveSector _ => False
  | DRemoveT _ force => force = false
  | _ => True
  end.

Fixpoint steps_ok (d : dstate) (l : list dop) : Prop :=
  match l with
  | [] => True
  | o :: t => step_ok d o /\ steps_ok (fst (dstep d o)) t
  end.

(** * Occupied slots under store calls without a data side *)
Definition same_refs (m m' : state) : Prop := cons m' = cons m /\ temps m' = temps m.
Definition same_slots (m m' : state) : Prop :=
  forall v i r, slot_at m' v i = Some (Some r) <-> slot_at m v i = Some (Some r).

Lemma refd_same m m' r : same_refs m m' -> refd m' r = refd m r.
Proof. intros [H1 H2]. unfold refd. now rewrite H1, H2. Qed.

Lemma same_slots_vols m m' : vols m' = vols m -> same_slots m m'.
Proof. intros H v i r. unfold slot_at. now rewrite H. Qed.

Lemma slot_at_vins s n v i :
  vget (vid n) (vols s) = None ->
  slot_at (with_vols s (vins n (vols s))) v i =
  if (v =? vid n)%N then sget i (vslots n) else slot_at s v i.
Proof.
  intros G. unfold slot_at; cbn.
  induction (vols s) as [|x t IH]; cbn.
  - destruct (v =? vid n)%N; reflexivity.
  - cbn in G. destruct (vid n =? vid x)%N eqn:E; [discriminate|].
    destruct (vid n <? vid x)%N; cbn.
    + destruct (v =? vid n)%N; reflexivity.
    + destruct (v =? vid x)%N eqn:Ev.
      * destruct (v =? vid n)%N eqn:Ev2; [|reflexivity].
        apply N.eqb_eq in Ev, Ev2. rewrite Ev in Ev2. rewrite Ev2, N.eqb_refl in E. discriminate.
      * apply IH; exact G.
Qed.

Lemma sget_app_new i l (new : list N) :
  sget i (l ++ map (fun j => (j, None)) new) =
  match sget i l with Some x => Some x | None => if mem i new then Some None else None end.
Proof.
  induction l as [|[j y] t IH]; cbn.
  - induction new as [|a new IH]; cbn; [reflexivity|].
    destruct (i =? a)%N; cbn; auto.
  - destruct (i =? j)%N; auto.
Qed.

(* meta operations neither create, move nor clear an occupied slot, and only add known roots *)
Lemma meta_same_slots o s : meta_op o = true -> same_slots s (fst (step s o)).
Proof.
  intros M. destruct o; try discriminate; cbn [step].
  all: try (apply same_slots_vols; reflexivity).
  - (* AddVol *) unfold add_vol. destruct (vget v (vols s)) eqn:G; cbn [fst]; [apply same_slots_vols; reflexivity|].
    intros w i r. rewrite slot_at_vins by exact G. cbn.
    destruct (w =? v)%N eqn:E; [|tauto]. apply N.eqb_eq in E; subst w.
    unfold slot_at. rewrite G. split; discriminate.
  - (* Grow *) unfold grow, stat_inc, fin, bind. repeat brk; cbn [fst]; try (apply same_slots_vols; reflexivity).
    all: intros w i r; unfold slot_at; cbn;
      destruct (N.eq_dec w v) as [->|Hne];
      [ rewrite (vget_vupd_same v _ _ v0) by (auto; reflexivity); rewrite Heqo; cbn;
        rewrite sget_app_new; destruct (sget i (vslots v0)) as [x|]; [tauto|];
        destruct (mem i _); split; discriminate
      | rewrite vget_vupd_other; [tauto|reflexivity|congruence] ].
  - (* SetRO *) intros w i r. unfold slot_at, set_flag; cbn.
    destruct (N.eq_dec w v) as [->|Hne].
    + destruct (vget v (vols s)) as [vl|] eqn:G.
      * rewrite (vget_vupd_same v _ _ vl) by (auto; reflexivity). cbn. tauto.
      * rewrite vupd_none by auto. rewrite G. tauto.
    + rewrite vget_vupd_other; [tauto|reflexivity|congruence].
  - (* SetAvail *) intros w i r. unfold slot_at, set_flag; cbn.
    destruct (N.eq_dec w v) as [->|Hne].
    + destruct (vget v (vols s)) as [vl|] eqn:G.
      * rewrite (vget_vupd_same v _ _ vl) by (auto; reflexivity). cbn. tauto.
      * rewrite vupd_none by auto. rewrite G. tauto.
    + rewrite vget_vupd_other; [tauto|reflexivity|congruence].
  - unfold add_temps, stat_inc, fin, bind. repeat brk; apply same_slots_vols; reflexivity.
  - unfold add_temp1, stat_inc, fin, bind. repeat brk; apply same_slots_vols; reflexivity.
  - unfold expire_temp, stat_inc, fin, bind. repeat brk; apply same_slots_vols; reflexivity.
  - unfold add_contract, fin. repeat brk; apply same_slots_vols; reflexivity.
  - unfold revise_v1, fin, bind. repeat brk; apply same_slots_vols; reflexivity.
  - unfold revise_v2, stat_inc, fin, bind. repeat brk; apply same_slots_vols; reflexivity.
  - unfold renew, fin. repeat brk; apply same_slots_vols; reflexivity.
  - unfold expire_cons. set (l' := map _ (cons s)). unfold stat_inc, fin, bind. repeat brk; apply same_slots_vols; reflexivity.
  - unfold expire_cons. set (l' := map _ (cons s)). unfold stat_inc, fin, bind. repeat brk; apply same_slots_vols; reflexivity.
  - unfold drop_root, stat_inc, fin, bind. repeat brk; apply same_slots_vols; reflexivity.
  - unfold drop_temp, stat_inc, fin, bind. repeat brk; apply same_slots_vols; reflexivity.
Qed.

Lemma mem_cons_or r x l : mem r (x :: l) = true <-> r = x \/ mem r l = true.
Proof. cbn. rewrite Bool.orb_true_iff, N.eqb_eq. tauto. Qed.

Lemma meta_known o s r : meta_op o = true -> mem r (known s) = true -> mem r (known (fst (step s o))) = true.
Proof.
  intros M H. destruct o; try discriminate; cbn [step]; try exact H.
  - unfold add_vol. repeat brk; exact H.
  - unfold grow, stat_inc, fin, bind. repeat brk; exact H.
  - unfold add_temps, stat_inc, fin, bind. repeat brk; exact H.
  - unfold add_temp1, stat_inc, fin, bind. repeat brk; exact H.
  - unfold expire_temp, stat_inc, fin, bind. repeat brk; exact H.
  - unfold add_contract, fin. repeat brk; exact H.
  - unfold revise_v1, fin, bind. repeat brk; exact H.
  - unfold revise_v2, stat_inc, fin, bind. repeat brk; exact H.
  - unfold renew, fin. repeat brk; exact H.
  - unfold expire_cons. set (l' := map _ (cons s)). unfold stat_inc, fin, bind. repeat brk; exact H.
  - unfold expire_cons. set (l' := map _ (cons s)). unfold stat_inc, fin, bind. repeat brk; exact H.
  - unfold drop_root, stat_inc, fin, bind. repeat brk; exact H.
  - unfold drop_temp, stat_inc, fin, bind. repeat brk; exact H.
Qed.

(** * Thread table *)
Lemma alookup_in {V} t (l : list (N * V)) x : alookup t l = Some x -> In (t, x) l.
Proof.
  induction l as [|[k y] l IH]; cbn; [discriminate|].
  destruct (t =? k)%N eqn:E; [apply N.eqb_eq in E; subst; intros [= ->]; now left|intros H; right; auto].
Qed.

Lemma alookup_none_notin {V} t (l : list (N * V)) : alookup t l = None -> ~ In t (map fst l).
Proof.
  induction l as [|[k y] l IH]; cbn; [tauto|].
  destruct (t =? k)%N eqn:E; [discriminate|]. apply N.eqb_neq in E. intros H [H1|H1]; [congruence|now apply IH].
Qed.

Lemma alookup_aremove {V} t t' (l : list (N * V)) x :
  NoDup (map fst l) -> alookup t' (aremove t l) = Some x -> t' <> t /\ alookup t' l = Some x.
Proof.
  induction l as [|[k y] l IH]; cbn; [discriminate|]. intros Hnd; inversion Hnd as [|? ? Hni Hnd']; subst.
  destruct (t =? k)%N eqn:E.
  - apply N.eqb_eq in E; subst k. intros H. split.
    + intros ->. apply alookup_in in H. apply Hni. change t with (fst (t, x)). now apply in_map.
    + destruct (t' =? t)%N eqn:E2; [|exact H].
      apply N.eqb_eq in E2; subst. apply alookup_in in H. exfalso; apply Hni.
      change t with (fst (t, x)). now apply in_map.
  - cbn. destruct (t' =? k)%N eqn:E2.
    + intros [= ->]. split; [|reflexivity]. apply N.eqb_eq in E2; subst. apply N.eqb_neq in E. congruence.
    + intros H. now apply IH.
Qed.

Lemma aremove_nodup {V} t (l : list (N * V)) : NoDup (map fst l) -> NoDup (map fst (aremove t l)).
Proof.
  induction l as [|[k y] l IH]; cbn; [auto|]. intros Hnd; inversion Hnd as [|? ? Hni Hnd']; subst.
  destruct (t =? k)%N; cbn; [auto|]. constructor; [|auto].
  intros Hin. apply Hni. clear - Hin. induction l as [|[k' y'] l IH]; cbn in *; [tauto|].
  destruct (t =? k')%N; cbn in *; [now right|]. destruct Hin; [now left|right; auto].
Qed.

Lemma in_alookup {V} t (l : list (N * V)) x : NoDup (map fst l) -> In (t, x) l -> alookup t l = Some x.
Proof.
  induction l as [|[k y] l IH]; cbn; [tauto|]. intros Hnd; inversion Hnd as [|? ? Hni Hnd']; subst.
  intros [H|H].
  - injection H as -> ->. now rewrite N.eqb_refl.
  - destruct (t =? k)%N eqn:E; [|auto]. apply N.eqb_eq in E; subst k. exfalso. apply Hni.
    change t with (fst (t, x)). now apply in_map.
Qed.

(** * Uploads in flight *)
Lemma in_flight_cons r t q v i (l : list (N * (N * N * N))) :
  in_flight r ((t, (q, v, i)) :: l) = (q =? r)%N || in_flight r l.
Proof. reflexivity. Qed.

Lemma in_flight_true r (l : list (N * (N * N * N))) :
  NoDup (map fst l) -> in_flight r l = true -> exists t v i, alookup t l = Some (r, v, i).
Proof.
  intros ND H. unfold in_flight in H. apply existsb_exists in H as [[t [[q v] i]] [Hin Hq]].
  cbn in Hq. apply N.eqb_eq in Hq; subst q. exists t, v, i. now apply in_alookup.
Qed.

Lemma in_flight_aremove_false r t (l : list (N * (N * N * N))) :
  in_flight r l = false -> in_flight r (aremove t l) = false.
Proof.
  induction l as [|[k [[q v] i]] l IH]; cbn [aremove]; [auto|].
  rewrite in_flight_cons. intros H. apply Bool.orb_false_iff in H as [H1 H2].
  destruct (t =? k)%N; [exact H2|]. rewrite in_flight_cons, H1. cbn. auto.
Qed.

Lemma in_flight_aremove_other (l : list (N * (N * N * N))) t r v i q :
  alookup t l = Some (r, v, i) -> q <> r -> in_flight q (aremove t l) = in_flight q l.
Proof.
  induction l as [|[k [[r' v'] i']] l IH]; cbn [aremove alookup]; [discriminate|].
  intros H Hq. rewrite in_flight_cons. destruct (t =? k)%N.
  - injection H as -> _ _. replace (r =? q)%N with false; [reflexivity|]. symmetry. apply N.eqb_neq. congruence.
  - rewrite in_flight_cons. f_equal. now apply IH.
Qed.

(** * Transfer of written / durable between states *)
Lemma written_transfer d d' r :
  (forall v i, slot_at (md d) v i = Some (Some r) -> slot_at (md d') v i = Some (Some r) /\ content d' v i = content d v i) ->
  written d r -> written d' r.
Proof. intros H [v [i [S C]]]. destruct (H v i S) as [S' C']. exists v, i; split; auto; congruence. Qed.

Lemma durable_transfer d d' r :
  (forall v i, slot_at (md d) v i = Some (Some r) ->
     slot_at (md d') v i = Some (Some r) /\ content d' v i = content d v i /\
     (dcontent d' v i = dcontent d v i \/ dcontent d' v i = content d v i)) ->
  durable d r -> durable d' r.
Proof.
  intros H [v [i [S [C D]]]]. destruct (H v i S) as [S' [C' D']].
  exists v, i; repeat split; auto; [congruence|]. destruct D'; congruence.
Qed.

(** * DReserve *)
Lemma reserve_facts r loc s s1 v i :
  inv s -> reserve r loc s = RPlaced s1 v i ->
  same_refs s s1 /\ mem r (known s1) = true /\ (forall q, mem q (known s) = true -> mem q (known s1) = true).
Proof.
  intros I. unfold reserve.
  destruct (vfind r (vols s)) as [[v0 j0]|] eqn:F; [destruct loc; discriminate|].
  destruct (has_free s); cbn [negb]; [|destruct loc; discriminate].
  destruct loc as [[v' i']|]; [|discriminate].
  destruct (valid_free s v' i') eqn:V; cbn [negb]; [|discriminate].
  destruct (vol_usage v' 1 (set_slot v' i' (Some r) (add_known r s))) as [s1'| |] eqn:U; try discriminate.
  intros [= <- <- <-].
  apply usage_set_slot in U as [vl' [G' [_ [Hv [Hm [Hk [Ht Hc]]]]]]].
  rewrite add_known_temps in Ht. rewrite add_known_cons in Hc.
  split; [split; assumption|]. rewrite Hk. unfold add_known.
  destruct (mem r (known s)) eqn:K; cbn; [auto|].
  split; [now rewrite N.eqb_refl|]. intros q Hq. rewrite Hq. now rewrite Bool.orb_true_r.
Qed.

Lemma add_known_mem r s q : mem q (known s) = true -> mem q (known (add_known r s)) = true.
Proof.
  unfold add_known. destruct (mem r (known s)); cbn; [auto|]. intros ->. now rewrite Bool.orb_true_r.
Qed.

(** * DWrite *)
Lemma rollback_facts r v i s s' o :
  inv s -> slot_at s v i = Some (Some r) -> rollback r v i s = (s', o) ->
  inv s' /\ same_refs s s' /\ known s' = known s /\
  (forall w j q, slot_at s' w j = Some (Some q) -> slot_at s w j = Some (Some q)) /\
  (forall w j q, slot_at s w j = Some (Some q) -> q <> r -> slot_at s' w j = Some (Some q)) /\
  (forall w j, slot_at s' w j <> Some (Some r)).
Proof.
  intros I S R. pose proof (inv_rollback r v i s I) as I'. rewrite R in I'. cbn in I'.
  unfold rollback in R.
  pose proof S as S0.
  unfold slot_at in S. unfold slots_of in R.
  destruct (vget v (vols s)) as [vl|] eqn:G; [|discriminate]. rewrite S in R.
  rewrite N.eqb_refl in R.
  (* under the metadata invariant the usage update of an occupied slot cannot fail *)
  destruct (occupied_used s v vl i r I G S) as [H1 H2].
  assert (G0 : vget v (vols (set_slot v i None s)) = Some (set_slots vl (sset i None (vslots vl)))).
  { unfold set_slot; cbn. now rewrite (vget_vupd_same v _ _ vl) by (auto; reflexivity). }
  destruct (vol_usage_some v (-1) _ _ G0) as [s2 U]; [cbn; lia|unfold set_slot; cbn; lia|].
  rewrite U in R. injection R as <- _.
  apply usage_set_slot in U as [vl' [G' [_ [Hv [Hm [Hk [Ht Hc]]]]]]].
  rewrite G in G'; injection G' as <-.
  pose proof (slot_at_wr s s2 v i None (-1) vl G Hv) as SA. rewrite S in SA.
  split; [exact I'|]. split; [split; assumption|]. split; [exact Hk|]. split; [|split].
  - intros w j q H. rewrite SA in H. destruct ((w =? v)%N && (j =? i)%N); [discriminate|exact H].
  - intros w j q H Hq. rewrite SA. destruct ((w =? v)%N && (j =? i)%N) eqn:E; [|exact H].
    apply Bool.andb_true_iff in E as [E1 E2]. apply N.eqb_eq in E1, E2; subst.
    unfold slot_at in H. rewrite G, S in H. congruence.
  - intros w j H. rewrite SA in H. destruct ((w =? v)%N && (j =? i)%N) eqn:E; [discriminate|].
    destruct (slot_injective s w j v i r I H S0) as [-> ->]. now rewrite !N.eqb_refl in E.
Qed.

Lemma content_kset d v i c dk w j :
  content (with_files d dk (kset v i c (pend d))) w j =
  if (w =? v)%N && (j =? i)%N then c
  else match kget w j (pend d) with Some x => x | None => match kget w j dk with Some x => x | None => 0%N end end.
Proof. unfold content; cbn. destruct ((w =? v)%N && (j =? i)%N); reflexivity. Qed.

(** * DSync, DRead, DResizeCache, DCrash, DRestart *)
Lemma fold_sync_dcontent l d v i :
  dcontent (fold_left (fun a w => sync_vol w a) l d) v i = dcontent d v i \/
  dcontent (fold_left (fun a w => sync_vol w a) l d) v i = content d v i.
Proof.
  revert d; induction l as [|w t IH]; intros d; cbn; [now left|].
  destruct (IH (sync_vol w d)) as [H|H]; rewrite H.
  - rewrite dcontent_sync_vol. destruct (v =? w)%N; auto.
  - right. apply content_sync_vol.
Qed.

Lemma locate_slot s r v i : inv s -> locate r s = Some (v, i) -> slot_at s v i = Some (Some r).
Proof.
  intros I. unfold locate. destruct (mem r (known s)); [|discriminate]. intros H. now apply vfind_iff.
Qed.

(** * DPrune *)
Lemma slot_at_pruned f s m w j :
  slot_at (with_mets (with_vols s (map (pvol f) (vols s))) m) w j =
  match slot_at s w j with
  | Some (Some q) => if f q then Some (Some q) else Some None
  | o => o
  end.
Proof.
  unfold slot_at; cbn. rewrite vget_map_pvol. destruct (vget w (vols s)) as [vl|]; cbn; [|reflexivity].
  apply sget_pslots.
Qed.

Lemma in_flight_spec r (l : list (N * (N * N * N))) t v i : alookup t l = Some (r, v, i) -> in_flight r l = true.
Proof.
  intros H. apply alookup_in in H. unfold in_flight. apply existsb_exists.
  exists (t, (r, v, i)); split; [exact H|cbn; apply N.eqb_refl].
Qed.

Lemma in_flight_false r (l : list (N * (N * N * N))) t q v i :
  in_flight r l = false -> alookup t l = Some (q, v, i) -> q <> r.
Proof. intros H A ->. now rewrite (in_flight_spec r l t v i A) in H. Qed.

(** * DShrinkT, DRemoveT *)
Lemma sget_filter_lt n j (l : slots) :
  sget j (filter (fun y => (fst y <? n)%N) l) = if (j <? n)%N then sget j l else None.
Proof.
  induction l as [|[k y] t IH]; cbn; [destruct (j <? n)%N; reflexivity|].
  destruct (k <? n)%N eqn:E; cbn.
  - destruct (j =? k)%N eqn:Ej; [|exact IH]. apply N.eqb_eq in Ej; subst. now rewrite E.
  - destruct (j =? k)%N eqn:Ej; [|exact IH]. apply N.eqb_eq in Ej; subst. rewrite E.
    rewrite IH, E. reflexivity.
Qed.

Lemma shrink_facts v n s m :
  shrink v n s = Ok m ->
  same_refs s m /\ known m = known s /\
  (forall w j q, slot_at s w j = Some (Some q) -> slot_at m w j = Some (Some q) /\ (w <> v \/ (j < n)%N)) /\
  (forall w j q, slot_at m w j = Some (Some q) -> slot_at s w j = Some (Some q)).
Proof.
  unfold shrink. destruct (n =? 0)%N; [discriminate|].
  destruct (vget v (vols s)) as [vl|] eqn:G.
  2:{ destruct (existsb _ []); discriminate. }
  destruct (existsb (fun x => (n <=? fst x)%N && is_some (snd x)) (vslots vl)) eqn:E0; [discriminate|].
  destruct (vtotal vl <? Z.of_N n)%Z; [discriminate|].
  destruct (stat_inc _ _) as [t| |]; cbn [bind]; try discriminate. intros [= <-].
  split; [split; reflexivity|]. split; [reflexivity|].
  assert (SA : forall w j, slot_at (with_mets (with_vols s (vupd v (fun x => set_total (set_slots x (filter (fun y => (fst y <? n)%N) (vslots x))) (Z.of_N n)) (vols s))) (set_mTotal (mets s) t)) w j =
                 if (w =? v)%N then (if (j <? n)%N then sget j (vslots vl) else None) else slot_at s w j).
  { intros w j. unfold slot_at; cbn. destruct (w =? v)%N eqn:E.
    - apply N.eqb_eq in E; subst. rewrite (vget_vupd_same v _ _ vl) by (auto; reflexivity). cbn. apply sget_filter_lt.
    - apply N.eqb_neq in E. rewrite vget_vupd_other; [reflexivity|reflexivity|congruence]. }
  split.
  - intros w j q H. rewrite SA. destruct (w =? v)%N eqn:E.
    + apply N.eqb_eq in E; subst. unfold slot_at in H. rewrite G in H.
      pose proof (existsb_false _ _ E0 (j, Some q) (sget_in _ _ _ H)) as Hx. cbn in Hx.
      rewrite Bool.andb_true_r in Hx. replace (j <? n)%N with true by lia. split; [exact H|right; lia].
    + apply N.eqb_neq in E. split; [exact H|now left].
  - intros w j q H. rewrite SA in H. destruct (w =? v)%N eqn:E; [|exact H].
    apply N.eqb_eq in E; subst. unfold slot_at. rewrite G. destruct (j <? n)%N; [exact H|discriminate].
Qed.

Lemma content_ktrunc d v n m w j : (w <> v \/ (j < n)%N) ->
  content (with_files (with_md d m) (ktrunc v n (disk d)) (ktrunc v n (pend d))) w j = content d w j /\
  dcontent (with_files (with_md d m) (ktrunc v n (disk d)) (ktrunc v n (pend d))) w j = dcontent d w j.
Proof.
  intros H. unfold content, dcontent; cbn. now rewrite !kget_ktrunc_keep by exact H.
Qed.

Lemma wsum_occ_zero (l : slots) j q : wsum occ1 l = 0%Z -> sget j l <> Some (Some q).
Proof.
  induction l as [|[k y] t IH]; cbn [wsum sget]; [discriminate|].
  pose proof (wsum_nonneg occ1 t occ1_nonneg) as H1. pose proof (occ1_nonneg y) as H2.
  intros Hz. destruct (j =? k)%N.
  - intros E. injection E as E. subst y. cbn [occ1] in *. lia.
  - apply IH. lia.
Qed.

Lemma vget_vdel_other v w l : v <> w -> vget w (vdel v l) = vget w l.
Proof.
  intros Hne. induction l as [|x t IH]; cbn; [reflexivity|].
  destruct (v =? vid x)%N eqn:E; cbn.
  - apply N.eqb_eq in E. destruct (w =? vid x)%N eqn:E2; [apply N.eqb_eq in E2; congruence|reflexivity].
  - destruct (w =? vid x)%N; [reflexivity|exact IH].
Qed.

Lemma remove_facts v s m :
  inv s -> remove_vol v false s = Ok m ->
  same_refs s m /\ known m = known s /\
  (forall w j q, slot_at s w j = Some (Some q) -> slot_at m w j = Some (Some q) /\ w <> v) /\
  (forall w j q, slot_at m w j = Some (Some q) -> slot_at s w j = Some (Some q)).
Proof.
  intros I. unfold remove_vol. destruct (vget v (vols s)) as [vl|] eqn:G; [|discriminate].
  cbn [negb andb]. destruct (wsum occ1 (vslots vl) =? 0)%Z eqn:Z0; cbn [negb]; [|discriminate].
  destruct (stat_inc _ _) as [p| |]; cbn [bind]; try discriminate.
  destruct (stat_inc _ _) as [lo| |]; cbn [bind]; try discriminate.
  destruct (stat_inc _ _) as [t| |]; cbn [bind]; try discriminate. intros [= <-].
  split; [split; reflexivity|]. split; [reflexivity|].
  assert (Hempty : forall j q, slot_at s v j <> Some (Some q)).
  { intros j q. unfold slot_at. rewrite G. apply wsum_occ_zero. lia. }
  split.
  - intros w j q H. assert (Hw : w <> v) by (intros ->; eapply Hempty; eauto). split; [|exact Hw].
    unfold slot_at in *; cbn. rewrite vget_vdel_other; auto.
  - intros w j q H. unfold slot_at in *; cbn in H. destruct (N.eq_dec w v) as [->|Hw].
    + exfalso. destruct (vget v (vdel v (vols s))) as [x|] eqn:Gx; [|discriminate].
      apply vget_in in Gx as [Gin Gv]. pose proof (inv_vids s I) as Hnd.
      clear - Gin Gv Hnd G. induction (vols s) as [|y t IH]; cbn in *; [tauto|].
      inversion Hnd as [|? ? Hni Hnd']; subst. destruct (vid x =? vid y)%N eqn:E.
      * apply N.eqb_eq in E. apply Hni. rewrite <- E. now apply in_map.
      * cbn in Gin. destruct Gin as [->|Gin]; [now rewrite N.eqb_refl in E|]. apply IH; auto.
    + rewrite vget_vdel_other in H; auto.
Qed.

(** * DMigrate *)
Lemma mig_move_slots v idx r to s s' vl tl :
  vget v (vols s) = Some vl -> sget idx (vslots vl) = Some (Some r) ->
  vget (fst to) (vols s) = Some tl -> sget (snd to) (vslots tl) = Some None ->
  mig_move v idx r to s = Ok s' ->
  forall w j, slot_at s' w j =
    if (w =? fst to)%N && (j =? snd to)%N then Some (Some r)
    else if (w =? v)%N && (j =? idx)%N then Some None
    else slot_at s w j.
Proof.
  intros G S Gt St M. destruct (mig_move_vols v idx r to s s' M) as [Hv _].
  set (sa := with_vols s (vupd v (wr idx None (-1)) (vols s))).
  pose proof (slot_at_wr s sa v idx None (-1) vl G eq_refl) as SA. rewrite S in SA.
  assert (Gta : exists tl', vget (fst to) (vols sa) = Some tl' /\ sget (snd to) (vslots tl') = Some None).
  { cbn. destruct (N.eq_dec v (fst to)) as [E|Hne].
    - rewrite <- E in *. rewrite G in Gt; injection Gt as <-.
      rewrite (vget_vupd_same v _ (vols s) vl); [|reflexivity|exact G].
      eexists; split; [reflexivity|]. cbn [vslots wr set_used set_slots]. rewrite sget_sset_other; [exact St|].
      intros Heq. rewrite Heq in S. congruence.
    - rewrite vget_vupd_other; [|reflexivity|exact Hne]. eauto. }
  destruct Gta as [tl' [Gt' St']].
  pose proof (slot_at_wr sa s' (fst to) (snd to) (Some r) 1 tl' Gt' Hv) as SB. rewrite St' in SB.
  intros w j. rewrite SB. destruct ((w =? fst to)%N && (j =? snd to)%N); [reflexivity|]. apply SA.
Qed.

Lemma andb_loc w j v i : (w =? v)%N && (j =? i)%N = true <-> w = v /\ j = i.
Proof. rewrite Bool.andb_true_iff, !N.eqb_eq. tauto. Qed.


Section Excused.
Variable XE : N -> Prop.
Local Notation dinv := (dinvE XE).
Lemma dinv_init n : dinv (dinit n).
Proof.
  constructor.
  - apply inv_init.
  - intros r v i H; discriminate.
  - constructor.
  - intros t r v i H; discriminate.
  - intros t t' x x' H; discriminate.
  - intros r c H; discriminate.
  - intros r H; discriminate.
Qed.

(* the invariant only looks at the database, the writers, the cache and the file contents *)
Lemma dinv_same d d' :
  md d' = md d -> thr d' = thr d -> cache d' = cache d ->
  (forall v i, content d' v i = content d v i) ->
  (forall v i, dcontent d' v i = dcontent d v i \/ dcontent d' v i = content d v i) ->
  dinv d -> dinv d'.
Proof.
  intros Em Et Ec Hc Hd [I1 I2 I3 I4 I4' I5 I6].
  constructor; rewrite ?Em, ?Et, ?Ec; auto.
  - intros r c H [v [i [S C]]]. apply (I5 r c H). exists v, i. rewrite Em in S. split; [exact S|]. now rewrite <- Hc.
  - intros r H HE. destruct (I6 r H HE) as [[v [i [S [C D]]]] NF]. split; [|exact NF]. exists v, i. rewrite Em. split; [exact S|].
    rewrite Hc. split; [exact C|]. destruct (Hd v i) as [E|E]; rewrite E; auto.
Qed.

Lemma dinv_touch r d : dinv d -> dinv (touch r d).
Proof.
  apply dinv_same; try (unfold touch; destruct (mem r (fresh d)); reflexivity).
  intros v i; left. unfold touch; destruct (mem r (fresh d)); reflexivity.
Qed.

(** * DMeta *)
Lemma dinv_meta d o : dinv d -> step_ok d (DMeta o) -> dinv (fst (dstep d (DMeta o))).
Proof.
  intros I OK. cbn [step_ok dstep] in *. destruct (meta_op o) eqn:M; [|exact I].
  destruct (step (md d) o) as [m b] eqn:St. cbn [fst md with_md] in *.
  assert (Em : m = fst (step (md d) o)) by now rewrite St.
  pose proof (meta_same_slots o (md d) M) as SS. rewrite <- Em in SS.
  destruct I as [I1 I2 I3 I4 I4' I5 I6].
  constructor; cbn.
  - rewrite Em. now apply inv_step.
  - intros r v i H. apply SS in H. rewrite Em. apply meta_known; eauto.
  - exact I3.
  - intros t r v i H. apply SS. eapply I4; eauto.
  - exact I4'.
  - intros r c H W. apply (I5 r c H). destruct W as [v [i [S C]]]. exists v, i. split; [now apply SS|exact C].
  - intros r H HE. destruct (OK r H) as [H'|[H' NF]].
    + destruct (I6 r H' HE) as [Du NF]. split; [|exact NF].
      eapply durable_transfer; [|exact Du]. intros v i S. split; [now apply SS|auto].
    + split; [|exact NF]. eapply durable_transfer; [|exact H']. intros v i S. split; [now apply SS|auto].
Qed.

Lemma dinv_reserve d t r loc : dinv d -> dinv (fst (dstep d (DReserve t r loc))).
Proof.
  intros I. cbn [dstep]. unfold dreserve.
  destruct (alookup t (thr d)) eqn:T; [exact I|].
  destruct (reserve r loc (md d)) as [| |s1 v i|o|] eqn:R; cbn [fst]; try exact I.
  - (* exists *) apply dinv_touch. destruct I as [I1 I2 I3 I4 I4' I5 I6]. constructor; cbn.
    + now apply inv_add_known.
    + intros q v i H. unfold slot_at in H. rewrite add_known_vols in H. apply add_known_mem. eapply I2; eauto.
    + exact I3.
    + intros t' q v i H. unfold slot_at. rewrite add_known_vols. eapply I4; eauto.
    + exact I4'.
    + intros q c H [v [i [S C]]]. apply (I5 q c H). exists v, i; split; auto.
      cbn [md with_md] in S. unfold slot_at in *. now rewrite add_known_vols in S.
    + intros q H HE. unfold refd in H. rewrite add_known_cons, add_known_temps in H.
      destruct (I6 q H HE) as [Du NF]. split; [|exact NF].
      eapply durable_transfer; [|exact Du]. intros v i S. split; auto.
      cbn [md with_md]. unfold slot_at. now rewrite add_known_vols.
  - (* placed: whatever the slot's file contents are *)
    apply dinv_touch.
    destruct I as [I1 I2 I3 I4 I4' I5 I6].
    destruct (reserve_placed r loc (md d) s1 v i I1 R) as [J1 [F [-> [V [vl [G [S Hv]]]]]]].
    destruct (reserve_facts r (Some (v, i)) (md d) s1 v i I1 R) as [SR [K1 K2]].
    pose proof (slot_at_wr (md d) s1 v i (Some r) 1 vl G Hv) as SA. rewrite S in SA.
    assert (Hold : forall w j q, slot_at (md d) w j = Some (Some q) -> slot_at s1 w j = Some (Some q)).
    { intros w j q H. rewrite SA. destruct ((w =? v)%N && (j =? i)%N) eqn:E; [|exact H].
      apply Bool.andb_true_iff in E as [E1 E2]. apply N.eqb_eq in E1, E2; subst.
      unfold slot_at in H. rewrite G, S in H. discriminate. }
    assert (Hnew : forall w j q, slot_at s1 w j = Some (Some q) ->
                     (w = v /\ j = i /\ q = r) \/ slot_at (md d) w j = Some (Some q)).
    { intros w j q H. rewrite SA in H. destruct ((w =? v)%N && (j =? i)%N) eqn:E; [|now right].
      apply Bool.andb_true_iff in E as [E1 E2]. apply N.eqb_eq in E1, E2; subst. injection H as <-. now left. }
    assert (Hnoslot : forall w j, slot_at (md d) w j <> Some (Some r)).
    { intros w j H. exact (slot_at_none_vfind (md d) r I1 F w j H). }
    constructor; cbn [md thr cache with_md with_thr].
    + exact J1.
    + intros q w j H. apply Hnew in H as [[-> [-> ->]]|H]; [exact K1|]. apply K2. eapply I2; eauto.
    + cbn. constructor; [now apply alookup_none_notin|exact I3].
    + intros t' q w j H. cbn [alookup] in H. destruct (t' =? t)%N eqn:E.
      * injection H as <- <- <-. rewrite SA, !N.eqb_refl. reflexivity.
      * apply Hold. eapply I4; eauto.
    + intros t1 t2 x1 x2 H1 H2 E. cbn [alookup] in H1, H2.
      assert (Hnot : forall t' x', alookup t' (thr d) = Some x' -> fst (fst x') <> r).
      { intros t' [[q w] j] H' Heq. cbn in Heq; subst q. exact (Hnoslot w j (I4 t' r w j H')). }
      destruct (t1 =? t)%N eqn:E1; destruct (t2 =? t)%N eqn:E2.
      * apply N.eqb_eq in E1, E2; congruence.
      * injection H1 as <-. cbn in E. exfalso. eapply Hnot; eauto.
      * injection H2 as <-. cbn in E. exfalso. eapply Hnot; eauto.
      * eapply I4'; eauto.
    + intros q c H [w [j [S' C]]] NF. rewrite in_flight_cons in NF.
      apply Bool.orb_false_iff in NF as [Hq NF]. apply N.eqb_neq in Hq.
      apply (I5 q c H); [|exact NF].
      apply Hnew in S' as [[_ [_ ->]]|S']; [congruence|]. exists w, j; auto.
    + intros q H HE. rewrite (refd_same _ _ q SR) in H. destruct (I6 q H HE) as [Du NF].
      assert (Hq : q <> r). { intros ->. destruct Du as [w [j [S' _]]]. exact (Hnoslot w j S'). }
      split.
      * eapply durable_transfer; [|exact Du]. intros w j S'. split; [now apply Hold|auto].
      * rewrite in_flight_cons, NF. replace (r =? q)%N with false; [reflexivity|].
        symmetry. apply N.eqb_neq. congruence.
Qed.

Lemma dinv_write d t ok : dinv d -> dinv (fst (dstep d (DWrite t ok))).
Proof.
  intros I. cbn [dstep]. unfold dwrite.
  destruct (alookup t (thr d)) as [[[r v] i]|] eqn:T; [|exact I].
  destruct I as [I1 I2 I3 I4 I4' I5 I6].
  pose proof (I4 t r v i T) as St.
  pose proof (in_flight_spec r _ t v i T) as IFr.
  assert (Hothers : forall t' q w j, alookup t' (aremove t (thr d)) = Some (q, w, j) ->
            alookup t' (thr d) = Some (q, w, j) /\ q <> r /\ ~ (w = v /\ j = i)).
  { intros t' q w j H. apply alookup_aremove in H as [Hne H]; [|exact I3]. split; [exact H|].
    assert (Hq : q <> r).
    { intros ->. apply Hne. eapply (I4' t' t); eauto. }
    split; [exact Hq|]. intros [-> ->]. pose proof (I4 t' q v i H) as S'. congruence. }
  assert (NFr : in_flight r (aremove t (thr d)) = false).
  { destruct (in_flight r (aremove t (thr d))) eqn:E; [|reflexivity].
    apply in_flight_true in E as [t' [w [j E]]]; [|now apply aremove_nodup].
    destruct (Hothers t' r w j E) as [_ [Hq _]]. congruence. }
  destruct (ok && is_some (vget v (vols (md d)))) eqn:OK; cbn [fst].
  - (* data written *)
    constructor; cbn [md thr cache with_md with_thr with_files with_cache with_changed].
    + exact I1.
    + exact I2.
    + now apply aremove_nodup.
    + intros t' q w j H. destruct (Hothers t' q w j H) as [H' _]. eapply I4; eauto.
    + intros t1 t2 x1 x2 H1 H2 E. apply alookup_aremove in H1 as [_ H1]; [|exact I3].
      apply alookup_aremove in H2 as [_ H2]; [|exact I3]. eapply I4'; eauto.
    + intros q c H [w [j [S' C']]] NF. apply cget_cadd in H as [[-> ->]|[Hq H]]; [reflexivity|].
      rewrite (in_flight_aremove_other _ t r v i q T Hq) in NF.
      apply (I5 q c H); [|exact NF]. exists w, j. split; [exact S'|].
      cbn in S'. unfold content in *; cbn in C'.
      destruct ((w =? v)%N && (j =? i)%N) eqn:E; [|exact C'].
      apply Bool.andb_true_iff in E as [E1 E2]. apply N.eqb_eq in E1, E2; subst. congruence.
    + intros q H HE. destruct (I6 q H HE) as [[w [j [S' [C' D']]]] NF].
      assert (Hq : q <> r) by (intros ->; congruence).
      split; [|now apply in_flight_aremove_false]. exists w, j. cbn.
      assert (Hne : ~ (w = v /\ j = i)). { intros [-> ->]. congruence. }
      split; [exact S'|]. split; [|exact D'].
      unfold content in *; cbn. destruct ((w =? v)%N && (j =? i)%N) eqn:E; [|exact C'].
      apply Bool.andb_true_iff in E as [E1 E2]. apply N.eqb_eq in E1, E2. tauto.
  - (* failure: rollback *)
    destruct (rollback r v i (md d)) as [m o] eqn:R. cbn [fst].
    destruct (rollback_facts r v i (md d) m o I1 St R) as [J1 [SR [K [Hsub [Hkeep Hgone]]]]].
    constructor; cbn [md thr cache with_md with_thr with_files with_cache with_changed].
    + exact J1.
    + intros q w j H. rewrite K. eapply I2. eapply Hsub; eauto.
    + now apply aremove_nodup.
    + intros t' q w j H. destruct (Hothers t' q w j H) as [H' [Hq Hs]]. apply Hkeep; [|exact Hq]. eapply I4; eauto.
    + intros t1 t2 x1 x2 H1 H2 E. apply alookup_aremove in H1 as [_ H1]; [|exact I3].
      apply alookup_aremove in H2 as [_ H2]; [|exact I3]. eapply I4'; eauto.
    + intros q c H [w [j [S' C']]] NF.
      assert (Hq : q <> r) by (intros ->; exact (Hgone w j S')).
      rewrite (in_flight_aremove_other _ t r v i q T Hq) in NF.
      apply (I5 q c H); [|exact NF]. exists w, j. split; [eapply Hsub; eauto|exact C'].
    + intros q H HE. rewrite (refd_same _ _ q SR) in H. destruct (I6 q H HE) as [[w [j [S' [C' D']]]] NF].
      assert (Hq : q <> r) by (intros ->; congruence).
      split; [|now apply in_flight_aremove_false].
      exists w, j. cbn. split; [|auto]. apply Hkeep; [exact S'|exact Hq].
Qed.

Lemma dinv_sync d : dinv d -> dinv (dsync d).
Proof.
  intros [I1 I2 I3 I4 I4' I5 I6]. unfold dsync.
  constructor; cbn; rewrite ?fold_sync_md, ?fold_sync_thr, ?fold_sync_cache; auto.
  - intros r c H [v [i [S C]]]. apply (I5 r c H). exists v, i. cbn in S. rewrite fold_sync_md in S.
    split; [exact S|]. unfold content in C; cbn in C.
    fold (content (fold_left (fun a w => sync_vol w a) (changed d) d) v i) in C.
    now rewrite fold_sync_content in C.
  - intros r H HE. destruct (I6 r H HE) as [[v [i [S [C D]]]] NF]. split; [|exact NF]. exists v, i. cbn. rewrite fold_sync_md.
    split; [exact S|]. split.
    + unfold content; cbn. fold (content (fold_left (fun a w => sync_vol w a) (changed d) d) v i).
      now rewrite fold_sync_content.
    + unfold dcontent; cbn. fold (dcontent (fold_left (fun a w => sync_vol w a) (changed d) d) v i).
      destruct (fold_sync_dcontent (changed d) d v i) as [E|E]; rewrite E; auto.
Qed.

Lemma dinv_cache d c' :
  dinv d -> (forall r c, cget r c' = Some c -> written d r -> in_flight r (thr d) = false -> c = r) -> dinv (with_cache d c').
Proof.
  intros [I1 I2 I3 I4 I4' I5 I6] H. constructor; cbn; auto.
Qed.

Lemma dinv_read d r fail : dinv d -> dinv (fst (dstep d (DRead r fail))).
Proof.
  intros I. cbn [dstep]. unfold dread.
  destruct (cget r (cache d)) as [c|] eqn:Hc; cbn [fst].
  - apply dinv_cache; [exact I|]. intros q x H W NF. apply (d_cache d I q x); [|exact W|exact NF].
    cbn in H. destruct (q =? r)%N eqn:E.
    + apply N.eqb_eq in E; subst. injection H as <-. exact Hc.
    + apply N.eqb_neq in E. now rewrite cget_cdel_other in H.
  - destruct (locate r (md d)) as [[v i]|] eqn:L; [|exact I].
    destruct fail; cbn [fst]; [now apply dinv_touch|]. apply dinv_touch.
    apply dinv_cache; [exact I|]. intros q x H W NF.
    apply cget_cadd in H as [[-> ->]|[Hq H]]; [|apply (d_cache d I q x H W NF)].
    destruct W as [w [j [S C]]]. apply locate_slot in L; [|apply (d_inv d I)].
    destruct (slot_injective (md d) w j v i r (d_inv d I) S L) as [-> ->]. exact C.
Qed.

Lemma dinv_resize_cache d n : dinv d -> dinv (fst (dstep d (DResizeCache n))).
Proof.
  intros [I1 I2 I3 I4 I4' I5 I6]. cbn. constructor; cbn; auto.
  intros r c H W NF. apply cget_firstn in H. apply (I5 r c H W NF).
Qed.

Lemma dinv_crash d : dinv d -> dinv (dcrash d).
Proof.
  intros [I1 I2 I3 I4 I4' I5 I6]. constructor; cbn; auto; try discriminate.
  - constructor.
  - intros r H HE. destruct (I6 r H HE) as [[v [i [S [C D]]]] _]. split; [|reflexivity]. exists v, i. cbn.
    split; [exact S|]. unfold content, dcontent in *; cbn. auto.
Qed.

Lemma dinv_restart d : dinv d -> dinv (fst (dstep d DRestart)).
Proof.
  intros I. cbn [dstep]. destruct (thr d) eqn:T; [|exact I]. cbn [fst].
  destruct I as [I1 I2 I3 I4 I4' I5 I6]. constructor; cbn; auto; try discriminate.
  - constructor.
  - intros r H HE. destruct (I6 r H HE) as [[v [i [S [C D]]]] _]. split; [|reflexivity]. exists v, i. cbn.
    split; [exact S|]. unfold content, dcontent in *; cbn. rewrite kget_app.
    destruct (kget v i (pend d)); auto.
Qed.

Lemma dinv_prune d : dinv d -> dinv (fst (dstep d DPrune)).
Proof.
  intros I. cbn [dstep]. unfold dprune.
  set (f := fun r => refd (md d) r || mem r (fresh d) || in_flight r (thr d)).
  destruct (prune_with_ok f (md d) (d_inv d I)) as [m P]. rewrite P. cbn [dres fst].
  pose proof (inv_prune_with f (md d) _ (d_inv d I) P) as J1.
  destruct I as [I1 I2 I3 I4 I4' I5 I6].
  constructor; cbn [md with_md thr cache].
  - exact J1.
  - intros q w j H. rewrite slot_at_pruned in H. cbn.
    destruct (slot_at (md d) w j) as [[q'|]|] eqn:S; try discriminate.
    destruct (f q'); [|discriminate]. injection H as <-. eapply I2; eauto.
  - exact I3.
  - intros t q w j H. pose proof (I4 t q w j H) as S.
    rewrite slot_at_pruned, S. unfold f. rewrite (in_flight_spec q _ t w j H), Bool.orb_true_r. reflexivity.
  - exact I4'.
  - intros q c H [w [j [S C]]] NF. apply (I5 q c H); [|exact NF]. exists w, j. split; [|exact C].
    cbn [md with_md] in S. rewrite slot_at_pruned in S. destruct (slot_at (md d) w j) as [[q'|]|]; try discriminate.
    destruct (f q'); [exact S|discriminate].
  - intros q H HE. assert (H' : refd (md d) q = true) by exact H.
    destruct (I6 q H' HE) as [[w [j [S [C D]]]] NF]. split; [|exact NF]. exists w, j. split; [|auto].
    cbn [md with_md]. rewrite slot_at_pruned, S. unfold f. rewrite H'. reflexivity.
Qed.

Lemma dinv_shrink d v n : dinv d -> dinv (fst (dstep d (DShrinkT v n))).
Proof.
  intros I. cbn [dstep]. unfold dshrink. destruct (shrink v n (md d)) as [m| |] eqn:Sh; cbn [fst]; try exact I.
  pose proof (inv_shrink v n (md d) m (d_inv d I) Sh) as J1.
  destruct (shrink_facts v n (md d) m Sh) as [SR [K [Hkeep Hsub]]].
  destruct I as [I1 I2 I3 I4 I4' I5 I6].
  constructor; cbn [md with_md with_files thr cache].
  - exact J1.
  - intros q w j H. rewrite K. eapply I2. eapply Hsub; eauto.
  - exact I3.
  - intros t q w j H. pose proof (I4 t q w j H) as S. now destruct (Hkeep w j q S).
  - exact I4'.
  - intros q c H [w [j [S C]]] NF. apply (I5 q c H); [|exact NF]. exists w, j.
    pose proof (Hsub w j q S) as S0. destruct (Hkeep w j q S0) as [_ Hw].
    split; [exact S0|]. now rewrite (proj1 (content_ktrunc d v n m w j Hw)) in C.
  - intros q H HE. rewrite (refd_same _ _ q SR) in H. destruct (I6 q H HE) as [[w [j [S [C D]]]] NF].
    split; [|exact NF].
    destruct (Hkeep w j q S) as [S' Hw]. exists w, j. split; [exact S'|].
    destruct (content_ktrunc d v n m w j Hw) as [E1 E2]. rewrite E1, E2. auto.
Qed.

Lemma dinv_remove d v force : dinv d -> step_ok d (DRemoveT v force) -> dinv (fst (dstep d (DRemoveT v force))).
Proof.
  intros I OK. cbn in OK. subst force. cbn [dstep]. unfold dremove.
  destruct (remove_vol v false (md d)) as [m| |] eqn:R; cbn [fst]; try exact I.
  pose proof (inv_remove_vol v false (md d) m (d_inv d I) R) as J1.
  destruct (remove_facts v (md d) m (d_inv d I) R) as [SR [K [Hkeep Hsub]]].
  assert (Hc : forall w j, w <> v ->
     content (with_files (with_md d m) (knot v (disk d)) (knot v (pend d))) w j = content d w j /\
     dcontent (with_files (with_md d m) (knot v (disk d)) (knot v (pend d))) w j = dcontent d w j).
  { intros w j Hw. unfold content, dcontent; cbn. now rewrite !kget_knot_other by exact Hw. }
  destruct I as [I1 I2 I3 I4 I4' I5 I6].
  constructor; cbn [md with_md with_files thr cache].
  - exact J1.
  - intros q w j H. rewrite K. eapply I2. eapply Hsub; eauto.
  - exact I3.
  - intros t q w j H. pose proof (I4 t q w j H) as S. now destruct (Hkeep w j q S).
  - exact I4'.
  - intros q c H [w [j [S C]]] NF. apply (I5 q c H); [|exact NF]. exists w, j.
    pose proof (Hsub w j q S) as S0. destruct (Hkeep w j q S0) as [_ Hw].
    split; [exact S0|]. now rewrite (proj1 (Hc w j Hw)) in C.
  - intros q H HE. rewrite (refd_same _ _ q SR) in H. destruct (I6 q H HE) as [[w [j [S [C D]]]] NF].
    split; [|exact NF].
    destruct (Hkeep w j q S) as [S' Hw]. exists w, j. split; [exact S'|].
    destruct (Hc w j Hw) as [E1 E2]. rewrite E1, E2. auto.
Qed.

(* one successful migrateSector + swap, of a sector whose upload is complete *)
Lemma dinv_move d v idx r to m vl tl :
  dinv d -> in_flight r (thr d) = false ->
  vget v (vols (md d)) = Some vl -> sget idx (vslots vl) = Some (Some r) ->
  vget (fst to) (vols (md d)) = Some tl -> sget (snd to) (vslots tl) = Some None ->
  content d v idx = r ->
  mig_move v idx r to (md d) = Ok m ->
  let d1 := with_cache d (cadd (csize d) r r (cache d)) in
  dinv (with_md (sync_vol (fst to) (with_files d1 (disk d1) (kset (fst to) (snd to) r (pend d1)))) m).
Proof.
  intros I NFr G S Gt St Cr M d1.
  pose proof (mig_move_slots v idx r to (md d) m vl tl G S Gt St M) as SA.
  destruct (mig_move_vols v idx r to (md d) m M) as [_ [Hc [Ht Hk]]].
  pose proof (inv_mig_move v idx r to (md d) m vl tl (d_inv d I) G S Gt St M) as J1.
  assert (Sfrom : slot_at (md d) v idx = Some (Some r)) by (unfold slot_at; now rewrite G).
  assert (Sto : slot_at (md d) (fst to) (snd to) = Some None) by (unfold slot_at; now rewrite Gt).
  set (d2 := sync_vol (fst to) (with_files d1 (disk d1) (kset (fst to) (snd to) r (pend d1)))).
  assert (Cn : forall w j, content d2 w j = if (w =? fst to)%N && (j =? snd to)%N then r else content d w j).
  { intros w j. unfold d2. rewrite content_sync_vol. unfold content; cbn.
    destruct ((w =? fst to)%N && (j =? snd to)%N); reflexivity. }
  assert (Dn : forall w j, dcontent d2 w j = if (w =? fst to)%N then content d2 w j else dcontent d w j).
  { intros w j. unfold d2 at 1. rewrite dcontent_sync_vol. destruct (w =? fst to)%N; [|reflexivity].
    unfold d2. now rewrite content_sync_vol. }
  (* occupied slots other than the moved sector's are untouched *)
  assert (Hold : forall w j q, slot_at (md d) w j = Some (Some q) -> q <> r ->
             slot_at m w j = Some (Some q) /\ content d2 w j = content d w j).
  { intros w j q H Hq. rewrite SA, Cn.
    destruct ((w =? fst to)%N && (j =? snd to)%N) eqn:E1.
    { apply andb_loc in E1 as [-> ->]. congruence. }
    destruct ((w =? v)%N && (j =? idx)%N) eqn:E2; [|auto].
    apply andb_loc in E2 as [-> ->]. congruence. }
  assert (Hnew : forall w j q, slot_at m w j = Some (Some q) ->
             (q = r /\ w = fst to /\ j = snd to) \/ (q <> r /\ slot_at (md d) w j = Some (Some q))).
  { intros w j q H. rewrite SA in H.
    destruct ((w =? fst to)%N && (j =? snd to)%N) eqn:E1.
    { apply andb_loc in E1 as [-> ->]. injection H as <-. now left. }
    destruct ((w =? v)%N && (j =? idx)%N) eqn:E2; [discriminate|].
    right. split; [|exact H]. intros ->.
    destruct (slot_injective (md d) w j v idx r (d_inv d I) H Sfrom) as [-> ->].
    now rewrite !N.eqb_refl in E2. }
  destruct I as [I1 I2 I3 I4 I4' I5 I6].
  constructor; cbn [md with_md thr cache]; fold d2.
  - exact J1.
  - intros q w j H. rewrite Hk. apply Hnew in H as [[-> _]|[_ H]]; eapply I2; eauto.
  - exact I3.
  - intros t q w j H. cbn in H. pose proof (I4 t q w j H) as S'.
    assert (Hq : q <> r) by (eapply in_flight_false; eauto).
    now destruct (Hold w j q S' Hq).
  - exact I4'.
  - intros q c H [w [j [S' C']]] NF. change (content d2 w j = q) in C'. cbn in H, NF.
    apply cget_cadd in H as [[-> ->]|[Hq H]]; [reflexivity|].
    apply (I5 q c H); [|exact NF]. apply Hnew in S' as [[-> _]|[_ S']]; [congruence|].
    exists w, j. split; [exact S'|]. destruct (Hold w j q S' Hq) as [_ C2]. congruence.
  - intros q H HE. unfold refd in H. cbn in H. rewrite Hc, Ht in H. fold (refd (md d) q) in H.
    destruct (I6 q H HE) as [[w [j [S' [C' D']]]] NF].
    destruct (N.eq_dec q r) as [->|Hq].
    + split; [|exact NFr]. exists (fst to), (snd to). split; [rewrite SA, !N.eqb_refl; reflexivity|].
      change (content d2 (fst to) (snd to) = r /\ dcontent d2 (fst to) (snd to) = r).
      rewrite Dn, Cn, !N.eqb_refl. cbn. auto.
    + split; [|exact NF]. destruct (Hold w j q S' Hq) as [S2 C2]. exists w, j. split; [exact S2|].
      change (content d2 w j = q /\ dcontent d2 w j = q). rewrite Dn, C2.
      destruct (w =? fst to)%N; auto.
Qed.

Lemma dinv_migrate fuel : forall v start index calls mig fail d,
  dinv d ->
  (forall t r j to, alookup t (thr d) = Some (r, v, j) -> ~ In (j, to, 0%N) calls) ->
  dinv (fst (dmigrate fuel v start index calls mig fail d)).
Proof.
  induction fuel as [|f IH]; intros v start index calls mig fail d I NM; cbn [dmigrate]; [exact I|].
  destruct (next_occ index (slots_of v (md d)) None) as [[idx r]|] eqn:Nx.
  2:{ destruct calls; exact I. }
  destruct (mig_has_target (md d) v start); cbn [negb].
  2:{ destruct calls; exact I. }
  destruct calls as [|[[fidx to] code] rest]; [exact I|].
  assert (NM' : forall d', thr d' = thr d ->
             forall t r j to, alookup t (thr d') = Some (r, v, j) -> ~ In (j, to, 0%N) rest).
  { intros d' Et t q j to' H Hin. rewrite Et in H. apply (NM t q j to' H). now right. }
  destruct ((fidx =? idx)%N && mig_valid_target (md d) v start to) eqn:V; cbn [negb]; [|exact I].
  apply Bool.andb_true_iff in V as [Vi V]. apply N.eqb_eq in Vi; subst fidx.
  destruct (code =? 1)%N; [apply IH; [exact I|now apply NM']|].
  destruct (code =? 4)%N; [destruct (in_flight r (thr d)); [apply IH; [exact I|now apply NM']|exact I]|].
  apply next_occ_in in Nx as [Nx|Nx]; [discriminate|].
  destruct (slots_of_get v (md d) idx r (d_inv d I) Nx) as [vl [G S]].
  destruct (mig_valid_slot (md d) v start to V) as [tl [Gt St]].
  assert (Sfrom : slot_at (md d) v idx = Some (Some r)) by (unfold slot_at; now rewrite G).
  (* the cache entry added by readLocation is coherent *)
  assert (I1 : dinv (with_cache d (cadd (csize d) r (content d v idx) (cache d)))).
  { apply dinv_cache; [exact I|]. intros q x H W NF.
    apply cget_cadd in H as [[-> ->]|[Hq H]]; [|apply (d_cache d I q x H W NF)].
    destruct W as [w [j [S' C']]].
    destruct (slot_injective (md d) w j v idx r (d_inv d I) S' Sfrom) as [-> ->]. exact C'. }
  destruct (code =? 2)%N.
  { destruct (content d v idx =? r)%N; [exact I|]. apply IH; [exact I1|now apply NM']. }
  destruct (content d v idx =? r)%N eqn:Cr; cbn [negb]; [|exact I]. apply N.eqb_eq in Cr.
  destruct (code =? 3)%N; [apply IH; [exact I1|now apply NM']|].
  destruct (code =? 0)%N eqn:C0; cbn [negb]; [|exact I]. apply N.eqb_eq in C0; subst code.
  cbn [md with_cache].
  destruct (mig_move v idx r to (md d)) as [m| |] eqn:M; try exact I1.
  (* the moved sector is not in flight: its slot would be the source of this very call *)
  assert (NFr : in_flight r (thr d) = false).
  { destruct (in_flight r (thr d)) eqn:E; [|reflexivity].
    apply in_flight_true in E as [t [w [j E]]]; [|apply (d_tids d I)].
    pose proof (d_thr d I t r w j E) as S'.
    destruct (slot_injective (md d) w j v idx r (d_inv d I) S' Sfrom) as [-> ->].
    exfalso. apply (NM t r idx to E). now left. }
  apply IH; [|now apply NM'].
  rewrite Cr. cbn [disk pend with_cache csize cache].
  exact (dinv_move d v idx r to m vl tl I NFr G S Gt St Cr M).
Qed.

(** * The pieces of Sync, DAge *)
Lemma dinv_sync_vol v d : dinv d -> dinv (sync_vol v d).
Proof.
  apply dinv_same; try reflexivity.
  - intros w i. apply content_sync_vol.
  - intros w i. rewrite dcontent_sync_vol. destruct (w =? v)%N; auto.
Qed.

Lemma dinv_with_syn d y : dinv d -> dinv (with_syn d y).
Proof. apply dinv_same; try reflexivity. intros; now left. Qed.
Lemma dinv_with_changed d c : dinv d -> dinv (with_changed d c).
Proof. apply dinv_same; try reflexivity. intros; now left. Qed.
Lemma dinv_with_fresh d f : dinv d -> dinv (with_fresh d f).
Proof. apply dinv_same; try reflexivity. intros; now left. Qed.

Lemma dinv_sync_pieces d o : dinv d ->
  match o with DSyncBegin _ | DFsync _ _ _ | DClear _ | DSyncEnd _ | DAge => True | _ => False end ->
  dinv (fst (dstep d o)).
Proof.
  intros I H. destruct o; try destruct H; cbn [dstep].
  - unfold dsync_begin. destruct (alookup t (syn d)); cbn [fst]; [exact I|now apply dinv_with_syn].
  - unfold dfsync. destruct (alookup t (syn d)) as [[todo [w|]]|]; cbn [fst]; try exact I.
    destruct (mem v todo && _); cbn [fst]; [|exact I].
    destruct ok; cbn [fst]; apply dinv_with_syn; [now apply dinv_sync_vol|exact I].
  - unfold dclear. destruct (alookup t (syn d)) as [[todo [w|]]|]; cbn [fst]; try exact I.
    apply dinv_with_syn. now apply dinv_with_changed.
  - unfold dsync_end. destruct (alookup t (syn d)) as [[todo [w|]]|]; cbn [fst]; try exact I.
    destruct (existsb _ todo); cbn [fst]; [exact I|now apply dinv_with_syn].
  - now apply dinv_with_fresh.
Qed.

(** * Every allowed step preserves the invariant *)
Theorem dinv_step d o : dinv d -> step_ok d o -> dinv (fst (dstep d o)).
Proof.
  intros I OK. destruct o.
  - now apply dinv_meta.
  - now apply dinv_reserve.
  - now apply dinv_write.
  - cbn. now apply dinv_sync.
  - now apply dinv_sync_pieces.
  - now apply dinv_sync_pieces.
  - now apply dinv_sync_pieces.
  - now apply dinv_sync_pieces.
  - now apply dinv_sync_pieces.
  - now apply dinv_read.
  - cbn [dstep]. apply dinv_migrate; [exact I|exact OK].
  - now apply dinv_shrink.
  - now apply dinv_remove.
  - destruct OK.
  - now apply dinv_prune.
  - now apply dinv_resize_cache.
  - cbn. now apply dinv_crash.
  - now apply dinv_restart.
Qed.

Theorem dinv_runs l : forall d, dinv d -> steps_ok d l -> dinv (druns d l).
Proof.
  induction l as [|o t IH]; intros d I OK; [exact I|]. destruct OK as [O1 O2].
  cbn. apply IH; [now apply dinv_step|exact O2].
Qed.

End Excused.

(* the invariant of the runs without explicit deletions: nothing is excused *)
Definition dinv : dstate -> Prop := dinvE (fun _ => False).

(* excusing more roots weakens the invariant *)
Lemma dinvE_weaken (E E' : N -> Prop) d : (forall r, E r -> E' r) -> dinvE E d -> dinvE E' d.
Proof.
  intros H [I1 I2 I3 I4 I4' I5 I6]. constructor; try assumption.
  intros r Hr HE. apply (I6 r Hr). intros He. apply HE. now apply H.
Qed.
