(* Storage/DataProofs4.v — migrateSector and a cache-miss ReadSector cut at their internal steps,
   the store's single connection and vm.mu explicit (work package W; DataModel.v [ystep]) *)
From Coq Require Import Lia ZifyBool ZifyN ZifyNat.
From HostdBase Require Import Base.
From HostdStorage Require Import Model Lemmas Proofs Proofs2 DataModel DataLemmas DataProofs DataProofs2 DataProofs3.

Arguments stat_inc : simpl never.
Arguments vol_usage : simpl never.
Arguments set_slot : simpl never.
Arguments csum : simpl never.

Definition yruns (y : ystate) (l : list yop) : ystate := fold_left (fun y o => fst (ystep y o)) l y.

(** * Writing into a slot that is free or held by a writer that has not written yet *)
Lemma dinvE_overwrite XE d v i c :
  dinvE XE d ->
  (forall q, slot_at (md d) v i = Some (Some q) -> exists t, alookup t (thr d) = Some (q, v, i)) ->
  dinvE XE (with_files d (disk d) (kset v i c (pend d))).
Proof.
  intros [I1 I2 I3 I4 I4' I5 I6] W.
  assert (Cn : forall w j, content (with_files d (disk d) (kset v i c (pend d))) w j =
                           if (w =? v)%N && (j =? i)%N then c else content d w j).
  { intros w j. unfold content; cbn. destruct ((w =? v)%N && (j =? i)%N); reflexivity. }
  assert (Hfree : forall w j q, slot_at (md d) w j = Some (Some q) -> in_flight q (thr d) = false -> (w =? v)%N && (j =? i)%N = false).
  { intros w j q S NF. destruct ((w =? v)%N && (j =? i)%N) eqn:E0; [|reflexivity].
    apply andb_loc in E0 as [-> ->]. destruct (W q S) as [t A]. now rewrite (in_flight_spec q _ t v i A) in NF. }
  constructor; cbn [md with_files thr cache]; auto.
  - intros q x H [w [j [S C]]] NF. cbn [md with_files] in S. rewrite Cn in C.
    rewrite (Hfree w j q S NF) in C. apply (I5 q x H); [|exact NF]. exists w, j; auto.
  - intros q H HE. destruct (I6 q H HE) as [[w [j [S [C D]]]] NF]. split; [|exact NF]. exists w, j. split; [exact S|].
    rewrite Cn, (Hfree w j q S NF). split; [exact C|]. exact D.
Qed.

(* the swap of MigrateSectors' transaction, the data being at the new location already *)
Lemma dinvE_move_md XE d v idx r to m vl tl :
  dinvE XE d -> in_flight r (thr d) = false ->
  vget v (vols (md d)) = Some vl -> sget idx (vslots vl) = Some (Some r) ->
  vget (fst to) (vols (md d)) = Some tl -> sget (snd to) (vslots tl) = Some None ->
  content d v idx = r ->
  content d (fst to) (snd to) = r -> dcontent d (fst to) (snd to) = r ->
  mig_move v idx r to (md d) = Ok m ->
  dinvE XE (with_md d m).
Proof.
  intros I NFr G S Gt St Cf Cr Dr M.
  pose proof (mig_move_slots v idx r to (md d) m vl tl G S Gt St M) as SA.
  destruct (mig_move_vols v idx r to (md d) m M) as [_ [Hc [Ht Hk]]].
  pose proof (inv_mig_move v idx r to (md d) m vl tl (d_inv d I) G S Gt St M) as J1.
  assert (Sfrom : slot_at (md d) v idx = Some (Some r)) by (unfold slot_at; now rewrite G).
  assert (Hold : forall w j q, slot_at (md d) w j = Some (Some q) -> q <> r -> slot_at m w j = Some (Some q)).
  { intros w j q H Hq. rewrite SA.
    destruct ((w =? fst to)%N && (j =? snd to)%N) eqn:E1.
    { apply andb_loc in E1 as [-> ->]. unfold slot_at in H. rewrite Gt, St in H. discriminate. }
    destruct ((w =? v)%N && (j =? idx)%N) eqn:E2; [|auto].
    apply andb_loc in E2 as [-> ->]. congruence. }
  assert (Hnew : forall w j q, slot_at m w j = Some (Some q) ->
             (q = r /\ w = fst to /\ j = snd to) \/ (q <> r /\ slot_at (md d) w j = Some (Some q))).
  { intros w j q H. rewrite SA in H.
    destruct ((w =? fst to)%N && (j =? snd to)%N) eqn:E1.
    { apply andb_loc in E1 as [-> ->]. injection H as <-. now left. }
    destruct ((w =? v)%N && (j =? idx)%N) eqn:E2; [discriminate|].
    right. split; [|exact H]. intros ->.
    destruct (slot_injective (md d) w j v idx r (d_inv d I) H Sfrom) as [-> ->].
    now rewrite !N.eqb_refl in E2. }
  destruct I as [I1 I2 I3 I4 I4' I5 I6].
  constructor; cbn [md with_md thr cache].
  - exact J1.
  - intros q w j H. rewrite Hk. apply Hnew in H as [[-> _]|[_ H]]; eapply I2; eauto.
  - exact I3.
  - intros t q w j H. pose proof (I4 t q w j H) as S'.
    assert (Hq : q <> r) by (eapply in_flight_false; eauto). now apply Hold.
  - exact I4'.
  - intros q c H [w [j [S' C']]] NF. cbn [md with_md] in S'.
    change (content d w j = q) in C'.
    apply (I5 q c H); [|exact NF]. apply Hnew in S' as [[-> [-> ->]]|[_ S']].
    + exists v, idx. split; [exact Sfrom|exact Cf].
    + exists w, j. auto.
  - intros q H HE. unfold refd in H. cbn in H. rewrite Hc, Ht in H. fold (refd (md d) q) in H.
    destruct (I6 q H HE) as [[w [j [S' [C' D']]]] NF].
    destruct (N.eq_dec q r) as [->|Hq].
    + split; [|exact NFr]. exists (fst to), (snd to). split; [rewrite SA, !N.eqb_refl; reflexivity|].
      split; assumption.
    + split; [|exact NF]. exists w, j. split; [now apply Hold|]. split; assumption.
Qed.

(** * What a step that makes no store call can do *)
Lemma fold_sync_files_frame l d w j :
  content (fold_left (fun a v => sync_vol v a) l d) w j = content d w j /\
  (dcontent (fold_left (fun a v => sync_vol v a) l d) w j = dcontent d w j \/
   dcontent (fold_left (fun a v => sync_vol v a) l d) w j = content d w j).
Proof. split; [apply fold_sync_content|apply fold_sync_dcontent]. Qed.

(* the database does not change, vm.mu stays free, and a location whose bytes are the slot's own
   sector (or whose slot is free) keeps its bytes *)
Lemma no_conn_frame x o :
  xinv x -> xmu x = None -> takes_conn o (xd x) = false -> o <> XD DCrash ->
  let x' := fst (xstep x o) in
  md (xd x') = md (xd x) /\ xmu x' = None /\
  (forall t e, alookup t (thr (xd x')) = Some e -> alookup t (thr (xd x)) = Some e) /\
  (forall w j c, content (xd x) w j = c ->
     (slot_at (md (xd x)) w j = Some None \/ slot_at (md (xd x)) w j = Some (Some c)) ->
     content (xd x') w j = c /\
     (dcontent (xd x') w j = dcontent (xd x) w j \/ dcontent (xd x') w j = c)).
Proof.
  intros [I W] MU TC NC x'. subst x'. set (d := xd x) in *.
  assert (Hsame : forall b : dobs, md (xd (fst (x, b))) = md d /\ xmu (fst (x, b)) = None /\
     (forall t e, alookup t (thr (xd (fst (x, b)))) = Some e -> alookup t (thr d) = Some e) /\
     (forall w j c, content d w j = c ->
       (slot_at (md d) w j = Some None \/ slot_at (md d) w j = Some (Some c)) ->
       content (xd (fst (x, b))) w j = c /\ (dcontent (xd (fst (x, b))) w j = dcontent d w j \/ dcontent (xd (fst (x, b))) w j = c))).
  { intros b. cbn [fst]. fold d. repeat split; auto. }
  destruct o as [o|r| |ok|ok|]; unfold xstep, xstep_gen; fold d; rewrite MU; cbn [is_some andb];
    try (apply (Hsame ODBad)); try discriminate.
  assert (Hfiles : forall d', md d' = md d -> thr d' = thr d ->
            (forall w j, content d' w j = content d w j) ->
            (forall w j, dcontent d' w j = dcontent d w j \/ dcontent d' w j = content d w j) ->
            forall (b : dobs) lost,
            md (xd (fst ({| xd := d'; xmu := None; xlost := lost |}, b))) = md d /\
            xmu (fst ({| xd := d'; xmu := None; xlost := lost |}, b)) = None /\
            (forall t e, alookup t (thr (xd (fst ({| xd := d'; xmu := None; xlost := lost |}, b)))) = Some e -> alookup t (thr d) = Some e) /\
            (forall w j c, content d w j = c ->
               (slot_at (md d) w j = Some None \/ slot_at (md d) w j = Some (Some c)) ->
               content (xd (fst ({| xd := d'; xmu := None; xlost := lost |}, b))) w j = c /\
               (dcontent (xd (fst ({| xd := d'; xmu := None; xlost := lost |}, b))) w j = dcontent d w j \/
                dcontent (xd (fst ({| xd := d'; xmu := None; xlost := lost |}, b))) w j = c))).
  { intros d' Em Et Hc Hd b lost. cbn [fst xd xmu]. rewrite Em, Et. repeat split; auto.
    - now rewrite Hc.
    - destruct (Hd w j) as [E|E]; rewrite E; [now left|right; assumption]. }
  destruct o; cbn [takes_conn] in TC; try discriminate; try congruence.
  - (* DWrite *)
    cbn [dstep]. unfold dwrite. destruct (alookup t (thr d)) as [[[r v] i]|] eqn:T.
    2:{ apply Hfiles; auto. }
    apply Bool.negb_false_iff in TC. rewrite TC.
    pose proof (d_thr d I t r v i T) as St. cbn [fst xd xmu].
    cbn [md thr with_changed with_cache with_files with_thr]. repeat split; auto.
    + intros t' e H. apply alookup_aremove in H as [_ H]; [exact H|apply (d_tids d I)].
    + unfold content in *; cbn. destruct ((w =? v)%N && (j =? i)%N) eqn:E0; [|assumption].
      apply andb_loc in E0 as [-> ->]. destruct H0 as [H0|H0]; rewrite St in H0; congruence.
  - (* DSync *)
    cbn [dstep]. unfold dsync. apply Hfiles; cbn; rewrite ?fold_sync_md, ?fold_sync_thr; auto.
    + intros w j. unfold content; cbn. fold (content (fold_left (fun a v => sync_vol v a) (changed d) d) w j). apply fold_sync_content.
    + intros w j. unfold dcontent; cbn. fold (dcontent (fold_left (fun a v => sync_vol v a) (changed d) d) w j). apply fold_sync_dcontent.
  - cbn [dstep]. unfold dsync_begin. destruct (alookup t (syn d)); apply Hfiles; auto.
  - cbn [dstep]. unfold dfsync. destruct (alookup t (syn d)) as [[todo [w0|]]|]; try (apply Hfiles; auto).
    destruct (mem v todo && _); [|apply Hfiles; auto]. destruct ok; apply Hfiles; auto.
    + intros w j. cbn. apply content_sync_vol.
    + intros w j. cbn. change (dcontent (sync_vol v d) w j = dcontent d w j \/ dcontent (sync_vol v d) w j = content d w j).
      rewrite dcontent_sync_vol. destruct (w =? v)%N; auto.
  - cbn [dstep]. unfold dclear. destruct (alookup t (syn d)) as [[todo [w0|]]|]; apply Hfiles; auto.
  - cbn [dstep]. unfold dsync_end. destruct (alookup t (syn d)) as [[todo [w0|]]|]; try (apply Hfiles; auto).
    destruct (existsb _ todo); apply Hfiles; auto.
  - cbn [dstep]. apply Hfiles; auto.
  - (* DRead: a cache hit *)
    cbn [dstep]. unfold dread. destruct (cget r (cache d)); [|discriminate]. apply Hfiles; auto.
  - cbn [dstep]. apply Hfiles; auto.
Qed.

(** * The invariant at this granularity *)
Definition mgwin (y : ystate) : Prop :=
  match ymg y with
  | None => True
  | Some m =>
      let d := xd (yx y) in
      (exists vl tl, vget (mg_v m) (vols (md d)) = Some vl /\ sget (mg_idx m) (vslots vl) = Some (Some (mg_r m)) /\
                     vget (fst (mg_to m)) (vols (md d)) = Some tl /\ sget (snd (mg_to m)) (vslots tl) = Some None) /\
      match mg_ph m with
      | MgBegun => True
      | MgRead => xmu (yx y) = None /\ content d (mg_v m) (mg_idx m) = mg_r m
      | MgWritten => xmu (yx y) = None /\ content d (mg_v m) (mg_idx m) = mg_r m /\
                     content d (fst (mg_to m)) (snd (mg_to m)) = mg_r m
      | MgSynced => xmu (yx y) = None /\ content d (mg_v m) (mg_idx m) = mg_r m /\
                    content d (fst (mg_to m)) (snd (mg_to m)) = mg_r m /\ dcontent d (fst (mg_to m)) (snd (mg_to m)) = mg_r m
      end
  end.

Record yinv (y : ystate) : Prop := mk_yinv { y_x : xinv (yx y); y_mg : mgwin y }.

Lemma yinv_init n : yinv (yinit n).
Proof. constructor; [apply xinv_init|exact Logic.I]. Qed.

(* the steps the theorems are about: [xstep_ok], plus
   - the swap of a migration is not committed for a sector whose upload is in flight (clause (m)
     of [step_ok] at this granularity);
   - what a cache-miss read inserts into the cache is what the cache may hold at that moment —
     NOT enforced by the code (rd_*_refuted): the bytes were read from the location found
     earlier, without any check that they are (still) the sector's. *)
Definition ystep_ok (y : ystate) (o : yop) : Prop :=
  match o with
  | YX o' => xstep_ok (yx y) o'
  | YMgCommit => match ymg y with Some m => in_flight (mg_r m) (thr (xd (yx y))) = false | None => True end
  | YRdCache t =>
      match alookup t (yrd y) with
      | Some (r, _, Some c) => written (xd (yx y)) r -> in_flight r (thr (xd (yx y))) = false -> c = r
      | _ => True
      end
  | _ => True
  end.

Fixpoint ysteps_ok (y : ystate) (l : list yop) : Prop :=
  match l with [] => True | o :: t => ystep_ok y o /\ ysteps_ok (fst (ystep y o)) t end.

(* a change of the data side that leaves database and writers alone *)
Lemma xinv_data x d' :
  xinv x -> dinvE (lostp x) d' -> md d' = md (xd x) -> thr d' = thr (xd x) ->
  xinv {| xd := d'; xmu := xmu x; xlost := xlost x |}.
Proof.
  intros [I W] I' Em Et. constructor; [exact I'|].
  unfold xwin in *; cbn [xmu xd]. rewrite Em, Et. exact W.
Qed.

Lemma slot_at_of s v i vl x : vget v (vols s) = Some vl -> sget i (vslots vl) = x -> slot_at s v i = x.
Proof. intros G S. unfold slot_at. now rewrite G. Qed.

Theorem yinv_step y o : yinv y -> ystep_ok y o -> yinv (fst (ystep y o)).
Proof.
  intros [IX MG] OK. pose proof IX as [I W]. assert (Hsame : yinv (fst (y, ODBad))) by (constructor; assumption).
  set (x := yx y) in *. set (d := xd x) in *.
  destruct o as [o|v start index to|fail|ok|ok| |t r|t fail|t]; cbn [ystep]; fold x; fold d.
  - (* a step of the first finer layer *)
    cbn [ystep_ok] in OK. fold x in OK.
    destruct (match o with XD DCrash => true | _ => false end) eqn:CR.
    { destruct o as [o| | | | |]; try discriminate. destruct o; try discriminate.
      pose proof (xinv_step x (XD DCrash) IX OK) as H. destruct (xstep x (XD DCrash)) as [x' b]. cbn [fst] in *.
      constructor; [exact H|exact Logic.I]. }
    assert (NC : o <> XD DCrash) by (intros ->; discriminate).
    assert (Hgo : yinv (fst (if is_some (ymg y) && takes_conn o d then (y, ODBad)
                             else let '(x', b) := xstep x o in ({| yx := x'; ymg := ymg y; yrd := yrd y |}, b)))).
    { destruct (is_some (ymg y) && takes_conn o d) eqn:BL; [exact Hsame|].
      pose proof (xinv_step x o IX OK) as H.
      destruct (xstep x o) as [x' b] eqn:XS. cbn [fst] in *.
      constructor; cbn [yx]; [exact H|].
      unfold mgwin in *; cbn [ymg yx]. destruct (ymg y) as [m|] eqn:EM; [|exact Logic.I].
      cbn [is_some andb] in BL.
      assert (X' : x' = fst (xstep x o)) by now rewrite XS.
      destruct MG as [[vl [tl [G [S [Gt St]]]]] PH].
      destruct (mg_ph m) eqn:EP.
      + (* MgBegun: the database is all that matters, and only store calls change it *)
        assert (Hmd : md (xd x') = md d).
        { clear - BL NC X' IX. subst x'.
          destruct o as [o|r| |ok|ok|]; unfold xstep, xstep_gen; fold d; cbn [takes_conn] in BL; try discriminate.
          - destruct o; try discriminate; try congruence;
              try (destruct (true && is_some (xmu x) && _); [reflexivity|]); cbn [dstep].
            + unfold dwrite in *. destruct (alookup t (thr d)) as [[[r v] i]|]; [|reflexivity].
              apply Bool.negb_false_iff in BL. rewrite BL. reflexivity.
            + unfold dsync. cbn. now rewrite fold_sync_md.
            + unfold dsync_begin. destruct (alookup t (syn d)); reflexivity.
            + unfold dfsync. repeat brk; reflexivity.
            + unfold dclear. repeat brk; reflexivity.
            + unfold dsync_end. repeat brk; reflexivity.
            + reflexivity.
            + unfold dread. destruct (cget r (cache d)); [reflexivity|discriminate].
            + reflexivity.
          - destruct (xmu x) as [[[r [v i]] [| |]]|]; try reflexivity. destruct (ok && _); reflexivity.
          - destruct (xmu x) as [[[r [v i]] [| |]]|]; try reflexivity. destruct ok; reflexivity.
          - destruct (xmu x) as [[[r [v i]] [| |]]|]; reflexivity. }
        rewrite Hmd. split; [eauto 10|exact Logic.I].
      + destruct PH as [MU Cf].
        destruct (no_conn_frame x o IX MU BL NC) as [Hmd [MU' [_ Hc]]]. rewrite <- X' in *.
        rewrite Hmd. split; [eauto 10|]. split; [exact MU'|].
        apply (Hc _ _ _ Cf). right. eapply slot_at_of; eauto.
      + destruct PH as [MU [Cf Ct]].
        destruct (no_conn_frame x o IX MU BL NC) as [Hmd [MU' [_ Hc]]]. rewrite <- X' in *.
        rewrite Hmd. split; [eauto 10|]. split; [exact MU'|]. split.
        * apply (Hc _ _ _ Cf). right. eapply slot_at_of; eauto.
        * apply (Hc _ _ _ Ct). left. eapply slot_at_of; eauto.
      + destruct PH as [MU [Cf [Ct Dt]]].
        destruct (no_conn_frame x o IX MU BL NC) as [Hmd [MU' [_ Hc]]]. rewrite <- X' in *.
        rewrite Hmd. split; [eauto 10|]. split; [exact MU'|]. split; [|split].
        * apply (Hc _ _ _ Cf). right. eapply slot_at_of; eauto.
        * apply (Hc _ _ _ Ct). left. eapply slot_at_of; eauto.
        * destruct (Hc _ _ _ Ct) as [_ [E|E]]; [left; eapply slot_at_of; eauto|rewrite E; exact Dt|exact E]. }
    destruct o as [o'| | | | |]; try exact Hgo. destruct o'; try exact Hgo. discriminate CR.
  - (* YMgBegin *)
    destruct (ymg y) eqn:EM; [exact Hsame|].
    destruct (next_occ index (slots_of v (md d)) None) as [[idx r]|] eqn:Nx; [|exact Hsame].
    destruct (mig_has_target (md d) v start && mig_valid_target (md d) v start to) eqn:V; [|exact Hsame].
    apply Bool.andb_true_iff in V as [_ V]. cbn [fst]. constructor; cbn [yx set_mg]; [exact IX|].
    unfold mgwin; cbn [ymg set_mg yx mg_v mg_idx mg_r mg_to mg_ph]. fold x; fold d.
    apply next_occ_in in Nx as [Nx|Nx]; [discriminate|].
    destruct (slots_of_get v (md d) idx r (d_inv d I) Nx) as [vl [G S]].
    destruct (mig_valid_slot (md d) v start to V) as [tl [Gt St]].
    split; [eauto 10|exact Logic.I].
  - (* YMgRead *)
    destruct (ymg y) as [m|] eqn:EM; [|exact Hsame].
    destruct (xmu x) eqn:MU; [exact Hsame|].
    unfold mgwin in MG. rewrite EM in MG. fold x in MG; fold d in MG. destruct MG as [[vl [tl [G [S [Gt St]]]]] PH].
    destruct (mg_ph m) eqn:EP; try exact Hsame.
    destruct fail; cbn [fst]; [constructor; cbn [yx set_mg]; [exact IX|exact Logic.I]|].
    assert (Sfrom : slot_at (md d) (mg_v m) (mg_idx m) = Some (Some (mg_r m))) by (eapply slot_at_of; eauto).
    assert (IC : dinvE (lostp x) (with_cache d (cadd (csize d) (mg_r m) (content d (mg_v m) (mg_idx m)) (cache d)))).
    { apply dinv_cache; [exact I|]. intros q c H Wq NF.
      apply cget_cadd in H as [[-> ->]|[Hq H]]; [|apply (d_cache d I q c H Wq NF)].
      destruct Wq as [w [j [S' C']]].
      destruct (slot_injective (md d) w j _ _ _ (d_inv d I) S' Sfrom) as [-> ->]. exact C'. }
    assert (IX1 : xinv {| xd := with_cache d (cadd (csize d) (mg_r m) (content d (mg_v m) (mg_idx m)) (cache d)); xmu := xmu x; xlost := xlost x |}).
    { apply xinv_data; auto. }
    destruct (content d (mg_v m) (mg_idx m) =? mg_r m)%N eqn:CE; cbn [fst]; constructor; cbn [yx set_mg set_yd]; try exact IX1; try exact Logic.I.
    unfold mgwin; cbn [ymg set_mg set_yd yx xd xmu mg_v mg_idx mg_r mg_to mg_ph md with_cache].
    split; [eauto 10|]. split; [exact MU|]. apply N.eqb_eq in CE. exact CE.
  - (* YMgWrite *)
    destruct (ymg y) as [m|] eqn:EM; [|exact Hsame].
    destruct (xmu x) eqn:MU; [exact Hsame|].
    unfold mgwin in MG. rewrite EM in MG. fold x in MG; fold d in MG. destruct MG as [[vl [tl [G [S [Gt St]]]]] PH].
    destruct (mg_ph m) eqn:EP; try exact Hsame.
    destruct (ok && is_some (vget (fst (mg_to m)) (vols (md d)))); cbn [fst];
      [|constructor; cbn [yx set_mg]; [exact IX|exact Logic.I]].
    destruct PH as [_ Cf].
    assert (Sto : slot_at (md d) (fst (mg_to m)) (snd (mg_to m)) = Some None) by (eapply slot_at_of; eauto).
    assert (Sfrom : slot_at (md d) (mg_v m) (mg_idx m) = Some (Some (mg_r m))) by (eapply slot_at_of; eauto).
    constructor; cbn [yx set_mg set_yd].
    + apply xinv_data; auto. apply dinvE_overwrite; [exact I|]. intros q H. rewrite Sto in H. discriminate.
    + unfold mgwin; cbn [ymg set_mg set_yd yx xd xmu mg_v mg_idx mg_r mg_to mg_ph md with_files].
      split; [eauto 10|]. split; [exact MU|]. rewrite !content_kset, !N.eqb_refl. cbn [andb]. split; [|reflexivity].
      destruct ((mg_v m =? fst (mg_to m))%N && (mg_idx m =? snd (mg_to m))%N) eqn:E0.
      * apply andb_loc in E0 as [E1 E2]. rewrite E1, E2 in Sfrom. congruence.
      * exact Cf.
  - (* YMgSync *)
    destruct (ymg y) as [m|] eqn:EM; [|exact Hsame].
    unfold mgwin in MG. rewrite EM in MG. fold x in MG; fold d in MG. destruct MG as [[vl [tl [G [S [Gt St]]]]] PH].
    destruct (mg_ph m) eqn:EP; try exact Hsame.
    destruct ok; cbn [fst]; [|constructor; cbn [yx set_mg]; [exact IX|exact Logic.I]].
    destruct PH as [MU [Cf Ct]].
    constructor; cbn [yx set_mg set_yd].
    + apply xinv_data; auto. now apply dinv_sync_vol.
    + unfold mgwin; cbn [ymg set_mg set_yd yx xd xmu mg_v mg_idx mg_r mg_to mg_ph]. cbn [md sync_vol with_files].
      split; [eauto 10|]. split; [exact MU|]. rewrite !content_sync_vol. split; [exact Cf|]. split; [exact Ct|].
      rewrite dcontent_sync_vol, N.eqb_refl. exact Ct.
  - (* YMgCommit *)
    destruct (ymg y) as [m|] eqn:EM; [|exact Hsame].
    cbn [ystep_ok] in OK. rewrite EM in OK. fold x in OK; fold d in OK.
    unfold mgwin in MG. rewrite EM in MG. fold x in MG; fold d in MG. destruct MG as [[vl [tl [G [S [Gt St]]]]] PH].
    destruct (mg_ph m) eqn:EP; try exact Hsame.
    destruct PH as [MU [Cf [Ct Dt]]].
    destruct (mig_move (mg_v m) (mg_idx m) (mg_r m) (mg_to m) (md d)) as [s| |] eqn:M; cbn [fst];
      try (constructor; cbn [yx set_mg]; [exact IX|exact Logic.I]).
    constructor; cbn [yx set_mg set_yd]; [|exact Logic.I].
    constructor; cbn [xd xmu xlost].
    + exact (dinvE_move_md (lostp x) d _ _ _ _ s vl tl I OK G S Gt St Cf Ct Dt M).
    + unfold xwin; cbn [xmu]. fold x. rewrite MU. exact Logic.I.
  - (* YRdLocate *)
    destruct (is_some (ymg y) || is_some (alookup t (yrd y)) || is_some (cget r (cache d))) eqn:BL; [exact Hsame|].
    destruct (locate r (md d)) as [loc|]; [|exact Hsame]. cbn [fst].
    apply Bool.orb_false_iff in BL as [BL _]. apply Bool.orb_false_iff in BL as [BL _].
    destruct (ymg y) eqn:EM; [discriminate|].
    constructor; cbn [yx]; [|unfold mgwin; cbn [ymg]; rewrite ?EM; exact Logic.I].
    apply xinv_data; auto; [now apply dinv_touch|apply touch_md|apply touch_thr].
  - (* YRdFile *)
    destruct (alookup t (yrd y)) as [[[r [v i]] [c|]]|]; try exact Hsame.
    destruct (xmu x); [exact Hsame|].
    destruct fail; cbn [fst]; constructor; cbn [yx]; auto.
  - (* YRdCache *)
    cbn [ystep_ok] in OK.
    destruct (alookup t (yrd y)) as [[[r loc] [c|]]|]; try exact Hsame. cbn [fst].
    fold x in OK; fold d in OK.
    assert (IC : dinvE (lostp x) (with_cache d (cadd (csize d) r c (cache d)))).
    { apply dinv_cache; [exact I|]. intros q c' H Wq NF.
      apply cget_cadd in H as [[-> ->]|[Hq H]]; [now apply OK|apply (d_cache d I q c' H Wq NF)]. }
    constructor; cbn [yx]; [apply xinv_data; auto|].
    unfold mgwin in *; cbn [ymg yx xd xmu]. destruct (ymg y) as [m|]; [|exact Logic.I].
    fold x in MG; fold d in MG. exact MG.
Qed.

Theorem yinv_runs l : forall y, yinv y -> ysteps_ok y l -> yinv (yruns y l).
Proof.
  induction l as [|o t IH]; intros y I OK; [exact I|]. destruct OK as [O1 O2].
  cbn. apply IH; [now apply yinv_step|exact O2].
Qed.

(* the C02 statement over every interleaving of the internal steps of migrateSector, a cache-miss
   ReadSector and RemoveSector with writers, Syncs, prune, crashes *)
Theorem readable_yruns size l r :
  ysteps_ok (yinit size) l ->
  let y := yruns (yinit size) l in
  refd (md (xd (yx y))) r = true -> ~ In r (xlost (yx y)) ->
  read_result (xd (yx y)) r = Some r /\ read_result (dcrash (xd (yx y))) r = Some r.
Proof.
  intros OK y H HE. pose proof (yinv_runs l (yinit size) (yinv_init size) OK) as [[I _] _]. fold y in I.
  split; [eapply referenced_readableE|eapply referenced_readable_after_crashE]; eauto.
Qed.

(** * The lock-order deadlock of the code as it is (liveness; outside C02's wording, but the
   data is unreachable for writers, Sync and cache-miss reads until the process is restarted) *)
Definition witness_deadlock : list yop :=
  [YX (XD (DMeta (AddVol 1 false))); YX (XD (DMeta (SetAvail 1 true))); YX (XD (DMeta (Grow 1 2)));
   YX (XD (DReserve 1 7 (Some (1, 1)))); YX (XD (DWrite 1 true)); YX (XD DSync); YX (XD (DMeta (AddTemp [(7, 100)])));
   YX (XD (DMeta (SetRO 1 true)));
   YX (XRsLocate 7);              (* RemoveSector: vm.mu taken, location read *)
   YMgBegin 1 1 1 (1, 0)]%N.      (* a shrink's MigrateSectors opens its transaction *)

Lemma deadlock_reachable :
  exists size l, ysteps_ok (yinit size) l /\ deadlocked (yruns (yinit size) l) = true.
Proof.
  exists 0%N, witness_deadlock. split; [|vm_compute; reflexivity].
  unfold witness_deadlock. cbn [ysteps_ok ystep_ok xstep_ok step_ok]. repeat split.
  all: try (intros r H; vm_compute in H; discriminate).
  all: try (intros r H; left; vm_compute in H |- *; exact H).
  intros r H. right. vm_compute in H.
  assert (r = 7%N).
  { destruct (7 =? r)%N eqn:E; [now apply N.eqb_eq in E|]. vm_compute in H.
    destruct r as [|p]; try discriminate. repeat (destruct p as [p|p|]; try discriminate). }
  subst r. split; [|reflexivity]. exists 1%N, 1%N. vm_compute. auto.
Qed.

(* in such a state neither party can take its next step (nor any later one): the state does not
   change and the step is answered "not enabled" *)
Lemma deadlock_stuck y : deadlocked y = true ->
  (forall f, ystep y (YMgRead f) = (y, ODBad)) /\ (forall ok, ystep y (YMgWrite ok) = (y, ODBad)) /\
  (forall ok, ystep y (YMgSync ok) = (y, ODBad)) /\ ystep y YMgCommit = (y, ODBad) /\
  ystep y (YX XRsCommit) = (y, ODBad) /\
  (forall ok, snd (ystep y (YX (XRsZero ok))) = ODBad) /\ (forall ok, snd (ystep y (YX (XRsEnd ok))) = ODBad).
Proof.
  unfold deadlocked. destruct y as [x mg rd]. cbn [yx ymg].
  destruct (xmu x) as [[[r [v i]] [| |]]|] eqn:MU; try discriminate.
  destruct mg as [m|]; [|discriminate]. intros PH.
  repeat split; intros; cbn [ystep yx ymg]; rewrite ?MU; try reflexivity.
  - destruct (mg_ph m); try discriminate; reflexivity.
  - destruct (mg_ph m); try discriminate; reflexivity.
  - unfold xstep, xstep_gen. rewrite MU. reflexivity.
  - unfold xstep, xstep_gen. rewrite MU. reflexivity.
Qed.

(** * The windows of a cache-miss ReadSector: what [ystep_ok] asks of YRdCache is not enforced *)
Definition ystep_ok_but_rd (y : ystate) (o : yop) : Prop :=
  match o with YRdCache _ => True | _ => ystep_ok y o end.
Fixpoint ysteps_ok_but_rd (y : ystate) (l : list yop) : Prop :=
  match l with [] => True | o :: t => ystep_ok_but_rd y o /\ ysteps_ok_but_rd (fst (ystep y o)) t end.

Definition ycalm (o : yop) : bool := match o with YX o' => xcalm o' | _ => true end.

(* (1) between SectorLocation and the file read the sector is migrated and its old slot reused:
   the bytes of ANOTHER sector are returned for the root and cached under it *)
Definition witness_read_moved : list yop :=
  [YX (XD (DMeta (AddVol 1 false))); YX (XD (DMeta (SetAvail 1 true))); YX (XD (DMeta (Grow 1 3)));
   YX (XD (DReserve 1 5 (Some (1, 0)))); YX (XD (DWrite 1 true));
   YX (XD (DReserve 2 7 (Some (1, 1)))); YX (XD (DWrite 2 true));
   YX (XD (DReserve 3 9 (Some (1, 2)))); YX (XD (DWrite 3 true)); YX (XD DSync);
   YX (XD (DMeta (AddTemp [(5, 100); (7, 100); (9, 100)])));
   YX (XD (DMeta (AddVol 2 false))); YX (XD (DMeta (SetAvail 2 true))); YX (XD (DMeta (Grow 2 1)));
   YRdLocate 10 7;                                                       (* ReadSector(7): cache miss, location (1,1) *)
   YX (XD (DMeta (SetRO 1 true))); YX (XD (DMigrate 1 1 [(1, (2, 0), 0)])); YX (XD (DMeta (SetRO 1 false)));
   YX (XD (DReserve 4 8 (Some (1, 1)))); YX (XD (DWrite 4 true)); YX (XD DSync); YX (XD (DMeta (AddTemp [(8, 100)])));
   YRdFile 10 false; YRdCache 10]%N.

Lemma rd_moved_refuted :
  exists size l r,
    forallb ycalm l = true /\ ysteps_ok_but_rd (yinit size) l /\
    let y := yruns (yinit size) l in
    refd (md (xd (yx y))) r = true /\ ~ In r (xlost (yx y)) /\ read_result (xd (yx y)) r <> Some r.
Proof.
  exists 1%N, witness_read_moved, 7%N. split; [reflexivity|]. split.
  - unfold witness_read_moved. cbn [ysteps_ok_but_rd ystep_ok_but_rd ystep_ok xstep_ok step_ok]. repeat split.
    all: try (intros t r j to H; vm_compute in H; discriminate H).
    all: try (intros r H; vm_compute in H; discriminate H).
    all: try (intros r H; left; vm_compute in H |- *; exact H).
    + intros r H. right. vm_compute in H.
      assert (r = 5%N \/ r = 7%N \/ r = 9%N).
      { destruct (5 =? r)%N eqn:E5; [left; now apply N.eqb_eq in E5|].
        destruct (7 =? r)%N eqn:E7; [right; left; now apply N.eqb_eq in E7|].
        destruct (9 =? r)%N eqn:E9; [right; right; now apply N.eqb_eq in E9|].
        vm_compute in H. destruct r as [|p]; try discriminate. repeat (destruct p as [p|p|]; try discriminate). }
      destruct H0 as [->|[->| ->]]; (split; [|reflexivity]);
        [exists 1%N, 0%N|exists 1%N, 1%N|exists 1%N, 2%N]; vm_compute; auto.
    + intros r H. vm_compute in H.
      assert (r = 5%N \/ r = 7%N \/ r = 9%N \/ r = 8%N).
      { destruct (5 =? r)%N eqn:E5; [left; now apply N.eqb_eq in E5|].
        destruct (7 =? r)%N eqn:E7; [right; left; now apply N.eqb_eq in E7|].
        destruct (9 =? r)%N eqn:E9; [right; right; left; now apply N.eqb_eq in E9|].
        destruct (8 =? r)%N eqn:E8; [right; right; right; now apply N.eqb_eq in E8|].
        vm_compute in H. destruct r as [|p]; try discriminate. repeat (destruct p as [p|p|]; try discriminate). }
      destruct H0 as [->|[->|[->| ->]]]; [left; reflexivity|left; reflexivity|left; reflexivity|].
      right. split; [|reflexivity]. exists 1%N, 1%N. vm_compute. auto.
  - vm_compute. split; [reflexivity|]. split; [tauto|discriminate].
Qed.

(* (2) the sector's upload is in flight: the reader reads what the slot held before, the writer
   writes and caches the real bytes, the reader's cache insert comes last *)
Definition witness_read_in_flight : list yop :=
  [YX (XD (DMeta (AddVol 1 false))); YX (XD (DMeta (SetAvail 1 true))); YX (XD (DMeta (Grow 1 1)));
   YX (XD (DReserve 1 7 (Some (1, 0))));
   YRdLocate 10 7; YRdFile 10 false;
   YX (XD (DWrite 1 true));
   YRdCache 10;
   YX (XD DSync); YX (XD (DMeta (AddTemp [(7, 100)])))]%N.

Lemma rd_in_flight_refuted :
  exists size l r,
    forallb ycalm l = true /\ ysteps_ok_but_rd (yinit size) l /\
    let y := yruns (yinit size) l in
    refd (md (xd (yx y))) r = true /\ ~ In r (xlost (yx y)) /\ read_result (xd (yx y)) r <> Some r.
Proof.
  exists 1%N, witness_read_in_flight, 7%N. split; [reflexivity|]. split.
  - unfold witness_read_in_flight. cbn [ysteps_ok_but_rd ystep_ok_but_rd ystep_ok xstep_ok step_ok]. repeat split.
    all: try (intros r H; vm_compute in H; discriminate).
    intros r H. right. vm_compute in H.
    assert (r = 7%N).
    { destruct (7 =? r)%N eqn:E; [now apply N.eqb_eq in E|]. vm_compute in H.
      destruct r as [|p]; try discriminate. repeat (destruct p as [p|p|]; try discriminate). }
    subst r. split; [|reflexivity]. exists 1%N, 0%N. vm_compute. auto.
  - vm_compute. split; [reflexivity|]. split; [tauto|discriminate].
Qed.

(* the three steps in a row are the ReadSector step of the coarser model, and a read that is not
   interrupted meets the proviso when the sector's upload is complete (or it has no data) *)
Lemma rd_steps_are_read y t r :
  ymg y = None -> xmu (yx y) = None -> alookup t (yrd y) = None -> cget r (cache (xd (yx y))) = None ->
  locate r (md (xd (yx y))) <> None ->
  xd (yx (yruns y [YRdLocate t r; YRdFile t false; YRdCache t])) = fst (dstep (xd (yx y)) (DRead r false)) /\
  snd (ystep (yruns y [YRdLocate t r; YRdFile t false]) (YRdCache t)) = snd (dstep (xd (yx y)) (DRead r false)).
Proof.
  destruct y as [[d mu lost] mg rd]. cbn [yx ymg yrd xd xmu]. intros -> -> A C L.
  unfold yruns; cbn [fold_left ystep yx ymg yrd xd xmu xlost is_some orb]. rewrite A, C. cbn [is_some orb].
  destruct (locate r (md d)) as [[v i]|] eqn:EL; [|congruence]. cbn [fst yx ymg yrd xd xmu xlost alookup].
  rewrite N.eqb_refl. cbn [fst yx ymg yrd xd xmu xlost alookup aremove]. rewrite N.eqb_refl.
  cbn [fst snd yx xd]. cbn [dstep]. unfold dread. rewrite C, EL. cbn [fst snd].
  unfold touch. destruct (mem r (fresh d)) eqn:F; cbn; rewrite ?F; split; reflexivity.
Qed.

(** * Non-vacuity: a shrink's migrateSector cut at its steps, a cache-miss read of the very sector
   interleaved with it, a crash after the commit *)
Definition ydemo : list yop :=
  [YX (XD (DMeta (AddVol 1 false))); YX (XD (DMeta (SetAvail 1 true))); YX (XD (DMeta (Grow 1 2)));
   YX (XD (DReserve 1 7 (Some (1, 1)))); YX (XD (DWrite 1 true)); YX (XD DSync); YX (XD (DMeta (AddTemp [(7, 100)])));
   YX (XD (DMeta (SetRO 1 true)));
   YRdLocate 10 7;
   YMgBegin 1 1 1 (1, 0);
   YRdFile 10 false; YMgRead false; YRdCache 10;
   YMgWrite true; YX (XD (DSyncBegin 5)); YMgSync true; YX (XD (DSyncEnd 5)); YMgCommit;
   YX (XD (DShrinkT 1 1)); YX (XD DCrash)]%N.

(* peel one step, keeping the state in normal form (nested [ystep] terms are hopeless for [hnf]) *)
Ltac ypeel :=
  lazymatch goal with
  | |- ysteps_ok ?y (?o :: ?t) =>
      let y' := eval vm_compute in (fst (ystep y o)) in
      cut (ystep_ok y o /\ ysteps_ok y' t);
      [ let HA := fresh in let HB := fresh in
        intros [HA HB]; change (ystep_ok y o /\ ysteps_ok (fst (ystep y o)) t); split; [exact HA|];
        replace (fst (ystep y o)) with y' by (vm_compute; reflexivity); exact HB
      | split ]
  end.

Ltac yside :=
  cbn [ystep_ok xstep_ok step_ok];
  first [ exact Logic.I
        | (intros r H; vm_compute in H; discriminate H)
        | (intros t r j to H; vm_compute in H; discriminate H)
        | (intros r H; left; vm_compute in H |- *; exact H)
        | (lazymatch goal with |- forall _ : N, _ => fail | _ => vm_compute; intros; reflexivity end)
        | idtac ].

Lemma ydemo_ok : ysteps_ok (yinit 0) ydemo.
Proof.
  unfold ydemo. let y0 := eval vm_compute in (yinit 0) in change (yinit 0) with y0.
  repeat (ypeel; [yside|]); try exact Logic.I.
  intros r H. right. vm_compute in H.
  assert (r = 7%N).
  { destruct (7 =? r)%N eqn:E; [now apply N.eqb_eq in E|]. vm_compute in H.
    destruct r as [|p]; try discriminate. repeat (destruct p as [p|p|]; try discriminate). }
  subst r. split; [|reflexivity]. exists 1%N, 1%N. vm_compute. auto.
Qed.

Lemma ydemo_nonvacuous :
  ysteps_ok (yinit 0) ydemo /\
  let y := yruns (yinit 0) ydemo in
  refd (md (xd (yx y))) 7 = true /\ slot_at (md (xd (yx y))) 1 0 = Some (Some 7%N) /\
  slot_at (md (xd (yx y))) 1 1 = None /\ read_result (xd (yx y)) 7 = Some 7%N /\
  (* inside the transaction a store call is not enabled *)
  snd (ystep (yruns (yinit 0) (firstn 10 ydemo)) (YX (XD DPrune))) = ODBad.
Proof. split; [exact ydemo_ok|]. vm_compute. repeat split; reflexivity. Qed.

(** * The repaired lock order (fixes/C02-migrate-lock-order.patch, PROPOSED)
   Migrations share vm.migrateMu, RemoveSector takes it exclusively (TryLock: it is refused
   while a migration runs) and ResizeVolume no longer makes store calls under vm.mu.  At this
   granularity: a migration transaction does not open while a RemoveSector is in progress (it
   waits for migrateMu before it touches the database), and — as before, [takes_conn] — a
   RemoveSector does not start while a migration transaction is open. *)
Definition ystep_p (y : ystate) (o : yop) : ystate * dobs :=
  match o with
  | YMgBegin _ _ _ _ => if is_some (xmu (yx y)) then (y, ODBad) else ystep y o
  | _ => ystep y o
  end.

Definition yruns_p (y : ystate) (l : list yop) : ystate := fold_left (fun y o => fst (ystep_p y o)) l y.

Definition lock_order (y : ystate) : Prop := xmu (yx y) = None \/ ymg y = None.

Lemma xstep_mu_some x o :
  is_some (xmu (fst (xstep x o))) = true -> is_some (xmu x) = true \/ exists r, o = XRsLocate r.
Proof.
  destruct o as [o|r| |ok|ok|]; unfold xstep, xstep_gen.
  - destruct o; try (destruct (true && is_some (xmu x) && _); [now left|]);
      try (destruct (dstep (xd x) _) as [d' b]; cbn [fst xmu]; now left); cbn; try discriminate; now left.
  - right. eauto.
  - destruct (xmu x) eqn:MU; [now left|cbn [fst]; rewrite MU; intros H; discriminate H].
  - destruct (xmu x) eqn:MU; [now left|cbn [fst]; rewrite MU; intros H; discriminate H].
  - destruct (xmu x) eqn:MU; [now left|cbn [fst]; rewrite MU; intros H; discriminate H].
  - destruct (xmu x) eqn:MU; [now left|cbn [fst]; rewrite MU; intros H; discriminate H].
Qed.

Lemma lock_order_step y o : lock_order y -> lock_order (fst (ystep_p y o)).
Proof.
  unfold lock_order. intros J.
  destruct o as [o|v start index to|fail|ok|ok| |t r|t fail|t]; cbn [ystep_p ystep].
  - destruct (match o with XD DCrash => true | _ => false end) eqn:CR.
    { destruct o as [o| | | | |]; try discriminate. destruct o; try discriminate.
      destruct (xstep (yx y) (XD DCrash)). cbn. now right. }
    assert (H : (let x := yx y in let d := xd x in
                 xmu (yx (fst (if is_some (ymg y) && takes_conn o d then (y, ODBad)
                      else let '(x', b) := xstep x o in ({| yx := x'; ymg := ymg y; yrd := yrd y |}, b)))) = None \/
                 ymg (fst (if is_some (ymg y) && takes_conn o d then (y, ODBad)
                      else let '(x', b) := xstep x o in ({| yx := x'; ymg := ymg y; yrd := yrd y |}, b))) = None)).
    { cbn zeta. destruct (is_some (ymg y) && takes_conn o (xd (yx y))) eqn:BL; [(cbn [fst]; first [exact J|destruct J; discriminate|rewrite ?EM; exact J|rewrite ?MU; exact J|rewrite ?EM, ?MU; exact J])|].
      pose proof (xstep_mu_some (yx y) o) as L. destruct (xstep (yx y) o) as [x' b]. cbn [fst yx ymg] in *.
      destruct (ymg y) eqn:EM; [|now right]. left. cbn [is_some andb] in BL.
      destruct J as [J|J]; [|discriminate].
      destruct (xmu x') eqn:MU'; [|reflexivity]. exfalso.
      destruct (L eq_refl) as [H|[r ->]]; [rewrite J in H; discriminate|]. cbn in BL. discriminate. }
    destruct o as [o'| | | | |]; try exact H. destruct o'; try exact H. discriminate CR.
  - destruct (is_some (xmu (yx y))) eqn:MU; [(cbn [fst]; first [exact J|destruct J; discriminate|rewrite ?EM; exact J|rewrite ?MU; exact J|rewrite ?EM, ?MU; exact J])|].
    destruct (xmu (yx y)) eqn:MU2; [discriminate|]. cbn [ystep].
    repeat brk; cbn [fst yx set_mg]; rewrite ?MU2; auto.
  - destruct (ymg y) as [m|] eqn:EM; [|(cbn [fst]; first [exact J|destruct J; discriminate|rewrite ?EM; exact J|rewrite ?MU; exact J|rewrite ?EM, ?MU; exact J])]. destruct (xmu (yx y)) eqn:MU; [(cbn [fst]; first [exact J|destruct J; discriminate|rewrite ?EM; exact J|rewrite ?MU; exact J|rewrite ?EM, ?MU; exact J])|].
    destruct (mg_ph m); try (cbn [fst]; first [exact J|destruct J; discriminate|rewrite ?EM; exact J|rewrite ?MU; exact J|rewrite ?EM, ?MU; exact J]). destruct fail; cbn [fst]; [now right|].
    destruct (_ =? _)%N; cbn; rewrite MU; auto.
  - destruct (ymg y) as [m|] eqn:EM; [|(cbn [fst]; first [exact J|destruct J; discriminate|rewrite ?EM; exact J|rewrite ?MU; exact J|rewrite ?EM, ?MU; exact J])]. destruct (xmu (yx y)) eqn:MU; [(cbn [fst]; first [exact J|destruct J; discriminate|rewrite ?EM; exact J|rewrite ?MU; exact J|rewrite ?EM, ?MU; exact J])|].
    destruct (mg_ph m); try (cbn [fst]; first [exact J|destruct J; discriminate|rewrite ?EM; exact J|rewrite ?MU; exact J|rewrite ?EM, ?MU; exact J]). destruct (ok && _); cbn; rewrite ?MU; auto.
  - destruct (ymg y) as [m|] eqn:EM; [|(cbn [fst]; first [exact J|destruct J; discriminate|rewrite ?EM; exact J|rewrite ?MU; exact J|rewrite ?EM, ?MU; exact J])]. destruct J as [J|J]; [|discriminate].
    destruct (mg_ph m); try (left; cbn [fst]; exact J). destruct ok; cbn; rewrite ?J; auto.
  - destruct (ymg y) as [m|] eqn:EM; [|(cbn [fst]; first [exact J|destruct J; discriminate|rewrite ?EM; exact J|rewrite ?MU; exact J|rewrite ?EM, ?MU; exact J])]. destruct J as [J|J]; [|discriminate].
    destruct (mg_ph m); try (left; cbn [fst]; exact J). destruct (mig_move _ _ _ _ _); cbn; auto.
  - destruct (is_some (ymg y) || _ || _); [(cbn [fst]; first [exact J|destruct J; discriminate|rewrite ?EM; exact J|rewrite ?MU; exact J|rewrite ?EM, ?MU; exact J])|]. destruct (locate r _); [|(cbn [fst]; first [exact J|destruct J; discriminate|rewrite ?EM; exact J|rewrite ?MU; exact J|rewrite ?EM, ?MU; exact J])]. cbn. (cbn [fst]; first [exact J|destruct J; discriminate|rewrite ?EM; exact J|rewrite ?MU; exact J|rewrite ?EM, ?MU; exact J]).
  - destruct (alookup t (yrd y)) as [[[r [v i]] [c|]]|]; cbn [fst]; try exact J.
    destruct (xmu (yx y)) eqn:MU.
    + cbn [fst]. rewrite MU. exact J.
    + destruct fail; cbn; rewrite MU; now left.
  - destruct (alookup t (yrd y)) as [[[r loc] [c|]]|]; cbn; exact J.
Qed.

(* with the repaired order the deadlock state is not reachable, whatever is run *)
Theorem no_deadlock_patched size l : deadlocked (yruns_p (yinit size) l) = false.
Proof.
  assert (H : lock_order (yruns_p (yinit size) l)).
  { assert (G : forall y, lock_order y -> lock_order (yruns_p y l)).
    { induction l as [|o t IH]; intros y J; [exact J|]. cbn. apply IH. now apply lock_order_step. }
    apply G. now left. }
  unfold deadlocked. destruct H as [H|H]; rewrite H; [reflexivity|].
  destruct (xmu _) as [[[r loc] [| |]]|]; reflexivity.
Qed.

(* ... and the repaired order only removes behaviours: a step it allows is the step of the code as it is *)
Lemma ystep_p_refines y o : snd (ystep_p y o) <> ODBad -> ystep_p y o = ystep y o.
Proof.
  destruct o; cbn [ystep_p]; try reflexivity. destruct (is_some (xmu (yx y))); [cbn; congruence|reflexivity].
Qed.
