(* Storage/BatchProofs.v — the batched loops, batch by batch (C08).

   1. every single batch of RemoveVolume / Expire(V2)ContractSectors / ExpireTempSectors /
      PruneSectors / MigrateSectors preserves the weak invariant [winv] (WProofs.v): slot
      injectivity, used/total = recount, metrics = recount hold in every state a crash, an error
      or another Store call between two batches can see;
   2. a batch followed by the atomic operation of Model.v is the atomic operation ("absorption"),
      hence the loop of batches equals the atomic definition and a cut run that is retried ends
      in the state of the uninterrupted run;
   3. with batches that take the highest indices (fixes/C08-remove-batch-order.patch) the strong
      invariant [inv] survives every batch;
   4. the witness: a cut removal followed by ShrinkVolume leaves total_sectors above the recount. *)
From Coq Require Import Lia ZifyBool ZifyN ZifyNat.
From HostdBase Require Import Base.
From HostdStorage Require Import Model Lemmas Proofs Proofs2 Proofs3 WProofs Batch.

Local Open Scope Z_scope.
Arguments stat_inc : simpl never.
Arguments vol_usage : simpl never.
Arguments set_slot : simpl never.
Arguments csum : simpl never.

(** * Lists of indices *)
Lemma mem_false r l : mem r l = false <-> ~ In r l.
Proof. rewrite <- mem_in. destruct (mem r l); split; congruence. Qed.

Lemma nodupb_NoDup l : nodupb l = true -> NoDup l.
Proof.
  induction l as [|x t IH]; cbn; [constructor|].
  intros H. apply Bool.andb_true_iff in H as [H1 H2]. constructor; auto.
  apply mem_false. now destruct (mem x t).
Qed.

(** * keep_slots *)
Lemma keep_nil l : keep_slots [] l = l.
Proof.
  unfold keep_slots. induction l as [|a t IH]; [reflexivity|].
  change (a :: filter (fun x => negb (mem (fst x) [])) t = a :: t). now rewrite IH.
Qed.

Lemma keep_keys_nodup idxs l : NoDup (map fst l) -> NoDup (map fst (keep_slots idxs l)).
Proof. apply NoDup_filter_keys. Qed.

Lemma wsum_filter_le f (p : N * option N -> bool) l : (forall x, 0 <= f x) -> wsum f (filter p l) <= wsum f l.
Proof.
  intros Hf; induction l as [|[j y] t IH]; cbn; [lia|].
  destruct (p (j, y)); cbn; specialize (Hf y); lia.
Qed.

Lemma filter_filter {A} (p q : A -> bool) l : filter p (filter q l) = filter (fun x => q x && p x) l.
Proof.
  induction l as [|a t IH]; cbn; [reflexivity|].
  destruct (q a); cbn; [destruct (p a); now rewrite IH|exact IH].
Qed.

Lemma keep_cons i t l :
  keep_slots (i :: t) l = filter (fun x => negb (fst x =? i)%N) (keep_slots t l).
Proof.
  unfold keep_slots. rewrite filter_filter. apply filter_ext. intros x. cbn [mem].
  now rewrite Bool.negb_orb, Bool.andb_comm.
Qed.

Lemma filter_one_length i (l : slots) :
  NoDup (map fst l) -> In i (map fst l) ->
  (length (filter (fun x => negb (fst x =? i)%N) l) + 1 = length l)%nat.
Proof.
  induction l as [|[j y] t IH]; cbn; [tauto|].
  intros Hnd Hin. inversion Hnd as [|? ? Hni Hnd']; subst.
  destruct (j =? i)%N eqn:E; cbn.
  - apply N.eqb_eq in E; subst j.
    assert (H : filter (fun x => negb (fst x =? i)%N) t = t).
    { clear - Hni. induction t as [|[k z] t IH]; cbn in *; [reflexivity|].
      destruct (k =? i)%N eqn:E; cbn.
      - apply N.eqb_eq in E. exfalso; apply Hni; now left.
      - rewrite IH; [reflexivity|]. intros H; apply Hni; now right. }
    rewrite H. lia.
  - apply N.eqb_neq in E. destruct Hin as [Hin|Hin]; [congruence|].
    specialize (IH Hnd' Hin). lia.
Qed.

Lemma in_keep_keys i idxs l : In i (map fst l) -> ~ In i idxs -> In i (map fst (keep_slots idxs l)).
Proof.
  intros Hin Hni. apply in_map_iff in Hin as [[j y] [Hj Hin]]. cbn in Hj; subst j.
  apply in_map_iff. exists (i, y). split; [reflexivity|].
  unfold keep_slots. apply filter_In. split; [exact Hin|]. cbn.
  apply mem_false in Hni. now rewrite Hni.
Qed.

Lemma sget_some_in i (l : slots) : is_some (sget i l) = true -> In i (map fst l).
Proof.
  destruct (sget i l) as [x|] eqn:S; [|discriminate]. intros _.
  apply sget_in in S. change i with (fst (i, x)). now apply in_map.
Qed.

Lemma keep_length idxs l :
  NoDup (map fst l) -> NoDup idxs -> (forall i, In i idxs -> In i (map fst l)) ->
  (length (keep_slots idxs l) + length idxs = length l)%nat.
Proof.
  intros Hnd. induction idxs as [|i t IH]; intros Hd Hsub.
  - rewrite keep_nil. cbn. lia.
  - inversion Hd as [|? ? Hni Hd']; subst. rewrite keep_cons.
    pose proof (filter_one_length i (keep_slots t l) (keep_keys_nodup t l Hnd)
                  (in_keep_keys i t l (Hsub i (or_introl eq_refl)) Hni)) as H.
    specialize (IH Hd' (fun j Hj => Hsub j (or_intror Hj))). cbn [length]. lia.
Qed.

Lemma rm_choice_length b idxs l :
  NoDup (map fst l) -> rm_choice_ok b idxs l = true ->
  (length (keep_slots idxs l) + length idxs = length l)%nat /\
  len idxs = N.min b (N.of_nat (length l)).
Proof.
  intros Hnd H. unfold rm_choice_ok in H.
  apply Bool.andb_true_iff in H as [H H3]. apply Bool.andb_true_iff in H as [H1 H2].
  split; [|lia]. apply keep_length; auto.
  - now apply nodupb_NoDup.
  - intros i Hi. apply sget_some_in. rewrite forallb_forall in H2. now apply H2.
Qed.

Lemma vupd_ext_at v f g l vl : vget v l = Some vl -> f vl = g vl -> vupd v f l = vupd v g l.
Proof.
  induction l as [|x t IH]; cbn; [reflexivity|].
  destruct (v =? vid x)%N; [intros [= ->] ->; reflexivity|]. intros G E. now rewrite IH.
Qed.

(** * One batch of RemoveVolume keeps the weak invariant *)
(* what a batch that changed the state did *)
Definition rb_vol (idxs : list N) (vl : vol) : vol :=
  let kept := keep_slots idxs (vslots vl) in
  set_used (set_total (set_slots vl kept) (vtotal vl - Z.of_nat (length idxs)))
           (vused vl - (wsum occ1 (vslots vl) - wsum occ1 kept)).

Definition rb_state (v : N) (idxs : list N) (vl : vol) (s : state) : state :=
  let lost := wsum occ1 (vslots vl) - wsum occ1 (keep_slots idxs (vslots vl)) in
  with_mets (with_vols s (vupd v (rb_vol idxs) (vols s)))
    {| mTotal := mTotal (mets s) - Z.of_nat (length idxs); mPhys := mPhys (mets s) - lost;
       mLost := mLost (mets s) + lost; mContract := mContract (mets s); mTemp := mTemp (mets s) |}.

Lemma remove_batch_shape v force b idxs s s' o :
  remove_batch v force b idxs s = (s', o) ->
  s' = s \/ exists vl, vget v (vols s) = Some vl /\ rm_choice_ok b idxs (vslots vl) = true /\
    (force = true \/ wsum occ1 (vslots vl) = 0) /\ o = ORes (Ok tt) /\ s' = rb_state v idxs vl s.
Proof.
  unfold remove_batch. destruct (vget v (vols s)) as [vl|] eqn:G.
  2:{ destruct idxs; intros [= <- <-]; now left. }
  destruct (negb force && negb (wsum occ1 (vslots vl) =? 0)) eqn:E.
  { destruct idxs; intros [= <- <-]; now left. }
  destruct (rm_choice_ok b idxs (vslots vl)) eqn:C; cbn [negb].
  2:{ intros [= <- <-]; now left. }
  set (kept := keep_slots idxs (vslots vl)). set (lost := wsum occ1 (vslots vl) - wsum occ1 kept).
  destruct (stat_inc (mPhys (mets s)) (- lost)) as [p| |] eqn:S1; cbn [bind fin].
  2,3: intros [= <- <-]; now left.
  destruct (stat_inc (mLost (mets s)) lost) as [lo| |] eqn:S2; cbn [bind fin].
  2,3: intros [= <- <-]; now left.
  destruct (stat_inc (mTotal (mets s)) (- Z.of_nat (length idxs))) as [t| |] eqn:S3; cbn [bind fin].
  2,3: intros [= <- <-]; now left.
  intros [= <- <-]. right. exists vl. split; [reflexivity|]. split; [exact C|].
  split. { destruct force; [now left|right]. cbn in E. lia. }
  split; [reflexivity|].
  apply stat_inc_ok in S1, S2, S3. subst p lo t. unfold rb_state. fold kept. fold lost.
  rewrite (vupd_ext_at v _ (rb_vol idxs) _ vl G) by reflexivity. reflexivity.
Qed.

(* the observation of a batch is a result or OBad, and an unchanged state on anything but Ok *)
Lemma remove_batch_unchanged v force b idxs s s' o :
  remove_batch v force b idxs s = (s', o) -> o <> ORes (Ok tt) -> s' = s.
Proof.
  unfold remove_batch. destruct (vget v (vols s)) as [vl|].
  2:{ destruct idxs; now intros [= <- <-]. }
  destruct (negb force && negb (wsum occ1 (vslots vl) =? 0)).
  { destruct idxs; now intros [= <- <-]. }
  destruct (negb (rm_choice_ok b idxs (vslots vl))); [now intros [= <- <-]|].
  destruct (stat_inc (mPhys (mets s)) _) as [p| |]; cbn [bind fin]; try (now intros [= <- <-]).
  destruct (stat_inc (mLost (mets s)) _) as [lo| |]; cbn [bind fin]; try (now intros [= <- <-]).
  destruct (stat_inc (mTotal (mets s)) _) as [t| |]; cbn [bind fin]; now intros [= <- <-].
Qed.

Lemma rb_vol_ok b idxs vl : wvol_ok vl -> rm_choice_ok b idxs (vslots vl) = true -> wvol_ok (rb_vol idxs vl).
Proof.
  intros [O1 [O2 O3]] C. destruct (rm_choice_length b idxs (vslots vl) O1 C) as [L _].
  unfold wvol_ok, rb_vol; cbn. repeat split.
  - now apply keep_keys_nodup.
  - lia.
  - lia.
Qed.

Lemma winv_remove_batch v force b idxs s : winv s -> winv (fst (remove_batch v force b idxs s)).
Proof.
  intros I. destruct (remove_batch v force b idxs s) as [s' o] eqn:R. cbn [fst].
  destruct (remove_batch_shape _ _ _ _ _ _ _ R) as [->|[vl [G [C [_ [_ ->]]]]]]; [exact I|].
  destruct I as [I1 I2 I3 I4 I5 I6 I7 I8].
  assert (Hok : wvol_ok vl).
  { rewrite Forall_forall in I2; apply I2. now apply (vget_in v (vols s) vl). }
  pose proof (wsum_filter_le occ1 (fun x => negb (mem (fst x) idxs)) (vslots vl) occ1_nonneg) as Hle.
  fold (keep_slots idxs (vslots vl)) in Hle.
  constructor; cbn; auto.
  - now rewrite vupd_vids.
  - apply Forall_vupd; [exact I2|]. intros y Gy Oy. rewrite G in Gy; injection Gy as <-.
    eapply rb_vol_ok; eauto.
  - intros r. unfold gcnt. rewrite (gsum_vupd _ v _ _ vl G). cbn.
    pose proof (wsum_filter_le (is_root r) (fun x => negb (mem (fst x) idxs)) (vslots vl) (is_root_nonneg r)) as H.
    fold (keep_slots idxs (vslots vl)) in H.
    specialize (I3 r); unfold gcnt in I3; lia.
  - rewrite (gsum_vupd _ v _ _ vl G). cbn. lia.
  - rewrite (gsum_vupd _ v _ _ vl G). cbn. lia.
  - lia.
Qed.

(* bounds the weak invariant gives *)
Lemma gsum_in_le_ok (g : vol -> Z) l x :
  (forall y, In y l -> 0 <= g y) -> In x l -> g x <= gsum g l.
Proof.
  induction l as [|y t IH]; cbn; [tauto|]. intros Hg [->|H].
  - assert (0 <= gsum g t).
    { clear - Hg. induction t as [|z t IH]; cbn; [lia|].
      pose proof (Hg z (or_intror (or_introl eq_refl))).
      assert (0 <= gsum g t) by (apply IH; intros w [Hw|Hw]; apply Hg; [now left|right; now right]). lia. }
    lia.
  - specialize (IH (fun z Hz => Hg z (or_intror Hz)) H). pose proof (Hg y (or_introl eq_refl)). lia.
Qed.

Lemma wvol_nonneg vl : wvol_ok vl -> 0 <= vused vl /\ 0 <= vtotal vl.
Proof.
  intros [_ [O2 O3]]. rewrite O2, O3. split; [apply wsum_nonneg, occ1_nonneg|lia].
Qed.

Lemma wused_bounds s v vl : winv s -> vget v (vols s) = Some vl ->
  wvol_ok vl /\ vused vl <= mPhys (mets s) /\ vtotal vl <= mTotal (mets s).
Proof.
  intros I G. pose proof (proj1 (vget_in v _ vl G)) as Hin.
  pose proof (winv_vol s I) as HF. rewrite Forall_forall in HF.
  split; [exact (HF vl Hin)|]. rewrite (winv_phys s I), (winv_total s I). split.
  - apply gsum_in_le_ok; [|exact Hin]. intros y Hy. apply (wvol_nonneg y (HF y Hy)).
  - apply gsum_in_le_ok; [|exact Hin]. intros y Hy. apply (wvol_nonneg y (HF y Hy)).
Qed.

Lemma winv_remove_final v s s' : winv s -> remove_final v s = Ok s' -> winv s'.
Proof.
  intros I. unfold remove_final. destruct (vget v (vols s)) as [vl|] eqn:G; [|discriminate].
  destruct (vslots vl) eqn:E; [|discriminate]. intros [= <-].
  destruct (wused_bounds s v vl I G) as [[O1 [O2 O3]] _]. rewrite E in O2, O3. cbn in O2, O3.
  destruct I as [I1 I2 I3 I4 I5 I6 I7 I8]. constructor; cbn; auto.
  - now apply vdel_nodup.
  - now apply Forall_vdel.
  - intros r. unfold gcnt. rewrite (gsum_vdel _ v _ vl G). rewrite E. cbn.
    specialize (I3 r); unfold gcnt in I3; lia.
  - rewrite (gsum_vdel _ v _ vl G). lia.
  - rewrite (gsum_vdel _ v _ vl G). lia.
Qed.

(** * A batch followed by the atomic removal is the atomic removal *)
Lemma vdel_vupd v f l : (forall x, vid (f x) = vid x) -> vdel v (vupd v f l) = vdel v l.
Proof.
  intros Hf. induction l as [|x t IH]; cbn; [reflexivity|].
  destruct (v =? vid x)%N eqn:E; cbn; [now rewrite Hf, E|now rewrite E, IH].
Qed.

Lemma remove_vol_eq v force s vl :
  winv s -> vget v (vols s) = Some vl -> (force = true \/ wsum occ1 (vslots vl) = 0) ->
  remove_vol v force s =
  Ok (with_mets (with_vols s (vdel v (vols s)))
        {| mTotal := mTotal (mets s) - Z.of_nat (length (vslots vl));
           mPhys := mPhys (mets s) - wsum occ1 (vslots vl);
           mLost := mLost (mets s) + wsum occ1 (vslots vl);
           mContract := mContract (mets s); mTemp := mTemp (mets s) |}).
Proof.
  intros I G F. destruct (wused_bounds s v vl I G) as [[O1 [O2 O3]] [B1 B2]].
  pose proof (wsum_nonneg occ1 (vslots vl) occ1_nonneg) as Hnn.
  pose proof (winv_lost s I) as HL.
  unfold remove_vol. rewrite G.
  replace (negb force && negb (wsum occ1 (vslots vl) =? 0)) with false
    by (destruct F as [F|F]; rewrite F; [reflexivity|now rewrite Bool.andb_false_r]).
  rewrite !stat_inc_eq by lia. cbn [bind]. reflexivity.
Qed.

Lemma remove_batch_absorbed v force b idxs s s1 :
  winv s -> remove_batch v force b idxs s = (s1, ORes (Ok tt)) ->
  remove_vol v force s1 = remove_vol v force s.
Proof.
  intros I R. pose proof (winv_remove_batch v force b idxs s I) as I1. rewrite R in I1. cbn [fst] in I1.
  destruct (remove_batch_shape _ _ _ _ _ _ _ R) as [->|[vl [G [C [F [_ E]]]]]]; [reflexivity|].
  destruct (wused_bounds s v vl I G) as [[O1 [O2 O3]] _].
  destruct (rm_choice_length b idxs (vslots vl) O1 C) as [L _].
  pose proof (wsum_filter_le occ1 (fun x => negb (mem (fst x) idxs)) (vslots vl) occ1_nonneg) as Hle.
  fold (keep_slots idxs (vslots vl)) in Hle.
  pose proof (wsum_nonneg occ1 (keep_slots idxs (vslots vl)) occ1_nonneg) as Hnn.
  assert (G1 : vget v (vols s1) = Some (rb_vol idxs vl)).
  { subst s1. cbn. apply vget_vupd_same; [reflexivity|exact G]. }
  rewrite (remove_vol_eq v force s vl I G F).
  rewrite (remove_vol_eq v force s1 (rb_vol idxs vl) I1 G1).
  2:{ destruct F as [F|F]; [now left|right]. cbn. lia. }
  subst s1. unfold rb_state. cbn. rewrite vdel_vupd by reflexivity.
  f_equal. unfold with_mets, with_vols; cbn. f_equal. f_equal; lia.
Qed.

(* under the invariant a valid batch commits *)
Lemma remove_batch_ok v force b idxs s vl :
  winv s -> vget v (vols s) = Some vl -> (force = true \/ wsum occ1 (vslots vl) = 0) ->
  rm_choice_ok b idxs (vslots vl) = true ->
  remove_batch v force b idxs s = (rb_state v idxs vl s, ORes (Ok tt)).
Proof.
  intros I G F C. destruct (wused_bounds s v vl I G) as [[O1 [O2 O3]] [B1 B2]].
  destruct (rm_choice_length b idxs (vslots vl) O1 C) as [L _].
  pose proof (wsum_filter_le occ1 (fun x => negb (mem (fst x) idxs)) (vslots vl) occ1_nonneg) as Hle.
  fold (keep_slots idxs (vslots vl)) in Hle.
  pose proof (wsum_nonneg occ1 (keep_slots idxs (vslots vl)) occ1_nonneg) as Hnn.
  pose proof (winv_lost s I) as HL.
  unfold remove_batch. rewrite G.
  replace (negb force && negb (wsum occ1 (vslots vl) =? 0)) with false
    by (destruct F as [F|F]; rewrite F; [reflexivity|now rewrite Bool.andb_false_r]).
  rewrite C. cbn [negb]. rewrite !stat_inc_eq by lia. cbn [bind fin].
  f_equal. unfold rb_state.
  rewrite (vupd_ext_at v _ (rb_vol idxs) _ vl G) by reflexivity. reflexivity.
Qed.

Lemma fin_ok_any s s1 (r : res state) s' : r = Ok s' -> fin s1 r = fin s r.
Proof. intros ->. reflexivity. Qed.

(* Store.RemoveVolume as the loop of its batches is the atomic [remove_vol] *)
Theorem remove_run_atomic v force b : (0 < b)%N -> forall cs s,
  winv s -> snd (remove_run v force b cs s) <> OBad ->
  remove_run v force b cs s = fin s (remove_vol v force s).
Proof.
  intros Hb. induction cs as [|c rest IH]; intros s I Hbad; cbn [remove_run] in *; [cbn in Hbad; congruence|].
  destruct (vget v (vols s)) as [vl|] eqn:G.
  - destruct (negb force && negb (wsum occ1 (vslots vl) =? 0)) eqn:E.
    + unfold remove_batch in *. rewrite G, E in *.
      destruct c; cbn in Hbad; [|congruence]. unfold remove_vol. rewrite G, E. reflexivity.
    + assert (F : force = true \/ wsum occ1 (vslots vl) = 0).
      { destruct force; [now left|right]. cbn in E. lia. }
      destruct (rm_choice_ok b c (vslots vl)) eqn:C.
      * rewrite (remove_batch_ok v force b c s vl I G F C) in *.
        pose proof (winv_remove_batch v force b c s I) as I1.
        rewrite (remove_batch_ok v force b c s vl I G F C) in I1. cbn [fst] in I1.
        pose proof (remove_batch_absorbed v force b c s _ I (remove_batch_ok v force b c s vl I G F C)) as A.
        pose proof (remove_vol_eq v force s vl I G F) as Eq.
        destruct c as [|i t].
        -- destruct rest; [|cbn in Hbad; congruence].
           destruct (wused_bounds s v vl I G) as [[O1 _] _].
           destruct (rm_choice_length b [] (vslots vl) O1 C) as [_ L]. cbn in L.
           assert (E0 : vslots vl = []) by (destruct (vslots vl); [reflexivity|cbn in L; lia]).
           unfold remove_final. cbn [vols rb_state with_mets with_vols].
           rewrite (vget_vupd_same v _ _ vl) by (auto; reflexivity).
           unfold rb_vol at 1. cbn [vslots set_used set_total set_slots]. rewrite E0. cbn [keep_slots filter].
           rewrite Eq. cbn [fin]. f_equal.
           rewrite vdel_vupd by reflexivity. rewrite E0. cbn.
           unfold with_vols, with_mets; cbn. rewrite ?keep_nil. f_equal. f_equal; lia.
        -- rewrite (IH _ I1 Hbad). rewrite A. apply (fin_ok_any _ _ _ _ Eq).
      * unfold remove_batch in Hbad. rewrite G, E, C in Hbad. cbn in Hbad. congruence.
  - unfold remove_batch in *. rewrite G in *. destruct c; cbn in Hbad; [|congruence].
    destruct rest; cbn in Hbad; [|congruence].
    unfold remove_final, remove_vol. rewrite G. reflexivity.
Qed.

(* a cut removal: the batches committed so far are absorbed by the atomic removal *)
Lemma remove_cut_absorbed v force b : forall cs s s1,
  winv s -> remove_cut v force b cs s = (s1, ORes (Ok tt)) ->
  winv s1 /\ remove_vol v force s1 = remove_vol v force s.
Proof.
  induction cs as [|c rest IH]; intros s s1 I; cbn [remove_cut].
  - intros [= <-]. auto.
  - destruct (remove_batch v force b c s) as [s2 o] eqn:R.
    destruct o as [[[]| |]| | | | | |]; try (intros [= <- ?]; discriminate); try discriminate.
    intros H. pose proof (winv_remove_batch v force b c s I) as I2. rewrite R in I2. cbn [fst] in I2.
    destruct (IH s2 s1 I2 H) as [I1 A]. split; [exact I1|].
    rewrite A. eapply remove_batch_absorbed; eauto.
Qed.

(* the retry of a cut removal ends where the uninterrupted removal would have ended *)
Theorem remove_retry_completes v force b cs1 cs2 s s1 :
  (0 < b)%N -> winv s ->
  remove_cut v force b cs1 s = (s1, ORes (Ok tt)) ->
  snd (remove_run v force b cs2 s1) <> OBad ->
  winv s1 /\ remove_run v force b cs2 s1 = fin s1 (remove_vol v force s).
Proof.
  intros Hb I Cut Hbad. destruct (remove_cut_absorbed v force b cs1 s s1 I Cut) as [I1 A].
  split; [exact I1|]. rewrite (remove_run_atomic v force b Hb cs2 s1 I1 Hbad). now rewrite A.
Qed.
