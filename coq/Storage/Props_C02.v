(* C02 — Referenced sector data stays retrievable and intact.   PARTIAL.
   Statements only; every proof is [exact lemma].

   Model: coq/Storage/DataModel.v (host/storage/storage.go + volume.go over the store model
   Model.v), one step per store call / file operation group of the volume manager; writers are
   threads whose DReserve / DWrite steps interleave freely with every other step; [DCrash] may
   occur anywhere and any number of times; the cache has any size and is resized at will.

   PARTIAL because (1) file-system durability is an assumption of the model (data is readable
   once written and survives a crash once fsynced; torn sector writes and real power loss are
   not exhibited), SHA-256/Merkle roots are abstracted to content identity; and (2) the full
   statement is FALSE of the code (see the two _refuted theorems, known findings): what the RPC
   handlers rely on — "Write returned nil, then Sync, then commit the reference" — does not
   guarantee that the sector's bytes are on disk, because Store.StoreSector answers "exists" for
   any root that has a slot, also when the slot's data was never (durably) written.

       Full statement (not provable):  forall run r, the run follows the handlers' discipline and
       contains no RemoveSector / forced removal  ->  r referenced  ->  ReadSector r = bytes of r
       (now and after a crash at this point).

   What holds (c02_readable_partial) replaces the discipline by what it is meant to establish:
   every store call that adds a reference adds it for a sector that is durably written at that
   moment ([step_ok], clause DMeta).  Under that hypothesis every referenced sector reads back
   the bytes hashing to its root in every reachable state and after a crash at any point, across
   prune, grow, shrink and non-forced removal with migration, interleaved writers of equal or
   different sectors, any cache size, restarts.  The other two clauses of [step_ok]: no explicit
   RemoveSector / forced removal (the permitted losses: c02_lost_counted), and a freshly
   reserved slot does not already hold the very bytes of the new sector (stale copy of a pruned
   sector; without it a migration could move the slot under the writer).
   The cache is modelled as root -> bytes: callers do not modify buffers obtained from
   ReadSector or passed to Write (RHP2/RHP3 update-sector as patched by
   fixes/C02-update-sector-copy.patch). *)
From HostdBase Require Import Base.
From HostdStorage Require Import Model Lemmas Proofs Proofs2 DataModel DataLemmas DataProofs DataProofs2 DataProofs3.

(* what VolumeManager.ReadSector returns *)
Theorem c02_read_result_is_ReadSector : forall d r,
  snd (dstep d (DRead r false)) =
  match read_result d r with
  | Some c => ORead (is_some (cget r (cache d))) c
  | None => OReadErr
  end.
Proof. exact dread_result. Qed.
Print Assumptions c02_read_result_is_ReadSector.

(* Every referenced sector reads back its own bytes, in every reachable state and after a crash
   in that state (the run itself may contain crashes and restarts anywhere). *)
Theorem c02_readable_partial : forall (size : N) (l : list dop) (r : N),
  steps_ok (dinit size) l ->
  refd (md (druns (dinit size) l)) r = true ->
  read_result (druns (dinit size) l) r = Some r /\
  read_result (dcrash (druns (dinit size) l)) r = Some r.
Proof. exact readable_runs. Qed.
Print Assumptions c02_readable_partial.

(* Only RemoveSector and forced removal can break it: every other step keeps "referenced =>
   durably written" (and the rest of the invariant) ... *)
Theorem c02_only_permitted_losses_partial : forall d o,
  dinv d -> step_ok d o -> dinv (fst (dstep d o)).
Proof. exact dinv_step. Qed.
Print Assumptions c02_only_permitted_losses_partial.

(* ... and those two raise lostSectors by exactly the number of occupied slots they destroy,
   after any run whatsoever; no other step changes the metric. *)
Theorem c02_lost_counted : forall (size : N) (l : list dop) o, dloss_op o = true ->
  let d := druns (dinit size) l in
  (mLost (mets (md (fst (dstep d o)))) - mLost (mets (md d)) =
   occ_total (md d) - occ_total (md (fst (dstep d o))))%Z.
Proof. exact dlost_exact_runs. Qed.
Print Assumptions c02_lost_counted.

Theorem c02_lost_unchanged_otherwise : forall d o, dloss_op o = false ->
  mLost (mets (md (fst (dstep d o)))) = mLost (mets (md d)).
Proof. exact dlost_unchanged. Qed.
Print Assumptions c02_lost_unchanged_otherwise.

(* What protects a sector between Write and the commit of its reference from PruneSectors is its
   last-access time: a Write that returns nil — through the StoreFunc or through "exists" —
   refreshes it, and a prune pass whose cutoff is older than that spares the sector. *)
Theorem c02_ack_refreshes_last_access : forall d t r loc,
  snd (dstep d (DReserve t r loc)) = OAck \/ snd (dstep d (DReserve t r loc)) = OPlaced ->
  mem r (fresh (fst (dstep d (DReserve t r loc)))) = true.
Proof. exact ack_fresh. Qed.
Print Assumptions c02_ack_refreshes_last_access.

Theorem c02_prune_spares_recently_accessed_partial : forall d r, dinv d -> mem r (fresh d) = true ->
  (written d r -> written (fst (dstep d DPrune)) r) /\ (durable d r -> durable (fst (dstep d DPrune)) r).
Proof. exact prune_spares_fresh. Qed.
Print Assumptions c02_prune_spares_recently_accessed_partial.

(* Sync, non-atomically (DSyncBegin / DFsync / DClear / DSyncEnd interleaved with writers and other
   Syncs): because a volume's changed flag is deleted only after a successful fsync of that
   volume, unsynced writer data always sits on a flagged volume; hence when no flag is set
   everything written is durable and a Sync that finds no changed volume may return nil at once.
   Hypothesis [flags_ok]: no data write lands on a volume between its fsync and the deletion of
   its flag ... *)
Theorem c02_sync_flags_partial : forall (size : N) (l : list dop), flags_ok (dinit size) l ->
  let d := druns (dinit size) l in
  flag_inv d /\ (changed d = [] -> forall v i, dcontent d v i = content d v i).
Proof. exact sync_flags_runs. Qed.
Print Assumptions c02_sync_flags_partial.

(* ... without it the statement is false of the model (reviewer lead 3: the window between
   vol.Sync() returning and delete(vm.changedVolumes, id); no call sits in that window, so this
   one is a model-level witness only, not reproduced on the implementation). *)
Theorem c02_sync_flag_race_refuted : exists size l,
  let d := druns (dinit size) l in changed d = [] /\ exists v i, dcontent d v i <> content d v i.
Proof. exact flag_race_refuted. Qed.
Print Assumptions c02_sync_flag_race_refuted.

(* The full statement is refuted without any crash: a second uploader is told "exists" while the
   first writer still holds the slot, syncs, commits its reference; the first writer's data write
   then fails and its rollback releases the slot. *)
Theorem c02_acknowledged_readable_refuted : exists size l r,
  forallb calm l = true /\ disciplined (dtrace (dinit size) l) = true /\
  refd (md (druns (dinit size) l)) r = true /\ read_result (druns (dinit size) l) r <> Some r.
Proof. exact readable_refuted_no_crash. Qed.
Print Assumptions c02_acknowledged_readable_refuted.

(* ... and with a crash between slot commit and data write: the slot survives without data and
   the re-upload after the restart is told "exists". *)
Theorem c02_crash_readable_refuted : exists size l r,
  forallb no_loss l = true /\ disciplined (dtrace (dinit size) l) = true /\
  refd (md (druns (dinit size) l)) r = true /\ read_result (druns (dinit size) l) r <> Some r.
Proof. exact readable_refuted_crash. Qed.
Print Assumptions c02_crash_readable_refuted.

(* non-vacuity: a run that meets the hypotheses, commits a reference, migrates the sector during
   a shrink, crashes, and reads it back *)
Example c02_nonvacuous :
  steps_ok (dinit 1) demo /\ refd (md (druns (dinit 1) demo)) 7 = true /\
  slot_at (md (druns (dinit 1) demo)) 2 0 = Some (Some 7%N) /\
  read_result (druns (dinit 1) demo) 7 = Some 7%N.
Proof. exact demo_nonvacuous. Qed.
