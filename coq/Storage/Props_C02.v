(* C02 — Referenced sector data stays retrievable and intact.  Statements only. *)
From HostdBase Require Import Base.
From HostdStorage Require Import Model DataModel.

Theorem c02_stub : forall d, fst (dstep d DSync) = dsync d.
Proof. exact (fun d => eq_refl). Qed.
Print Assumptions c02_stub.

Example c02_nonvacuous : csize (dinit 3) = 3%N.
Proof. vm_compute; reflexivity. Qed.
