(* C02 — Referenced sector data stays retrievable and intact.   PARTIAL.
   Statements only; every proof is [exact lemma].

   Model: coq/Storage/DataModel.v (host/storage/storage.go + volume.go over the store model
   Model.v), one step per store call / file operation group of the volume manager; writers are
   threads whose DReserve / DWrite steps interleave freely with every other step; [DCrash] may
   occur anywhere and any number of times; the cache has any size and is resized at will.

   PARTIAL because (1) file-system durability is an assumption of the model (data is readable
   once written and survives a crash once fsynced; torn sector writes and real power loss are
   not exhibited), SHA-256/Merkle roots are abstracted to content identity; and (2) the full
   statement is FALSE of the code (see the two _refuted theorems, known findings): what the RPC
   handlers rely on — "Write returned nil, then Sync, then commit the reference" — does not
   guarantee that the sector's bytes are on disk, because Store.StoreSector answers "exists" for
   any root that has a slot, also when the slot's data was never (durably) written.

       Full statement (not provable):  forall run r, the run follows the handlers' discipline and
       contains no RemoveSector / forced removal  ->  r referenced  ->  ReadSector r = bytes of r
       (now and after a crash at this point).

   What holds (c02_readable_partial) replaces the discipline by what it is meant to establish:
   every store call that adds a reference adds it for a sector whose upload is complete and
   durable at that moment ([step_ok], clause DMeta: [settled] = durably written and no writer of
   it between slot commit and data write).  Under that hypothesis every referenced sector reads
   back the bytes hashing to its root in every reachable state and after a crash at any point,
   across prune, grow, shrink and non-forced removal with migration, interleaved writers of equal
   or different sectors, any cache size, restarts.  The other clauses of [step_ok]: no explicit
   RemoveSector / forced removal (the permitted losses: c02_lost_counted), and (m) a migration
   does not move a sector whose upload is in flight (c02_migration_of_in_flight_upload_refuted:
   a real window of the code, reproduced by the harness).
   The former clause (b) "a freshly reserved slot does not already hold the very bytes of the
   new sector" is GONE (work package W): it is violated by ordinary executions (upload, prune,
   re-upload into the stale slot; Example c02_stale_slot_nonvacuous) and was an artefact of the
   invariant, which no longer says anything about the bytes under a writer that has not written
   yet.  On the runs the old hypotheses admitted the new ones hold as well: under the old
   invariant a slot held by a writer never contained the sector's bytes, so "durable" implied
   "not in flight" and no migrateSector call could succeed on such a slot (root check).
   The cache is modelled as root -> bytes: callers do not modify buffers obtained from
   ReadSector or passed to Write (RHP2/RHP3 update-sector as patched by
   fixes/C02-update-sector-copy.patch). *)
From HostdBase Require Import Base.
From HostdStorage Require Import Model Lemmas Proofs Proofs2 DataModel DataLemmas DataProofs DataProofs2 DataProofs3 DataProofs4 StatusModel StatusProofs.

(* what VolumeManager.ReadSector returns *)
Theorem c02_read_result_is_ReadSector : forall d r,
  snd (dstep d (DRead r false)) =
  match read_result d r with
  | Some c => ORead (is_some (cget r (cache d))) c
  | None => OReadErr
  end.
Proof. exact dread_result. Qed.
Print Assumptions c02_read_result_is_ReadSector.

(* Every referenced sector reads back its own bytes, in every reachable state and after a crash
   in that state (the run itself may contain crashes and restarts anywhere). *)
Theorem c02_readable_partial : forall (size : N) (l : list dop) (r : N),
  steps_ok (dinit size) l ->
  refd (md (druns (dinit size) l)) r = true ->
  read_result (druns (dinit size) l) r = Some r /\
  read_result (dcrash (druns (dinit size) l)) r = Some r.
Proof. exact readable_runs. Qed.
Print Assumptions c02_readable_partial.

(* Only RemoveSector and forced removal can break it: every other step keeps "referenced =>
   durably written" (and the rest of the invariant) ... *)
Theorem c02_only_permitted_losses_partial : forall d o,
  dinv d -> step_ok d o -> dinv (fst (dstep d o)).
Proof. exact (dinv_step (fun _ => False)). Qed.
Print Assumptions c02_only_permitted_losses_partial.

(* ... and those two raise lostSectors by exactly the number of occupied slots they destroy,
   after any run whatsoever; no other step changes the metric. *)
Theorem c02_lost_counted : forall (size : N) (l : list dop) o, dloss_op o = true ->
  let d := druns (dinit size) l in
  (mLost (mets (md (fst (dstep d o)))) - mLost (mets (md d)) =
   occ_total (md d) - occ_total (md (fst (dstep d o))))%Z.
Proof. exact dlost_exact_runs. Qed.
Print Assumptions c02_lost_counted.

Theorem c02_lost_unchanged_otherwise : forall d o, dloss_op o = false ->
  mLost (mets (md (fst (dstep d o)))) = mLost (mets (md d)).
Proof. exact dlost_unchanged. Qed.
Print Assumptions c02_lost_unchanged_otherwise.

(* What protects a sector between Write and the commit of its reference from PruneSectors is its
   last-access time: a Write that returns nil — through the StoreFunc or through "exists" —
   refreshes it, and a prune pass whose cutoff is older than that spares the sector. *)
Theorem c02_ack_refreshes_last_access : forall d t r loc,
  snd (dstep d (DReserve t r loc)) = OAck \/ snd (dstep d (DReserve t r loc)) = OPlaced ->
  mem r (fresh (fst (dstep d (DReserve t r loc)))) = true.
Proof. exact ack_fresh. Qed.
Print Assumptions c02_ack_refreshes_last_access.

Theorem c02_prune_spares_recently_accessed_partial : forall d r, dinv d -> mem r (fresh d) = true ->
  (written d r -> written (fst (dstep d DPrune)) r) /\ (durable d r -> durable (fst (dstep d DPrune)) r).
Proof. exact prune_spares_fresh. Qed.
Print Assumptions c02_prune_spares_recently_accessed_partial.

(* Sync, non-atomically (DSyncBegin / DFsync / DClear / DSyncEnd interleaved with writers and other
   Syncs): because a volume's changed flag is deleted only after a successful fsync of that
   volume, unsynced writer data always sits on a flagged volume; hence when no flag is set
   everything written is durable and a Sync that finds no changed volume may return nil at once.
   Hypothesis [flags_ok]: no data write lands on a volume between its fsync and the deletion of
   its flag ... *)
Theorem c02_sync_flags_partial : forall (size : N) (l : list dop), flags_ok (dinit size) l ->
  let d := druns (dinit size) l in
  flag_inv d /\ (changed d = [] -> forall v i, dcontent d v i = content d v i).
Proof. exact sync_flags_runs. Qed.
Print Assumptions c02_sync_flags_partial.

(* ... without it the statement is false of the model (reviewer lead 3: the window between
   vol.Sync() returning and delete(vm.changedVolumes, id); no call sits in that window, so this
   one is a model-level witness only, not reproduced on the implementation). *)
Theorem c02_sync_flag_race_refuted : exists size l,
  let d := druns (dinit size) l in changed d = [] /\ exists v i, dcontent d v i <> content d v i.
Proof. exact flag_race_refuted. Qed.
Print Assumptions c02_sync_flag_race_refuted.

(* The full statement is refuted without any crash: a second uploader is told "exists" while the
   first writer still holds the slot, syncs, commits its reference; the first writer's data write
   then fails and its rollback releases the slot. *)
Theorem c02_acknowledged_readable_refuted : exists size l r,
  forallb calm l = true /\ disciplined (dtrace (dinit size) l) = true /\
  refd (md (druns (dinit size) l)) r = true /\ read_result (druns (dinit size) l) r <> Some r.
Proof. exact readable_refuted_no_crash. Qed.
Print Assumptions c02_acknowledged_readable_refuted.

(* ... and with a crash between slot commit and data write: the slot survives without data and
   the re-upload after the restart is told "exists". *)
Theorem c02_crash_readable_refuted : exists size l r,
  forallb no_loss l = true /\ disciplined (dtrace (dinit size) l) = true /\
  refd (md (druns (dinit size) l)) r = true /\ read_result (druns (dinit size) l) r <> Some r.
Proof. exact readable_refuted_crash. Qed.
Print Assumptions c02_crash_readable_refuted.

(* Clause (m) of [step_ok] cannot be dropped, of the code as it is: every step but the migration
   satisfies [step_ok], the run is calm and follows the handlers' discipline, and a referenced
   sector that nobody deleted reads back another sector's bytes.  The upload of 7 is handed the
   slot that still holds 7's bytes (stale copy of a pruned upload); a shrink's migrateSector
   reads it, finds the right root, moves the sector; the shrink is not completed and the vacated
   slot goes to sector 8 (written, synced, referenced); the first writer then writes into it.
   Reproduced on the real VolumeManager (TestVerifC02 case 13, sig
   migration-of-in-flight-upload-overwrites-new-tenant). *)
Theorem c02_migration_of_in_flight_upload_refuted : exists size l q,
  forallb calm l = true /\ disciplined (dtrace (dinit size) l) = true /\
  steps_ok_but_m (dinit size) l /\
  refd (md (druns (dinit size) l)) q = true /\ read_result (druns (dinit size) l) q <> Some q.
Proof. exact migrate_in_flight_refuted. Qed.
Print Assumptions c02_migration_of_in_flight_upload_refuted.

(* ---- Maintenance cut at its internal steps (DataModel.v, "Finer steps") --------------------
   VolumeManager.RemoveSector is four steps — XRsLocate (vm.mu.Lock, SectorLocation), XRsCommit
   (Store.RemoveSector), XRsZero (the zero write), XRsEnd (fsync, cache drop, unlock) — and
   every other step of the model may run in between, except the ones that need vm.mu while it
   is held ([takes_mu]: a writer's data write, Sync and its pieces, a cache-miss read,
   migrateSector, another RemoveSector, Close).  Sync was already cut (DSyncBegin / DFsync /
   DClear / DSyncEnd), a writer is DReserve / DWrite; migrateSector and a cache-miss ReadSector
   are single steps at this granularity and are cut in the second finer layer further down
   ([ystep]); shrink = Store.ShrinkVolume then truncate and remove = Store.RemoveVolume then file
   removal touch only slots the store has just made unreachable (ShrinkVolume / non-forced
   RemoveVolume refuse occupied slots, held writers' included), so cutting them changes no read.
   [xstep_ok] = [step_ok] with the explicit deletion ALLOWED (as one step or cut), under one
   proviso: no upload of the very sector that is being deleted is in flight when its metadata
   is removed (refuted otherwise, see below).  The former proviso "content number 0 (zeroes) is
   nobody's root" is gone together with clause (b).
   [xlost] is the list of sectors an operator deleted explicitly. *)

(* every step of the finer model keeps the invariant "every referenced sector that was not
   deleted explicitly is durably written" (+ cache coherence, writers' slots, the window
   condition of a RemoveSector in progress): the finer version of c02_only_permitted_losses *)
Theorem c02_only_permitted_losses_fine_partial : forall x o,
  xinv x -> xstep_ok x o -> xinv (fst (xstep x o)).
Proof. exact xinv_step. Qed.
Print Assumptions c02_only_permitted_losses_fine_partial.

(* the finer version of c02_readable: every interleaving of the internal steps of RemoveSector
   with writers, Syncs, prune, migration, crashes ... *)
Theorem c02_readable_fine_partial : forall (size : N) (l : list xop) (r : N),
  xsteps_ok (xinit size) l ->
  let x := xruns (xinit size) l in
  refd (md (xd x)) r = true -> ~ In r (xlost x) ->
  read_result (xd x) r = Some r /\ read_result (dcrash (xd x)) r = Some r.
Proof. exact readable_xruns. Qed.
Print Assumptions c02_readable_fine_partial.

(* An explicit deletion of r — as one step or at any of its internal steps, after any run and
   with anything in between — never changes what any other referenced sector reads back. *)
Theorem c02_remove_sector_loses_only_its_target : forall (size : N) (l : list xop) (o : xop) (r q : N),
  xsteps_ok (xinit size) (l ++ [o]) ->
  rs_target (xruns (xinit size) l) o = Some r -> q <> r ->
  let x := xruns (xinit size) l in
  let x' := fst (xstep x o) in
  refd (md (xd x')) q = true -> ~ In q (xlost x) ->
  read_result (xd x') q = Some q /\ read_result (dcrash (xd x')) q = Some q.
Proof. exact remove_sector_only_target. Qed.
Print Assumptions c02_remove_sector_loses_only_its_target.

(* uninterrupted, the four steps are the RemoveSector step of the coarser model *)
Theorem c02_remove_sector_is_its_steps : forall x r,
  xmu x = None ->
  (locate r (md (xd x)) = None \/ exists m, remove_sector r (md (xd x)) = Ok m) ->
  exists lost, xruns x [XRsLocate r; XRsCommit; XRsZero true; XRsEnd true] =
               {| xd := fst (dstep (xd x) (DRemoveSector r)); xmu := None; xlost := lost |}.
Proof. exact rs_steps_are_remove_sector. Qed.
Print Assumptions c02_remove_sector_is_its_steps.

(* Legacy variant, RemoveSector WITHOUT the critical section (vm.mu only around the map lookup;
   [xstep_gen false]): a calm, disciplined run in which a referenced sector that nobody deleted
   reads back as zeroes — the writer that was handed the released slot wrote before the zeroes. *)
Theorem c02_remove_sector_without_lock_refuted : exists size l q,
  forallb xcalm l = true /\ xguards false (xinit size) l = true /\
  disciplined (xdtrace false (xinit size) l) = true /\
  let x := xruns_gen false (xinit size) l in
  refd (md (xd x)) q = true /\ ~ In q (xlost x) /\ read_result (xd x) q <> Some q.
Proof. exact rs_without_lock_refuted. Qed.
Print Assumptions c02_remove_sector_without_lock_refuted.

(* ... with the critical section the same schedule is harmless: the data write is not enabled
   inside the window and lands on top of the zeroes *)
Theorem c02_remove_sector_lock_orders_writer :
  let x := xruns (xinit 0) (firstn 10 witness_no_lock) in
  snd (xstep x (XD (DWrite 2 true))) = ODBad /\
  read_result (xd (xruns (xinit 0) (firstn 10 witness_no_lock ++ [XRsZero true; XRsEnd true; XD (DWrite 2 true)]))) 8 = Some 8%N.
Proof. exact rs_with_lock_blocks_writer. Qed.
Print Assumptions c02_remove_sector_lock_orders_writer.

(* The proviso of [xstep_ok] cannot be dropped, of the code as it is: RemoveSector of a
   sector whose upload is in flight (slot reserved, data not written) releases that slot; another
   sector gets it, is written, synced, referenced; the first writer then writes into it.
   Reproduced on the real VolumeManager (harness sig remove-sector-of-in-flight-upload-overwrites-new-tenant). *)
Theorem c02_remove_sector_of_in_flight_upload_refuted : exists size l q,
  forallb xcalm l = true /\ disciplined (xdtrace true (xinit size) l) = true /\
  let x := xruns (xinit size) l in
  refd (md (xd x)) q = true /\ ~ In q (xlost x) /\ read_result (xd x) q <> Some q.
Proof. exact rs_in_flight_refuted. Qed.
Print Assumptions c02_remove_sector_of_in_flight_upload_refuted.

(* ---- Second finer layer (work package W; DataModel.v [ystep]) -----------------------------
   migrateSector is cut at its internal steps — YMgBegin (the store transaction opens: source
   and target chosen; it holds the ONLY database connection until its commit), YMgRead (vm.mu,
   file read, cache insert, root check), YMgWrite (vm.mu, write at the target), YMgSync (fsync),
   YMgCommit (swap, commit) — and so is a cache-miss ReadSector — YRdLocate (SectorLocation),
   YRdFile (vm.mu, file read), YRdCache (cache insert, return).  While a migration transaction
   is open no step that makes a store call is enabled ([takes_conn]); the steps that take vm.mu
   are not enabled while a RemoveSector holds it.  Shrink / RemoveVolume are, at this
   granularity, sequences of such transactions followed by Store.ShrinkVolume / RemoveVolume
   (whose own batches are C08's BatchProofs) and the truncation / removal of the file, which
   touch only slots the store has just deleted.
   [ystep_ok] = [xstep_ok] plus: the swap is not committed for a sector whose upload is in
   flight (clause (m) at this granularity), and what a cache-miss read inserts into the cache
   is what the cache may hold at that moment — which the code does NOT enforce (two refuted
   theorems below; the first is reproduced on the real VolumeManager). *)
Theorem c02_only_permitted_losses_finer_partial : forall y o,
  yinv y -> ystep_ok y o -> yinv (fst (ystep y o)).
Proof. exact yinv_step. Qed.
Print Assumptions c02_only_permitted_losses_finer_partial.

(* every interleaving of the internal steps of migrateSector, of cache-miss reads and of
   RemoveSector with writers, Syncs, prune, crashes: every referenced sector that was not deleted
   explicitly reads back its bytes, now and after a crash *)
Theorem c02_readable_finer_partial : forall (size : N) (l : list yop) (r : N),
  ysteps_ok (yinit size) l ->
  let y := yruns (yinit size) l in
  refd (md (xd (yx y))) r = true -> ~ In r (xlost (yx y)) ->
  read_result (xd (yx y)) r = Some r /\ read_result (dcrash (xd (yx y))) r = Some r.
Proof. exact readable_yruns. Qed.
Print Assumptions c02_readable_finer_partial.

(* uninterrupted, the three read steps are the ReadSector step of the coarser model *)
Theorem c02_read_sector_is_its_steps : forall y t r,
  ymg y = None -> xmu (yx y) = None -> alookup t (yrd y) = None -> cget r (cache (xd (yx y))) = None ->
  locate r (md (xd (yx y))) <> None ->
  xd (yx (yruns y [YRdLocate t r; YRdFile t false; YRdCache t])) = fst (dstep (xd (yx y)) (DRead r false)) /\
  snd (ystep (yruns y [YRdLocate t r; YRdFile t false]) (YRdCache t)) = snd (dstep (xd (yx y)) (DRead r false)).
Proof. exact rd_steps_are_read. Qed.
Print Assumptions c02_read_sector_is_its_steps.

(* The proviso on YRdCache cannot be dropped, of the code as it is.  (1) Between SectorLocation
   and the file read the sector is migrated (a shrink that then fails) and its old slot is handed
   to another sector: ReadSector returns the OTHER sector's bytes for the root and caches them
   under it; the sector is referenced, durably stored at its new location, nobody deleted it.
   Every step but the cache insert satisfies [ystep_ok]; the run is calm.
   Reproduced on the real VolumeManager (TestVerifC02Steps, sig
   read-sector-relocated-serves-other-sectors-bytes). *)
Theorem c02_read_sector_relocated_refuted : exists size l r,
  forallb ycalm l = true /\ ysteps_ok_but_rd (yinit size) l /\
  let y := yruns (yinit size) l in
  refd (md (xd (yx y))) r = true /\ ~ In r (xlost (yx y)) /\ read_result (xd (yx y)) r <> Some r.
Proof. exact rd_moved_refuted. Qed.
Print Assumptions c02_read_sector_relocated_refuted.

(* (2) The sector's upload is in flight: the reader reads what the slot held before, the writer
   writes and caches the real bytes, the reader's cache insert comes last; the upload completes,
   is synced and referenced — and the cache serves the old bytes.  Model-level witness: the window
   between the file read and cache.Add has no call in it that a harness could hold. *)
Theorem c02_read_sector_of_in_flight_upload_refuted : exists size l r,
  forallb ycalm l = true /\ ysteps_ok_but_rd (yinit size) l /\
  let y := yruns (yinit size) l in
  refd (md (xd (yx y))) r = true /\ ~ In r (xlost (yx y)) /\ read_result (xd (yx y)) r <> Some r.
Proof. exact rd_in_flight_refuted. Qed.
Print Assumptions c02_read_sector_of_in_flight_upload_refuted.

(* The lock order of the code as it is: RemoveSector (and ResizeVolume) take vm.mu and then make
   store calls; MigrateSectors holds the only connection and its callback takes vm.mu.  A state
   in which a RemoveSector holds vm.mu with a store call still to make while a migration
   transaction is open and has not finished its vm.mu steps is reachable by a run that meets
   every hypothesis ... *)
Theorem c02_lock_order_deadlock_reachable : exists size l,
  ysteps_ok (yinit size) l /\ deadlocked (yruns (yinit size) l) = true.
Proof. exact deadlock_reachable. Qed.
Print Assumptions c02_lock_order_deadlock_reachable.

(* ... and in it neither party can take its next step or any later one (only a crash — the end
   of the process — leaves the state).  A liveness defect: C02's wording does not mention it,
   no data is lost, but every writer, Sync and cache-miss read blocks behind vm.mu / the
   connection until the process is killed.  Reproduced on the real VolumeManager
   (TestVerifC02Steps, sig remove-sector-and-migration-deadlock). *)
Theorem c02_lock_order_deadlock_stuck : forall y, deadlocked y = true ->
  (forall f, ystep y (YMgRead f) = (y, ODBad)) /\ (forall ok, ystep y (YMgWrite ok) = (y, ODBad)) /\
  (forall ok, ystep y (YMgSync ok) = (y, ODBad)) /\ ystep y YMgCommit = (y, ODBad) /\
  ystep y (YX XRsCommit) = (y, ODBad) /\
  (forall ok, snd (ystep y (YX (XRsZero ok))) = ODBad) /\ (forall ok, snd (ystep y (YX (XRsEnd ok))) = ODBad).
Proof. exact deadlock_stuck. Qed.
Print Assumptions c02_lock_order_deadlock_stuck.

(* With the repaired lock order (fixes/C02-migrate-lock-order.patch, PROPOSED, not applied:
   [ystep_p] = [ystep] except that a migration transaction does not open while a RemoveSector is
   in progress) the deadlock state is not reachable by any sequence of steps whatsoever, and the
   repaired order only removes behaviours, so c02_readable_finer_partial carries over. *)
Theorem c02_repaired_lock_order_has_no_deadlock : forall (size : N) (l : list yop),
  deadlocked (yruns_p (yinit size) l) = false.
Proof. exact no_deadlock_patched. Qed.
Print Assumptions c02_repaired_lock_order_has_no_deadlock.

Theorem c02_repaired_lock_order_refines : forall y o,
  snd (ystep_p y o) <> ODBad -> ystep_p y o = ystep y o.
Proof. exact ystep_p_refines. Qed.
Print Assumptions c02_repaired_lock_order_refines.

(* ---- The status claim of a volume (StatusModel.v: volume.SetStatus as used by AddVolume,
   ResizeVolume, RemoveVolume; /repo 45cdb99) ------------------------------------------------
   The multi-step maintenance operations above are sound one at a time per volume: two resizes
   running from a stale size truncate the file below the stored total.  What serialises them is
   the claim: for every sequence of AddVolume / ResizeVolume / RemoveVolume calls and goroutine
   ends, a volume is owned by at most one running operation, and by one exactly when its status
   is creating / resizing / removing ... *)
Theorem c02_volume_operations_do_not_overlap : forall (l : list sop) (v : N),
  let s := sruns false sinit l in
  (owners v s <= 1)%nat /\ (owners v s = 1%nat <-> busy (alookup v (sst s)) = true).
Proof. exact no_overlap. Qed.
Print Assumptions c02_volume_operations_do_not_overlap.

(* ... and a ResizeVolume / RemoveVolume issued meanwhile is refused without touching anything *)
Theorem c02_claim_refused_while_owned : forall (l : list sop) (t v : N),
  let s := sruns false sinit l in
  (owners v s >= 1)%nat ->
  fst (sstep false s (SResize t v)) = s /\ fst (sstep false s (SRemove t v)) = s.
Proof. exact claim_refused_while_owned. Qed.
Print Assumptions c02_claim_refused_while_owned.

(* Legacy variant (SetStatus before 45cdb99 returned nil when the volume already had the
   requested status): two resizes own one volume at the same time.  Fixed in /repo. *)
Theorem c02_idempotent_status_claim_refuted : exists l v, (owners v (sruns true sinit l) >= 2)%nat.
Proof. exact legacy_overlap_refuted. Qed.
Print Assumptions c02_idempotent_status_claim_refuted.

(* non-vacuity: a run that meets the hypotheses, commits a reference, migrates the sector during
   a shrink, crashes, and reads it back *)
Example c02_nonvacuous :
  steps_ok (dinit 1) demo /\ refd (md (druns (dinit 1) demo)) 7 = true /\
  slot_at (md (druns (dinit 1) demo)) 2 0 = Some (Some 7%N) /\
  read_result (druns (dinit 1) demo) 7 = Some 7%N.
Proof. exact demo_nonvacuous. Qed.

(* a run the former clause (b) excluded: the re-upload of a pruned sector is handed the very slot
   that still holds its bytes (and is read while in flight) *)
Example c02_stale_slot_nonvacuous :
  steps_ok (dinit 1) demo_stale /\
  (let d := druns (dinit 1) (firstn 8 demo_stale) in
   slot_at (md d) 1 1 = Some None /\ content d 1 1 = 7%N) /\
  refd (md (druns (dinit 1) demo_stale)) 7 = true /\
  read_result (druns (dinit 1) demo_stale) 7 = Some 7%N.
Proof. exact demo_stale_nonvacuous. Qed.

(* ... and one at the finer granularity: a RemoveSector parked after its metadata commit while a
   writer of another sector is handed the released slot; a crash at the end *)
Example c02_fine_nonvacuous :
  xsteps_ok (xinit 0) xdemo /\
  let x := xruns (xinit 0) xdemo in
  xlost x = [7%N] /\ refd (md (xd x)) 8 = true /\ refd (md (xd x)) 9 = true /\
  read_result (xd x) 8 = Some 8%N /\ read_result (xd x) 9 = Some 9%N /\ read_result (xd x) 7 = None.
Proof. exact xdemo_nonvacuous. Qed.

(* ... and one at the second finer granularity: a shrink's migrateSector cut at its steps, a
   cache-miss read of the very sector and a Sync interleaved with it, the shrink, a crash *)
Example c02_finer_nonvacuous :
  ysteps_ok (yinit 0) ydemo /\
  let y := yruns (yinit 0) ydemo in
  refd (md (xd (yx y))) 7 = true /\ slot_at (md (xd (yx y))) 1 0 = Some (Some 7%N) /\
  slot_at (md (xd (yx y))) 1 1 = None /\ read_result (xd (yx y)) 7 = Some 7%N /\
  snd (ystep (yruns (yinit 0) (firstn 10 ydemo)) (YX (XD DPrune))) = ODBad.
Proof. exact ydemo_nonvacuous. Qed.

(* the status claim: refused second resize and removal, accepted after the first finished *)
Example c02_status_nonvacuous :
  let s := sruns false sinit [SLoad 1 true; SResize 1 1; SResize 2 1; SRemove 3 1; SFinish 1 false; SRemove 3 1; SResize 4 1; SFinish 3 true]%N in
  snd (sstep false (sruns false sinit [SLoad 1 true; SResize 1 1]%N) (SResize 2 1)) = SO SErr /\
  snd (sstep false (sruns false sinit [SLoad 1 true; SResize 1 1]%N) (SRemove 3 1)) = SO SErr /\
  sst s = [] /\ sown s = [].
Proof. exact status_demo_nonvacuous. Qed.
