(* C02 — Referenced sector data stays retrievable and intact.   PARTIAL.
   Statements only; every proof is [exact lemma].

   Model: coq/Storage/DataModel.v (host/storage/storage.go + volume.go over the store model
   Model.v), one step per store call / file operation group of the volume manager; writers are
   threads whose DReserve / DWrite steps interleave freely with every other step; [DCrash] may
   occur anywhere and any number of times; the cache has any size and is resized at will.

   PARTIAL because (1) file-system durability is an assumption of the model (data is readable
   once written and survives a crash once fsynced; torn sector writes and real power loss are
   not exhibited), SHA-256/Merkle roots are abstracted to content identity; and (2) the full
   statement is FALSE of the code (see the two _refuted theorems, known findings): what the RPC
   handlers rely on — "Write returned nil, then Sync, then commit the reference" — does not
   guarantee that the sector's bytes are on disk, because Store.StoreSector answers "exists" for
   any root that has a slot, also when the slot's data was never (durably) written.

       Full statement (not provable):  forall run r, the run follows the handlers' discipline and
       contains no RemoveSector / forced removal  ->  r referenced  ->  ReadSector r = bytes of r
       (now and after a crash at this point).

   What holds (c02_readable_partial) replaces the discipline by what it is meant to establish:
   every store call that adds a reference adds it for a sector that is durably written at that
   moment ([step_ok], clause DMeta).  Under that hypothesis every referenced sector reads back
   the bytes hashing to its root in every reachable state and after a crash at any point, across
   prune, grow, shrink and non-forced removal with migration, interleaved writers of equal or
   different sectors, any cache size, restarts.  The other two clauses of [step_ok]: no explicit
   RemoveSector / forced removal (the permitted losses: c02_lost_counted), and a freshly
   reserved slot does not already hold the very bytes of the new sector (stale copy of a pruned
   sector; without it a migration could move the slot under the writer).
   The cache is modelled as root -> bytes: callers do not modify buffers obtained from
   ReadSector or passed to Write (RHP2/RHP3 update-sector as patched by
   fixes/C02-update-sector-copy.patch). *)
From HostdBase Require Import Base.
From HostdStorage Require Import Model Lemmas Proofs Proofs2 DataModel DataLemmas DataProofs DataProofs2 DataProofs3.

(* what VolumeManager.ReadSector returns *)
Theorem c02_read_result_is_ReadSector : forall d r,
  snd (dstep d (DRead r false)) =
  match read_result d r with
  | Some c => ORead (is_some (cget r (cache d))) c
  | None => OReadErr
  end.
Proof. exact dread_result. Qed.
Print Assumptions c02_read_result_is_ReadSector.

(* Every referenced sector reads back its own bytes, in every reachable state and after a crash
   in that state (the run itself may contain crashes and restarts anywhere). *)
Theorem c02_readable_partial : forall (size : N) (l : list dop) (r : N),
  steps_ok (dinit size) l ->
  refd (md (druns (dinit size) l)) r = true ->
  read_result (druns (dinit size) l) r = Some r /\
  read_result (dcrash (druns (dinit size) l)) r = Some r.
Proof. exact readable_runs. Qed.
Print Assumptions c02_readable_partial.

(* Only RemoveSector and forced removal can break it: every other step keeps "referenced =>
   durably written" (and the rest of the invariant) ... *)
Theorem c02_only_permitted_losses_partial : forall d o,
  dinv d -> step_ok d o -> dinv (fst (dstep d o)).
Proof. exact (dinv_step (fun _ => False)). Qed.
Print Assumptions c02_only_permitted_losses_partial.

(* ... and those two raise lostSectors by exactly the number of occupied slots they destroy,
   after any run whatsoever; no other step changes the metric. *)
Theorem c02_lost_counted : forall (size : N) (l : list dop) o, dloss_op o = true ->
  let d := druns (dinit size) l in
  (mLost (mets (md (fst (dstep d o)))) - mLost (mets (md d)) =
   occ_total (md d) - occ_total (md (fst (dstep d o))))%Z.
Proof. exact dlost_exact_runs. Qed.
Print Assumptions c02_lost_counted.

Theorem c02_lost_unchanged_otherwise : forall d o, dloss_op o = false ->
  mLost (mets (md (fst (dstep d o)))) = mLost (mets (md d)).
Proof. exact dlost_unchanged. Qed.
Print Assumptions c02_lost_unchanged_otherwise.

(* What protects a sector between Write and the commit of its reference from PruneSectors is its
   last-access time: a Write that returns nil — through the StoreFunc or through "exists" —
   refreshes it, and a prune pass whose cutoff is older than that spares the sector. *)
Theorem c02_ack_refreshes_last_access : forall d t r loc,
  snd (dstep d (DReserve t r loc)) = OAck \/ snd (dstep d (DReserve t r loc)) = OPlaced ->
  mem r (fresh (fst (dstep d (DReserve t r loc)))) = true.
Proof. exact ack_fresh. Qed.
Print Assumptions c02_ack_refreshes_last_access.

Theorem c02_prune_spares_recently_accessed_partial : forall d r, dinv d -> mem r (fresh d) = true ->
  (written d r -> written (fst (dstep d DPrune)) r) /\ (durable d r -> durable (fst (dstep d DPrune)) r).
Proof. exact prune_spares_fresh. Qed.
Print Assumptions c02_prune_spares_recently_accessed_partial.

(* Sync, non-atomically (DSyncBegin / DFsync / DClear / DSyncEnd interleaved with writers and other
   Syncs): because a volume's changed flag is deleted only after a successful fsync of that
   volume, unsynced writer data always sits on a flagged volume; hence when no flag is set
   everything written is durable and a Sync that finds no changed volume may return nil at once.
   Hypothesis [flags_ok]: no data write lands on a volume between its fsync and the deletion of
   its flag ... *)
Theorem c02_sync_flags_partial : forall (size : N) (l : list dop), flags_ok (dinit size) l ->
  let d := druns (dinit size) l in
  flag_inv d /\ (changed d = [] -> forall v i, dcontent d v i = content d v i).
Proof. exact sync_flags_runs. Qed.
Print Assumptions c02_sync_flags_partial.

(* ... without it the statement is false of the model (reviewer lead 3: the window between
   vol.Sync() returning and delete(vm.changedVolumes, id); no call sits in that window, so this
   one is a model-level witness only, not reproduced on the implementation). *)
Theorem c02_sync_flag_race_refuted : exists size l,
  let d := druns (dinit size) l in changed d = [] /\ exists v i, dcontent d v i <> content d v i.
Proof. exact flag_race_refuted. Qed.
Print Assumptions c02_sync_flag_race_refuted.

(* The full statement is refuted without any crash: a second uploader is told "exists" while the
   first writer still holds the slot, syncs, commits its reference; the first writer's data write
   then fails and its rollback releases the slot. *)
Theorem c02_acknowledged_readable_refuted : exists size l r,
  forallb calm l = true /\ disciplined (dtrace (dinit size) l) = true /\
  refd (md (druns (dinit size) l)) r = true /\ read_result (druns (dinit size) l) r <> Some r.
Proof. exact readable_refuted_no_crash. Qed.
Print Assumptions c02_acknowledged_readable_refuted.

(* ... and with a crash between slot commit and data write: the slot survives without data and
   the re-upload after the restart is told "exists". *)
Theorem c02_crash_readable_refuted : exists size l r,
  forallb no_loss l = true /\ disciplined (dtrace (dinit size) l) = true /\
  refd (md (druns (dinit size) l)) r = true /\ read_result (druns (dinit size) l) r <> Some r.
Proof. exact readable_refuted_crash. Qed.
Print Assumptions c02_crash_readable_refuted.

(* ---- Maintenance cut at its internal steps (DataModel.v, "Finer steps") --------------------
   VolumeManager.RemoveSector is four steps — XRsLocate (vm.mu.Lock, SectorLocation), XRsCommit
   (Store.RemoveSector), XRsZero (the zero write), XRsEnd (fsync, cache drop, unlock) — and
   every other step of the model may run in between, except the ones that need vm.mu while it
   is held ([takes_mu]: a writer's data write, Sync and its pieces, a cache-miss read,
   migrateSector, another RemoveSector, Close).  Sync was already cut (DSyncBegin / DFsync /
   DClear / DSyncEnd), a writer is DReserve / DWrite; migrateSector runs inside one store
   transaction (one connection: nothing interleaves with it, so a migrated sector stays one step)
   and takes vm.mu only for map lookups; shrink = Store.ShrinkVolume then truncate and
   remove = Store.RemoveVolume then file removal touch only slots the store has just made
   unreachable (ShrinkVolume / non-forced RemoveVolume refuse occupied slots, held writers'
   included), so cutting them changes no read.
   [xstep_ok] = [step_ok] with the explicit deletion ALLOWED (as one step or cut), under two
   provisos: content number 0 (zeroes) is nobody's root, and no upload of the very sector that
   is being deleted is in flight when its metadata is removed (refuted otherwise, see below).
   [xlost] is the list of sectors an operator deleted explicitly. *)

(* every step of the finer model keeps the invariant "every referenced sector that was not
   deleted explicitly is durably written" (+ cache coherence, writers' slots, the window
   condition of a RemoveSector in progress): the finer version of c02_only_permitted_losses *)
Theorem c02_only_permitted_losses_fine_partial : forall x o,
  xinv x -> xstep_ok x o -> xinv (fst (xstep x o)).
Proof. exact xinv_step. Qed.
Print Assumptions c02_only_permitted_losses_fine_partial.

(* the finer version of c02_readable: every interleaving of the internal steps of RemoveSector
   with writers, Syncs, prune, migration, crashes ... *)
Theorem c02_readable_fine_partial : forall (size : N) (l : list xop) (r : N),
  xsteps_ok (xinit size) l ->
  let x := xruns (xinit size) l in
  refd (md (xd x)) r = true -> ~ In r (xlost x) ->
  read_result (xd x) r = Some r /\ read_result (dcrash (xd x)) r = Some r.
Proof. exact readable_xruns. Qed.
Print Assumptions c02_readable_fine_partial.

(* An explicit deletion of r — as one step or at any of its internal steps, after any run and
   with anything in between — never changes what any other referenced sector reads back. *)
Theorem c02_remove_sector_loses_only_its_target : forall (size : N) (l : list xop) (o : xop) (r q : N),
  xsteps_ok (xinit size) (l ++ [o]) ->
  rs_target (xruns (xinit size) l) o = Some r -> q <> r ->
  let x := xruns (xinit size) l in
  let x' := fst (xstep x o) in
  refd (md (xd x')) q = true -> ~ In q (xlost x) ->
  read_result (xd x') q = Some q /\ read_result (dcrash (xd x')) q = Some q.
Proof. exact remove_sector_only_target. Qed.
Print Assumptions c02_remove_sector_loses_only_its_target.

(* uninterrupted, the four steps are the RemoveSector step of the coarser model *)
Theorem c02_remove_sector_is_its_steps : forall x r,
  xmu x = None ->
  (locate r (md (xd x)) = None \/ exists m, remove_sector r (md (xd x)) = Ok m) ->
  exists lost, xruns x [XRsLocate r; XRsCommit; XRsZero true; XRsEnd true] =
               {| xd := fst (dstep (xd x) (DRemoveSector r)); xmu := None; xlost := lost |}.
Proof. exact rs_steps_are_remove_sector. Qed.
Print Assumptions c02_remove_sector_is_its_steps.

(* Legacy variant, RemoveSector WITHOUT the critical section (vm.mu only around the map lookup;
   [xstep_gen false]): a calm, disciplined run in which a referenced sector that nobody deleted
   reads back as zeroes — the writer that was handed the released slot wrote before the zeroes. *)
Theorem c02_remove_sector_without_lock_refuted : exists size l q,
  forallb xcalm l = true /\ xguards false (xinit size) l = true /\
  disciplined (xdtrace false (xinit size) l) = true /\
  let x := xruns_gen false (xinit size) l in
  refd (md (xd x)) q = true /\ ~ In q (xlost x) /\ read_result (xd x) q <> Some q.
Proof. exact rs_without_lock_refuted. Qed.
Print Assumptions c02_remove_sector_without_lock_refuted.

(* ... with the critical section the same schedule is harmless: the data write is not enabled
   inside the window and lands on top of the zeroes *)
Theorem c02_remove_sector_lock_orders_writer :
  let x := xruns (xinit 0) (firstn 10 witness_no_lock) in
  snd (xstep x (XD (DWrite 2 true))) = ODBad /\
  read_result (xd (xruns (xinit 0) (firstn 10 witness_no_lock ++ [XRsZero true; XRsEnd true; XD (DWrite 2 true)]))) 8 = Some 8%N.
Proof. exact rs_with_lock_blocks_writer. Qed.
Print Assumptions c02_remove_sector_lock_orders_writer.

(* The second proviso of [xstep_ok] cannot be dropped, of the code as it is: RemoveSector of a
   sector whose upload is in flight (slot reserved, data not written) releases that slot; another
   sector gets it, is written, synced, referenced; the first writer then writes into it.
   Reproduced on the real VolumeManager (harness sig remove-sector-of-in-flight-upload-overwrites-new-tenant). *)
Theorem c02_remove_sector_of_in_flight_upload_refuted : exists size l q,
  forallb xcalm l = true /\ disciplined (xdtrace true (xinit size) l) = true /\
  let x := xruns (xinit size) l in
  refd (md (xd x)) q = true /\ ~ In q (xlost x) /\ read_result (xd x) q <> Some q.
Proof. exact rs_in_flight_refuted. Qed.
Print Assumptions c02_remove_sector_of_in_flight_upload_refuted.

(* non-vacuity: a run that meets the hypotheses, commits a reference, migrates the sector during
   a shrink, crashes, and reads it back *)
Example c02_nonvacuous :
  steps_ok (dinit 1) demo /\ refd (md (druns (dinit 1) demo)) 7 = true /\
  slot_at (md (druns (dinit 1) demo)) 2 0 = Some (Some 7%N) /\
  read_result (druns (dinit 1) demo) 7 = Some 7%N.
Proof. exact demo_nonvacuous. Qed.

(* ... and one at the finer granularity: a RemoveSector parked after its metadata commit while a
   writer of another sector is handed the released slot; a crash at the end *)
Example c02_fine_nonvacuous :
  xsteps_ok (xinit 0) xdemo /\
  let x := xruns (xinit 0) xdemo in
  xlost x = [7%N] /\ refd (md (xd x)) 8 = true /\ refd (md (xd x)) 9 = true /\
  read_result (xd x) 8 = Some 8%N /\ read_result (xd x) 9 = Some 9%N /\ read_result (xd x) 7 = None.
Proof. exact xdemo_nonvacuous. Qed.
