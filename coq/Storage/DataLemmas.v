(* Storage/DataLemmas.v — lemmas about file contents, the cache and slot lookups (C02) *)
From Coq Require Import Lia ZifyBool ZifyN ZifyNat.
From HostdBase Require Import Base.
From HostdStorage Require Import Model Lemmas Proofs Proofs2 DataModel.

(** * kmap *)
Lemma kget_app v i a b : kget v i (a ++ b) = match kget v i a with Some c => Some c | None => kget v i b end.
Proof.
  induction a as [|[[v' i'] c] t IH]; cbn; [reflexivity|].
  destruct ((v =? v')%N && (i =? i')%N); auto.
Qed.

Lemma kget_filter (p : N * N * N -> bool) v i m :
  (forall c, p (v, i, c) = true) -> kget v i (filter p m) = kget v i m.
Proof.
  intros Hp. induction m as [|[[v' i'] c] t IH]; cbn; [reflexivity|].
  destruct ((v =? v')%N && (i =? i')%N) eqn:E.
  - apply Bool.andb_true_iff in E as [E1 E2]. apply N.eqb_eq in E1, E2. subst.
    rewrite Hp. cbn. now rewrite !N.eqb_refl.
  - destruct (p (v', i', c)); cbn; [rewrite E|]; exact IH.
Qed.

Lemma kget_filter_none (p : N * N * N -> bool) v i m :
  (forall c, p (v, i, c) = false) -> kget v i (filter p m) = None.
Proof.
  intros Hp. induction m as [|[[v' i'] c] t IH]; cbn; [reflexivity|].
  destruct (p (v', i', c)) eqn:P; [|exact IH]. cbn.
  destruct ((v =? v')%N && (i =? i')%N) eqn:E; [|exact IH].
  apply Bool.andb_true_iff in E as [E1 E2]. apply N.eqb_eq in E1, E2. subst. now rewrite Hp in P.
Qed.

Lemma kget_kof_same v i m : kget v i (kof v m) = kget v i m.
Proof. apply kget_filter. intros c; cbn. apply N.eqb_refl. Qed.
Lemma kget_kof_other v w i m : v <> w -> kget v i (kof w m) = None.
Proof. intros H. apply kget_filter_none. intros c; cbn. now apply N.eqb_neq. Qed.
Lemma kget_knot_same v i m : kget v i (knot v m) = None.
Proof. apply kget_filter_none. intros c; cbn. now rewrite N.eqb_refl. Qed.
Lemma kget_knot_other v w i m : v <> w -> kget v i (knot w m) = kget v i m.
Proof. intros H. apply kget_filter. intros c; cbn. apply Bool.negb_true_iff. now apply N.eqb_neq. Qed.

Lemma kget_kset v i c v' i' m :
  kget v' i' (kset v i c m) = if (v' =? v)%N && (i' =? i)%N then Some c else kget v' i' m.
Proof. reflexivity. Qed.

Lemma kget_ktrunc_keep v n w i m : (w <> v \/ (i < n)%N) -> kget w i (ktrunc v n m) = kget w i m.
Proof.
  intros H. apply kget_filter. intros c; cbn. apply Bool.negb_true_iff, Bool.andb_false_iff.
  destruct H as [H|H]; [left; now apply N.eqb_neq|right; lia].
Qed.

(* fsync does not change what reads return, and makes the volume's data durable *)
Lemma content_sync_vol w d v i : content (sync_vol w d) v i = content d v i.
Proof.
  unfold content, sync_vol; cbn. rewrite kget_app.
  destruct (N.eq_dec v w) as [->|Hne].
  - rewrite kget_knot_same, kget_kof_same. destruct (kget w i (pend d)); reflexivity.
  - rewrite kget_knot_other, kget_kof_other by auto. reflexivity.
Qed.

Lemma dcontent_sync_vol_same w d i : dcontent (sync_vol w d) w i = content d w i.
Proof.
  unfold dcontent, content, sync_vol; cbn. rewrite kget_app, kget_kof_same.
  destruct (kget w i (pend d)); reflexivity.
Qed.

Lemma dcontent_sync_vol_other w d v i : v <> w -> dcontent (sync_vol w d) v i = dcontent d v i.
Proof.
  intros H. unfold dcontent, sync_vol; cbn. rewrite kget_app, kget_kof_other by auto. reflexivity.
Qed.

Lemma md_sync_vol w d : md (sync_vol w d) = md d. Proof. reflexivity. Qed.

Lemma fold_sync_md l d : md (fold_left (fun a v => sync_vol v a) l d) = md d.
Proof. revert d; induction l; intros; cbn; auto. now rewrite IHl. Qed.
Lemma fold_sync_content l d v i : content (fold_left (fun a v => sync_vol v a) l d) v i = content d v i.
Proof. revert d; induction l as [|w t IH]; intros; cbn; auto. now rewrite IH, content_sync_vol. Qed.
Lemma fold_sync_cache l d : cache (fold_left (fun a v => sync_vol v a) l d) = cache d.
Proof. revert d; induction l; intros; cbn; auto. now rewrite IHl. Qed.
Lemma fold_sync_thr l d : thr (fold_left (fun a v => sync_vol v a) l d) = thr d.
Proof. revert d; induction l; intros; cbn; auto. now rewrite IHl. Qed.
Lemma fold_sync_csize l d : csize (fold_left (fun a v => sync_vol v a) l d) = csize d.
Proof. revert d; induction l; intros; cbn; auto. now rewrite IHl. Qed.

(* data that was durable stays durable under fsync unless newer data replaces it *)
Lemma dcontent_sync_vol w d v i :
  dcontent (sync_vol w d) v i = if (v =? w)%N then content d v i else dcontent d v i.
Proof.
  destruct (v =? w)%N eqn:E.
  - apply N.eqb_eq in E; subst. apply dcontent_sync_vol_same.
  - apply N.eqb_neq in E. now apply dcontent_sync_vol_other.
Qed.

(** * cache *)
Lemma cget_cdel_same r c : cget r (cdel r c) = None.
Proof.
  induction c as [|[r' x] t IH]; cbn; [reflexivity|].
  destruct (r' =? r)%N eqn:E; cbn; [exact IH|].
  destruct (r =? r')%N eqn:E2; [apply N.eqb_eq in E2; subst; now rewrite N.eqb_refl in E|exact IH].
Qed.

Lemma cget_cdel_other r q c : r <> q -> cget r (cdel q c) = cget r c.
Proof.
  intros H. induction c as [|[r' x] t IH]; cbn; [reflexivity|].
  destruct (r' =? q)%N eqn:E; cbn.
  - apply N.eqb_eq in E; subst. destruct (r =? q)%N eqn:E2; [apply N.eqb_eq in E2; contradiction|exact IH].
  - destruct (r =? r')%N; [reflexivity|exact IH].
Qed.

Lemma cget_firstn n r c x : cget r (firstn n c) = Some x -> cget r c = Some x.
Proof.
  revert c; induction n as [|n IH]; intros c; cbn; [discriminate|].
  destruct c as [|[r' y] t]; cbn; [discriminate|].
  destruct (r =? r')%N; auto.
Qed.

Lemma cget_cadd size q y r c x :
  cget r (cadd size q y c) = Some x -> (r = q /\ x = y) \/ (r <> q /\ cget r c = Some x).
Proof.
  unfold cadd. intros H. apply cget_firstn in H. cbn in H.
  destruct (r =? q)%N eqn:E.
  - apply N.eqb_eq in E. injection H as <-. now left.
  - apply N.eqb_neq in E. rewrite cget_cdel_other in H by auto. now right.
Qed.

(** * slot lookups *)
Lemma slot_at_wr s s' v i x d vl :
  vget v (vols s) = Some vl -> vols s' = vupd v (wr i x d) (vols s) ->
  forall w j, slot_at s' w j =
    if (w =? v)%N && (j =? i)%N then (match sget i (vslots vl) with Some _ => Some x | None => None end)
    else slot_at s w j.
Proof.
  intros G Hv w j. unfold slot_at. rewrite Hv.
  destruct (w =? v)%N eqn:Ew; cbn [andb].
  - apply N.eqb_eq in Ew; subst w. rewrite (vget_vupd_same v _ _ vl) by (auto; reflexivity). rewrite G. cbn.
    destruct (j =? i)%N eqn:Ej.
    + apply N.eqb_eq in Ej; subst j. destruct (sget i (vslots vl)) eqn:S.
      * eapply sget_sset_same; eauto.
      * rewrite sset_none; auto.
    + apply N.eqb_neq in Ej. rewrite sget_sset_other; auto.
  - apply N.eqb_neq in Ew. rewrite vget_vupd_other; [reflexivity|reflexivity|congruence].
Qed.

Lemma slot_at_none_vfind s r : inv s -> vfind r (vols s) = None -> forall v i, slot_at s v i <> Some (Some r).
Proof.
  intros I F v i H. unfold slot_at in H. destruct (vget v (vols s)) as [vl|] eqn:G; [|discriminate].
  pose proof (vfind_none _ _ F) as Hz.
  pose proof (wsum_one r _ i H) as H1.
  apply vget_in in G as [G _].
  pose proof (gsum_in_le (fun vl => wsum (is_root r) (vslots vl)) _ vl
                (fun x => wsum_nonneg _ _ (is_root_nonneg r)) G) as H2. cbn in H2. lia.
Qed.

Lemma vfind_iff s r v i : inv s -> (vfind r (vols s) = Some (v, i) <-> slot_at s v i = Some (Some r)).
Proof.
  intros I. split.
  - intros F. destruct (vfind_slot s r v i I F) as [vl [G S]]. unfold slot_at. now rewrite G.
  - intros H. destruct (vfind r (vols s)) as [[v' i']|] eqn:F.
    + destruct (vfind_slot s r v' i' I F) as [vl [G S]].
      assert (H' : slot_at s v' i' = Some (Some r)) by (unfold slot_at; now rewrite G).
      destruct (slot_injective s v i v' i' r I H H') as [-> ->]. reflexivity.
    + exfalso. eapply slot_at_none_vfind; eauto.
Qed.
