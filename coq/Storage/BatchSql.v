(* Storage/BatchSql.v — which rows a batch of RemoveVolume deletes, from the SQL (work package W)

   persist/sqlite/volumes.go, forceDeleteVolumeSectors / deleteVolumeSectors (as of /repo 81dbba1):
       DELETE FROM volume_sectors WHERE id IN
         (SELECT id FROM volume_sectors WHERE volume_id=$1 [AND sector_id IS NULL]
          ORDER BY volume_index DESC LIMIT $2)
   tools/sqlgen translates the WHERE clause (gen/StorageQueries.v q_forceDeleteVolumeSectors /
   q_deleteVolumeSectors) and the ORDER BY column (…_key), and refuses the statement unless it
   orders by volume_index DESC with a LIMIT (mode "top-desc"); SqlJoin.v [sql_top_desc] says
   which rows such a statement hits.  Here: a batch whose rows are the ones the generated
   selection yields on the tables of the state leaves the volume gap-free — the premise
   [contig_all] of c08_batches_gap_free_full, derived from the SQL instead of assumed. *)
From Coq Require Import Lia ZifyBool ZifyN ZifyNat.
From HostdBase Require Import Base.
From HostdStorage Require Import Model Lemmas Proofs Proofs2 Proofs3 WProofs Batch BatchProofs BatchProofs2 BatchProofs3.
From HostdStorage Require Import SqlSem SqlRows SqlJoin StorageQueries GenEquiv.

(* the rows (by volume_index) one batch transaction of RemoveVolume v hits in state s *)
Definition sql_remove_choice (la : N -> N) (w : N -> N -> N) (s : state) (v : N) (force : bool) (b : N) (idxs : list N) : bool :=
  if force
  then sql_top_desc (fun r => q_forceDeleteVolumeSectors r (Z.of_N v)) q_forceDeleteVolumeSectors_key
                    (N.to_nat b) (tab_vs la w s) (map Z.of_N idxs)
  else sql_top_desc (fun r => q_deleteVolumeSectors r (Z.of_N v)) q_deleteVolumeSectors_key
                    (N.to_nat b) (tab_vs la w s) (map Z.of_N idxs).

Lemma memZ_in z l : memZ z l = true <-> In z l.
Proof.
  induction l as [|x t IH]; cbn; [split; [discriminate|tauto]|].
  rewrite Bool.orb_true_iff, IH, Z.eqb_eq. split; intros [H|H]; auto.
Qed.

Lemma minZ_le z l : In z l -> (minZ l <= z)%Z.
Proof.
  induction l as [|x t IH]; [intros []|]. intros [->|H].
  - destruct t; cbn [minZ]; lia.
  - specialize (IH H). destruct t as [|y t']; [destruct H|]. change (minZ (x :: y :: t')) with (Z.min x (minZ (y :: t'))). lia.
Qed.

(* the keys of the rows of volume v that the generated WHERE clause selects *)
Lemma force_keys la w s v vl z :
  inv s -> vget v (vols s) = Some vl ->
  (In z (sql_keys (fun r => q_forceDeleteVolumeSectors r (Z.of_N v)) q_forceDeleteVolumeSectors_key (tab_vs la w s))
   <-> exists sl, In sl (vslots vl) /\ z = Z.of_N (fst sl)).
Proof.
  intros I G. destruct (vget_in v _ vl G) as [Hin Hv].
  unfold sql_keys. rewrite in_flat_map. split.
  - intros [r [Hr Hk]]. apply filter_In in Hr as [Hr Hp]. unfold tab_vs in Hr.
    apply in_flat_map in Hr as [vl' [Hvl' Hr]]. apply in_map_iff in Hr as [sl [<- Hsl]].
    unfold q_forceDeleteVolumeSectors, col_volume_sectors_volume_id in Hp. cbn in Hp.
    destruct (Z.of_N (vid vl') =? Z.of_N v)%Z eqn:E; [|discriminate]. apply Z.eqb_eq in E.
    assert (vid vl' = v) by lia.
    assert (vl' = vl).
    { pose proof (in_vget (vols s) vl' (inv_vids s I) Hvl') as G'. rewrite H in G'. congruence. }
    subst vl'. cbn in Hk. destruct Hk as [<-|[]]. exists sl. auto.
  - intros [sl [Hsl ->]]. exists (vs_of la w vl sl). split.
    + apply filter_In. split.
      * unfold tab_vs. apply in_flat_map. exists vl. split; [exact Hin|]. now apply in_map.
      * unfold q_forceDeleteVolumeSectors, col_volume_sectors_volume_id. cbn. rewrite Hv, Z.eqb_refl. reflexivity.
    + cbn. now left.
Qed.

Lemma noforce_keys la w s v vl z :
  inv s -> vget v (vols s) = Some vl ->
  (In z (sql_keys (fun r => q_deleteVolumeSectors r (Z.of_N v)) q_deleteVolumeSectors_key (tab_vs la w s))
   <-> exists sl, In sl (vslots vl) /\ snd sl = None /\ z = Z.of_N (fst sl)).
Proof.
  intros I G. destruct (vget_in v _ vl G) as [Hin Hv].
  unfold sql_keys. rewrite in_flat_map. split.
  - intros [r [Hr Hk]]. apply filter_In in Hr as [Hr Hp]. unfold tab_vs in Hr.
    apply in_flat_map in Hr as [vl' [Hvl' Hr]]. apply in_map_iff in Hr as [sl [<- Hsl]].
    unfold q_deleteVolumeSectors, col_volume_sectors_volume_id, col_volume_sectors_sector_id in Hp. cbn in Hp.
    destruct (Z.of_N (vid vl') =? Z.of_N v)%Z eqn:E; [|destruct (snd sl); discriminate]. apply Z.eqb_eq in E.
    assert (vid vl' = v) by lia.
    assert (vl' = vl).
    { pose proof (in_vget (vols s) vl' (inv_vids s I) Hvl') as G'. rewrite H in G'. congruence. }
    subst vl'. cbn in Hk. destruct Hk as [<-|[]]. exists sl. repeat split; auto.
    destruct (snd sl); [discriminate|reflexivity].
  - intros [sl [Hsl [Hn ->]]]. exists (vs_of la w vl sl). split.
    + apply filter_In. split.
      * unfold tab_vs. apply in_flat_map. exists vl. split; [exact Hin|]. now apply in_map.
      * unfold q_deleteVolumeSectors, col_volume_sectors_volume_id, col_volume_sectors_sector_id. cbn.
        rewrite Hv, Z.eqb_refl, Hn. reflexivity.
    + cbn. now left.
Qed.

(** * A selection that is closed upwards leaves a gap-free volume gap-free *)
Lemma filter_all_false {A} (P : A -> bool) l : (forall x, In x l -> P x = false) -> filter P l = [].
Proof.
  induction l as [|x t IH]; intros H; cbn; [reflexivity|]. rewrite (H x) by now left. apply IH. intros y Hy. apply H. now right.
Qed.

Lemma nseq_gt : forall n b j, In j (nseq (N.succ b) n) -> (b < j)%N.
Proof. induction n as [|n IH]; intros b j; cbn; [tauto|]. intros [<-|Hj]; [lia|]. apply IH in Hj. lia. Qed.

Lemma filter_nseq_downclosed (P : N -> bool) : forall n b,
  (forall j j', In j (nseq b n) -> In j' (nseq b n) -> (j' < j)%N -> P j = true -> P j' = true) ->
  filter P (nseq b n) = nseq b (List.length (filter P (nseq b n))).
Proof.
  induction n as [|n IH]; intros b H; cbn [nseq filter]; [reflexivity|].
  destruct (P b) eqn:Pb.
  - cbn [List.length nseq]. f_equal. apply IH. intros j j' Hj Hj' L Pj.
    apply (H j j'); cbn; auto.
  - rewrite filter_all_false; [reflexivity|]. intros j Hj.
    destruct (P j) eqn:Pj; [|reflexivity]. rewrite <- Pb. symmetry.
    apply (H j b); cbn; auto. now apply nseq_gt in Hj.
Qed.

Lemma map_fst_filter {B} (P : N -> bool) (l : list (N * B)) :
  map fst (filter (fun x => P (fst x)) l) = filter P (map fst l).
Proof. induction l as [|[j y] t IH]; cbn; [reflexivity|]. destruct (P j); cbn; now rewrite IH. Qed.

Lemma top_closed_contig (l : slots) (idxs : list N) :
  map fst l = nseq 0%N (List.length l) ->
  (forall i j, In i idxs -> In j (map fst l) -> (i < j)%N -> In j idxs) ->
  keys_contig (keep_slots idxs l) = true.
Proof.
  intros O1 TC. unfold keys_contig, keep_slots.
  rewrite (map_fst_filter (fun j => negb (mem j idxs)) l).
  rewrite <- (map_length fst (filter _ l)), (map_fst_filter (fun j => negb (mem j idxs)) l).
  rewrite O1. rewrite <- filter_nseq_downclosed; [apply list_eqb_N_refl|].
  intros j j' Hj Hj' L Pj. apply Bool.negb_true_iff in Pj. apply Bool.negb_true_iff.
  destruct (mem j' idxs) eqn:M; [|reflexivity]. exfalso.
  apply mem_in in M. rewrite <- O1 in Hj.
  pose proof (TC j' j M Hj L) as Hin. apply mem_in in Hin.
  congruence.
Qed.

Lemma occ_zero_no_sector (l : slots) j q : wsum occ1 l = 0%Z -> sget j l <> Some (Some q).
Proof.
  induction l as [|[k y] t IH]; cbn [wsum sget]; [discriminate|].
  pose proof (wsum_nonneg occ1 t occ1_nonneg) as H1. pose proof (occ1_nonneg y) as H2.
  intros Hz. destruct (j =? k)%N.
  - intros E. injection E as E. subst y. cbn [occ1] in *. lia.
  - apply IH. lia.
Qed.

(** * The rows the SQL selection yields leave the volume gap-free *)
Lemma sql_choice_top_closed la w s v vl force b idxs :
  inv s -> vget v (vols s) = Some vl -> map fst (vslots vl) = nseq 0%N (List.length (vslots vl)) ->
  (force = false -> wsum occ1 (vslots vl) = 0%Z) ->
  sql_remove_choice la w s v force b idxs = true ->
  forall i j, In i idxs -> In j (map fst (vslots vl)) -> (i < j)%N -> In j idxs.
Proof.
  intros I G O1 Hempty C i j Hi Hj L.
  assert (Hkey : exists sl, In sl (vslots vl) /\ fst sl = j).
  { apply in_map_iff in Hj as [sl [E H]]. eauto. }
  destruct Hkey as [sl [Hsl Ej]].
  unfold sql_remove_choice in C. destruct force.
  - unfold sql_top_desc in C. apply Bool.andb_true_iff in C as [_ H].
    rewrite forallb_forall in H.
    pose proof (minZ_le (Z.of_N i) _ (in_map Z.of_N _ _ Hi)) as Hmin.
    assert (Hin : In (Z.of_N j) (sql_keys (fun r => q_forceDeleteVolumeSectors r (Z.of_N v)) q_forceDeleteVolumeSectors_key (tab_vs la w s))).
    { apply (force_keys la w s v vl _ I G). exists sl. split; [exact Hsl|now rewrite Ej]. }
    specialize (H _ Hin). apply Bool.orb_true_iff in H as [H|H]; [|lia].
    apply memZ_in in H. apply in_map_iff in H as [j0 [E0 Hj0]]. assert (j0 = j) by lia. now subst.
  - unfold sql_top_desc in C. apply Bool.andb_true_iff in C as [_ H].
    rewrite forallb_forall in H.
    pose proof (minZ_le (Z.of_N i) _ (in_map Z.of_N _ _ Hi)) as Hmin.
    assert (Hnone : snd sl = None).
    { destruct sl as [k [r|]]; [|reflexivity]. exfalso.
      pose proof (occ_zero_no_sector (vslots vl) k r (Hempty eq_refl)) as Hz. apply Hz.
      apply in_sget; [now apply keys_nodup|exact Hsl]. }
    assert (Hin : In (Z.of_N j) (sql_keys (fun r => q_deleteVolumeSectors r (Z.of_N v)) q_deleteVolumeSectors_key (tab_vs la w s))).
    { apply (noforce_keys la w s v vl _ I G). exists sl. repeat split; auto. now rewrite Ej. }
    specialize (H _ Hin). apply Bool.orb_true_iff in H as [H|H]; [|lia].
    apply memZ_in in H. apply in_map_iff in H as [j0 [E0 Hj0]]. assert (j0 = j) by lia. now subst.
Qed.

(** * Sequences whose removal batches are the ones the SQL selects *)
(* deleteVolumeSectors returns ErrVolumeNotEmpty before its DELETE when the volume holds a
   sector: such a batch hits no row *)
Definition sql_batch_ok (la : N -> N) (w : N -> N -> N) (s : state) (o : bop) : bool :=
  match o with
  | RemoveBatch v force b idxs =>
      match vget v (vols s) with
      | None => true
      | Some vl =>
          if negb force && negb (wsum occ1 (vslots vl) =? 0)%Z
          then match idxs with [] => true | _ => false end
          else sql_remove_choice la w s v force b idxs
      end
  | _ => true
  end.

Fixpoint sql_driven (la : N -> N) (w : N -> N -> N) (s : state) (l : list bop) : bool :=
  match l with [] => true | o :: t => sql_batch_ok la w s o && sql_driven la w (fst (bstep s o)) t end.

Lemma keep_slots_nil (l : slots) : keep_slots [] l = l.
Proof. unfold keep_slots. induction l as [|x t IH]; cbn; [reflexivity|]. f_equal. exact IH. Qed.

Lemma sql_batch_leaves_contig la w s o : inv s -> sql_batch_ok la w s o = true -> leaves_contig s o = true.
Proof.
  intros I C. destruct o; try reflexivity. cbn [sql_batch_ok leaves_contig] in *.
  destruct (vget v (vols s)) as [vl|] eqn:G; [|reflexivity].
  destruct (vget_in v _ vl G) as [Hin _].
  pose proof (inv_contig s I) as HC. rewrite Forall_forall in HC. pose proof (HC vl Hin) as O1. unfold contig_vol in O1.
  destruct (negb force && negb (wsum occ1 (vslots vl) =? 0)%Z) eqn:E.
  - destruct idxs; [|discriminate]. rewrite keep_slots_nil. unfold keys_contig. rewrite O1. apply list_eqb_N_refl.
  - apply top_closed_contig; [exact O1|].
    apply (sql_choice_top_closed la w s v vl force b idxs I G O1); [|exact C].
    intros ->. cbn in E. destruct (wsum occ1 (vslots vl) =? 0)%Z eqn:Z0; [lia|discriminate].
Qed.

Theorem sql_driven_contig la w l : forall s, inv s -> sql_driven la w s l = true -> contig_all s l = true.
Proof.
  induction l as [|o t IH]; intros s I C; [reflexivity|]. cbn in *.
  apply Bool.andb_true_iff in C as [C1 C2].
  pose proof (sql_batch_leaves_contig la w s o I C1) as L. rewrite L. cbn.
  apply IH; [now apply inv_bstep_contig|exact C2].
Qed.

(* the strong invariant along every sequence whose removal batches hit the rows the generated
   statements select: no premise about the code is left *)
Theorem sql_driven_inv la w l : sql_driven la w init l = true -> inv (bruns init l).
Proof. intros C. apply inv_bruns_contig; [apply inv_init|]. apply (sql_driven_contig la w); [apply inv_init|exact C]. Qed.

(* the fix matters: the batch that takes the LOWEST indices (the statement before 81dbba1 had no
   ORDER BY; SQLite took the lowest row ids) is not what the generated selection yields *)
Lemma lowest_first_not_sql_selection :
  let s := bruns init [P (AddVol 1 false); P (Grow 1 12)] in
  sql_batch_ok (fun _ => 0%N) (fun _ _ => 0%N) s (RemoveBatch 1 true 5 [0; 1; 2; 3; 4]%N) = false /\
  sql_batch_ok (fun _ => 0%N) (fun _ _ => 0%N) s (RemoveBatch 1 true 5 [11; 10; 9; 8; 7]%N) = true.
Proof. vm_compute. split; reflexivity. Qed.

(** * Correspondence: a recorded batch must be the generated selection *)
Fixpoint sql_first_violation (s : state) (i : nat) (l : list (bop * obs)) : option nat :=
  match l with
  | [] => None
  | (o, _) :: t =>
      if sql_batch_ok (fun _ => 0%N) (fun _ _ => 0%N) s o then sql_first_violation (fst (bstep s o)) (S i) t else Some i
  end.

Definition bcheck_sql (cs : list bcase) : list (N * nat * obs) :=
  bcheck cs ++ flat_map (fun c => match sql_first_violation init 0 (snd c) with None => [] | Some i => [(fst c, i, OBad)] end) cs.
