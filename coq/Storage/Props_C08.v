(* C08 — Storage slot accounting and reclamation are exact.
   Statements only; every proof is [exact lemma].

   Model: coq/Storage/Model.v (persist/sqlite volumes.go, sectors.go, contracts.go expiry and
   root-list changes, RejectContracts), corresponding to the code WITH
   fixes/C08-v2-expiry-status.patch.  [runs init l] ranges over ALL finite sequences of the
   operations of [op]: every Store method of the anchors with arbitrary arguments on any number
   of volumes of any sizes, plus the single-row pieces of the batch loops (DropRoot, DropTemp,
   PruneOne, MigrateOne), so that the sequences include every interleaving of other operations
   with a running expire/prune/migrate loop at transaction granularity.

   Readings (least demanding the text allows):
   - "every stored sector occupies exactly one slot": a sector that is in a slot is in no second
     one (rows of stored_sectors are never deleted, so "stored" cannot mean "has a row").
   - counters are compared when a Store method has returned (RemoveVolume's own batches are one
     step: between them the volume being destroyed has a stale used_sectors by design).
   - "past its proof window" is the code's boundary [window_end < h] (v2: [expiration_height < h]);
     temp storage "expiring after h" is [h < expiration].
   - "followed by a prune": a prune whose cutoff is later than every access.
   - StoreSector's choice among the empty slots of writable volumes is carried by the operation
     (validated by the model), so the theorems hold for every choice the SQL allows. *)
From HostdBase Require Import Base.
From HostdStorage Require Import Model Lemmas Proofs Proofs2 Proofs3.

(* Each stored sector occupies exactly one slot ... *)
Theorem c08_sector_in_one_slot : forall (l : list op) v i v' i' r,
  slot_at (runs init l) v i = Some (Some r) -> slot_at (runs init l) v' i' = Some (Some r) ->
  v = v' /\ i = i'.
Proof. exact (fun l v i v' i' r => slot_injective (runs init l) v i v' i' r (inv_runs l init inv_init)). Qed.
Print Assumptions c08_sector_in_one_slot.

(* ... and each slot (volume, index) exists once and so holds at most one sector. *)
Theorem c08_slot_unique : forall (l : list op),
  NoDup (map vid (vols (runs init l))) /\
  forall vl, In vl (vols (runs init l)) -> NoDup (map fst (vslots vl)).
Proof. exact (fun l => slot_unique (runs init l) (inv_runs l init inv_init)). Qed.
Print Assumptions c08_slot_unique.

(* Per-volume used/total and the global total/physical/contract/temp metrics equal recounts. *)
Theorem c08_counters_are_recounts : forall (l : list op),
  let s := runs init l in
  (forall vl, In vl (vols s) -> vused vl = n_used vl /\ vtotal vl = n_slots vl) /\
  mTotal (mets s) = gsum n_slots (vols s) /\
  mPhys (mets s) = gsum n_used (vols s) /\
  mContract (mets s) = csum (cons s) /\
  mTemp (mets s) = Z.of_nat (length (temps s)).
Proof. exact (fun l => counters_exact (runs init l) (inv_runs l init inv_init)). Qed.
Print Assumptions c08_counters_are_recounts.

(* hostd's own guards on these counters ("negative stat value", "volume usage is negative") never
   fire in a reachable state; the only panics left are the developer errors of [dev_error]
   (Grow/Shrink to 0 sectors, Shrink above the current size, a self-swap out of range). *)
Theorem c08_counter_guards_never_fire : forall (l : list op) o,
  dev_error (runs init l) o = false -> is_panic_obs (snd (step (runs init l) o)) = false.
Proof. exact (fun l o => no_guard_fires (runs init l) o (inv_runs l init inv_init)). Qed.
Print Assumptions c08_counter_guards_never_fire.

(* The lost-sector metric grows exactly by the occupied slots an operation destroys, and only
   RemoveSector / RemoveVolume change it. *)
Theorem c08_lost_exact : forall (l : list op) o, loss_op o = true ->
  let s := runs init l in
  (mLost (mets (fst (step s o))) - mLost (mets s) = occ_total s - occ_total (fst (step s o)))%Z.
Proof. exact (fun l o H => lost_exact (runs init l) o (inv_runs l init inv_init) H). Qed.
Print Assumptions c08_lost_exact.

Theorem c08_lost_unchanged_otherwise : forall s o, quiet_op o = true ->
  mLost (mets (fst (step s o))) = mLost (mets s).
Proof. exact lost_unchanged. Qed.
Print Assumptions c08_lost_unchanged_otherwise.

(* Placement: a sector that had no slot and is stored successfully went to an empty slot of an
   available, writable volume (and is there afterwards). *)
Theorem c08_placement_only_writable : forall (l : list op) r loc ok s',
  let s := runs init l in
  step s (Store r loc ok) = (s', ORes (Ok tt)) -> vfind r (vols s) = None ->
  exists v i vl, loc = Some (v, i) /\ ok = true /\
    vget v (vols s) = Some vl /\ vavail vl = true /\ vro vl = false /\
    sget i (vslots vl) = Some None /\ slot_at s' v i = Some (Some r).
Proof. exact (fun l r loc ok s' => store_placement r loc ok (runs init l) s' (inv_runs l init inv_init)). Qed.
Print Assumptions c08_placement_only_writable.

(* ErrNotEnoughStorage exactly when the sector has no slot and no available, writable volume has
   an empty one ([has_free_spec] spells [has_free] out). *)
Theorem c08_not_enough_storage_iff : forall r loc ok s,
  snd (step s (Store r loc ok)) <> OBad ->
  (snd (step s (Store r loc ok)) = ORes (Err ENotEnoughStorage) <->
   vfind r (vols s) = None /\ has_free s = false).
Proof. exact store_not_enough_iff. Qed.
Print Assumptions c08_not_enough_storage_iff.

Theorem c08_has_free_spec : forall s,
  has_free s = true <->
  exists vl i, In vl (vols s) /\ vavail vl = true /\ vro vl = false /\ In (i, None) (vslots vl).
Proof. exact has_free_spec. Qed.
Print Assumptions c08_has_free_spec.

(* ... and with room the store succeeds at whichever eligible slot was picked. *)
Theorem c08_store_succeeds_with_room : forall (l : list op) r v i,
  let s := runs init l in
  vfind r (vols s) = None -> valid_free s v i = true ->
  snd (step s (Store r (Some (v, i)) true)) = ORes (Ok tt).
Proof. exact (fun l r v i => store_ok_if r v i (runs init l) (inv_runs l init inv_init)). Qed.
Print Assumptions c08_store_succeeds_with_room.

(* Reclamation: after ExpireContractSectors h; ExpireV2ContractSectors h; ExpireTempSectors h;
   PruneSectors, a slot is occupied iff it was occupied by the same sector before and that
   sector is referenced by a live contract or by temp storage expiring after h. *)
Theorem c08_reclaim_exact : forall (l : list op) h v i r,
  let s := runs init l in
  slot_at (reclaim h s) v i = Some (Some r) <->
  slot_at s v i = Some (Some r) /\ live_ref s h r = true.
Proof. exact (fun l h v i r => reclaim_occupied_iff (runs init l) h v i r (inv_runs l init inv_init)). Qed.
Print Assumptions c08_reclaim_exact.

Theorem c08_live_ref_spec : forall s h r,
  live_ref s h r = true <->
  (exists c, In c (cons s) /\ crej c = false /\ ~ (cend c < h)%N /\ In r (croots c)) \/
  (exists e, In (r, e) (temps s) /\ (h < e)%N).
Proof. exact live_ref_spec. Qed.
Print Assumptions c08_live_ref_spec.

Theorem c08_reclaim_keeps_empty_slots : forall (l : list op) h v i,
  slot_at (runs init l) v i = Some None -> slot_at (reclaim h (runs init l)) v i = Some None.
Proof. exact (fun l h v i => reclaim_empty_stays (runs init l) h v i (inv_runs l init inv_init)). Qed.
Print Assumptions c08_reclaim_keeps_empty_slots.

(* non-vacuity: a reachable state with two volumes, a sector kept by a live v2 contract, one
   dropped because its v2 contract was rejected, one dropped because its temp entry expired *)
Definition c08_demo : list op :=
  [AddVol 1 false; SetAvail 1 true; Grow 1 2; AddVol 2 false; SetAvail 2 true; Grow 2 2;
   Store 7 (Some (1, 0)) true; Store 8 (Some (2, 0)) true; Store 9 (Some (1, 1)) true;
   AddC 1 true 20 1; AddC 2 true 20 9; ReviseV2 1 [7]; ReviseV2 2 [8]; AddTemp [(9, 10)];
   Reject 5]%N.
Example c08_nonvacuous :
  slot_at (runs init c08_demo) 1 0 = Some (Some 7%N) /\
  slot_at (reclaim 10 (runs init c08_demo)) 1 0 = Some None /\
  slot_at (reclaim 10 (runs init c08_demo)) 2 0 = Some (Some 8%N) /\
  slot_at (reclaim 10 (runs init c08_demo)) 1 1 = Some None /\
  snd (step (reclaim 10 (runs init c08_demo)) (Snapshot [])) =
    OSnap [(1%N, false, true, 2%Z, 0%Z); (2%N, false, true, 2%Z, 1%Z)] (4, 1, 0, 1, 0)%Z [] [(2%N, true, [8%N])].
Proof. vm_compute. repeat split; reflexivity. Qed.
