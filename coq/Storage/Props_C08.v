(* C08 — Storage slot accounting and reclamation are exact.
   Statements only; every proof is [exact lemma].

   Model: coq/Storage/Model.v (persist/sqlite volumes.go, sectors.go, contracts.go expiry and
   root-list changes, RejectContracts), corresponding to the code WITH
   fixes/C08-v2-expiry-status.patch.  [runs init l] ranges over ALL finite sequences of the
   operations of [op]: every Store method of the anchors with arbitrary arguments on any number
   of volumes of any sizes, plus the single-row pieces of the batch loops (DropRoot, DropTemp,
   PruneOne, MigrateOne), so that the sequences include every interleaving of other operations
   with a running expire/prune/migrate loop at transaction granularity.

   Readings (least demanding the text allows):
   - "every stored sector occupies exactly one slot": a sector that is in a slot is in no second
     one (rows of stored_sectors are never deleted, so "stored" cannot mean "has a row").
   - counters are compared after every committed TRANSACTION: the first part of this file takes a
     Store method as one step; the second part ("The batched loops") splits RemoveVolume,
     Expire(V2)ContractSectors, ExpireTempSectors, PruneSectors and MigrateSectors into their
     batches, so that a crash, a database error or another call between two batches falls
     between two steps (model coq/Storage/Batch.v).
   - "past its proof window" is the code's boundary [window_end < h] (v2: [expiration_height < h]);
     temp storage "expiring after h" is [h < expiration].
   - "followed by a prune": a prune whose cutoff is later than every access.
   - StoreSector's choice among the empty slots of writable volumes is carried by the operation
     (validated by the model), so the theorems hold for every choice the SQL allows. *)
From HostdBase Require Import Base.
From HostdStorage Require Import Model Lemmas Proofs Proofs2 Proofs3 WProofs Batch BatchProofs BatchProofs2 BatchProofs3.

(* Each stored sector occupies exactly one slot ... *)
Theorem c08_sector_in_one_slot : forall (l : list op) v i v' i' r,
  slot_at (runs init l) v i = Some (Some r) -> slot_at (runs init l) v' i' = Some (Some r) ->
  v = v' /\ i = i'.
Proof. exact (fun l v i v' i' r => slot_injective (runs init l) v i v' i' r (inv_runs l init inv_init)). Qed.
Print Assumptions c08_sector_in_one_slot.

(* ... and each slot (volume, index) exists once and so holds at most one sector. *)
Theorem c08_slot_unique : forall (l : list op),
  NoDup (map vid (vols (runs init l))) /\
  forall vl, In vl (vols (runs init l)) -> NoDup (map fst (vslots vl)).
Proof. exact (fun l => slot_unique (runs init l) (inv_runs l init inv_init)). Qed.
Print Assumptions c08_slot_unique.

(* Per-volume used/total and the global total/physical/contract/temp metrics equal recounts. *)
Theorem c08_counters_are_recounts : forall (l : list op),
  let s := runs init l in
  (forall vl, In vl (vols s) -> vused vl = n_used vl /\ vtotal vl = n_slots vl) /\
  mTotal (mets s) = gsum n_slots (vols s) /\
  mPhys (mets s) = gsum n_used (vols s) /\
  mContract (mets s) = csum (cons s) /\
  mTemp (mets s) = Z.of_nat (length (temps s)).
Proof. exact (fun l => counters_exact (runs init l) (inv_runs l init inv_init)). Qed.
Print Assumptions c08_counters_are_recounts.

(* hostd's own guards on these counters ("negative stat value", "volume usage is negative") never
   fire in a reachable state; the only panics left are the developer errors of [dev_error]
   (Grow/Shrink to 0 sectors, Shrink above the current size, a self-swap out of range). *)
Theorem c08_counter_guards_never_fire : forall (l : list op) o,
  dev_error (runs init l) o = false -> is_panic_obs (snd (step (runs init l) o)) = false.
Proof. exact (fun l o => no_guard_fires (runs init l) o (inv_runs l init inv_init)). Qed.
Print Assumptions c08_counter_guards_never_fire.

(* The lost-sector metric grows exactly by the occupied slots an operation destroys, and only
   RemoveSector / RemoveVolume change it. *)
Theorem c08_lost_exact : forall (l : list op) o, loss_op o = true ->
  let s := runs init l in
  (mLost (mets (fst (step s o))) - mLost (mets s) = occ_total s - occ_total (fst (step s o)))%Z.
Proof. exact (fun l o H => lost_exact (runs init l) o (inv_runs l init inv_init) H). Qed.
Print Assumptions c08_lost_exact.

Theorem c08_lost_unchanged_otherwise : forall s o, quiet_op o = true ->
  mLost (mets (fst (step s o))) = mLost (mets s).
Proof. exact lost_unchanged. Qed.
Print Assumptions c08_lost_unchanged_otherwise.

(* Placement: a sector that had no slot and is stored successfully went to an empty slot of an
   available, writable volume (and is there afterwards). *)
Theorem c08_placement_only_writable : forall (l : list op) r loc ok s',
  let s := runs init l in
  step s (Store r loc ok) = (s', ORes (Ok tt)) -> vfind r (vols s) = None ->
  exists v i vl, loc = Some (v, i) /\ ok = true /\
    vget v (vols s) = Some vl /\ vavail vl = true /\ vro vl = false /\
    sget i (vslots vl) = Some None /\ slot_at s' v i = Some (Some r).
Proof. exact (fun l r loc ok s' => store_placement r loc ok (runs init l) s' (inv_runs l init inv_init)). Qed.
Print Assumptions c08_placement_only_writable.

(* ErrNotEnoughStorage exactly when the sector has no slot and no available, writable volume has
   an empty one ([has_free_spec] spells [has_free] out). *)
Theorem c08_not_enough_storage_iff : forall r loc ok s,
  snd (step s (Store r loc ok)) <> OBad ->
  (snd (step s (Store r loc ok)) = ORes (Err ENotEnoughStorage) <->
   vfind r (vols s) = None /\ has_free s = false).
Proof. exact store_not_enough_iff. Qed.
Print Assumptions c08_not_enough_storage_iff.

Theorem c08_has_free_spec : forall s,
  has_free s = true <->
  exists vl i, In vl (vols s) /\ vavail vl = true /\ vro vl = false /\ In (i, None) (vslots vl).
Proof. exact has_free_spec. Qed.
Print Assumptions c08_has_free_spec.

(* ... and with room the store succeeds at whichever eligible slot was picked. *)
Theorem c08_store_succeeds_with_room : forall (l : list op) r v i,
  let s := runs init l in
  vfind r (vols s) = None -> valid_free s v i = true ->
  snd (step s (Store r (Some (v, i)) true)) = ORes (Ok tt).
Proof. exact (fun l r v i => store_ok_if r v i (runs init l) (inv_runs l init inv_init)). Qed.
Print Assumptions c08_store_succeeds_with_room.

(* Reclamation: after ExpireContractSectors h; ExpireV2ContractSectors h; ExpireTempSectors h;
   PruneSectors, a slot is occupied iff it was occupied by the same sector before and that
   sector is referenced by a live contract or by temp storage expiring after h. *)
Theorem c08_reclaim_exact : forall (l : list op) h v i r,
  let s := runs init l in
  slot_at (reclaim h s) v i = Some (Some r) <->
  slot_at s v i = Some (Some r) /\ live_ref s h r = true.
Proof. exact (fun l h v i r => reclaim_occupied_iff (runs init l) h v i r (inv_runs l init inv_init)). Qed.
Print Assumptions c08_reclaim_exact.

Theorem c08_live_ref_spec : forall s h r,
  live_ref s h r = true <->
  (exists c, In c (cons s) /\ crej c = false /\ ~ (cend c < h)%N /\ In r (croots c)) \/
  (exists e, In (r, e) (temps s) /\ (h < e)%N).
Proof. exact live_ref_spec. Qed.
Print Assumptions c08_live_ref_spec.

Theorem c08_reclaim_keeps_empty_slots : forall (l : list op) h v i,
  slot_at (runs init l) v i = Some None -> slot_at (reclaim h (runs init l)) v i = Some None.
Proof. exact (fun l h v i => reclaim_empty_stays (runs init l) h v i (inv_runs l init inv_init)). Qed.
Print Assumptions c08_reclaim_keeps_empty_slots.

(* non-vacuity: a reachable state with two volumes, a sector kept by a live v2 contract, one
   dropped because its v2 contract was rejected, one dropped because its temp entry expired *)
Definition c08_demo : list op :=
  [AddVol 1 false; SetAvail 1 true; Grow 1 2; AddVol 2 false; SetAvail 2 true; Grow 2 2;
   Store 7 (Some (1, 0)) true; Store 8 (Some (2, 0)) true; Store 9 (Some (1, 1)) true;
   AddC 1 true 20 1; AddC 2 true 20 9; ReviseV2 1 [7]; ReviseV2 2 [8]; AddTemp [(9, 10)];
   Reject 5]%N.
Example c08_nonvacuous :
  slot_at (runs init c08_demo) 1 0 = Some (Some 7%N) /\
  slot_at (reclaim 10 (runs init c08_demo)) 1 0 = Some None /\
  slot_at (reclaim 10 (runs init c08_demo)) 2 0 = Some (Some 8%N) /\
  slot_at (reclaim 10 (runs init c08_demo)) 1 1 = Some None /\
  snd (step (reclaim 10 (runs init c08_demo)) (Snapshot [])) =
    OSnap [(1%N, false, true, 2%Z, 0%Z); (2%N, false, true, 2%Z, 1%Z)] (4, 1, 0, 1, 0)%Z [] [(2%N, true, [8%N])].
Proof. vm_compute. repeat split; reflexivity. Qed.

(** * The batched loops

   [bop] (Batch.v) adds to the operations of Model.v ONE committed batch of each batched loop:
   RemoveBatch (one batchRemoveVolumeSectors transaction) and RemoveFinal, ExpireBatch (v1/v2),
   ExpireTempBatch, PruneBatch, MigrateTx, each with the batch size as a parameter and with the
   rows the batch took carried by the operation and validated (any min(batch, eligible)
   distinct eligible rows: the SELECT ... LIMIT has no ORDER BY).  [bruns init l] therefore ranges
   over every sequence in which a batched operation is cut after any number of batches, other
   operations run in between, and the operation is retried later or never.

   ONE PROVISO, and it is a finding about the code, not about the model: ShrinkVolume sets
   total_sectors := maxSectors whatever it deleted.  A removal batch takes the lowest row ids,
   so a volume whose removal was cut has lost its LOW indices; an accepted shrink of such a volume
   deletes fewer slots than it subtracts.  [bsafe_all] excludes exactly these shrinks (an accepted
   ShrinkVolume must find every index below its target); sequences of Model.v's operations
   satisfy it for free.  Full statement: the conjunction below for ALL l.  It is refuted
   ([c08_shrink_after_cut_removal_refuted]; reproduced on the store by the batch harness, monitor
   total-sectors-wrong-after-shrink-of-partly-removed-volume) and holds without the proviso when
   every removal batch leaves a gap-free volume, which is what fixes/C08-remove-batch-order.patch
   (ORDER BY volume_index DESC) makes the code do ([c08_batches_gap_free_full]). *)

(* In every state of every such sequence -- in particular after every single batch, i.e. in
   every state a crash or an error between two batches can expose -- a sector is in at most one
   slot, every slot exists once, per-volume used/total and the global total/physical/contract/
   temp metrics equal recounts. *)
Theorem c08_every_batch_keeps_counters_partial : forall (l : list bop),
  bsafe_all init l = true ->
  let s := bruns init l in
  (forall v i v' i' r, slot_at s v i = Some (Some r) -> slot_at s v' i' = Some (Some r) -> v = v' /\ i = i') /\
  NoDup (map vid (vols s)) /\ (forall vl, In vl (vols s) -> NoDup (map fst (vslots vl))) /\
  (forall vl, In vl (vols s) -> vused vl = n_used vl /\ vtotal vl = n_slots vl) /\
  mTotal (mets s) = gsum n_slots (vols s) /\
  mPhys (mets s) = gsum n_used (vols s) /\
  mContract (mets s) = csum (cons s) /\
  mTemp (mets s) = Z.of_nat (length (temps s)).
Proof. exact batched_state_ok. Qed.
Print Assumptions c08_every_batch_keeps_counters_partial.

(* ... wherever the sequence is cut *)
Theorem c08_cut_anywhere_partial : forall (l1 l2 : list bop),
  bsafe_all init (l1 ++ l2) = true -> c08_state_ok (bruns init l1).
Proof. exact batched_prefix_ok. Qed.
Print Assumptions c08_cut_anywhere_partial.

(* the proviso is void for sequences of whole Store calls: there the new sequences are the old ones *)
Theorem c08_whole_calls_need_no_proviso : forall (l : list op),
  bsafe_all init (map P l) = true /\ bruns init (map P l) = runs init l.
Proof. exact (fun l => conj (plain_safe l init inv_init) (bruns_plain l init)). Qed.
Print Assumptions c08_whole_calls_need_no_proviso.

(* the full statement fails: AddVolume; GrowVolume 12; one batch (size 5) of RemoveVolume taking
   the slots 0..4; ShrinkVolume 6 leaves ONE slot with total_sectors = 6 and totalSectors = 6 *)
Theorem c08_shrink_after_cut_removal_refuted :
  exists l : list bop,
    let s := bruns init l in
    (exists vl, In vl (vols s) /\ vtotal vl <> n_slots vl) /\ mTotal (mets s) <> gsum n_slots (vols s).
Proof. exact cut_then_shrink_refutes. Qed.
Print Assumptions c08_shrink_after_cut_removal_refuted.

(* with removal batches that leave the volume gap-free (the highest indices first) the invariant
   of the first part holds along every sequence, no proviso *)
Theorem c08_batches_gap_free_full : forall (l : list bop),
  contig_all init l = true ->
  let s := bruns init l in
  (forall v i v' i' r, slot_at s v i = Some (Some r) -> slot_at s v' i' = Some (Some r) -> v = v' /\ i = i') /\
  (forall vl, In vl (vols s) -> map fst (vslots vl) = nseq 0%N (length (vslots vl))) /\
  (forall vl, In vl (vols s) -> vused vl = n_used vl /\ vtotal vl = n_slots vl) /\
  mTotal (mets s) = gsum n_slots (vols s) /\
  mPhys (mets s) = gsum n_used (vols s) /\
  mContract (mets s) = csum (cons s) /\
  mTemp (mets s) = Z.of_nat (length (temps s)).
Proof.
  exact (fun l C =>
    let I := inv_bruns_contig l init inv_init C in
    conj (fun v i v' i' r => slot_injective (bruns init l) v i v' i' r I)
      (conj (proj1 (Forall_forall _ _) (inv_contig (bruns init l) I))
            (counters_exact (bruns init l) I))).
Qed.
Print Assumptions c08_batches_gap_free_full.

Theorem c08_highest_indices_leave_gap_free : forall (sl : slots) (k : nat),
  map fst sl = nseq 0%N (length sl) -> (k <= length sl)%nat ->
  keys_contig (keep_slots (nseq (N.of_nat (length sl - k)) k) sl) = true.
Proof. exact top_batch_contig. Qed.
Print Assumptions c08_highest_indices_leave_gap_free.

(* The full operations are the iterations of their batches: for every choice of rows the
   batches make (cs: one list per batch, the last one empty), run to the end, the loop returns
   what the atomic operation of Model.v returns and ends in the same state. *)
Theorem c08_remove_volume_is_its_batches : forall v force b cs s,
  (0 < b)%N -> winv s -> snd (remove_run v force b cs s) <> OBad ->
  remove_run v force b cs s = step s (RemoveVol v force).
Proof. exact (fun v force b cs s Hb => remove_run_atomic v force b Hb cs s). Qed.
Print Assumptions c08_remove_volume_is_its_batches.

Theorem c08_expire_is_its_batches : forall v2 h b cs s,
  (0 < b)%N -> winv s -> snd (expire_run v2 h b cs s) <> OBad ->
  expire_run v2 h b cs s = step s (if v2 then ExpireV2 h else ExpireV1 h).
Proof.
  exact (fun v2 h b cs s Hb I H =>
    eq_trans (expire_run_atomic v2 h b Hb cs s I H)
             (if v2 as x return fin s (expire_cons x h s) = step s (if x then ExpireV2 h else ExpireV1 h)
              then eq_refl else eq_refl)).
Qed.
Print Assumptions c08_expire_is_its_batches.

Theorem c08_expire_temp_is_its_batches : forall h b cs s,
  (0 < b)%N -> winv s -> snd (temp_run h b cs s) <> OBad ->
  temp_run h b cs s = step s (ExpireTemp h).
Proof. exact (fun h b cs s Hb => temp_run_atomic h b Hb cs s). Qed.
Print Assumptions c08_expire_temp_is_its_batches.

Theorem c08_prune_is_its_batches : forall b cs s,
  (0 < b)%N -> winv s -> snd (prune_run b cs s) <> OBad ->
  prune_run b cs s = step s (Prune true).
Proof. exact (fun b cs s Hb => prune_run_atomic b Hb cs s). Qed.
Print Assumptions c08_prune_is_its_batches.

Theorem c08_migrate_is_its_transactions : forall v start calls s,
  mig_iter (S (length (slots_of v s))) v start start calls 0 0 s = step s (Migrate v start calls).
Proof. exact (fun v start calls s => mig_iter_eq _ v start start calls 0%N 0%N s). Qed.
Print Assumptions c08_migrate_is_its_transactions.

(* [winv] above is the invariant of the reachable states *)
Theorem c08_reachable_winv : forall (l : list bop), bsafe_all init l = true -> winv (bruns init l).
Proof. exact (fun l => winv_bruns l init winv_init). Qed.
Print Assumptions c08_reachable_winv.

(* A removal cut after the batches cs1 and retried: whatever rows the retry's batches take, it
   returns what the uninterrupted RemoveVolume would have returned and, when that is success,
   ends in the very state the uninterrupted call would have produced. *)
Theorem c08_cut_removal_retry_completes : forall v force b cs1 cs2 s s1,
  (0 < b)%N -> winv s ->
  remove_cut v force b cs1 s = (s1, ORes (Ok tt)) ->
  snd (remove_run v force b cs2 s1) <> OBad ->
  winv s1 /\ remove_run v force b cs2 s1 = fin s1 (remove_vol v force s).
Proof. exact remove_retry_completes. Qed.
Print Assumptions c08_cut_removal_retry_completes.

(* the same for the other loops, one batch at a time: a committed batch followed by the whole
   operation is the whole operation (so is any number of batches, by induction) *)
Theorem c08_batch_then_whole_is_whole : forall s,
  winv s ->
  (forall v force b idxs s1, remove_batch v force b idxs s = (s1, ORes (Ok tt)) ->
     remove_vol v force s1 = remove_vol v force s) /\
  (forall v2 h b picks s1, expire_batch v2 h b picks s = (s1, ORes (Ok tt)) ->
     expire_cons v2 h s1 = expire_cons v2 h s) /\
  (forall h b picks s1, temp_batch h b picks s = (s1, ORes (Ok tt)) ->
     expire_temp h s1 = expire_temp h s) /\
  (forall b picks s1, prune_batch b picks s = (s1, ORes (Ok tt)) ->
     prune true s1 = prune true s).
Proof.
  exact (fun s I =>
    conj (fun v force b idxs s1 => remove_batch_absorbed v force b idxs s s1 I)
    (conj (fun v2 h b picks s1 => expire_batch_absorbed v2 h b picks s s1 I)
    (conj (fun h b picks s1 => temp_batch_absorbed h b picks s s1 I)
          (fun b picks s1 => prune_batch_absorbed b picks s s1 I)))).
Qed.
Print Assumptions c08_batch_then_whole_is_whole.

(* hostd's counter guards do not fire inside a batch either *)
Theorem c08_batch_guards_never_fire : forall (l : list bop) o,
  bsafe_all init l = true -> batch_op o = true -> is_panic_obs (snd (bstep (bruns init l) o)) = false.
Proof. exact (fun l o S => batch_no_panic (bruns init l) o (winv_bruns l init winv_init S)). Qed.
Print Assumptions c08_batch_guards_never_fire.

(* lostSectors, batch by batch: a removal batch raises it by exactly the occupied slots it
   destroys (none without force), no other batch changes it *)
Theorem c08_batch_lost_exact : forall (l : list bop) v force b idxs,
  bsafe_all init l = true ->
  let s := bruns init l in
  let s' := fst (bstep s (RemoveBatch v force b idxs)) in
  (mLost (mets s') - mLost (mets s) = occ_total s - occ_total s')%Z /\
  (force = false -> mLost (mets s') = mLost (mets s)).
Proof. exact (fun l v force b idxs S => batch_lost_exact (bruns init l) v force b idxs (winv_bruns l init winv_init S)). Qed.
Print Assumptions c08_batch_lost_exact.

Theorem c08_batch_lost_unchanged_otherwise : forall s o, quiet_batch o = true ->
  mLost (mets (fst (bstep s o))) = mLost (mets s).
Proof. exact batch_lost_unchanged. Qed.
Print Assumptions c08_batch_lost_unchanged_otherwise.

(* non-vacuity: a forced removal of a 12-slot volume holding three sectors, batch size 5, cut
   after its first batch (which took the slots 0..4 and with them the three sectors): the state
   a crash leaves; the retry (7 slots left: one full batch, a short one, the empty one, the final
   transaction) ends where the atomic RemoveVol ends. *)
Definition c08_cut_demo : list bop :=
  [P (AddVol 1 false); P (SetAvail 1 true); P (Grow 1 12);
   P (Store 7 (Some (1, 0)) true); P (Store 8 (Some (1, 1)) true); P (Store 9 (Some (1, 2)) true);
   RemoveBatch 1 true 5 [0; 1; 2; 3; 4]]%N.
Example c08_batched_nonvacuous :
  bsafe_all init c08_cut_demo = true /\
  snd (bstep (bruns init c08_cut_demo) (P (Snapshot [7; 8; 9]%N))) =
    OSnap [(1%N, false, true, 7%Z, 0%Z)] (7, 0, 3, 0, 0)%Z [None; None; None] [] /\
  remove_cut 1 true 5 [[0; 1; 2; 3; 4]]%N (bruns init (removelast c08_cut_demo)) =
    (bruns init c08_cut_demo, ORes (Ok tt)) /\
  remove_run 1 true 5 [[5; 6; 7; 8; 9]; [10; 11]; []]%N (bruns init c08_cut_demo) =
    step (bruns init (removelast c08_cut_demo)) (RemoveVol 1 true) /\
  snd (bstep (fst (remove_run 1 true 5 [[5; 6; 7; 8; 9]; [10; 11]; []]%N (bruns init c08_cut_demo))) (P (Snapshot [7]%N))) =
    OSnap [] (0, 0, 3, 0, 0)%Z [None] [].
Proof. vm_compute. repeat split; reflexivity. Qed.

(** * The expiry, prune and placement selections, regenerated from the SQL

   q_deleteExpiredContractSectors, q_deleteExpiredV2ContractSectors, q_deleteTempSectors,
   q_updatePruneableVolumeSectors and q_emptyLocation (gen/StorageQueries.v) are produced on every
   run by tools/sqlgen (spec tools/sqlgen/c08.json) from the SQL text and the bound Go arguments of
   the functions of those names in the repository's current persist/sqlite/{contracts,sectors,
   volumes}.go: SQLite's affinity rules (column types of init.sql, what database/sql binds for the
   Go status constants), three-valued logic (SqlSem.v), INNER JOIN on a primary key as a field
   of the joining row, LEFT JOIN ... IS NULL over whole tables (SqlJoin.v); the LIMITs are batch
   sizes of loops that run until no row is hit (c08_*_is_its_batches above) resp. the pick of one
   empty slot.  SqlRows.v holds the row records; [sr1_of]/[sr2_of]/[ts_of]/[vs_of] and
   [tab_sr1]/[tab_sr2]/[tab_ts]/[tab_vs] (GenEquiv.v) are the rows and tables of a model state
   ([la]: last access per sector, [w]: sector_writes per slot — columns the model does not keep). *)
From HostdStorage Require Import SqlSem SqlRows SqlJoin StorageQueries GenEquiv.

(* "referenced by a contract that is neither rejected nor past its proof window": the two
   expiry statements delete exactly the roots of contracts that are rejected or past their
   window (v2: expiration height) *)
Theorem c08_gen_expiry_selects_exactly_rejected_or_past_window : forall (c : contract) (k r h : N),
  (cv2 c = false ->
   (q_deleteExpiredContractSectors (sr1_of c k r) h = true <-> crej c = true \/ (cend c < h)%N)) /\
  (cv2 c = true ->
   (q_deleteExpiredV2ContractSectors (sr2_of c k r) h = true <-> crej c = true \/ (cend c < h)%N)).
Proof. exact gen_expiry_iff. Qed.
Print Assumptions c08_gen_expiry_selects_exactly_rejected_or_past_window.

(* ... for any row of the two tables whose contract row agrees with the model's contract (any of
   the five / six statuses, rejected iff the model's flag), and so the generated selection is the
   [exp_sel] of the model's expire_cons / drop_root / expire_batch *)
Theorem c08_gen_expiry_any_row : forall (c : contract) (h : N),
  (forall (x : x1row) (r : sr1row), cv2 c = false -> rep_x1 c x -> sr1_contract r = Some x ->
     q_deleteExpiredContractSectors r h = exp_sel false h c) /\
  (forall (x : x2row) (r : sr2row), cv2 c = true -> rep_x2 c x -> sr2_contract r = Some x ->
     q_deleteExpiredV2ContractSectors r h = exp_sel true h c).
Proof. exact (fun c h => conj (fun x r => q_expire_v1_model c x r h) (fun x r => q_expire_v2_model c x r h)). Qed.
Print Assumptions c08_gen_expiry_any_row.

Theorem c08_gen_expiry_is_model_selection : forall (v2 : bool) (h : N) (c : contract),
  gen_exp_sel v2 h c = exp_sel v2 h c.
Proof. exact gen_exp_sel_eq. Qed.
Print Assumptions c08_gen_expiry_is_model_selection.

(* "temp storage expiring after h": ExpireTempSectors deletes exactly the entries with
   expiration <= h, i.e. keeps what the model's expire_temp keeps *)
Theorem c08_gen_temp_expiry_selects_exactly_not_live : forall (h : N),
  (forall (t : N * N) (r : tsrow), ts_sector_id r = fst t -> ts_expiration_height r = snd t ->
     q_deleteTempSectors r h = negb (temp_live h t)) /\
  (forall s : state,
     filter (fun t => negb (q_deleteTempSectors (ts_of t) h)) (temps s) = filter (temp_live h) (temps s)).
Proof. exact (fun h => conj (fun t r => q_temp_model t r h) (q_temp_canonical h)). Qed.
Print Assumptions c08_gen_temp_expiry_selects_exactly_not_live.

(* "followed by a prune": PruneSectors clears exactly the slots whose sector was last accessed
   before the cutoff and is referenced by no contract of either version and by no temp entry *)
Theorem c08_gen_prune_selects_exactly_unreferenced : forall la w (s : state) (vl : vol) (i : N) (x : option N) (cutoff : Z),
  q_updatePruneableVolumeSectors (vs_of la w vl (i, x)) (tab_sr1 s) (tab_sr2 s) (tab_ts s) cutoff = true <->
  exists r, x = Some r /\ (Z.of_N (la r) < cutoff)%Z /\ refd s r = false.
Proof. exact gen_prune_iff. Qed.
Print Assumptions c08_gen_prune_selects_exactly_unreferenced.

(* ... for any contents of the three reference tables that hold the references of the state *)
Theorem c08_gen_prune_any_tables : forall (s : state) T1 T2 T3 (row : vsrow) (e : ssrow) (cutoff : Z),
  tables_represent s T1 T2 T3 -> vs_sector row = Some e ->
  q_updatePruneableVolumeSectors row T1 T2 T3 cutoff =
  (Z.of_N (ss_last_access_timestamp e) <? cutoff)%Z && negb (refd s (ss_id e)).
Proof. exact q_prune_model. Qed.
Print Assumptions c08_gen_prune_any_tables.

Theorem c08_gen_tables_of_state_represent : forall s : state,
  tables_represent s (tab_sr1 s) (tab_sr2 s) (tab_ts s).
Proof. exact canonical_tables_represent. Qed.
Print Assumptions c08_gen_tables_of_state_represent.

(* "puts new sectors only in available, writable volumes": the location StoreSector is handed
   is a row the statement selects, and it selects exactly the empty slots of available volumes
   that are not read-only ... *)
Theorem c08_gen_placement_only_available_writable_free : forall la w (vl : vol) (i : N) (x : option N),
  q_emptyLocation (vs_of la w vl (i, x)) = true <-> vavail vl = true /\ vro vl = false /\ x = None.
Proof. exact gen_placement_iff. Qed.
Print Assumptions c08_gen_placement_only_available_writable_free.

(* ... which is the model's validation of the implementation's choice ([valid_free], used by
   [reserve]) ... *)
Theorem c08_gen_placement_is_valid_free : forall (s : state) (v i : N) (vl : vol) (x : option N) (sv : svrow) (r : vsrow),
  vget v (vols s) = Some vl -> sget i (vslots vl) = Some x ->
  rep_sv vl sv -> vs_volume r = Some sv -> vs_sector_id r = x ->
  q_emptyLocation r = valid_free s v i.
Proof. exact q_empty_valid_free. Qed.
Print Assumptions c08_gen_placement_is_valid_free.

(* ... and "no row" (ErrNotEnoughStorage) is the model's [has_free] = false *)
Theorem c08_gen_no_row_iff_no_free_slot : forall la w (s : state),
  existsb q_emptyLocation (tab_vs la w s) = has_free s.
Proof. exact q_empty_has_free. Qed.
Print Assumptions c08_gen_no_row_iff_no_free_slot.

(* non-vacuity of the generated selections on the demo state above: the rejected v2 contract's
   root and the past-window test are selected, the live one is not; sector 9 (unreferenced once
   its temp entry is gone) is pruned, sector 8 is not; only the empty slots are placement
   candidates *)
Example c08_gen_nonvacuous :
  let s := runs init c08_demo in
  map (fun c => (cid c, gen_exp_sel true 10 c, gen_exp_sel true 21 c)) (cons s)
    = [(1%N, true, true); (2%N, false, true)] /\
  map (fun t => q_deleteTempSectors (ts_of t) 10) (temps s) = [true] /\
  map (fun r => q_updatePruneableVolumeSectors (vs_of (fun _ => 5%N) (fun _ _ => 0%N) {| vid := 1; vro := false; vavail := true; vtotal := 2; vused := 2; vslots := [] |} (0%N, Some r))
                  (tab_sr1 (reclaim 10 s)) (tab_sr2 (reclaim 10 s)) (tab_ts (reclaim 10 s)) 6%Z) [7; 8; 9]%N
    = [true; false; true] /\
  map q_emptyLocation (tab_vs (fun _ => 5%N) (fun _ _ => 0%N) s) = [false; false; false; true].
Proof. vm_compute. repeat split; reflexivity. Qed.

(* ---- Part 3b (work package W): which rows a removal batch deletes, from the SQL ------------
   c08_batches_gap_free_full has the premise [contig_all] ("every removal batch leaves the volume
   gap-free").  It is now DERIVED: tools/sqlgen translates forceDeleteVolumeSectors /
   deleteVolumeSectors (mode "top-desc": the statement must be ... WHERE <p> ORDER BY
   volume_index DESC LIMIT n, anything else is a hard error of the translator), SqlJoin.v
   [sql_top_desc] states which rows ORDER BY k DESC LIMIT n hits, and BatchSql.v proves that a
   batch hitting those rows of the canonical tables of a state leaves the volume gap-free.
   [sql_driven la w init l]: every RemoveBatch of l carries the rows the generated selection
   yields in the state it runs in (no row when deleteVolumeSectors refuses a non-empty volume);
   the batch harness checks exactly this for every recorded batch (bcheck_sql). *)
From HostdStorage Require Import BatchSql.

Theorem c08_sql_batches_leave_gap_free : forall la w (l : list bop) (s : state),
  inv s -> sql_driven la w s l = true -> contig_all s l = true.
Proof. exact (fun la w l => sql_driven_contig la w l). Qed.
Print Assumptions c08_sql_batches_leave_gap_free.

(* ... hence the full statement, with no premise about the code: slot injectivity, indices
   0..n-1, every counter equal to its recount, along every sequence of Store calls and batches
   whose removal batches are the SQL's *)
Theorem c08_batches_gap_free_from_sql : forall la w (l : list bop),
  sql_driven la w init l = true ->
  let s := bruns init l in
  (forall v i v' i' r, slot_at s v i = Some (Some r) -> slot_at s v' i' = Some (Some r) -> v = v' /\ i = i') /\
  (forall vl, In vl (vols s) -> map fst (vslots vl) = nseq 0%N (List.length (vslots vl))) /\
  (forall vl, In vl (vols s) -> vused vl = n_used vl /\ vtotal vl = n_slots vl) /\
  mTotal (mets s) = gsum n_slots (vols s) /\
  mPhys (mets s) = gsum n_used (vols s) /\
  mContract (mets s) = csum (cons s) /\
  mTemp (mets s) = Z.of_nat (List.length (temps s)).
Proof.
  exact (fun la w l C =>
    let I := sql_driven_inv la w l C in
    conj (fun v i v' i' r => slot_injective (bruns init l) v i v' i' r I)
      (conj (proj1 (Forall_forall _ _) (inv_contig (bruns init l) I))
            (counters_exact (bruns init l) I))).
Qed.
Print Assumptions c08_batches_gap_free_from_sql.

(* the ORDER BY is what does it: on a 12-slot volume the batch of the 5 lowest indices (what the
   statement hit before 81dbba1) is not the generated selection, the 5 highest are *)
Theorem c08_lowest_first_is_not_the_sql_selection :
  let s := bruns init [P (AddVol 1 false); P (Grow 1 12)] in
  sql_batch_ok (fun _ => 0%N) (fun _ _ => 0%N) s (RemoveBatch 1 true 5 [0; 1; 2; 3; 4]%N) = false /\
  sql_batch_ok (fun _ => 0%N) (fun _ _ => 0%N) s (RemoveBatch 1 true 5 [11; 10; 9; 8; 7]%N) = true.
Proof. exact lowest_first_not_sql_selection. Qed.
Print Assumptions c08_lowest_first_is_not_the_sql_selection.

(* ---- Part 4 (work package W): the read-only flag is the operator's ---------------------------
   "New sectors are placed only on available, writable volumes" is about the flags in the database
   (c08_placement_only_writable, c08_gen_placement_only_available_writable_free); whether they are
   the flags the OPERATOR set depends on the volume manager, whose ResizeVolume makes a volume
   read-only for the duration of a shrink.  StatusModel.v [resize_ro_calls] is that piece of
   storage.go: the SetReadOnly calls a resize makes, given whether it shrinks and the flag it
   found.  Tied to the code by the monitors resize-changed-operator-read-only-flag and
   sector-placed-on-read-only-volume of the borrowed TestVerifC02 entry (operator SetReadOnly in
   the generator, directed case 15), not by a recorded correspondence. *)
From HostdStorage Require Import StatusModel StatusProofs.

(* a resize, shrinking or not, of a volume in either state leaves the flag as it found it *)
Theorem c08_resize_restores_read_only_flag : forall shrinking ro : bool,
  ro_after ro (resize_ro_calls false shrinking ro) = ro.
Proof. exact resize_restores_flag. Qed.
Print Assumptions c08_resize_restores_read_only_flag.

(* while it shrinks the volume is read-only: no sector is placed on a slot about to be deleted *)
Theorem c08_shrink_runs_read_only : forall ro : bool,
  match resize_ro_calls false true ro with [] => ro = true | b :: _ => b = true end.
Proof. exact shrink_runs_read_only. Qed.
Print Assumptions c08_shrink_runs_read_only.

(* without the [!stat.ReadOnly] guard (seeded change C08-mut7) a shrink of a volume the operator
   had set read-only ends with SetReadOnly(id, false) *)
Theorem c08_resize_without_guard_refuted : exists shrinking ro : bool,
  ro_after ro (resize_ro_calls true shrinking ro) <> ro.
Proof. exact legacy_resize_drops_flag_refuted. Qed.
Print Assumptions c08_resize_without_guard_refuted.
