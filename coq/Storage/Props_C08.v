(* C08 — Storage slot accounting and reclamation are exact.  Statements only. *)
From HostdBase Require Import Base.
From HostdStorage Require Import Model Lemmas Proofs.

Theorem c08_stub : forall s, runs s [] = s.
Proof. exact runs_nil. Qed.
Print Assumptions c08_stub.

Example c08_nonvacuous : fst (step init (AddVol 1 false)) <> init.
Proof. vm_compute; discriminate. Qed.
