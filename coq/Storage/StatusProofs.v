(* Storage/StatusProofs.v — a volume is owned by at most one resize / removal / initialisation *)
From Coq Require Import Lia ZifyBool ZifyN ZifyNat.
From HostdBase Require Import Base.
From HostdStorage Require Import StatusModel.

Definition sruns (legacy : bool) (s : sstate) (l : list sop) : sstate :=
  fold_left (fun s o => fst (sstep legacy s o)) l s.

Definition busy (o : option vstatus) : bool :=
  match o with Some VCreating | Some VResizing | Some VRemoving => true | _ => false end.

Definition ownl (v : N) (l : list (N * (N * vstatus))) : nat :=
  length (filter (fun e => (fst (snd e) =? v)%N) l).

Lemma owners_ownl v s : owners v s = ownl v (sown s).
Proof. reflexivity. Qed.

Definition idle_status (s : vstatus) : Prop := s = VReady \/ s = VUnavailable.

Record sinv (s : sstate) : Prop := {
  s_keys : NoDup (map fst (sst s));
  s_okeys : NoDup (map fst (sown s));
  s_own : forall v, ownl v (sown s) = if busy (alookup v (sst s)) then 1%nat else 0%nat;
  s_back : forall t v b, alookup t (sown s) = Some (v, b) -> idle_status b }.

Lemma alookup_aremove_ne {V} (k w : N) (l : list (N * V)) : w <> k -> alookup w (aremove k l) = alookup w l.
Proof.
  intros Hne. induction l as [|[k' y] l IH]; cbn; [reflexivity|].
  destruct (k =? k')%N eqn:E.
  - apply N.eqb_eq in E; subst k'. destruct (w =? k)%N eqn:E2; [apply N.eqb_eq in E2; congruence|reflexivity].
  - cbn. destruct (w =? k')%N; [reflexivity|exact IH].
Qed.

Lemma alookup_aremove_same {V} (k : N) (l : list (N * V)) : NoDup (map fst l) -> alookup k (aremove k l) = None.
Proof.
  induction l as [|[k' y] l IH]; cbn; [reflexivity|]. intros Hnd; inversion Hnd as [|? ? Hni Hnd']; subst.
  destruct (k =? k')%N eqn:E.
  - apply N.eqb_eq in E; subst k'. destruct (alookup k l) eqn:A; [|reflexivity].
    exfalso. apply Hni. clear - A. induction l as [|[k2 y2] l IH]; cbn in *; [discriminate|].
    destruct (k =? k2)%N eqn:E; [apply N.eqb_eq in E; now left|right; auto].
  - cbn. rewrite E. auto.
Qed.

Lemma aremove_keys_nodup {V} (k : N) (l : list (N * V)) : NoDup (map fst l) -> NoDup (map fst (aremove k l)).
Proof.
  induction l as [|[k' y] l IH]; cbn; [auto|]. intros Hnd; inversion Hnd as [|? ? Hni Hnd']; subst.
  destruct (k =? k')%N; cbn; [auto|]. constructor; [|auto].
  intros Hin. apply Hni. clear - Hin. induction l as [|[k2 y2] l IH]; cbn in *; [tauto|].
  destruct (k =? k2)%N; cbn in *; [now right|]. destruct Hin; [now left|right; auto].
Qed.

Lemma notin_aremove {V} (k : N) (l : list (N * V)) : NoDup (map fst l) -> ~ In k (map fst (aremove k l)).
Proof.
  induction l as [|[k' y] l IH]; cbn; [tauto|]. intros Hnd; inversion Hnd as [|? ? Hni Hnd']; subst.
  destruct (k =? k')%N eqn:E.
  - apply N.eqb_eq in E; subst k'. exact Hni.
  - cbn. intros [H|H]; [apply N.eqb_neq in E; congruence|now apply IH].
Qed.

Lemma alookup_none_notin' {V} t (l : list (N * V)) : alookup t l = None -> ~ In t (map fst l).
Proof.
  induction l as [|[k y] l IH]; cbn; [tauto|].
  destruct (t =? k)%N eqn:E; [discriminate|]. apply N.eqb_neq in E. intros H [H1|H1]; [congruence|now apply IH].
Qed.

Lemma ownl_cons w t v b l : ownl w ((t, (v, b)) :: l) = ((if (v =? w)%N then 1 else 0) + ownl w l)%nat.
Proof. unfold ownl; cbn. destruct (v =? w)%N; reflexivity. Qed.

Lemma ownl_aremove w t v b l : alookup t l = Some (v, b) ->
  ownl w l = ((if (v =? w)%N then 1 else 0) + ownl w (aremove t l))%nat.
Proof.
  induction l as [|[k [v' b']] l IH]; cbn [alookup aremove]; [discriminate|].
  destruct (t =? k)%N.
  - intros [= -> ->]. apply ownl_cons.
  - intros H. rewrite !ownl_cons, (IH H). lia.
Qed.

Lemma sinv_init : sinv sinit.
Proof. constructor; cbn; [constructor|constructor|reflexivity|discriminate]. Qed.

Lemma set_status_claim cur new st' :
  claiming new = true -> set_status false cur new = (st', SOk) ->
  st' = new /\ idle_status cur.
Proof.
  unfold set_status. destruct cur, new; cbn; try discriminate; intros _ [= <-]; unfold idle_status; auto.
Qed.

Lemma set_status_back cur back : idle_status back -> busy (Some cur) = true ->
  set_status false cur back = (back, SOk).
Proof. intros [-> | ->]; destruct cur; cbn; try discriminate; reflexivity. Qed.

Lemma busy_idle st : idle_status st -> busy (Some st) = false.
Proof. intros [-> | ->]; reflexivity. Qed.

Theorem sinv_step s o : sinv s -> sinv (fst (sstep false s o)).
Proof.
  intros [K KO O B]. destruct o as [v avail|t v|t v|t v|t gone]; cbn [sstep].
  - (* SLoad *)
    destruct (alookup v (sst s)) eqn:A; [constructor; assumption|]. cbn [fst]. constructor; cbn [sst sown].
    + cbn. constructor; [now apply alookup_none_notin'|exact K].
    + exact KO.
    + intros w. rewrite O. cbn [alookup]. destruct (w =? v)%N eqn:E; [|reflexivity].
      apply N.eqb_eq in E; subst w. rewrite A. destruct avail; reflexivity.
    + exact B.
  - (* SAdd *)
    destruct (alookup v (sst s)) eqn:A; [constructor; assumption|].
    destruct (alookup t (sown s)) eqn:T; [constructor; assumption|]. cbn [fst]. constructor; cbn [sst sown].
    + cbn. constructor; [now apply alookup_none_notin'|exact K].
    + cbn. constructor; [now apply alookup_none_notin'|exact KO].
    + intros w. rewrite ownl_cons, O. cbn [alookup]. rewrite (N.eqb_sym w v).
      destruct (v =? w)%N eqn:E; [|reflexivity]. apply N.eqb_eq in E; subst w. rewrite A. reflexivity.
    + intros t' v' b. cbn [alookup]. destruct (t' =? t)%N; [intros [= _ <-]; now left|apply B].
  - (* SResize *)
    destruct (alookup v (sst s)) as [cur|] eqn:A; [|constructor; assumption].
    destruct (alookup t (sown s)) eqn:T; [constructor; assumption|].
    destruct (set_status false cur VResizing) as [st' r] eqn:SS. destruct r; try (constructor; assumption).
    destruct (set_status_claim cur VResizing st' eq_refl SS) as [-> Hidle]. cbn [fst]. constructor; cbn [sst sown].
    + cbn. constructor; [now apply notin_aremove|now apply aremove_keys_nodup].
    + cbn. constructor; [now apply alookup_none_notin'|exact KO].
    + intros w. rewrite ownl_cons, O. cbn [alookup]. rewrite (N.eqb_sym w v).
      destruct (v =? w)%N eqn:E.
      * apply N.eqb_eq in E; subst w. rewrite A, (busy_idle cur Hidle). reflexivity.
      * apply N.eqb_neq in E. rewrite alookup_aremove_ne by congruence. reflexivity.
    + intros t' v' b. cbn [alookup]. destruct (t' =? t)%N; [intros [= _ <-]; now left|apply B].
  - (* SRemove *)
    destruct (alookup v (sst s)) as [cur|] eqn:A; [|constructor; assumption].
    destruct (alookup t (sown s)) eqn:T; [constructor; assumption|].
    destruct (set_status false cur VRemoving) as [st' r] eqn:SS. destruct r; try (constructor; assumption).
    destruct (set_status_claim cur VRemoving st' eq_refl SS) as [-> Hidle]. cbn [fst]. constructor; cbn [sst sown].
    + cbn. constructor; [now apply notin_aremove|now apply aremove_keys_nodup].
    + cbn. constructor; [now apply alookup_none_notin'|exact KO].
    + intros w. rewrite ownl_cons, O. cbn [alookup]. rewrite (N.eqb_sym w v).
      destruct (v =? w)%N eqn:E.
      * apply N.eqb_eq in E; subst w. rewrite A, (busy_idle cur Hidle). reflexivity.
      * apply N.eqb_neq in E. rewrite alookup_aremove_ne by congruence. reflexivity.
    + intros t' v' b. cbn [alookup]. destruct (t' =? t)%N; [intros [= _ <-]; exact Hidle|apply B].
  - (* SFinish *)
    destruct (alookup t (sown s)) as [[v back]|] eqn:T; [|constructor; assumption].
    pose proof (B t v back T) as Hback.
    pose proof (ownl_aremove v t v back (sown s) T) as Hv. rewrite N.eqb_refl in Hv.
    assert (Hbusy : busy (alookup v (sst s)) = true).
    { pose proof (O v) as H. destruct (busy (alookup v (sst s))); [reflexivity|lia]. }
    assert (HB' : forall t' v' b, alookup t' (aremove t (sown s)) = Some (v', b) -> idle_status b).
    { intros t' v' b H. destruct (N.eq_dec t' t) as [->|Hne].
      - rewrite alookup_aremove_same in H by exact KO. discriminate.
      - rewrite alookup_aremove_ne in H by exact Hne. eapply B; eauto. }
    destruct (alookup v (sst s)) as [cur|] eqn:A; [|discriminate Hbusy].
    destruct gone.
    + destruct (vstatus_eqb cur VRemoving); [|constructor; assumption]. cbn [fst]. constructor; cbn [sst sown].
      * now apply aremove_keys_nodup.
      * now apply aremove_keys_nodup.
      * intros w. destruct (N.eq_dec w v) as [->|Hne].
        -- rewrite alookup_aremove_same by exact K. cbn. pose proof (O v) as H. rewrite A, Hbusy in H. lia.
        -- rewrite alookup_aremove_ne by exact Hne. rewrite <- O.
           pose proof (ownl_aremove w t v back (sown s) T) as H. replace (v =? w)%N with false in H; [lia|].
           symmetry. apply N.eqb_neq. congruence.
      * exact HB'.
    + rewrite (set_status_back cur back Hback Hbusy). cbn [fst]. constructor; cbn [sst sown].
      * cbn. constructor; [now apply notin_aremove|now apply aremove_keys_nodup].
      * now apply aremove_keys_nodup.
      * intros w. cbn [alookup]. destruct (w =? v)%N eqn:E.
        -- apply N.eqb_eq in E; subst w. rewrite (busy_idle back Hback). pose proof (O v) as H. rewrite A, Hbusy in H. lia.
        -- apply N.eqb_neq in E. rewrite alookup_aremove_ne by exact E. rewrite <- O.
           pose proof (ownl_aremove w t v back (sown s) T) as H. replace (v =? w)%N with false in H; [lia|].
           symmetry. apply N.eqb_neq. congruence.
      * exact HB'.
Qed.

Theorem sinv_runs l : forall s, sinv s -> sinv (sruns false s l).
Proof. induction l as [|o t IH]; intros s I; [exact I|]. cbn. apply IH. now apply sinv_step. Qed.

(* no two resize / removal / initialisation operations of one volume overlap: at any moment a
   volume is owned by at most one running operation, and exactly when its status says so *)
Theorem no_overlap l v :
  let s := sruns false sinit l in
  (owners v s <= 1)%nat /\ (owners v s = 1%nat <-> busy (alookup v (sst s)) = true).
Proof.
  intros s. pose proof (sinv_runs l sinit sinv_init) as [_ _ O _]. fold s in O.
  rewrite owners_ownl, O. destruct (busy (alookup v (sst s))); split; try lia; split; auto; discriminate.
Qed.

(* a claim is refused while the volume is owned *)
Theorem claim_refused_while_owned l t v :
  let s := sruns false sinit l in
  (owners v s >= 1)%nat ->
  fst (sstep false s (SResize t v)) = s /\ fst (sstep false s (SRemove t v)) = s.
Proof.
  intros s H. destruct (no_overlap l v) as [H1 H2]. fold s in H1, H2.
  assert (Hb : busy (alookup v (sst s)) = true) by (apply H2; lia).
  cbn [sstep]. destruct (alookup v (sst s)) as [cur|]; [|discriminate Hb].
  destruct (alookup t (sown s)); [split; reflexivity|].
  destruct cur; try discriminate Hb; cbn; split; reflexivity.
Qed.

(* before 45cdb99 (SetStatus returned nil when the volume already had the requested status): two
   resizes own the volume at once *)
Definition witness_double_resize : list sop := [SLoad 1 true; SResize 1 1; SResize 2 1]%N.

Lemma legacy_overlap_refuted : exists l v, (owners v (sruns true sinit l) >= 2)%nat.
Proof. exists witness_double_resize, 1%N. vm_compute. lia. Qed.

Lemma status_demo_nonvacuous :
  let s := sruns false sinit [SLoad 1 true; SResize 1 1; SResize 2 1; SRemove 3 1; SFinish 1 false; SRemove 3 1; SResize 4 1; SFinish 3 true]%N in
  snd (sstep false (sruns false sinit [SLoad 1 true; SResize 1 1]%N) (SResize 2 1)) = SO SErr /\
  snd (sstep false (sruns false sinit [SLoad 1 true; SResize 1 1]%N) (SRemove 3 1)) = SO SErr /\
  sst s = [] /\ sown s = [].
Proof. vm_compute. repeat split; reflexivity. Qed.

(** * A resize leaves the operator's read-only flag alone *)
Theorem resize_restores_flag shrinking ro : ro_after ro (resize_ro_calls false shrinking ro) = ro.
Proof. destruct shrinking, ro; reflexivity. Qed.

(* inside the shrink the volume is read-only, whoever made it so *)
Theorem shrink_runs_read_only ro :
  match resize_ro_calls false true ro with [] => ro = true | b :: _ => b = true end.
Proof. destruct ro; reflexivity. Qed.

Lemma legacy_resize_drops_flag_refuted : exists shrinking ro, ro_after ro (resize_ro_calls true shrinking ro) <> ro.
Proof. exists true, true. discriminate. Qed.
