(* Storage/Proofs.v — invariants of the metadata model (C08) *)
From Coq Require Import Lia ZifyBool ZifyN ZifyNat.
From HostdBase Require Import Base.
From HostdStorage Require Import Model Lemmas.

Local Open Scope Z_scope.
Arguments stat_inc : simpl never.
Arguments vol_usage : simpl never.
Arguments set_slot : simpl never.
Arguments csum : simpl never.

Definition runs (s : state) (l : list op) : state := fold_left (fun s o => fst (step s o)) l s.

Lemma nseq_length from n : length (nseq from n) = n.
Proof. revert from; induction n; intros; cbn; auto. Qed.

Lemma nseq_nodup from n : NoDup (nseq from n) /\ forall x, In x (nseq from n) -> (from <= x)%N.
Proof.
  revert from; induction n as [|n IH]; intros from; cbn.
  - split; [constructor|tauto].
  - destruct (IH (N.succ from)) as [H1 H2]. split.
    + constructor; auto. intros Hin. apply H2 in Hin. lia.
    + intros x [<-|Hx]; [lia|]. apply H2 in Hx; lia.
Qed.


Lemma nseq_app a n m : nseq a (n + m) = nseq a n ++ nseq (a + N.of_nat n)%N m.
Proof.
  revert a; induction n as [|n IH]; intros a; cbn.
  - now rewrite N.add_0_r.
  - rewrite IH. do 3 f_equal. lia.
Qed.

Lemma keys_nodup (l : slots) : map fst l = nseq 0%N (length l) -> NoDup (map fst l).
Proof. intros ->; apply nseq_nodup. Qed.

Lemma filter_none_below (a b : N) (t : slots) :
  (a <= b)%N -> map fst t = nseq b (length t) -> filter (fun y => (fst y <? a)%N) t = [].
Proof.
  revert b; induction t as [|[j y] t IH]; intros b Hle; cbn [length map filter nseq fst]; [reflexivity|].
  intros H; injection H as Hj Ht. subst j.
  replace (b <? a)%N with false by lia. apply (IH (N.succ b)); [lia|exact Ht].
Qed.

Lemma filter_keys_below (n : N) (l : slots) a :
  map fst l = nseq a (length l) -> (a <= n)%N -> (n <= a + N.of_nat (length l))%N ->
  map fst (filter (fun y => (fst y <? n)%N) l) = nseq a (N.to_nat (n - a)).
Proof.
  revert a; induction l as [|[j y] t IH]; intros a; cbn [length map filter nseq fst].
  - intros _ H1 H2. replace (N.to_nat (n - a)) with O by lia. reflexivity.
  - intros H H1 H2. injection H as Hj Ht. subst j.
    destruct (a <? n)%N eqn:E.
    + cbn [map fst]. rewrite (IH (N.succ a)); [|exact Ht|lia|lia].
      replace (N.to_nat (n - a)) with (S (N.to_nat (n - N.succ a))) by lia. reflexivity.
    + replace (N.to_nat (n - a)) with O by lia.
      rewrite (filter_none_below n (N.succ a) t); [reflexivity|lia|exact Ht].
Qed.

(** * The invariant *)
(* the slots of a volume are exactly the indices 0 .. total-1, each once *)
Definition vol_ok (vl : vol) : Prop :=
  map fst (vslots vl) = nseq 0%N (length (vslots vl)) /\
  vtotal vl = Z.of_nat (length (vslots vl)) /\
  vused vl = wsum occ1 (vslots vl).

(* number of slots (over all volumes) that hold sector r *)
Definition gcnt (r : N) (l : list vol) : Z := gsum (fun vl => wsum (is_root r) (vslots vl)) l.

Record inv (s : state) : Prop := mk_inv {
  inv_vids : NoDup (map vid (vols s));
  inv_vol : Forall vol_ok (vols s);
  inv_inj : forall r, gcnt r (vols s) <= 1;
  inv_total : mTotal (mets s) = gsum vtotal (vols s);
  inv_phys : mPhys (mets s) = gsum vused (vols s);
  inv_contract : mContract (mets s) = csum (cons s);
  inv_temp : mTemp (mets s) = Z.of_nat (length (temps s));
  inv_lost : 0 <= mLost (mets s) }.

Lemma inv_init : inv init.
Proof. constructor; cbn; try constructor; try lia. Qed.

Lemma gcnt_nonneg r l : 0 <= gcnt r l.
Proof. apply gsum_nonneg; intros; apply wsum_nonneg; apply is_root_nonneg. Qed.

(** * Slot writes *)
(* write x into slot i of a volume and adjust its usage by d *)
Definition wr (i : N) (x : option N) (d : Z) (vl : vol) : vol :=
  set_used (set_slots vl (sset i x (vslots vl))) (vused vl + d).

Lemma wr_vid i x d vl : vid (wr i x d vl) = vid vl.
Proof. reflexivity. Qed.

Lemma vupd_ext v f g l : (forall x, f x = g x) -> vupd v f l = vupd v g l.
Proof.
  intros H; induction l as [|x t IH]; cbn; [reflexivity|].
  destruct (v =? vid x)%N; [now rewrite H|now rewrite IH].
Qed.

Lemma vupd_comm v w f g l :
  v <> w -> (forall x, vid (f x) = vid x) -> (forall x, vid (g x) = vid x) ->
  vupd v f (vupd w g l) = vupd w g (vupd v f l).
Proof.
  intros Hne Hf Hg; induction l as [|x t IH]; cbn; [reflexivity|].
  destruct (w =? vid x)%N eqn:Ew; destruct (v =? vid x)%N eqn:Ev; cbn;
    rewrite ?Hf, ?Hg, ?Ew, ?Ev; try reflexivity.
  - apply N.eqb_eq in Ew, Ev; congruence.
  - now rewrite IH.
Qed.

Lemma vol_usage_ok v d s s' :
  vol_usage v d s = Ok s' ->
  exists vl, vget v (vols s) = Some vl /\ 0 <= vused vl + d /\
    vols s' = vupd v (fun x => set_used x (vused x + d)) (vols s) /\
    mets s' = set_mPhys (mets s) (mPhys (mets s) + d) /\
    known s' = known s /\ temps s' = temps s /\ cons s' = cons s.
Proof.
  unfold vol_usage. destruct (vget v (vols s)) as [vl|] eqn:G; [|discriminate].
  destruct (vused vl + d <? 0) eqn:E; [discriminate|].
  destruct (stat_inc (mPhys (mets s)) d) as [p| |] eqn:S; cbn; try discriminate.
  intros [= <-]. apply stat_inc_ok in S; subst p.
  exists vl; repeat split; auto; lia.
Qed.

Lemma usage_set_slot v i x d s s' :
  vol_usage v d (set_slot v i x s) = Ok s' ->
  exists vl, vget v (vols s) = Some vl /\ 0 <= vused vl + d /\
    vols s' = vupd v (wr i x d) (vols s) /\
    mets s' = set_mPhys (mets s) (mPhys (mets s) + d) /\
    known s' = known s /\ temps s' = temps s /\ cons s' = cons s.
Proof.
  intros H. apply vol_usage_ok in H as [vl' [G [Hu [Hv [Hm [Hk [Ht Hc]]]]]]].
  unfold set_slot in *. cbn in G, Hv, Hm, Hk, Ht, Hc.
  destruct (vget v (vols s)) as [vl|] eqn:G0.
  - rewrite (vget_vupd_same v _ (vols s) vl) in G; [|reflexivity|exact G0].
    injection G as <-. exists vl; repeat split; auto.
    rewrite Hv, vupd_vupd by reflexivity. apply vupd_ext; reflexivity.
  - rewrite vupd_none in G by exact G0. congruence.
Qed.

(* the generic preservation lemma for one slot write *)
Lemma inv_wr s v i x d vl old s' :
  inv s -> vget v (vols s) = Some vl -> sget i (vslots vl) = Some old ->
  d = occ1 x - occ1 old ->
  (forall r, gcnt r (vols s) - is_root r old + is_root r x <= 1) ->
  vols s' = vupd v (wr i x d) (vols s) ->
  mets s' = set_mPhys (mets s) (mPhys (mets s) + d) ->
  temps s' = temps s -> cons s' = cons s -> inv s'.
Proof.
  intros I G S Hd Hinj Hv Hm Ht Hc. destruct I as [I1 I2 I3 I4 I5 I6 I7 I8].
  constructor; rewrite ?Hv, ?Hm, ?Ht, ?Hc; cbn; auto.
  - now rewrite vupd_vids.
  - apply Forall_vupd; [exact I2|]. intros y Gy [O1 [O2 O3]].
    rewrite G in Gy; injection Gy as <-.
    unfold vol_ok, wr; cbn. rewrite sset_keys, sset_length. repeat split; auto.
    rewrite (wsum_sset occ1 i x _ old S). lia.
  - intros r. unfold gcnt. rewrite (gsum_vupd _ v _ _ vl G). cbn.
    rewrite (wsum_sset (is_root r) i x _ old S). specialize (Hinj r). unfold gcnt in Hinj. lia.
  - rewrite (gsum_vupd _ v _ _ vl G); cbn. lia.
  - rewrite (gsum_vupd _ v _ _ vl G); cbn. lia.
Qed.

(* no slot holds r: writing r somewhere keeps injectivity *)
Lemma inj_place s r : inv s -> vfind r (vols s) = None ->
  forall r', gcnt r' (vols s) - is_root r' None + is_root r' (Some r) <= 1.
Proof.
  intros I F r'. cbn. destruct (r' =? r)%N eqn:E.
  - apply N.eqb_eq in E; subst. pose proof (vfind_none _ _ F) as H. unfold gcnt; lia.
  - pose proof (inv_inj s I r'); lia.
Qed.

Lemma inj_clear s old : inv s ->
  forall r', gcnt r' (vols s) - is_root r' old + is_root r' None <= 1.
Proof.
  intros I r'. cbn. pose proof (inv_inj s I r'). pose proof (is_root_nonneg r' old). lia.
Qed.

(* where vfind points there is the sector *)
Lemma vfind_slot s r v j : inv s -> vfind r (vols s) = Some (v, j) ->
  exists vl, vget v (vols s) = Some vl /\ sget j (vslots vl) = Some (Some r).
Proof.
  intros I F. apply vfind_some in F as [vl [Hin [Hv Hs]]].
  exists vl; split.
  - rewrite <- Hv. apply in_vget; [apply (inv_vids s I)|exact Hin].
  - apply in_sget; [|exact Hs]. apply keys_nodup.
    pose proof (inv_vol s I) as HF. rewrite Forall_forall in HF. apply (HF vl Hin).
Qed.

Lemma inv_with_known s k : inv s -> inv (with_known s k).
Proof. intros [? ? ? ? ? ? ? ?]; constructor; auto. Qed.

Lemma inv_add_known s r : inv s -> inv (add_known r s).
Proof. intros I; unfold add_known; destruct (mem r (known s)); [exact I|now apply inv_with_known]. Qed.

Lemma add_known_vols r s : vols (add_known r s) = vols s.
Proof. unfold add_known; destruct (mem r (known s)); reflexivity. Qed.
Lemma add_known_mets r s : mets (add_known r s) = mets s.
Proof. unfold add_known; destruct (mem r (known s)); reflexivity. Qed.
Lemma add_known_temps r s : temps (add_known r s) = temps s.
Proof. unfold add_known; destruct (mem r (known s)); reflexivity. Qed.
Lemma add_known_cons r s : cons (add_known r s) = cons s.
Proof. unfold add_known; destruct (mem r (known s)); reflexivity. Qed.

Lemma valid_free_slot s v i : valid_free s v i = true ->
  exists vl, vget v (vols s) = Some vl /\ writable vl = true /\ sget i (vslots vl) = Some None.
Proof.
  unfold valid_free. destruct (vget v (vols s)) as [vl|]; [|discriminate].
  destruct (writable vl) eqn:W; [|discriminate]. cbn.
  destruct (sget i (vslots vl)) as [[r|]|] eqn:S; try discriminate. intros _; exists vl; auto.
Qed.

(** * Per-operation preservation *)
Lemma reserve_placed r loc s s1 v i :
  inv s -> reserve r loc s = RPlaced s1 v i ->
  inv s1 /\ vfind r (vols s) = None /\ loc = Some (v, i) /\ valid_free s v i = true /\
  exists vl, vget v (vols s) = Some vl /\ sget i (vslots vl) = Some None /\
             vols s1 = vupd v (wr i (Some r) 1) (vols s).
Proof.
  intros I. unfold reserve.
  destruct (vfind r (vols s)) as [[v0 j0]|] eqn:F; [destruct loc; discriminate|].
  destruct (has_free s); cbn [negb]; [|destruct loc; discriminate].
  destruct loc as [[v' i']|]; [|discriminate].
  destruct (valid_free s v' i') eqn:V; cbn [negb]; [|discriminate].
  destruct (vol_usage v' 1 (set_slot v' i' (Some r) (add_known r s))) as [s1'| |] eqn:U; try discriminate.
  intros [= <- <- <-].
  pose proof V as V'. apply valid_free_slot in V' as [vl [G [_ S]]].
  pose proof (inv_add_known s r I) as Ia.
  apply usage_set_slot in U as [vl' [G' [_ [Hv [Hm [_ [Ht Hc]]]]]]].
  rewrite add_known_vols in G'. rewrite G in G'; injection G' as <-.
  split; [|split; [reflexivity|split; [reflexivity|split; [exact V|]]]].
  - eapply (inv_wr (add_known r s) v' i' (Some r) 1 vl None s1'); eauto.
    + now rewrite add_known_vols.
    + rewrite add_known_vols. apply inj_place; auto.
  - exists vl; split; [exact G|split; [exact S|]]. now rewrite add_known_vols in Hv.
Qed.

Lemma slots_of_sget v i s x : sget i (slots_of v s) = Some x ->
  exists vl, vget v (vols s) = Some vl /\ sget i (vslots vl) = Some x.
Proof.
  unfold slots_of. destruct (vget v (vols s)) as [vl|]; [eauto|discriminate].
Qed.

Lemma inv_rollback r v i s1 : inv s1 -> inv (fst (rollback r v i s1)).
Proof.
  intros I. unfold rollback.
  destruct (sget i (slots_of v s1)) as [[r'|]|] eqn:S; try exact I.
  destruct (r' =? r)%N eqn:E; [|exact I]. apply N.eqb_eq in E; subst r'.
  apply slots_of_sget in S as [vl [G S]].
  destruct (vol_usage v (-1) (set_slot v i None s1)) as [s2| |] eqn:U; cbn; try exact I.
  apply usage_set_slot in U as [vl2 [G2 [_ [Hv2 [Hm2 [_ [Ht2 Hc2]]]]]]].
  rewrite G in G2; injection G2 as <-.
  eapply (inv_wr s1 v i None (-1) vl (Some r) s2); eauto. apply inj_clear; auto.
Qed.

Lemma inv_store r loc ok s : inv s -> inv (fst (store r loc ok s)).
Proof.
  intros I. unfold store. destruct (reserve r loc s) as [| |s1 v i|o|] eqn:R; cbn; auto.
  - now apply inv_add_known.
  - destruct (reserve_placed r loc s s1 v i I R) as [I1 _].
    destruct ok; cbn; [exact I1|now apply inv_rollback].
Qed.

Lemma fin_inv s r : inv s -> (forall s', r = Ok s' -> inv s') -> inv (fst (fin s r)).
Proof. intros I H; destruct r; cbn; auto. Qed.

Lemma inv_remove_sector r s s' : inv s -> remove_sector r s = Ok s' -> inv s'.
Proof.
  intros I. unfold remove_sector.
  destruct (mem r (known s)); cbn; [|discriminate].
  destruct (vfind r (vols s)) as [[v j]|] eqn:F; [|discriminate].
  destruct (vol_usage v (-1) (set_slot v j None s)) as [s1| |] eqn:U; cbn; try discriminate.
  destruct (stat_inc (mLost (mets s1)) 1) as [lo| |] eqn:L; cbn; try discriminate.
  intros [= <-]. apply stat_inc_ok in L; subst lo.
  apply usage_set_slot in U as [vl [G [_ [Hv [Hm [_ [Ht Hc]]]]]]].
  destruct (vfind_slot s r v j I F) as [vl' [G' S]]. rewrite G in G'; injection G' as <-.
  assert (I1 : inv s1).
  { eapply (inv_wr s v j None (-1) vl (Some r) s1); eauto. apply inj_clear; auto. }
  destruct I1 as [? ? ? ? ? ? ? ?]; constructor; cbn; auto; lia.
Qed.

Lemma inv_store_removed r loc s : inv s -> inv (fst (store_removed r loc s)).
Proof.
  intros I. unfold store_removed. destruct (reserve r loc s) as [| |s1 v i|o|] eqn:R; cbn; auto.
  destruct (reserve_placed r loc s s1 v i I R) as [I1 _].
  destruct (remove_sector r s1) as [s2| |] eqn:M; cbn; auto.
  apply inv_rollback. eapply inv_remove_sector; eauto.
Qed.

Lemma inv_prune_one v i s s' : inv s -> prune_one v i s = Ok s' -> inv s'.
Proof.
  intros I. unfold prune_one, slots_of.
  destruct (vget v (vols s)) as [vl|] eqn:G; cbn; [|now intros [= <-]].
  destruct (sget i (vslots vl)) as [[r|]|] eqn:S; try (now intros [= <-]).
  destruct (refd s r); [now intros [= <-]|].
  intros U. apply usage_set_slot in U as [vl' [G' [_ [Hv [Hm [_ [Ht Hc]]]]]]].
  rewrite G in G'; injection G' as <-.
  eapply (inv_wr s v i None (-1) vl (Some r) s'); eauto. apply inj_clear; auto.
Qed.

(* volume flag changes *)
Lemma inv_set_flag v f s :
  (forall x, vid (f x) = vid x) -> (forall x, vtotal (f x) = vtotal x) ->
  (forall x, vused (f x) = vused x) -> (forall x, vslots (f x) = vslots x) ->
  inv s -> inv (set_flag v f s).
Proof.
  intros F1 F2 F3 F4 [I1 I2 I3 I4 I5 I6 I7 I8]. unfold set_flag.
  constructor; cbn; auto.
  - now rewrite vupd_vids.
  - apply Forall_vupd; auto. intros x _ [O1 [O2 O3]]. unfold vol_ok. rewrite F2, F3, F4; auto.
  - intros r. unfold gcnt. destruct (vget v (vols s)) as [vl|] eqn:G.
    + rewrite (gsum_vupd _ v f _ vl G). rewrite F4. specialize (I3 r); unfold gcnt in I3; lia.
    + rewrite vupd_none; auto. apply (I3 r).
  - destruct (vget v (vols s)) as [vl|] eqn:G.
    + rewrite (gsum_vupd _ v f _ vl G), F2; lia.
    + rewrite vupd_none; auto.
  - destruct (vget v (vols s)) as [vl|] eqn:G.
    + rewrite (gsum_vupd _ v f _ vl G), F3; lia.
    + rewrite vupd_none; auto.
Qed.

Lemma inv_add_vol v ro s s' : inv s -> add_vol v ro s = Some s' -> inv s'.
Proof.
  intros [I1 I2 I3 I4 I5 I6 I7 I8]. unfold add_vol.
  destruct (vget v (vols s)) eqn:G; [discriminate|]. intros [= <-].
  constructor; cbn; auto.
  - apply vins_nodup; auto. cbn. now apply vget_none_notin.
  - apply Forall_forall. intros x Hx. apply vins_in in Hx as [->|Hx].
    + unfold vol_ok; cbn. repeat split; auto.
    + rewrite Forall_forall in I2; auto.
  - intros r. unfold gcnt. rewrite gsum_vins. cbn. specialize (I3 r); unfold gcnt in I3; lia.
  - rewrite gsum_vins; cbn; lia.
  - rewrite gsum_vins; cbn; lia.
Qed.

Lemma inv_grow v n s s' : inv s -> grow v n s = Ok s' -> inv s'.
Proof.
  intros I. unfold grow. destruct (n =? 0)%N; [discriminate|].
  destruct (vget v (vols s)) as [vl|] eqn:G; [|discriminate].
  destruct (Z.of_N n <=? vtotal vl) eqn:E1; [now intros [= <-]|].
  destruct (vtotal vl <? 0) eqn:E2; [discriminate|].
  set (from := Z.to_N (vtotal vl)). set (new := nseq from (N.to_nat (n - from))).
  destruct (existsb (fun i => is_some (sget i (vslots vl))) new) eqn:E3; [discriminate|].
  destruct (stat_inc (mTotal (mets s)) (Z.of_N n - vtotal vl)) as [t| |] eqn:S; cbn; try discriminate.
  intros [= <-]. apply stat_inc_ok in S; subst t.
  destruct I as [I1 I2 I3 I4 I5 I6 I7 I8]. constructor; cbn; auto.
  - now rewrite vupd_vids.
  - apply Forall_vupd; auto. intros x Gx [O1 [O2 O3]]. rewrite G in Gx; injection Gx as <-.
    unfold vol_ok; cbn. repeat split.
    + rewrite map_app, map_map, app_length, map_length. cbn [fst]. rewrite map_id, O1.
      unfold new at 2. rewrite nseq_length, nseq_app. f_equal. unfold new. f_equal. cbn. unfold from. lia.
    + rewrite app_length, map_length. unfold new. rewrite nseq_length. unfold from. lia.
    + rewrite wsum_app, wsum_new. cbn. lia.
  - intros r. unfold gcnt. rewrite (gsum_vupd _ v _ _ vl G). cbn.
    rewrite wsum_app, wsum_new. cbn. specialize (I3 r); unfold gcnt in I3; lia.
  - rewrite (gsum_vupd _ v _ _ vl G). cbn. lia.
  - rewrite (gsum_vupd _ v _ _ vl G). cbn. lia.
Qed.

Lemma existsb_false {A} (p : A -> bool) l : existsb p l = false -> forall x, In x l -> p x = false.
Proof.
  induction l as [|a t IH]; cbn; [tauto|]. intros H x [<-|Hx];
    apply Bool.orb_false_iff in H as [H1 H2]; auto.
Qed.

Lemma filter_length_le {A} (p : A -> bool) l : (length (filter p l) <= length l)%nat.
Proof. induction l as [|a t IH]; cbn; [lia|destruct (p a); cbn; lia]. Qed.

Lemma inv_shrink v n s s' : inv s -> shrink v n s = Ok s' -> inv s'.
Proof.
  intros I. unfold shrink. destruct (n =? 0)%N; [discriminate|].
  destruct (vget v (vols s)) as [vl|] eqn:G.
  2:{ destruct (existsb _ []); discriminate. }
  destruct (existsb (fun x => (n <=? fst x)%N && is_some (snd x)) (vslots vl)) eqn:E0; [discriminate|].
  destruct (vtotal vl <? Z.of_N n) eqn:E1; [discriminate|].
  destruct (stat_inc (mTotal (mets s)) (Z.of_N n - vtotal vl)) as [t| |] eqn:S; cbn; try discriminate.
  intros [= <-]. apply stat_inc_ok in S; subst t.
  assert (Hnone : forall x, In x (vslots vl) -> (fst x <? n)%N = false -> snd x = None).
  { intros x Hx Hlt. pose proof (existsb_false _ _ E0 x Hx) as E.
    apply Bool.andb_false_iff in E as [E|E]; [lia|]. destruct (snd x); [discriminate|reflexivity]. }
  destruct I as [I1 I2 I3 I4 I5 I6 I7 I8]. constructor; cbn; auto.
  - now rewrite vupd_vids.
  - apply Forall_vupd; auto. intros x Gx [O1 [O2 O3]]. rewrite G in Gx; injection Gx as <-.
    unfold vol_ok; cbn. repeat split.
    + rewrite <- (map_length fst (filter _ _)).
      rewrite (filter_keys_below n (vslots vl) 0%N); [|exact O1|lia|lia].
      now rewrite nseq_length.
    + rewrite <- (map_length fst (filter _ _)).
      rewrite (filter_keys_below n (vslots vl) 0%N); [|exact O1|lia|lia].
      rewrite nseq_length. lia.
    + rewrite wsum_filter_keep; auto.
  - intros r. unfold gcnt. rewrite (gsum_vupd _ v _ _ vl G). cbn.
    rewrite wsum_filter_keep; auto. specialize (I3 r); unfold gcnt in I3; lia.
  - rewrite (gsum_vupd _ v _ _ vl G). cbn. lia.
  - rewrite (gsum_vupd _ v _ _ vl G). cbn. lia.
Qed.

Lemma inv_remove_vol v force s s' : inv s -> remove_vol v force s = Ok s' -> inv s'.
Proof.
  intros I. unfold remove_vol.
  destruct (vget v (vols s)) as [vl|] eqn:G; [|discriminate].
  destruct (negb force && negb (wsum occ1 (vslots vl) =? 0)); [discriminate|].
  destruct (stat_inc (mPhys (mets s)) (- wsum occ1 (vslots vl))) as [p| |] eqn:S1; cbn [bind]; try discriminate.
  destruct (stat_inc (mLost (mets s)) (wsum occ1 (vslots vl))) as [lo| |] eqn:S2; cbn [bind]; try discriminate.
  destruct (stat_inc (mTotal (mets s)) (- Z.of_nat (length (vslots vl)))) as [t| |] eqn:S3; cbn [bind]; try discriminate.
  intros [= <-]. apply stat_inc_ok in S1, S2, S3; subst p lo t.
  destruct I as [I1 I2 I3 I4 I5 I6 I7 I8].
  assert (Hok : vol_ok vl).
  { rewrite Forall_forall in I2; apply I2. now apply (vget_in v (vols s) vl). }
  destruct Hok as [O1 [O2 O3]].
  pose proof (wsum_nonneg occ1 (vslots vl) occ1_nonneg) as Hnn.
  constructor; cbn; auto.
  - now apply vdel_nodup.
  - now apply Forall_vdel.
  - intros r. unfold gcnt. rewrite (gsum_vdel _ v _ vl G).
    pose proof (wsum_nonneg (is_root r) (vslots vl) (is_root_nonneg r)).
    specialize (I3 r); unfold gcnt in I3; lia.
  - rewrite (gsum_vdel _ v _ vl G). lia.
  - rewrite (gsum_vdel _ v _ vl G). lia.
  - lia.
Qed.

(** * Migration *)
Lemma set_slot_vols v i x s :
  vols (set_slot v i x s) = vupd v (fun vl => set_slots vl (sset i x (vslots vl))) (vols s).
Proof. reflexivity. Qed.

Lemma next_occ_in from l best j r :
  next_occ from l best = Some (j, r) -> best = Some (j, r) \/ In (j, Some r) l.
Proof.
  revert best; induction l as [|[k [r'|]] t IH]; intros best; cbn.
  - auto.
  - destruct (from <=? k)%N.
    + intros H. apply IH in H as [H|H]; [|auto].
      destruct best as [[b rb]|].
      * destruct (k <? b)%N; [injection H as <- <-; right; now left|auto].
      * injection H as <- <-; right; now left.
    + intros H. apply IH in H as [H|H]; auto.
  - intros H. apply IH in H as [H|H]; auto.
Qed.

Lemma mig_valid_slot s v start to : mig_valid_target s v start to = true ->
  exists tl, vget (fst to) (vols s) = Some tl /\ sget (snd to) (vslots tl) = Some None.
Proof.
  unfold mig_valid_target. destruct (has_free s).
  - intros V. apply valid_free_slot in V as [tl [G [_ S]]]. eauto.
  - destruct (negb (start =? 0)%N); [|discriminate]. cbn.
    destruct (fst to =? v)%N eqn:E; [|discriminate]. apply N.eqb_eq in E. rewrite E. cbn.
    destruct (snd to <? start)%N; [|discriminate]. cbn.
    destruct (vget v (vols s)) as [tl|]; [|discriminate].
    destruct (sget (snd to) (vslots tl)) as [[r|]|] eqn:S; try discriminate. eauto.
Qed.

Lemma set_used_id vl a b : set_used (set_used vl a) b = set_used vl b.
Proof. reflexivity. Qed.

(* the swap of a migration keeps the invariant *)
Lemma inv_mig_move v idx r to s s' vl tl :
  inv s -> vget v (vols s) = Some vl -> sget idx (vslots vl) = Some (Some r) ->
  vget (fst to) (vols s) = Some tl -> sget (snd to) (vslots tl) = Some None ->
  mig_move v idx r to s = Ok s' -> inv s'.
Proof.
  intros I G S Gt St. destruct to as [tv ti]. cbn [fst snd] in *. unfold mig_move. cbn [fst snd].
  (* first clear the source (as a write with usage -1), then fill the target (usage +1) *)
  set (sa := with_mets (with_vols s (vupd v (wr idx None (-1)) (vols s)))
                       (set_mPhys (mets s) (mPhys (mets s) + -1))).
  assert (Ia : inv sa).
  { eapply (inv_wr s v idx None (-1) vl (Some r) sa); eauto. apply inj_clear; auto. }
  assert (Gta : exists tl', vget tv (vols sa) = Some tl' /\ sget ti (vslots tl') = Some None).
  { cbn. destruct (N.eq_dec v tv) as [->|Hne].
    - rewrite G in Gt; injection Gt as <-.
      rewrite (vget_vupd_same tv _ (vols s) vl); [|reflexivity|exact G].
      eexists; split; [reflexivity|]. cbn. rewrite sget_sset_other; auto.
      intros ->. congruence.
    - rewrite vget_vupd_other; [|reflexivity|exact Hne]. eauto. }
  destruct Gta as [tl' [Gt' St']].
  set (sb := with_mets (with_vols sa (vupd tv (wr ti (Some r) 1) (vols sa)))
                       (set_mPhys (mets sa) (mPhys (mets sa) + 1))).
  assert (Ib : inv sb).
  { eapply (inv_wr sa tv ti (Some r) 1 tl' None sb); eauto.
    intros r'. cbn [is_root]. destruct (r' =? r)%N eqn:E.
    - apply N.eqb_eq in E; subst r'.
      unfold sa; cbn [vols with_mets with_vols]. unfold gcnt. rewrite (gsum_vupd _ v _ _ vl G). cbn.
      rewrite (wsum_sset (is_root r) idx None _ (Some r) S). cbn. rewrite N.eqb_refl.
      pose proof (inv_inj s I r) as H; unfold gcnt in H. lia.
    - pose proof (inv_inj sa Ia r'). lia. }
  (* the model's final state has the same volumes, metrics, references *)
  assert (Hsame : forall s2, vols s2 = vols sb -> mPhys (mets s2) = mPhys (mets sb) ->
            mTotal (mets s2) = mTotal (mets sb) -> mLost (mets s2) = mLost (mets sb) ->
            mContract (mets s2) = mContract (mets sb) -> mTemp (mets s2) = mTemp (mets sb) ->
            temps s2 = temps sb -> cons s2 = cons sb -> inv s2).
  { intros s2 E1 E2 E3 E4 E5 E6 E7 E8. destruct Ib as [? ? ? ? ? ? ? ?].
    constructor; rewrite ?E1, ?E2, ?E3, ?E4, ?E5, ?E6, ?E7, ?E8; auto. }
  destruct (v =? tv)%N eqn:Ev.
  - apply N.eqb_eq in Ev; subst tv. intros [= <-].
    apply Hsame; try reflexivity.
    + rewrite !set_slot_vols. unfold sb, sa. cbn [vols with_mets with_vols].
      rewrite !vupd_vupd by reflexivity. apply vupd_ext. intros x. unfold wr; cbn.
      destruct x; unfold set_used, set_slots; cbn. f_equal. lia.
    + unfold sb, sa, set_slot; cbn. lia.
  - apply N.eqb_neq in Ev.
    destruct (vol_usage v (-1) (set_slot tv ti (Some r) (set_slot v idx None s))) as [s2| |] eqn:U1; cbn [bind]; try discriminate.
    intros U2.
    apply vol_usage_ok in U1 as [x1 [_ [_ [Hv1 [Hm1 [_ [Ht1 Hc1]]]]]]].
    apply vol_usage_ok in U2 as [x2 [_ [_ [Hv2 [Hm2 [_ [Ht2 Hc2]]]]]]].
    apply Hsame.
    + rewrite Hv2, Hv1, !set_slot_vols. unfold sb, sa. cbn [vols with_mets with_vols].
      rewrite (vupd_comm v tv) by (auto; reflexivity).
      rewrite !vupd_vupd by reflexivity. reflexivity.
    + rewrite Hm2, Hm1. unfold sb, sa, set_slot; cbn. lia.
    + rewrite Hm2, Hm1. reflexivity.
    + rewrite Hm2, Hm1. reflexivity.
    + rewrite Hm2, Hm1. reflexivity.
    + rewrite Hm2, Hm1. reflexivity.
    + rewrite Ht2, Ht1. reflexivity.
    + rewrite Hc2, Hc1. reflexivity.
Qed.

(* where a migrated sector ends up *)
Lemma mig_move_vols v idx r to s s' :
  mig_move v idx r to s = Ok s' ->
  vols s' = vupd (fst to) (wr (snd to) (Some r) 1) (vupd v (wr idx None (-1)) (vols s)) /\
  cons s' = cons s /\ temps s' = temps s /\ known s' = known s.
Proof.
  destruct to as [tv ti]. unfold mig_move. cbn [fst snd].
  destruct (v =? tv)%N eqn:Ev.
  - apply N.eqb_eq in Ev; subst tv. intros [= <-]. repeat split; try reflexivity.
    rewrite !set_slot_vols. rewrite !vupd_vupd by reflexivity. apply vupd_ext. intros x. unfold wr; cbn.
    destruct x; unfold set_used, set_slots; cbn. f_equal. lia.
  - apply N.eqb_neq in Ev.
    destruct (vol_usage v (-1) (set_slot tv ti (Some r) (set_slot v idx None s))) as [s2| |] eqn:U1; cbn [bind]; try discriminate.
    intros U2.
    apply vol_usage_ok in U1 as [x1 [_ [_ [Hv1 [Hm1 [Hk1 [Ht1 Hc1]]]]]]].
    apply vol_usage_ok in U2 as [x2 [_ [_ [Hv2 [Hm2 [Hk2 [Ht2 Hc2]]]]]]].
    repeat split.
    + rewrite Hv2, Hv1, !set_slot_vols.
      rewrite (vupd_comm v tv) by (auto; reflexivity).
      rewrite !vupd_vupd by reflexivity. reflexivity.
    + rewrite Hc2, Hc1. reflexivity.
    + rewrite Ht2, Ht1. reflexivity.
    + rewrite Hk2, Hk1. reflexivity.
Qed.

Lemma slots_of_get v s j r : inv s -> In (j, Some r) (slots_of v s) ->
  exists vl, vget v (vols s) = Some vl /\ sget j (vslots vl) = Some (Some r).
Proof.
  intros I. unfold slots_of. destruct (vget v (vols s)) as [vl|] eqn:G; [|cbn; tauto].
  intros Hin. exists vl; split; auto. apply in_sget; auto. apply keys_nodup.
  pose proof (inv_vol s I) as HF. rewrite Forall_forall in HF. apply HF. now apply (vget_in v _ vl).
Qed.

Lemma inv_migrate fuel : forall v start index calls mig fail s,
  inv s -> inv (fst (migrate fuel v start index calls mig fail s)).
Proof.
  induction fuel as [|f IH]; intros v start index calls mig fail s I; cbn [migrate]; [exact I|].
  destruct (next_occ index (slots_of v s) None) as [[idx r]|] eqn:Nx.
  2:{ destruct calls; exact I. }
  destruct (mig_has_target s v start); cbn [negb].
  2:{ destruct calls; exact I. }
  destruct calls as [|[[fidx to] ok] rest]; [exact I|].
  destruct ((fidx =? idx)%N && mig_valid_target s v start to) eqn:V; cbn [negb]; [|exact I].
  apply Bool.andb_true_iff in V as [_ V].
  destruct ok; [|apply IH; exact I].
  destruct (mig_move v idx r to s) as [s1| |] eqn:M; try exact I.
  apply IH.
  apply next_occ_in in Nx as [Nx|Nx]; [discriminate|].
  destruct (slots_of_get v s idx r I Nx) as [vl [G S]].
  destruct (mig_valid_slot s v start to V) as [tl [Gt St]].
  exact (inv_mig_move v idx r to s s1 vl tl I G S Gt St M).
Qed.

Lemma inv_migrate_one v start idx to ok s s' : inv s -> migrate_one v start idx to ok s = Ok s' -> inv s'.
Proof.
  intros I. unfold migrate_one.
  destruct (sget idx (slots_of v s)) as [[r|]|] eqn:S; try (now intros [= <-]).
  destruct (mig_valid_target s v start to && ok) eqn:V; [|now intros [= <-]].
  apply Bool.andb_true_iff in V as [V _]. intros M.
  apply sget_in in S. destruct (slots_of_get v s idx r I S) as [vl [G S']].
  destruct (mig_valid_slot s v start to V) as [tl [Gt St]].
  exact (inv_mig_move v idx r to s s' vl tl I G S' Gt St M).
Qed.

(** * Temporary storage *)
Lemma inv_refs s s' :
  inv s -> vols s' = vols s ->
  mTotal (mets s') = mTotal (mets s) -> mPhys (mets s') = mPhys (mets s) -> mLost (mets s') = mLost (mets s) ->
  mContract (mets s') = csum (cons s') -> mTemp (mets s') = Z.of_nat (length (temps s')) -> inv s'.
Proof.
  intros [I1 I2 I3 I4 I5 I6 I7 I8] E1 E2 E3 E4 E5 E6.
  constructor; rewrite ?E1, ?E2, ?E3, ?E4; auto.
Qed.

Lemma inv_add_temps l s s' : inv s -> add_temps l s = Ok s' -> inv s'.
Proof.
  intros I. unfold add_temps. destruct (negb _); [discriminate|].
  destruct (stat_inc _ _) as [m| |] eqn:S; cbn [bind]; try discriminate. intros [= <-].
  apply stat_inc_ok in S; subst m. apply (inv_refs s); cbn; auto.
  - apply (inv_contract s I).
  - rewrite app_length, (inv_temp s I). lia.
Qed.

Lemma inv_add_temp1 r e s s' : inv s -> add_temp1 r e s = Ok s' -> inv s'.
Proof.
  intros I. unfold add_temp1. destruct (negb _); [discriminate|].
  destruct (stat_inc _ _) as [m| |] eqn:S; cbn [bind]; try discriminate. intros [= <-].
  apply stat_inc_ok in S; subst m. apply (inv_refs s); cbn; auto.
  - apply (inv_contract s I).
  - rewrite app_length, (inv_temp s I). cbn. lia.
Qed.

Lemma inv_expire_temp h s s' : inv s -> expire_temp h s = Ok s' -> inv s'.
Proof.
  intros I. unfold expire_temp.
  destruct (stat_inc _ _) as [m| |] eqn:S; cbn [bind]; try discriminate. intros [= <-].
  apply stat_inc_ok in S; subst m. apply (inv_refs s); cbn; auto.
  - apply (inv_contract s I).
  - rewrite (inv_temp s I). lia.
Qed.

Lemma del_nth_t_length i l : (i < length l)%nat -> length (del_nth_t i l) = (length l - 1)%nat.
Proof.
  revert i; induction l as [|a t IH]; intros i; cbn; [lia|].
  destruct i; cbn; [lia|]. intros H. rewrite IH; lia.
Qed.

Lemma del_nth_length i l : (i < length l)%nat -> length (del_nth i l) = (length l - 1)%nat.
Proof.
  revert i; induction l as [|a t IH]; intros i; cbn; [lia|].
  destruct i; cbn; [lia|]. intros H. rewrite IH; lia.
Qed.

Lemma inv_drop_temp pos h s s' : inv s -> drop_temp pos h s = Ok s' -> inv s'.
Proof.
  intros I. unfold drop_temp.
  destruct (nth_error (temps s) (N.to_nat pos)) as [t|] eqn:E; [|now intros [= <-]].
  destruct (temp_live h t); [now intros [= <-]|].
  destruct (stat_inc _ _) as [m| |] eqn:S; cbn [bind]; try discriminate. intros [= <-].
  apply stat_inc_ok in S; subst m. apply (inv_refs s); cbn; auto.
  - apply (inv_contract s I).
  - assert (H : (N.to_nat pos < length (temps s))%nat) by (apply nth_error_Some; congruence).
    rewrite del_nth_t_length, (inv_temp s I) by exact H. lia.
Qed.

(** * Contracts *)
Lemma inv_add_contract c v2 e n s s' : inv s -> add_contract c v2 e n s = Ok s' -> inv s'.
Proof.
  intros I. unfold add_contract. destruct (cget c v2 (cons s)); [discriminate|]. intros [= <-].
  apply (inv_refs s); cbn; auto.
  - rewrite csum_app, (inv_contract s I). unfold csum; cbn. lia.
  - apply (inv_temp s I).
Qed.

Lemma inv_reject h s : inv s -> inv (reject h s).
Proof.
  intros I. apply (inv_refs s); cbn; auto.
  - rewrite csum_map_rej, (inv_contract s I); [reflexivity|].
    intros c; destruct (cneg c <? h)%N; reflexivity.
  - apply (inv_temp s I).
Qed.

Lemma set_nth_length i x l : length (set_nth i x l) = length l.
Proof. revert i; induction l as [|a t IH]; intros i; destruct i; cbn; auto. Qed.

Lemma apply_changes_len kn chs : forall roots m roots' m',
  apply_changes kn roots m chs = Ok (roots', m') ->
  m' = m + Z.of_nat (length roots') - Z.of_nat (length roots).
Proof.
  induction chs as [|ch t IH]; intros roots m roots' m'; cbn [apply_changes].
  - intros [= <- <-]; lia.
  - destruct ch as [r|n|r i|i j].
    + destruct (negb (mem r kn)); [discriminate|].
      destruct (stat_inc m 1) as [m1| |] eqn:S; cbn [bind]; try discriminate.
      apply stat_inc_ok in S; subst m1. intros H. apply IH in H. rewrite app_length in H. cbn in H. lia.
    + destruct (len roots <? n)%N eqn:E; [discriminate|].
      destruct (stat_inc m (- Z.of_N n)) as [m1| |] eqn:S; cbn [bind]; try discriminate.
      apply stat_inc_ok in S; subst m1. intros H. apply IH in H. rewrite firstn_length in H.
      unfold len in E. lia.
    + destruct (len roots <=? i)%N; [discriminate|]. destruct (negb (mem r kn)); [discriminate|].
      intros H. apply IH in H. rewrite set_nth_length in H. lia.
    + destruct (N.min i j =? N.max i j)%N.
      * destruct (len roots <=? N.min i j)%N; [discriminate|]. apply IH.
      * destruct (len roots <=? N.max i j)%N; [discriminate|].
        intros H. apply IH in H. rewrite !set_nth_length in H. lia.
Qed.

Lemma inv_revise_v1 c chs s s' : inv s -> revise_v1 c chs s = Ok s' -> inv s'.
Proof.
  intros I. unfold revise_v1. destruct (cget c false (cons s)) as [ct|] eqn:G; [|discriminate].
  destruct (apply_changes _ _ _ _) as [[roots m]| |] eqn:A; cbn [bind]; try discriminate. intros [= <-].
  apply apply_changes_len in A. apply (inv_refs s); cbn; auto.
  - rewrite (csum_cupd c false _ _ ct G). cbn. rewrite (inv_contract s I) in A. lia.
  - apply (inv_temp s I).
Qed.

Lemma inv_revise_v2 c new s s' : inv s -> revise_v2 c new s = Ok s' -> inv s'.
Proof.
  intros I. unfold revise_v2. destruct (cget c true (cons s)) as [ct|] eqn:G; [|discriminate].
  destruct (negb _); [discriminate|].
  destruct (stat_inc _ _) as [m| |] eqn:S; cbn [bind]; try discriminate. intros [= <-].
  apply stat_inc_ok in S; subst m. apply (inv_refs s); cbn; auto.
  - rewrite (csum_cupd c true _ _ ct G). cbn. rewrite (inv_contract s I). lia.
  - apply (inv_temp s I).
Qed.

Lemma inv_renew old new v2 e n s s' : inv s -> renew old new v2 e n s = Ok s' -> inv s'.
Proof.
  intros I. unfold renew. destruct (cget new v2 (cons s)); [discriminate|].
  destruct (cget old v2 (cons s)) as [oc|] eqn:G; [|discriminate]. intros [= <-].
  apply (inv_refs s); cbn; auto.
  - rewrite csum_app, (csum_cupd old v2 _ _ oc G). cbn. rewrite (inv_contract s I). unfold csum; cbn. lia.
  - apply (inv_temp s I).
Qed.

Lemma inv_expire_cons v2 h s s' : inv s -> expire_cons v2 h s = Ok s' -> inv s'.
Proof.
  intros I. unfold expire_cons.
  destruct (stat_inc _ _) as [m| |] eqn:S; cbn [bind]; try discriminate. intros [= <-].
  apply stat_inc_ok in S; subst m. apply (inv_refs s); cbn; auto.
  - rewrite (inv_contract s I). lia.
  - apply (inv_temp s I).
Qed.

Lemma inv_drop_root c v2 pos h s s' : inv s -> drop_root c v2 pos h s = Ok s' -> inv s'.
Proof.
  intros I. unfold drop_root. destruct (cget c v2 (cons s)) as [ct|] eqn:G; [|now intros [= <-]].
  destruct (exp_sel v2 h ct && (pos <? len (croots ct))%N) eqn:E; [|now intros [= <-]].
  apply Bool.andb_true_iff in E as [_ E]. unfold len in E.
  destruct (stat_inc _ _) as [m| |] eqn:S; cbn [bind]; try discriminate. intros [= <-].
  apply stat_inc_ok in S; subst m. apply (inv_refs s); cbn; auto.
  - rewrite (csum_cupd c v2 _ _ ct G). cbn. rewrite del_nth_length by lia. rewrite (inv_contract s I). lia.
  - apply (inv_temp s I).
Qed.

(** * Prune *)
Lemma prune_vols_ok f l l' n :
  prune_vols f l = Ok (l', n) ->
  map vid l' = map vid l /\ (Forall vol_ok l -> Forall vol_ok l') /\
  gsum vused l' = gsum vused l - n /\ gsum vtotal l' = gsum vtotal l /\ 0 <= n /\
  forall r, gcnt r l' <= gcnt r l.
Proof.
  revert l' n; induction l as [|vl t IH]; intros l' n; cbn [prune_vols].
  - intros [= <- <-]. cbn. repeat split; auto; lia.
  - destruct (vused vl - wsum (prunable f) (vslots vl) <? 0); [discriminate|].
    destruct (prune_vols f t) as [[t' n']| |] eqn:P; cbn [bind]; try discriminate.
    intros [= <- <-]. destruct (IH t' n' eq_refl) as [H1 [H2 [H3 [H4 [H5 H6]]]]].
    pose proof (wsum_nonneg (prunable f) (vslots vl) (prunable_nonneg f)).
    cbn. repeat split; try lia.
    + now rewrite H1.
    + intros HF; inversion HF as [|? ? [O1 [O2 O3]] HF']; subst. constructor; auto.
      unfold vol_ok; cbn. rewrite pslots_keys, pslots_occ.
      unfold pslots at 1 2. rewrite !map_length. repeat split; auto. lia.
    + intros r. unfold gcnt in *. cbn. specialize (H6 r).
      pose proof (pslots_le (is_root r) f (vslots vl) (is_root_nonneg r) eq_refl). lia.
Qed.

Lemma inv_prune_with f s s' : inv s -> prune_with f s = Ok s' -> inv s'.
Proof.
  intros I. unfold prune_with.
  destruct (prune_vols f (vols s)) as [[vs n]| |] eqn:P; cbn [bind]; try discriminate.
  destruct (stat_inc _ _) as [p| |] eqn:S; cbn [bind]; try discriminate. intros [= <-].
  apply stat_inc_ok in S; subst p.
  destruct (prune_vols_ok _ _ _ _ P) as [H1 [H2 [H3 [H4 [H5 H6]]]]].
  destruct I as [I1 I2 I3 I4 I5 I6 I7 I8]. constructor; cbn; auto.
  - now rewrite H1.
  - intros r. specialize (H6 r). specialize (I3 r). unfold gcnt in *. lia.
  - lia.
  - lia.
Qed.

Lemma inv_prune all s s' : inv s -> prune all s = Ok s' -> inv s'.
Proof.
  intros I. unfold prune. destruct all; cbn [negb]; [|now intros [= <-]]. now apply inv_prune_with.
Qed.

(** * Every step preserves the invariant *)
Theorem inv_step s o : inv s -> inv (fst (step s o)).
Proof.
  intros I. destruct o; cbn [step].
  - destruct (add_vol v ro s) eqn:E; cbn; [eapply inv_add_vol; eauto|exact I].
  - apply fin_inv; auto. intros; eapply inv_grow; eauto.
  - apply fin_inv; auto. intros; eapply inv_shrink; eauto.
  - apply fin_inv; auto. intros; eapply inv_remove_vol; eauto.
  - cbn. apply inv_set_flag; auto.
  - cbn. apply inv_set_flag; auto.
  - now apply inv_store.
  - now apply inv_store_removed.
  - now apply inv_migrate.
  - apply fin_inv; auto. intros; eapply inv_remove_sector; eauto.
  - exact I.
  - exact I.
  - exact I.
  - apply fin_inv; auto. intros; eapply inv_add_temps; eauto.
  - apply fin_inv; auto. intros; eapply inv_add_temp1; eauto.
  - apply fin_inv; auto. intros; eapply inv_expire_temp; eauto.
  - apply fin_inv; auto. intros; eapply inv_add_contract; eauto.
  - cbn. now apply inv_reject.
  - apply fin_inv; auto. intros; eapply inv_revise_v1; eauto.
  - apply fin_inv; auto. intros; eapply inv_revise_v2; eauto.
  - apply fin_inv; auto. intros; eapply inv_renew; eauto.
  - apply fin_inv; auto. intros; eapply inv_expire_cons; eauto.
  - apply fin_inv; auto. intros; eapply inv_expire_cons; eauto.
  - apply fin_inv; auto. intros; eapply inv_prune; eauto.
  - exact I.
  - apply fin_inv; auto. intros; eapply inv_drop_root; eauto.
  - apply fin_inv; auto. intros; eapply inv_drop_temp; eauto.
  - apply fin_inv; auto. intros; eapply inv_prune_one; eauto.
  - apply fin_inv; auto. intros; eapply inv_migrate_one; eauto.
Qed.

Theorem inv_runs l : forall s, inv s -> inv (runs s l).
Proof.
  induction l as [|o t IH]; intros s I; [exact I|]. cbn. apply IH. now apply inv_step.
Qed.
