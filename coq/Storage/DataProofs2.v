(* Storage/DataProofs2.v — the C02 statements derived from the data invariant *)
From Coq Require Import Lia ZifyBool ZifyN ZifyNat.
From HostdBase Require Import Base.
From HostdStorage Require Import Model Lemmas Proofs Proofs2 DataModel DataLemmas DataProofs.

Arguments stat_inc : simpl never.
Arguments vol_usage : simpl never.
Arguments set_slot : simpl never.
Arguments csum : simpl never.

(** * What ReadSector returns (absent an I/O error) *)
Definition read_result (d : dstate) (r : N) : option N :=
  match cget r (cache d) with
  | Some c => Some c
  | None => match locate r (md d) with Some (v, i) => Some (content d v i) | None => None end
  end.

Lemma dread_result d r :
  snd (dstep d (DRead r false)) =
  match read_result d r with
  | Some c => ORead (is_some (cget r (cache d))) c
  | None => OReadErr
  end.
Proof.
  cbn [dstep]. unfold dread, read_result. destruct (cget r (cache d)); cbn; [reflexivity|].
  destruct (locate r (md d)) as [[v i]|]; reflexivity.
Qed.

(* a referenced sector (that was not explicitly deleted) reads back the bytes that hash to its root *)
Lemma referenced_readableE XE d r : dinvE XE d -> refd (md d) r = true -> ~ XE r -> read_result d r = Some r.
Proof.
  intros I H HE. destruct (d_refs d I r H HE) as [[v [i [S [C D]]]] NF].
  unfold read_result. destruct (cget r (cache d)) as [c|] eqn:Hc.
  - f_equal. apply (d_cache d I r c Hc); [|exact NF]. exists v, i; auto.
  - unfold locate. rewrite (d_known d I r v i S).
    apply (vfind_iff (md d) r v i (d_inv d I)) in S. rewrite S. now rewrite C.
Qed.

Lemma referenced_readable d r : dinv d -> refd (md d) r = true -> read_result d r = Some r.
Proof. intros I H. apply (referenced_readableE _ d r I H). tauto. Qed.

(* ... and still does if the process dies right now *)
Lemma referenced_readable_after_crashE XE d r :
  dinvE XE d -> refd (md d) r = true -> ~ XE r -> read_result (dcrash d) r = Some r.
Proof. intros I H HE. apply (referenced_readableE XE); [now apply dinv_crash|exact H|exact HE]. Qed.

Lemma referenced_readable_after_crash d r :
  dinv d -> refd (md d) r = true -> read_result (dcrash d) r = Some r.
Proof. intros I H. apply (referenced_readable_after_crashE _ d r I H). tauto. Qed.

Theorem readable_runs size l r :
  steps_ok (dinit size) l ->
  refd (md (druns (dinit size) l)) r = true ->
  read_result (druns (dinit size) l) r = Some r /\
  read_result (dcrash (druns (dinit size) l)) r = Some r.
Proof.
  intros OK H. pose proof (dinv_runs (fun _ => False) l (dinit size) (dinv_init _ size) OK) as I.
  split; [now apply referenced_readable|now apply referenced_readable_after_crash].
Qed.

(** * Lost sectors are counted *)
Lemma dmigrate_lost fuel : forall v start index calls mig fail d,
  mLost (mets (md (fst (dmigrate fuel v start index calls mig fail d)))) = mLost (mets (md d)).
Proof.
  induction fuel as [|f IH]; intros; cbn [dmigrate]; [reflexivity|].
  repeat brk; cbn [fst]; try reflexivity; try (rewrite IH; reflexivity).
  rewrite IH. cbn. eapply mig_move_lost; eauto.
Qed.

Definition dloss_op (o : dop) : bool :=
  match o with DRemoveSector _ | DRemoveT _ _ => true | _ => false end.

Lemma dlost_unchanged d o : dloss_op o = false ->
  mLost (mets (md (fst (dstep d o)))) = mLost (mets (md d)).
Proof.
  destruct o; cbn [dloss_op]; try discriminate; intros _; cbn [dstep]; try reflexivity.
  - destruct (meta_op o) eqn:M; [|reflexivity].
    destruct (step (md d) o) as [m b] eqn:St. cbn [fst md with_md].
    replace m with (fst (step (md d) o)) by now rewrite St.
    apply lost_unchanged. destruct o; try discriminate; reflexivity.
  - unfold dreserve. repeat brk; cbn [fst]; rewrite ?touch_md; cbn [md with_md with_thr]; try reflexivity.
    + now rewrite add_known_mets.
    + eapply reserve_lost; eauto.
  - unfold dwrite. repeat brk; cbn [fst md with_md with_thr with_files with_cache with_changed]; try reflexivity.
    match goal with H : rollback ?r ?v ?i ?s = (?m, _) |- _ =>
      pose proof (rollback_lost r v i s) as HL; rewrite H in HL; exact HL end.
  - unfold dsync. cbn. now rewrite fold_sync_md.
  - unfold dsync_begin. repeat brk; reflexivity.
  - unfold dfsync. repeat brk; reflexivity.
  - unfold dclear. repeat brk; reflexivity.
  - unfold dsync_end. repeat brk; reflexivity.
  - unfold dread. repeat brk; cbn [fst]; rewrite ?touch_md; reflexivity.
  - apply dmigrate_lost.
  - unfold dshrink, shrink, stat_inc, bind. repeat brk; try reflexivity.
    all: match goal with H : Ok _ = Ok _ |- _ => injection H as <- end; reflexivity.
  - unfold dprune, dres, prune_with, stat_inc, bind. repeat brk; try reflexivity.
    all: match goal with H : Ok _ = Ok _ |- _ => injection H as <- end; reflexivity.
  - destruct (thr d); reflexivity.
Qed.

Lemma dlost_exact d o : dinv d -> dloss_op o = true ->
  (mLost (mets (md (fst (dstep d o)))) - mLost (mets (md d)) =
   occ_total (md d) - occ_total (md (fst (dstep d o))))%Z.
Proof.
  intros I L. destruct o; try discriminate; cbn [dstep].
  - pose proof (lost_exact (md d) (RemoveVol v force) (d_inv d I) eq_refl) as H. cbn [step] in H.
    unfold dremove. destruct (remove_vol v force (md d)); cbn [fst fin md with_md with_files] in *; exact H.
  - pose proof (lost_exact (md d) (RemoveSector r) (d_inv d I) eq_refl) as H. cbn [step] in H.
    unfold dremove_sector. destruct (locate r (md d)) as [[v i]|]; cbn [fst]; [|lia].
    destruct (remove_sector r (md d)); cbn [fst fin] in *; rewrite ?touch_md; cbn [md with_md with_files with_cache sync_vol] in *; exact H.
Qed.

(** * The RPC handlers' discipline, and why it is not enough
   A handler references a sector only after Write returned nil for it and a Sync completed
   afterwards.  [disciplined] checks a recorded run against exactly that. *)
Record hst := { h_thr : list (N * N); h_acked : list N; h_synced : list N }.

Definition op_roots (o : op) : list N :=
  match o with
  | AddTemp l => map fst l
  | AddTemp1 r _ => [r]
  | ReviseV1 _ chs => flat_map (fun c => match c with CAppend r => [r] | CUpdate r _ => [r] | _ => [] end) chs
  | ReviseV2 _ new => new
  | _ => []
  end.

Definition hstep (h : hst) (x : dop * dobs) : option hst :=
  match x with
  | (DReserve t r _, OAck) => Some {| h_thr := h_thr h; h_acked := r :: h_acked h; h_synced := h_synced h |}
  | (DReserve t r _, OPlaced) => Some {| h_thr := (t, r) :: h_thr h; h_acked := h_acked h; h_synced := h_synced h |}
  | (DWrite t true, OM (ORes (Ok tt))) =>
      match alookup t (h_thr h) with
      | Some r => Some {| h_thr := aremove t (h_thr h); h_acked := r :: h_acked h; h_synced := h_synced h |}
      | None => Some h
      end
  | (DWrite t _, _) => Some {| h_thr := aremove t (h_thr h); h_acked := h_acked h; h_synced := h_synced h |}
  | (DSync, _) => Some {| h_thr := h_thr h; h_acked := []; h_synced := h_acked h ++ h_synced h |}
  | (DCrash, _) | (DRestart, _) => Some {| h_thr := []; h_acked := []; h_synced := [] |}
  | (DMeta o, _) => if forallb (fun r => mem r (h_synced h)) (op_roots o) then Some h else None
  | _ => Some h
  end.

Fixpoint disciplined_from (h : hst) (tr : list (dop * dobs)) : bool :=
  match tr with
  | [] => true
  | x :: t => match hstep h x with Some h' => disciplined_from h' t | None => false end
  end.
Definition disciplined := disciplined_from {| h_thr := []; h_acked := []; h_synced := [] |}.

Fixpoint dtrace (d : dstate) (l : list dop) : list (dop * dobs) :=
  match l with
  | [] => []
  | o :: t => let '(d', b) := dstep d o in (o, b) :: dtrace d' t
  end.

Definition calm (o : dop) : bool :=   (* neither a crash nor one of the permitted losses *)
  match o with DCrash | DRemoveSector _ | DRemoveT _ true => false | _ => true end.
Definition no_loss (o : dop) : bool :=
  match o with DRemoveSector _ | DRemoveT _ true => false | _ => true end.

(* B: a second uploader is told "exists" while the first writer holds the slot; the first fails *)
Definition witness_no_crash : list dop :=
  [DMeta (AddVol 1 false); DMeta (SetAvail 1 true); DMeta (Grow 1 4);
   DReserve 1 7 (Some (1, 0)); DReserve 2 7 None; DSync; DMeta (AddTemp [(7, 100)]);
   DWrite 1 false]%N.

(* A: the process dies between slot commit and data write; the re-upload is told "exists" *)
Definition witness_crash : list dop :=
  [DMeta (AddVol 1 false); DMeta (SetAvail 1 true); DMeta (Grow 1 4);
   DReserve 1 7 (Some (1, 0)); DCrash; DMeta (SetAvail 1 true);
   DReserve 2 7 None; DSync; DMeta (AddTemp [(7, 100)])]%N.

Lemma readable_refuted_no_crash :
  exists size l r,
    forallb calm l = true /\ disciplined (dtrace (dinit size) l) = true /\
    refd (md (druns (dinit size) l)) r = true /\ read_result (druns (dinit size) l) r <> Some r.
Proof.
  exists 2%N, witness_no_crash, 7%N. vm_compute. repeat split; try reflexivity. discriminate.
Qed.

Lemma readable_refuted_crash :
  exists size l r,
    forallb no_loss l = true /\ disciplined (dtrace (dinit size) l) = true /\
    refd (md (druns (dinit size) l)) r = true /\ read_result (druns (dinit size) l) r <> Some r.
Proof.
  exists 2%N, witness_crash, 7%N. vm_compute. repeat split; try reflexivity. discriminate.
Qed.

(** * The metadata invariant holds for every step (also the lossy ones) *)
Lemma md_inv_migrate fuel : forall v start index calls mig fail d,
  inv (md d) -> inv (md (fst (dmigrate fuel v start index calls mig fail d))).
Proof.
  induction fuel as [|f IH]; intros v start index calls mig fail d I; cbn [dmigrate]; [exact I|].
  destruct (next_occ index (slots_of v (md d)) None) as [[idx r]|] eqn:Nx.
  2:{ destruct calls; exact I. }
  destruct (mig_has_target (md d) v start); cbn [negb].
  2:{ destruct calls; exact I. }
  destruct calls as [|[[fidx to] code] rest]; [exact I|].
  destruct ((fidx =? idx)%N && mig_valid_target (md d) v start to) eqn:V; cbn [negb]; [|exact I].
  apply Bool.andb_true_iff in V as [_ V].
  destruct (code =? 1)%N; [apply IH; exact I|].
  destruct (code =? 4)%N; [destruct (in_flight r (thr d)); [apply IH; exact I|exact I]|].
  destruct (code =? 2)%N.
  { destruct (content d v idx =? r)%N; [exact I|]. apply IH; exact I. }
  destruct (content d v idx =? r)%N; cbn [negb]; [|exact I].
  destruct (code =? 3)%N; [apply IH; exact I|].
  destruct (code =? 0)%N; cbn [negb]; [|exact I].
  cbn [md with_cache].
  destruct (mig_move v idx r to (md d)) as [m| |] eqn:M; try exact I.
  apply IH. cbn [md with_md].
  apply next_occ_in in Nx as [Nx|Nx]; [discriminate|].
  destruct (slots_of_get v (md d) idx r I Nx) as [vl [G S]].
  destruct (mig_valid_slot (md d) v start to V) as [tl [Gt St]].
  exact (inv_mig_move v idx r to (md d) m vl tl I G S Gt St M).
Qed.

Lemma md_inv_step d o : inv (md d) -> inv (md (fst (dstep d o))).
Proof.
  intros I. destruct o; cbn [dstep]; try exact I.
  - destruct (meta_op o); [|exact I]. destruct (step (md d) o) as [m b] eqn:St. cbn [fst md with_md].
    replace m with (fst (step (md d) o)) by now rewrite St. now apply inv_step.
  - unfold dreserve. destruct (alookup t (thr d)); [exact I|].
    destruct (reserve r loc (md d)) as [| |s1 v i|o|] eqn:R; cbn [fst]; rewrite ?touch_md; cbn [md with_md with_thr]; try exact I.
    + now apply inv_add_known.
    + apply (reserve_placed r loc (md d) s1 v i I R).
  - unfold dwrite. destruct (alookup t (thr d)) as [[[r v] i]|]; [|exact I].
    destruct (ok && _); cbn [fst md with_md with_thr with_files with_cache with_changed]; [exact I|].
    pose proof (inv_rollback r v i (md d) I) as H. destruct (rollback r v i (md d)); exact H.
  - unfold dsync. cbn. now rewrite fold_sync_md.
  - unfold dsync_begin. repeat brk; exact I.
  - unfold dfsync. repeat brk; exact I.
  - unfold dclear. repeat brk; exact I.
  - unfold dsync_end. repeat brk; exact I.
  - unfold dread. repeat brk; cbn [fst]; rewrite ?touch_md; exact I.
  - now apply md_inv_migrate.
  - unfold dshrink. destruct (shrink v n (md d)) eqn:S; cbn; try exact I. eapply inv_shrink; eauto.
  - unfold dremove. destruct (remove_vol v force (md d)) eqn:S; cbn; try exact I. eapply inv_remove_vol; eauto.
  - unfold dremove_sector. destruct (locate r (md d)) as [[v i]|]; [|exact I].
    destruct (remove_sector r (md d)) eqn:S; cbn [fst]; rewrite ?touch_md; cbn; try exact I. eapply inv_remove_sector; eauto.
  - unfold dprune, dres. destruct (prune_with _ (md d)) eqn:P; cbn; try exact I. eapply inv_prune_with; eauto.
  - destruct (thr d); exact I.
Qed.

Lemma md_inv_runs l : forall d, inv (md d) -> inv (md (druns d l)).
Proof. induction l as [|o t IH]; intros d I; [exact I|]. cbn. apply IH. now apply md_inv_step. Qed.

Lemma dlost_exact_runs size l o : dloss_op o = true ->
  let d := druns (dinit size) l in
  (mLost (mets (md (fst (dstep d o)))) - mLost (mets (md d)) =
   occ_total (md d) - occ_total (md (fst (dstep d o))))%Z.
Proof.
  intros L d. pose proof (md_inv_runs l (dinit size) inv_init) as I. fold d in I.
  destruct o; try discriminate; cbn [dstep].
  - pose proof (lost_exact (md d) (RemoveVol v force) I eq_refl) as H. cbn [step] in H.
    unfold dremove. destruct (remove_vol v force (md d)); cbn [fst fin md with_md with_files] in *; exact H.
  - pose proof (lost_exact (md d) (RemoveSector r) I eq_refl) as H. cbn [step] in H.
    unfold dremove_sector. destruct (locate r (md d)) as [[v i]|]; cbn [fst]; [|lia].
    destruct (remove_sector r (md d)); cbn [fst fin] in *; rewrite ?touch_md; cbn [md with_md with_files with_cache sync_vol] in *; exact H.
Qed.

(** * Non-vacuity: a run that satisfies the hypotheses, commits references, migrates, crashes *)
Definition demo : list dop :=
  [DMeta (AddVol 1 false); DMeta (SetAvail 1 true); DMeta (Grow 1 2);
   DReserve 1 7 (Some (1, 1)); DWrite 1 true; DSync; DMeta (AddTemp [(7, 100)]);
   DMeta (AddVol 2 false); DMeta (SetAvail 2 true); DMeta (Grow 2 2);
   DMeta (SetRO 1 true); DMigrate 1 1 [(1, (2, 0), 0)]; DShrinkT 1 1; DCrash; DRead 7 false]%N.

Lemma demo_ok : steps_ok (dinit 1) demo.
Proof.
  unfold demo. cbn [steps_ok]. repeat split.
  all: try (intros t r j to H; vm_compute in H; discriminate).
  all: try (intros r H; vm_compute in H; discriminate).
  all: try (vm_compute; discriminate).
  all: try reflexivity.
  all: try (intros r H; left; vm_compute in H |- *; exact H).
  (* the reference to sector 7 is committed when it is durably written *)
  intros r H. right. vm_compute in H.
  assert (r = 7%N).
  { destruct (7 =? r)%N eqn:E; [now apply N.eqb_eq in E|]. vm_compute in H.
    destruct r; try discriminate. destruct p; try discriminate; destruct p; try discriminate; destruct p; discriminate. }
  subst r. split; [|reflexivity]. exists 1%N, 1%N. vm_compute. auto.
Qed.

Lemma demo_nonvacuous :
  steps_ok (dinit 1) demo /\ refd (md (druns (dinit 1) demo)) 7 = true /\
  slot_at (md (druns (dinit 1) demo)) 2 0 = Some (Some 7%N) /\
  read_result (druns (dinit 1) demo) 7 = Some 7%N.
Proof. split; [exact demo_ok|]. vm_compute. auto. Qed.

(** * Clause (b) of the former [step_ok] is gone: a run it excluded
   upload, prune of the unreferenced copy, re-upload into the very slot that still holds the
   sector's bytes (the DReserve finds [content = r]), data write, Sync, reference, crash. *)
Definition demo_stale : list dop :=
  [DMeta (AddVol 1 false); DMeta (SetAvail 1 true); DMeta (Grow 1 2);
   DReserve 1 7 (Some (1, 1)); DWrite 1 true; DSync; DAge; DPrune;
   DReserve 2 7 (Some (1, 1)); DRead 7 false; DWrite 2 true; DSync; DMeta (AddTemp [(7, 100)]);
   DCrash; DRead 7 false]%N.

Lemma demo_stale_ok : steps_ok (dinit 1) demo_stale.
Proof.
  unfold demo_stale. cbn [steps_ok]. repeat split.
  all: try (intros r H; vm_compute in H; discriminate).
  intros r H. right. vm_compute in H.
  assert (r = 7%N).
  { destruct (7 =? r)%N eqn:E; [now apply N.eqb_eq in E|]. vm_compute in H.
    destruct r; try discriminate. destruct p; try discriminate; destruct p; try discriminate; destruct p; discriminate. }
  subst r. split; [|reflexivity]. exists 1%N, 1%N. vm_compute. auto.
Qed.

Lemma demo_stale_nonvacuous :
  steps_ok (dinit 1) demo_stale /\
  (* the slot handed to the second upload already holds the sector's bytes *)
  (let d := druns (dinit 1) (firstn 8 demo_stale) in
   slot_at (md d) 1 1 = Some None /\ content d 1 1 = 7%N) /\
  refd (md (druns (dinit 1) demo_stale)) 7 = true /\
  read_result (druns (dinit 1) demo_stale) 7 = Some 7%N.
Proof. split; [exact demo_stale_ok|]. vm_compute. auto. Qed.

(** * Clause (m) cannot be dropped: a migration that moves a sector whose upload is in flight
   The upload of 7 was handed the slot (1,1) that still holds 7's bytes (stale copy of a pruned
   upload); a shrink's migration reads the slot, finds the right root and moves the sector to
   (1,0); the shrink is not completed, the vacated slot (1,1) goes to sector 8 — written, synced,
   referenced; then the first writer, still holding location (1,1), writes. *)
Definition step_ok_but_m (d : dstate) (o : dop) : Prop :=
  match o with DMigrate _ _ _ => True | _ => step_ok d o end.
Fixpoint steps_ok_but_m (d : dstate) (l : list dop) : Prop :=
  match l with [] => True | o :: t => step_ok_but_m d o /\ steps_ok_but_m (fst (dstep d o)) t end.

Definition witness_migrate_in_flight : list dop :=
  [DMeta (AddVol 1 false); DMeta (SetAvail 1 true); DMeta (Grow 1 2);
   DReserve 1 7 (Some (1, 1)); DWrite 1 true; DSync; DAge; DPrune;
   DReserve 2 7 (Some (1, 1));
   DMeta (SetRO 1 true); DMigrate 1 1 [(1, (1, 0), 0)]; DMeta (SetRO 1 false);
   DReserve 3 8 (Some (1, 1)); DWrite 3 true; DSync; DMeta (AddTemp [(8, 100)]);
   DWrite 2 true]%N.

Lemma migrate_in_flight_refuted :
  exists size l q,
    forallb calm l = true /\ disciplined (dtrace (dinit size) l) = true /\
    steps_ok_but_m (dinit size) l /\
    refd (md (druns (dinit size) l)) q = true /\ read_result (druns (dinit size) l) q <> Some q.
Proof.
  exists 0%N, witness_migrate_in_flight, 8%N.
  split; [reflexivity|]. split; [vm_compute; reflexivity|]. split.
  - unfold witness_migrate_in_flight. cbn [steps_ok_but_m step_ok_but_m]. repeat split.
    all: try (intros r H; vm_compute in H; discriminate).
    intros r H. right. vm_compute in H.
    assert (r = 8%N).
    { destruct (8 =? r)%N eqn:E; [now apply N.eqb_eq in E|]. vm_compute in H.
      destruct r as [|p]; try discriminate. repeat (destruct p as [p|p|]; try discriminate). }
    subst r. split; [|reflexivity]. exists 1%N, 1%N. vm_compute. auto.
  - vm_compute. split; [reflexivity|discriminate].
Qed.
