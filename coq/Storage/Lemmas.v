(* Storage/Lemmas.v — list/sum lemmas behind Proofs.v *)
From Coq Require Import Lia ZifyBool ZifyN ZifyNat.
From HostdBase Require Import Base.
From HostdStorage Require Import Model.

Local Open Scope Z_scope.

(** * slots *)
Lemma sset_keys i x l : map fst (sset i x l) = map fst l.
Proof.
  induction l as [|[j y] t IH]; cbn; [reflexivity|].
  destruct (i =? j)%N; cbn; [reflexivity|now rewrite IH].
Qed.

Lemma sset_length i x l : length (sset i x l) = length l.
Proof. rewrite <- (map_length fst), sset_keys, map_length; reflexivity. Qed.

Lemma sset_none i x l : sget i l = None -> sset i x l = l.
Proof.
  induction l as [|[j y] t IH]; cbn; [reflexivity|].
  destruct (i =? j)%N; [discriminate|]. intros H; now rewrite IH.
Qed.

Lemma wsum_sset f i x l old :
  sget i l = Some old -> wsum f (sset i x l) = wsum f l - f old + f x.
Proof.
  induction l as [|[j y] t IH]; cbn; [discriminate|].
  destruct (i =? j)%N; cbn.
  - intros [= ->]; lia.
  - intros H; rewrite (IH H); lia.
Qed.

Lemma sget_sset_same i x l old : sget i l = Some old -> sget i (sset i x l) = Some x.
Proof.
  induction l as [|[j y] t IH]; cbn; [discriminate|].
  destruct (i =? j)%N eqn:E; cbn; rewrite E; auto.
Qed.

Lemma sget_sset_other i k x l : i <> k -> sget k (sset i x l) = sget k l.
Proof.
  intros Hne; induction l as [|[j y] t IH]; cbn; [reflexivity|].
  destruct (i =? j)%N eqn:E; cbn.
  - apply N.eqb_eq in E; subst j.
    destruct (k =? i)%N eqn:E2; [apply N.eqb_eq in E2; congruence|reflexivity].
  - destruct (k =? j)%N; [reflexivity|exact IH].
Qed.

Lemma sget_in i x l : sget i l = Some x -> In (i, x) l.
Proof.
  induction l as [|[j y] t IH]; cbn; [discriminate|].
  destruct (i =? j)%N eqn:E.
  - apply N.eqb_eq in E; subst; intros [= ->]; now left.
  - intros H; right; auto.
Qed.

Lemma in_sget i x l : NoDup (map fst l) -> In (i, x) l -> sget i l = Some x.
Proof.
  induction l as [|[j y] t IH]; cbn; [tauto|].
  intros Hnd [H|H].
  - inversion H; subst; now rewrite N.eqb_refl.
  - inversion Hnd as [|? ? Hni Hnd']; subst.
    destruct (i =? j)%N eqn:E.
    + apply N.eqb_eq in E; subst j. exfalso; apply Hni.
      change i with (fst (i, x)); now apply in_map.
    + auto.
Qed.

Lemma wsum_app f a b : wsum f (a ++ b) = wsum f a + wsum f b.
Proof. induction a as [|[j y] t IH]; cbn; [reflexivity|rewrite IH; lia]. Qed.

Lemma wsum_new f (l : list N) : wsum f (map (fun i => (i, None)) l) = Z.of_nat (length l) * f None.
Proof. induction l as [|a t IH]; cbn [map wsum length]; [lia|rewrite IH; lia]. Qed.

Lemma wsum_nonneg f l : (forall x, 0 <= f x) -> 0 <= wsum f l.
Proof. intros H; induction l as [|[j y] t IH]; cbn; [lia|specialize (H y); lia]. Qed.

Lemma wsum_le f g l : (forall x, f x <= g x) -> wsum f l <= wsum g l.
Proof. intros H; induction l as [|[j y] t IH]; cbn; [lia|specialize (H y); lia]. Qed.

Lemma occ1_nonneg x : 0 <= occ1 x.
Proof. destruct x; cbn; lia. Qed.
Lemma is_root_nonneg r x : 0 <= is_root r x.
Proof. destruct x as [r'|]; cbn; [destruct (r =? r')%N|]; lia. Qed.
Lemma is_root_le_occ r x : is_root r x <= occ1 x.
Proof. destruct x as [r'|]; cbn; [destruct (r =? r')%N|]; lia. Qed.

Lemma sfind_none r l : sfind r l = None -> wsum (is_root r) l = 0.
Proof.
  induction l as [|[j [r'|]] t IH]; cbn; [reflexivity| |exact IH].
  destruct (r =? r')%N; [discriminate|]. intros H; rewrite (IH H); lia.
Qed.

Lemma sfind_in r l j : sfind r l = Some j -> In (j, Some r) l.
Proof.
  induction l as [|[k [r'|]] t IH]; cbn; [discriminate| |intros H; right; auto].
  destruct (r =? r')%N eqn:E.
  - apply N.eqb_eq in E; subst; intros [= ->]; now left.
  - intros H; right; auto.
Qed.

Lemma wsum_filter_keep f (p : N * option N -> bool) l :
  f None = 0 -> (forall x, In x l -> p x = false -> snd x = None) ->
  wsum f (filter p l) = wsum f l.
Proof.
  intros Hf; induction l as [|[j y] t IH]; cbn; [reflexivity|]. intros H.
  destruct (p (j, y)) eqn:E; cbn.
  - rewrite IH; [reflexivity|]. intros x Hx; apply H; now right.
  - rewrite IH; [|intros x Hx; apply H; now right].
    specialize (H (j, y) (or_introl eq_refl) E); cbn in H; subst y; lia.
Qed.

Lemma NoDup_filter_keys (p : N * option N -> bool) l :
  NoDup (map fst l) -> NoDup (map fst (filter p l)).
Proof.
  induction l as [|a t IH]; cbn; [auto|]. intros H; inversion H as [|? ? Hni Hnd]; subst.
  destruct (p a); cbn; auto. constructor; auto.
  intros Hin; apply Hni. apply in_map_iff in Hin as [x [Hx Hin]].
  apply filter_In in Hin as [Hin _]. rewrite <- Hx; now apply in_map.
Qed.

(* pruning slots *)
Lemma pslots_cons f j x t :
  pslots f ((j, x) :: t) =
  (j, match x with Some r => if f r then Some r else None | None => None end) :: pslots f t.
Proof. unfold pslots; cbn. destruct x as [r|]; [destruct (f r)|]; reflexivity. Qed.

Lemma pslots_keys f l : map fst (pslots f l) = map fst l.
Proof.
  induction l as [|[j x] t IH]; [reflexivity|]. rewrite pslots_cons; cbn; now rewrite IH.
Qed.

Lemma pslots_occ f l : wsum occ1 (pslots f l) = wsum occ1 l - wsum (prunable f) l.
Proof.
  induction l as [|[j x] t IH]; [reflexivity|]. rewrite pslots_cons; cbn [wsum]; rewrite IH.
  destruct x as [r|]; cbn [occ1 prunable]; [destruct (f r); cbn [occ1]|]; lia.
Qed.

Lemma pslots_le g f l : (forall x, 0 <= g x) -> g None = 0 -> wsum g (pslots f l) <= wsum g l.
Proof.
  intros Hg H0; induction l as [|[j x] t IH]; [cbn; lia|]. rewrite pslots_cons; cbn [wsum].
  destruct x as [r|]; [destruct (f r)|]; try lia. specialize (Hg (Some r)); lia.
Qed.

Lemma prunable_nonneg f x : 0 <= prunable f x.
Proof. destruct x as [r|]; cbn; [destruct (f r)|]; lia. Qed.
Lemma prunable_le_occ f x : prunable f x <= occ1 x.
Proof. destruct x as [r|]; cbn; [destruct (f r)|]; lia. Qed.

Lemma sget_pslots f i l :
  sget i (pslots f l) =
  match sget i l with
  | Some (Some r) => if f r then Some (Some r) else Some None
  | o => o
  end.
Proof.
  induction l as [|[j x] t IH]; [reflexivity|]. rewrite pslots_cons; cbn [sget].
  destruct (i =? j)%N; [|exact IH]. destruct x as [r|]; [destruct (f r)|]; reflexivity.
Qed.

(** * volumes *)
Fixpoint gsum (g : vol -> Z) (l : list vol) : Z := match l with [] => 0 | v :: t => g v + gsum g t end.

Lemma vget_in v l vl : vget v l = Some vl -> In vl l /\ vid vl = v.
Proof.
  induction l as [|x t IH]; cbn; [discriminate|].
  destruct (v =? vid x)%N eqn:E.
  - apply N.eqb_eq in E. intros [= ->]; split; [now left|auto].
  - intros H; destruct (IH H); split; [now right|auto].
Qed.

Lemma vget_none_notin v l : vget v l = None -> ~ In v (map vid l).
Proof.
  induction l as [|x t IH]; cbn; [tauto|].
  destruct (v =? vid x)%N eqn:E; [discriminate|]. apply N.eqb_neq in E.
  intros H [H1|H1]; [congruence|now apply IH].
Qed.

Lemma in_vget l vl : NoDup (map vid l) -> In vl l -> vget (vid vl) l = Some vl.
Proof.
  induction l as [|x t IH]; cbn; [tauto|]. intros Hnd [H|H].
  - subst; now rewrite N.eqb_refl.
  - inversion Hnd as [|? ? Hni Hnd']; subst.
    destruct (vid vl =? vid x)%N eqn:E; [|auto].
    apply N.eqb_eq in E. exfalso; apply Hni; rewrite <- E; now apply in_map.
Qed.

Lemma vupd_none v f l : vget v l = None -> vupd v f l = l.
Proof.
  induction l as [|x t IH]; cbn; [reflexivity|].
  destruct (v =? vid x)%N; [discriminate|]. intros H; now rewrite IH.
Qed.

Lemma gsum_vupd g v f l vl :
  vget v l = Some vl -> gsum g (vupd v f l) = gsum g l - g vl + g (f vl).
Proof.
  induction l as [|x t IH]; cbn; [discriminate|].
  destruct (v =? vid x)%N; cbn.
  - intros [= ->]; lia.
  - intros H; rewrite (IH H); lia.
Qed.

Lemma vupd_vids v f l : (forall x, vid (f x) = vid x) -> map vid (vupd v f l) = map vid l.
Proof.
  intros Hf; induction l as [|x t IH]; cbn; [reflexivity|].
  destruct (v =? vid x)%N; cbn; [now rewrite Hf|now rewrite IH].
Qed.

Lemma Forall_vupd (P : vol -> Prop) v f l :
  Forall P l -> (forall x, vget v l = Some x -> P x -> P (f x)) -> Forall P (vupd v f l).
Proof.
  induction l as [|x t IH]; cbn; [auto|]. intros HF Hf; inversion HF; subst.
  destruct (v =? vid x)%N; constructor; auto.
Qed.

Lemma vget_vupd_same v f l vl :
  (forall x, vid (f x) = vid x) -> vget v l = Some vl -> vget v (vupd v f l) = Some (f vl).
Proof.
  intros Hf; induction l as [|x t IH]; cbn; [discriminate|].
  destruct (v =? vid x)%N eqn:E; cbn.
  - intros [= ->]. now rewrite Hf, E.
  - rewrite E; auto.
Qed.

Lemma vget_vupd_other v k f l :
  (forall x, vid (f x) = vid x) -> v <> k -> vget k (vupd v f l) = vget k l.
Proof.
  intros Hf Hne; induction l as [|x t IH]; cbn; [reflexivity|].
  destruct (v =? vid x)%N eqn:E; cbn.
  - rewrite Hf. apply N.eqb_eq in E. destruct (k =? vid x)%N eqn:E2; [apply N.eqb_eq in E2; congruence|reflexivity].
  - destruct (k =? vid x)%N; auto.
Qed.

Lemma vupd_vupd v f g l :
  (forall x, vid (f x) = vid x) -> vupd v g (vupd v f l) = vupd v (fun x => g (f x)) l.
Proof.
  intros Hf; induction l as [|x t IH]; cbn; [reflexivity|].
  destruct (v =? vid x)%N eqn:E; cbn.
  - now rewrite Hf, E.
  - now rewrite E, IH.
Qed.

Lemma gsum_vdel g v l vl : vget v l = Some vl -> gsum g (vdel v l) = gsum g l - g vl.
Proof.
  induction l as [|x t IH]; cbn; [discriminate|].
  destruct (v =? vid x)%N; cbn.
  - intros [= ->]; lia.
  - intros H; rewrite (IH H); lia.
Qed.

Lemma vdel_incl v l x : In x (vdel v l) -> In x l.
Proof.
  induction l as [|y t IH]; cbn; [tauto|].
  destruct (v =? vid y)%N; cbn; [tauto|]. intros [H|H]; auto.
Qed.

Lemma vdel_nodup v l : NoDup (map vid l) -> NoDup (map vid (vdel v l)).
Proof.
  induction l as [|y t IH]; cbn; [auto|]. intros H; inversion H as [|? ? Hni Hnd]; subst.
  destruct (v =? vid y)%N; cbn; [auto|]. constructor; auto.
  intros Hin; apply Hni. apply in_map_iff in Hin as [x [Hx Hin]].
  rewrite <- Hx; apply in_map; eapply vdel_incl; eauto.
Qed.

Lemma Forall_vdel (P : vol -> Prop) v l : Forall P l -> Forall P (vdel v l).
Proof.
  intros H; apply Forall_forall; intros x Hx. rewrite Forall_forall in H.
  apply H; eapply vdel_incl; eauto.
Qed.

Lemma gsum_vins g n l : gsum g (vins n l) = g n + gsum g l.
Proof.
  induction l as [|x t IH]; cbn; [lia|].
  destruct (vid n <? vid x)%N; cbn; [lia|rewrite IH; lia].
Qed.

Lemma vins_in n l x : In x (vins n l) <-> x = n \/ In x l.
Proof.
  induction l as [|y t IH]; cbn; [intuition|].
  destruct (vid n <? vid y)%N; cbn; [intuition|]. rewrite IH; intuition.
Qed.

Lemma vins_nodup n l : ~ In (vid n) (map vid l) -> NoDup (map vid l) -> NoDup (map vid (vins n l)).
Proof.
  induction l as [|y t IH]; cbn; [intros; constructor; auto|].
  intros Hni H; inversion H as [|? ? Hni' Hnd]; subst.
  destruct (vid n <? vid y)%N; cbn.
  - constructor; [cbn; tauto|auto].
  - constructor; [|apply IH; tauto].
    intros Hin. apply in_map_iff in Hin as [x [Hx Hin]]. apply vins_in in Hin as [->|Hin].
    + apply Hni; left; auto.
    + apply Hni'; rewrite <- Hx; now apply in_map.
Qed.

Lemma vfind_none r l : vfind r l = None -> gsum (fun vl => wsum (is_root r) (vslots vl)) l = 0.
Proof.
  induction l as [|x t IH]; cbn; [reflexivity|].
  destruct (sfind r (vslots x)) eqn:E; [discriminate|].
  intros H; rewrite (sfind_none _ _ E), (IH H); lia.
Qed.

Lemma vfind_some r l v j :
  vfind r l = Some (v, j) -> exists vl, In vl l /\ vid vl = v /\ In (j, Some r) (vslots vl).
Proof.
  induction l as [|x t IH]; cbn; [discriminate|].
  destruct (sfind r (vslots x)) eqn:E.
  - intros [= <- <-]. exists x; split; [now left|split; [reflexivity|now apply sfind_in]].
  - intros H; destruct (IH H) as [vl [? ?]]; exists vl; split; [now right|auto].
Qed.

Lemma gsum_ext g h l : (forall x, In x l -> g x = h x) -> gsum g l = gsum h l.
Proof.
  induction l as [|x t IH]; cbn; [reflexivity|]. intros H.
  rewrite (H x (or_introl eq_refl)), IH; [reflexivity|]. intros; apply H; now right.
Qed.

Lemma gsum_nonneg g l : (forall x, 0 <= g x) -> 0 <= gsum g l.
Proof. intros H; induction l as [|x t IH]; cbn; [lia|specialize (H x); lia]. Qed.

Lemma gsum_in_le g l x : (forall y, 0 <= g y) -> In x l -> g x <= gsum g l.
Proof.
  intros Hg; induction l as [|y t IH]; cbn; [tauto|]. intros [->|H].
  - pose proof (gsum_nonneg g t Hg); lia.
  - specialize (IH H); specialize (Hg y); lia.
Qed.

(** * contracts *)
Lemma csum_app a b : csum (a ++ b) = csum a + csum b.
Proof. induction a as [|c t IH]; cbn; [reflexivity|unfold csum in *; cbn; rewrite IH; lia]. Qed.

Lemma csum_cupd k v2 f l c :
  cget k v2 l = Some c ->
  csum (cupd k v2 f l) = csum l - Z.of_nat (length (croots c)) + Z.of_nat (length (croots (f c))).
Proof.
  induction l as [|x t IH]; cbn; [discriminate|].
  destruct (ckey k v2 x); cbn.
  - intros [= ->]; unfold csum; cbn; lia.
  - intros H; unfold csum in *; cbn; rewrite (IH H); lia.
Qed.

Lemma csum_nonneg l : 0 <= csum l.
Proof. induction l as [|c t IH]; unfold csum in *; cbn; lia. Qed.

Lemma csum_map_rej f l : (forall c, croots (f c) = croots c) -> csum (map f l) = csum l.
Proof. intros H; induction l as [|c t IH]; unfold csum in *; cbn; [reflexivity|rewrite H, IH; reflexivity]. Qed.

Lemma stat_inc_ok cur d x : stat_inc cur d = Ok x -> x = cur + d.
Proof.
  unfold stat_inc. destruct (d =? 0) eqn:E; [intros [= <-]; lia|].
  destruct (cur + d <? 0); [discriminate|]. now intros [= <-].
Qed.
