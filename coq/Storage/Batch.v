(* Storage/Batch.v — the batched loops of the store, one committed transaction at a time (C08).

   Model.v treats Store.RemoveVolume, ExpireContractSectors, ExpireV2ContractSectors,
   ExpireTempSectors and PruneSectors as one atomic step each.  In the code every one of them is
   a loop of transactions with a pause between them:

     persist/sqlite/volumes.go   RemoveVolume: batchRemoveVolumeSectors (forceDeleteVolumeSectors /
                                 deleteVolumeSectors, LIMIT sqlSectorBatchSize) until a batch
                                 removes nothing, then the transaction that deletes the volume row
     persist/sqlite/contracts.go ExpireContractSectors / ExpireV2ContractSectors:
                                 batchExpire(V2)ContractSectors (deleteExpired(V2)ContractSectors,
                                 LIMIT sqlSectorBatchSize) until a batch deletes nothing
     persist/sqlite/sectors.go   ExpireTempSectors: batchExpireTempSectors (deleteTempSectors);
                                 PruneSectors: updatePruneableVolumeSectors + incrementVolumeUsage
                                 per volume, until a batch clears nothing
     persist/sqlite/volumes.go   MigrateSectors: one transaction per sector (that is [migrate] of
                                 Model.v already; [mig_iter] below spells it as an iteration)

   Here one committed BATCH is one operation; a crash, a database error or another Store call
   between two batches therefore falls between two steps of an operation sequence.  None of the
   SELECT ... LIMIT n has an ORDER BY, so which rows a batch takes is SQLite's choice: the choice is
   carried by the operation as observed on the implementation and validated ([OBad] when it is
   not "min(batch size, eligible rows) distinct eligible rows").  The batch size (256, 5 under
   the repository's `testing` tag) is a parameter [b] of every batch operation.

   [remove_run], [expire_run], [temp_run], [prune_run]: the full loops as iterations of their
   batches.  BatchProofs.v proves them equal to the atomic definitions of Model.v.  No proofs here. *)
From HostdBase Require Import Base.
From HostdStorage Require Import Model.

Fixpoint nodupb (l : list N) : bool :=
  match l with [] => true | x :: t => negb (mem x t) && nodupb t end.

Definition memp (p : N * N) (l : list (N * N)) : bool := existsb (loc_eqb p) l.

(** * RemoveVolume *)
(* DELETE FROM volume_sectors WHERE id IN (SELECT id ... WHERE volume_id=$1 [AND sector_id IS NULL] LIMIT $2) *)
Definition keep_slots (idxs : list N) (l : slots) : slots :=
  filter (fun x => negb (mem (fst x) idxs)) l.

Definition rm_choice_ok (b : N) (idxs : list N) (l : slots) : bool :=
  nodupb idxs && forallb (fun i => is_some (sget i l)) idxs &&
  (len idxs =? N.min b (N.of_nat (length l)))%N.

(* one batchRemoveVolumeSectors transaction.  Without force the batch first checks that no slot
   of the volume is occupied (ErrVolumeNotEmpty), then deletes up to b (empty) slots; with force
   it deletes up to b slots of any kind and counts the occupied ones as lost.  Then
   total_sectors -= removed, used_sectors -= lost, metric totalSectors -= removed. *)
Definition remove_batch (v : N) (force : bool) (b : N) (idxs : list N) (s : state) : state * obs :=
  match vget v (vols s) with
  | None => match idxs with [] => (s, ORes (Ok tt)) | _ => (s, OBad) end
  | Some vl =>
      let occ := wsum occ1 (vslots vl) in
      if negb force && negb (occ =? 0)%Z then
        match idxs with [] => (s, ORes (Err EInvalid)) | _ => (s, OBad) end
      else if negb (rm_choice_ok b idxs (vslots vl)) then (s, OBad)
      else
        let kept := keep_slots idxs (vslots vl) in
        let removed := Z.of_nat (length idxs) in
        let lost := (occ - wsum occ1 kept)%Z in
        fin s (do p <- stat_inc (mPhys (mets s)) (- lost) ;
               do lo <- stat_inc (mLost (mets s)) lost ;
               do t <- stat_inc (mTotal (mets s)) (- removed) ;
               Ok (with_mets
                     (with_vols s (vupd v (fun x => set_used (set_total (set_slots x kept) (vtotal x - removed)%Z)
                                                             (vused x - lost)%Z) (vols s)))
                     (set_mTotal (set_mLost (set_mPhys (mets s) p) lo) t)))
  end.

(* the last transaction of RemoveVolume: the volume must exist and have no slot left *)
Definition remove_final (v : N) (s : state) : res state :=
  match vget v (vols s) with
  | None => Err ENotFound
  | Some vl =>
      match vslots vl with
      | [] => Ok (with_vols s (vdel v (vols s)))
      | _ => Err EInvalid
      end
  end.

(* Store.RemoveVolume: batches until one removes nothing, then the final transaction; an error
   ends the call and leaves what the earlier batches committed.  [cs]: the choice of every batch. *)
Fixpoint remove_run (v : N) (force : bool) (b : N) (cs : list (list N)) (s : state) : state * obs :=
  match cs with
  | [] => (s, OBad)
  | c :: rest =>
      match remove_batch v force b c s with
      | (s1, ORes (Ok _)) =>
          match c with
          | [] => match rest with [] => fin s1 (remove_final v s1) | _ => (s1, OBad) end
          | _ => remove_run v force b rest s1
          end
      | (s1, o) => (s1, o)
      end
  end.

(* a removal cut after the batches [cs] (all of them committed) *)
Fixpoint remove_cut (v : N) (force : bool) (b : N) (cs : list (list N)) (s : state) : state * obs :=
  match cs with
  | [] => (s, ORes (Ok tt))
  | c :: rest =>
      match remove_batch v force b c s with
      | (s1, ORes (Ok _)) => remove_cut v force b rest s1
      | (s1, o) => (s1, o)
      end
  end.

(** * ExpireContractSectors / ExpireV2ContractSectors *)
(* remove the elements at the positions [ps] (positions counted from [i]) *)
Fixpoint del_at (ps : list N) (i : N) (l : list N) : list N :=
  match l with
  | [] => []
  | x :: t => if mem i ps then del_at ps (N.succ i) t else x :: del_at ps (N.succ i) t
  end.

(* a pick is (contract, position in its current root list) *)
Definition pos_of (c : N) (picks : list (N * N)) : list N :=
  map snd (filter (fun p => (fst p =? c)%N) picks).

Definition exp_batch_cons (v2 : bool) (h : N) (picks : list (N * N)) (l : list contract) : list contract :=
  map (fun c => if exp_sel v2 h c then set_roots c (del_at (pos_of (cid c) picks) 0 (croots c)) else c) l.

(* rows the selection of deleteExpired(V2)ContractSectors matches *)
Definition exp_eligible (v2 : bool) (h : N) (l : list contract) : Z := csum (filter (exp_sel v2 h) l).

(* one batchExpire(V2)ContractSectors transaction; the picks must be exactly min(b, eligible)
   distinct rows of selected contracts (picks that delete nothing make the counts differ) *)
Definition expire_batch (v2 : bool) (h b : N) (picks : list (N * N)) (s : state) : state * obs :=
  let l' := exp_batch_cons v2 h picks (cons s) in
  let k := (csum (cons s) - csum l')%Z in
  if (k =? Z.of_nat (length picks))%Z && (k =? Z.min (Z.of_N b) (exp_eligible v2 h (cons s)))%Z
  then fin s (do m <- stat_inc (mContract (mets s)) (- k) ;
              Ok (with_mets (with_cons s l') (set_mContract (mets s) m)))
  else (s, OBad).

Fixpoint expire_run (v2 : bool) (h b : N) (cs : list (list (N * N))) (s : state) : state * obs :=
  match cs with
  | [] => (s, OBad)
  | c :: rest =>
      match expire_batch v2 h b c s with
      | (s1, ORes (Ok _)) =>
          match c with
          | [] => match rest with [] => (s1, ORes (Ok tt)) | _ => (s1, OBad) end
          | _ => expire_run v2 h b rest s1
          end
      | (s1, o) => (s1, o)
      end
  end.

(** * ExpireTempSectors *)
Fixpoint del_temps (h : N) (ps : list N) (i : N) (l : list (N * N)) : list (N * N) :=
  match l with
  | [] => []
  | t :: r => if mem i ps && negb (temp_live h t) then del_temps h ps (N.succ i) r
              else t :: del_temps h ps (N.succ i) r
  end.

Definition temp_eligible (h : N) (l : list (N * N)) : Z :=
  (Z.of_nat (length l) - Z.of_nat (length (filter (temp_live h) l)))%Z.

(* one batchExpireTempSectors transaction; picks are positions in the list of temp entries *)
Definition temp_batch (h b : N) (picks : list N) (s : state) : state * obs :=
  let l' := del_temps h picks 0 (temps s) in
  let k := (Z.of_nat (length (temps s)) - Z.of_nat (length l'))%Z in
  if (k =? Z.of_nat (length picks))%Z && (k =? Z.min (Z.of_N b) (temp_eligible h (temps s)))%Z
  then fin s (do m <- stat_inc (mTemp (mets s)) (- k) ;
              Ok (with_mets (with_temps s l') (set_mTemp (mets s) m)))
  else (s, OBad).

Fixpoint temp_run (h b : N) (cs : list (list N)) (s : state) : state * obs :=
  match cs with
  | [] => (s, OBad)
  | c :: rest =>
      match temp_batch h b c s with
      | (s1, ORes (Ok _)) =>
          match c with
          | [] => match rest with [] => (s1, ORes (Ok tt)) | _ => (s1, OBad) end
          | _ => temp_run h b rest s1
          end
      | (s1, o) => (s1, o)
      end
  end.

(** * PruneSectors (cutoff later than every access) *)
(* clear the picked slots of volume v whose sector fails [f] *)
Definition pb_slots (f : N -> bool) (v : N) (picks : list (N * N)) (l : slots) : slots :=
  map (fun sl => match snd sl with
                 | Some r => if negb (f r) && memp (v, fst sl) picks then (fst sl, None) else sl
                 | None => sl
                 end) l.

(* incrementVolumeUsage is called for the volumes that lost a sector only *)
Fixpoint prune_batch_vols (f : N -> bool) (picks : list (N * N)) (l : list vol) : res (list vol * Z) :=
  match l with
  | [] => Ok ([], 0%Z)
  | vl :: t =>
      let sl' := pb_slots f (vid vl) picks (vslots vl) in
      let c := (wsum occ1 (vslots vl) - wsum occ1 sl')%Z in
      if negb (c =? 0)%Z && (vused vl - c <? 0)%Z then Panic
      else do (t', n) <- prune_batch_vols f picks t ;
           Ok (set_used (set_slots vl sl') (vused vl - c)%Z :: t', (c + n)%Z)
  end.

Definition prunable_cnt (f : N -> bool) (l : list vol) : Z :=
  fold_right (fun vl a => (wsum (prunable f) (vslots vl) + a)%Z) 0%Z l.

(* one transaction of the PruneSectors loop; picks are (volume, index) *)
Definition prune_batch (b : N) (picks : list (N * N)) (s : state) : state * obs :=
  match prune_batch_vols (refd s) picks (vols s) with
  | Ok (vs, n) =>
      if (n =? Z.of_nat (length picks))%Z && (n =? Z.min (Z.of_N b) (prunable_cnt (refd s) (vols s)))%Z
      then fin s (do p <- stat_inc (mPhys (mets s)) (- n) ;
                  Ok (with_mets (with_vols s vs) (set_mPhys (mets s) p)))
      else (s, OBad)
  | Err e => (s, ORes (Err e))
  | Panic => (s, ORes Panic)
  end.

Fixpoint prune_run (b : N) (cs : list (list (N * N))) (s : state) : state * obs :=
  match cs with
  | [] => (s, OBad)
  | c :: rest =>
      match prune_batch b c s with
      | (s1, ORes (Ok _)) =>
          match c with
          | [] => match rest with [] => (s1, ORes (Ok tt)) | _ => (s1, OBad) end
          | _ => prune_run b rest s1
          end
      | (s1, o) => (s1, o)
      end
  end.

(** * MigrateSectors as the iteration of its transactions *)
(* one transaction of the loop at cursor [index]: the next occupied slot, the target the
   implementation picked, migrateFn's result.  Returns the next cursor (None: the loop ends). *)
Definition mig_tx (v start index : N) (call : option (N * (N * N) * bool)) (s : state)
  : state * option N * obs :=
  match next_occ index (slots_of v s) None with
  | None => match call with None => (s, None, OMig 0 0 (Ok tt)) | _ => (s, None, OBad) end
  | Some (idx, r) =>
      if negb (mig_has_target s v start)
      then match call with None => (s, None, OMig 0 0 (Err ENotEnoughStorage)) | _ => (s, None, OBad) end
      else match call with
           | None => (s, None, OBad)
           | Some (fidx, to, ok) =>
               if negb ((fidx =? idx)%N && mig_valid_target s v start to) then (s, None, OBad)
               else if ok then
                 match mig_move v idx r to s with
                 | Ok s' => (s', Some (idx + 1)%N, OMig 1 0 (Ok tt))
                 | Err e => (s, None, OMig 0 0 (Err EOther))
                 | Panic => (s, None, OMig 0 0 Panic)
                 end
               else (s, Some (idx + 1)%N, OMig 0 1 (Ok tt))
           end
  end.

Fixpoint mig_iter (fuel : nat) (v start index : N) (calls : list (N * (N * N) * bool))
         (mig fail : N) (s : state) : state * obs :=
  match fuel with
  | O => (s, OBad)
  | S f =>
      match mig_tx v start index (hd_error calls) s with
      | (s', Some index', OMig m fl _) => mig_iter f v start index' (tl calls) (mig + m)%N (fail + fl)%N s'
      | (s', _, OMig _ _ r) => (s', OMig mig fail r)
      | (s', _, o) => (s', o)
      end
  end.

(** * Operation sequences with batches *)
Inductive bop :=
| P (o : op)                                                    (* any operation of Model.v *)
| RemoveBatch (v : N) (force : bool) (b : N) (idxs : list N)    (* idxs: the slots the batch deleted *)
| RemoveFinal (v : N)
| ExpireBatch (v2 : bool) (h b : N) (picks : list (N * N))
| ExpireTempBatch (h b : N) (picks : list N)
| PruneBatch (b : N) (picks : list (N * N))
| MigrateTx (v start index : N) (call : option (N * (N * N) * bool)).

Definition bstep (s : state) (o : bop) : state * obs :=
  match o with
  | P o => step s o
  | RemoveBatch v force b idxs => remove_batch v force b idxs s
  | RemoveFinal v => fin s (remove_final v s)
  | ExpireBatch v2 h b picks => expire_batch v2 h b picks s
  | ExpireTempBatch h b picks => temp_batch h b picks s
  | PruneBatch b picks => prune_batch b picks s
  | MigrateTx v start index call => let '(s', _, o) := mig_tx v start index call s in (s', o)
  end.

(** * Correspondence entry point for recorded sequences with batches *)
Definition bcase := (N * list (bop * obs))%type.
Definition bcheck (cs : list bcase) := mismatches init bstep obs_eqb cs.
