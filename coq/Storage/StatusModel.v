(* Storage/StatusModel.v — the status claim of a volume (host/storage/volume.go SetStatus, as used
   by VolumeManager.AddVolume / ResizeVolume / RemoveVolume in storage.go)

   A resize or a removal of a volume consists of a synchronous part that CLAIMS the volume
   (vol.SetStatus(VolumeStatusResizing / VolumeStatusRemoving)) and an asynchronous part (its own
   goroutine: MigrateSectors, Grow/ShrinkVolume batches, RemoveVolume, file operations) that ends
   by giving the volume back (SetStatus(Ready), or the status read before the claim).  AddVolume
   creates the volume in status "creating" and its goroutine sets it ready after the initial grow.
   [set_status legacy] is volume.SetStatus; [legacy = true] is the function before /repo 45cdb99,
   which returned nil whenever the volume already had the requested status — so a second
   ResizeVolume (RemoveVolume) was ACCEPTED while the first one's goroutine was still running.
   No proofs here. *)
From HostdBase Require Import Base.

Inductive vstatus := VUnavailable | VCreating | VResizing | VRemoving | VReady.
Inductive sres := SOk | SErr | SPanic.

Definition vstatus_eqb (a b : vstatus) : bool :=
  match a, b with
  | VUnavailable, VUnavailable | VCreating, VCreating | VResizing, VResizing
  | VRemoving, VRemoving | VReady, VReady => true
  | _, _ => false
  end.

Definition claiming (s : vstatus) : bool := match s with VResizing | VRemoving => true | _ => false end.

(* volume.SetStatus: the status afterwards and the result *)
Definition set_status (legacy : bool) (cur new : vstatus) : vstatus * sres :=
  if vstatus_eqb cur new then
    (if negb legacy && claiming new then (cur, SErr) else (cur, SOk))
  else
    match new with
    | VRemoving => match cur with VReady | VUnavailable => (new, SOk) | _ => (cur, SErr) end
    | VResizing => match cur with VReady => (new, SOk) | _ => (cur, SErr) end
    | VReady | VUnavailable => (new, SOk)
    | VCreating => (cur, SPanic)          (* panic("cannot set status to ...") *)
    end.

(* the operations that own a volume: thread -> (volume, status to give back) *)
Record sstate := { sst : list (N * vstatus); sown : list (N * (N * vstatus)) }.
Definition sinit : sstate := {| sst := []; sown := [] |}.

Inductive sop :=
| SLoad (v : N) (avail : bool)         (* loadVolumes: a volume of the database is opened (ready) or not (unavailable) *)
| SAdd (t v : N)                       (* AddVolume: new volume in status creating, goroutine t grows it *)
| SResize (t v : N)                    (* ResizeVolume: claim; on success goroutine t runs the resize *)
| SRemove (t v : N)                    (* RemoveVolume: claim; on success goroutine t runs the removal *)
| SFinish (t : N) (gone : bool).       (* the goroutine ends: SetStatus(ready / old status); gone: the removal deleted the volume *)

Inductive sobs := SO (r : sres) | SBad.

Definition sstep (legacy : bool) (s : sstate) (o : sop) : sstate * sobs :=
  match o with
  | SLoad v avail =>
      match alookup v (sst s) with
      | Some _ => (s, SBad)
      | None => ({| sst := (v, if avail then VReady else VUnavailable) :: sst s; sown := sown s |}, SO SOk)
      end
  | SAdd t v =>
      match alookup v (sst s), alookup t (sown s) with
      | None, None => ({| sst := (v, VCreating) :: sst s; sown := (t, (v, VReady)) :: sown s |}, SO SOk)
      | _, _ => (s, SBad)
      end
  | SResize t v =>
      match alookup v (sst s), alookup t (sown s) with
      | Some cur, None =>
          let '(st', r) := set_status legacy cur VResizing in
          match r with
          | SOk => ({| sst := (v, st') :: aremove v (sst s); sown := (t, (v, VReady)) :: sown s |}, SO SOk)
          | _ => (s, SO r)
          end
      | _, _ => (s, SBad)
      end
  | SRemove t v =>
      match alookup v (sst s), alookup t (sown s) with
      | Some cur, None =>
          let '(st', r) := set_status legacy cur VRemoving in
          match r with
          | SOk => ({| sst := (v, st') :: aremove v (sst s); sown := (t, (v, cur)) :: sown s |}, SO SOk)
          | _ => (s, SO r)
          end
      | _, _ => (s, SBad)
      end
  | SFinish t gone =>
      match alookup t (sown s) with
      | Some (v, back) =>
          match alookup v (sst s) with
          | Some cur =>
              if gone then
                (if vstatus_eqb cur VRemoving
                 then ({| sst := aremove v (sst s); sown := aremove t (sown s) |}, SO SOk) else (s, SBad))
              else
                let '(st', r) := set_status legacy cur back in
                ({| sst := (v, st') :: aremove v (sst s); sown := aremove t (sown s) |}, SO r)
          | None => ({| sst := sst s; sown := aremove t (sown s) |}, SO SOk)   (* the other owner's removal deleted it (legacy only) *)
          end
      | None => (s, SBad)
      end
  end.

(* how many running operations own volume v *)
Definition owners (v : N) (s : sstate) : nat :=
  length (filter (fun e => (fst (snd e) =? v)%N) (sown s)).

(** * Correspondence with the real volume.SetStatus: sequences of calls on one volume *)
Definition scase := (N * vstatus * list (vstatus * (vstatus * sres)))%type.   (* id, initial status, calls with what they did *)

Definition sres_eqb (a b : sres) : bool :=
  match a, b with SOk, SOk | SErr, SErr | SPanic, SPanic => true | _, _ => false end.

Fixpoint sfirst_mismatch (cur : vstatus) (i : nat) (l : list (vstatus * (vstatus * sres))) : option (nat * (vstatus * sres)) :=
  match l with
  | [] => None
  | (new, (after, r)) :: t =>
      let '(st', r') := set_status false cur new in
      if vstatus_eqb st' after && sres_eqb r' r then sfirst_mismatch st' (S i) t else Some (i, (st', r'))
  end.

Fixpoint scheck (cs : list scase) : list (N * nat * (vstatus * sres)) :=
  match cs with
  | [] => []
  | (id, st0, l) :: t =>
      match sfirst_mismatch st0 0 l with
      | None => scheck t
      | Some (i, m) => (id, i, m) :: scheck t
      end
  end.

(** * The read-only flag around a resize (VolumeManager.ResizeVolume)
   A shrink makes the volume read-only for its own duration — unless the operator has set it
   read-only already — and switches it back when it ends (also when it fails):
       if stat.TotalSectors > maxSectors && !stat.ReadOnly { SetReadOnly(id, true); resetReadOnly = true }
       ... if resetReadOnly { SetReadOnly(id, false) }
   [legacy = true] is the seeded variant without the [!stat.ReadOnly] guard. *)
Definition resize_ro_calls (legacy shrinking ro_before : bool) : list bool :=
  if shrinking && (legacy || negb ro_before) then [true; false] else [].

Definition ro_after (ro_before : bool) (calls : list bool) : bool := fold_left (fun _ b => b) calls ro_before.
