(* Storage/DataModel.v — sector data on top of the metadata model (property C02).

   Mirrors host/storage/storage.go (VolumeManager: writeSector/Write/StoreSector, Sync, ReadSector
   with the LRU sector cache, migrateSector, shrink/grow/remove, RemoveSector, ResizeCache, Close)
   and host/storage/volume.go over the store model of Model.v.  One step = one store call of the
   volume manager together with the file operations that belong to it, i.e. the granularity at
   which the code commits:

     DReserve   first transaction of Store.StoreSector (slot reserved, or "exists", or full)
     DWrite     the StoreFunc: data written + cached + volume marked changed, or failure + the
                rollback transaction
     DSync      VolumeManager.Sync as one step (fsync of the changed volumes), and its pieces
                DSyncBegin (snapshot of the changed volumes) / DFsync (fsync of one of them, may
                fail) / DClear (its changed flag is deleted — only after a successful fsync) /
                DSyncEnd, so that several Syncs and writers interleave
     DRead      VolumeManager.ReadSector (cache, else location + file read + cache add)
     DMigrate   Store.MigrateSectors with migrateSector as callback (per sector: read, verify
                root, write, fsync of the target volume, swap — one transaction)
     DShrinkT   Store.ShrinkVolume + truncate of the file;  DRemoveT  Store.RemoveVolume + file
     DRemoveSector  VolumeManager.RemoveSector;  DPrune  Store.PruneSectors;  DMeta o  any other
                store call (references, flags, grow, add volume ...)
     DCrash     the process dies: unsynced data, the cache, in-flight writers are gone, committed
                metadata stays;  DRestart  Close (syncs every volume) and reopen

   Concurrent writers are threads (DReserve t ..  DWrite t ..) whose steps interleave freely
   with everything else.  A sector's bytes are abstracted to the root they hash to ([content]
   maps a slot to that number, 0 = zeroes/garbage): SHA-256/Merkle are trusted, the harness
   computes the number with rhp2.SectorRoot.  The file system is the usual model: a write is
   visible at once and durable after fsync — an ASSUMPTION, not something hostd can check.
   The cache maps root -> content: the real cache stores the callers' pointers, and the RHP2/RHP3
   update-sector handlers (as patched by fixes/C02-update-sector-copy.patch) never modify a
   buffer they obtained from ReadSector or handed to Write.
   Last access: [fresh] holds the roots whose stored_sectors.last_access_timestamp was refreshed
   (StoreSector's upsert — also on the "exists" path —, SectorLocation, RemoveSector) since the
   last DAge ("more than a prune interval passes").  DPrune is PruneSectors with a cutoff between
   that moment and now: it spares referenced and fresh sectors, and the sectors of in-flight
   writers (assumption: a write takes less than the prune interval).  No proofs here. *)
From HostdBase Require Import Base.
From HostdStorage Require Import Model.

(** * File contents: (volume, index) -> content, newest binding first *)
Definition kmap := list (N * N * N).

Fixpoint kget (v i : N) (m : kmap) : option N :=
  match m with
  | [] => None
  | (v', i', c) :: t => if (v =? v')%N && (i =? i')%N then Some c else kget v i t
  end.
Definition kset (v i c : N) (m : kmap) : kmap := (v, i, c) :: m.
Definition kof (v : N) (m : kmap) : kmap := filter (fun e => (fst (fst e) =? v)%N) m.
Definition knot (v : N) (m : kmap) : kmap := filter (fun e => negb (fst (fst e) =? v)%N) m.
(* truncate volume v to n sectors *)
Definition ktrunc (v n : N) (m : kmap) : kmap :=
  filter (fun e => negb ((fst (fst e) =? v)%N && (n <=? snd (fst e))%N)) m.

(** * The sector cache: (root, content), most recently used first *)
Definition cmap := list (N * N).
Fixpoint cget (r : N) (c : cmap) : option N :=
  match c with [] => None | (r', x) :: t => if (r =? r')%N then Some x else cget r t end.
Definition cdel (r : N) (c : cmap) : cmap := filter (fun e => negb (fst e =? r)%N) c.
Definition cadd (size : N) (r x : N) (c : cmap) : cmap := firstn (N.to_nat size) ((r, x) :: cdel r c).

Record dstate := {
  md : state;                       (* the database *)
  disk : kmap;                      (* durable file contents *)
  pend : kmap;                      (* written, not yet fsynced *)
  changed : list N;                 (* VolumeManager.changedVolumes *)
  cache : cmap; csize : N;
  thr : list (N * (N * N * N));     (* writers between slot commit and data write: t -> (root, vol, idx) *)
  fresh : list N;                   (* roots accessed since the last DAge *)
  syn : list (N * (list N * option N))  (* running Syncs: t -> (volumes still to do, volume fsynced whose flag is not cleared yet) *)
}.

Definition dinit (size : N) : dstate :=
  {| md := init; disk := []; pend := []; changed := []; cache := []; csize := size; thr := []; fresh := []; syn := [] |}.

Definition with_md (d : dstate) (m : state) : dstate :=
  {| md := m; disk := disk d; pend := pend d; changed := changed d; cache := cache d; csize := csize d; thr := thr d; fresh := fresh d; syn := syn d |}.
Definition with_files (d : dstate) (dk pd : kmap) : dstate :=
  {| md := md d; disk := dk; pend := pd; changed := changed d; cache := cache d; csize := csize d; thr := thr d; fresh := fresh d; syn := syn d |}.
Definition with_changed (d : dstate) (c : list N) : dstate :=
  {| md := md d; disk := disk d; pend := pend d; changed := c; cache := cache d; csize := csize d; thr := thr d; fresh := fresh d; syn := syn d |}.
Definition with_cache (d : dstate) (c : cmap) : dstate :=
  {| md := md d; disk := disk d; pend := pend d; changed := changed d; cache := c; csize := csize d; thr := thr d; fresh := fresh d; syn := syn d |}.
Definition with_fresh (d : dstate) (f : list N) : dstate :=
  {| md := md d; disk := disk d; pend := pend d; changed := changed d; cache := cache d; csize := csize d; thr := thr d; fresh := f; syn := syn d |}.
Definition with_syn (d : dstate) (y : list (N * (list N * option N))) : dstate :=
  {| md := md d; disk := disk d; pend := pend d; changed := changed d; cache := cache d; csize := csize d; thr := thr d; fresh := fresh d; syn := y |}.
Definition touch (r : N) (d : dstate) : dstate := if mem r (fresh d) then d else with_fresh d (r :: fresh d).
Definition with_thr (d : dstate) (t : list (N * (N * N * N))) : dstate :=
  {| md := md d; disk := disk d; pend := pend d; changed := changed d; cache := cache d; csize := csize d; thr := t; fresh := fresh d; syn := syn d |}.

(* what a read of slot (v, i) returns *)
Definition content (d : dstate) (v i : N) : N :=
  match kget v i (pend d) with
  | Some c => c
  | None => match kget v i (disk d) with Some c => c | None => 0%N end
  end.
(* what it would return after a crash *)
Definition dcontent (d : dstate) (v i : N) : N :=
  match kget v i (disk d) with Some c => c | None => 0%N end.

(* fsync of volume v *)
Definition sync_vol (v : N) (d : dstate) : dstate :=
  with_files d (kof v (pend d) ++ disk d) (knot v (pend d)).

Definition locate (r : N) (m : state) : option (N * N) :=
  if mem r (known m) then vfind r (vols m) else None.

Definition in_flight (r : N) (t : list (N * (N * N * N))) : bool :=
  existsb (fun e => (fst (fst (snd e)) =? r)%N) t.

(* store calls without a data side (everything but the ones that have their own step) *)
Definition meta_op (o : op) : bool :=
  match o with
  | Store _ _ _ | StoreRemoved _ _ | Migrate _ _ _ | MigrateOne _ _ _ _ _
  | RemoveSector _ | RemoveVol _ _ | Shrink _ _ | Prune _ | PruneOne _ _ => false
  | _ => true
  end.

Inductive dop :=
| DMeta (o : op)
| DReserve (t r : N) (loc : option (N * N))
| DWrite (t : N) (ok : bool)
| DSync
| DSyncBegin (t : N) | DFsync (t v : N) (ok : bool) | DClear (t : N) | DSyncEnd (t : N)
| DAge                                              (* more than a prune interval passes *)
| DRead (r : N) (fail : bool)                        (* fail: injected I/O error of the file read *)
| DMigrate (v start : N) (calls : list (N * (N * N) * N))
    (* per migrateSector call: from index, target, outcome 0 ok | 1 read failed | 2 root mismatch | 3 write failed
       | 4 refused, the sector is being written (not an outcome of the code as it is; fixes/C02-migrate-in-flight.patch) *)
| DShrinkT (v n : N) | DRemoveT (v : N) (force : bool)
| DRemoveSector (r : N)
| DPrune
| DResizeCache (n : N)
| DCrash | DRestart.

Inductive dobs :=
| OM (o : obs)
| OAck            (* Write returned nil without calling the StoreFunc: the sector "exists" *)
| OPlaced
| ORead (hit : bool) (c : N)
| OReadErr
| ODBad.

Definition dres (d : dstate) (r : res state) : dstate * dobs :=
  match r with
  | Ok m => (with_md d m, OM (ORes (Ok tt)))
  | Err e => (d, OM (ORes (Err e)))
  | Panic => (d, OM (ORes Panic))
  end.

Definition dreserve (t r : N) (loc : option (N * N)) (d : dstate) : dstate * dobs :=
  match alookup t (thr d) with
  | Some _ => (d, ODBad)
  | None =>
      match reserve r loc (md d) with
      | RExists => (touch r (with_md d (add_known r (md d))), OAck)
      | RFull => (d, OM (ORes (Err ENotEnoughStorage)))
      | RPlaced s1 v i => (touch r (with_thr (with_md d s1) ((t, (r, v, i)) :: thr d)), OPlaced)
      | RFail o => (d, OM o)
      | RBad => (d, ODBad)
      end
  end.

Definition add_changed (v : N) (l : list N) : list N := if mem v l then l else v :: l.

Definition dwrite (t : N) (ok : bool) (d : dstate) : dstate * dobs :=
  match alookup t (thr d) with
  | None => (d, ODBad)
  | Some (r, v, i) =>
      let d0 := with_thr d (aremove t (thr d)) in
      if ok && is_some (vget v (vols (md d))) then
        (with_changed (with_cache (with_files d0 (disk d) (kset v i r (pend d))) (cadd (csize d) r r (cache d)))
                      (add_changed v (changed d)),
         OM (ORes (Ok tt)))
      else let '(m, o) := rollback r v i (md d) in (with_md d0 m, OM o)
  end.

Definition dsync (d : dstate) : dstate :=
  with_changed (fold_left (fun a v => sync_vol v a) (changed d) d) [].

Definition dread (r : N) (fail : bool) (d : dstate) : dstate * dobs :=
  match cget r (cache d) with
  | Some c => (with_cache d ((r, c) :: cdel r (cache d)), ORead true c)
  | None =>
      match locate r (md d) with
      | None => (d, OReadErr)
      | Some (v, i) =>
          if fail then (touch r d, OReadErr)
          else let c := content d v i in (touch r (with_cache d (cadd (csize d) r c (cache d))), ORead false c)
      end
  end.

(* MigrateSectors with migrateSector as callback *)
Fixpoint dmigrate (fuel : nat) (v start index : N) (calls : list (N * (N * N) * N))
         (mig fail : N) (d : dstate) : dstate * dobs :=
  match fuel with
  | O => (d, ODBad)
  | S f =>
      match next_occ index (slots_of v (md d)) None with
      | None => match calls with [] => (d, OM (OMig mig fail (Ok tt))) | _ => (d, ODBad) end
      | Some (idx, r) =>
          if negb (mig_has_target (md d) v start)
          then match calls with [] => (d, OM (OMig mig fail (Err ENotEnoughStorage))) | _ => (d, ODBad) end
          else match calls with
               | [] => (d, ODBad)
               | (fidx, to, code) :: rest =>
                   if negb ((fidx =? idx)%N && mig_valid_target (md d) v start to) then (d, ODBad)
                   else if (code =? 1)%N then dmigrate f v start (idx + 1)%N rest mig (fail + 1)%N d
                   else if (code =? 4)%N then
                     (* only with fixes/C02-migrate-in-flight.patch: migrateSector refuses a sector that is being written *)
                     (if in_flight r (thr d) then dmigrate f v start (idx + 1)%N rest mig (fail + 1)%N d else (d, ODBad))
                   else
                     let c := content d v idx in
                     let d1 := with_cache d (cadd (csize d) r c (cache d)) in   (* readLocation caches what it read *)
                     if (code =? 2)%N then
                       (if (c =? r)%N then (d, ODBad) else dmigrate f v start (idx + 1)%N rest mig (fail + 1)%N d1)
                     else if negb (c =? r)%N then (d, ODBad)
                     else if (code =? 3)%N then dmigrate f v start (idx + 1)%N rest mig (fail + 1)%N d1
                     else if negb (code =? 0)%N then (d, ODBad)
                     else
                       match mig_move v idx r to (md d1) with
                       | Ok m =>
                           let d2 := sync_vol (fst to) (with_files d1 (disk d1) (kset (fst to) (snd to) c (pend d1))) in
                           dmigrate f v start (idx + 1)%N rest (mig + 1)%N fail (with_md d2 m)
                       | Err e => (d1, OM (OMig mig fail (Err EOther)))
                       | Panic => (d1, OM (OMig mig fail Panic))
                       end
               end
      end
  end.

Definition dshrink (v n : N) (d : dstate) : dstate * dobs :=
  match shrink v n (md d) with
  | Ok m => (with_files (with_md d m) (ktrunc v n (disk d)) (ktrunc v n (pend d)), OM (ORes (Ok tt)))
  | Err e => (d, OM (ORes (Err e)))
  | Panic => (d, OM (ORes Panic))
  end.

Definition dremove (v : N) (force : bool) (d : dstate) : dstate * dobs :=
  match remove_vol v force (md d) with
  | Ok m => (with_files (with_md d m) (knot v (disk d)) (knot v (pend d)), OM (ORes (Ok tt)))
  | Err e => (d, OM (ORes (Err e)))
  | Panic => (d, OM (ORes Panic))
  end.

(* VolumeManager.RemoveSector: locate, remove the metadata, zero the data and fsync, drop from the cache *)
Definition dremove_sector (r : N) (d : dstate) : dstate * dobs :=
  match locate r (md d) with
  | None => (d, OM (ORes (Err ENotFound)))
  | Some (v, i) =>
      match remove_sector r (md d) with
      | Ok m =>
          (touch r (with_cache (sync_vol v (with_files (with_md d m) (disk d) (kset v i 0%N (pend d)))) (cdel r (cache d))),
           OM (ORes (Ok tt)))
      | Err e => (d, OM (ORes (Err e)))
      | Panic => (d, OM (ORes Panic))
      end
  end.

Definition dprune (d : dstate) : dstate * dobs :=
  dres d (prune_with (fun r => refd (md d) r || mem r (fresh d) || in_flight r (thr d)) (md d)).

Definition dcrash (d : dstate) : dstate :=
  {| md := md d; disk := disk d; pend := []; changed := []; cache := []; csize := csize d; thr := [];
     fresh := fresh d; syn := [] |}.

(* the pieces of VolumeManager.Sync *)
Fixpoint ldel (v : N) (l : list N) : list N :=
  match l with [] => [] | x :: t => if (v =? x)%N then ldel v t else x :: ldel v t end.

Definition dsync_begin (t : N) (d : dstate) : dstate * dobs :=
  match alookup t (syn d) with
  | Some _ => (d, ODBad)
  | None => (with_syn d ((t, (changed d, None)) :: syn d), OM (ORes (Ok tt)))
  end.

(* vol.Sync() of one of the volumes of the snapshot; an error ends the Sync (the flags stay) *)
Definition dfsync (t v : N) (ok : bool) (d : dstate) : dstate * dobs :=
  match alookup t (syn d) with
  | Some (todo, None) =>
      if mem v todo && is_some (vget v (vols (md d))) then
        if ok then (with_syn (sync_vol v d) ((t, (todo, Some v)) :: aremove t (syn d)), OM (ORes (Ok tt)))
        else (with_syn d (aremove t (syn d)), OM (ORes (Err EOther)))
      else (d, ODBad)
  | _ => (d, ODBad)
  end.

(* delete(vm.changedVolumes, id): only reached after the fsync of that volume succeeded *)
Definition dclear (t : N) (d : dstate) : dstate * dobs :=
  match alookup t (syn d) with
  | Some (todo, Some v) =>
      (with_syn (with_changed d (ldel v (changed d))) ((t, (ldel v todo, None)) :: aremove t (syn d)), OM (ORes (Ok tt)))
  | _ => (d, ODBad)
  end.

(* Sync returns nil: every volume of the snapshot was fsynced (volumes that are gone are skipped) *)
Definition dsync_end (t : N) (d : dstate) : dstate * dobs :=
  match alookup t (syn d) with
  | Some (todo, None) =>
      if existsb (fun v => is_some (vget v (vols (md d)))) todo then (d, ODBad)
      else (with_syn d (aremove t (syn d)), OM (ORes (Ok tt)))
  | _ => (d, ODBad)
  end.

Definition dstep (d : dstate) (o : dop) : dstate * dobs :=
  match o with
  | DMeta o => if meta_op o then let '(m, b) := step (md d) o in (with_md d m, OM b) else (d, ODBad)
  | DReserve t r loc => dreserve t r loc d
  | DWrite t ok => dwrite t ok d
  | DSync => (dsync d, OM (ORes (Ok tt)))
  | DSyncBegin t => dsync_begin t d
  | DFsync t v ok => dfsync t v ok d
  | DClear t => dclear t d
  | DSyncEnd t => dsync_end t d
  | DAge => (with_fresh d [], OM (ORes (Ok tt)))
  | DRead r fail => dread r fail d
  | DMigrate v start calls => dmigrate (S (length (slots_of v (md d)))) v start start calls 0 0 d
  | DShrinkT v n => dshrink v n d
  | DRemoveT v force => dremove v force d
  | DRemoveSector r => dremove_sector r d
  | DPrune => dprune d
  | DResizeCache n =>
      ({| md := md d; disk := disk d; pend := pend d; changed := changed d;
          cache := firstn (N.to_nat n) (cache d); csize := n; thr := thr d; fresh := fresh d; syn := syn d |}, OM (ORes (Ok tt)))
  | DCrash => (dcrash d, OM (ORes (Ok tt)))
  | DRestart =>
      match thr d with
      | [] => (dcrash (with_files d (pend d ++ disk d) []), OM (ORes (Ok tt)))
      | _ => (d, ODBad)    (* Close waits for running operations *)
      end
  end.

(** * Correspondence entry point *)
Definition dobs_eqb (a b : dobs) : bool :=
  match a, b with
  | OM x, OM y => obs_eqb x y
  | OAck, OAck => true
  | OPlaced, OPlaced => true
  | ORead h c, ORead h' c' => Bool.eqb h h' && (c =? c')%N
  | OReadErr, OReadErr => true
  | _, _ => false
  end.

Definition dcase := (N * N * list (dop * dobs))%type.   (* id, cache size, steps *)

Fixpoint dfirst_mismatch (d : dstate) (i : nat) (l : list (dop * dobs)) : option (nat * dobs) :=
  match l with
  | [] => None
  | (o, seen) :: t =>
      let '(d', m) := dstep d o in
      if dobs_eqb m seen then dfirst_mismatch d' (S i) t else Some (i, m)
  end.

Fixpoint dcheck (cs : list dcase) : list (N * nat * dobs) :=
  match cs with
  | [] => []
  | (id, size, l) :: t =>
      match dfirst_mismatch (dinit size) 0 l with
      | None => dcheck t
      | Some (i, m) => (id, i, m) :: dcheck t
      end
  end.

(** * Finer steps: VolumeManager.RemoveSector cut at its committed steps, vm.mu explicit

   host/storage/storage.go, RemoveSector:

       vm.mu.Lock(); defer vm.mu.Unlock()
       loc := vs.SectorLocation(root)          XRsLocate r     (refreshes the last access; an error returns)
       vs.RemoveSector(root)                   XRsCommit       (the slot is free in the database from here on)
       vol := vm.volumes[loc.Volume]
       vol.WriteSector(&zeroes, loc.Index)     XRsZero ok      (zeroes at the location read by the FIRST call)
       vol.Sync(); vm.cache.Remove(root)       XRsEnd ok       (fsync; cache drop; return releases vm.mu)

   and every other step of the volume manager may happen in between — except the ones that need
   vm.mu themselves ([takes_mu]): the StoreFunc of a writer locks vm.mu (volume lookup) before it
   writes its data, so [DWrite] is not enabled while a RemoveSector holds the mutex.  That is
   the fact the proof needs: the slot released by XRsCommit can be handed to a writer at once
   (DReserve is a store call, it does not take vm.mu), but that writer's bytes land after the
   zeroes.  Also disabled: Sync and its pieces (they lock vm.mu for the snapshot, every lookup
   and every flag deletion), a cache-miss ReadSector and migrateSector (readLocation locks vm.mu),
   another RemoveSector, Close (waits for the thread group).  A disabled step leaves the state
   alone and answers [ODBad]: an implementation that takes it anyway does not correspond.
   At THIS granularity migrateSector and a cache-miss ReadSector are single steps and the store's
   connection is implicit; the second finer layer below ([ystep]) cuts them and makes the
   connection explicit — there the schedule "MigrateSectors holds the only connection while its
   callback waits for vm.mu, RemoveSector holds vm.mu and waits for the connection" is a
   reachable state in which neither party can move ([deadlocked]).
   [lock = false] is the variant without the critical section (vm.mu taken for the map lookup
   only): nothing is disabled.  [xlost] is a ghost: the roots an operator deleted explicitly. *)
Inductive rsphase := RsLocated | RsCommitted | RsZeroed.

Record xstate := {
  xd : dstate;
  xmu : option (N * (N * N) * rsphase);   (* the RemoveSector holding vm.mu: root, location read, phase *)
  xlost : list N }.

Definition xinit (size : N) : xstate := {| xd := dinit size; xmu := None; xlost := [] |}.

Inductive xop :=
| XD (o : dop)
| XRsLocate (r : N)
| XRsCommit
| XRsZero (ok : bool)     (* ok = false: the write of the zeroes fails *)
| XRsEnd (ok : bool)      (* ok = false: the fsync fails *)
| XRsAbort.               (* returns after SectorLocation without touching anything (not a path of the code as it is;
                             fixes/C02-remove-sector-in-flight.patch: an upload of the sector is in flight) *)

Definition takes_mu (o : dop) (d : dstate) : bool :=
  match o with
  | DWrite _ _ | DSync | DSyncBegin _ | DFsync _ _ _ | DClear _ | DRemoveSector _ | DRestart => true
  | DRead r _ => is_none (cget r (cache d)) && is_some (locate r (md d))
  | DMigrate _ _ calls => match calls with [] => false | _ => true end
  | _ => false
  end.

Definition is_ok (b : dobs) : bool :=
  match b with OM (ORes (Ok _)) => true | _ => false end.

Definition xstep_gen (lock : bool) (x : xstate) (o : xop) : xstate * dobs :=
  let d := xd x in
  match o with
  | XD DCrash => ({| xd := dcrash d; xmu := None; xlost := xlost x |}, OM (ORes (Ok tt)))
  | XD o' =>
      if lock && is_some (xmu x) && takes_mu o' d then (x, ODBad)
      else let '(d', b) := dstep d o' in
           ({| xd := d'; xmu := xmu x;
               xlost := match o' with DRemoveSector r => if is_ok b then r :: xlost x else xlost x | _ => xlost x end |}, b)
  | XRsLocate r =>
      match xmu x with
      | Some _ => (x, ODBad)
      | None =>
          match locate r (md d) with
          | None => (x, OM (ORes (Err ENotFound)))
          | Some loc => ({| xd := touch r d; xmu := Some (r, loc, RsLocated); xlost := xlost x |}, OM (OLoc (Some loc)))
          end
      end
  | XRsCommit =>
      match xmu x with
      | Some (r, loc, RsLocated) =>
          match remove_sector r (md d) with
          | Ok m => ({| xd := touch r (with_md d m); xmu := Some (r, loc, RsCommitted); xlost := r :: xlost x |}, OM (ORes (Ok tt)))
          | Err e => ({| xd := d; xmu := None; xlost := xlost x |}, OM (ORes (Err e)))
          | Panic => ({| xd := d; xmu := None; xlost := xlost x |}, OM (ORes Panic))
          end
      | _ => (x, ODBad)
      end
  | XRsZero ok =>
      match xmu x with
      | Some (r, (v, i), RsCommitted) =>
          if ok && is_some (vget v (vols (md d))) then
            ({| xd := with_files d (disk d) (kset v i 0%N (pend d)); xmu := Some (r, (v, i), RsZeroed); xlost := xlost x |},
             OM (ORes (Ok tt)))
          else ({| xd := d; xmu := None; xlost := xlost x |}, OM (ORes (Err EOther)))
      | _ => (x, ODBad)
      end
  | XRsEnd ok =>
      match xmu x with
      | Some (r, (v, i), RsZeroed) =>
          if ok then ({| xd := with_cache (sync_vol v d) (cdel r (cache d)); xmu := None; xlost := xlost x |}, OM (ORes (Ok tt)))
          else ({| xd := d; xmu := None; xlost := xlost x |}, OM (ORes (Err EOther)))
      | _ => (x, ODBad)
      end
  | XRsAbort =>
      match xmu x with
      | Some (_, _, RsLocated) => ({| xd := d; xmu := None; xlost := xlost x |}, OM (ORes (Err EOther)))
      | _ => (x, ODBad)
      end
  end.

Definition xstep := xstep_gen true.

(** * Correspondence entry point for runs recorded at this granularity *)
Definition xcase := (N * N * list (xop * dobs))%type.   (* id, cache size, steps *)

Fixpoint xfirst_mismatch (x : xstate) (i : nat) (l : list (xop * dobs)) : option (nat * dobs) :=
  match l with
  | [] => None
  | (o, seen) :: t =>
      let '(x', m) := xstep x o in
      if dobs_eqb m seen then xfirst_mismatch x' (S i) t else Some (i, m)
  end.

Fixpoint xcheck (cs : list xcase) : list (N * nat * dobs) :=
  match cs with
  | [] => []
  | (id, size, l) :: t =>
      match xfirst_mismatch (xinit size) 0 l with
      | None => xcheck t
      | Some (i, m) => (id, i, m) :: xcheck t
      end
  end.

(** * Finer steps, second layer (work package W): migrateSector and a cache-miss ReadSector cut at
   their internal steps; the store's single connection explicit

   persist/sqlite/volumes.go, MigrateSectors — per sector ONE transaction, which holds the only
   database connection from its first statement to its commit:

       tx begins; SELECT the first occupied slot >= index; emptyLocationForMigration   YMgBegin v start index to
       migrateFn = VolumeManager.migrateSector(from, to):
         readLocation(from): vm.mu (map lookup), read the file, cache.Add(root, bytes)     YMgRead fail
         root check ("sector corrupt")                                                     (part of YMgRead)
         vm.mu (map lookup); vol.WriteSector(bytes, to.Index)                              YMgWrite ok
         vol.Sync()                                                                        YMgSync ok
       UPDATE old slot NULL, new slot := sector; usage counters; commit                  YMgCommit

   host/storage/storage.go, ReadSector on a cache miss:

       vs.SectorLocation(root)                  YRdLocate t r    (a store call; refreshes the last access)
       readLocation: vm.mu (lookup), read file  YRdFile t fail
       vm.cache.Add(root, bytes); return        YRdCache t

   While a migration transaction is open every step that needs the connection is NOT enabled
   ([takes_conn]: every store call — DMeta, DReserve, a failing DWrite's rollback, a cache-miss
   read's SectorLocation, prune, shrink, removal, RemoveSector's two store calls ...); the steps
   that need vm.mu (YMgRead, YMgWrite, YRdFile) are not enabled while a RemoveSector holds it.
   A RemoveSector that holds vm.mu and still has a store call to make (phase RsLocated) together
   with an open migration transaction that has not read yet is the DEADLOCK of the code as it is
   ([deadlocked]): neither can take a step, only a crash ends it.
   A disabled step leaves the state alone and answers [ODBad]. *)
Inductive mgphase := MgBegun | MgRead | MgWritten | MgSynced.

Record mgst := { mg_v : N; mg_start : N; mg_idx : N; mg_r : N; mg_to : N * N; mg_ph : mgphase }.

Record ystate := {
  yx : xstate;
  ymg : option mgst;                              (* the migration transaction holding the connection *)
  yrd : list (N * (N * (N * N) * option N)) }.    (* cache-miss reads in progress: t -> (root, location read, bytes read) *)

Definition yinit (size : N) : ystate := {| yx := xinit size; ymg := None; yrd := [] |}.

Inductive yop :=
| YX (o : xop)
| YMgBegin (v start index : N) (to : N * N)
| YMgRead (fail : bool)
| YMgWrite (ok : bool)
| YMgSync (ok : bool)
| YMgCommit
| YRdLocate (t r : N)
| YRdFile (t : N) (fail : bool)
| YRdCache (t : N).

(* steps that make a store call *)
Definition takes_conn (o : xop) (d : dstate) : bool :=
  match o with
  | XD (DMeta _) | XD (DReserve _ _ _) | XD (DMigrate _ _ _) | XD (DShrinkT _ _) | XD (DRemoveT _ _)
  | XD (DRemoveSector _) | XD DPrune | XD DRestart => true
  | XD (DWrite t ok) =>
      match alookup t (thr d) with
      | Some (_, v, _) => negb (ok && is_some (vget v (vols (md d))))   (* the rollback transaction *)
      | None => false
      end
  | XD (DRead r _) => is_none (cget r (cache d))
  | XRsLocate _ | XRsCommit => true
  | _ => false
  end.

Definition set_mg (y : ystate) (m : option mgst) : ystate := {| yx := yx y; ymg := m; yrd := yrd y |}.
Definition set_yd (y : ystate) (d : dstate) : ystate :=
  {| yx := {| xd := d; xmu := xmu (yx y); xlost := xlost (yx y) |}; ymg := ymg y; yrd := yrd y |}.

Definition ystep (y : ystate) (o : yop) : ystate * dobs :=
  let x := yx y in
  let d := xd x in
  match o with
  | YX (XD DCrash) =>
      let '(x', b) := xstep x (XD DCrash) in ({| yx := x'; ymg := None; yrd := [] |}, b)
  | YX o' =>
      if is_some (ymg y) && takes_conn o' d then (y, ODBad)
      else let '(x', b) := xstep x o' in ({| yx := x'; ymg := ymg y; yrd := yrd y |}, b)
  | YMgBegin v start index to =>
      match ymg y with
      | Some _ => (y, ODBad)
      | None =>
          match next_occ index (slots_of v (md d)) None with
          | None => (y, ODBad)
          | Some (idx, r) =>
              if mig_has_target (md d) v start && mig_valid_target (md d) v start to
              then (set_mg y (Some {| mg_v := v; mg_start := start; mg_idx := idx; mg_r := r; mg_to := to; mg_ph := MgBegun |}),
                    OM (OLoc (Some (v, idx))))
              else (y, ODBad)
          end
      end
  | YMgRead fail =>
      match ymg y, xmu x with
      | Some m, None =>
          match mg_ph m with
          | MgBegun =>
              if fail then (set_mg y None, OReadErr)
              else
                let c := content d (mg_v m) (mg_idx m) in
                let y1 := set_yd y (with_cache d (cadd (csize d) (mg_r m) c (cache d))) in
                if (c =? mg_r m)%N
                then (set_mg y1 (Some {| mg_v := mg_v m; mg_start := mg_start m; mg_idx := mg_idx m; mg_r := mg_r m; mg_to := mg_to m; mg_ph := MgRead |}),
                      ORead false c)
                else (set_mg y1 None, ORead false c)       (* "sector corrupt": the callback fails, nothing is committed *)
          | _ => (y, ODBad)
          end
      | _, _ => (y, ODBad)
      end
  | YMgWrite ok =>
      match ymg y, xmu x with
      | Some m, None =>
          match mg_ph m with
          | MgRead =>
              if ok && is_some (vget (fst (mg_to m)) (vols (md d)))
              then (set_mg (set_yd y (with_files d (disk d) (kset (fst (mg_to m)) (snd (mg_to m)) (mg_r m) (pend d))))
                           (Some {| mg_v := mg_v m; mg_start := mg_start m; mg_idx := mg_idx m; mg_r := mg_r m; mg_to := mg_to m; mg_ph := MgWritten |}),
                    OM (ORes (Ok tt)))
              else (set_mg y None, OM (ORes (Err EOther)))
          | _ => (y, ODBad)
          end
      | _, _ => (y, ODBad)
      end
  | YMgSync ok =>
      match ymg y with
      | Some m =>
          match mg_ph m with
          | MgWritten =>
              if ok
              then (set_mg (set_yd y (sync_vol (fst (mg_to m)) d))
                           (Some {| mg_v := mg_v m; mg_start := mg_start m; mg_idx := mg_idx m; mg_r := mg_r m; mg_to := mg_to m; mg_ph := MgSynced |}),
                    OM (ORes (Ok tt)))
              else (set_mg y None, OM (ORes (Err EOther)))
          | _ => (y, ODBad)
          end
      | None => (y, ODBad)
      end
  | YMgCommit =>
      match ymg y with
      | Some m =>
          match mg_ph m with
          | MgSynced =>
              match mig_move (mg_v m) (mg_idx m) (mg_r m) (mg_to m) (md d) with
              | Ok s => (set_mg (set_yd y (with_md d s)) None, OM (ORes (Ok tt)))
              | Err e => (set_mg y None, OM (ORes (Err EOther)))
              | Panic => (set_mg y None, OM (ORes Panic))
              end
          | _ => (y, ODBad)
          end
      | None => (y, ODBad)
      end
  | YRdLocate t r =>
      if is_some (ymg y) || is_some (alookup t (yrd y)) || is_some (cget r (cache d)) then (y, ODBad)
      else match locate r (md d) with
           | None => (y, OReadErr)
           | Some loc => ({| yx := {| xd := touch r d; xmu := xmu x; xlost := xlost x |}; ymg := ymg y;
                             yrd := (t, (r, loc, None)) :: yrd y |}, OM (OLoc (Some loc)))
           end
  | YRdFile t fail =>
      match alookup t (yrd y), xmu x with
      | Some (r, (v, i), None), None =>
          if fail then ({| yx := x; ymg := ymg y; yrd := aremove t (yrd y) |}, OReadErr)
          else ({| yx := x; ymg := ymg y; yrd := (t, (r, (v, i), Some (content d v i))) :: aremove t (yrd y) |}, OM (ORes (Ok tt)))
      | _, _ => (y, ODBad)
      end
  | YRdCache t =>
      match alookup t (yrd y) with
      | Some (r, _, Some c) =>
          ({| yx := {| xd := with_cache d (cadd (csize d) r c (cache d)); xmu := xmu x; xlost := xlost x |};
              ymg := ymg y; yrd := aremove t (yrd y) |}, ORead false c)
      | _ => (y, ODBad)
      end
  end.

(* the deadlock of the code as it is: RemoveSector holds vm.mu and waits for the connection, the
   migration transaction holds the connection and waits for vm.mu *)
Definition deadlocked (y : ystate) : bool :=
  match xmu (yx y), ymg y with
  | Some (_, _, RsLocated), Some m => match mg_ph m with MgBegun | MgRead => true | _ => false end
  | _, _ => false
  end.

Definition ycase := (N * N * list (yop * dobs))%type.   (* id, cache size, steps *)

Fixpoint yfirst_mismatch (y : ystate) (i : nat) (l : list (yop * dobs)) : option (nat * dobs) :=
  match l with
  | [] => None
  | (o, seen) :: t =>
      let '(y', m) := ystep y o in
      if dobs_eqb m seen then yfirst_mismatch y' (S i) t else Some (i, m)
  end.

Fixpoint ycheck (cs : list ycase) : list (N * nat * dobs) :=
  match cs with
  | [] => []
  | (id, size, l) :: t =>
      match yfirst_mismatch (yinit size) 0 l with
      | None => ycheck t
      | Some (i, m) => (id, i, m) :: ycheck t
      end
  end.
