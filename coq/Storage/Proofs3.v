(* Storage/Proofs3.v — hostd's own counter guards ("negative stat value", "volume usage is
   negative") never fire in a reachable state (C08) *)
From Coq Require Import Lia ZifyBool ZifyN ZifyNat.
From HostdBase Require Import Base.
From HostdStorage Require Import Model Lemmas Proofs Proofs2.

Local Open Scope Z_scope.
Arguments stat_inc : simpl never.
Arguments vol_usage : simpl never.
Arguments set_slot : simpl never.
Arguments csum : simpl never.

Lemma stat_inc_eq cur d : 0 <= cur + d -> stat_inc cur d = Ok (cur + d).
Proof.
  intros H. unfold stat_inc. destruct (d =? 0) eqn:E.
  - f_equal. lia.
  - replace (cur + d <? 0) with false by lia. reflexivity.
Qed.

Lemma used_nonneg s vl : inv s -> In vl (vols s) -> 0 <= vused vl /\ vused vl <= mPhys (mets s).
Proof.
  intros I Hin. destruct (counters_exact s I) as [Hv [_ [Hp _]]].
  destruct (Hv vl Hin) as [Hu _]. rewrite Hu, Hp. split.
  - apply wsum_nonneg, occ1_nonneg.
  - apply (gsum_in_le n_used (vols s) vl); [|exact Hin]. intros y. apply wsum_nonneg, occ1_nonneg.
Qed.

Lemma total_nonneg s vl : inv s -> In vl (vols s) -> 0 <= vtotal vl /\ vtotal vl <= mTotal (mets s).
Proof.
  intros I Hin. destruct (counters_exact s I) as [Hv [Ht _]].
  destruct (Hv vl Hin) as [_ Hu]. rewrite Hu, Ht. unfold n_slots. split; [lia|].
  apply (gsum_in_le n_slots (vols s) vl); [|exact Hin]. intros y. unfold n_slots. lia.
Qed.

Lemma vol_usage_some v d s vl :
  vget v (vols s) = Some vl -> 0 <= vused vl + d -> 0 <= mPhys (mets s) + d ->
  exists s', vol_usage v d s = Ok s'.
Proof.
  intros G H1 H2. unfold vol_usage. rewrite G. replace (vused vl + d <? 0) with false by lia.
  rewrite stat_inc_eq by exact H2. cbn. eexists; reflexivity.
Qed.

(* an occupied slot means the volume's usage is at least one *)
Lemma occupied_used s v vl i r : inv s -> vget v (vols s) = Some vl -> sget i (vslots vl) = Some (Some r) ->
  1 <= vused vl /\ 1 <= mPhys (mets s).
Proof.
  intros I G S. pose proof (proj1 (vget_in v _ vl G)) as Hin.
  destruct (used_nonneg s vl I Hin) as [_ Hle].
  pose proof (inv_vol s I) as HF. rewrite Forall_forall in HF. destruct (HF vl Hin) as [_ [_ Hu]].
  assert (1 <= wsum occ1 (vslots vl)).
  { pose proof (wsum_one r _ i S). pose proof (wsum_le (is_root r) occ1 (vslots vl) (is_root_le_occ r)). lia. }
  lia.
Qed.

Definition is_panic_obs (o : obs) : bool :=
  match o with ORes Panic => true | OMig _ _ Panic => true | _ => false end.

(** the reservation, rollback, removal and pruning of single slots *)
Lemma reserve_no_panic r loc s : inv s -> reserve r loc s <> RFail (ORes Panic).
Proof.
  intros I. unfold reserve.
  destruct (vfind r (vols s)); [destruct loc; discriminate|].
  destruct (has_free s); cbn [negb]; [|destruct loc; discriminate].
  destruct loc as [[v i]|]; [|discriminate].
  destruct (valid_free s v i) eqn:V; cbn [negb]; [|discriminate].
  apply valid_free_slot in V as [vl [G [_ S]]].
  assert (G' : vget v (vols (set_slot v i (Some r) (add_known r s))) = Some (set_slots vl (sset i (Some r) (vslots vl)))).
  { unfold set_slot; cbn. rewrite add_known_vols. now rewrite (vget_vupd_same v _ _ vl) by (auto; reflexivity). }
  destruct (used_nonneg s vl I (proj1 (vget_in v _ vl G))) as [H1 H2].
  destruct (vol_usage_some v 1 _ _ G') as [s' U].
  - cbn. lia.
  - unfold set_slot; cbn. rewrite add_known_mets. lia.
  - rewrite U. discriminate.
Qed.

Lemma rollback_no_panic r v i s : inv s -> is_panic_obs (snd (rollback r v i s)) = false.
Proof.
  intros I. unfold rollback. destruct (sget i (slots_of v s)) as [[r'|]|] eqn:S; cbn; try reflexivity.
  destruct (r' =? r)%N; cbn; [|reflexivity].
  apply slots_of_sget in S as [vl [G S]].
  destruct (occupied_used s v vl i r' I G S) as [H1 H2].
  assert (G' : vget v (vols (set_slot v i None s)) = Some (set_slots vl (sset i None (vslots vl)))).
  { unfold set_slot; cbn. now rewrite (vget_vupd_same v _ _ vl) by (auto; reflexivity). }
  destruct (vol_usage_some v (-1) _ _ G') as [s' U]; [cbn; lia|unfold set_slot; cbn; lia|].
  rewrite U. reflexivity.
Qed.

Lemma store_no_panic r loc ok s : inv s -> is_panic_obs (snd (store r loc ok s)) = false.
Proof.
  intros I. unfold store. destruct (reserve r loc s) as [| |s1 v i|o|] eqn:R; cbn [snd]; try reflexivity.
  - destruct (reserve_placed r loc s s1 v i I R) as [I1 _].
    destruct ok; cbn; [reflexivity|now apply rollback_no_panic].
  - unfold reserve in R. repeat match type of R with
      | match ?x with _ => _ end = _ => destruct x eqn:?; try discriminate
      | (if ?x then _ else _) = _ => destruct x eqn:?; try discriminate
      end.
    + injection R as <-. reflexivity.
    + exfalso. eapply (reserve_no_panic r loc s I). unfold reserve.
      repeat match goal with H : ?x = _ |- context [?x] => rewrite H end. reflexivity.
Qed.

Lemma remove_sector_no_panic r s : inv s -> remove_sector r s <> Panic.
Proof.
  intros I. unfold remove_sector. destruct (negb _); [discriminate|].
  destruct (vfind r (vols s)) as [[v i]|] eqn:F; [|discriminate].
  destruct (vfind_slot s r v i I F) as [vl [G S]].
  destruct (occupied_used s v vl i r I G S) as [H1 H2].
  assert (G' : vget v (vols (set_slot v i None s)) = Some (set_slots vl (sset i None (vslots vl)))).
  { unfold set_slot; cbn. now rewrite (vget_vupd_same v _ _ vl) by (auto; reflexivity). }
  destruct (vol_usage_some v (-1) _ _ G') as [s' U]; [cbn; lia|unfold set_slot; cbn; lia|].
  rewrite U. cbn [bind].
  pose proof U as U'. apply usage_set_slot in U' as [? [_ [_ [_ [Hm _]]]]].
  rewrite stat_inc_eq; [cbn; discriminate|]. rewrite Hm. cbn. pose proof (inv_lost s I). lia.
Qed.

Lemma store_removed_no_panic r loc s : inv s -> is_panic_obs (snd (store_removed r loc s)) = false.
Proof.
  intros I. unfold store_removed. destruct (reserve r loc s) as [| |s1 v i|o|] eqn:R; cbn [snd]; try reflexivity.
  destruct (reserve_placed r loc s s1 v i I R) as [I1 _].
  destruct (remove_sector r s1) as [s2| |] eqn:M; cbn [snd]; try reflexivity.
  apply rollback_no_panic. eapply inv_remove_sector; eauto.
Qed.

Lemma prune_one_no_panic v i s : inv s -> prune_one v i s <> Panic.
Proof.
  intros I. unfold prune_one. destruct (sget i (slots_of v s)) as [[r|]|] eqn:S; try discriminate.
  destruct (refd s r); [discriminate|].
  apply slots_of_sget in S as [vl [G S]].
  destruct (occupied_used s v vl i r I G S) as [H1 H2].
  assert (G' : vget v (vols (set_slot v i None s)) = Some (set_slots vl (sset i None (vslots vl)))).
  { unfold set_slot; cbn. now rewrite (vget_vupd_same v _ _ vl) by (auto; reflexivity). }
  destruct (vol_usage_some v (-1) _ _ G') as [s' U]; [cbn; lia|unfold set_slot; cbn; lia|].
  rewrite U. discriminate.
Qed.

(** volume operations *)
Lemma grow_no_panic v n s : inv s -> n <> 0%N -> grow v n s <> Panic.
Proof.
  intros I Hn. unfold grow. replace (n =? 0)%N with false by lia.
  destruct (vget v (vols s)) as [vl|] eqn:G; [|discriminate].
  destruct (Z.of_N n <=? vtotal vl) eqn:E1; [discriminate|].
  destruct (vtotal vl <? 0); [discriminate|].
  destruct (existsb _ _); [discriminate|].
  destruct (total_nonneg s vl I (proj1 (vget_in v _ vl G))) as [H1 H2].
  rewrite stat_inc_eq by lia. cbn. discriminate.
Qed.

Lemma shrink_no_panic v n s : inv s -> n <> 0%N ->
  (forall vl, vget v (vols s) = Some vl -> Z.of_N n <= vtotal vl) -> shrink v n s <> Panic.
Proof.
  intros I Hn Hle. unfold shrink. replace (n =? 0)%N with false by lia.
  destruct (vget v (vols s)) as [vl|] eqn:G.
  2:{ destruct (existsb _ []); discriminate. }
  destruct (existsb _ (vslots vl)); [discriminate|].
  specialize (Hle vl eq_refl). replace (vtotal vl <? Z.of_N n) with false by lia.
  destruct (total_nonneg s vl I (proj1 (vget_in v _ vl G))) as [H1 H2].
  rewrite stat_inc_eq by lia. cbn. discriminate.
Qed.

Lemma remove_vol_no_panic v force s : inv s -> remove_vol v force s <> Panic.
Proof.
  intros I. unfold remove_vol. destruct (vget v (vols s)) as [vl|] eqn:G; [|discriminate].
  destruct (negb force && _); [discriminate|].
  pose proof (proj1 (vget_in v _ vl G)) as Hin.
  destruct (used_nonneg s vl I Hin) as [U1 U2]. destruct (total_nonneg s vl I Hin) as [T1 T2].
  pose proof (inv_vol s I) as HF. rewrite Forall_forall in HF. destruct (HF vl Hin) as [_ [Ht Hu]].
  rewrite stat_inc_eq by lia. cbn [bind].
  rewrite stat_inc_eq by (pose proof (inv_lost s I); lia). cbn [bind].
  rewrite stat_inc_eq by lia. cbn. discriminate.
Qed.

(** references *)
Lemma add_temps_no_panic l s : inv s -> add_temps l s <> Panic.
Proof.
  intros I. unfold add_temps. destruct (negb _); [discriminate|].
  rewrite stat_inc_eq by (rewrite (inv_temp s I); lia). cbn. discriminate.
Qed.

Lemma add_temp1_no_panic r e s : inv s -> add_temp1 r e s <> Panic.
Proof.
  intros I. unfold add_temp1. destruct (negb _); [discriminate|].
  rewrite stat_inc_eq by (rewrite (inv_temp s I); lia). cbn. discriminate.
Qed.

Lemma drop_temp_no_panic pos h s : inv s -> drop_temp pos h s <> Panic.
Proof.
  intros I. unfold drop_temp. destruct (nth_error (temps s) (N.to_nat pos)) as [t|] eqn:E; [|discriminate].
  destruct (temp_live h t); [discriminate|].
  assert (H : (N.to_nat pos < length (temps s))%nat) by (apply nth_error_Some; congruence).
  rewrite stat_inc_eq by (rewrite (inv_temp s I); lia). cbn. discriminate.
Qed.

Lemma cget_len k v2 l c : cget k v2 l = Some c -> Z.of_nat (length (croots c)) <= csum l.
Proof.
  induction l as [|x t IH]; cbn; [discriminate|].
  destruct (ckey k v2 x).
  - intros [= ->]. unfold csum; cbn. fold (csum t). pose proof (csum_nonneg t). lia.
  - intros H. specialize (IH H). unfold csum in *; cbn. lia.
Qed.

Lemma drop_root_no_panic c v2 pos h s : inv s -> drop_root c v2 pos h s <> Panic.
Proof.
  intros I. unfold drop_root. destruct (cget c v2 (cons s)) as [ct|] eqn:G; [|discriminate].
  destruct (exp_sel v2 h ct && (pos <? len (croots ct))%N) eqn:E; [|discriminate].
  apply Bool.andb_true_iff in E as [_ E]. unfold len in E.
  pose proof (cget_len c v2 _ ct G).
  rewrite stat_inc_eq by (rewrite (inv_contract s I); lia). cbn. discriminate.
Qed.

Lemma revise_v2_no_panic c new s : inv s -> revise_v2 c new s <> Panic.
Proof.
  intros I. unfold revise_v2. destruct (cget c true (cons s)) as [ct|] eqn:G; [|discriminate].
  destruct (negb _); [discriminate|].
  pose proof (cget_len c true _ ct G).
  rewrite stat_inc_eq by (rewrite (inv_contract s I); lia). cbn. discriminate.
Qed.

Definition no_self_swap (chs : list change) : bool :=
  forallb (fun c => match c with CSwap i j => negb (i =? j)%N | _ => true end) chs.

Lemma apply_changes_no_panic kn chs : forall roots m,
  no_self_swap chs = true -> Z.of_nat (length roots) <= m -> apply_changes kn roots m chs <> Panic.
Proof.
  induction chs as [|ch t IH]; intros roots m NS Hm; cbn [apply_changes]; [discriminate|].
  cbn in NS. apply Bool.andb_true_iff in NS as [N1 N2].
  destruct ch as [r|n|r i|i j].
  - destruct (negb (mem r kn)); [discriminate|].
    rewrite stat_inc_eq by lia. cbn [bind]. apply IH; auto. rewrite app_length; cbn. lia.
  - destruct (len roots <? n)%N eqn:E; [discriminate|]. unfold len in E.
    rewrite stat_inc_eq by lia. cbn [bind]. apply IH; auto. rewrite firstn_length. lia.
  - destruct (len roots <=? i)%N; [discriminate|]. destruct (negb (mem r kn)); [discriminate|].
    apply IH; auto. now rewrite set_nth_length.
  - replace (N.min i j =? N.max i j)%N with false by lia.
    destruct (len roots <=? N.max i j)%N; [discriminate|].
    apply IH; auto. now rewrite !set_nth_length.
Qed.

Lemma revise_v1_no_panic c chs s : inv s -> no_self_swap chs = true -> revise_v1 c chs s <> Panic.
Proof.
  intros I NS. unfold revise_v1. destruct (cget c false (cons s)) as [ct|] eqn:G; [|discriminate].
  pose proof (cget_len c false _ ct G).
  destruct (apply_changes _ _ _ _) as [[roots m]| |] eqn:A; cbn; try discriminate.
  exfalso. apply (apply_changes_no_panic (known s) chs (croots ct) (mContract (mets s)) NS); [|exact A].
  rewrite (inv_contract s I). lia.
Qed.

(** migration *)
Lemma mig_move_no_panic v idx r to s vl tl :
  inv s -> vget v (vols s) = Some vl -> sget idx (vslots vl) = Some (Some r) ->
  vget (fst to) (vols s) = Some tl -> sget (snd to) (vslots tl) = Some None ->
  exists s', mig_move v idx r to s = Ok s'.
Proof.
  intros I G S Gt St. destruct to as [tv ti]. cbn [fst snd] in *. unfold mig_move. cbn [fst snd].
  destruct (v =? tv)%N eqn:Ev; [eexists; reflexivity|]. apply N.eqb_neq in Ev.
  destruct (occupied_used s v vl idx r I G S) as [H1 H2].
  set (s1 := set_slot tv ti (Some r) (set_slot v idx None s)).
  assert (G1 : vget v (vols s1) = Some (set_slots vl (sset idx None (vslots vl)))).
  { unfold s1, set_slot; cbn. rewrite vget_vupd_other; [|reflexivity|congruence].
    now rewrite (vget_vupd_same v _ _ vl) by (auto; reflexivity). }
  destruct (vol_usage_some v (-1) s1 _ G1) as [s2 U1]; [cbn; lia|unfold s1, set_slot; cbn; lia|].
  rewrite U1. cbn [bind].
  pose proof U1 as U1'. apply vol_usage_ok in U1' as [x1 [_ [_ [Hv1 [Hm1 _]]]]].
  destruct (used_nonneg s tl I (proj1 (vget_in tv _ tl Gt))) as [T1 T2].
  assert (G2 : vget tv (vols s2) = Some (set_slots tl (sset ti (Some r) (vslots tl)))).
  { rewrite Hv1. rewrite vget_vupd_other; [|reflexivity|exact Ev].
    unfold s1, set_slot; cbn. rewrite (vget_vupd_same tv _ _ tl); [reflexivity|reflexivity|].
    rewrite vget_vupd_other; [exact Gt|reflexivity|exact Ev]. }
  destruct (vol_usage_some tv 1 s2 _ G2) as [s3 U2]; [cbn; lia|rewrite Hm1; unfold s1, set_slot; cbn; lia|].
  eexists; exact U2.
Qed.

Lemma migrate_no_panic fuel : forall v start index calls mig fail s,
  inv s -> is_panic_obs (snd (migrate fuel v start index calls mig fail s)) = false.
Proof.
  induction fuel as [|f IH]; intros v start index calls mig fail s I; cbn [migrate]; [reflexivity|].
  destruct (next_occ index (slots_of v s) None) as [[idx r]|] eqn:Nx.
  2:{ destruct calls; reflexivity. }
  destruct (mig_has_target s v start); cbn [negb].
  2:{ destruct calls; reflexivity. }
  destruct calls as [|[[fidx to] ok] rest]; [reflexivity|].
  destruct ((fidx =? idx)%N && mig_valid_target s v start to) eqn:V; cbn [negb]; [|reflexivity].
  apply Bool.andb_true_iff in V as [_ V].
  destruct ok; [|apply IH; exact I].
  apply next_occ_in in Nx as [Nx|Nx]; [discriminate|].
  destruct (slots_of_get v s idx r I Nx) as [vl [G S]].
  destruct (mig_valid_slot s v start to V) as [tl [Gt St]].
  destruct (mig_move_no_panic v idx r to s vl tl I G S Gt St) as [s1 M]. rewrite M.
  apply IH. exact (inv_mig_move v idx r to s s1 vl tl I G S Gt St M).
Qed.

Lemma migrate_one_no_panic v start idx to ok s : inv s -> migrate_one v start idx to ok s <> Panic.
Proof.
  intros I. unfold migrate_one.
  destruct (sget idx (slots_of v s)) as [[r|]|] eqn:S; try discriminate.
  destruct (mig_valid_target s v start to && ok) eqn:V; [|discriminate].
  apply Bool.andb_true_iff in V as [V _].
  apply sget_in in S. destruct (slots_of_get v s idx r I S) as [vl [G S']].
  destruct (mig_valid_slot s v start to V) as [tl [Gt St]].
  destruct (mig_move_no_panic v idx r to s vl tl I G S' Gt St) as [s1 M]. rewrite M. discriminate.
Qed.

(** * The guards never fire *)
(* developer errors the code panics on by design: GrowVolume/ShrinkVolume with 0 sectors,
   ShrinkVolume above the current size, a swap of an out-of-range index with itself *)
Definition dev_error (s : state) (o : op) : bool :=
  match o with
  | Grow _ n => (n =? 0)%N
  | Shrink v n => (n =? 0)%N || match vget v (vols s) with Some vl => vtotal vl <? Z.of_N n | None => false end
  | ReviseV1 _ chs => negb (no_self_swap chs)
  | _ => false
  end.

Theorem no_guard_fires s o : inv s -> dev_error s o = false -> is_panic_obs (snd (step s o)) = false.
Proof.
  intros I D. destruct o; cbn [step dev_error] in *.
  all: try reflexivity.
  - destruct (add_vol v ro s); reflexivity.
  - pose proof (grow_no_panic v n s I) as H. destruct (grow v n s); cbn; try reflexivity. exfalso; apply H; [lia|reflexivity].
  - apply Bool.orb_false_iff in D as [D1 D2].
    assert (H : shrink v n s <> Panic).
    { apply shrink_no_panic; [exact I|lia|]. intros vl G. rewrite G in D2. lia. }
    destruct (shrink v n s); cbn; try reflexivity. congruence.
  - pose proof (remove_vol_no_panic v force s I) as H. destruct (remove_vol v force s); cbn; try reflexivity. congruence.
  - now apply store_no_panic.
  - now apply store_removed_no_panic.
  - now apply migrate_no_panic.
  - pose proof (remove_sector_no_panic r s I) as H. destruct (remove_sector r s); cbn; try reflexivity. congruence.
  - pose proof (add_temps_no_panic l s I) as H. destruct (add_temps l s); cbn; try reflexivity. congruence.
  - pose proof (add_temp1_no_panic r exp s I) as H. destruct (add_temp1 r exp s); cbn; try reflexivity. congruence.
  - rewrite (expire_temp_ok h s I). reflexivity.
  - destruct (add_contract c v2 endh neg s) eqn:E; cbn; try reflexivity.
    unfold add_contract in E. destruct (cget c v2 (cons s)); discriminate.
  - apply Bool.negb_false_iff in D.
    pose proof (revise_v1_no_panic c chs s I D) as H. destruct (revise_v1 c chs s); cbn; try reflexivity. congruence.
  - pose proof (revise_v2_no_panic c new s I) as H. destruct (revise_v2 c new s); cbn; try reflexivity. congruence.
  - destruct (renew old new v2 endh neg s) eqn:E; cbn; try reflexivity.
    unfold renew in E. destruct (cget new v2 (cons s)); [discriminate|]. destruct (cget old v2 (cons s)); discriminate.
  - rewrite (expire_cons_ok false h s I). reflexivity.
  - rewrite (expire_cons_ok true h s I). reflexivity.
  - destruct all; [|reflexivity]. destruct (prune_ok s I) as [m P]. rewrite P. reflexivity.
  - pose proof (drop_root_no_panic c v2 pos h s I) as H. destruct (drop_root c v2 pos h s); cbn; try reflexivity. congruence.
  - pose proof (drop_temp_no_panic pos h s I) as H. destruct (drop_temp pos h s); cbn; try reflexivity. congruence.
  - pose proof (prune_one_no_panic v i s I) as H. destruct (prune_one v i s); cbn; try reflexivity. congruence.
  - pose proof (migrate_one_no_panic v start idx to ok s I) as H. destruct (migrate_one v start idx to ok s); cbn; try reflexivity. congruence.
Qed.
