(* Storage/Model.v — metadata model of hostd's sector storage (property C08, base of C02).

   Mirrors, transaction by transaction,
     persist/sqlite/volumes.go   AddVolume GrowVolume ShrinkVolume RemoveVolume SetReadOnly
                                 SetAvailable StoreSector MigrateSectors emptyLocation(ForMigration)
     persist/sqlite/sectors.go   RemoveSector SectorLocation HasSector SectorReferences AddTempSector
                                 AddTemporarySectors ExpireTempSectors PruneSectors incrementVolumeUsage
     persist/sqlite/contracts.go AddContract AddV2Contract ReviseContract(append/trim/update/swap)
                                 ReviseV2Contract(updateV2ContractSectors) RenewContract RenewV2Contract
                                 ExpireContractSectors ExpireV2ContractSectors (+ their selections)
     persist/sqlite/consensus.go RejectContracts (status only)
     persist/sqlite/metrics.go   incrementNumericStat (total/physical/lost/contract/temp sectors)

   Tables: storage_volumes + volume_sectors = [vols]; stored_sectors = [known] (a sector is
   identified by its root, numbered by the harness); temp_storage_sector_roots = [temps];
   contracts/contracts_v2 + contract_(v2_)sector_roots = [cons]; host_stats = [mets].

   The v2 expiry selection is modelled as in the code WITH fixes/C08-v2-expiry-status.patch
   (contract_status compared with the v2 TEXT constant): see [exp_sel]; StoreSector's rollback
   WITH fixes/C08-store-rollback-conditional.patch: see [rollback].

   Choices SQLite makes (which empty slot, which volume id) are carried by the operation as
   observed on the implementation and *validated* by the model ([OBad] if the implementation
   chose something the code's WHERE clause does not allow).  Wear levelling (sector_writes) is
   not modelled.  Every Store method body is one transaction (one connection), so a step is
   atomic; the batch loops (expire, prune, remove volume, migrate) are modelled as their
   fixpoint, and additionally as single-row micro operations (DropRoot, DropTemp, PruneOne,
   MigrateOne) so that op sequences also cover every interleaving at batch granularity.
   Batch.v models the same loops one committed batch (transaction) at a time, with the real
   batch size and the rows SQLite picked; BatchProofs*.v prove the fixpoints below equal to the
   iteration of those batches.  No proofs here. *)
From HostdBase Require Import Base.

(** * Slots of one volume: volume_sectors rows (volume_index, sector_id) *)
Definition slots := list (N * option N).

Fixpoint sget (i : N) (l : slots) : option (option N) :=
  match l with
  | [] => None
  | (j, x) :: t => if (i =? j)%N then Some x else sget i t
  end.

(* UPDATE volume_sectors SET sector_id=x WHERE id=<row of index i> *)
Fixpoint sset (i : N) (x : option N) (l : slots) : slots :=
  match l with
  | [] => []
  | (j, y) :: t => if (i =? j)%N then (j, x) :: t else (j, y) :: sset i x t
  end.

Definition occ1 (x : option N) : Z := match x with Some _ => 1%Z | None => 0%Z end.
Definition is_root (r : N) (x : option N) : Z :=
  match x with Some r' => if (r =? r')%N then 1%Z else 0%Z | None => 0%Z end.

Fixpoint wsum (f : option N -> Z) (l : slots) : Z :=
  match l with [] => 0%Z | (_, x) :: t => (f x + wsum f t)%Z end.

(* index of the slot holding sector r *)
Fixpoint sfind (r : N) (l : slots) : option N :=
  match l with
  | [] => None
  | (j, Some r') :: t => if (r =? r')%N then Some j else sfind r t
  | (_, None) :: t => sfind r t
  end.

Definition is_none {A} (x : option A) : bool := match x with None => true | Some _ => false end.
Definition is_some {A} (x : option A) : bool := match x with None => false | Some _ => true end.

Fixpoint mem (r : N) (l : list N) : bool :=
  match l with [] => false | x :: t => (r =? x)%N || mem r t end.

(** * Volumes: storage_volumes rows *)
Record vol := { vid : N; vro : bool; vavail : bool; vtotal : Z; vused : Z; vslots : slots }.

Definition set_slots (v : vol) (l : slots) : vol :=
  {| vid := vid v; vro := vro v; vavail := vavail v; vtotal := vtotal v; vused := vused v; vslots := l |}.
Definition set_used (v : vol) (u : Z) : vol :=
  {| vid := vid v; vro := vro v; vavail := vavail v; vtotal := vtotal v; vused := u; vslots := vslots v |}.
Definition set_total (v : vol) (t : Z) : vol :=
  {| vid := vid v; vro := vro v; vavail := vavail v; vtotal := t; vused := vused v; vslots := vslots v |}.
Definition set_ro (v : vol) (b : bool) : vol :=
  {| vid := vid v; vro := b; vavail := vavail v; vtotal := vtotal v; vused := vused v; vslots := vslots v |}.
Definition set_avail (v : vol) (b : bool) : vol :=
  {| vid := vid v; vro := vro v; vavail := b; vtotal := vtotal v; vused := vused v; vslots := vslots v |}.

Fixpoint vget (v : N) (l : list vol) : option vol :=
  match l with [] => None | x :: t => if (v =? vid x)%N then Some x else vget v t end.
Fixpoint vupd (v : N) (f : vol -> vol) (l : list vol) : list vol :=
  match l with [] => [] | x :: t => if (v =? vid x)%N then f x :: t else x :: vupd v f t end.
Fixpoint vdel (v : N) (l : list vol) : list vol :=
  match l with [] => [] | x :: t => if (v =? vid x)%N then t else x :: vdel v t end.
(* rows are listed ORDER BY id *)
Fixpoint vins (n : vol) (l : list vol) : list vol :=
  match l with [] => [n] | x :: t => if (vid n <? vid x)%N then n :: x :: t else x :: vins n t end.

Fixpoint vfind (r : N) (l : list vol) : option (N * N) :=
  match l with
  | [] => None
  | x :: t => match sfind r (vslots x) with Some j => Some (vid x, j) | None => vfind r t end
  end.

(** * Contracts (both versions) with their root lists, temp storage, metrics *)
Record contract := { cid : N; cv2 : bool; crej : bool; cend : N; cneg : N; croots : list N }.
Definition set_roots (c : contract) (l : list N) : contract :=
  {| cid := cid c; cv2 := cv2 c; crej := crej c; cend := cend c; cneg := cneg c; croots := l |}.
Definition set_rej (c : contract) (b : bool) : contract :=
  {| cid := cid c; cv2 := cv2 c; crej := b; cend := cend c; cneg := cneg c; croots := croots c |}.

Definition ckey (k : N) (v2 : bool) (c : contract) : bool := (k =? cid c)%N && Bool.eqb v2 (cv2 c).
Fixpoint cget (k : N) (v2 : bool) (l : list contract) : option contract :=
  match l with [] => None | c :: t => if ckey k v2 c then Some c else cget k v2 t end.
Fixpoint cupd (k : N) (v2 : bool) (f : contract -> contract) (l : list contract) : list contract :=
  match l with [] => [] | c :: t => if ckey k v2 c then f c :: t else c :: cupd k v2 f t end.

Record met := { mTotal : Z; mPhys : Z; mLost : Z; mContract : Z; mTemp : Z }.
Definition set_mTotal (m : met) (x : Z) := {| mTotal := x; mPhys := mPhys m; mLost := mLost m; mContract := mContract m; mTemp := mTemp m |}.
Definition set_mPhys (m : met) (x : Z) := {| mTotal := mTotal m; mPhys := x; mLost := mLost m; mContract := mContract m; mTemp := mTemp m |}.
Definition set_mLost (m : met) (x : Z) := {| mTotal := mTotal m; mPhys := mPhys m; mLost := x; mContract := mContract m; mTemp := mTemp m |}.
Definition set_mContract (m : met) (x : Z) := {| mTotal := mTotal m; mPhys := mPhys m; mLost := mLost m; mContract := x; mTemp := mTemp m |}.
Definition set_mTemp (m : met) (x : Z) := {| mTotal := mTotal m; mPhys := mPhys m; mLost := mLost m; mContract := mContract m; mTemp := x |}.

Record state := { vols : list vol; known : list N; temps : list (N * N); cons : list contract; mets : met }.
Definition init : state :=
  {| vols := []; known := []; temps := []; cons := [];
     mets := {| mTotal := 0; mPhys := 0; mLost := 0; mContract := 0; mTemp := 0 |} |}.

Definition with_vols (s : state) (v : list vol) : state :=
  {| vols := v; known := known s; temps := temps s; cons := cons s; mets := mets s |}.
Definition with_known (s : state) (k : list N) : state :=
  {| vols := vols s; known := k; temps := temps s; cons := cons s; mets := mets s |}.
Definition with_temps (s : state) (t : list (N * N)) : state :=
  {| vols := vols s; known := known s; temps := t; cons := cons s; mets := mets s |}.
Definition with_cons (s : state) (c : list contract) : state :=
  {| vols := vols s; known := known s; temps := temps s; cons := c; mets := mets s |}.
Definition with_mets (s : state) (m : met) : state :=
  {| vols := vols s; known := known s; temps := temps s; cons := cons s; mets := m |}.

(* incrementNumericStat: no-op for delta 0, panics when the value would go negative *)
Definition stat_inc (cur delta : Z) : res Z :=
  if (delta =? 0)%Z then Ok cur
  else if (cur + delta <? 0)%Z then Panic else Ok (cur + delta)%Z.

(* incrementVolumeUsage *)
Definition vol_usage (v : N) (delta : Z) (s : state) : res state :=
  match vget v (vols s) with
  | None => Err EOther
  | Some vl =>
      if (vused vl + delta <? 0)%Z then Panic
      else do p <- stat_inc (mPhys (mets s)) delta ;
           Ok (with_mets (with_vols s (vupd v (fun x => set_used x (vused x + delta)%Z) (vols s)))
                         (set_mPhys (mets s) p))
  end.

Definition set_slot (v i : N) (x : option N) (s : state) : state :=
  with_vols s (vupd v (fun vl => set_slots vl (sset i x (vslots vl))) (vols s)).

Definition add_known (r : N) (s : state) : state :=
  if mem r (known s) then s else with_known s (r :: known s).

(** * Volume operations *)
Definition add_vol (v : N) (ro : bool) (s : state) : option state :=
  match vget v (vols s) with
  | Some _ => None      (* the store cannot hand out an id that is in use *)
  | None => Some (with_vols s (vins {| vid := v; vro := ro; vavail := false; vtotal := 0; vused := 0; vslots := [] |} (vols s)))
  end.

Fixpoint nseq (from : N) (n : nat) : list N :=
  match n with O => [] | S k => from :: nseq (N.succ from) k end.

(* growVolume *)
Definition grow (v n : N) (s : state) : res state :=
  if (n =? 0)%N then Panic else
  match vget v (vols s) with
  | None => Err EOther
  | Some vl =>
      if (Z.of_N n <=? vtotal vl)%Z then Ok s
      else if (vtotal vl <? 0)%Z then Err EOther
      else
        let from := Z.to_N (vtotal vl) in
        let new := nseq from (N.to_nat (n - from)) in
        (* INSERT INTO volume_sectors: UNIQUE (volume_id, volume_index) *)
        if existsb (fun i => is_some (sget i (vslots vl))) new then Err EOther
        else do t <- stat_inc (mTotal (mets s)) (Z.of_N n - vtotal vl) ;
             Ok (with_mets
                   (with_vols s (vupd v (fun x => set_total (set_slots x (vslots x ++ map (fun i => (i, None)) new)) (Z.of_N n)) (vols s)))
                   (set_mTotal (mets s) t))
  end.

(* ShrinkVolume *)
Definition shrink (v n : N) (s : state) : res state :=
  if (n =? 0)%N then Panic else
  let sl := match vget v (vols s) with Some vl => vslots vl | None => [] end in
  if existsb (fun x => (n <=? fst x)%N && is_some (snd x)) sl then Err EInvalid else
  match vget v (vols s) with
  | None => Err EOther
  | Some vl =>
      if (vtotal vl <? Z.of_N n)%Z then Panic
      else do t <- stat_inc (mTotal (mets s)) (Z.of_N n - vtotal vl) ;
           Ok (with_mets
                 (with_vols s (vupd v (fun x => set_total (set_slots x (filter (fun y => (fst y <? n)%N) (vslots x))) (Z.of_N n)) (vols s)))
                 (set_mTotal (mets s) t))
  end.

(* RemoveVolume: the batch loop followed by the final delete.  Without force every batch
   first checks that no slot of the volume is occupied. *)
Definition remove_vol (v : N) (force : bool) (s : state) : res state :=
  match vget v (vols s) with
  | None => Err ENotFound
  | Some vl =>
      let lost := wsum occ1 (vslots vl) in
      let removed := Z.of_nat (length (vslots vl)) in
      if negb force && negb (lost =? 0)%Z then Err EInvalid
      else do p <- stat_inc (mPhys (mets s)) (- lost) ;
           do lo <- stat_inc (mLost (mets s)) lost ;
           do t <- stat_inc (mTotal (mets s)) (- removed) ;
           Ok (with_mets (with_vols s (vdel v (vols s)))
                         (set_mTotal (set_mLost (set_mPhys (mets s) p) lo) t))
  end.

Definition set_flag (v : N) (f : vol -> vol) (s : state) : state := with_vols s (vupd v f (vols s)).

(** * Sector placement *)
(* emptyLocation: WHERE vs.sector_id IS NULL AND sv.available=true AND sv.read_only=false *)
Definition writable (vl : vol) : bool := vavail vl && negb (vro vl).
Definition has_empty (l : slots) : bool := existsb (fun x => is_none (snd x)) l.
Definition has_free (s : state) : bool := existsb (fun vl => writable vl && has_empty (vslots vl)) (vols s).
Definition valid_free (s : state) (v i : N) : bool :=
  match vget v (vols s) with
  | Some vl => writable vl && match sget i (vslots vl) with Some None => true | _ => false end
  | None => false
  end.

Inductive change := CAppend (r : N) | CTrim (n : N) | CUpdate (r i : N) | CSwap (i j : N).

Inductive op :=
| AddVol (v : N) (ro : bool)                     (* v: the id the store returned *)
| Grow (v n : N) | Shrink (v n : N) | RemoveVol (v : N) (force : bool)
| SetRO (v : N) (b : bool) | SetAvail (v : N) (b : bool)
| Store (r : N) (loc : option (N * N)) (ok : bool)  (* loc: location handed to fn (None: fn not called); ok: fn's result *)
| StoreRemoved (r : N) (loc : option (N * N))       (* fn calls RemoveSector r, then fails *)
| Migrate (v start : N) (calls : list (N * (N * N) * bool))  (* per migrateFn call: from index, to location, result *)
| RemoveSector (r : N) | Location (r : N) | Has (r : N) | Refs (r : N)
| AddTemp (l : list (N * N)) | AddTemp1 (r exp : N) | ExpireTemp (h : N)
| AddC (c : N) (v2 : bool) (endh neg : N) | Reject (h : N)
| ReviseV1 (c : N) (chs : list change) | ReviseV2 (c : N) (new : list N)
| Renew (old new : N) (v2 : bool) (endh neg : N)
| ExpireV1 (h : N) | ExpireV2 (h : N) | Prune (all : bool)
| Snapshot (rs : list N)
(* single-row pieces of the batch loops (model only) *)
| DropRoot (c : N) (v2 : bool) (pos h : N) | DropTemp (pos h : N) | PruneOne (v i : N)
| MigrateOne (v start idx : N) (to : N * N) (ok : bool).

Inductive obs :=
| ORes (r : res unit)
| OLoc (l : option (N * N))
| OHas (b : bool)
| ORefs (n : option (N * N))   (* SectorReferences: distinct v1 contracts, temp entries; None: unknown root *)
| OMig (migrated failed : N) (r : res unit)
| OSnap (vs : list (N * bool * bool * Z * Z)) (m : Z * Z * Z * Z * Z)
        (locs : list (option (N * N))) (cr : list (N * bool * list N))
| OBad.   (* the implementation made a choice the modelled code cannot make *)

Definition fin (s : state) (r : res state) : state * obs :=
  match r with
  | Ok s' => (s', ORes (Ok tt))
  | Err e => (s, ORes (Err e))
  | Panic => (s, ORes Panic)
  end.

(* StoreSector, first transaction: the sector exists / there is no room / it is placed at the
   location the implementation picked *)
Inductive rsv := RExists | RFull | RPlaced (s1 : state) (v i : N) | RFail (o : obs) | RBad.

Definition reserve (r : N) (loc : option (N * N)) (s : state) : rsv :=
  match vfind r (vols s) with
  | Some _ => match loc with None => RExists | Some _ => RBad end
  | None =>
      if negb (has_free s) then match loc with None => RFull | Some _ => RBad end
      else match loc with
           | None => RBad
           | Some (v, i) =>
               if negb (valid_free s v i) then RBad else
               match vol_usage v 1 (set_slot v i (Some r) (add_known r s)) with
               | Ok s1 => RPlaced s1 v i
               | Err e => RFail (ORes (Err EOther))
               | Panic => RFail (ORes Panic)
               end
           end
  end.

Definition slots_of (v : N) (s : state) : slots :=
  match vget v (vols s) with Some vl => vslots vl | None => [] end.

(* StoreSector, rollback transaction after fn failed (best effort: its own failure is only
   logged).  As patched by fixes/C08-store-rollback-conditional.patch: the slot is released and
   the usage decremented only if the slot still holds the sector. *)
Definition rollback (r v i : N) (s1 : state) : state * obs :=
  match sget i (slots_of v s1) with
  | Some (Some r') =>
      if (r' =? r)%N then
        match vol_usage v (-1) (set_slot v i None s1) with
        | Ok s2 => (s2, ORes (Err EOther))
        | Err _ => (s1, ORes (Err EOther))
        | Panic => (s1, ORes Panic)
        end
      else (s1, ORes (Err EOther))
  | _ => (s1, ORes (Err EOther))
  end.

Definition store (r : N) (loc : option (N * N)) (ok : bool) (s : state) : state * obs :=
  match reserve r loc s with
  | RExists => (add_known r s, ORes (Ok tt))
  | RFull => (s, ORes (Err ENotEnoughStorage))
  | RPlaced s1 v i => if ok then (s1, ORes (Ok tt)) else rollback r v i s1
  | RFail o => (s, o)
  | RBad => (s, OBad)
  end.

(* RemoveSector *)
Definition remove_sector (r : N) (s : state) : res state :=
  if negb (mem r (known s)) then Err ENotFound else
  match vfind r (vols s) with
  | None => Err ENotFound
  | Some (v, i) =>
      do s1 <- vol_usage v (-1) (set_slot v i None s) ;
      do lo <- stat_inc (mLost (mets s1)) 1 ;
      Ok (with_mets s1 (set_mLost (mets s1) lo))
  end.

(* a write whose fn removes the very sector (operator's RemoveSector racing the upload) and
   then fails *)
Definition store_removed (r : N) (loc : option (N * N)) (s : state) : state * obs :=
  match reserve r loc s with
  | RPlaced s1 v i =>
      match remove_sector r s1 with
      | Ok s2 => rollback r v i s2
      | _ => (s, OBad)
      end
  | _ => (s, OBad)
  end.

(** * Migration (one transaction per sector) *)
(* next occupied slot with index >= from: ORDER BY volume_index ASC LIMIT 1 *)
Fixpoint next_occ (from : N) (l : slots) (best : option (N * N)) : option (N * N) :=
  match l with
  | [] => best
  | (j, Some r) :: t =>
      if (from <=? j)%N
      then next_occ from t (match best with Some (b, _) => if (j <? b)%N then Some (j, r) else best | None => Some (j, r) end)
      else next_occ from t best
  | (_, None) :: t => next_occ from t best
  end.

(* emptyLocationForMigration: emptyLocation, else (start > 0) an empty slot below start in the same volume *)
Definition has_empty_below (start : N) (l : slots) : bool :=
  existsb (fun x => is_none (snd x) && (fst x <? start)%N) l.
Definition mig_has_target (s : state) (v start : N) : bool :=
  has_free s || (negb (start =? 0)%N &&
                 match vget v (vols s) with Some vl => has_empty_below start (vslots vl) | None => false end).
Definition mig_valid_target (s : state) (v start : N) (to : N * N) : bool :=
  if has_free s then valid_free s (fst to) (snd to)
  else negb (start =? 0)%N && (fst to =? v)%N && (snd to <? start)%N &&
       match vget v (vols s) with
       | Some vl => match sget (snd to) (vslots vl) with Some None => true | _ => false end
       | None => false
       end.

(* the swap inside the transaction, after migrateFn succeeded *)
Definition mig_move (v idx r : N) (to : N * N) (s : state) : res state :=
  let s1 := set_slot (fst to) (snd to) (Some r) (set_slot v idx None s) in
  if (v =? fst to)%N then Ok s1
  else do s2 <- vol_usage v (-1) s1 ; vol_usage (fst to) 1 s2.

Fixpoint migrate (fuel : nat) (v start index : N) (calls : list (N * (N * N) * bool))
         (mig fail : N) (s : state) : state * obs :=
  match fuel with
  | O => (s, OBad)
  | S f =>
      match next_occ index (slots_of v s) None with
      | None => match calls with [] => (s, OMig mig fail (Ok tt)) | _ => (s, OBad) end
      | Some (idx, r) =>
          if negb (mig_has_target s v start)
          then match calls with [] => (s, OMig mig fail (Err ENotEnoughStorage)) | _ => (s, OBad) end
          else match calls with
               | [] => (s, OBad)
               | (fidx, to, ok) :: rest =>
                   if negb ((fidx =? idx)%N && mig_valid_target s v start to) then (s, OBad)
                   else if ok then
                     match mig_move v idx r to s with
                     | Ok s' => migrate f v start (idx + 1)%N rest (mig + 1)%N fail s'
                     | Err e => (s, OMig mig fail (Err EOther))
                     | Panic => (s, OMig mig fail Panic)
                     end
                   else migrate f v start (idx + 1)%N rest mig (fail + 1)%N s
               end
      end
  end.

Definition migrate_one (v start idx : N) (to : N * N) (ok : bool) (s : state) : res state :=
  match sget idx (slots_of v s) with
  | Some (Some r) =>
      if mig_valid_target s v start to && ok then mig_move v idx r to s else Ok s
  | _ => Ok s
  end.

(** * References *)
Definition refd (s : state) (r : N) : bool :=
  existsb (fun c => mem r (croots c)) (cons s) || existsb (fun t => (fst t =? r)%N) (temps s).

Definition add_temps (l : list (N * N)) (s : state) : res state :=
  if negb (forallb (fun t => mem (fst t) (known s)) l) then Err EOther
  else do m <- stat_inc (mTemp (mets s)) (Z.of_nat (length l)) ;
       Ok (with_mets (with_temps s (temps s ++ l)) (set_mTemp (mets s) m)).

Definition add_temp1 (r exp : N) (s : state) : res state :=
  if negb (mem r (known s) && is_some (vfind r (vols s))) then Err ENotFound
  else do m <- stat_inc (mTemp (mets s)) 1 ;
       Ok (with_mets (with_temps s (temps s ++ [(r, exp)])) (set_mTemp (mets s) m)).

(* deleteTempSectors: expiration_height <= height *)
Definition temp_live (h : N) (t : N * N) : bool := (h <? snd t)%N.
Definition expire_temp (h : N) (s : state) : res state :=
  let keep := filter (temp_live h) (temps s) in
  do m <- stat_inc (mTemp (mets s)) (Z.of_nat (length keep) - Z.of_nat (length (temps s))) ;
  Ok (with_mets (with_temps s keep) (set_mTemp (mets s) m)).

Definition add_contract (c : N) (v2 : bool) (endh neg : N) (s : state) : res state :=
  match cget c v2 (cons s) with
  | Some _ => Err EOther
  | None => Ok (with_cons s (cons s ++ [{| cid := c; cv2 := v2; crej := false; cend := endh; cneg := neg; croots := [] |}]))
  end.

(* rejectContracts / rejectV2Contracts: not confirmed, negotiation_height < height *)
Definition reject (h : N) (s : state) : state :=
  with_cons s (map (fun c => if (cneg c <? h)%N then set_rej c true else c) (cons s)).

Fixpoint set_nth (i : nat) (x : N) (l : list N) : list N :=
  match l, i with
  | [], _ => []
  | _ :: t, O => x :: t
  | y :: t, S k => y :: set_nth k x t
  end.

Definition len (l : list N) : N := N.of_nat (length l).

(* Store.ReviseContract's replay of the sector changes (the caller's root list is the stored
   one: contracts.Manager passes its cache, C03) *)
Fixpoint apply_changes (kn : list N) (roots : list N) (m : Z) (chs : list change) : res (list N * Z) :=
  match chs with
  | [] => Ok (roots, m)
  | CAppend r :: t =>
      if negb (mem r kn) then Err EOther
      else do m' <- stat_inc m 1 ; apply_changes kn (roots ++ [r]) m' t
  | CTrim n :: t =>
      if (len roots <? n)%N then Err EOther
      else do m' <- stat_inc m (- Z.of_N n) ;
           apply_changes kn (firstn (length roots - N.to_nat n) roots) m' t
  | CUpdate r i :: t =>
      if (len roots <=? i)%N then Err EOther
      else if negb (mem r kn) then Err EOther
      else apply_changes kn (set_nth (N.to_nat i) r roots) m t
  | CSwap i j :: t =>
      let a := N.min i j in let b := N.max i j in
      if (a =? b)%N then
        (if (len roots <=? a)%N then Panic else apply_changes kn roots m t)
      else if (len roots <=? b)%N then Err EOther
      else let ra := nth (N.to_nat a) roots 0%N in let rb := nth (N.to_nat b) roots 0%N in
           apply_changes kn (set_nth (N.to_nat b) ra (set_nth (N.to_nat a) rb roots)) m t
  end.

Definition revise_v1 (c : N) (chs : list change) (s : state) : res state :=
  match cget c false (cons s) with
  | None => Err EOther
  | Some ct =>
      do (roots, m) <- apply_changes (known s) (croots ct) (mContract (mets s)) chs ;
      Ok (with_mets (with_cons s (cupd c false (fun x => set_roots x roots) (cons s)))
                    (set_mContract (mets s) m))
  end.

(* updateV2ContractSectors with oldRoots = the stored list *)
Fixpoint v2_known (kn : list N) (cur new : list N) : bool :=
  match new with
  | [] => true
  | r :: new' =>
      match cur with
      | c :: cur' => ((r =? c)%N || mem r kn) && v2_known kn cur' new'
      | [] => mem r kn && v2_known kn [] new'
      end
  end.

Definition revise_v2 (c : N) (new : list N) (s : state) : res state :=
  match cget c true (cons s) with
  | None => Err EOther
  | Some ct =>
      if negb (v2_known (known s) (croots ct) new) then Err EOther
      else do m <- stat_inc (mContract (mets s)) (Z.of_nat (length new) - Z.of_nat (length (croots ct))) ;
           Ok (with_mets (with_cons s (cupd c true (fun x => set_roots x new) (cons s)))
                         (set_mContract (mets s) m))
  end.

(* RenewContract / RenewV2Contract: insert the renewal, move the sector roots over *)
Definition renew (old new : N) (v2 : bool) (endh neg : N) (s : state) : res state :=
  match cget new v2 (cons s) with
  | Some _ => Err EOther
  | None =>
      match cget old v2 (cons s) with
      | None => Err EOther
      | Some oc =>
          Ok (with_cons s (cupd old v2 (fun x => set_roots x []) (cons s)
                           ++ [{| cid := new; cv2 := v2; crej := false; cend := endh; cneg := neg; croots := croots oc |}]))
      end
  end.

(* deleteExpiredContractSectors:   c.window_end < $1 OR c.contract_status = rejected
   deleteExpiredV2ContractSectors: c.expiration_height < $1 OR c.contract_status = 'rejected'
   (the latter as patched by fixes/C08-v2-expiry-status.patch) *)
Definition exp_sel (v2 : bool) (h : N) (c : contract) : bool :=
  Bool.eqb (cv2 c) v2 && ((cend c <? h)%N || crej c).

Definition csum (l : list contract) : Z := fold_right (fun c a => (Z.of_nat (length (croots c)) + a)%Z) 0%Z l.

Definition expire_cons (v2 : bool) (h : N) (s : state) : res state :=
  let l' := map (fun c => if exp_sel v2 h c then set_roots c [] else c) (cons s) in
  do m <- stat_inc (mContract (mets s)) (csum l' - csum (cons s)) ;
  Ok (with_mets (with_cons s l') (set_mContract (mets s) m)).

(** * Prune *)
Definition pslots (f : N -> bool) (l : slots) : slots :=
  map (fun sl => match snd sl with Some r => if f r then sl else (fst sl, None) | None => sl end) l.
Definition prunable (f : N -> bool) (x : option N) : Z :=
  match x with Some r => if f r then 0%Z else 1%Z | None => 0%Z end.

Fixpoint prune_vols (f : N -> bool) (l : list vol) : res (list vol * Z) :=
  match l with
  | [] => Ok ([], 0%Z)
  | vl :: t =>
      let c := wsum (prunable f) (vslots vl) in
      if (vused vl - c <? 0)%Z then Panic
      else do (t', n) <- prune_vols f t ;
           Ok (set_used (set_slots vl (pslots f (vslots vl))) (vused vl - c)%Z :: t', (c + n)%Z)
  end.

(* prune the slots whose sector fails [keep] *)
Definition prune_with (keep : N -> bool) (s : state) : res state :=
  do (vs, n) <- prune_vols keep (vols s) ;
  do p <- stat_inc (mPhys (mets s)) (- n) ;
  Ok (with_mets (with_vols s vs) (set_mPhys (mets s) p)).

(* all = the cutoff is later than every access (otherwise nothing qualifies) *)
Definition prune (all : bool) (s : state) : res state :=
  if negb all then Ok s else prune_with (refd s) s.

(** * Single-row pieces of the batch loops *)
Fixpoint del_nth (i : nat) (l : list N) : list N :=
  match l, i with [], _ => [] | _ :: t, O => t | y :: t, S k => y :: del_nth k t end.
Fixpoint del_nth_t (i : nat) (l : list (N * N)) : list (N * N) :=
  match l, i with [], _ => [] | _ :: t, O => t | y :: t, S k => y :: del_nth_t k t end.

Definition drop_root (c : N) (v2 : bool) (pos h : N) (s : state) : res state :=
  match cget c v2 (cons s) with
  | Some ct =>
      if exp_sel v2 h ct && (pos <? len (croots ct))%N then
        do m <- stat_inc (mContract (mets s)) (-1) ;
        Ok (with_mets (with_cons s (cupd c v2 (fun x => set_roots x (del_nth (N.to_nat pos) (croots x))) (cons s)))
                      (set_mContract (mets s) m))
      else Ok s
  | None => Ok s
  end.

Definition drop_temp (pos h : N) (s : state) : res state :=
  match nth_error (temps s) (N.to_nat pos) with
  | Some t =>
      if temp_live h t then Ok s
      else do m <- stat_inc (mTemp (mets s)) (-1) ;
           Ok (with_mets (with_temps s (del_nth_t (N.to_nat pos) (temps s))) (set_mTemp (mets s) m))
  | None => Ok s
  end.

Definition prune_one (v i : N) (s : state) : res state :=
  match sget i (slots_of v s) with
  | Some (Some r) => if refd s r then Ok s else vol_usage v (-1) (set_slot v i None s)
  | _ => Ok s
  end.

(** * Observations *)
Definition count_v1 (r : N) (l : list contract) : N :=
  N.of_nat (length (filter (fun c => negb (cv2 c) && mem r (croots c)) l)).
Definition count_temp (r : N) (l : list (N * N)) : N :=
  N.of_nat (length (filter (fun t => (fst t =? r)%N) l)).

Definition snapshot (rs : list N) (s : state) : obs :=
  OSnap (map (fun vl => (vid vl, vro vl, vavail vl, vtotal vl, vused vl)) (vols s))
        (mTotal (mets s), mPhys (mets s), mLost (mets s), mContract (mets s), mTemp (mets s))
        (map (fun r => if mem r (known s) then vfind r (vols s) else None) rs)
        (map (fun c => (cid c, cv2 c, croots c)) (filter (fun c => negb (is_none (hd_error (croots c)))) (cons s))).

Definition step (s : state) (o : op) : state * obs :=
  match o with
  | AddVol v ro => match add_vol v ro s with Some s' => (s', ORes (Ok tt)) | None => (s, OBad) end
  | Grow v n => fin s (grow v n s)
  | Shrink v n => fin s (shrink v n s)
  | RemoveVol v force => fin s (remove_vol v force s)
  | SetRO v b => (set_flag v (fun x => set_ro x b) s, ORes (Ok tt))
  | SetAvail v b => (set_flag v (fun x => set_avail x b) s, ORes (Ok tt))
  | Store r loc ok => store r loc ok s
  | StoreRemoved r loc => store_removed r loc s
  | Migrate v start calls => migrate (S (length (slots_of v s))) v start start calls 0 0 s
  | RemoveSector r => fin s (remove_sector r s)
  | Location r => (s, OLoc (if mem r (known s) then vfind r (vols s) else None))
  | Has r => (s, OHas (mem r (known s) && refd s r))
  | Refs r => (s, ORefs (if mem r (known s) then Some (count_v1 r (cons s), count_temp r (temps s)) else None))
  | AddTemp l => fin s (add_temps l s)
  | AddTemp1 r e => fin s (add_temp1 r e s)
  | ExpireTemp h => fin s (expire_temp h s)
  | AddC c v2 e n => fin s (add_contract c v2 e n s)
  | Reject h => (reject h s, ORes (Ok tt))
  | ReviseV1 c chs => fin s (revise_v1 c chs s)
  | ReviseV2 c new => fin s (revise_v2 c new s)
  | Renew old new v2 e n => fin s (renew old new v2 e n s)
  | ExpireV1 h => fin s (expire_cons false h s)
  | ExpireV2 h => fin s (expire_cons true h s)
  | Prune all => fin s (prune all s)
  | Snapshot rs => (s, snapshot rs s)
  | DropRoot c v2 pos h => fin s (drop_root c v2 pos h s)
  | DropTemp pos h => fin s (drop_temp pos h s)
  | PruneOne v i => fin s (prune_one v i s)
  | MigrateOne v start idx to ok => fin s (migrate_one v start idx to ok s)
  end.

(** * Correspondence entry point *)
Definition unit_eqb (_ _ : unit) : bool := true.
Definition loc_eqb (a b : N * N) : bool := ((fst a =? fst b) && (snd a =? snd b))%N.
Definition vrow_eqb (a b : N * bool * bool * Z * Z) : bool :=
  let '(i, r, av, t, u) := a in let '(i', r', av', t', u') := b in
  (i =? i')%N && Bool.eqb r r' && Bool.eqb av av' && (t =? t')%Z && (u =? u')%Z.
Definition met_eqb (a b : Z * Z * Z * Z * Z) : bool :=
  let '(t, p, l, c, m) := a in let '(t', p', l', c', m') := b in
  ((t =? t') && (p =? p') && (l =? l') && (c =? c') && (m =? m'))%Z.
Definition crow_eqb (a b : N * bool * list N) : bool :=
  let '(c, v, l) := a in let '(c', v', l') := b in
  (c =? c')%N && Bool.eqb v v' && list_eqb N.eqb l l'.

Definition obs_eqb (a b : obs) : bool :=
  match a, b with
  | ORes x, ORes y => res_eqb unit_eqb x y
  | OLoc x, OLoc y => option_eqb loc_eqb x y
  | OHas x, OHas y => Bool.eqb x y
  | ORefs x, ORefs y => option_eqb loc_eqb x y
  | OMig m f r, OMig m' f' r' => ((m =? m') && (f =? f'))%N && res_eqb unit_eqb r r'
  | OSnap v m l c, OSnap v' m' l' c' =>
      list_eqb vrow_eqb v v' && met_eqb m m' && list_eqb (option_eqb loc_eqb) l l' && list_eqb crow_eqb c c'
  | _, _ => false
  end.

Definition case := (N * list (op * obs))%type.
Definition check (cs : list case) := mismatches init step obs_eqb cs.
