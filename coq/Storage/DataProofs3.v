(* Storage/DataProofs3.v — last-access guard of PruneSectors and the changed-volume flags of Sync (C02) *)
From Coq Require Import Lia ZifyBool ZifyN ZifyNat.
From HostdBase Require Import Base.
From HostdStorage Require Import Model Lemmas Proofs Proofs2 DataModel DataLemmas DataProofs DataProofs2.

Arguments stat_inc : simpl never.
Arguments vol_usage : simpl never.
Arguments set_slot : simpl never.
Arguments csum : simpl never.

(** * PruneSectors spares what was accessed since the cutoff *)
Lemma touch_fresh r d : mem r (fresh (touch r d)) = true.
Proof. unfold touch. destruct (mem r (fresh d)) eqn:E; [exact E|]. cbn. now rewrite N.eqb_refl. Qed.

(* Write returning nil — through the StoreFunc or through "exists" — leaves the sector fresh *)
Lemma ack_fresh d t r loc :
  snd (dstep d (DReserve t r loc)) = OAck \/ snd (dstep d (DReserve t r loc)) = OPlaced ->
  mem r (fresh (fst (dstep d (DReserve t r loc)))) = true.
Proof.
  cbn [dstep]. unfold dreserve. destruct (alookup t (thr d)); [intros [H|H]; discriminate|].
  destruct (reserve r loc (md d)); cbn [fst snd]; intros [H|H]; try discriminate; apply touch_fresh.
Qed.

Lemma prune_spares_fresh d r : dinv d -> mem r (fresh d) = true ->
  (written d r -> written (fst (dstep d DPrune)) r) /\ (durable d r -> durable (fst (dstep d DPrune)) r).
Proof.
  intros I F. cbn [dstep]. unfold dprune.
  set (f := fun q => refd (md d) q || mem q (fresh d) || in_flight q (thr d)).
  destruct (prune_with_ok f (md d) (d_inv d I)) as [m P]. rewrite P. cbn [dres fst].
  assert (K : f r = true) by (unfold f; rewrite F; now rewrite Bool.orb_true_r).
  split.
  - intros [v [i [S C]]]. exists v, i. split; [|exact C]. cbn [md with_md]. rewrite slot_at_pruned, S, K. reflexivity.
  - intros [v [i [S [C D]]]]. exists v, i. split; [|auto]. cbn [md with_md]. rewrite slot_at_pruned, S, K. reflexivity.
Qed.

(** * The changed-volume flags: unsynced writer data is always on a flagged volume *)
Definition flag_inv (d : dstate) : Prop :=
  forall v i c, In (v, i, c) (pend d) -> mem v (changed d) = true.

(* the one interleaving that breaks it (reviewer lead 3; not reproducible on the implementation:
   the window between vol.Sync() returning and the delete has no call in it): a data write lands
   on the volume between its fsync and the deletion of its flag *)
Definition flag_ok (d : dstate) (o : dop) : Prop :=
  match o with
  | DClear t => match alookup t (syn d) with Some (_, Some v) => kof v (pend d) = [] | _ => True end
  | _ => True
  end.

Fixpoint flags_ok (d : dstate) (l : list dop) : Prop :=
  match l with [] => True | o :: t => flag_ok d o /\ flags_ok (fst (dstep d o)) t end.

Lemma in_kof v e m : In e (kof v m) <-> In e m /\ fst (fst e) = v.
Proof. unfold kof. rewrite filter_In, N.eqb_eq. tauto. Qed.
Lemma in_knot v e m : In e (knot v m) <-> In e m /\ fst (fst e) <> v.
Proof. unfold knot. rewrite filter_In, Bool.negb_true_iff, N.eqb_neq. tauto. Qed.

Lemma mem_add_changed w v l : mem w l = true -> mem w (add_changed v l) = true.
Proof. unfold add_changed. destruct (mem v l); cbn; [auto|]. intros ->. now rewrite Bool.orb_true_r. Qed.
Lemma mem_add_changed_same v l : mem v (add_changed v l) = true.
Proof. unfold add_changed. destruct (mem v l) eqn:E; cbn; [exact E|now rewrite N.eqb_refl]. Qed.
Lemma mem_ldel w v l : w <> v -> mem w l = true -> mem w (ldel v l) = true.
Proof.
  intros Hne. induction l as [|x t IH]; cbn; [auto|]. destruct (v =? x)%N eqn:E.
  - apply N.eqb_eq in E; subst x. destruct (w =? v)%N eqn:E2; [apply N.eqb_eq in E2; contradiction|exact IH].
  - cbn. destruct (w =? x)%N; auto.
Qed.

Lemma fold_sync_pend l d e :
  In e (pend (fold_left (fun a v => sync_vol v a) l d)) -> In e (pend d) /\ ~ In (fst (fst e)) l.
Proof.
  revert d; induction l as [|w t IH]; intros d H; cbn in *; [tauto|].
  apply IH in H as [H1 H2]. cbn in H1. apply in_knot in H1 as [H1 H3]. split; [exact H1|]. intros [E|E]; auto.
Qed.

Lemma mem_true_in v l : mem v l = true -> In v l.
Proof. apply mem_in. Qed.

Lemma touch_pend r d : pend (touch r d) = pend d /\ changed (touch r d) = changed d.
Proof. unfold touch; destruct (mem r (fresh d)); split; reflexivity. Qed.

Lemma dmigrate_pend fuel : forall v start index calls mig fail d,
  (forall e, In e (pend (fst (dmigrate fuel v start index calls mig fail d))) -> In e (pend d)) /\
  changed (fst (dmigrate fuel v start index calls mig fail d)) = changed d.
Proof.
  induction fuel as [|f IH]; intros v start index calls mig fail d; cbn [dmigrate]; [split; auto|].
  destruct (next_occ index (slots_of v (md d)) None) as [[idx r]|].
  2:{ destruct calls; split; auto. }
  destruct (mig_has_target (md d) v start); cbn [negb].
  2:{ destruct calls; split; auto. }
  destruct calls as [|[[fidx to] code] rest]; [split; auto|].
  destruct ((fidx =? idx)%N && mig_valid_target (md d) v start to); cbn [negb]; [|split; auto].
  destruct (code =? 1)%N; [apply IH|].
  set (d1 := with_cache d (cadd (csize d) r (content d v idx) (cache d))).
  assert (H1 : forall a b c rs m fl, (forall e, In e (pend (fst (dmigrate f a b c rs m fl d1))) -> In e (pend d)) /\
                 changed (fst (dmigrate f a b c rs m fl d1)) = changed d).
  { intros. apply (IH a b c rs m fl d1). }
  destruct (code =? 2)%N.
  { destruct (content d v idx =? r)%N; [split; auto|apply H1]. }
  destruct (content d v idx =? r)%N; cbn [negb]; [|split; auto].
  destruct (code =? 3)%N; [apply H1|].
  destruct (code =? 0)%N; cbn [negb]; [|split; auto].
  destruct (mig_move v idx r to (md d1)) as [m| |]; [|split; auto|split; auto].
  match goal with |- context [dmigrate f ?a ?b ?c ?rs ?mg ?fl ?st] =>
    destruct (IH a b c rs mg fl st) as [G1 G2] end.
  split; [|rewrite G2; reflexivity].
  intros e He. apply G1 in He. cbn [pend with_md sync_vol with_files] in He. apply in_knot in He as [He Hn].
  destruct He as [<-|He]; [cbn in Hn; congruence|exact He].
Qed.

Lemma flag_step d o : flag_inv d -> flag_ok d o -> flag_inv (fst (dstep d o)).
Proof.
  intros F OK. destruct o; cbn [dstep].
  - destruct (meta_op o); [|exact F]. destruct (step (md d) o). exact F.
  - unfold dreserve. repeat brk; cbn [fst]; try exact F.
    all: intros v' i' c' H; destruct (touch_pend r (with_md d (add_known r (md d)))) as [E1 E2] || idtac.
    + rewrite (proj1 (touch_pend _ _)) in H. rewrite (proj2 (touch_pend _ _)). exact (F v' i' c' H).
    + rewrite (proj1 (touch_pend _ _)) in H. rewrite (proj2 (touch_pend _ _)). exact (F v' i' c' H).
  - unfold dwrite. destruct (alookup t (thr d)) as [[[r v] i]|]; [|exact F].
    destruct (ok && _); cbn [fst].
    + intros v' i' c' [H|H]; cbn.
      * injection H as <- _ _. apply mem_add_changed_same.
      * apply mem_add_changed. exact (F v' i' c' H).
    + destruct (rollback r v i (md d)). exact F.
  - intros v i c H. unfold dsync in H. cbn in H. apply fold_sync_pend in H as [H1 H2].
    exfalso. apply H2. apply mem_true_in. exact (F v i c H1).
  - unfold dsync_begin. destruct (alookup t (syn d)); exact F.
  - unfold dfsync. destruct (alookup t (syn d)) as [[todo [w|]]|]; try exact F.
    destruct (mem v todo && _); [|exact F]. destruct ok; cbn [fst]; [|exact F].
    intros v' i' c' H. cbn in H. apply in_knot in H as [H _]. exact (F v' i' c' H).
  - unfold dclear. cbn [flag_ok] in OK. destruct (alookup t (syn d)) as [[todo [w|]]|]; try exact F.
    cbn [fst]. intros v' i' c' H. cbn in *.
    apply mem_ldel; [|exact (F v' i' c' H)]. intros ->.
    assert (Hin : In (w, i', c') (kof w (pend d))) by (apply in_kof; auto). rewrite OK in Hin. exact Hin.
  - unfold dsync_end. destruct (alookup t (syn d)) as [[todo [w|]]|]; try exact F.
    destruct (existsb _ todo); exact F.
  - exact F.
  - unfold dread. repeat brk; cbn [fst]; try exact F.
    all: intros v' i' c' H; rewrite (proj1 (touch_pend _ _)) in H; rewrite (proj2 (touch_pend _ _)); exact (F v' i' c' H).
  - destruct (dmigrate_pend (S (length (slots_of v (md d)))) v start start calls 0 0 d) as [H1 H2].
    intros v' i' c' H. rewrite H2. apply H1 in H. exact (F v' i' c' H).
  - unfold dshrink. destruct (shrink v n (md d)); cbn [fst]; try exact F.
    intros v' i' c' H. cbn in H. unfold ktrunc in H. apply filter_In in H as [H _]. exact (F v' i' c' H).
  - unfold dremove. destruct (remove_vol v force (md d)); cbn [fst]; try exact F.
    intros v' i' c' H. cbn in H. apply in_knot in H as [H _]. exact (F v' i' c' H).
  - unfold dremove_sector. destruct (locate r (md d)) as [[v i]|]; [|exact F].
    destruct (remove_sector r (md d)); cbn [fst]; try exact F.
    intros v' i' c' H. rewrite (proj1 (touch_pend _ _)) in H. rewrite (proj2 (touch_pend _ _)).
    cbn [pend changed with_cache sync_vol with_files with_md] in *.
    apply in_knot in H as [[H|H] Hn]; [injection H as <- _ _; cbn in Hn; congruence|exact (F v' i' c' H)].
  - unfold dprune, dres. destruct (prune_with _ (md d)); exact F.
  - exact F.
  - intros v i c H. destruct H.
  - destruct (thr d); [|exact F]. intros v i c H. destruct H.
Qed.

Lemma flag_runs l : forall d, flag_inv d -> flags_ok d l -> flag_inv (druns d l).
Proof.
  induction l as [|o t IH]; intros d F OK; [exact F|]. destruct OK as [O1 O2].
  cbn. apply IH; [now apply flag_step|exact O2].
Qed.

(* no flag set => nothing unsynced: a Sync that finds no changed volume may return at once *)
Lemma no_flag_all_durable d : flag_inv d -> changed d = [] -> forall v i, dcontent d v i = content d v i.
Proof.
  intros F E v i. assert (P : pend d = []).
  { destruct (pend d) as [|[[w j] c] t] eqn:Ep; [reflexivity|].
    specialize (F w j c). rewrite Ep, E in F. cbn in F. discriminate (F (or_introl eq_refl)). }
  unfold content, dcontent. rewrite P. reflexivity.
Qed.

Theorem sync_flags_runs size l : flags_ok (dinit size) l ->
  let d := druns (dinit size) l in
  flag_inv d /\ (changed d = [] -> forall v i, dcontent d v i = content d v i).
Proof.
  intros OK d. assert (F : flag_inv d).
  { apply flag_runs; [intros v i c H; destruct H|exact OK]. }
  split; [exact F|now apply no_flag_all_durable].
Qed.

(* lead 3 in the model: a write between the fsync and the deletion of the flag *)
Definition witness_flag_race : list dop :=
  [DMeta (AddVol 1 false); DMeta (SetAvail 1 true); DMeta (Grow 1 4);
   DReserve 1 7 (Some (1, 0)); DWrite 1 true;
   DSyncBegin 5; DFsync 5 1 true;
   DReserve 2 8 (Some (1, 1)); DWrite 2 true;
   DClear 5; DSyncEnd 5]%N.

Lemma flag_race_refuted : exists size l,
  let d := druns (dinit size) l in changed d = [] /\ exists v i, dcontent d v i <> content d v i.
Proof. exists 0%N, witness_flag_race. vm_compute. split; [reflexivity|]. exists 1%N, 1%N. discriminate. Qed.
