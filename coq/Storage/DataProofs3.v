(* Storage/DataProofs3.v — last-access guard of PruneSectors and the changed-volume flags of Sync (C02) *)
From Coq Require Import Lia ZifyBool ZifyN ZifyNat.
From HostdBase Require Import Base.
From HostdStorage Require Import Model Lemmas Proofs Proofs2 DataModel DataLemmas DataProofs DataProofs2.

Arguments stat_inc : simpl never.
Arguments vol_usage : simpl never.
Arguments set_slot : simpl never.
Arguments csum : simpl never.

(** * PruneSectors spares what was accessed since the cutoff *)
Lemma touch_fresh r d : mem r (fresh (touch r d)) = true.
Proof. unfold touch. destruct (mem r (fresh d)) eqn:E; [exact E|]. cbn. now rewrite N.eqb_refl. Qed.

(* Write returning nil — through the StoreFunc or through "exists" — leaves the sector fresh *)
Lemma ack_fresh d t r loc :
  snd (dstep d (DReserve t r loc)) = OAck \/ snd (dstep d (DReserve t r loc)) = OPlaced ->
  mem r (fresh (fst (dstep d (DReserve t r loc)))) = true.
Proof.
  cbn [dstep]. unfold dreserve. destruct (alookup t (thr d)); [intros [H|H]; discriminate|].
  destruct (reserve r loc (md d)); cbn [fst snd]; intros [H|H]; try discriminate; apply touch_fresh.
Qed.

Lemma prune_spares_fresh d r : dinv d -> mem r (fresh d) = true ->
  (written d r -> written (fst (dstep d DPrune)) r) /\ (durable d r -> durable (fst (dstep d DPrune)) r).
Proof.
  intros I F. cbn [dstep]. unfold dprune.
  set (f := fun q => refd (md d) q || mem q (fresh d) || in_flight q (thr d)).
  destruct (prune_with_ok f (md d) (d_inv d I)) as [m P]. rewrite P. cbn [dres fst].
  assert (K : f r = true) by (unfold f; rewrite F; now rewrite Bool.orb_true_r).
  split.
  - intros [v [i [S C]]]. exists v, i. split; [|exact C]. cbn [md with_md]. rewrite slot_at_pruned, S, K. reflexivity.
  - intros [v [i [S [C D]]]]. exists v, i. split; [|auto]. cbn [md with_md]. rewrite slot_at_pruned, S, K. reflexivity.
Qed.

(** * The changed-volume flags: unsynced writer data is always on a flagged volume *)
Definition flag_inv (d : dstate) : Prop :=
  forall v i c, In (v, i, c) (pend d) -> mem v (changed d) = true.

(* the one interleaving that breaks it (reviewer lead 3; not reproducible on the implementation:
   the window between vol.Sync() returning and the delete has no call in it): a data write lands
   on the volume between its fsync and the deletion of its flag *)
Definition flag_ok (d : dstate) (o : dop) : Prop :=
  match o with
  | DClear t => match alookup t (syn d) with Some (_, Some v) => kof v (pend d) = [] | _ => True end
  | _ => True
  end.

Fixpoint flags_ok (d : dstate) (l : list dop) : Prop :=
  match l with [] => True | o :: t => flag_ok d o /\ flags_ok (fst (dstep d o)) t end.

Lemma in_kof v e m : In e (kof v m) <-> In e m /\ fst (fst e) = v.
Proof. unfold kof. rewrite filter_In, N.eqb_eq. tauto. Qed.
Lemma in_knot v e m : In e (knot v m) <-> In e m /\ fst (fst e) <> v.
Proof. unfold knot. rewrite filter_In, Bool.negb_true_iff, N.eqb_neq. tauto. Qed.

Lemma mem_add_changed w v l : mem w l = true -> mem w (add_changed v l) = true.
Proof. unfold add_changed. destruct (mem v l); cbn; [auto|]. intros ->. now rewrite Bool.orb_true_r. Qed.
Lemma mem_add_changed_same v l : mem v (add_changed v l) = true.
Proof. unfold add_changed. destruct (mem v l) eqn:E; cbn; [exact E|now rewrite N.eqb_refl]. Qed.
Lemma mem_ldel w v l : w <> v -> mem w l = true -> mem w (ldel v l) = true.
Proof.
  intros Hne. induction l as [|x t IH]; cbn; [auto|]. destruct (v =? x)%N eqn:E.
  - apply N.eqb_eq in E; subst x. destruct (w =? v)%N eqn:E2; [apply N.eqb_eq in E2; contradiction|exact IH].
  - cbn. destruct (w =? x)%N; auto.
Qed.

Lemma fold_sync_pend l d e :
  In e (pend (fold_left (fun a v => sync_vol v a) l d)) -> In e (pend d) /\ ~ In (fst (fst e)) l.
Proof.
  revert d; induction l as [|w t IH]; intros d H; cbn in *; [tauto|].
  apply IH in H as [H1 H2]. cbn in H1. apply in_knot in H1 as [H1 H3]. split; [exact H1|]. intros [E|E]; auto.
Qed.

Lemma mem_true_in v l : mem v l = true -> In v l.
Proof. apply mem_in. Qed.

Lemma touch_pend r d : pend (touch r d) = pend d /\ changed (touch r d) = changed d.
Proof. unfold touch; destruct (mem r (fresh d)); split; reflexivity. Qed.

Lemma dmigrate_pend fuel : forall v start index calls mig fail d,
  (forall e, In e (pend (fst (dmigrate fuel v start index calls mig fail d))) -> In e (pend d)) /\
  changed (fst (dmigrate fuel v start index calls mig fail d)) = changed d.
Proof.
  induction fuel as [|f IH]; intros v start index calls mig fail d; cbn [dmigrate]; [split; auto|].
  destruct (next_occ index (slots_of v (md d)) None) as [[idx r]|].
  2:{ destruct calls; split; auto. }
  destruct (mig_has_target (md d) v start); cbn [negb].
  2:{ destruct calls; split; auto. }
  destruct calls as [|[[fidx to] code] rest]; [split; auto|].
  destruct ((fidx =? idx)%N && mig_valid_target (md d) v start to); cbn [negb]; [|split; auto].
  destruct (code =? 1)%N; [apply IH|].
  destruct (code =? 4)%N; [destruct (in_flight r (thr d)); [apply IH|split; auto]|].
  set (d1 := with_cache d (cadd (csize d) r (content d v idx) (cache d))).
  assert (H1 : forall a b c rs m fl, (forall e, In e (pend (fst (dmigrate f a b c rs m fl d1))) -> In e (pend d)) /\
                 changed (fst (dmigrate f a b c rs m fl d1)) = changed d).
  { intros. apply (IH a b c rs m fl d1). }
  destruct (code =? 2)%N.
  { destruct (content d v idx =? r)%N; [split; auto|apply H1]. }
  destruct (content d v idx =? r)%N; cbn [negb]; [|split; auto].
  destruct (code =? 3)%N; [apply H1|].
  destruct (code =? 0)%N; cbn [negb]; [|split; auto].
  destruct (mig_move v idx r to (md d1)) as [m| |]; [|split; auto|split; auto].
  match goal with |- context [dmigrate f ?a ?b ?c ?rs ?mg ?fl ?st] =>
    destruct (IH a b c rs mg fl st) as [G1 G2] end.
  split; [|rewrite G2; reflexivity].
  intros e He. apply G1 in He. cbn [pend with_md sync_vol with_files] in He. apply in_knot in He as [He Hn].
  destruct He as [<-|He]; [cbn in Hn; congruence|exact He].
Qed.

Lemma flag_step d o : flag_inv d -> flag_ok d o -> flag_inv (fst (dstep d o)).
Proof.
  intros F OK. destruct o; cbn [dstep].
  - destruct (meta_op o); [|exact F]. destruct (step (md d) o). exact F.
  - unfold dreserve. repeat brk; cbn [fst]; try exact F.
    all: intros v' i' c' H; destruct (touch_pend r (with_md d (add_known r (md d)))) as [E1 E2] || idtac.
    + rewrite (proj1 (touch_pend _ _)) in H. rewrite (proj2 (touch_pend _ _)). exact (F v' i' c' H).
    + rewrite (proj1 (touch_pend _ _)) in H. rewrite (proj2 (touch_pend _ _)). exact (F v' i' c' H).
  - unfold dwrite. destruct (alookup t (thr d)) as [[[r v] i]|]; [|exact F].
    destruct (ok && _); cbn [fst].
    + intros v' i' c' [H|H]; cbn.
      * injection H as <- _ _. apply mem_add_changed_same.
      * apply mem_add_changed. exact (F v' i' c' H).
    + destruct (rollback r v i (md d)). exact F.
  - intros v i c H. unfold dsync in H. cbn in H. apply fold_sync_pend in H as [H1 H2].
    exfalso. apply H2. apply mem_true_in. exact (F v i c H1).
  - unfold dsync_begin. destruct (alookup t (syn d)); exact F.
  - unfold dfsync. destruct (alookup t (syn d)) as [[todo [w|]]|]; try exact F.
    destruct (mem v todo && _); [|exact F]. destruct ok; cbn [fst]; [|exact F].
    intros v' i' c' H. cbn in H. apply in_knot in H as [H _]. exact (F v' i' c' H).
  - unfold dclear. cbn [flag_ok] in OK. destruct (alookup t (syn d)) as [[todo [w|]]|]; try exact F.
    cbn [fst]. intros v' i' c' H. cbn in *.
    apply mem_ldel; [|exact (F v' i' c' H)]. intros ->.
    assert (Hin : In (w, i', c') (kof w (pend d))) by (apply in_kof; auto). rewrite OK in Hin. exact Hin.
  - unfold dsync_end. destruct (alookup t (syn d)) as [[todo [w|]]|]; try exact F.
    destruct (existsb _ todo); exact F.
  - exact F.
  - unfold dread. repeat brk; cbn [fst]; try exact F.
    all: intros v' i' c' H; rewrite (proj1 (touch_pend _ _)) in H; rewrite (proj2 (touch_pend _ _)); exact (F v' i' c' H).
  - destruct (dmigrate_pend (S (length (slots_of v (md d)))) v start start calls 0 0 d) as [H1 H2].
    intros v' i' c' H. rewrite H2. apply H1 in H. exact (F v' i' c' H).
  - unfold dshrink. destruct (shrink v n (md d)); cbn [fst]; try exact F.
    intros v' i' c' H. cbn in H. unfold ktrunc in H. apply filter_In in H as [H _]. exact (F v' i' c' H).
  - unfold dremove. destruct (remove_vol v force (md d)); cbn [fst]; try exact F.
    intros v' i' c' H. cbn in H. apply in_knot in H as [H _]. exact (F v' i' c' H).
  - unfold dremove_sector. destruct (locate r (md d)) as [[v i]|]; [|exact F].
    destruct (remove_sector r (md d)); cbn [fst]; try exact F.
    intros v' i' c' H. rewrite (proj1 (touch_pend _ _)) in H. rewrite (proj2 (touch_pend _ _)).
    cbn [pend changed with_cache sync_vol with_files with_md] in *.
    apply in_knot in H as [[H|H] Hn]; [injection H as <- _ _; cbn in Hn; congruence|exact (F v' i' c' H)].
  - unfold dprune, dres. destruct (prune_with _ (md d)); exact F.
  - exact F.
  - intros v i c H. destruct H.
  - destruct (thr d); [|exact F]. intros v i c H. destruct H.
Qed.

Lemma flag_runs l : forall d, flag_inv d -> flags_ok d l -> flag_inv (druns d l).
Proof.
  induction l as [|o t IH]; intros d F OK; [exact F|]. destruct OK as [O1 O2].
  cbn. apply IH; [now apply flag_step|exact O2].
Qed.

(* no flag set => nothing unsynced: a Sync that finds no changed volume may return at once *)
Lemma no_flag_all_durable d : flag_inv d -> changed d = [] -> forall v i, dcontent d v i = content d v i.
Proof.
  intros F E v i. assert (P : pend d = []).
  { destruct (pend d) as [|[[w j] c] t] eqn:Ep; [reflexivity|].
    specialize (F w j c). rewrite Ep, E in F. cbn in F. discriminate (F (or_introl eq_refl)). }
  unfold content, dcontent. rewrite P. reflexivity.
Qed.

Theorem sync_flags_runs size l : flags_ok (dinit size) l ->
  let d := druns (dinit size) l in
  flag_inv d /\ (changed d = [] -> forall v i, dcontent d v i = content d v i).
Proof.
  intros OK d. assert (F : flag_inv d).
  { apply flag_runs; [intros v i c H; destruct H|exact OK]. }
  split; [exact F|now apply no_flag_all_durable].
Qed.

(* lead 3 in the model: a write between the fsync and the deletion of the flag *)
Definition witness_flag_race : list dop :=
  [DMeta (AddVol 1 false); DMeta (SetAvail 1 true); DMeta (Grow 1 4);
   DReserve 1 7 (Some (1, 0)); DWrite 1 true;
   DSyncBegin 5; DFsync 5 1 true;
   DReserve 2 8 (Some (1, 1)); DWrite 2 true;
   DClear 5; DSyncEnd 5]%N.

Lemma flag_race_refuted : exists size l,
  let d := druns (dinit size) l in changed d = [] /\ exists v i, dcontent d v i <> content d v i.
Proof. exists 0%N, witness_flag_race. vm_compute. split; [reflexivity|]. exists 1%N, 1%N. discriminate. Qed.

(** * RemoveSector cut at its internal steps (DataModel.v, [xstep]) *)

(* what Store.RemoveSector does to the slots *)
Lemma remove_sector_facts r s m :
  inv s -> remove_sector r s = Ok m ->
  exists v i, vfind r (vols s) = Some (v, i) /\ inv m /\ same_refs s m /\ known m = known s /\
    forall w j, slot_at m w j = if (w =? v)%N && (j =? i)%N then Some None else slot_at s w j.
Proof.
  intros I R. pose proof (inv_remove_sector r s m I R) as J. unfold remove_sector in R.
  destruct (mem r (known s)); cbn [negb] in R; [|discriminate].
  destruct (vfind r (vols s)) as [[v j]|] eqn:F; [|discriminate].
  destruct (vol_usage v (-1) (set_slot v j None s)) as [s1| |] eqn:U; cbn [bind] in R; try discriminate.
  destruct (stat_inc (mLost (mets s1)) 1) as [lo| |] eqn:L; cbn [bind] in R; try discriminate.
  injection R as <-.
  apply usage_set_slot in U as [vl [G [_ [Hv [Hm [Hk [Ht Hc]]]]]]].
  destruct (vfind_slot s r v j I F) as [vl' [G' S]]. rewrite G in G'; injection G' as <-.
  exists v, j. split; [reflexivity|]. split; [exact J|]. split; [split; cbn; assumption|]. split; [exact Hk|].
  intros w k. pose proof (slot_at_wr s s1 v j None (-1) vl G Hv w k) as SA. rewrite S in SA.
  unfold slot_at in *. cbn [vols with_mets]. exact SA.
Qed.

(* the metadata commit of RemoveSector r: only r is excused afterwards *)
Lemma dinvE_remove_md XE d r m :
  dinvE XE d -> in_flight r (thr d) = false -> remove_sector r (md d) = Ok m ->
  dinvE (fun q => XE q \/ q = r) (with_md d m).
Proof.
  intros I NF R. pose proof (d_inv d I) as I0.
  destruct (remove_sector_facts r (md d) m I0 R) as [v [i [F [J [SR [K SA]]]]]].
  apply (vfind_iff (md d) r v i I0) in F.
  assert (Hsub : forall w j q, slot_at m w j = Some (Some q) -> slot_at (md d) w j = Some (Some q)).
  { intros w j q H. rewrite SA in H. destruct ((w =? v)%N && (j =? i)%N); [discriminate|exact H]. }
  assert (Hkeep : forall w j q, slot_at (md d) w j = Some (Some q) -> q <> r -> slot_at m w j = Some (Some q)).
  { intros w j q H Hq. rewrite SA. destruct ((w =? v)%N && (j =? i)%N) eqn:E0; [|exact H].
    apply andb_loc in E0 as [-> ->]. congruence. }
  destruct I as [I1 I2 I3 I4 I4' I5 I6].
  constructor; cbn [md with_md thr cache].
  - exact J.
  - intros q w j H. rewrite K. eapply I2. eapply Hsub; eauto.
  - exact I3.
  - intros t q w j H. pose proof (I4 t q w j H) as S.
    apply Hkeep; [exact S|]. eapply in_flight_false; eauto.
  - exact I4'.
  - intros q c H [w [j [S C]]] NFq. apply (I5 q c H); [|exact NFq]. exists w, j. split; [now apply Hsub|exact C].
  - intros q H HE. rewrite (refd_same _ _ q SR) in H.
    assert (Hq : q <> r) by tauto. assert (HX : ~ XE q) by tauto.
    destruct (I6 q H HX) as [[w [j [S [C D]]]] NFq]. split; [|exact NFq]. exists w, j. split; [now apply Hkeep|auto].
Qed.

(* the zero write: harmless when the slot is free or held by a writer that has not written yet *)
Lemma dinvE_zero XE d v i :
  dinvE XE d ->
  (forall q, slot_at (md d) v i = Some (Some q) -> exists t, alookup t (thr d) = Some (q, v, i)) ->
  dinvE XE (with_files d (disk d) (kset v i 0%N (pend d))).
Proof.
  intros [I1 I2 I3 I4 I4' I5 I6] W.
  assert (Cn : forall w j, content (with_files d (disk d) (kset v i 0%N (pend d))) w j =
                           if (w =? v)%N && (j =? i)%N then 0%N else content d w j).
  { intros w j. unfold content; cbn. destruct ((w =? v)%N && (j =? i)%N); reflexivity. }
  assert (Hfree : forall w j q, slot_at (md d) w j = Some (Some q) -> in_flight q (thr d) = false -> (w =? v)%N && (j =? i)%N = false).
  { intros w j q S NF. destruct ((w =? v)%N && (j =? i)%N) eqn:E0; [|reflexivity].
    apply andb_loc in E0 as [-> ->]. destruct (W q S) as [t A]. now rewrite (in_flight_spec q _ t v i A) in NF. }
  constructor; cbn [md with_files thr cache]; auto.
  - intros q c H [w [j [S C]]] NF. cbn [md with_files] in S. rewrite Cn in C.
    rewrite (Hfree w j q S NF) in C. apply (I5 q c H); [|exact NF]. exists w, j; auto.
  - intros q H HE. destruct (I6 q H HE) as [[w [j [S [C D]]]] NF]. split; [|exact NF]. exists w, j. split; [exact S|].
    rewrite Cn, (Hfree w j q S NF). split; [exact C|]. exact D.
Qed.

(* fsync of the volume and the cache drop *)
Lemma dinvE_rs_end XE d v r : dinvE XE d -> dinvE XE (with_cache (sync_vol v d) (cdel r (cache d))).
Proof.
  intros I. apply dinv_cache; [now apply dinv_sync_vol|].
  intros q c H Wq NF. destruct (N.eq_dec q r) as [->|Hq]; [now rewrite cget_cdel_same in H|].
  rewrite cget_cdel_other in H by exact Hq.
  apply (d_cache d I q c H); [|exact NF]. destruct Wq as [w [j [S C]]]. exists w, j. split; [exact S|].
  now rewrite content_sync_vol in C.
Qed.

(* VolumeManager.RemoveSector as one step: after it only r is excused *)
Lemma dinvE_remove_sector XE d r :
  dinvE XE d -> in_flight r (thr d) = false ->
  dinvE (fun q => XE q \/ (is_ok (snd (dstep d (DRemoveSector r))) = true /\ q = r)) (fst (dstep d (DRemoveSector r))).
Proof.
  intros I NF. cbn [dstep]. unfold dremove_sector.
  assert (Hw : dinvE (fun q => XE q \/ (false = true /\ q = r)) d).
  { eapply dinvE_weaken; [|exact I]. intros q Hq. now left. }
  destruct (locate r (md d)) as [[v i]|] eqn:L; cbn [fst snd is_ok]; [|exact Hw].
  destruct (remove_sector r (md d)) as [m|e|] eqn:R; cbn [fst snd is_ok]; try exact Hw.
  apply dinv_touch. pose proof (d_inv d I) as I0.
  pose proof (dinvE_remove_md XE d r m I NF R) as J.
  destruct (remove_sector_facts r (md d) m I0 R) as [v0 [i0 [F [_ [_ [_ SA]]]]]].
  apply locate_slot in L; [|exact I0].
  apply (vfind_iff (md d) r v0 i0 I0) in F.
  destruct (slot_injective (md d) v i v0 i0 r I0 L F) as [<- <-].
  eapply dinvE_weaken with (E := fun q => XE q \/ q = r); [intros q [Hq|Hq]; [now left|right; auto]|].
  apply (dinvE_rs_end _ (with_files (with_md d m) (disk d) (kset v i 0%N (pend d))) v r).
  apply (dinvE_zero _ (with_md d m) v i J).
  intros q S. cbn [md with_md] in S. rewrite SA, !N.eqb_refl in S. discriminate.
Qed.

(** ** What the other steps can do to the slots and the writer table *)
Lemma dmigrate_thr fuel : forall v start index calls mig fail d,
  thr (fst (dmigrate fuel v start index calls mig fail d)) = thr d.
Proof.
  induction fuel as [|f IH]; intros v start index calls mig fail d; cbn [dmigrate]; [reflexivity|].
  repeat brk; cbn [fst]; try reflexivity; rewrite IH; reflexivity.
Qed.

(* a writer table entry after a step was there before, or belongs to the DReserve just made *)
Lemma thr_step d o t x :
  NoDup (map fst (thr d)) -> alookup t (thr (fst (dstep d o))) = Some x ->
  alookup t (thr d) = Some x \/ (exists r loc, o = DReserve t r loc /\ fst (fst x) = r).
Proof.
  intros ND. destruct o; cbn [dstep].
  - destruct (meta_op o); [|now left]. destruct (step (md d) o). cbn. now left.
  - unfold dreserve. destruct (alookup t0 (thr d)) eqn:T; [now left|].
    destruct (reserve r loc (md d)); cbn [fst]; rewrite ?touch_thr; cbn [thr with_thr with_md]; try (now left).
    cbn [alookup]. destruct (t =? t0)%N eqn:E0; [|now left].
    apply N.eqb_eq in E0; subst. intros [= <-]. right. exists r, loc. split; reflexivity.
  - unfold dwrite. destruct (alookup t0 (thr d)) as [[[r v] i]|]; [|now left].
    destruct (ok && _); cbn [fst thr with_thr with_md with_files with_cache with_changed].
    + intros H. left. now apply alookup_aremove in H.
    + destruct (rollback r v i (md d)). cbn. intros H. left. now apply alookup_aremove in H.
  - unfold dsync. cbn. rewrite fold_sync_thr. now left.
  - unfold dsync_begin. repeat brk; now left.
  - unfold dfsync. repeat brk; now left.
  - unfold dclear. repeat brk; now left.
  - unfold dsync_end. repeat brk; now left.
  - now left.
  - unfold dread. repeat brk; cbn [fst]; rewrite ?touch_thr; now left.
  - rewrite dmigrate_thr. now left.
  - unfold dshrink. repeat brk; now left.
  - unfold dremove. repeat brk; now left.
  - unfold dremove_sector. repeat brk; cbn [fst]; rewrite ?touch_thr; now left.
  - unfold dprune, dres. repeat brk; now left.
  - now left.
  - cbn. intros H; discriminate H.
  - destruct (thr d) eqn:T; cbn [fst]; [cbn; intros H; discriminate H|rewrite T; now left].
Qed.

(* a step that does not need vm.mu (and is not a crash): an occupied slot was occupied by the same
   sector before, or was just reserved by a writer that has not written yet; no writer leaves *)
Lemma no_mu_frame d o :
  inv (md d) -> takes_mu o d = false -> o <> DCrash -> step_ok d o ->
  (forall w j q, slot_at (md (fst (dstep d o))) w j = Some (Some q) ->
     slot_at (md d) w j = Some (Some q) \/ exists t, alookup t (thr (fst (dstep d o))) = Some (q, w, j)) /\
  (forall t x, alookup t (thr d) = Some x -> alookup t (thr (fst (dstep d o))) = Some x).
Proof.
  intros I TM NC OK. destruct o; cbn [takes_mu] in TM; try discriminate; cbn [dstep].
  - (* DMeta *) destruct (meta_op o) eqn:M; [|split; auto].
    pose proof (meta_same_slots o (md d) M) as SS. destruct (step (md d) o) as [m b] eqn:St. cbn [fst md with_md thr] in *.
    split; [|auto]. intros w j q H. left. now apply SS.
  - (* DReserve *) unfold dreserve. destruct (alookup t (thr d)) eqn:T; [split; auto|].
    destruct (reserve r loc (md d)) as [| |s1 v i|ob|] eqn:R; cbn [fst]; rewrite ?touch_md, ?touch_thr;
      cbn [md thr with_md with_thr]; try solve [split; auto].
    + split; [|auto]. intros w j q H. left. unfold slot_at in *. now rewrite add_known_vols in H.
    + destruct (reserve_placed r loc (md d) s1 v i I R) as [_ [_ [-> [_ [vl [G [S Hv]]]]]]].
      pose proof (slot_at_wr (md d) s1 v i (Some r) 1 vl G Hv) as SA. rewrite S in SA.
      split.
      * intros w j q H. rewrite SA in H. destruct ((w =? v)%N && (j =? i)%N) eqn:E0; [|now left].
        apply andb_loc in E0 as [-> ->]. injection H as <-. right. exists t. cbn. now rewrite N.eqb_refl.
      * intros t' x H. cbn. destruct (t' =? t)%N eqn:E0; [|exact H]. apply N.eqb_eq in E0; subst. congruence.
  - (* DSyncEnd *) unfold dsync_end. repeat brk; cbn [fst]; split; auto.
  - (* DAge *) split; auto.
  - (* DRead *) unfold dread. repeat brk; cbn [fst]; rewrite ?touch_md, ?touch_thr; cbn [md thr with_cache]; split; auto.
    all: cbn [is_none is_some andb] in TM; discriminate.
  - (* DMigrate without calls *) destruct calls; [|discriminate].
    assert (Hd : fst (dmigrate (S (length (slots_of v (md d)))) v start start [] 0 0 d) = d).
    { cbn [dmigrate]. repeat brk; reflexivity. }
    rewrite Hd. split; auto.
  - (* DShrinkT *) unfold dshrink. destruct (shrink v n (md d)) as [m| |] eqn:Sh; cbn [fst]; try solve [split; auto].
    destruct (shrink_facts v n (md d) m Sh) as [_ [_ [_ Hsub]]]. cbn [md with_md with_files thr].
    split; [|auto]. intros w j q H. left. eapply Hsub; eauto.
  - (* DRemoveT *) cbn in OK; subst force. unfold dremove.
    destruct (remove_vol v false (md d)) as [m| |] eqn:R; cbn [fst]; try solve [split; auto].
    destruct (remove_facts v (md d) m I R) as [_ [_ [_ Hsub]]]. cbn [md with_md with_files thr].
    split; [|auto]. intros w j q H. left. eapply Hsub; eauto.
  - (* DPrune *) unfold dprune.
    set (f := fun r => refd (md d) r || mem r (fresh d) || in_flight r (thr d)).
    destruct (prune_with_ok f (md d) I) as [m P]. rewrite P. cbn [dres fst md with_md thr].
    split; [|auto]. intros w j q H. left. rewrite slot_at_pruned in H.
    destruct (slot_at (md d) w j) as [[q'|]|]; try discriminate. destruct (f q'); [exact H|discriminate].
  - (* DResizeCache *) split; auto.
  - (* DCrash *) congruence.
Qed.

(** ** The invariant over the finer steps *)
Definition xruns (x : xstate) (l : list xop) : xstate := fold_left (fun x o => fst (xstep x o)) l x.

Definition lostp (x : xstate) : N -> Prop := fun q => In q (xlost x).

(* while a RemoveSector holds vm.mu: before its metadata commit the sector sits where it was
   located (or has been re-reserved by a writer meanwhile); after the commit and before the zero
   write the released slot holds nobody's written data *)
Definition xwin (x : xstate) : Prop :=
  match xmu x with
  | None => True
  | Some (r, (v, i), RsLocated) =>
      forall w j, slot_at (md (xd x)) w j = Some (Some r) ->
        (w = v /\ j = i) \/ exists t, alookup t (thr (xd x)) = Some (r, w, j)
  | Some (r, (v, i), RsCommitted) =>
      forall q, slot_at (md (xd x)) v i = Some (Some q) -> exists t, alookup t (thr (xd x)) = Some (q, v, i)
  | Some (_, _, RsZeroed) => True
  end.

Record xinv (x : xstate) : Prop := mk_xinv {
  x_d : dinvE (lostp x) (xd x);
  x_win : xwin x }.

Lemma xinv_init n : xinv (xinit n).
Proof.
  constructor; cbn.
  - apply dinv_init.
  - exact Logic.I.
Qed.

(* the steps the theorems are about: as [step_ok], but an operator's RemoveSector is allowed — as
   one step or cut at its internal steps — provided no upload of that very sector is in flight
   when its metadata is removed (see rs_in_flight_refuted).  The former proviso "content 0
   (zeroes) is nobody's root" is gone with clause (b) of [step_ok]: the invariant no longer says
   anything about the bytes under a writer that has not written yet. *)
Definition xstep_ok (x : xstate) (o : xop) : Prop :=
  match o with
  | XD (DRemoveSector r) => in_flight r (thr (xd x)) = false
  | XD o' => step_ok (xd x) o'
  | XRsCommit => match xmu x with Some (r, _, RsLocated) => in_flight r (thr (xd x)) = false | _ => True end
  | _ => True
  end.

Fixpoint xsteps_ok (x : xstate) (l : list xop) : Prop :=
  match l with
  | [] => True
  | o :: t => xstep_ok x o /\ xsteps_ok (fst (xstep x o)) t
  end.

Lemma xwin_frame x d' :
  xwin x ->
  (forall w j q, slot_at (md d') w j = Some (Some q) ->
     slot_at (md (xd x)) w j = Some (Some q) \/ exists t, alookup t (thr d') = Some (q, w, j)) ->
  (forall t y, alookup t (thr (xd x)) = Some y -> alookup t (thr d') = Some y) ->
  xwin {| xd := d'; xmu := xmu x; xlost := xlost x |}.
Proof.
  unfold xwin; cbn [xmu xd]. destruct (xmu x) as [[[r [v i]] [| |]]|]; auto.
  - intros W Hs Ht w j H. destruct (Hs w j r H) as [H0|H0]; [|now right].
    destruct (W w j H0) as [H1|[t H1]]; [now left|right; exists t; now apply Ht].
  - intros W Hs Ht q H. destruct (Hs v i q H) as [H0|H0]; [|exact H0].
    destruct (W q H0) as [t H1]. exists t; now apply Ht.
Qed.

(* one coarse step that is not disabled *)
Lemma xinv_coarse x o :
  xinv x -> xstep_ok x (XD o) -> o <> DCrash ->
  (xmu x = None \/ takes_mu o (xd x) = false) ->
  xinv {| xd := fst (dstep (xd x) o); xmu := xmu x;
          xlost := match o with DRemoveSector r => if is_ok (snd (dstep (xd x) o)) then r :: xlost x else xlost x | _ => xlost x end |}.
Proof.
  intros [I W] OK NC EN. set (d := xd x) in *.
  destruct (match o with DRemoveSector _ => true | _ => false end) eqn:RS.
  - (* VolumeManager.RemoveSector as one step: vm.mu is free *)
    destruct o; try discriminate. cbn [xstep_ok] in OK.
    destruct EN as [EN|EN]; [|discriminate].
    constructor; cbn [xd xmu xlost].
    + eapply dinvE_weaken; [|apply (dinvE_remove_sector (lostp x) d r I OK)].
      unfold lostp. intros q [Hq|[Hb ->]]; rewrite ?Hb; cbn; auto.
      destruct (is_ok _); cbn; auto.
    + unfold xwin; cbn. now rewrite EN.
  - assert (SO : step_ok d o).
    { destruct o; try exact OK; try discriminate. }
    assert (EL : (match o with DRemoveSector r => if is_ok (snd (dstep d o)) then r :: xlost x else xlost x | _ => xlost x end) = xlost x).
    { destruct o; try reflexivity; discriminate. }
    rewrite EL. constructor; cbn [xd xmu xlost].
    + apply dinv_step; assumption.
    + destruct EN as [EN|EN]; [unfold xwin; cbn; now rewrite EN|].
      destruct (no_mu_frame d o (d_inv d I) EN NC SO) as [Hs Ht].
      apply (xwin_frame x (fst (dstep d o)) W Hs Ht).
Qed.

Theorem xinv_step x o : xinv x -> xstep_ok x o -> xinv (fst (xstep x o)).
Proof.
  intros IX OK. destruct o as [o|r| |ok|ok|]; unfold xstep, xstep_gen.
  - (* a step of the coarse model *)
    destruct (match o with DCrash => true | _ => false end) eqn:CR.
    + destruct o; try discriminate. cbn [fst]. destruct IX as [I W]. constructor; cbn [xd xmu xlost].
      * now apply dinv_crash.
      * exact Logic.I.
    + assert (NC : o <> DCrash) by (intros ->; discriminate).
      assert (Hgo : forall (EN : xmu x = None \/ takes_mu o (xd x) = false),
                xinv (fst (let '(d', b) := dstep (xd x) o in
                   ({| xd := d'; xmu := xmu x;
                       xlost := match o with DRemoveSector r => if is_ok b then r :: xlost x else xlost x | _ => xlost x end |}, b)))).
      { intros EN. pose proof (xinv_coarse x o IX OK NC EN) as H. destruct (dstep (xd x) o) as [d' b]. exact H. }
      destruct (true && is_some (xmu x) && takes_mu o (xd x)) eqn:BL.
      * destruct o; try discriminate; exact IX.
      * assert (EN : xmu x = None \/ takes_mu o (xd x) = false).
        { cbn [andb] in BL. apply Bool.andb_false_iff in BL as [BL|BL]; [left|now right].
          destruct (xmu x); [discriminate|reflexivity]. }
        destruct o; try discriminate; exact (Hgo EN).
  - (* XRsLocate: vm.mu.Lock, SectorLocation *)
    destruct (xmu x) eqn:MU; [exact IX|].
    destruct (locate r (md (xd x))) as [[v i]|] eqn:L; cbn [fst]; [|exact IX].
    destruct IX as [I W]. constructor; cbn [xd xmu xlost].
    + now apply dinv_touch.
    + unfold xwin; cbn [xmu xd]. rewrite touch_md. intros w j H. left.
      apply locate_slot in L; [|apply (d_inv _ I)].
      destruct (slot_injective (md (xd x)) w j v i r (d_inv _ I) H L) as [-> ->]. auto.
  - (* XRsCommit: Store.RemoveSector *)
    destruct (xmu x) as [[[r [v i]] [| |]]|] eqn:MU; try exact IX.
    cbn [xstep_ok] in OK. rewrite MU in OK.
    destruct IX as [I W]. pose proof (d_inv _ I) as I0.
    destruct (remove_sector r (md (xd x))) as [m|e|] eqn:R; cbn [fst].
    + constructor; cbn [xd xmu xlost].
      * apply dinv_touch. eapply dinvE_weaken; [|apply (dinvE_remove_md (lostp x) (xd x) r m I OK R)].
        unfold lostp. intros q [Hq| ->]; cbn; auto.
      * unfold xwin; cbn [xmu xd]. rewrite touch_md, touch_thr. cbn [md thr with_md].
        destruct (remove_sector_facts r (md (xd x)) m I0 R) as [v0 [i0 [F [_ [_ [_ SA]]]]]].
        apply (vfind_iff (md (xd x)) r v0 i0 I0) in F.
        unfold xwin in W. rewrite MU in W.
        destruct (W v0 i0 F) as [[-> ->]|[t A]].
        -- intros q H. rewrite SA, !N.eqb_refl in H. discriminate.
        -- now rewrite (in_flight_spec r _ t v0 i0 A) in OK.
    + constructor; cbn [xd xmu xlost]; auto; try exact Logic.I.
    + constructor; cbn [xd xmu xlost]; auto; try exact Logic.I.
  - (* XRsZero *)
    destruct (xmu x) as [[[r [v i]] [| |]]|] eqn:MU; try exact IX.
    destruct IX as [I W]. unfold xwin in W. rewrite MU in W.
    destruct (ok && is_some (vget v (vols (md (xd x))))); cbn [fst].
    + constructor; cbn [xd xmu xlost]; [|exact Logic.I].
      apply dinvE_zero; [exact I|exact W].
    + constructor; cbn [xd xmu xlost]; auto; try exact Logic.I.
  - (* XRsEnd *)
    destruct (xmu x) as [[[r [v i]] [| |]]|] eqn:MU; try exact IX.
    destruct IX as [I W]. destruct ok; cbn [fst]; constructor; cbn [xd xmu xlost]; auto; try exact Logic.I.
    now apply dinvE_rs_end.
  - (* XRsAbort *)
    destruct (xmu x) as [[[r [v i]] [| |]]|] eqn:MU; try exact IX.
    destruct IX as [I W]. cbn [fst]; constructor; cbn [xd xmu xlost]; auto; try exact Logic.I.
Qed.

Theorem xinv_runs l : forall x, xinv x -> xsteps_ok x l -> xinv (xruns x l).
Proof.
  induction l as [|o t IH]; intros x I OK; [exact I|]. destruct OK as [O1 O2].
  cbn. apply IH; [now apply xinv_step|exact O2].
Qed.

(** ** The C02 statements over the finer steps *)
Theorem readable_xruns size l r :
  xsteps_ok (xinit size) l ->
  let x := xruns (xinit size) l in
  refd (md (xd x)) r = true -> ~ In r (xlost x) ->
  read_result (xd x) r = Some r /\ read_result (dcrash (xd x)) r = Some r.
Proof.
  intros OK x H HE. pose proof (xinv_runs l (xinit size) (xinv_init size) OK) as [I _]. fold x in I.
  split; [eapply referenced_readableE|eapply referenced_readable_after_crashE]; eauto.
Qed.

(* the target of a step of an explicit deletion *)
Definition rs_target (x : xstate) (o : xop) : option N :=
  match o with
  | XD (DRemoveSector r) => Some r
  | XRsLocate r => Some r
  | XRsCommit | XRsZero _ | XRsEnd _ | XRsAbort => match xmu x with Some (r, _, _) => Some r | None => None end
  | _ => None
  end.

Lemma xlost_step x o q : In q (xlost (fst (xstep x o))) -> In q (xlost x) \/ rs_target x o = Some q.
Proof.
  unfold xstep, xstep_gen. destruct o as [o|r| |ok|ok|]; cbn [rs_target].
  - destruct o; try (destruct (true && is_some (xmu x) && _); [now left|]);
      try (destruct (dstep (xd x) _) as [d' b]; cbn [fst xlost]; now left); try (cbn; now left).
    destruct (dstep (xd x) (DRemoveSector r)) as [d' b]. cbn [fst xlost]. destruct (is_ok b); [|now left].
    intros [<-|H]; [now right|now left].
  - destruct (xmu x); [now left|]. destruct (locate r (md (xd x))); now left.
  - destruct (xmu x) as [[[r [v i]] [| |]]|]; try (now left).
    destruct (remove_sector r (md (xd x))); cbn [fst xlost]; try (now left). intros [<-|H]; [now right|now left].
  - destruct (xmu x) as [[[r [v i]] [| |]]|]; try (now left). destruct (ok && _); now left.
  - destruct (xmu x) as [[[r [v i]] [| |]]|]; try (now left). destruct ok; now left.
  - destruct (xmu x) as [[[r [v i]] [| |]]|]; now left.
Qed.

(* an explicit deletion of r, as one step or at any of its internal steps, in any reachable state
   and whatever ran in between: every other referenced sector (that was not deleted explicitly
   itself) reads back its own bytes afterwards, now and after a crash *)
Theorem remove_sector_only_target size l o r q :
  xsteps_ok (xinit size) (l ++ [o]) ->
  rs_target (xruns (xinit size) l) o = Some r -> q <> r ->
  let x := xruns (xinit size) l in
  let x' := fst (xstep x o) in
  refd (md (xd x')) q = true -> ~ In q (xlost x) ->
  read_result (xd x') q = Some q /\ read_result (dcrash (xd x')) q = Some q.
Proof.
  intros OK T Hq x x' H HL.
  assert (E : x' = xruns (xinit size) (l ++ [o])).
  { unfold x', x, xruns. now rewrite fold_left_app. }
  rewrite E in *. apply (readable_xruns size (l ++ [o]) q OK H).
  rewrite <- E. intros HI. apply xlost_step in HI as [HI|HI]; [tauto|]. fold x in T. congruence.
Qed.

(* the four internal steps in a row are the one-step RemoveSector of DataModel.v *)
Lemma rs_steps_are_remove_sector x r :
  xmu x = None ->
  (locate r (md (xd x)) = None \/ exists m, remove_sector r (md (xd x)) = Ok m) ->
  exists lost, xruns x [XRsLocate r; XRsCommit; XRsZero true; XRsEnd true] =
               {| xd := fst (dstep (xd x) (DRemoveSector r)); xmu := None; xlost := lost |}.
Proof.
  destruct x as [d mu lost]. cbn [xmu xd]. intros -> HR. unfold xruns; cbn [fold_left].
  cbn [dstep]. unfold dremove_sector.
  unfold xstep at 4. cbn [xstep_gen xmu xd xlost].
  destruct (locate r (md d)) as [[v i]|] eqn:L; cbn [fst].
  2:{ unfold xstep. cbn [xstep_gen xmu xd xlost fst]. eauto. }
  unfold xstep at 3. cbn [xstep_gen xmu xd xlost]. rewrite touch_md.
  destruct HR as [HR|[m R]]; [congruence|]. rewrite R. cbn [fst].
  unfold xstep at 2. cbn [xstep_gen xmu xd xlost]. rewrite touch_md. cbn [md with_md].
  assert (G : is_some (vget v (vols m)) = true).
  { unfold locate in L. destruct (mem r (known (md d))) eqn:K; [|discriminate].
    unfold remove_sector in R. rewrite K in R. cbn [negb] in R. rewrite L in R.
    destruct (vol_usage v (-1) (set_slot v i None (md d))) as [s1| |] eqn:U; cbn [bind] in R; try discriminate.
    destruct (stat_inc (mLost (mets s1)) 1); cbn [bind] in R; try discriminate. injection R as <-. cbn [vols with_mets].
    apply usage_set_slot in U as [vl [G [_ [Hv _]]]]. rewrite Hv.
    rewrite (vget_vupd_same v _ _ vl) by (auto; reflexivity). reflexivity. }
  rewrite G. cbn [andb fst]. unfold xstep. cbn [xstep_gen xmu xd xlost fst]. eexists.
  match goal with |- {| xd := ?a; xmu := _; xlost := _ |} = {| xd := ?b; xmu := _; xlost := _ |} =>
    replace a with b; [reflexivity|] end.
  unfold touch. cbn [fresh with_md with_files with_cache sync_vol].
  destruct (mem r (fresh d)) eqn:F; cbn [fresh with_md with_fresh with_files with_cache sync_vol mem];
    rewrite ?F, ?N.eqb_refl; cbn [orb]; reflexivity.
Qed.

(** ** Why RemoveSector keeps vm.mu from its metadata commit to its zero write — and a schedule
   on which the code as it is loses a sector that was not the target *)
Definition xruns_gen (lock : bool) (x : xstate) (l : list xop) : xstate :=
  fold_left (fun x o => fst (xstep_gen lock x o)) l x.

(* the coarse steps of a run with what they answered (for [disciplined]) *)
Fixpoint xdtrace (lock : bool) (x : xstate) (l : list xop) : list (dop * dobs) :=
  match l with
  | [] => []
  | o :: t =>
      let '(x', b) := xstep_gen lock x o in
      match o with XD o' => (o', b) :: xdtrace lock x' t | _ => xdtrace lock x' t end
  end.

(* the decidable side conditions of [xstep_ok] *)
Definition xguard (x : xstate) (o : xop) : bool :=
  match o with
  | XD (DRemoveSector r) => negb (in_flight r (thr (xd x)))
  | XD (DReserve _ r _) => negb (r =? 0)%N
  | XD (DRemoveT _ force) => negb force
  | XRsCommit => match xmu x with Some (r, _, RsLocated) => negb (in_flight r (thr (xd x))) | _ => true end
  | _ => true
  end.

Fixpoint xguards (lock : bool) (x : xstate) (l : list xop) : bool :=
  match l with
  | [] => true
  | o :: t => xguard x o && xguards lock (fst (xstep_gen lock x o)) t
  end.

Definition xcalm (o : xop) : bool :=
  match o with XD DCrash | XD (DRemoveT _ true) => false | _ => true end.

(* without the critical section: the writer that was handed the released slot writes, is
   acknowledged, synced and referenced — and is then zeroed *)
Definition witness_no_lock : list xop :=
  [XD (DMeta (AddVol 1 false)); XD (DMeta (SetAvail 1 true)); XD (DMeta (Grow 1 1));
   XD (DReserve 1 7 (Some (1, 0))); XD (DWrite 1 true); XD DSync; XD (DMeta (AddTemp [(7, 100)]));
   XRsLocate 7; XRsCommit;
   XD (DReserve 2 8 (Some (1, 0))); XD (DWrite 2 true); XD DSync; XD (DMeta (AddTemp [(8, 100)]));
   XRsZero true; XRsEnd true]%N.

Lemma rs_without_lock_refuted :
  exists size l q,
    forallb xcalm l = true /\ xguards false (xinit size) l = true /\
    disciplined (xdtrace false (xinit size) l) = true /\
    let x := xruns_gen false (xinit size) l in
    refd (md (xd x)) q = true /\ ~ In q (xlost x) /\ read_result (xd x) q <> Some q.
Proof.
  exists 0%N, witness_no_lock, 8%N. vm_compute. repeat split; try reflexivity.
  - intros [H|[]]; discriminate.
  - discriminate.
Qed.

(* with it, the same schedule: the writer's data write is not enabled inside the window, it
   happens after the zeroes *)
Lemma rs_with_lock_blocks_writer :
  let x := xruns (xinit 0) (firstn 10 witness_no_lock) in
  snd (xstep x (XD (DWrite 2 true))) = ODBad /\
  read_result (xd (xruns (xinit 0) (firstn 10 witness_no_lock ++ [XRsZero true; XRsEnd true; XD (DWrite 2 true)]))) 8 = Some 8%N.
Proof. vm_compute. split; reflexivity. Qed.

(* the code as it is: an upload of the very sector that is being deleted is in flight (slot
   reserved, data not written yet).  RemoveSector releases that slot, it is handed to another
   sector, and the first writer then writes into it. *)
Definition witness_in_flight_target : list xop :=
  [XD (DMeta (AddVol 1 false)); XD (DMeta (SetAvail 1 true)); XD (DMeta (Grow 1 1));
   XD (DReserve 1 7 (Some (1, 0)));
   XD (DRemoveSector 7);
   XD (DReserve 2 8 (Some (1, 0))); XD (DWrite 2 true); XD DSync; XD (DMeta (AddTemp [(8, 100)]));
   XD (DWrite 1 true)]%N.

Lemma rs_in_flight_refuted :
  exists size l q,
    forallb xcalm l = true /\ disciplined (xdtrace true (xinit size) l) = true /\
    let x := xruns (xinit size) l in
    refd (md (xd x)) q = true /\ ~ In q (xlost x) /\ read_result (xd x) q <> Some q.
Proof.
  exists 0%N, witness_in_flight_target, 8%N. vm_compute. repeat split; try reflexivity.
  - intros [H|[]]; discriminate.
  - discriminate.
Qed.

(* non-vacuity: a run at the finer granularity that meets the hypotheses — a RemoveSector parked
   after its metadata commit while a writer of another sector is handed the released slot *)
Definition xdemo : list xop :=
  [XD (DMeta (AddVol 1 false)); XD (DMeta (SetAvail 1 true)); XD (DMeta (Grow 1 2));
   XD (DReserve 1 7 (Some (1, 0))); XD (DWrite 1 true);
   XD (DReserve 2 9 (Some (1, 1))); XD (DWrite 2 true); XD DSync; XD (DMeta (AddTemp [(7, 100); (9, 100)]));
   XRsLocate 7; XRsCommit;
   XD (DReserve 3 8 (Some (1, 0))); XD (DWrite 3 true);
   XRsZero true; XRsEnd true; XD (DWrite 3 true); XD DSync; XD (DMeta (AddTemp [(8, 100)])); XD DCrash]%N.

Lemma xdemo_ok : xsteps_ok (xinit 0) xdemo.
Proof.
  unfold xdemo. cbn [xsteps_ok]. repeat split.
  all: try (intros r H; vm_compute in H; discriminate).
  all: try (vm_compute; discriminate).
  all: try reflexivity.
  all: try (intros r H; left; vm_compute in H |- *; exact H).
  - intros r H. right. vm_compute in H.
    assert (r = 7%N \/ r = 9%N).
    { destruct (7 =? r)%N eqn:E7; [left; now apply N.eqb_eq in E7|].
      destruct (9 =? r)%N eqn:E9; [right; now apply N.eqb_eq in E9|].
      vm_compute in H. destruct r as [|p]; try discriminate.
      repeat (destruct p as [p|p|]; try discriminate). }
    destruct H0 as [->| ->]; (split; [|reflexivity]); [exists 1%N, 0%N|exists 1%N, 1%N]; vm_compute; auto.
  - intros r H. vm_compute in H.
    assert (r = 7%N \/ r = 9%N \/ r = 8%N).
    { destruct (7 =? r)%N eqn:E7; [left; now apply N.eqb_eq in E7|].
      destruct (9 =? r)%N eqn:E9; [right; left; now apply N.eqb_eq in E9|].
      destruct (8 =? r)%N eqn:E8; [right; right; now apply N.eqb_eq in E8|].
      vm_compute in H. destruct r as [|p]; try discriminate.
      repeat (destruct p as [p|p|]; try discriminate). }
    destruct H0 as [->|[->| ->]]; [left; reflexivity|left; reflexivity|right; split; [exists 1%N, 0%N; vm_compute; auto|reflexivity]].
Qed.

Lemma xdemo_nonvacuous :
  xsteps_ok (xinit 0) xdemo /\
  let x := xruns (xinit 0) xdemo in
  xlost x = [7%N] /\ refd (md (xd x)) 8 = true /\ refd (md (xd x)) 9 = true /\
  read_result (xd x) 8 = Some 8%N /\ read_result (xd x) 9 = Some 9%N /\ read_result (xd x) 7 = None.
Proof. split; [exact xdemo_ok|]. vm_compute. repeat split; reflexivity. Qed.
