(* Storage/SqlJoin.v — the part of SQLite's SELECT semantics beyond single-row expressions that
   tools/sqlgen targets for the storage selections (the expression semantics is SqlSem.v):

     a LEFT JOIN t ON e     per row so far: the rows of t for which e is true, each giving one
                            joined row; if there is none, ONE joined row whose t-columns are all
                            NULL ([sql_left_join], [sql_ocol])
     EXISTS (SELECT ... FROM t WHERE e)     true iff e is true for some row of t; never NULL
     x IN (SELECT id ...)   as the WHERE of a DELETE/UPDATE on the same table's primary key: the
                            rows hit are those for which the sub-select produces a joined row
                            (translated as [existsb] over the joined rows)
   No proofs here. *)
From HostdBase Require Import Base.
From HostdStorage Require Import SqlSem.

(* the joined rows a LEFT JOIN produces for one row of its left side; [on r]: the ON expression
   is true (not false, not NULL) for the row r of the joined table *)
Definition sql_left_join {R} (on : R -> bool) (T : list R) : list (option R) :=
  match filter on T with
  | [] => [None]
  | m => map Some m
  end.

(* a column of a LEFT JOINed table: NULL in the all-NULL row *)
Definition sql_ocol {R A} (col : R -> option A) (j : option R) : option A :=
  match j with Some r => col r | None => None end.

Definition sql_exists {R} (e : R -> option bool) (T : list R) : option bool :=
  Some (existsb (fun r => sql_true (e r)) T).
