(* Storage/SqlJoin.v — the part of SQLite's SELECT semantics beyond single-row expressions that
   tools/sqlgen targets for the storage selections (the expression semantics is SqlSem.v):

     a LEFT JOIN t ON e     per row so far: the rows of t for which e is true, each giving one
                            joined row; if there is none, ONE joined row whose t-columns are all
                            NULL ([sql_left_join], [sql_ocol])
     EXISTS (SELECT ... FROM t WHERE e)     true iff e is true for some row of t; never NULL
     x IN (SELECT id ...)   as the WHERE of a DELETE/UPDATE on the same table's primary key: the
                            rows hit are those for which the sub-select produces a joined row
                            (translated as [existsb] over the joined rows)
   No proofs here. *)
From HostdBase Require Import Base.
From HostdStorage Require Import SqlSem.

(* the joined rows a LEFT JOIN produces for one row of its left side; [on r]: the ON expression
   is true (not false, not NULL) for the row r of the joined table *)
Definition sql_left_join {R} (on : R -> bool) (T : list R) : list (option R) :=
  match filter on T with
  | [] => [None]
  | m => map Some m
  end.

(* a column of a LEFT JOINed table: NULL in the all-NULL row *)
Definition sql_ocol {R A} (col : R -> option A) (j : option R) : option A :=
  match j with Some r => col r | None => None end.

Definition sql_exists {R} (e : R -> option bool) (T : list R) : option bool :=
  Some (existsb (fun r => sql_true (e r)) T).

(* ... WHERE p ORDER BY k DESC LIMIT n, as the WHERE of a DELETE on the same table's primary key:
   SQLite sorts the rows that satisfy p by k, greatest first, and the statement hits the first n
   of them.  Stated on the keys [ks] of the rows hit (k is NOT NULL and identifies a row among the
   rows that satisfy p — volume_index within one volume):
     every key in ks is the key of a row that satisfies p, none twice;
     there are as many as the LIMIT allows;
     no row that satisfies p and is not hit has a greater key than a row that is hit. *)
Fixpoint memZ (z : Z) (l : list Z) : bool :=
  match l with [] => false | x :: t => (z =? x)%Z || memZ z t end.
Fixpoint nodupZ (l : list Z) : bool :=
  match l with [] => true | x :: t => negb (memZ x t) && nodupZ t end.

Definition sql_keys {R} (p : R -> bool) (k : R -> option Z) (rows : list R) : list Z :=
  flat_map (fun r => match k r with Some z => [z] | None => [] end) (filter p rows).

(* the smallest of a list of keys (0 for the empty list: not used then) *)
Fixpoint minZ (l : list Z) : Z :=
  match l with [] => 0%Z | [x] => x | x :: t => Z.min x (minZ t) end.

Definition sql_top_desc {R} (p : R -> bool) (k : R -> option Z) (n : nat) (rows : list R) (ks : list Z) : bool :=
  let ekeys := sql_keys p k rows in
  nodupZ ks && forallb (fun z => memZ z ekeys) ks &&
  Nat.eqb (List.length ks) (Nat.min n (List.length ekeys)) &&
  (* every row that satisfies p and is not hit has a smaller key than every row that is hit,
     i.e. than the smallest key that is hit *)
  forallb (fun z' => memZ z' ks || (z' <? minZ ks)%Z) ekeys.
