(* Storage/WProofs.v — the C08 invariant without the "slot indices are 0..total-1" part.

   A RemoveVolume that is cut between two batches leaves a volume whose remaining slots are an
   arbitrary subset of the former ones (the batches' SELECT ... LIMIT has no ORDER BY; SQLite
   takes the lowest row ids first), so the contiguity conjunct of [Proofs.vol_ok] does not
   survive a single batch.  [winv] is [Proofs.inv] with [NoDup] of the indices in its place.
   Every operation of Model.v preserves it, except that ShrinkVolume, which sets
   total_sectors := maxSectors whatever it deleted, needs the indices below maxSectors to be all
   there ([shrink_safe]; always true on a volume no removal batch has touched: [contig_safe]).
   The proofs are those of Proofs.v with [keys_nodup] taken out. *)
From Coq Require Import Lia ZifyBool ZifyN ZifyNat.
From HostdBase Require Import Base.
From HostdStorage Require Import Model Lemmas Proofs.

Local Open Scope Z_scope.
Arguments stat_inc : simpl never.
Arguments vol_usage : simpl never.
Arguments set_slot : simpl never.
Arguments csum : simpl never.

(* the slots of a volume have distinct indices; total and used count them *)
Definition wvol_ok (vl : vol) : Prop :=
  NoDup (map fst (vslots vl)) /\
  vtotal vl = Z.of_nat (length (vslots vl)) /\
  vused vl = wsum occ1 (vslots vl).

Record winv (s : state) : Prop := mk_winv {
  winv_vids : NoDup (map vid (vols s));
  winv_vol : Forall wvol_ok (vols s);
  winv_inj : forall r, gcnt r (vols s) <= 1;
  winv_total : mTotal (mets s) = gsum vtotal (vols s);
  winv_phys : mPhys (mets s) = gsum vused (vols s);
  winv_contract : mContract (mets s) = csum (cons s);
  winv_temp : mTemp (mets s) = Z.of_nat (length (temps s));
  winv_lost : 0 <= mLost (mets s) }.

Lemma vol_ok_wvol_ok vl : vol_ok vl -> wvol_ok vl.
Proof. intros [O1 [O2 O3]]; split; [now apply keys_nodup|auto]. Qed.

Lemma inv_winv s : inv s -> winv s.
Proof.
  intros [I1 I2 I3 I4 I5 I6 I7 I8]; constructor; auto.
  eapply Forall_impl; [|exact I2]. exact vol_ok_wvol_ok.
Qed.

Lemma winv_init : winv init.
Proof. constructor; cbn; try constructor; try lia. Qed.

Lemma winv_wr s v i x d vl old s' :
  winv s -> vget v (vols s) = Some vl -> sget i (vslots vl) = Some old ->
  d = occ1 x - occ1 old ->
  (forall r, gcnt r (vols s) - is_root r old + is_root r x <= 1) ->
  vols s' = vupd v (wr i x d) (vols s) ->
  mets s' = set_mPhys (mets s) (mPhys (mets s) + d) ->
  temps s' = temps s -> cons s' = cons s -> winv s'.
Proof.
  intros I G S Hd Hinj Hv Hm Ht Hc. destruct I as [I1 I2 I3 I4 I5 I6 I7 I8].
  constructor; rewrite ?Hv, ?Hm, ?Ht, ?Hc; cbn; auto.
  - now rewrite vupd_vids.
  - apply Forall_vupd; [exact I2|]. intros y Gy [O1 [O2 O3]].
    rewrite G in Gy; injection Gy as <-.
    unfold wvol_ok, wr; cbn. rewrite sset_keys, sset_length. repeat split; auto.
    rewrite (wsum_sset occ1 i x _ old S). lia.
  - intros r. unfold gcnt. rewrite (gsum_vupd _ v _ _ vl G). cbn.
    rewrite (wsum_sset (is_root r) i x _ old S). specialize (Hinj r). unfold gcnt in Hinj. lia.
  - rewrite (gsum_vupd _ v _ _ vl G); cbn. lia.
  - rewrite (gsum_vupd _ v _ _ vl G); cbn. lia.
Qed.

Lemma winj_place s r : winv s -> vfind r (vols s) = None ->
  forall r', gcnt r' (vols s) - is_root r' None + is_root r' (Some r) <= 1.
Proof.
  intros I F r'. cbn. destruct (r' =? r)%N eqn:E.
  - apply N.eqb_eq in E; subst. pose proof (vfind_none _ _ F) as H. unfold gcnt; lia.
  - pose proof (winv_inj s I r'); lia.
Qed.

Lemma winj_clear s old : winv s ->
  forall r', gcnt r' (vols s) - is_root r' old + is_root r' None <= 1.
Proof.
  intros I r'. cbn. pose proof (winv_inj s I r'). pose proof (is_root_nonneg r' old). lia.
Qed.

Lemma wvfind_slot s r v j : winv s -> vfind r (vols s) = Some (v, j) ->
  exists vl, vget v (vols s) = Some vl /\ sget j (vslots vl) = Some (Some r).
Proof.
  intros I F. apply vfind_some in F as [vl [Hin [Hv Hs]]].
  exists vl; split.
  - rewrite <- Hv. apply in_vget; [apply (winv_vids s I)|exact Hin].
  - apply in_sget; [|exact Hs].
    pose proof (winv_vol s I) as HF. rewrite Forall_forall in HF. apply (HF vl Hin).
Qed.

Lemma winv_with_known s k : winv s -> winv (with_known s k).
Proof. intros [? ? ? ? ? ? ? ?]; constructor; auto. Qed.

Lemma winv_add_known s r : winv s -> winv (add_known r s).
Proof. intros I; unfold add_known; destruct (mem r (known s)); [exact I|now apply winv_with_known]. Qed.

Lemma wreserve_placed r loc s s1 v i :
  winv s -> reserve r loc s = RPlaced s1 v i ->
  winv s1 /\ vfind r (vols s) = None /\ loc = Some (v, i) /\ valid_free s v i = true /\
  exists vl, vget v (vols s) = Some vl /\ sget i (vslots vl) = Some None /\
             vols s1 = vupd v (wr i (Some r) 1) (vols s).
Proof.
  intros I. unfold reserve.
  destruct (vfind r (vols s)) as [[v0 j0]|] eqn:F; [destruct loc; discriminate|].
  destruct (has_free s); cbn [negb]; [|destruct loc; discriminate].
  destruct loc as [[v' i']|]; [|discriminate].
  destruct (valid_free s v' i') eqn:V; cbn [negb]; [|discriminate].
  destruct (vol_usage v' 1 (set_slot v' i' (Some r) (add_known r s))) as [s1'| |] eqn:U; try discriminate.
  intros [= <- <- <-].
  pose proof V as V'. apply valid_free_slot in V' as [vl [G [_ S]]].
  pose proof (winv_add_known s r I) as Ia.
  apply usage_set_slot in U as [vl' [G' [_ [Hv [Hm [_ [Ht Hc]]]]]]].
  rewrite add_known_vols in G'. rewrite G in G'; injection G' as <-.
  split; [|split; [reflexivity|split; [reflexivity|split; [exact V|]]]].
  - eapply (winv_wr (add_known r s) v' i' (Some r) 1 vl None s1'); eauto.
    + now rewrite add_known_vols.
    + rewrite add_known_vols. apply winj_place; auto.
  - exists vl; split; [exact G|split; [exact S|]]. now rewrite add_known_vols in Hv.
Qed.

Lemma winv_rollback r v i s1 : winv s1 -> winv (fst (rollback r v i s1)).
Proof.
  intros I. unfold rollback.
  destruct (sget i (slots_of v s1)) as [[r'|]|] eqn:S; try exact I.
  destruct (r' =? r)%N eqn:E; [|exact I]. apply N.eqb_eq in E; subst r'.
  apply slots_of_sget in S as [vl [G S]].
  destruct (vol_usage v (-1) (set_slot v i None s1)) as [s2| |] eqn:U; cbn; try exact I.
  apply usage_set_slot in U as [vl2 [G2 [_ [Hv2 [Hm2 [_ [Ht2 Hc2]]]]]]].
  rewrite G in G2; injection G2 as <-.
  eapply (winv_wr s1 v i None (-1) vl (Some r) s2); eauto. apply winj_clear; auto.
Qed.

Lemma winv_store r loc ok s : winv s -> winv (fst (store r loc ok s)).
Proof.
  intros I. unfold store. destruct (reserve r loc s) as [| |s1 v i|o|] eqn:R; cbn; auto.
  - now apply winv_add_known.
  - destruct (wreserve_placed r loc s s1 v i I R) as [I1 _].
    destruct ok; cbn; [exact I1|now apply winv_rollback].
Qed.

Lemma fin_winv s r : winv s -> (forall s', r = Ok s' -> winv s') -> winv (fst (fin s r)).
Proof. intros I H; destruct r; cbn; auto. Qed.

Lemma winv_remove_sector r s s' : winv s -> remove_sector r s = Ok s' -> winv s'.
Proof.
  intros I. unfold remove_sector.
  destruct (mem r (known s)); cbn; [|discriminate].
  destruct (vfind r (vols s)) as [[v j]|] eqn:F; [|discriminate].
  destruct (vol_usage v (-1) (set_slot v j None s)) as [s1| |] eqn:U; cbn; try discriminate.
  destruct (stat_inc (mLost (mets s1)) 1) as [lo| |] eqn:L; cbn; try discriminate.
  intros [= <-]. apply stat_inc_ok in L; subst lo.
  apply usage_set_slot in U as [vl [G [_ [Hv [Hm [_ [Ht Hc]]]]]]].
  destruct (wvfind_slot s r v j I F) as [vl' [G' S]]. rewrite G in G'; injection G' as <-.
  assert (I1 : winv s1).
  { eapply (winv_wr s v j None (-1) vl (Some r) s1); eauto. apply winj_clear; auto. }
  destruct I1 as [? ? ? ? ? ? ? ?]; constructor; cbn; auto; lia.
Qed.

Lemma winv_store_removed r loc s : winv s -> winv (fst (store_removed r loc s)).
Proof.
  intros I. unfold store_removed. destruct (reserve r loc s) as [| |s1 v i|o|] eqn:R; cbn; auto.
  destruct (wreserve_placed r loc s s1 v i I R) as [I1 _].
  destruct (remove_sector r s1) as [s2| |] eqn:M; cbn; auto.
  apply winv_rollback. eapply winv_remove_sector; eauto.
Qed.

Lemma winv_prune_one v i s s' : winv s -> prune_one v i s = Ok s' -> winv s'.
Proof.
  intros I. unfold prune_one, slots_of.
  destruct (vget v (vols s)) as [vl|] eqn:G; cbn; [|now intros [= <-]].
  destruct (sget i (vslots vl)) as [[r|]|] eqn:S; try (now intros [= <-]).
  destruct (refd s r); [now intros [= <-]|].
  intros U. apply usage_set_slot in U as [vl' [G' [_ [Hv [Hm [_ [Ht Hc]]]]]]].
  rewrite G in G'; injection G' as <-.
  eapply (winv_wr s v i None (-1) vl (Some r) s'); eauto. apply winj_clear; auto.
Qed.

Lemma winv_set_flag v f s :
  (forall x, vid (f x) = vid x) -> (forall x, vtotal (f x) = vtotal x) ->
  (forall x, vused (f x) = vused x) -> (forall x, vslots (f x) = vslots x) ->
  winv s -> winv (set_flag v f s).
Proof.
  intros F1 F2 F3 F4 [I1 I2 I3 I4 I5 I6 I7 I8]. unfold set_flag.
  constructor; cbn; auto.
  - now rewrite vupd_vids.
  - apply Forall_vupd; auto. intros x _ [O1 [O2 O3]]. unfold wvol_ok. rewrite F2, F3, F4; auto.
  - intros r. unfold gcnt. destruct (vget v (vols s)) as [vl|] eqn:G.
    + rewrite (gsum_vupd _ v f _ vl G). rewrite F4. specialize (I3 r); unfold gcnt in I3; lia.
    + rewrite vupd_none; auto. apply (I3 r).
  - destruct (vget v (vols s)) as [vl|] eqn:G.
    + rewrite (gsum_vupd _ v f _ vl G), F2; lia.
    + rewrite vupd_none; auto.
  - destruct (vget v (vols s)) as [vl|] eqn:G.
    + rewrite (gsum_vupd _ v f _ vl G), F3; lia.
    + rewrite vupd_none; auto.
Qed.

Lemma winv_add_vol v ro s s' : winv s -> add_vol v ro s = Some s' -> winv s'.
Proof.
  intros [I1 I2 I3 I4 I5 I6 I7 I8]. unfold add_vol.
  destruct (vget v (vols s)) eqn:G; [discriminate|]. intros [= <-].
  constructor; cbn; auto.
  - apply vins_nodup; auto. cbn. now apply vget_none_notin.
  - apply Forall_forall. intros x Hx. apply vins_in in Hx as [->|Hx].
    + unfold wvol_ok; cbn. repeat split; auto. constructor.
    + rewrite Forall_forall in I2; auto.
  - intros r. unfold gcnt. rewrite gsum_vins. cbn. specialize (I3 r); unfold gcnt in I3; lia.
  - rewrite gsum_vins; cbn; lia.
  - rewrite gsum_vins; cbn; lia.
Qed.

Lemma sget_none_notin i (l : slots) : sget i l = None -> ~ In i (map fst l).
Proof.
  induction l as [|[j y] t IH]; cbn; [tauto|].
  destruct (i =? j)%N eqn:E; [discriminate|]. apply N.eqb_neq in E.
  intros H [H1|H1]; [congruence|now apply IH].
Qed.

Lemma NoDup_app_disj {A} (a b : list A) :
  NoDup a -> NoDup b -> (forall x, In x b -> ~ In x a) -> NoDup (a ++ b).
Proof.
  induction a as [|x a IH]; cbn; [auto|]. intros Ha Hb Hd. inversion Ha as [|? ? Hni Ha']; subst.
  constructor.
  - rewrite in_app_iff. intros [H|H]; [auto|]. apply (Hd x H). now left.
  - apply IH; auto. intros y Hy Hin. apply (Hd y Hy). now right.
Qed.

Lemma winv_grow v n s s' : winv s -> grow v n s = Ok s' -> winv s'.
Proof.
  intros I. unfold grow. destruct (n =? 0)%N; [discriminate|].
  destruct (vget v (vols s)) as [vl|] eqn:G; [|discriminate].
  destruct (Z.of_N n <=? vtotal vl) eqn:E1; [now intros [= <-]|].
  destruct (vtotal vl <? 0) eqn:E2; [discriminate|].
  set (from := Z.to_N (vtotal vl)). set (new := nseq from (N.to_nat (n - from))).
  destruct (existsb (fun i => is_some (sget i (vslots vl))) new) eqn:E3; [discriminate|].
  destruct (stat_inc (mTotal (mets s)) (Z.of_N n - vtotal vl)) as [t| |] eqn:S; cbn; try discriminate.
  intros [= <-]. apply stat_inc_ok in S; subst t.
  destruct I as [I1 I2 I3 I4 I5 I6 I7 I8]. constructor; cbn; auto.
  - now rewrite vupd_vids.
  - apply Forall_vupd; auto. intros x Gx [O1 [O2 O3]]. rewrite G in Gx; injection Gx as <-.
    unfold wvol_ok; cbn. repeat split.
    + rewrite map_app, map_map. cbn [fst]. rewrite map_id.
      apply NoDup_app_disj; [exact O1|apply nseq_nodup|].
      intros i Hi. apply sget_none_notin.
      pose proof (existsb_false _ _ E3 i Hi) as H. cbn in H.
      destruct (sget i (vslots vl)); [discriminate|reflexivity].
    + rewrite app_length, map_length. unfold new. rewrite nseq_length. unfold from. lia.
    + rewrite wsum_app, wsum_new. cbn. lia.
  - intros r. unfold gcnt. rewrite (gsum_vupd _ v _ _ vl G). cbn.
    rewrite wsum_app, wsum_new. cbn. specialize (I3 r); unfold gcnt in I3; lia.
  - rewrite (gsum_vupd _ v _ _ vl G). cbn. lia.
  - rewrite (gsum_vupd _ v _ _ vl G). cbn. lia.
Qed.

(* ShrinkVolume deletes the slots with index >= n and sets total_sectors := n: the count stays
   exact only if every index below n exists.  Only a shrink the store accepts matters. *)
Definition shrink_safe (s : state) (o : op) : bool :=
  match o with
  | Shrink v n =>
      match shrink v n s, vget v (vols s) with
      | Ok _, Some vl => (N.of_nat (length (filter (fun y => (fst y <? n)%N) (vslots vl))) =? n)%N
      | _, _ => true
      end
  | _ => true
  end.

Lemma winv_shrink v n s s' :
  winv s -> shrink_safe s (Shrink v n) = true -> shrink v n s = Ok s' -> winv s'.
Proof.
  intros I Safe Sh. cbn [shrink_safe] in Safe. rewrite Sh in Safe. revert Sh.
  unfold shrink. destruct (n =? 0)%N; [discriminate|].
  destruct (vget v (vols s)) as [vl|] eqn:G.
  2:{ destruct (existsb _ []); discriminate. }
  destruct (existsb (fun x => (n <=? fst x)%N && is_some (snd x)) (vslots vl)) eqn:E0; [discriminate|].
  destruct (vtotal vl <? Z.of_N n) eqn:E1; [discriminate|].
  destruct (stat_inc (mTotal (mets s)) (Z.of_N n - vtotal vl)) as [t| |] eqn:S; cbn; try discriminate.
  intros [= <-]. apply stat_inc_ok in S; subst t.
  assert (Hnone : forall x, In x (vslots vl) -> (fst x <? n)%N = false -> snd x = None).
  { intros x Hx Hlt. pose proof (existsb_false _ _ E0 x Hx) as E.
    apply Bool.andb_false_iff in E as [E|E]; [lia|]. destruct (snd x); [discriminate|reflexivity]. }
  destruct I as [I1 I2 I3 I4 I5 I6 I7 I8]. constructor; cbn; auto.
  - now rewrite vupd_vids.
  - apply Forall_vupd; auto. intros x Gx [O1 [O2 O3]]. rewrite G in Gx; injection Gx as <-.
    unfold wvol_ok; cbn. repeat split.
    + now apply NoDup_filter_keys.
    + lia.
    + rewrite wsum_filter_keep; auto.
  - intros r. unfold gcnt. rewrite (gsum_vupd _ v _ _ vl G). cbn.
    rewrite wsum_filter_keep; auto. specialize (I3 r); unfold gcnt in I3; lia.
  - rewrite (gsum_vupd _ v _ _ vl G). cbn. lia.
  - rewrite (gsum_vupd _ v _ _ vl G). cbn. lia.
Qed.

(* a volume no removal batch has touched has the indices 0 .. total-1: every shrink that the
   store accepts is safe there *)
Lemma contig_safe v n s : inv s -> shrink_safe s (Shrink v n) = true.
Proof.
  intros I. cbn [shrink_safe]. destruct (shrink v n s) as [s'| |] eqn:Sh; try reflexivity.
  destruct (vget v (vols s)) as [vl|] eqn:G; [|reflexivity].
  revert Sh. unfold shrink. destruct (n =? 0)%N; [discriminate|]. rewrite G.
  destruct (existsb _ (vslots vl)); [discriminate|].
  destruct (vtotal vl <? Z.of_N n) eqn:E1; [discriminate|]. intros _.
  pose proof (inv_vol s I) as HF. rewrite Forall_forall in HF.
  destruct (HF vl (proj1 (vget_in v _ vl G))) as [O1 [O2 O3]].
  rewrite <- (map_length fst (filter _ _)).
  rewrite (filter_keys_below n (vslots vl) 0%N); [|exact O1|lia|lia].
  rewrite nseq_length. lia.
Qed.

Lemma winv_remove_vol v force s s' : winv s -> remove_vol v force s = Ok s' -> winv s'.
Proof.
  intros I. unfold remove_vol.
  destruct (vget v (vols s)) as [vl|] eqn:G; [|discriminate].
  destruct (negb force && negb (wsum occ1 (vslots vl) =? 0)); [discriminate|].
  destruct (stat_inc (mPhys (mets s)) (- wsum occ1 (vslots vl))) as [p| |] eqn:S1; cbn [bind]; try discriminate.
  destruct (stat_inc (mLost (mets s)) (wsum occ1 (vslots vl))) as [lo| |] eqn:S2; cbn [bind]; try discriminate.
  destruct (stat_inc (mTotal (mets s)) (- Z.of_nat (length (vslots vl)))) as [t| |] eqn:S3; cbn [bind]; try discriminate.
  intros [= <-]. apply stat_inc_ok in S1, S2, S3; subst p lo t.
  destruct I as [I1 I2 I3 I4 I5 I6 I7 I8].
  assert (Hok : wvol_ok vl).
  { rewrite Forall_forall in I2; apply I2. now apply (vget_in v (vols s) vl). }
  destruct Hok as [O1 [O2 O3]].
  pose proof (wsum_nonneg occ1 (vslots vl) occ1_nonneg) as Hnn.
  constructor; cbn; auto.
  - now apply vdel_nodup.
  - now apply Forall_vdel.
  - intros r. unfold gcnt. rewrite (gsum_vdel _ v _ vl G).
    pose proof (wsum_nonneg (is_root r) (vslots vl) (is_root_nonneg r)).
    specialize (I3 r); unfold gcnt in I3; lia.
  - rewrite (gsum_vdel _ v _ vl G). lia.
  - rewrite (gsum_vdel _ v _ vl G). lia.
  - lia.
Qed.

Lemma winv_mig_move v idx r to s s' vl tl :
  winv s -> vget v (vols s) = Some vl -> sget idx (vslots vl) = Some (Some r) ->
  vget (fst to) (vols s) = Some tl -> sget (snd to) (vslots tl) = Some None ->
  mig_move v idx r to s = Ok s' -> winv s'.
Proof.
  intros I G S Gt St. destruct to as [tv ti]. cbn [fst snd] in *. unfold mig_move. cbn [fst snd].
  (* first clear the source (as a write with usage -1), then fill the target (usage +1) *)
  set (sa := with_mets (with_vols s (vupd v (wr idx None (-1)) (vols s)))
                       (set_mPhys (mets s) (mPhys (mets s) + -1))).
  assert (Ia : winv sa).
  { eapply (winv_wr s v idx None (-1) vl (Some r) sa); eauto. apply winj_clear; auto. }
  assert (Gta : exists tl', vget tv (vols sa) = Some tl' /\ sget ti (vslots tl') = Some None).
  { cbn. destruct (N.eq_dec v tv) as [->|Hne].
    - rewrite G in Gt; injection Gt as <-.
      rewrite (vget_vupd_same tv _ (vols s) vl); [|reflexivity|exact G].
      eexists; split; [reflexivity|]. cbn. rewrite sget_sset_other; auto.
      intros ->. congruence.
    - rewrite vget_vupd_other; [|reflexivity|exact Hne]. eauto. }
  destruct Gta as [tl' [Gt' St']].
  set (sb := with_mets (with_vols sa (vupd tv (wr ti (Some r) 1) (vols sa)))
                       (set_mPhys (mets sa) (mPhys (mets sa) + 1))).
  assert (Ib : winv sb).
  { eapply (winv_wr sa tv ti (Some r) 1 tl' None sb); eauto.
    intros r'. cbn [is_root]. destruct (r' =? r)%N eqn:E.
    - apply N.eqb_eq in E; subst r'.
      unfold sa; cbn [vols with_mets with_vols]. unfold gcnt. rewrite (gsum_vupd _ v _ _ vl G). cbn.
      rewrite (wsum_sset (is_root r) idx None _ (Some r) S). cbn. rewrite N.eqb_refl.
      pose proof (winv_inj s I r) as H; unfold gcnt in H. lia.
    - pose proof (winv_inj sa Ia r'). lia. }
  (* the model's final state has the same volumes, metrics, references *)
  assert (Hsame : forall s2, vols s2 = vols sb -> mPhys (mets s2) = mPhys (mets sb) ->
            mTotal (mets s2) = mTotal (mets sb) -> mLost (mets s2) = mLost (mets sb) ->
            mContract (mets s2) = mContract (mets sb) -> mTemp (mets s2) = mTemp (mets sb) ->
            temps s2 = temps sb -> cons s2 = cons sb -> winv s2).
  { intros s2 E1 E2 E3 E4 E5 E6 E7 E8. destruct Ib as [? ? ? ? ? ? ? ?].
    constructor; rewrite ?E1, ?E2, ?E3, ?E4, ?E5, ?E6, ?E7, ?E8; auto. }
  destruct (v =? tv)%N eqn:Ev.
  - apply N.eqb_eq in Ev; subst tv. intros [= <-].
    apply Hsame; try reflexivity.
    + rewrite !set_slot_vols. unfold sb, sa. cbn [vols with_mets with_vols].
      rewrite !vupd_vupd by reflexivity. apply vupd_ext. intros x. unfold wr; cbn.
      destruct x; unfold set_used, set_slots; cbn. f_equal. lia.
    + unfold sb, sa, set_slot; cbn. lia.
  - apply N.eqb_neq in Ev.
    destruct (vol_usage v (-1) (set_slot tv ti (Some r) (set_slot v idx None s))) as [s2| |] eqn:U1; cbn [bind]; try discriminate.
    intros U2.
    apply vol_usage_ok in U1 as [x1 [_ [_ [Hv1 [Hm1 [_ [Ht1 Hc1]]]]]]].
    apply vol_usage_ok in U2 as [x2 [_ [_ [Hv2 [Hm2 [_ [Ht2 Hc2]]]]]]].
    apply Hsame.
    + rewrite Hv2, Hv1, !set_slot_vols. unfold sb, sa. cbn [vols with_mets with_vols].
      rewrite (vupd_comm v tv) by (auto; reflexivity).
      rewrite !vupd_vupd by reflexivity. reflexivity.
    + rewrite Hm2, Hm1. unfold sb, sa, set_slot; cbn. lia.
    + rewrite Hm2, Hm1. reflexivity.
    + rewrite Hm2, Hm1. reflexivity.
    + rewrite Hm2, Hm1. reflexivity.
    + rewrite Hm2, Hm1. reflexivity.
    + rewrite Ht2, Ht1. reflexivity.
    + rewrite Hc2, Hc1. reflexivity.
Qed.

Lemma wslots_of_get v s j r : winv s -> In (j, Some r) (slots_of v s) ->
  exists vl, vget v (vols s) = Some vl /\ sget j (vslots vl) = Some (Some r).
Proof.
  intros I. unfold slots_of. destruct (vget v (vols s)) as [vl|] eqn:G; [|cbn; tauto].
  intros Hin. exists vl; split; auto. apply in_sget; auto.
  pose proof (winv_vol s I) as HF. rewrite Forall_forall in HF. apply HF. now apply (vget_in v _ vl).
Qed.

Lemma winv_migrate fuel : forall v start index calls mig fail s,
  winv s -> winv (fst (migrate fuel v start index calls mig fail s)).
Proof.
  induction fuel as [|f IH]; intros v start index calls mig fail s I; cbn [migrate]; [exact I|].
  destruct (next_occ index (slots_of v s) None) as [[idx r]|] eqn:Nx.
  2:{ destruct calls; exact I. }
  destruct (mig_has_target s v start); cbn [negb].
  2:{ destruct calls; exact I. }
  destruct calls as [|[[fidx to] ok] rest]; [exact I|].
  destruct ((fidx =? idx)%N && mig_valid_target s v start to) eqn:V; cbn [negb]; [|exact I].
  apply Bool.andb_true_iff in V as [_ V].
  destruct ok; [|apply IH; exact I].
  destruct (mig_move v idx r to s) as [s1| |] eqn:M; try exact I.
  apply IH.
  apply next_occ_in in Nx as [Nx|Nx]; [discriminate|].
  destruct (wslots_of_get v s idx r I Nx) as [vl [G S]].
  destruct (mig_valid_slot s v start to V) as [tl [Gt St]].
  exact (winv_mig_move v idx r to s s1 vl tl I G S Gt St M).
Qed.

Lemma winv_migrate_one v start idx to ok s s' : winv s -> migrate_one v start idx to ok s = Ok s' -> winv s'.
Proof.
  intros I. unfold migrate_one.
  destruct (sget idx (slots_of v s)) as [[r|]|] eqn:S; try (now intros [= <-]).
  destruct (mig_valid_target s v start to && ok) eqn:V; [|now intros [= <-]].
  apply Bool.andb_true_iff in V as [V _]. intros M.
  apply sget_in in S. destruct (wslots_of_get v s idx r I S) as [vl [G S']].
  destruct (mig_valid_slot s v start to V) as [tl [Gt St]].
  exact (winv_mig_move v idx r to s s' vl tl I G S' Gt St M).
Qed.

Lemma winv_refs s s' :
  winv s -> vols s' = vols s ->
  mTotal (mets s') = mTotal (mets s) -> mPhys (mets s') = mPhys (mets s) -> mLost (mets s') = mLost (mets s) ->
  mContract (mets s') = csum (cons s') -> mTemp (mets s') = Z.of_nat (length (temps s')) -> winv s'.
Proof.
  intros [I1 I2 I3 I4 I5 I6 I7 I8] E1 E2 E3 E4 E5 E6.
  constructor; rewrite ?E1, ?E2, ?E3, ?E4; auto.
Qed.

Lemma winv_add_temps l s s' : winv s -> add_temps l s = Ok s' -> winv s'.
Proof.
  intros I. unfold add_temps. destruct (negb _); [discriminate|].
  destruct (stat_inc _ _) as [m| |] eqn:S; cbn [bind]; try discriminate. intros [= <-].
  apply stat_inc_ok in S; subst m. apply (winv_refs s); cbn; auto.
  - apply (winv_contract s I).
  - rewrite app_length, (winv_temp s I). lia.
Qed.

Lemma winv_add_temp1 r e s s' : winv s -> add_temp1 r e s = Ok s' -> winv s'.
Proof.
  intros I. unfold add_temp1. destruct (negb _); [discriminate|].
  destruct (stat_inc _ _) as [m| |] eqn:S; cbn [bind]; try discriminate. intros [= <-].
  apply stat_inc_ok in S; subst m. apply (winv_refs s); cbn; auto.
  - apply (winv_contract s I).
  - rewrite app_length, (winv_temp s I). cbn. lia.
Qed.

Lemma winv_expire_temp h s s' : winv s -> expire_temp h s = Ok s' -> winv s'.
Proof.
  intros I. unfold expire_temp.
  destruct (stat_inc _ _) as [m| |] eqn:S; cbn [bind]; try discriminate. intros [= <-].
  apply stat_inc_ok in S; subst m. apply (winv_refs s); cbn; auto.
  - apply (winv_contract s I).
  - rewrite (winv_temp s I). lia.
Qed.

Lemma winv_drop_temp pos h s s' : winv s -> drop_temp pos h s = Ok s' -> winv s'.
Proof.
  intros I. unfold drop_temp.
  destruct (nth_error (temps s) (N.to_nat pos)) as [t|] eqn:E; [|now intros [= <-]].
  destruct (temp_live h t); [now intros [= <-]|].
  destruct (stat_inc _ _) as [m| |] eqn:S; cbn [bind]; try discriminate. intros [= <-].
  apply stat_inc_ok in S; subst m. apply (winv_refs s); cbn; auto.
  - apply (winv_contract s I).
  - assert (H : (N.to_nat pos < length (temps s))%nat) by (apply nth_error_Some; congruence).
    rewrite del_nth_t_length, (winv_temp s I) by exact H. lia.
Qed.

Lemma winv_add_contract c v2 e n s s' : winv s -> add_contract c v2 e n s = Ok s' -> winv s'.
Proof.
  intros I. unfold add_contract. destruct (cget c v2 (cons s)); [discriminate|]. intros [= <-].
  apply (winv_refs s); cbn; auto.
  - rewrite csum_app, (winv_contract s I). unfold csum; cbn. lia.
  - apply (winv_temp s I).
Qed.

Lemma winv_reject h s : winv s -> winv (reject h s).
Proof.
  intros I. apply (winv_refs s); cbn; auto.
  - rewrite csum_map_rej, (winv_contract s I); [reflexivity|].
    intros c; destruct (cneg c <? h)%N; reflexivity.
  - apply (winv_temp s I).
Qed.

Lemma winv_revise_v1 c chs s s' : winv s -> revise_v1 c chs s = Ok s' -> winv s'.
Proof.
  intros I. unfold revise_v1. destruct (cget c false (cons s)) as [ct|] eqn:G; [|discriminate].
  destruct (apply_changes _ _ _ _) as [[roots m]| |] eqn:A; cbn [bind]; try discriminate. intros [= <-].
  apply apply_changes_len in A. apply (winv_refs s); cbn; auto.
  - rewrite (csum_cupd c false _ _ ct G). cbn. rewrite (winv_contract s I) in A. lia.
  - apply (winv_temp s I).
Qed.

Lemma winv_revise_v2 c new s s' : winv s -> revise_v2 c new s = Ok s' -> winv s'.
Proof.
  intros I. unfold revise_v2. destruct (cget c true (cons s)) as [ct|] eqn:G; [|discriminate].
  destruct (negb _); [discriminate|].
  destruct (stat_inc _ _) as [m| |] eqn:S; cbn [bind]; try discriminate. intros [= <-].
  apply stat_inc_ok in S; subst m. apply (winv_refs s); cbn; auto.
  - rewrite (csum_cupd c true _ _ ct G). cbn. rewrite (winv_contract s I). lia.
  - apply (winv_temp s I).
Qed.

Lemma winv_renew old new v2 e n s s' : winv s -> renew old new v2 e n s = Ok s' -> winv s'.
Proof.
  intros I. unfold renew. destruct (cget new v2 (cons s)); [discriminate|].
  destruct (cget old v2 (cons s)) as [oc|] eqn:G; [|discriminate]. intros [= <-].
  apply (winv_refs s); cbn; auto.
  - rewrite csum_app, (csum_cupd old v2 _ _ oc G). cbn. rewrite (winv_contract s I). unfold csum; cbn. lia.
  - apply (winv_temp s I).
Qed.

Lemma winv_expire_cons v2 h s s' : winv s -> expire_cons v2 h s = Ok s' -> winv s'.
Proof.
  intros I. unfold expire_cons.
  destruct (stat_inc _ _) as [m| |] eqn:S; cbn [bind]; try discriminate. intros [= <-].
  apply stat_inc_ok in S; subst m. apply (winv_refs s); cbn; auto.
  - rewrite (winv_contract s I). lia.
  - apply (winv_temp s I).
Qed.

Lemma winv_drop_root c v2 pos h s s' : winv s -> drop_root c v2 pos h s = Ok s' -> winv s'.
Proof.
  intros I. unfold drop_root. destruct (cget c v2 (cons s)) as [ct|] eqn:G; [|now intros [= <-]].
  destruct (exp_sel v2 h ct && (pos <? len (croots ct))%N) eqn:E; [|now intros [= <-]].
  apply Bool.andb_true_iff in E as [_ E]. unfold len in E.
  destruct (stat_inc _ _) as [m| |] eqn:S; cbn [bind]; try discriminate. intros [= <-].
  apply stat_inc_ok in S; subst m. apply (winv_refs s); cbn; auto.
  - rewrite (csum_cupd c v2 _ _ ct G). cbn. rewrite del_nth_length by lia. rewrite (winv_contract s I). lia.
  - apply (winv_temp s I).
Qed.

Lemma wprune_vols_ok f l l' n :
  prune_vols f l = Ok (l', n) ->
  map vid l' = map vid l /\ (Forall wvol_ok l -> Forall wvol_ok l') /\
  gsum vused l' = gsum vused l - n /\ gsum vtotal l' = gsum vtotal l /\ 0 <= n /\
  forall r, gcnt r l' <= gcnt r l.
Proof.
  revert l' n; induction l as [|vl t IH]; intros l' n; cbn [prune_vols].
  - intros [= <- <-]. cbn. repeat split; auto; lia.
  - destruct (vused vl - wsum (prunable f) (vslots vl) <? 0); [discriminate|].
    destruct (prune_vols f t) as [[t' n']| |] eqn:P; cbn [bind]; try discriminate.
    intros [= <- <-]. destruct (IH t' n' eq_refl) as [H1 [H2 [H3 [H4 [H5 H6]]]]].
    pose proof (wsum_nonneg (prunable f) (vslots vl) (prunable_nonneg f)).
    cbn. repeat split; try lia.
    + now rewrite H1.
    + intros HF; inversion HF as [|? ? [O1 [O2 O3]] HF']; subst. constructor; auto.
      unfold wvol_ok; cbn. rewrite pslots_keys, pslots_occ.
      unfold pslots at 1. rewrite !map_length. repeat split; auto. lia.
    + intros r. unfold gcnt in *. cbn. specialize (H6 r).
      pose proof (pslots_le (is_root r) f (vslots vl) (is_root_nonneg r) eq_refl). lia.
Qed.

Lemma winv_prune_with f s s' : winv s -> prune_with f s = Ok s' -> winv s'.
Proof.
  intros I. unfold prune_with.
  destruct (prune_vols f (vols s)) as [[vs n]| |] eqn:P; cbn [bind]; try discriminate.
  destruct (stat_inc _ _) as [p| |] eqn:S; cbn [bind]; try discriminate. intros [= <-].
  apply stat_inc_ok in S; subst p.
  destruct (wprune_vols_ok _ _ _ _ P) as [H1 [H2 [H3 [H4 [H5 H6]]]]].
  destruct I as [I1 I2 I3 I4 I5 I6 I7 I8]. constructor; cbn; auto.
  - now rewrite H1.
  - intros r. specialize (H6 r). specialize (I3 r). unfold gcnt in *. lia.
  - lia.
  - lia.
Qed.

Lemma winv_prune all s s' : winv s -> prune all s = Ok s' -> winv s'.
Proof.
  intros I. unfold prune. destruct all; cbn [negb]; [|now intros [= <-]]. now apply winv_prune_with.
Qed.

Theorem winv_step s o : winv s -> shrink_safe s o = true -> winv (fst (step s o)).
Proof.
  intros I Safe. destruct o; cbn [step].
  - destruct (add_vol v ro s) eqn:E; cbn; [eapply winv_add_vol; eauto|exact I].
  - apply fin_winv; auto. intros; eapply winv_grow; eauto.
  - apply fin_winv; auto. intros; eapply winv_shrink; eauto.
  - apply fin_winv; auto. intros; eapply winv_remove_vol; eauto.
  - cbn. apply winv_set_flag; auto.
  - cbn. apply winv_set_flag; auto.
  - now apply winv_store.
  - now apply winv_store_removed.
  - now apply winv_migrate.
  - apply fin_winv; auto. intros; eapply winv_remove_sector; eauto.
  - exact I.
  - exact I.
  - exact I.
  - apply fin_winv; auto. intros; eapply winv_add_temps; eauto.
  - apply fin_winv; auto. intros; eapply winv_add_temp1; eauto.
  - apply fin_winv; auto. intros; eapply winv_expire_temp; eauto.
  - apply fin_winv; auto. intros; eapply winv_add_contract; eauto.
  - cbn. now apply winv_reject.
  - apply fin_winv; auto. intros; eapply winv_revise_v1; eauto.
  - apply fin_winv; auto. intros; eapply winv_revise_v2; eauto.
  - apply fin_winv; auto. intros; eapply winv_renew; eauto.
  - apply fin_winv; auto. intros; eapply winv_expire_cons; eauto.
  - apply fin_winv; auto. intros; eapply winv_expire_cons; eauto.
  - apply fin_winv; auto. intros; eapply winv_prune; eauto.
  - exact I.
  - apply fin_winv; auto. intros; eapply winv_drop_root; eauto.
  - apply fin_winv; auto. intros; eapply winv_drop_temp; eauto.
  - apply fin_winv; auto. intros; eapply winv_prune_one; eauto.
  - apply fin_winv; auto. intros; eapply winv_migrate_one; eauto.
Qed.
