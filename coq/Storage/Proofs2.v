(* Storage/Proofs2.v — the C08 statements derived from the invariant *)
From Coq Require Import Lia ZifyBool ZifyN ZifyNat.
From HostdBase Require Import Base.
From HostdStorage Require Import Model Lemmas Proofs.

Local Open Scope Z_scope.
Arguments stat_inc : simpl never.
Arguments vol_usage : simpl never.
Arguments set_slot : simpl never.
Arguments csum : simpl never.

(** * Slots and sectors *)
Definition slot_at (s : state) (v i : N) : option (option N) :=
  match vget v (vols s) with Some vl => sget i (vslots vl) | None => None end.

Lemma wsum_two r l i j :
  sget i l = Some (Some r) -> sget j l = Some (Some r) -> i <> j -> 2 <= wsum (is_root r) l.
Proof.
  induction l as [|[k y] t IH]; cbn; [discriminate|].
  intros Hi Hj Hne.
  destruct (i =? k)%N eqn:Ei; destruct (j =? k)%N eqn:Ej.
  - apply N.eqb_eq in Ei, Ej; congruence.
  - injection Hi as ->. cbn. rewrite N.eqb_refl.
    assert (H : 1 <= wsum (is_root r) t).
    { clear - Hj. induction t as [|[k' y'] t IH]; cbn in *; [discriminate|].
      destruct (j =? k')%N.
      - injection Hj as ->. cbn. rewrite N.eqb_refl.
        pose proof (wsum_nonneg (is_root r) t (is_root_nonneg r)). lia.
      - specialize (IH Hj). pose proof (is_root_nonneg r y'). lia. }
    lia.
  - injection Hj as ->. cbn. rewrite N.eqb_refl.
    assert (H : 1 <= wsum (is_root r) t).
    { clear - Hi. induction t as [|[k' y'] t IH]; cbn in *; [discriminate|].
      destruct (i =? k')%N.
      - injection Hi as ->. cbn. rewrite N.eqb_refl.
        pose proof (wsum_nonneg (is_root r) t (is_root_nonneg r)). lia.
      - specialize (IH Hi). pose proof (is_root_nonneg r y'). lia. }
    lia.
  - specialize (IH Hi Hj Hne). pose proof (is_root_nonneg r y). lia.
Qed.

Lemma wsum_one r l i : sget i l = Some (Some r) -> 1 <= wsum (is_root r) l.
Proof.
  induction l as [|[k y] t IH]; cbn; [discriminate|].
  destruct (i =? k)%N.
  - intros [= ->]. cbn. rewrite N.eqb_refl.
    pose proof (wsum_nonneg (is_root r) t (is_root_nonneg r)). lia.
  - intros H. specialize (IH H). pose proof (is_root_nonneg r y). lia.
Qed.

Lemma gsum_two g l v w a b :
  (forall x, 0 <= g x) -> v <> w -> vget v l = Some a -> vget w l = Some b -> g a + g b <= gsum g l.
Proof.
  intros Hg Hne. induction l as [|x t IH]; cbn; [discriminate|].
  destruct (v =? vid x)%N eqn:Ev; destruct (w =? vid x)%N eqn:Ew.
  - apply N.eqb_eq in Ev, Ew; congruence.
  - intros [= ->] Hb. apply vget_in in Hb as [Hb _].
    pose proof (gsum_in_le g t b Hg Hb). lia.
  - intros Ha [= ->]. apply vget_in in Ha as [Ha _].
    pose proof (gsum_in_le g t a Hg Ha). lia.
  - intros Ha Hb. specialize (IH Ha Hb). specialize (Hg x). lia.
Qed.

(* a sector is in at most one slot *)
Lemma slot_injective s v i v' i' r :
  inv s -> slot_at s v i = Some (Some r) -> slot_at s v' i' = Some (Some r) -> v = v' /\ i = i'.
Proof.
  intros I. unfold slot_at.
  destruct (vget v (vols s)) as [a|] eqn:Ga; [|discriminate].
  destruct (vget v' (vols s)) as [b|] eqn:Gb; [|discriminate].
  intros Sa Sb. pose proof (inv_inj s I r) as Hinj. unfold gcnt in Hinj.
  destruct (N.eq_dec v v') as [->|Hv].
  - split; [reflexivity|]. rewrite Ga in Gb; injection Gb as <-.
    destruct (N.eq_dec i i') as [|Hi]; [assumption|exfalso].
    pose proof (wsum_two r _ i i' Sa Sb Hi).
    apply vget_in in Ga as [Ga _].
    pose proof (gsum_in_le (fun vl => wsum (is_root r) (vslots vl)) _ a
                  (fun x => wsum_nonneg _ _ (is_root_nonneg r)) Ga). cbn in *. lia.
  - exfalso.
    pose proof (gsum_two (fun vl => wsum (is_root r) (vslots vl)) _ v v' a b
                  (fun x => wsum_nonneg _ _ (is_root_nonneg r)) Hv Ga Gb) as H. cbn in H.
    pose proof (wsum_one r _ i Sa). pose proof (wsum_one r _ i' Sb). lia.
Qed.

(* and every slot (volume id, index) exists once *)
Lemma slot_unique s : inv s ->
  NoDup (map vid (vols s)) /\ forall vl, In vl (vols s) -> NoDup (map fst (vslots vl)).
Proof.
  intros I; split; [apply (inv_vids s I)|]. intros vl Hin. apply keys_nodup.
  pose proof (inv_vol s I) as HF. rewrite Forall_forall in HF. apply (HF vl Hin).
Qed.

(** * Counters are recounts *)
Definition n_slots (vl : vol) : Z := Z.of_nat (length (vslots vl)).
Definition n_used (vl : vol) : Z := wsum occ1 (vslots vl).

Lemma counters_exact s : inv s ->
  (forall vl, In vl (vols s) -> vused vl = n_used vl /\ vtotal vl = n_slots vl) /\
  mTotal (mets s) = gsum n_slots (vols s) /\
  mPhys (mets s) = gsum n_used (vols s) /\
  mContract (mets s) = csum (cons s) /\
  mTemp (mets s) = Z.of_nat (length (temps s)).
Proof.
  intros I. pose proof (inv_vol s I) as HF. rewrite Forall_forall in HF.
  repeat split.
  - apply (HF vl H).
  - apply (HF vl H).
  - rewrite (inv_total s I). apply gsum_ext. intros x Hx. apply (HF x Hx).
  - rewrite (inv_phys s I). apply gsum_ext. intros x Hx. apply (HF x Hx).
  - apply (inv_contract s I).
  - apply (inv_temp s I).
Qed.

(** * Placement *)
Lemma has_free_spec s :
  has_free s = true <->
  exists vl i, In vl (vols s) /\ vavail vl = true /\ vro vl = false /\ In (i, None) (vslots vl).
Proof.
  unfold has_free. rewrite existsb_exists. split.
  - intros [vl [Hin H]]. apply Bool.andb_true_iff in H as [W E].
    unfold writable in W. apply Bool.andb_true_iff in W as [W1 W2]. apply Bool.negb_true_iff in W2.
    unfold has_empty in E. apply existsb_exists in E as [[i x] [Hx Hn]]. cbn in Hn.
    destruct x; [discriminate|]. exists vl, i; auto.
  - intros [vl [i [Hin [A [R Hs]]]]]. exists vl; split; auto.
    unfold writable. rewrite A, R. cbn. unfold has_empty. apply existsb_exists.
    exists (i, None); auto.
Qed.

Lemma rollback_not_ok r v i s1 s' : rollback r v i s1 <> (s', ORes (Ok tt)).
Proof.
  unfold rollback. destruct (sget i (slots_of v s1)) as [[r'|]|]; try congruence.
  destruct (r' =? r)%N; [|congruence]. destruct (vol_usage v (-1) _); congruence.
Qed.

Lemma store_placement r loc ok s s' :
  inv s ->
  step s (Store r loc ok) = (s', ORes (Ok tt)) -> vfind r (vols s) = None ->
  exists v i vl, loc = Some (v, i) /\ ok = true /\
    vget v (vols s) = Some vl /\ vavail vl = true /\ vro vl = false /\
    sget i (vslots vl) = Some None /\ slot_at s' v i = Some (Some r).
Proof.
  intros I. cbn [step]. unfold store. intros H F.
  destruct (reserve r loc s) as [| |s1 v i|o|] eqn:R.
  - unfold reserve in R. rewrite F in R. destruct (has_free s); cbn [negb] in R.
    + destruct loc as [[? ?]|]; [|discriminate]. destruct (valid_free s n n0); cbn [negb] in R; [|discriminate].
      destruct (vol_usage _ _ _); discriminate.
    + destruct loc; discriminate.
  - discriminate.
  - destruct (reserve_placed r loc s s1 v i I R) as [_ [_ [-> [V [vl [G [S Hv]]]]]]].
    destruct ok; [|exfalso; eapply rollback_not_ok; eauto]. injection H as <-.
    apply valid_free_slot in V as [vl' [G' [W _]]]. rewrite G in G'; injection G' as <-.
    unfold writable in W. apply Bool.andb_true_iff in W as [W1 W2]. apply Bool.negb_true_iff in W2.
    exists v, i, vl; repeat split; auto.
    unfold slot_at. rewrite Hv, (vget_vupd_same v _ _ vl); [|reflexivity|exact G].
    cbn. eapply sget_sset_same; eauto.
  - unfold reserve in R. rewrite F in R. destruct (has_free s); cbn [negb] in R; [|destruct loc; discriminate].
    destruct loc as [[? ?]|]; [|discriminate]. destruct (valid_free s n n0); cbn [negb] in R; [|discriminate].
    destruct (vol_usage _ _ _); try discriminate; injection R as <-; discriminate.
  - discriminate.
Qed.

Lemma rollback_not_full r v i s1 : snd (rollback r v i s1) <> ORes (Err ENotEnoughStorage).
Proof.
  unfold rollback. destruct (sget i (slots_of v s1)) as [[r'|]|]; cbn; try congruence.
  destruct (r' =? r)%N; cbn; [|congruence]. destruct (vol_usage v (-1) _); cbn; congruence.
Qed.

Lemma store_not_enough_iff r loc ok s :
  snd (step s (Store r loc ok)) <> OBad ->
  (snd (step s (Store r loc ok)) = ORes (Err ENotEnoughStorage) <->
   vfind r (vols s) = None /\ has_free s = false).
Proof.
  cbn [step]. unfold store, reserve.
  destruct (vfind r (vols s)) as [[v0 j0]|] eqn:F.
  { destruct loc; cbn; intros H; split; try discriminate; intros [? ?]; discriminate. }
  destruct (has_free s) eqn:HF; cbn [negb].
  2:{ destruct loc; cbn; intros H; [congruence|]. split; auto. }
  destruct loc as [[v i]|]; cbn; [|congruence].
  destruct (valid_free s v i); cbn [negb]; [|cbn; congruence].
  intros _. split; [|intros [_ ?]; discriminate].
  destruct (vol_usage v 1 _) as [s1| |]; cbn; try discriminate.
  destruct ok; cbn; try discriminate.
  intros H. exfalso. eapply rollback_not_full; eauto.
Qed.

Lemma gsum_vused_nonneg s : inv s -> 0 <= gsum vused (vols s).
Proof.
  intros I. pose proof (inv_vol s I) as HF. rewrite Forall_forall in HF.
  rewrite (gsum_ext vused n_used); [|intros x Hx; apply (HF x Hx)].
  apply gsum_nonneg. intros x. apply wsum_nonneg, occ1_nonneg.
Qed.

(* with room, a new sector is stored at the location the store picked *)
Lemma store_ok_if r v i s :
  inv s -> vfind r (vols s) = None -> valid_free s v i = true ->
  snd (step s (Store r (Some (v, i)) true)) = ORes (Ok tt).
Proof.
  intros I F V. cbn [step]. unfold store, reserve. rewrite F.
  assert (HF : has_free s = true).
  { apply valid_free_slot in V as [vl [G [W S]]]. unfold has_free. apply existsb_exists.
    exists vl; split; [now apply (vget_in v _ vl)|]. rewrite W. cbn. unfold has_empty.
    apply existsb_exists. exists (i, None); split; [now apply sget_in|reflexivity]. }
  rewrite HF, V. cbn [negb].
  pose proof V as V'. apply valid_free_slot in V' as [vl [G [W S]]].
  unfold vol_usage. unfold set_slot at 1. cbn [vols with_vols]. rewrite add_known_vols.
  rewrite (vget_vupd_same v _ _ vl); [|reflexivity|exact G]. cbn [vused set_slots].
  pose proof (inv_vol s I) as HFa. rewrite Forall_forall in HFa.
  destruct (HFa vl (proj1 (vget_in v _ vl G))) as [_ [_ O3]].
  pose proof (wsum_nonneg occ1 (vslots vl) occ1_nonneg).
  replace (vused vl + 1 <? 0) with false by lia.
  unfold set_slot. cbn [mets with_vols]. rewrite add_known_mets.
  unfold stat_inc. cbn. pose proof (gsum_vused_nonneg s I). rewrite <- (inv_phys s I) in H0.
  replace (mPhys (mets s) + 1 <? 0) with false by lia. reflexivity.
Qed.

(** * Reclamation *)
Definition live_contract (h : N) (c : contract) : bool := negb (crej c) && negb (cend c <? h)%N.
Definition live_ref (s : state) (h r : N) : bool :=
  existsb (fun c => live_contract h c && mem r (croots c)) (cons s)
  || existsb (fun t => (fst t =? r)%N && (h <? snd t)%N) (temps s).

Definition reclaim (h : N) (s : state) : state := runs s [ExpireV1 h; ExpireV2 h; ExpireTemp h; Prune true].

Lemma mem_in r l : mem r l = true <-> In r l.
Proof.
  induction l as [|a t IH]; cbn; [split; [discriminate|tauto]|].
  rewrite Bool.orb_true_iff, IH, N.eqb_eq. intuition.
Qed.

Lemma live_ref_spec s h r :
  live_ref s h r = true <->
  (exists c, In c (cons s) /\ crej c = false /\ ~ (cend c < h)%N /\ In r (croots c)) \/
  (exists e, In (r, e) (temps s) /\ (h < e)%N).
Proof.
  unfold live_ref. rewrite Bool.orb_true_iff, !existsb_exists. split.
  - intros [[c [Hin H]]|[[r' e] [Hin H]]].
    + left. exists c. unfold live_contract in H.
      apply Bool.andb_true_iff in H as [H1 H2]. apply Bool.andb_true_iff in H1 as [H0 H1].
      apply mem_in in H2. repeat split; auto; [now destruct (crej c)|lia].
    + right. cbn in H. apply Bool.andb_true_iff in H as [H1 H2].
      apply N.eqb_eq in H1; subst r'. exists e; split; auto. lia.
  - intros [[c [Hin [H0 [H1 H2]]]]|[e [Hin H]]].
    + left. exists c; split; auto. unfold live_contract. rewrite H0. cbn.
      apply mem_in in H2. rewrite H2. replace (cend c <? h)%N with false by lia. reflexivity.
    + right. exists (r, e); split; auto. cbn. rewrite N.eqb_refl. cbn. lia.
Qed.

Lemma expire_cons_ok v2 h s : inv s ->
  expire_cons v2 h s =
  Ok (with_mets (with_cons s (map (fun c => if exp_sel v2 h c then set_roots c [] else c) (cons s)))
                (set_mContract (mets s) (csum (map (fun c => if exp_sel v2 h c then set_roots c [] else c) (cons s))))).
Proof.
  intros I. unfold expire_cons.
  set (l' := map _ (cons s)). unfold stat_inc.
  pose proof (csum_nonneg l'). rewrite (inv_contract s I).
  destruct (csum l' - csum (cons s) =? 0) eqn:E; cbn [bind].
  - do 3 f_equal. lia.
  - replace (csum (cons s) + (csum l' - csum (cons s)) <? 0) with false by lia. cbn [bind].
    do 3 f_equal. lia.
Qed.

Lemma expire_temp_ok h s : inv s ->
  expire_temp h s =
  Ok (with_mets (with_temps s (filter (temp_live h) (temps s)))
                (set_mTemp (mets s) (Z.of_nat (length (filter (temp_live h) (temps s)))))).
Proof.
  intros I. unfold expire_temp. unfold stat_inc. rewrite (inv_temp s I).
  set (k := filter _ _).
  destruct (Z.of_nat (length k) - Z.of_nat (length (temps s)) =? 0) eqn:E; cbn [bind].
  - do 3 f_equal. lia.
  - replace (Z.of_nat (length (temps s)) + (Z.of_nat (length k) - Z.of_nat (length (temps s))) <? 0) with false by lia.
    cbn [bind]. do 3 f_equal. lia.
Qed.

Definition pvol (f : N -> bool) (vl : vol) : vol :=
  set_used (set_slots vl (pslots f (vslots vl))) (vused vl - wsum (prunable f) (vslots vl)).

Lemma prune_vols_total f l : Forall vol_ok l ->
  exists n, prune_vols f l = Ok (map (pvol f) l, n) /\ 0 <= n <= gsum vused l.
Proof.
  induction l as [|vl t IH]; intros HF; cbn [prune_vols map].
  - exists 0; cbn; split; [reflexivity|lia].
  - inversion HF as [|? ? [O1 [O2 O3]] HF']; subst. destruct (IH HF') as [n [P Hn]].
    pose proof (wsum_le (prunable f) occ1 (vslots vl) (prunable_le_occ f)).
    pose proof (wsum_nonneg (prunable f) (vslots vl) (prunable_nonneg f)).
    replace (vused vl - wsum (prunable f) (vslots vl) <? 0) with false by lia.
    rewrite P. cbn [bind]. eexists; split; [reflexivity|]. cbn. lia.
Qed.

Lemma vget_map_pvol f v l : vget v (map (pvol f) l) = option_map (pvol f) (vget v l).
Proof.
  induction l as [|x t IH]; cbn; [reflexivity|]. destruct (v =? vid x)%N; auto.
Qed.

Lemma prune_with_ok f s : inv s ->
  exists m, prune_with f s = Ok (with_mets (with_vols s (map (pvol f) (vols s))) m).
Proof.
  intros I. unfold prune_with.
  destruct (prune_vols_total f (vols s) (inv_vol s I)) as [n [P Hn]].
  rewrite P. cbn [bind]. unfold stat_inc. rewrite (inv_phys s I).
  destruct (- n =? 0); cbn [bind]; [eexists; reflexivity|].
  replace (gsum vused (vols s) + - n <? 0) with false by lia. cbn [bind]. eexists; reflexivity.
Qed.

Lemma prune_ok s : inv s ->
  exists m, prune true s = Ok (with_mets (with_vols s (map (pvol (refd s)) (vols s))) m).
Proof. intros I. unfold prune. cbn [negb]. now apply prune_with_ok. Qed.

Lemma refd_after_expiry h r (cs : list contract) (ts : list (N * N)) :
  existsb (fun c => mem r (croots c))
    (map (fun c => if exp_sel true h c then set_roots c [] else c)
       (map (fun c => if exp_sel false h c then set_roots c [] else c) cs))
  || existsb (fun t => (fst t =? r)%N) (filter (temp_live h) ts)
  = existsb (fun c => live_contract h c && mem r (croots c)) cs
    || existsb (fun t => (fst t =? r)%N && (h <? snd t)%N) ts.
Proof.
  f_equal.
  - induction cs as [|c t IH]; cbn [map existsb]; [reflexivity|]. rewrite IH. f_equal.
    unfold exp_sel, live_contract. destruct c as [k v2 rej e n roots]; cbn [cv2 crej cend croots].
    destruct v2, rej; destruct (e <? h)%N eqn:E; cbn; rewrite ?E; cbn; rewrite ?E; cbn; reflexivity.
  - induction ts as [|[r' e] t IH]; cbn [filter existsb]; [reflexivity|].
    unfold temp_live at 1. cbn [fst snd]. destruct (h <? e)%N; cbn [existsb fst]; rewrite IH.
    + now rewrite Bool.andb_true_r.
    + now rewrite Bool.andb_false_r.
Qed.

Theorem reclaim_exact s h v i : inv s ->
  slot_at (reclaim h s) v i =
  match slot_at s v i with
  | Some (Some r) => if live_ref s h r then Some (Some r) else Some None
  | o => o
  end.
Proof.
  intros I. unfold reclaim, runs. cbn [fold_left step].
  rewrite (expire_cons_ok false h s I). cbn [fin fst].
  set (s1 := with_mets (with_cons s _) _).
  assert (I1 : inv s1).
  { pose proof (inv_step s (ExpireV1 h) I) as H. cbn [step] in H. rewrite (expire_cons_ok false h s I) in H. exact H. }
  rewrite (expire_cons_ok true h s1 I1). cbn [fin fst].
  set (s2 := with_mets (with_cons s1 _) _).
  assert (I2 : inv s2).
  { pose proof (inv_step s1 (ExpireV2 h) I1) as H. cbn [step] in H. rewrite (expire_cons_ok true h s1 I1) in H. exact H. }
  rewrite (expire_temp_ok h s2 I2). cbn [fin fst].
  set (s3 := with_mets (with_temps s2 _) _).
  assert (I3 : inv s3).
  { pose proof (inv_step s2 (ExpireTemp h) I2) as H. cbn [step] in H. rewrite (expire_temp_ok h s2 I2) in H. exact H. }
  destruct (prune_ok s3 I3) as [m P]. rewrite P. cbn [fin fst].
  unfold slot_at. cbn [vols with_mets with_vols]. rewrite vget_map_pvol.
  change (vols s3) with (vols s).
  destruct (vget v (vols s)) as [vl|]; cbn [option_map]; [|reflexivity].
  cbn [vslots pvol set_used set_slots]. rewrite sget_pslots.
  destruct (sget i (vslots vl)) as [[r|]|]; try reflexivity.
  replace (refd s3 r) with (live_ref s h r); [reflexivity|].
  unfold refd, live_ref. symmetry. apply refd_after_expiry.
Qed.

Corollary reclaim_occupied_iff s h v i r : inv s ->
  (slot_at (reclaim h s) v i = Some (Some r) <->
   slot_at s v i = Some (Some r) /\ live_ref s h r = true).
Proof.
  intros I. rewrite (reclaim_exact s h v i I).
  destruct (slot_at s v i) as [[r'|]|]; [|split; [discriminate|intros [? ?]; discriminate]..].
  destruct (live_ref s h r') eqn:L; split.
  - intros [= ->]; auto.
  - intros [[= ->] _]; reflexivity.
  - discriminate.
  - intros [[= ->] H]; congruence.
Qed.

(* the references left after expiry are exactly the live ones, and slots are neither created
   nor moved by reclamation *)
Corollary reclaim_empty_stays s h v i : inv s ->
  slot_at s v i = Some None -> slot_at (reclaim h s) v i = Some None.
Proof. intros I H. rewrite (reclaim_exact s h v i I), H. reflexivity. Qed.

(** * Lost sectors *)
Definition occ_total (s : state) : Z := gsum n_used (vols s).

Lemma occ_total_phys s : inv s -> occ_total s = mPhys (mets s).
Proof. intros I. destruct (counters_exact s I) as [_ [_ [H _]]]. unfold occ_total. lia. Qed.

Ltac break :=
  match goal with
  | |- context [match ?x with _ => _ end] =>
      lazymatch x with
      | context [match _ with _ => _ end] => fail
      | _ => destruct x eqn:?
      end
  end.

Lemma mig_move_lost v idx r to s s' : mig_move v idx r to s = Ok s' -> mLost (mets s') = mLost (mets s).
Proof.
  unfold mig_move. destruct (v =? fst to)%N; [now intros [= <-]|].
  destruct (vol_usage v (-1) _) as [s1| |] eqn:U1; cbn [bind]; try discriminate. intros U2.
  apply vol_usage_ok in U1 as [? [_ [_ [_ [Hm _]]]]].
  apply vol_usage_ok in U2 as [? [_ [_ [_ [Hm2 _]]]]]. rewrite Hm2, Hm. reflexivity.
Qed.

Lemma migrate_lost fuel : forall v start index calls mig fail s,
  mLost (mets (fst (migrate fuel v start index calls mig fail s))) = mLost (mets s).
Proof.
  induction fuel as [|f IH]; intros; cbn [migrate]; [reflexivity|].
  repeat break; cbn [fst]; try reflexivity.
  - rewrite IH. eapply mig_move_lost; eauto.
  - apply IH.
Qed.

Definition loss_op (o : op) : bool :=
  match o with RemoveSector _ | RemoveVol _ _ => true | _ => false end.
(* operations that contain no sector removal *)
Definition quiet_op (o : op) : bool :=
  match o with RemoveSector _ | RemoveVol _ _ | StoreRemoved _ _ => false | _ => true end.

Lemma reserve_lost r loc s s1 v i : reserve r loc s = RPlaced s1 v i -> mLost (mets s1) = mLost (mets s).
Proof.
  unfold reserve. repeat break; try discriminate. intros [= <- <- <-].
  match goal with H : vol_usage _ _ _ = Ok _ |- _ => apply usage_set_slot in H as [? [_ [_ [_ [Hm _]]]]] end.
  rewrite Hm, add_known_mets. reflexivity.
Qed.

Lemma rollback_lost r v i s1 : mLost (mets (fst (rollback r v i s1))) = mLost (mets s1).
Proof.
  unfold rollback. repeat break; cbn [fst]; try reflexivity.
  match goal with H : vol_usage _ _ _ = Ok _ |- _ => apply usage_set_slot in H as [? [_ [_ [_ [Hm _]]]]] end.
  rewrite Hm. reflexivity.
Qed.

Lemma store_lost r loc ok s : mLost (mets (fst (store r loc ok s))) = mLost (mets s).
Proof.
  unfold store. destruct (reserve r loc s) as [| |s1 v i|o|] eqn:R; cbn [fst]; try reflexivity.
  - now rewrite add_known_mets.
  - apply reserve_lost in R. destruct ok; cbn [fst]; [exact R|]. now rewrite rollback_lost.
Qed.

Lemma lost_unchanged s o : quiet_op o = true -> mLost (mets (fst (step s o))) = mLost (mets s).
Proof.
  destruct o; cbn [quiet_op]; try discriminate; intros _; cbn [step].
  all: try reflexivity.
  all: try apply migrate_lost.
  - unfold add_vol, fin, bind. repeat break; reflexivity.
  - unfold grow, stat_inc, fin, bind. repeat break; reflexivity.
  - unfold shrink, stat_inc, fin, bind. repeat break; reflexivity.
  - apply store_lost.
  - unfold add_temps, stat_inc, fin, bind. repeat break; reflexivity.
  - unfold add_temp1, stat_inc, fin, bind. repeat break; reflexivity.
  - unfold expire_temp, stat_inc, fin, bind. repeat break; reflexivity.
  - unfold add_contract, fin, bind. repeat break; reflexivity.
  - unfold revise_v1, fin, bind. repeat break; reflexivity.
  - unfold revise_v2, stat_inc, fin, bind. repeat break; reflexivity.
  - unfold renew, fin, bind. repeat break; reflexivity.
  - unfold expire_cons. set (l' := map _ (cons s)). unfold stat_inc, fin, bind. repeat break; reflexivity.
  - unfold expire_cons. set (l' := map _ (cons s)). unfold stat_inc, fin, bind. repeat break; reflexivity.
  - unfold prune, prune_with, stat_inc, fin, bind. repeat break; reflexivity.
  - unfold drop_root, stat_inc, fin, bind. repeat break; reflexivity.
  - unfold drop_temp, stat_inc, fin, bind. repeat break; reflexivity.
  - unfold prune_one, vol_usage, stat_inc, set_slot, fin, bind. repeat break; reflexivity.
  - unfold migrate_one, fin, bind. repeat break; cbn [fin fst]; try reflexivity.
    all: match goal with H : mig_move _ _ _ _ _ = Ok _ |- _ => apply mig_move_lost in H; exact H end.
Qed.

Lemma lost_exact s o : inv s -> loss_op o = true ->
  mLost (mets (fst (step s o))) - mLost (mets s) = occ_total s - occ_total (fst (step s o)).
Proof.
  intros I L. pose proof (inv_step s o I) as I'.
  rewrite (occ_total_phys s I), (occ_total_phys _ I').
  destruct o; try discriminate; cbn [step].
  - unfold remove_vol. destruct (vget v (vols s)) as [vl|]; cbn [fin fst]; [|lia].
    destruct (negb force && negb (wsum occ1 (vslots vl) =? 0)); cbn [fin fst]; [lia|].
    destruct (stat_inc (mPhys (mets s)) _) as [p| |] eqn:S1; cbn [bind fin fst]; try lia.
    destruct (stat_inc (mLost (mets s)) _) as [lo| |] eqn:S2; cbn [bind fin fst]; try lia.
    destruct (stat_inc (mTotal (mets s)) _) as [t| |] eqn:S3; cbn [bind fin fst]; try lia.
    apply stat_inc_ok in S1, S2. cbn. lia.
  - unfold remove_sector. destruct (negb _); cbn [fin fst]; [lia|].
    destruct (vfind r (vols s)) as [[v j]|]; cbn [fin fst]; [|lia].
    destruct (vol_usage v (-1) _) as [s1| |] eqn:U; cbn [bind fin fst]; try lia.
    destruct (stat_inc (mLost (mets s1)) 1) as [lo| |] eqn:S2; cbn [bind fin fst]; try lia.
    apply stat_inc_ok in S2. apply usage_set_slot in U as [? [_ [_ [_ [Hm _]]]]].
    cbn. rewrite S2, Hm. cbn. lia.
Qed.

(* the racing RemoveSector inside a failing write is counted like any explicit removal *)
Lemma store_removed_lost r loc s :
  snd (step s (StoreRemoved r loc)) <> OBad ->
  mLost (mets (fst (step s (StoreRemoved r loc)))) = mLost (mets s) + 1.
Proof.
  cbn [step]. unfold store_removed.
  destruct (reserve r loc s) as [| |s1 v i|o|] eqn:R; cbn [snd]; try congruence.
  destruct (remove_sector r s1) as [s2| |] eqn:M; cbn [snd]; try congruence. intros _.
  rewrite rollback_lost. apply reserve_lost in R. rewrite <- R.
  unfold remove_sector in M. destruct (negb _); [discriminate|].
  destruct (vfind r (vols s1)) as [[v' j]|]; [|discriminate].
  destruct (vol_usage v' (-1) _) as [sa| |] eqn:U; cbn [bind] in M; try discriminate.
  destruct (stat_inc (mLost (mets sa)) 1) as [lo| |] eqn:S2; cbn [bind] in M; try discriminate.
  injection M as <-. apply stat_inc_ok in S2. apply usage_set_slot in U as [? [_ [_ [_ [Hm _]]]]].
  cbn. rewrite S2, Hm. reflexivity.
Qed.
