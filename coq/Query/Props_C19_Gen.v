(* C19 — the filter statements of Props_C19.v, about the definitions REGENERATED FROM THE SOURCE.
   Statements only; every proof is [exact lemma].

   gen/FilterGen.v is written at the start of every check run by tools/go2coq (filter.go, imp.go):
   persist/sqlite/contracts.go buildContractFilter / buildV2ContractFilter are executed symbolically
   (the WHERE clause is assembled at run time; every path of the builder is followed), the SQL text of
   each fragment goes through the clause parser of tools/sqlgen, every placeholder is bound to the
   argument the builder appends for it (the translation fails when they do not line up).
   [where_gen v f] is the builder's result: Err for its own refusal, else the predicate the
   assembled statement evaluates on a row; [filter_gen] / [rejected_gen] are its two projections.
   Name mapping (columns, table functions): header of the generated file.  GenEquiv.v proves
   them equal to the hand model's [sql_match] / [rejected] for all filters and rows. *)
From HostdBase Require Import Base.
From HostdQuery Require Import Model Proofs FilterPrelude FilterGen GenEquiv.

(* the builder translated from the source refuses exactly what the hand model refuses ... *)
Theorem c19_gen_rejected_is_model : forall (v : ver) (f : filter), rejected_gen v f = rejected f.
Proof. exact rejected_gen_eq. Qed.
Print Assumptions c19_gen_rejected_is_model.

(* ... and otherwise the statement it assembles holds of a row exactly when the hand model's does *)
Theorem c19_gen_filter_is_model : forall (v : ver) (f : filter) (r : row),
  rejected f = false -> filter_gen v f r = sql_match f r.
Proof. exact filter_gen_eq. Qed.
Print Assumptions c19_gen_filter_is_model.

(* twin of c19_match_is_all_given_criteria: the assembled WHERE clause selects exactly the rows that
   satisfy every given criterion (statuses, ids, renewed-from/to, renter keys, height bounds) *)
Theorem c19_gen_match_is_all_given_criteria : forall (v : ver) (f : filter) (r : row),
  rejected_gen v f = false -> (filter_gen v f r = true <-> satisfies f r).
Proof. exact filter_gen_iff. Qed.
Print Assumptions c19_gen_match_is_all_given_criteria.

(* twin of c19_rejected_iff_contradictory: the builder's own error is returned exactly for a
   minimum above its maximum *)
Theorem c19_gen_rejected_iff_contradictory : forall (v : ver) (f : filter),
  rejected_gen v f = true <->
  ((0 < f_min_neg f)%N /\ (0 < f_max_neg f)%N /\ (f_max_neg f < f_min_neg f)%N) \/
  ((0 < f_min_exp f)%N /\ (0 < f_max_exp f)%N /\ (f_max_exp f < f_min_exp f)%N).
Proof. exact rejected_gen_iff. Qed.
Print Assumptions c19_gen_rejected_iff_contradictory.

(* every answered listing: the builder accepted the filter, the reported total is the number of
   stored rows the generated predicate selects, and every row of the page is a stored row it selects *)
Theorem c19_gen_listing_counts_and_returns_selected_rows : forall v rows f page cnt,
  query v rows f = Ok (page, cnt) ->
  rejected_gen v f = false /\ cnt = N.of_nat (length (List.filter (filter_gen v f) rows)) /\
  (forall r, In r page -> In r rows /\ filter_gen v f r = true).
Proof. exact query_gen. Qed.
Print Assumptions c19_gen_listing_counts_and_returns_selected_rows.

(* the ORDER BY clause the source builds names the column behind the model's sort key and the model's
   direction, for every sort field name (an unknown name sorts by expiration height) *)
Theorem c19_gen_order_is_model : forall (v : ver) (f : filter), order_gen v f = (f_sort f, f_desc f).
Proof. exact order_gen_eq. Qed.
Print Assumptions c19_gen_order_is_model.

Theorem c19_gen_sort_key_is_model : forall (v : ver) (f : filter) (r : row),
  sort_key v f r = match fst (order_gen v f) with
                   | SortStatus => status_key v (r_status r) | SortNeg => r_neg r | SortExp => r_exp r end
  /\ snd (order_gen v f) = f_desc f.
Proof. exact sort_key_gen. Qed.
Print Assumptions c19_gen_sort_key_is_model.

Example c19_gen_nonvacuous :
  map (filter_gen V1 gen_demo_f) gen_demo_rows = [true; false; false; false; false] /\
  map (filter_gen V2 gen_demo_f) gen_demo_rows = [true; false; false; false; false] /\
  rejected_gen V1 gen_demo_f = false /\
  rejected_gen V2 (with_limit {| f_statuses := []; f_ids := []; f_from := []; f_to := []; f_renters := [];
     f_min_neg := 9; f_max_neg := 3; f_min_exp := 0; f_max_exp := 0; f_limit := 0; f_offset := 0;
     f_sort := SortNeg; f_desc := true |} 5) = true.
Proof. exact gen_demo_ok. Qed.
