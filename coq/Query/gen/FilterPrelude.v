(* Query/gen/FilterPrelude.v — the one definition the output of tools/go2coq (group "query",
   gen/FilterGen.v) refers to besides the vocabulary of Base.v / Model.v.  Hand-written, no proofs;
   part of the trusted base of the translator:

     nonempty xs     len(xs) != 0
     sortf_eqb a b   filter.SortField == <constant>, on the harness' reading of the field name
                     (Model.sortf: "status" / "negotiationHeight" / every other string) *)
From HostdBase Require Import Base.
From HostdQuery Require Import Model.

Definition nonempty {A : Type} (xs : list A) : bool := match xs with [] => false | _ => true end.

Definition sortf_eqb (a b : sortf) : bool :=
  match a, b with
  | SortStatus, SortStatus | SortNeg, SortNeg | SortExp, SortExp => true
  | _, _ => false
  end.
