(* C19 — Contract queries return exactly the matching contracts.
   Statements only; every proof is [exact lemma].  [query V1] models Store.Contracts,
   [query V2] Store.V2Contracts, [api_query] the POST /contracts and /v2/contracts handlers
   (Model.v; corresponds to the code with fixes/C19-filter-bounds.patch). *)
From Coq Require Import Permutation Sorted.
From HostdBase Require Import Base.
From HostdQuery Require Import Model Proofs.

(** the model's matching predicate (what buildContractFilter's WHERE clause selects) is
    exactly "satisfies every given criterion": statuses, contract ids, renewed-from/to,
    renter keys, negotiation and expiration height bounds *)
Theorem c19_match_is_all_given_criteria : forall f r, sql_match f r = true <-> satisfies f r.
Proof. exact sql_match_iff. Qed.
Print Assumptions c19_match_is_all_given_criteria.

(** every successful listing (v1 or v2, any filter, sort field, direction, limit, offset): the
    reported total is the number of stored contracts that match; the page is the requested
    slice of one arrangement of exactly the matching contracts, sorted as requested *)
Theorem c19_listing_is_slice_of_sorted_matches : forall v rows f page cnt,
  query v rows f = Ok (page, cnt) ->
  cnt = num_matches f rows /\
  page = slice (f_limit f) (f_offset f) (full_order v f rows) /\
  Permutation (full_order v f rows) (matching f rows) /\
  StronglySorted (ordered (sort_key v f) (f_desc f)) (full_order v f rows) /\
  (forall r, In r (full_order v f rows) <-> In r rows /\ satisfies f r).
Proof. exact query_ok_spec. Qed.
Print Assumptions c19_listing_is_slice_of_sorted_matches.

(** only stored, matching contracts are returned, ordered as requested *)
Theorem c19_page_sound_and_ordered : forall v rows f page cnt,
  query v rows f = Ok (page, cnt) ->
  (forall r, In r page -> In r rows /\ satisfies f r) /\
  StronglySorted (ordered (sort_key v f) (f_desc f)) page.
Proof. exact query_page_sound. Qed.
Print Assumptions c19_page_sound_and_ordered.

(** "returns exactly the stored contracts satisfying all given criteria": when the page can
    hold them (offset 0, at most the effective limit) it is a permutation of the matches *)
Theorem c19_exactly_the_matches : forall v rows f page cnt,
  query v rows f = Ok (page, cnt) -> (f_offset f <= 0)%Z ->
  (length (matching f rows) <= eff_limit (f_limit f))%nat ->
  Permutation page (matching f rows).
Proof. exact query_whole_result. Qed.
Print Assumptions c19_exactly_the_matches.

(** "the reported total equals the number of matches irrespective of limit and offset" *)
Theorem c19_count_independent_of_paging : forall v rows f l o,
  count_of (query v rows (with_page f l o)) = count_of (query v rows f).
Proof. exact count_independent_of_paging. Qed.
Print Assumptions c19_count_independent_of_paging.

Theorem c19_count_is_number_of_matches : forall v rows f c,
  count_of (query v rows f) = Ok c -> c = num_matches f rows.
Proof. exact count_is_number_of_matches. Qed.
Print Assumptions c19_count_is_number_of_matches.

(** "a page is the corresponding slice of the full ordered result": all pages of a filter are
    slices of the same [full_order] (c19_listing_...), of the effective size, and adjacent
    pages join into the larger page *)
Theorem c19_page_length : forall v rows f page cnt,
  query v rows f = Ok (page, cnt) ->
  length page = Nat.min (eff_limit (f_limit f))
                        (length (matching f rows) - eff_offset (f_offset f) (length (matching f rows))).
Proof. exact page_length. Qed.
Print Assumptions c19_page_length.

Theorem c19_effective_limit : forall l, (1 <= eff_limit l <= 100)%nat.
Proof. exact eff_limit_range. Qed.
Print Assumptions c19_effective_limit.

Theorem c19_adjacent_pages_join : forall v rows f l l' o p1 p2 c1 c2,
  (0 < l)%Z -> (0 < l')%Z -> (l + l' <= 100)%Z -> (0 <= o)%Z ->
  query v rows (with_page f l o) = Ok (p1, c1) ->
  query v rows (with_page f l' (o + l)) = Ok (p2, c2) ->
  query v rows (with_page f (l + l') o) = Ok (p1 ++ p2, c1).
Proof. exact adjacent_pages_join. Qed.
Print Assumptions c19_adjacent_pages_join.

(** "A filter is rejected only if it is contradictory (a minimum above its maximum)" *)
Theorem c19_rejected_iff_contradictory : forall v rows f,
  query v rows f = Err EInvalid <->
  ((0 < f_min_neg f)%N /\ (0 < f_max_neg f)%N /\ (f_max_neg f < f_min_neg f)%N) \/
  ((0 < f_min_exp f)%N /\ (0 < f_max_exp f)%N /\ (f_max_exp f < f_min_exp f)%N).
Proof. exact (fun v rows f => iff_trans (query_rejects_iff v rows f) (rejected_iff f)). Qed.
Print Assumptions c19_rejected_iff_contradictory.

(* for heights a chain can have (< 2^63; database/sql cannot bind larger uint64 values and the
   query fails with a driver error) every non-contradictory filter is answered *)
Theorem c19_answered_iff_not_contradictory : forall v rows f,
  unbindable f = false -> (is_ok (query v rows f) = true <-> rejected f = false).
Proof. exact query_answers_iff. Qed.
Print Assumptions c19_answered_iff_not_contradictory.

(** the HTTP handlers' limit normalisation (<=0 or >500 -> 500) is absorbed by the store's *)
Theorem c19_api_is_store_query : forall v rows f, api_query v rows f = query v rows f.
Proof. exact api_query_is_query. Qed.
Print Assumptions c19_api_is_store_query.

(** the acceptance test used by the correspondence check (ties are left open by SQL) admits
    only correct pages, and admits the model's own answer *)
Theorem c19_accepted_page_is_correct : forall v rows f ids,
  page_ok v rows f ids = true ->
  NoDup ids /\
  (forall id, In id ids -> exists r, In r rows /\ r_id r = id /\ satisfies f r) /\
  map (fun id => option_map (sort_key v f) (find_row id (matching f rows))) ids
    = map (fun r => Some (sort_key v f r)) (slice (f_limit f) (f_offset f) (full_order v f rows)).
Proof. exact page_ok_sound. Qed.
Print Assumptions c19_accepted_page_is_correct.

Theorem c19_model_answer_accepted : forall v rows f,
  NoDup (map r_id rows) -> answer_ok v rows f (project (query v rows f)) = true.
Proof. exact model_answer_accepted. Qed.
Print Assumptions c19_model_answer_accepted.

(* non-vacuity: a population of three, a filter with equal bounds that selects two of them in
   descending status order, a second page beyond the end, and a contradictory filter *)
Definition demo_rows : list row :=
  [ {| r_id := 1; r_status := 2; r_to := Some 2%N; r_from := None; r_renter := 1; r_neg := 5; r_exp := 20 |};
    {| r_id := 2; r_status := 0; r_to := None; r_from := Some 1%N; r_renter := 1; r_neg := 5; r_exp := 30 |};
    {| r_id := 3; r_status := 4; r_to := None; r_from := None; r_renter := 2; r_neg := 8; r_exp := 30 |} ].
Definition demo_filter (lo hi : N) (lim off : Z) : filter :=
  {| f_statuses := []; f_ids := []; f_from := []; f_to := []; f_renters := [];
     f_min_neg := lo; f_max_neg := hi; f_min_exp := 0; f_max_exp := 0;
     f_limit := lim; f_offset := off; f_sort := SortStatus; f_desc := true |}.
Example c19_nonvacuous :
  project (query V1 demo_rows (demo_filter 5 5 0 0)) = Ok ([1%N; 2%N], 2%N)
  /\ project (query V1 demo_rows (demo_filter 5 5 1 1)) = Ok ([2%N], 2%N)
  /\ project (query V2 demo_rows (demo_filter 5 5 1 0)) = Ok ([2%N], 2%N)
  /\ project (query V1 demo_rows (demo_filter 5 5 7 9)) = Ok ([], 2%N)
  /\ query V1 demo_rows (demo_filter 8 5 0 0) = Err EInvalid
  /\ is_ok (query V1 demo_rows (demo_filter 5 8 0 0)) = true.
Proof. vm_compute; repeat split; reflexivity. Qed.
