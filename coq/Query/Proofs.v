(* Query/Proofs.v — C19: the contract listing is filter, then sort, then slice; the count is
   the number of matches; rejection iff contradictory bounds. *)
From Coq Require Import Lia ZifyBool ZifyN ZifyNat Permutation Sorted.
From HostdBase Require Import Base.
From HostdQuery Require Import Model.

(** * The criteria, from the property text: a contract matches iff it satisfies every
    criterion that is given (a non-empty list, a non-zero bound) *)
Definition satisfies (f : filter) (r : row) : Prop :=
  (f_statuses f <> [] -> In (r_status r) (f_statuses f)) /\
  (f_ids f <> [] -> In (r_id r) (f_ids f)) /\
  (f_from f <> [] -> exists x, r_from r = Some x /\ In x (f_from f)) /\
  (f_to f <> [] -> exists x, r_to r = Some x /\ In x (f_to f)) /\
  (f_renters f <> [] -> In (r_renter r) (f_renters f)) /\
  ((0 < f_min_neg f)%N -> (f_min_neg f <= r_neg r)%N) /\
  ((0 < f_max_neg f)%N -> (r_neg r <= f_max_neg f)%N) /\
  ((0 < f_min_exp f)%N -> (f_min_exp f <= r_exp r)%N) /\
  ((0 < f_max_exp f)%N -> (r_exp r <= f_max_exp f)%N).

Lemma mem_In : forall x l, mem x l = true <-> In x l.
Proof.
  intros x l. unfold mem. rewrite existsb_exists. split.
  - intros [y [Hin Heq]]. apply N.eqb_eq in Heq. subst. exact Hin.
  - intros Hin. exists x. split; [exact Hin|apply N.eqb_refl].
Qed.

Lemma mem_opt_In : forall x l, mem_opt x l = true <-> exists y, x = Some y /\ In y l.
Proof.
  intros [y|] l; cbn [mem_opt].
  - rewrite mem_In. split; [intros H; exists y; auto|intros [z [Hz Hin]]; injection Hz as ->; exact Hin].
  - split; [discriminate|intros [z [Hz _]]; discriminate].
Qed.

Lemma clause_iff : forall l b, clause l b = true <-> (l <> [] -> b = true).
Proof.
  intros [|x t] b; cbn [clause].
  - split; [intros _ H; congruence|reflexivity].
  - split; [auto|intros H; apply H; discriminate].
Qed.

Lemma height_clause_iff : forall lo hi x,
  height_clause lo hi x = true <-> ((0 < lo)%N -> (lo <= x)%N) /\ ((0 < hi)%N -> (x <= hi)%N).
Proof. intros lo hi x. unfold height_clause. destruct (0 <? lo)%N eqn:E1, (0 <? hi)%N eqn:E2; cbn [andb]; lia. Qed.

Lemma sql_match_iff : forall f r, sql_match f r = true <-> satisfies f r.
Proof.
  intros f r. unfold sql_match, satisfies.
  rewrite !andb_true_iff, !clause_iff, !height_clause_iff.
  rewrite !mem_In, !mem_opt_In. tauto.
Qed.

Lemma matching_iff : forall f rows r, In r (matching f rows) <-> In r rows /\ satisfies f r.
Proof. intros. unfold matching. rewrite filter_In, sql_match_iff. tauto. Qed.

(** * Sorting *)
Section SortFacts.
  Variable key : row -> N.
  Variable desc : bool.
  Definition ordered (a b : row) : Prop := in_order desc (key a) (key b) = true.

  Lemma in_order_total : forall a b, in_order desc a b = false -> in_order desc b a = true.
  Proof. intros a b. unfold in_order. destruct desc; lia. Qed.
  Lemma in_order_trans : forall a b c, in_order desc a b = true -> in_order desc b c = true -> in_order desc a c = true.
  Proof. intros a b c. unfold in_order. destruct desc; lia. Qed.

  Lemma insert_perm : forall x l, Permutation (insert key desc x l) (x :: l).
  Proof.
    intros x l. induction l as [|y t IH]; cbn [insert]; [apply Permutation_refl|].
    destruct (in_order desc (key x) (key y)); [apply Permutation_refl|].
    eapply perm_trans; [apply perm_skip; exact IH|apply perm_swap].
  Qed.

  Lemma sort_perm : forall l, Permutation (sort key desc l) l.
  Proof.
    intros l. unfold sort. induction l as [|x t IH]; cbn [fold_right]; [apply Permutation_refl|].
    eapply perm_trans; [apply insert_perm|apply perm_skip; exact IH].
  Qed.

  Lemma insert_sorted : forall x l, StronglySorted ordered l -> StronglySorted ordered (insert key desc x l).
  Proof.
    intros x l Hs. induction Hs as [|y t Ht IH Hall]; cbn [insert].
    - constructor; [constructor|constructor].
    - destruct (in_order desc (key x) (key y)) eqn:E.
      + constructor; [constructor; assumption|].
        constructor; [exact E|].
        apply Forall_forall. intros z Hz. rewrite Forall_forall in Hall.
        unfold ordered. eapply in_order_trans; [exact E|apply Hall; exact Hz].
      + constructor; [exact IH|].
        apply Forall_forall. intros z Hz.
        apply (Permutation_in _ (insert_perm x t)) in Hz. destruct Hz as [<-|Hz].
        * apply in_order_total. exact E.
        * rewrite Forall_forall in Hall. apply Hall. exact Hz.
  Qed.

  Lemma sort_sorted : forall l, StronglySorted ordered (sort key desc l).
  Proof.
    intros l. unfold sort. induction l as [|x t IH]; cbn [fold_right]; [constructor|].
    apply insert_sorted. exact IH.
  Qed.
End SortFacts.

(** * The answer of a query *)
Definition num_matches (f : filter) (rows : list row) : N := N.of_nat (length (matching f rows)).

(* the structure of every successful answer: the page is the requested slice of an
   arrangement of exactly the matching rows sorted as requested; the count is their number *)
Theorem query_ok_spec : forall v rows f page cnt,
  query v rows f = Ok (page, cnt) ->
  cnt = num_matches f rows /\
  page = slice (f_limit f) (f_offset f) (full_order v f rows) /\
  Permutation (full_order v f rows) (matching f rows) /\
  StronglySorted (ordered (sort_key v f) (f_desc f)) (full_order v f rows) /\
  (forall r, In r (full_order v f rows) <-> In r rows /\ satisfies f r).
Proof.
  intros v rows f page cnt H. unfold query in H.
  destruct (rejected f); [discriminate|]. destruct (unbindable f); [discriminate|].
  injection H as <- <-. split; [reflexivity|]. split; [reflexivity|].
  split; [apply sort_perm|]. split; [apply sort_sorted|].
  intros r. rewrite <- matching_iff. split; intro Hin.
  - eapply Permutation_in; [apply sort_perm|exact Hin].
  - eapply Permutation_in; [apply Permutation_sym, sort_perm|exact Hin].
Qed.

(* every returned contract is stored and matches; the page is ordered as requested *)
Lemma firstn_In : forall (A : Type) n (l : list A) x, In x (firstn n l) -> In x l.
Proof. intros A n. induction n as [|n IH]; intros [|y t] x H; cbn in *; try tauto. destruct H; auto. Qed.
Lemma skipn_In : forall (A : Type) n (l : list A) x, In x (skipn n l) -> In x l.
Proof. intros A n. induction n as [|n IH]; intros [|y t] x H; cbn in *; try tauto. right. auto. Qed.

Lemma sorted_skipn : forall (A : Type) (R : A -> A -> Prop) n l, StronglySorted R l -> StronglySorted R (skipn n l).
Proof.
  intros A R n. induction n as [|n IH]; intros l Hs; [exact Hs|].
  destruct Hs; cbn [skipn]; [constructor|apply IH; assumption].
Qed.
Lemma sorted_firstn : forall (A : Type) (R : A -> A -> Prop) n l, StronglySorted R l -> StronglySorted R (firstn n l).
Proof.
  intros A R n. induction n as [|n IH]; intros l Hs; [constructor|].
  destruct Hs as [|y t Ht Hall]; cbn [firstn]; [constructor|].
  constructor; [apply IH; exact Ht|].
  apply Forall_forall. intros z Hz. rewrite Forall_forall in Hall. apply Hall. eapply firstn_In; exact Hz.
Qed.

Theorem query_page_sound : forall v rows f page cnt,
  query v rows f = Ok (page, cnt) ->
  (forall r, In r page -> In r rows /\ satisfies f r) /\
  StronglySorted (ordered (sort_key v f) (f_desc f)) page.
Proof.
  intros v rows f page cnt H.
  destruct (query_ok_spec v rows f page cnt H) as [_ [-> [_ [Hs Hin]]]]. split.
  - intros r Hr. apply Hin. unfold slice in Hr. eapply skipn_In, firstn_In, Hr.
  - unfold slice. apply sorted_firstn, sorted_skipn, Hs.
Qed.

(* when the page can hold them all (offset 0, no more matches than the limit) it is exactly
   the set of matching contracts *)
Theorem query_whole_result : forall v rows f page cnt,
  query v rows f = Ok (page, cnt) -> (f_offset f <= 0)%Z -> (length (matching f rows) <= eff_limit (f_limit f))%nat ->
  Permutation page (matching f rows).
Proof.
  intros v rows f page cnt H Ho Hl.
  destruct (query_ok_spec v rows f page cnt H) as [_ [-> [Hp _]]].
  unfold slice. replace (eff_offset (f_offset f) _) with 0%nat by (unfold eff_offset; lia).
  cbn [skipn]. rewrite firstn_all2; [exact Hp|].
  rewrite (Permutation_length Hp). exact Hl.
Qed.

(** * Count: independent of limit and offset *)
Definition with_page (f : filter) (l o : Z) : filter :=
  {| f_statuses := f_statuses f; f_ids := f_ids f; f_from := f_from f; f_to := f_to f;
     f_renters := f_renters f; f_min_neg := f_min_neg f; f_max_neg := f_max_neg f;
     f_min_exp := f_min_exp f; f_max_exp := f_max_exp f; f_limit := l; f_offset := o;
     f_sort := f_sort f; f_desc := f_desc f |}.

Definition count_of (r : res (list row * N)) : res N :=
  match r with Ok (_, c) => Ok c | Err e => Err e | Panic => Panic end.

Theorem count_independent_of_paging : forall v rows f l o,
  count_of (query v rows (with_page f l o)) = count_of (query v rows f).
Proof.
  intros v rows f l o. unfold query, rejected, unbindable, matching, sql_match, with_page.
  cbn [f_statuses f_ids f_from f_to f_renters f_min_neg f_max_neg f_min_exp f_max_exp].
  destruct (contradictory (f_min_neg f) (f_max_neg f) || contradictory (f_min_exp f) (f_max_exp f)); [reflexivity|].
  match goal with |- context [if ?b then Err EOther else _] => destruct b end; reflexivity.
Qed.

Theorem count_is_number_of_matches : forall v rows f c,
  count_of (query v rows f) = Ok c -> c = num_matches f rows.
Proof.
  intros v rows f c H. destruct (query v rows f) as [[p c']| |] eqn:E; try discriminate.
  injection H as <-. apply (query_ok_spec v rows f p c' E).
Qed.

(** * Pages are slices of one full order; adjacent pages join *)
Lemma full_order_with_page : forall v f l o rows, full_order v (with_page f l o) rows = full_order v f rows.
Proof. reflexivity. Qed.

Lemma skipn_add : forall (A : Type) (o a : nat) (l : list A), skipn (o + a) l = skipn a (skipn o l).
Proof.
  intros A o. induction o as [|o IH]; intros a l; [reflexivity|].
  destruct l as [|x t]; cbn [plus skipn]; [destruct a; reflexivity|apply IH].
Qed.

Lemma firstn_skipn_join : forall (A : Type) (a b o : nat) (l : list A),
  firstn a (skipn o l) ++ firstn b (skipn (o + a) l) = firstn (a + b) (skipn o l).
Proof.
  intros A a b o l. rewrite skipn_add.
  generalize (skipn o l) as m. clear l o. induction a as [|a IH]; intros m; [reflexivity|].
  destruct m as [|x t]; cbn [firstn skipn app plus].
  - rewrite firstn_nil. reflexivity.
  - f_equal. apply IH.
Qed.

(* the page at (limit l, offset o) followed by the page at (limit l', offset o + l) is the
   page at (limit l + l', offset o) — for limits within 1..100 and a non-negative offset *)
Theorem adjacent_pages_join : forall v rows f l l' o p1 p2 c1 c2,
  (0 < l)%Z -> (0 < l')%Z -> (l + l' <= 100)%Z -> (0 <= o)%Z ->
  query v rows (with_page f l o) = Ok (p1, c1) ->
  query v rows (with_page f l' (o + l)) = Ok (p2, c2) ->
  query v rows (with_page f (l + l') o) = Ok (p1 ++ p2, c1).
Proof.
  intros v rows f l l' o p1 p2 c1 c2 Hl Hl' Hs Ho H1 H2.
  unfold query in *. change (rejected (with_page f _ _)) with (rejected f) in *.
  change (unbindable (with_page f _ _)) with (unbindable f) in *.
  destruct (rejected f); [discriminate|]. destruct (unbindable f); [discriminate|].
  injection H1 as <- <-. injection H2 as <- _.
  rewrite !full_order_with_page. change (matching (with_page f _ _) rows) with (matching f rows).
  cbn [with_page f_limit f_offset]. f_equal. f_equal.
  set (m := full_order v f rows). unfold slice.
  assert (El : eff_limit l = Z.to_nat l) by (unfold eff_limit; replace ((l <=? 0)%Z || (100 <? l)%Z) with false by lia; reflexivity).
  assert (El' : eff_limit l' = Z.to_nat l') by (unfold eff_limit; replace ((l' <=? 0)%Z || (100 <? l')%Z) with false by lia; reflexivity).
  assert (Els : eff_limit (l + l') = (Z.to_nat l + Z.to_nat l')%nat) by (unfold eff_limit; replace ((l + l' <=? 0)%Z || (100 <? l + l')%Z) with false by lia; lia).
  rewrite El, El', Els.
  destruct (Z_le_gt_dec (o + l) (Z.of_nat (length m))) as [Hin|Hout].
  - replace (eff_offset (o + l) (length m)) with (eff_offset o (length m) + Z.to_nat l)%nat by (unfold eff_offset; lia).
    symmetry. apply firstn_skipn_join.
  - (* the second page starts beyond the end: it is empty, and the first page already ends the list *)
    assert (E2 : skipn (eff_offset (o + l) (length m)) m = []).
    { apply skipn_all2. unfold eff_offset. lia. }
    rewrite E2, firstn_nil, app_nil_r.
    rewrite !firstn_all2; try reflexivity; rewrite skipn_length; unfold eff_offset; lia.
Qed.

(** * Rejection *)
Theorem rejected_iff : forall f,
  rejected f = true <->
  ((0 < f_min_neg f)%N /\ (0 < f_max_neg f)%N /\ (f_max_neg f < f_min_neg f)%N) \/
  ((0 < f_min_exp f)%N /\ (0 < f_max_exp f)%N /\ (f_max_exp f < f_min_exp f)%N).
Proof. intros f. unfold rejected, contradictory. lia. Qed.

(* a filter is refused with the builder's error iff it is contradictory, and (for heights a
   chain can have, below 2^63) answered otherwise *)
Theorem query_rejects_iff : forall v rows f,
  query v rows f = Err EInvalid <-> rejected f = true.
Proof.
  intros v rows f. unfold query. destruct (rejected f); [tauto|].
  destruct (unbindable f); split; intro H; discriminate.
Qed.

Theorem query_answers_iff : forall v rows f,
  unbindable f = false -> (is_ok (query v rows f) = true <-> rejected f = false).
Proof.
  intros v rows f Hu. unfold query. rewrite Hu. destruct (rejected f); cbn [is_ok]; split; intro H; try reflexivity; discriminate.
Qed.

(** * The HTTP handlers add nothing: their limit normalisation is absorbed by the store's *)
Lemma eff_limit_api : forall l, eff_limit (api_limit l) = eff_limit l.
Proof. intros l. unfold eff_limit, api_limit. destruct ((l <=? 0)%Z || (500 <? l)%Z) eqn:E; [|reflexivity]. cbn. replace ((l <=? 0)%Z || (100 <? l)%Z) with true by lia. reflexivity. Qed.

Theorem api_query_is_query : forall v rows f, api_query v rows f = query v rows f.
Proof.
  intros v rows f. unfold api_query, query.
  change (rejected (with_limit f _)) with (rejected f). change (unbindable (with_limit f _)) with (unbindable f).
  destruct (rejected f); [reflexivity|]. destruct (unbindable f); [reflexivity|].
  change (matching (with_limit f _) rows) with (matching f rows).
  change (full_order v (with_limit f _) rows) with (full_order v f rows).
  unfold slice. cbn [with_limit f_limit f_offset]. rewrite eff_limit_api. reflexivity.
Qed.

(* effective page size: 1..100 as requested, anything else means 100 *)
Theorem page_length : forall v rows f page cnt,
  query v rows f = Ok (page, cnt) ->
  length page = Nat.min (eff_limit (f_limit f)) (length (matching f rows) - eff_offset (f_offset f) (length (matching f rows))).
Proof.
  intros v rows f page cnt H.
  destruct (query_ok_spec v rows f page cnt H) as [_ [-> [Hp _]]].
  unfold slice. rewrite firstn_length, skipn_length, (Permutation_length Hp). reflexivity.
Qed.

Lemma eff_limit_range : forall l, (1 <= eff_limit l <= 100)%nat.
Proof. intros l. unfold eff_limit. destruct ((l <=? 0)%Z || (100 <? l)%Z) eqn:E; lia. Qed.

(** * The acceptance test of the correspondence check *)
Lemma nodup_ids_iff : forall l, nodup_ids l = true <-> NoDup l.
Proof.
  induction l as [|x t IH]; cbn [nodup_ids].
  - split; [constructor|reflexivity].
  - rewrite andb_true_iff, negb_true_iff, IH. split.
    + intros [Hm Hn]. constructor; [|exact Hn]. intro Hin. apply mem_In in Hin. congruence.
    + intro Hn. inversion Hn as [|y u Hnin Hn']; subst. split; [|exact Hn'].
      destruct (mem x t) eqn:E; [|reflexivity]. apply mem_In in E. contradiction.
Qed.

Lemma find_row_some : forall id m r, find_row id m = Some r -> In r m /\ r_id r = id.
Proof.
  intros id m. induction m as [|y t IH]; intros r H; cbn [find_row] in H; [discriminate|].
  destruct (r_id y =? id)%N eqn:E.
  - injection H as <-. split; [left; reflexivity|apply N.eqb_eq; exact E].
  - destruct (IH r H) as [Hin Hid]. split; [right; exact Hin|exact Hid].
Qed.

Lemma find_row_in : forall m r, NoDup (map r_id m) -> In r m -> find_row (r_id r) m = Some r.
Proof.
  induction m as [|y t IH]; intros r Hn Hin; [contradiction|].
  cbn [map] in Hn. inversion Hn as [|a u Hnin Hn']; subst. cbn [find_row].
  destruct Hin as [->|Hin].
  - rewrite N.eqb_refl. reflexivity.
  - destruct (r_id y =? r_id r)%N eqn:E.
    + apply N.eqb_eq in E. exfalso. apply Hnin. rewrite E. apply in_map. exact Hin.
    + apply IH; assumption.
Qed.

(* an accepted page: no contract twice, every contract stored and matching, and its sequence
   of sort keys is the one of the correctly sorted slice *)
Theorem page_ok_sound : forall v rows f ids,
  page_ok v rows f ids = true ->
  NoDup ids /\
  (forall id, In id ids -> exists r, In r rows /\ r_id r = id /\ satisfies f r) /\
  map (fun id => option_map (sort_key v f) (find_row id (matching f rows))) ids
    = map (fun r => Some (sort_key v f r)) (slice (f_limit f) (f_offset f) (full_order v f rows)).
Proof.
  intros v rows f ids H. unfold page_ok in H. apply andb_true_iff in H. destruct H as [Hn Hk].
  apply nodup_ids_iff in Hn. split; [exact Hn|].
  set (exp := slice (f_limit f) (f_offset f) (full_order v f rows)) in *.
  assert (Hgen : forall (ids : list N) (e : list row),
            list_eqb (option_eqb N.eqb)
              (map (fun id => match find_row id (matching f rows) with Some r => Some (sort_key v f r) | None => None end) ids)
              (map Some (map (sort_key v f) e)) = true ->
            (forall id, In id ids -> exists r, find_row id (matching f rows) = Some r) /\
            map (fun id => option_map (sort_key v f) (find_row id (matching f rows))) ids
              = map (fun r => Some (sort_key v f r)) e).
  { clear. induction ids as [|i t IH]; intros [|e0 et] H; cbn in H; try discriminate.
    - split; [intros ? []|reflexivity].
    - apply andb_true_iff in H. destruct H as [H0 Ht]. destruct (IH et Ht) as [Hf Hm].
      destruct (find_row i (matching f rows)) as [r|] eqn:E; cbn in H0; [|discriminate].
      apply N.eqb_eq in H0. split.
      + intros id [<-|Hin]; [exists r; exact E|apply Hf; exact Hin].
      + cbn [map]. rewrite E. cbn [option_map]. rewrite H0, Hm. reflexivity. }
  destruct (Hgen ids exp Hk) as [Hfound Hkeys]. split; [|exact Hkeys].
  intros id Hin. destruct (Hfound id Hin) as [r Hr]. destruct (find_row_some _ _ _ Hr) as [Hm Hid].
  apply matching_iff in Hm. exists r. tauto.
Qed.

Lemma NoDup_map_filter : forall (p : row -> bool) l, NoDup (map r_id l) -> NoDup (map r_id (List.filter p l)).
Proof.
  intros p l. induction l as [|x t IH]; intro Hn; [constructor|].
  cbn [map] in Hn. inversion Hn as [|a u Hnin Hn']; subst. cbn [List.filter].
  destruct (p x); [|apply IH; exact Hn'].
  cbn [map]. constructor; [|apply IH; exact Hn'].
  intro Hin. apply Hnin. apply in_map_iff in Hin. destruct Hin as [y [Hy Hin]].
  apply filter_In in Hin. rewrite <- Hy. apply in_map. apply Hin.
Qed.

Lemma NoDup_firstn : forall (A : Type) n (l : list A), NoDup l -> NoDup (firstn n l).
Proof.
  intros A n. induction n as [|n IH]; intros l Hn; [constructor|].
  destruct Hn as [|x t Hnin Hn]; cbn [firstn]; [constructor|].
  constructor; [|apply IH; exact Hn]. intro Hin. apply Hnin. eapply firstn_In; exact Hin.
Qed.
Lemma NoDup_skipn : forall (A : Type) n (l : list A), NoDup l -> NoDup (skipn n l).
Proof.
  intros A n. induction n as [|n IH]; intros l Hn; [exact Hn|].
  destruct Hn; cbn [skipn]; [constructor|apply IH; assumption].
Qed.

Lemma keys_match : forall (key : row -> N) m page,
  NoDup (map r_id m) -> (forall r, In r page -> In r m) ->
  list_eqb (option_eqb N.eqb)
    (map (fun id => match find_row id m with Some r => Some (key r) | None => None end) (map r_id page))
    (map Some (map key page)) = true.
Proof.
  intros key m page Hn. induction page as [|r t IH]; intro Hsub; [reflexivity|].
  cbn [map list_eqb]. rewrite (find_row_in m r Hn (Hsub r (or_introl eq_refl))).
  cbn [option_eqb]. rewrite N.eqb_refl. cbn [andb]. apply IH.
  intros r' Hr'. apply Hsub. right. exact Hr'.
Qed.

(* the model's own answer passes the acceptance test (contract ids are unique in the table) *)
Theorem model_answer_accepted : forall v rows f,
  NoDup (map r_id rows) -> answer_ok v rows f (project (query v rows f)) = true.
Proof.
  intros v rows f Hn. unfold answer_ok. destruct (query v rows f) as [[page cnt]|e|] eqn:E; cbn [project].
  - rewrite N.eqb_refl. cbn [andb].
    destruct (query_ok_spec v rows f page cnt E) as [_ [Hp [Hperm _]]].
    assert (Hnm : NoDup (map r_id (matching f rows))) by (apply NoDup_map_filter; exact Hn).
    assert (Hnf : NoDup (map r_id (full_order v f rows))).
    { eapply Permutation_NoDup; [apply Permutation_map, Permutation_sym, Hperm|exact Hnm]. }
    unfold page_ok. apply andb_true_iff. split.
    + apply nodup_ids_iff. rewrite Hp. unfold slice.
      rewrite <- firstn_map, <- skipn_map. apply NoDup_firstn, NoDup_skipn, Hnf.
    + rewrite <- Hp. apply keys_match; [exact Hnm|].
      intros r Hr. rewrite Hp in Hr. unfold slice in Hr.
      eapply Permutation_in; [exact Hperm|]. eapply skipn_In, firstn_In, Hr.
  - destruct e; reflexivity.
  - (* the model never panics *)
    unfold query in E. destruct (rejected f); [discriminate|]. destruct (unbindable f); discriminate.
Qed.
