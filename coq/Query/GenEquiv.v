(* Query/GenEquiv.v — the definitions tools/go2coq regenerates from the current source of
   persist/sqlite/contracts.go (gen/FilterGen.v: buildContractFilter / buildV2ContractFilter executed
   symbolically, the SQL text of every fragment through tools/sqlgen's clause parser) are the hand
   model of Model.v: the builder refuses exactly the filters [rejected] names, and otherwise the
   statement it assembles holds of a row exactly when [sql_match] does.  The proofs do not depend on
   the shape of the generated term: every test of either side is split, the remaining boolean
   identities are closed by btauto. *)
From Coq Require Import Btauto.
From HostdBase Require Import Base.
From HostdQuery Require Import Model FilterPrelude FilterGen.
Local Open Scope N_scope.

Ltac split_lists :=
  repeat match goal with
  | |- context [nonempty ?l] => is_var l; destruct l; cbn [nonempty clause]
  | |- context [clause ?l _] => is_var l; destruct l; cbn [nonempty clause]
  end.

Ltac split_tests :=
  repeat match goal with
  | |- context [if ?b then _ else _] =>
      lazymatch b with
      | context [if _ then _ else _] => fail
      | _ => let E := fresh "E" in destruct b eqn:E; cbn [andb orb negb implb]
      end
  end.

Ltac gen_eq :=
  let f := fresh "f" in intros f; intros;
  unfold filter_gen, rejected_gen, where_gen, buildContractFilter, buildV2ContractFilter,
         sql_match, rejected, contradictory, height_clause in *;
  destruct f; cbn [f_statuses f_ids f_from f_to f_renters f_min_neg f_max_neg f_min_exp f_max_exp] in *;
  split_lists; split_tests; try discriminate; try reflexivity; try btauto.

Lemma rejected_gen_eq : forall v f, rejected_gen v f = rejected f.
Proof. intros v; destruct v; gen_eq. Qed.

Lemma filter_gen_eq : forall v f r, rejected f = false -> filter_gen v f r = sql_match f r.
Proof. intros v; destruct v; gen_eq. Qed.

(* the ORDER BY builders sort by the column, and in the direction, the hand model's sort_key /
   in_order take from the filter *)
Lemma order_gen_eq : forall v f, order_gen v f = (f_sort f, f_desc f).
Proof.
  intros v f; destruct v; unfold order_gen, buildOrderBy, buildV2OrderBy;
  destruct f; cbn;
  repeat match goal with
  | |- context [if ?b then _ else _] => is_var b; destruct b; cbn
  | |- context [sortf_eqb ?x _] => is_var x; destruct x; cbn
  end; reflexivity.
Qed.

(* ... so the key the statement sorts by is sort_key, whatever the field name *)
Lemma sort_key_gen : forall v f r,
  sort_key v f r = match fst (order_gen v f) with
                   | SortStatus => status_key v (r_status r) | SortNeg => r_neg r | SortExp => r_exp r end
  /\ snd (order_gen v f) = f_desc f.
Proof. intros v f r. rewrite order_gen_eq. split; reflexivity. Qed.

(** * the statements of C19 about the filter, for the generated definitions *)
From HostdQuery Require Import Proofs.

(* where the generated builder accepts, the statement it assembles selects exactly the rows that
   satisfy every given criterion *)
Lemma filter_gen_iff : forall v f r, rejected_gen v f = false ->
  (filter_gen v f r = true <-> satisfies f r).
Proof.
  intros v f r H. rewrite rejected_gen_eq in H. rewrite (filter_gen_eq v f r H). apply sql_match_iff.
Qed.

(* the generated builder refuses exactly the contradictory filters *)
Lemma rejected_gen_iff : forall v f, rejected_gen v f = true <->
  ((0 < f_min_neg f)%N /\ (0 < f_max_neg f)%N /\ (f_max_neg f < f_min_neg f)%N) \/
  ((0 < f_min_exp f)%N /\ (0 < f_max_exp f)%N /\ (f_max_exp f < f_min_exp f)%N).
Proof. intros v f. rewrite rejected_gen_eq. apply rejected_iff. Qed.

(* the rows Store.Contracts / Store.V2Contracts count and page through are those the generated
   predicate selects *)
Lemma matching_gen : forall v f rows, rejected f = false ->
  List.filter (filter_gen v f) rows = matching f rows.
Proof.
  intros v f rows H. unfold matching. apply filter_ext. intros r. apply filter_gen_eq; exact H.
Qed.

Lemma insert_In v f : forall x l y, In y (insert (sort_key v f) (f_desc f) x l) -> y = x \/ In y l.
Proof.
  intros x l; induction l as [|h t IHl]; cbn; intros y Hy.
  - destruct Hy as [->|[]]; auto.
  - destruct (in_order (f_desc f) (sort_key v f x) (sort_key v f h)); cbn in Hy.
    + destruct Hy as [->|Hy]; auto.
    + destruct Hy as [->|Hy]; auto. destruct (IHl _ Hy); auto.
Qed.

Lemma page_In_matching v f rows r :
  In r (slice (f_limit f) (f_offset f) (full_order v f rows)) -> In r (matching f rows).
Proof.
  intros Hr. unfold slice in Hr. apply firstn_In, skipn_In in Hr.
  unfold full_order, sort in Hr. revert Hr. generalize (matching f rows) as m.
  induction m as [|a m IH]; cbn; [tauto|]. intros Hr.
  destruct (insert_In v f _ _ _ Hr) as [->|Hin]; auto.
Qed.

Lemma query_gen : forall v rows f page cnt, query v rows f = Ok (page, cnt) ->
  rejected_gen v f = false /\ cnt = N.of_nat (length (List.filter (filter_gen v f) rows)) /\
  (forall r, In r page -> In r rows /\ filter_gen v f r = true).
Proof.
  intros v rows f page cnt H. unfold query in H.
  destruct (rejected f) eqn:R; [discriminate|]. destruct (unbindable f); [discriminate|].
  inversion H; subst; clear H. rewrite rejected_gen_eq, (matching_gen v f rows R).
  split; [exact R|]. split; [reflexivity|].
  intros r Hr. apply page_In_matching in Hr.
  rewrite <- (matching_gen v f rows R) in Hr. apply filter_In in Hr. exact Hr.
Qed.

Definition gen_demo_f : filter :=
  {| f_statuses := [2]; f_ids := []; f_from := []; f_to := [7]; f_renters := []; f_min_neg := 3; f_max_neg := 9;
     f_min_exp := 0; f_max_exp := 50; f_limit := 10; f_offset := 0; f_sort := SortExp; f_desc := false |}.
Definition gen_demo_rows : list row :=
  [ {| r_id := 1; r_status := 2; r_to := Some 7; r_from := None; r_renter := 1; r_neg := 5; r_exp := 40 |};
    {| r_id := 2; r_status := 2; r_to := None; r_from := None; r_renter := 1; r_neg := 5; r_exp := 40 |};
    {| r_id := 3; r_status := 3; r_to := Some 7; r_from := None; r_renter := 1; r_neg := 5; r_exp := 40 |};
    {| r_id := 4; r_status := 2; r_to := Some 7; r_from := None; r_renter := 1; r_neg := 10; r_exp := 40 |};
    {| r_id := 5; r_status := 2; r_to := Some 7; r_from := None; r_renter := 1; r_neg := 9; r_exp := 51 |} ].
Lemma gen_demo_ok :
  map (filter_gen V1 gen_demo_f) gen_demo_rows = [true; false; false; false; false] /\
  map (filter_gen V2 gen_demo_f) gen_demo_rows = [true; false; false; false; false] /\
  rejected_gen V1 gen_demo_f = false /\
  rejected_gen V2 (with_limit {| f_statuses := []; f_ids := []; f_from := []; f_to := []; f_renters := [];
     f_min_neg := 9; f_max_neg := 3; f_min_exp := 0; f_max_exp := 0; f_limit := 0; f_offset := 0;
     f_sort := SortNeg; f_desc := true |} 5) = true.
Proof. vm_compute. repeat split; reflexivity. Qed.
