(* Query/Model.v — Store.Contracts / Store.V2Contracts (persist/sqlite/contracts.go):
   buildContractFilter / buildV2ContractFilter, buildOrderBy / buildV2OrderBy, the count
   query and the page query (LIMIT/OFFSET), and the limit normalisation of the POST
   /contracts and POST /v2/contracts handlers (api/endpoints.go).  The v1 and v2 code paths
   differ only in the status representation (INTEGER vs TEXT: different sort order) and in
   the column behind "expiration height" (window_start vs expiration_height), so one model
   parameterised by the version serves both.  Corresponds to the code WITH
   fixes/C19-filter-bounds.patch (min > max rejected).  No proofs here. *)
From HostdBase Require Import Base.

Inductive ver := V1 | V2.

(* contract statuses by code: v1 = the stored integer (pending 0, rejected 1, active 2,
   successful 3, failed 4); v2 = pending 0, rejected 1, active 2, renewed 3, successful 4,
   failed 5; any other code = a status value no stored contract has *)
Definition status_key (v : ver) (s : N) : N :=
  match v with
  | V1 => s                                  (* ORDER BY an INTEGER column *)
  | V2 => match s with                       (* ORDER BY a TEXT column: bytewise *)
          | 2 => 0 (* active *) | 5 => 1 (* failed *) | 0 => 2 (* pending *)
          | 1 => 3 (* rejected *) | 3 => 4 (* renewed *) | 4 => 5 (* successful *)
          | _ => 6
          end%N
  end.

Record row := {
  r_id : N;              (* contract_id; the harness numbers them *)
  r_status : N;
  r_to : option N;       (* contract id of the renewed_to row, NULL if none *)
  r_from : option N;     (* contract id of the renewed_from row *)
  r_renter : N;          (* renter public key; the harness numbers them *)
  r_neg : N;             (* negotiation_height *)
  r_exp : N              (* v1 window_start, v2 expiration_height *)
}.

Inductive sortf := SortStatus | SortNeg | SortExp.   (* any other field name sorts by expiration *)

Record filter := {
  f_statuses : list N; f_ids : list N; f_from : list N; f_to : list N; f_renters : list N;
  f_min_neg : N; f_max_neg : N; f_min_exp : N; f_max_exp : N;
  f_limit : Z; f_offset : Z;
  f_sort : sortf; f_desc : bool
}.

Definition mem (x : N) (l : list N) : bool := existsb (N.eqb x) l.
Definition mem_opt (x : option N) (l : list N) : bool :=
  match x with Some y => mem y l | None => false end.   (* NULL IN (...) is not true *)

(* a clause appended only when its list is non-empty *)
Definition clause (l : list N) (b : bool) : bool := match l with [] => true | _ => b end.

(* the height clauses of buildContractFilter: BETWEEN when both bounds are set, a single
   comparison when one is, nothing when none (0 = not set) *)
Definition height_clause (lo hi x : N) : bool :=
  if (0 <? lo)%N && (0 <? hi)%N then (lo <=? x)%N && (x <=? hi)%N
  else if (0 <? lo)%N then (lo <=? x)%N
  else if (0 <? hi)%N then (x <=? hi)%N
  else true.

Definition sql_match (f : filter) (r : row) : bool :=
  clause (f_statuses f) (mem (r_status r) (f_statuses f)) &&
  clause (f_ids f) (mem (r_id r) (f_ids f)) &&
  clause (f_from f) (mem_opt (r_from r) (f_from f)) &&
  clause (f_to f) (mem_opt (r_to r) (f_to f)) &&
  clause (f_renters f) (mem (r_renter r) (f_renters f)) &&
  height_clause (f_min_neg f) (f_max_neg f) (r_neg r) &&
  height_clause (f_min_exp f) (f_max_exp f) (r_exp r).

(* the builder's own error (with the patch: a minimum above its maximum) *)
Definition contradictory (lo hi : N) : bool := (0 <? lo)%N && (0 <? hi)%N && (hi <? lo)%N.
Definition rejected (f : filter) : bool :=
  contradictory (f_min_neg f) (f_max_neg f) || contradictory (f_min_exp f) (f_max_exp f).

(* a bound that is used is bound as a query argument; database/sql refuses uint64 >= 2^63 *)
Definition two63 : N := 9223372036854775808%N.
Definition unbindable (f : filter) : bool :=
  (two63 <=? f_min_neg f)%N || (two63 <=? f_max_neg f)%N
  || (two63 <=? f_min_exp f)%N || (two63 <=? f_max_exp f)%N.

Definition sort_key (v : ver) (f : filter) (r : row) : N :=
  match f_sort f with
  | SortStatus => status_key v (r_status r)
  | SortNeg => r_neg r
  | SortExp => r_exp r
  end.

(* may a come before b *)
Definition in_order (desc : bool) (ka kb : N) : bool := if desc then (kb <=? ka)%N else (ka <=? kb)%N.

Section Sort.
  Variable key : row -> N.
  Variable desc : bool.
  Fixpoint insert (x : row) (l : list row) : list row :=
    match l with
    | [] => [x]
    | y :: t => if in_order desc (key x) (key y) then x :: l else y :: insert x t
    end.
  Definition sort (l : list row) : list row := fold_right insert [] l.
End Sort.

Definition eff_limit (l : Z) : nat := if (l <=? 0)%Z || (100 <? l)%Z then 100%nat else Z.to_nat l.
(* SQLite: a negative OFFSET is 0 *)
Definition eff_offset (o : Z) (len : nat) : nat := Z.to_nat (Z.min (Z.max 0 o) (Z.of_nat len)).
Definition slice (lim : Z) (off : Z) (l : list row) : list row :=
  firstn (eff_limit lim) (skipn (eff_offset off (length l)) l).

Definition matching (f : filter) (rows : list row) : list row := List.filter (sql_match f) rows.
Definition full_order (v : ver) (f : filter) (rows : list row) : list row :=
  sort (sort_key v f) (f_desc f) (matching f rows).

(* Store.Contracts / Store.V2Contracts: (page, count) *)
Definition query (v : ver) (rows : list row) (f : filter) : res (list row * N) :=
  if rejected f then Err EInvalid
  else if unbindable f then Err EOther
  else Ok (slice (f_limit f) (f_offset f) (full_order v f rows),
           N.of_nat (length (matching f rows))).

(* the HTTP handlers normalise the limit to 1..500 (default 500) before calling the store *)
Definition api_limit (l : Z) : Z := if (l <=? 0)%Z || (500 <? l)%Z then 500%Z else l.
Definition with_limit (f : filter) (l : Z) : filter :=
  {| f_statuses := f_statuses f; f_ids := f_ids f; f_from := f_from f; f_to := f_to f;
     f_renters := f_renters f; f_min_neg := f_min_neg f; f_max_neg := f_max_neg f;
     f_min_exp := f_min_exp f; f_max_exp := f_max_exp f; f_limit := l; f_offset := f_offset f;
     f_sort := f_sort f; f_desc := f_desc f |}.
Definition api_query (v : ver) (rows : list row) (f : filter) : res (list row * N) :=
  query v rows (with_limit f (api_limit (f_limit f))).

(** * Correspondence
   SQL leaves the order among rows with equal sort keys open, so an observed page is
   accepted iff it is a slice of *some* correctly sorted arrangement of the matching rows:
   its key sequence is the key sequence of the model's page, it lists matching rows, and no
   row twice; the reported count must be the number of matching rows. *)
Fixpoint find_row (id : N) (rows : list row) : option row :=
  match rows with
  | [] => None
  | r :: t => if (r_id r =? id)%N then Some r else find_row id t
  end.

Fixpoint nodup_ids (l : list N) : bool :=
  match l with [] => true | x :: t => negb (mem x t) && nodup_ids t end.

Definition page_ok (v : ver) (rows : list row) (f : filter) (ids : list N) : bool :=
  let m := matching f rows in
  let expect := map (sort_key v f) (slice (f_limit f) (f_offset f) (full_order v f rows)) in
  let keys := map (fun id => match find_row id m with Some r => Some (sort_key v f r) | None => None end) ids in
  nodup_ids ids && list_eqb (option_eqb N.eqb) keys (map Some expect).

Definition answer_ok (v : ver) (rows : list row) (f : filter) (seen : res (list N * N)) : bool :=
  match query v rows f, seen with
  | Err e, Err e' => err_eqb e e'
  | Ok (_, cnt), Ok (ids, cnt') => (cnt =? cnt')%N && page_ok v rows f ids
  | _, _ => false
  end.

Record state := { rows1 : list row; rows2 : list row }.
Definition init : state := {| rows1 := []; rows2 := [] |}.
Definition rows_of (s : state) (v : ver) : list row := match v with V1 => rows1 s | V2 => rows2 s end.

Inductive op :=
| SetRows (v : ver) (rows : list row)
| Query (v : ver) (f : filter) (seen : res (list N * N))       (* Store.Contracts / V2Contracts *)
| ApiQuery (v : ver) (f : filter) (seen : res (list N * N)).   (* POST /contracts, /v2/contracts *)

(* the verdict, and for a diverging case the model's own answer (ids, count) *)
Inductive obs := ODone | OAnswer (ok : bool) (model : res (list N * N)).

Definition project (r : res (list row * N)) : res (list N * N) :=
  match r with Ok (p, c) => Ok (map r_id p, c) | Err e => Err e | Panic => Panic end.

Definition step (s : state) (o : op) : state * obs :=
  match o with
  | SetRows V1 rows => ({| rows1 := rows; rows2 := rows2 s |}, ODone)
  | SetRows V2 rows => ({| rows1 := rows1 s; rows2 := rows |}, ODone)
  | Query v f seen => (s, OAnswer (answer_ok v (rows_of s v) f seen) (project (query v (rows_of s v) f)))
  | ApiQuery v f seen =>
      let f' := with_limit f (api_limit (f_limit f)) in
      (s, OAnswer (answer_ok v (rows_of s v) f' seen) (project (query v (rows_of s v) f')))
  end.

(* the harness records [OAnswer true _]: only the verdict is compared *)
Definition obs_eqb (a b : obs) : bool :=
  match a, b with
  | ODone, ODone => true
  | OAnswer x _, OAnswer y _ => Bool.eqb x y
  | _, _ => false
  end.

Definition case := (N * list (op * obs))%type.
Definition check (cs : list case) := mismatches init step obs_eqb cs.
