(* C10 — Recorded revenue equals the money that moved: REFRESHED v2 contracts (WP-V).  Statements only.

   c10_v2_spending (Props_C10.v) excludes refreshed contracts, by necessity (c10_v2_refreshed_excluded):
   core's RefreshContract starts the new contract from the existing outputs (HostOutput = existing
   HostOutput + added collateral + contract price), so the new host output carries everything the
   renter spent on the predecessor, while hostd's row starts with a fresh Usage.  This file states
   what DOES hold across refresh chains of any length, mixed in any way with renewals, spending and
   account-paid RPCs: host output − total collateral = recorded spending of the row + [carried],
   where [carried] is 0 for formed and renewed contracts and, for a contract refreshed from c, the
   carry of c plus the whole recorded spending (five categories) of c at that moment — which is also
   what c's row shows at any later time, since a renewed / refreshed row is never revised again and
   account spending only moves value between its columns.  The harness monitor
   `v2-refresh-chain-host-output-differs-from-carried-plus-spending` evaluates exactly this on the
   rows read back from the store (TestVerifC10Conc4, case 0: chains of length 3 and 4 around a
   renewal; the generated pairs refresh concurrently with other RPCs). *)
From HostdBase Require Import Base.
From HostdRevenue Require Import Model ModelV2 Proofs ProofsV2 RefreshV2.
Open Scope N_scope.

Theorem c10_v2_refresh_chain : forall (l : list op2) (r : crow2),
  In r (cons2 (runs2 init2 l)) ->
  f2host (cfc r) = f2total (cfc r) + rcost2 (cuse2 r) + carried l (cid2 r).
Proof. exact v2_refresh_chain. Qed.
Print Assumptions c10_v2_refresh_chain.

(* what is carried: nothing by formed / renewed contracts ... *)
Theorem c10_v2_carried_zero : forall (l : list op2) (r : crow2),
  In r (cons2 (runs2 init2 l)) -> ckind r <> KRefreshed -> carried l (cid2 r) = 0.
Proof. exact v2_carried_zero. Qed.
Print Assumptions c10_v2_carried_zero.

(* ... and by a contract refreshed from c: c's carry plus c's recorded spending at that moment *)
Theorem c10_v2_carried_refresh : forall (l : list op2) (c c' p a k : N) (s' : state2),
  step_res2 (runs2 init2 l) (Refresh4 c c' p a k) = Ok s' ->
  carried (l ++ [Refresh4 c c' p a k]) c' = carried l c + rcost2 (use_of (runs2 init2 l) c).
Proof. exact v2_carried_refresh. Qed.
Print Assumptions c10_v2_carried_refresh.

(* a renewed / refreshed row keeps revision and recorded spending through every later RPC *)
Theorem c10_v2_renewed_spending_frozen : forall s o c r,
  find2 c (cons2 s) = Some r -> crenewed r = true ->
  exists r', find2 c (cons2 (fst (next2 s o))) = Some r' /\ crenewed r' = true /\
             rcost2 (cuse2 r') = rcost2 (cuse2 r) /\ cfc r' = cfc r.
Proof. exact renewed_spending_frozen. Qed.
Print Assumptions c10_v2_renewed_spending_frozen.

(* non-vacuity: form, spend, fund, refresh, account spending, spend, refresh, spend, renew, spend,
   refresh: (id, host output, total collateral, recorded spending, carried, renewed) *)
Example c10_refresh_nonvacuous :
  map (fun r => (cid2 r, f2host (cfc r), f2total (cfc r), rcost2 (cuse2 r), carried chain_demo (cid2 r), crenewed r))
      (cons2 (runs2 init2 chain_demo))
  = [(1, 238, 100, 138, 0, true); (2, 305, 150, 17, 138, true); (3, 316, 150, 11, 155, true);
     (4, 52, 25, 27, 0, true); (5, 72, 35, 10, 27, false)].
Proof. vm_compute. reflexivity. Qed.
