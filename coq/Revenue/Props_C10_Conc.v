(* C10 — Recorded revenue equals the money that moved: CONCURRENT sessions (WP-V).  Statements only.

   Props_C10.v quantifies over RPC sequences.  The host runs RPCs concurrently (one goroutine per
   RHP2 session / RHP3 stream / RHP4 stream).  ConcV1.v and ConcV2.v model the handlers at the grain
   of the code — Lock (the call that also reads the row), decide on the copy the lock returned,
   Persist (one SQL transaction holding revision AND usage — and balances and funding rows where
   accounts are credited), Unlock; account debits and formations as lock-free single transactions
   that may write the usage columns of contracts whose lock another session holds — for any number
   of sessions over any number of contracts and accounts, and prove that every schedule, cut at
   ANY point, leaves the store of a sequential run of the committed operations in commit order.

   Intermediate states (read from persist/sqlite: ReviseContract, CreditAccountWithContract,
   RenewContract, ReviseV2Contract, RHP4CreditAccounts, RenewV2Contract, [RHP4]DebitAccount are one
   transaction each; db.SetMaxOpenConns(1)): usage is persisted in the same transaction as the
   revision it was paid for, so there is NO reachable store in which a contract's revision is ahead
   of its usage or the other way round; the equations hold at every transaction boundary, also
   between the transactions of one RHP3 RPC (payment credit / finalisation / budget debit).  What is
   outstanding while a session is between deciding and persisting is a revision the host has
   counter-signed and not stored: [c10_conc_v2_pending] says it is exactly the sequential RPC on the
   store as it is at that moment.

   v2: the equivalence is with ModelV2.v's RPCs themselves ([op2]; a ReplenishAccounts commits as the
   FundAccounts of the deposits it fixed when it read the balances).  v1: with the transactions
   Model.v's RPCs consist of ([atx]; RHP2 RPCs, fund-account and renewals are one transaction —
   [single_atom] —, an RHP3 RPC paid by contract is payment + finalisation + debit — [simple3_atoms]);
   regrouping the transactions of one RHP3 RPC next to each other is NOT proved (it needs "one RPC
   at a time per account", the assumption props/C10.json already lists), hence the v1 statement is
   conservation in every reachable state rather than equivalence with [runs]. *)
From HostdBase Require Import Base.
From HostdRevenue Require Import Model ModelV2 Proofs ProofsV2 ConcV1 ConcV2.
Open Scope N_scope.

(** * v2 (RHP4) *)

(* every schedule of n sessions: the store is the ModelV2 run of the committed RPCs, all accepted *)
Theorem c10_conc_v2_serializable : forall (s0 : state2) (tr : list label2) (st : cstate2),
  crun2 true (cinit2 s0) tr = Some st -> seq2 s0 (clog2 st) = Some (store2 st).
Proof. exact conc2_serializable. Qed.
Print Assumptions c10_conc_v2_serializable.

(* hence c10_v2_spending / c10_v2_funding_backed / c10_v2_usage_sum hold in every reachable
   interleaved state — no restriction to quiescent points is needed for v2 *)
Theorem c10_conc_v2_conservation : forall (l0 : list op2) (tr : list label2) (st : cstate2) (r : crow2),
  crun2 true (cinit2 (runs2 init2 l0)) tr = Some st -> In r (cons2 (store2 st)) ->
  (ckind r <> KRefreshed ->
     f2host (cfc r) = f2total (cfc r) +
       (vRpc (cuse2 r) + vSto (cuse2 r) + vEgr (cuse2 r) + vIng (cuse2 r) + vFund (cuse2 r))) /\
  vFund (cuse2 r) = fsum (cid2 r) (funds2 (store2 st)) /\
  (let h := hist init2 (l0 ++ clog2 st) (cid2 r) in
   rcost2 (cuse2 r) = rcost2 h /\ vRisk (cuse2 r) = vRisk h).
Proof. exact conc2_conservation. Qed.
Print Assumptions c10_conc_v2_conservation.

(* the counter-signed, not yet stored revision of a lock holder is what the sequential RPC writes
   on the store as it is now *)
Theorem c10_conc_v2_pending : forall s0 tr st i c row w o,
  crun2 true (cinit2 s0) tr = Some st -> sess2 st i = TDecided c row w o ->
  persist2 (store2 st) c w = step_res2 (store2 st) o.
Proof. exact conc2_pending. Qed.
Print Assumptions c10_conc_v2_pending.

(* a handler that reads the row before it holds the lock: conservation fails, no sequential run
   explains the store (seeded C10-mut6's shape); the code as it is cannot run that schedule *)
Theorem c10_conc_v2_read_before_lock_refuted :
  rx_view (crun2 false (cinit2 rx_s0) rx_schedule) = Some ([(1, 160, 100, 130)], 2%nat) /\
  (forall st, crun2 false (cinit2 rx_s0) rx_schedule = Some st ->
     (exists r, In r (cons2 (store2 st)) /\ ckind r <> KRefreshed /\
                f2host (cfc r) <> f2total (cfc r) + rcost2 (cuse2 r)) /\
     seq2 rx_s0 (clog2 st) <> Some (store2 st)) /\
  crun2 true (cinit2 rx_s0) rx_schedule = None.
Proof. exact relaxed2_refuted. Qed.
Print Assumptions c10_conc_v2_read_before_lock_refuted.

(** * v1 (RHP2 / RHP3) *)

Theorem c10_conc_v1_serializable : forall (s0 : state) (tr : list label1) (st : cstate1),
  crun1 true (cinit1 s0) tr = Some st -> aseq s0 (clog1 st) = Some (store1 st).
Proof. exact conc1_serializable. Qed.
Print Assumptions c10_conc_v1_serializable.

(* c10_v1_conservation's equation and c10_v1_funding_backed in every reachable interleaved state *)
Theorem c10_conc_v1_conservation_partial : forall (l0 : list op) (tr : list label1) (st : cstate1) (r : crow),
  crun1 true (cinit1 (runs init l0)) tr = Some st -> In r (cons (store1 st)) ->
  vh (crev r) = clocked r + (uRpc (cuse r) + uSto (cuse r) + uIng (cuse r) + uEgr (cuse r) +
                            uRR (cuse r) + uRW (cuse r) + uFund (cuse r)) /\
  uFund (cuse r) = fsum (cid r) (funds (store1 st)).
Proof. exact conc1_conservation. Qed.
Print Assumptions c10_conc_v1_conservation_partial.

(* the RPCs that are one transaction are Model.v's steps *)
Theorem c10_conc_v1_single_atom : forall s o t, atx_of o = Some t -> step_out s o = of_res s (astep s t).
Proof. exact single_atom. Qed.
Print Assumptions c10_conc_v1_single_atom.

Theorem c10_conc_v1_read_before_lock_refuted :
  rx1_view (crun1 false (cinit1 rx1_s0) rx1_schedule) = Some ([(3, 550, 400, 220)], 2%nat) /\
  (forall st, crun1 false (cinit1 rx1_s0) rx1_schedule = Some st ->
     (exists r, In r (cons (store1 st)) /\ vh (crev r) <> clocked r + usum (cuse r)) /\
     aseq rx1_s0 (clog1 st) <> Some (store1 st)) /\
  crun1 true (cinit1 rx1_s0) rx1_schedule = None /\
  rx1_view (crun1 true (cinit1 rx1_s0) (tl rx1_schedule)) = Some ([(2, 570, 400, 170)], 1%nat).
Proof. exact relaxed1_refuted. Qed.
Print Assumptions c10_conc_v1_read_before_lock_refuted.

(* non-vacuity: strict schedules of three sessions over two contracts and an account are accepted
   step by step, with a debit committing while another session holds the funding contract's lock *)
Example c10_conc_nonvacuous :
  option_map (fun st => (map (fun r => (cid2 r, f2rn (cfc r), f2host (cfc r), rcost2 (cuse2 r), vFund (cuse2 r), crenewed r)) (cons2 (store2 st)),
                         length (clog2 st))) (crun2 true (cinit2 ex2_s0) ex2_schedule)
  = Some ([(1, 1, 310, 210, 170, true); (2, 1, 98, 38, 0, false); (3, 0, 370, 10, 0, false)], 4%nat) /\
  option_map (fun st => (map (fun r => (cid r, rn (crev r), vh (crev r), usum (cuse r), uFund (cuse r))) (cons (store1 st)),
                         balance (store1 st) 7, length (clog1 st))) (crun1 true (cinit1 ex1_s0) ex1_schedule)
  = Some ([(1, 3, 545, 145, 0); (2, 3, 450, 250, 119)], 119, 5%nat).
Proof. vm_compute. split; reflexivity. Qed.
