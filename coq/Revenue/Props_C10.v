From HostdBase Require Import Base.
From HostdRevenue Require Import Model.
Example c10_tmp_nonvacuous : init = init.
Proof. reflexivity. Qed.
