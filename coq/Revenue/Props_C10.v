(* C10 — Recorded revenue equals the money that moved.  Statements only; every proof is [exact lemma].

   Models: Model.v (v1 contracts: RHP2 + RHP3 handlers, account manager, store rows) and ModelV2.v
   (v2 contracts: core's RHP4 revision arithmetic, hostd's contract manager and store rows).

   Renter-chosen quantities.  In every [op] of Model.v the renter chooses: the payouts of a proposed
   contract ([fcv]: valid renter/host, missed renter/host/void); the revision number and all five
   output values of every payment / program / final revision ([prop], [fin_vr], [fin_vh]) — hence the
   size of any over- or under-payment and how much collateral the host burns; which contract pays,
   which account is refunded or charged and with which budget ([payment]); the program ([instr] list:
   the instructions, and through their arguments whether one fails before or after it is paid for).
   The host's side enters as the prices of its settings / price table (per-RPC [rcost]s are core's
   price × quantity products, [price], [maxColl], [maxBal], ...).  The theorems quantify over all of
   these at once: [forall l : list op].  In ModelV2.v the renter chooses allowance, collateral,
   deposits, targets, which RPCs to run; usages are core's price × quantity products.

   Readings.  "Σ of all recorded usage categories" = rpc + storage + ingress + egress + registry
   read + registry write + unspent account funding (risked collateral is not revenue).  "After any
   sequence of successful RPCs" is proved for any sequence of RPCs, successful or refused (a refused
   RPC may already have credited the refund account: the equation holds in that state too).
   v2 "recorded usage equals the sum of the usages of the accepted RPCs": every accepted RPC adds
   exactly the Usage it was priced at, column by column ([c10_v2_step_exact]); account spending moves
   value from the account-funding column into the revenue columns of the funding contracts and
   changes no total ([c10_v2_usage_sum]). *)
From HostdBase Require Import Base.
From HostdRevenue Require Import Model ModelV2 Proofs ProofsV2.
Open Scope N_scope.

(** * v1 *)

(* After ANY sequence of form / renew-and-clear / sector-roots / read / write / fund-account /
   pay-by-contract (price table, balance, latest revision) / execute-program with finalisation /
   RHP3 renew RPCs, paid by contract or by account, with arbitrary renter-chosen values: for every
   contract, the valid host payout of the latest signed revision = locked collateral + Σ usage. *)
Theorem c10_v1_conservation : forall (l : list op) (r : crow),
  In r (cons (runs init l)) ->
  vh (crev r) = clocked r + (uRpc (cuse r) + uSto (cuse r) + uIng (cuse r) + uEgr (cuse r) +
                            uRR (cuse r) + uRW (cuse r) + uFund (cuse r)).
Proof. exact v1_conservation. Qed.
Print Assumptions c10_v1_conservation.

(* Per RPC: whatever the renter sends, a contract keeps its locked collateral and its valid host
   payout moves by exactly what its recorded usage moves: no over-payment is dropped or booked twice. *)
Theorem c10_v1_rpc_exact : forall (l : list op) (o : op) (c : N) (r : crow),
  find_con c (cons (runs init l)) = Some r ->
  exists r', find_con c (cons (fst (step (runs init l) o))) = Some r' /\
    clocked r' = clocked r /\
    vh (crev r') + usum (cuse r) = vh (crev r) + usum (cuse r').
Proof. exact v1_rpc_exact. Qed.
Print Assumptions c10_v1_rpc_exact.

(* The unspent account funding of a contract is exactly what its funding rows still hold, so account
   spending can always be taken out of it (the Sub in distributeRHP3AccountUsage cannot underflow). *)
Theorem c10_v1_funding_backed : forall (l : list op) (r : crow),
  In r (cons (runs init l)) -> uFund (cuse r) = fsum (cid r) (funds (runs init l)).
Proof. exact v1_funding_backed. Qed.
Print Assumptions c10_v1_funding_backed.

(* Account spending (any debit, any state): every contract keeps its revision, locked collateral,
   Σ usage and risked collateral — value only moves from account funding into revenue categories. *)
Theorem c10_v1_account_spending_moves : forall s a u s' c r,
  debit_store s a u = Ok s' -> find_con c (cons s) = Some r ->
  exists r', find_con c (cons s') = Some r' /\ crev r' = crev r /\ clocked r' = clocked r /\
    usum (cuse r') = usum (cuse r) /\ uRisk (cuse r') = uRisk (cuse r).
Proof. exact v1_debit_moves. Qed.
Print Assumptions c10_v1_account_spending_moves.

(* ... and on every reachable state it can be taken: the debit never panics (the
   AccountFunding.Sub in distributeRHP3AccountUsage cannot underflow). *)
Theorem c10_v1_account_spending_total : forall (l : list op) (a : N) (u : ausage),
  is_panic (debit_store (runs init l) a u) = false.
Proof. exact v1_debit_total. Qed.
Print Assumptions c10_v1_account_spending_total.

(** * v2 *)

(* An accepted RPC other than an account debit adds exactly the usage it was priced at. *)
Theorem c10_v2_step_exact : forall s o s' c,
  step_res2 s o = Ok s' -> (forall a u, o <> Debit4 a u) ->
  use_of s' c = vadd (use_of s c) (passed s o c).
Proof. exact v2_step_exact. Qed.
Print Assumptions c10_v2_step_exact.

(* After any sequence of form / append / free / sector-roots / fund / replenish / account-paid /
   renew / refresh RPCs: the recorded renter spending and risked collateral of every contract are
   the sums over its accepted RPCs; each revenue column holds at least what the RPCs booked there,
   the difference came out of the account-funding column. *)
Theorem c10_v2_usage_sum : forall (l : list op2) (c : N) (r : crow2),
  find2 c (cons2 (runs2 init2 l)) = Some r ->
  let h := hist init2 l c in
  rcost2 (cuse2 r) = rcost2 h /\ vRisk (cuse2 r) = vRisk h /\
  vRpc h <= vRpc (cuse2 r) /\ vSto h <= vSto (cuse2 r) /\ vEgr h <= vEgr (cuse2 r) /\ vIng h <= vIng (cuse2 r) /\
  vFund (cuse2 r) <= vFund h.
Proof. exact v2_usage_sum. Qed.
Print Assumptions c10_v2_usage_sum.

(* Hence, for a formed or renewed (not refreshed) contract: host output − total collateral =
   recorded renter spending. *)
Theorem c10_v2_spending : forall (l : list op2) (r : crow2),
  In r (cons2 (runs2 init2 l)) -> ckind r <> KRefreshed ->
  f2host (cfc r) = f2total (cfc r) +
    (vRpc (cuse2 r) + vSto (cuse2 r) + vEgr (cuse2 r) + vIng (cuse2 r) + vFund (cuse2 r)).
Proof. exact v2_spending. Qed.
Print Assumptions c10_v2_spending.

Theorem c10_v2_funding_backed : forall (l : list op2) (r : crow2),
  In r (cons2 (runs2 init2 l)) -> vFund (cuse2 r) = fsum (cid2 r) (funds2 (runs2 init2 l)).
Proof. exact v2_funding_backed. Qed.
Print Assumptions c10_v2_funding_backed.

(* account spending by an RHP4 token can always be attributed: the debit never panics *)
Theorem c10_v2_account_spending_total : forall (l : list op2) (a : N) (u : usage2),
  is_panic (debit2 (runs2 init2 l) a u) = false.
Proof. exact v2_debit_total. Qed.
Print Assumptions c10_v2_account_spending_total.

(* The qualifier "not refreshed" is necessary: a refreshed contract carries its predecessor's
   revenue in its host output but starts with a fresh usage. *)
Theorem c10_v2_refreshed_excluded : exists (l : list op2) (r : crow2),
  In r (cons2 (runs2 init2 l)) /\ ckind r = KRefreshed /\
  f2host (cfc r) <> f2total (cfc r) + rcost2 (cuse2 r).
Proof. exact v2_refreshed_witness. Qed.
Print Assumptions c10_v2_refreshed_excluded.

(* non-vacuity: a history with an over-paid write, a fund, a registry program paid by contract, a
   failing program paid by account and a renewal is accepted step by step and ends in a state with
   two contracts whose usage is spread over five categories *)
Example c10_nonvacuous :
  map (fun x => match snd x with Obs st _ _ => st end) (tr_v1 init demo_v1)
    = [SOk; SOk; SOk; SOk; SErr; SOk]
  /\ map (fun r => (usum (cuse r), uRR (cuse r), uFund (cuse r))) (cons (runs init demo_v1))
    = [(751, 7, 505); (108, 0, 0)].
Proof. vm_compute. split; reflexivity. Qed.
