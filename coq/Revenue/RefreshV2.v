(* Revenue/RefreshV2.v — what holds for REFRESHED v2 contracts (WP-V, hole 3).

   c10_v2_spending excludes refreshed contracts: core's RefreshContract (rhp/v4) builds the new
   contract from the existing one —
       RenterOutput  = existing.RenterOutput + Allowance
       HostOutput    = existing.HostOutput + Collateral + ContractPrice
       TotalCollateral = existing.TotalCollateral + Collateral,  MissedHostValue likewise
   — so the new host output carries everything the renter had spent on the predecessor, while hostd
   stores the new row with a fresh Usage {RPC: ContractPrice, RiskedCollateral}
   (Manager.RenewV2Contract -> insertV2Contract).  What does hold, for chains of any length and any
   mix with renewals:

       host output − total collateral = recorded spending of the row + carried(row)

   where carried is 0 for formed and renewed contracts and, for a contract refreshed from c,
   carried(c) + the whole recorded spending of c at the moment of the refresh ([carry_step]).  A
   refreshed-from row is never revised again (renewed_to is set) and account spending only moves
   value between its columns, so that spending is also what the predecessor's row shows at any later
   time ([renewed_spending_frozen]): the harness monitor sums the predecessors' rows as they are. *)
From Coq Require Import Lia ZifyBool ZifyN ZifyNat.
From HostdBase Require Import Base.
From HostdRevenue Require Import Model ModelV2 Proofs ProofsV2.
Open Scope N_scope.

(* the ghost: what each contract carries over from the chain it was refreshed from *)
Definition carry_step (s : state2) (o : op2) (k : N -> N) : N -> N :=
  match o with
  | Refresh4 c c' _ _ _ =>
      match step_res2 s o with
      | Ok _ => fun d => if d =? c' then k c + rcost2 (use_of s c) else k d
      | _ => k
      end
  | _ => k
  end.

Fixpoint carry_from (s : state2) (k : N -> N) (l : list op2) : N -> N :=
  match l with
  | [] => k
  | o :: t => carry_from (fst (next2 s o)) (carry_step s o k) t
  end.

Definition carried (l : list op2) : N -> N := carry_from init2 (fun _ => 0) l.

Definition row_okC (k : N -> N) (r : crow2) : Prop :=
  f2host (cfc r) = f2total (cfc r) + rcost2 (cuse2 r) + k (cid2 r).

Definition CI (s : state2) (k : N -> N) : Prop :=
  NoDup (map cid2 (cons2 s)) /\
  (forall r, In r (cons2 s) -> row_okC k r) /\
  (forall c, find2 c (cons2 s) = None -> k c = 0).

Lemma CI_insert s r s' k k' :
  CI s k -> insert2 s r = Ok s' -> row_okC k' r -> (forall d, d <> cid2 r -> k' d = k d) -> CI s' k'.
Proof.
  intros (ND & RO & Z) H Hr Hk. unfold insert2 in H.
  destruct (find2 (cid2 r) (cons2 s)) eqn:F; [discriminate|]. inversion H; subst s'; clear H.
  split; [|split]; cbn.
  - rewrite map_app; cbn. apply NoDup_app_single; [exact ND|now apply find2_none_notin].
  - intros x Hx. apply in_app_or in Hx. destruct Hx as [Hx|[<-|[]]]; [|exact Hr].
    unfold row_okC. rewrite Hk; [exact (RO x Hx)|].
    intros E. apply (find2_none_notin _ _ F). rewrite <- E. now apply in_map.
  - intros c Hc. rewrite find2_app in Hc. destruct (find2 c (cons2 s)) eqn:Fc; [discriminate|].
    cbn in Hc. destruct (cid2 r =? c) eqn:E; [discriminate|]. rewrite Hk; [now apply Z|lia].
Qed.

Lemma CI_upd s c F accts' fs' x k :
  CI s k -> find2 c (cons2 s) = Some x -> (forall r, cid2 (F r) = cid2 r) -> row_okC k (F x) ->
  CI (mkS2 (upd2 c F (cons2 s)) accts' fs') k.
Proof.
  intros (ND & RO & Z) Hx HF Hrow. split; [|split]; cbn.
  - now rewrite map_cid2_upd.
  - intros r' Hr'. destruct (In_upd2 c F (cons2 s) r' HF ND Hr') as [[H1 H2]|(y & H1 & H2)].
    + exact (RO r' H1).
    + rewrite Hx in H1; inversion H1; subst; exact Hrow.
  - intros c' Hc'. apply Z. destruct (N.eq_dec c' c) as [->|Hne].
    + erewrite find2_upd_same in Hc'; eauto; discriminate.
    + rewrite find2_upd_other in Hc'; auto.
Qed.

Lemma CI_moved s fs' cs' accts' k :
  CI s k -> moved_rel2 (funds2 s) fs' (cons2 s) cs' -> CI (mkS2 cs' accts' fs') k.
Proof.
  intros (ND & RO & Z) [M1 M2]. split; [|split]; cbn.
  - now rewrite M1.
  - intros r' Hr'.
    assert (ND' : NoDup (map cid2 cs')) by now rewrite M1.
    destruct (in_map_find2 (cid2 r') (cons2 s)) as (r & Fr); [rewrite <- M1; now apply in_map|].
    destruct (M2 _ _ Fr) as (r2 & F2 & A1 & _ & _ & A4 & _).
    rewrite (In_find2 cs' r' ND' Hr') in F2. inversion F2; subst r2.
    pose proof (RO r (find2_In _ _ _ Fr)) as B. unfold row_okC in *.
    rewrite (find2_cid _ _ _ Fr) in B. rewrite A1. destruct A4 as (S1 & _). lia.
  - intros c Hc. apply Z. destruct (find2 c (cons2 s)) as [r|] eqn:F; [|reflexivity].
    destruct (M2 _ _ F) as (r' & F' & _). congruence.
Qed.

Lemma CI_revise s c fc u s' x k accts0 fs0 :
  CI (mkS2 (cons2 s) accts0 fs0) k -> revise2 s c fc u = Ok s' -> find2 c (cons2 s) = Some x ->
  f2host fc = f2host (cfc x) + rcost2 u -> f2total fc = f2total (cfc x) -> CI s' k.
Proof.
  intros I H Hx Hh Ht. unfold revise2 in H. rewrite Hx in H. inversion H; subst s'; clear H.
  apply (CI_upd (mkS2 (cons2 s) accts0 fs0) c _ (accts2 s) (funds2 s) x k I Hx); [intros; reflexivity|].
  destruct I as (_ & RO & _). pose proof (RO x (find2_In _ _ _ Hx)) as B. unfold row_okC in *. cbn in *.
  rewrite rcost2_vadd. lia.
Qed.

Lemma CI_any_accts s k a f : CI s k -> CI (mkS2 (cons2 s) a f) k.
Proof. intros I; exact I. Qed.

Lemma CI_credit s c deps fc u s' x k :
  CI s k -> credit2 s c deps fc u = Ok s' -> find2 c (cons2 s) = Some x ->
  f2host fc = f2host (cfc x) + rcost2 u -> f2total fc = f2total (cfc x) -> CI s' k.
Proof.
  intros I H Hx Hh Ht. unfold credit2 in H. rewrite Hx in H.
  destruct (credit_deposits c deps (accts2 s) (funds2 s)) as [ac fs] eqn:CD.
  apply (CI_revise (mkS2 (cons2 s) ac fs) c fc u s' x k ac fs); [exact I|exact H|exact Hx|exact Hh|exact Ht].
Qed.

Lemma CI_renew_store s c nr s' k k' :
  CI s k -> renew_store2 s c nr = Ok s' -> row_okC k' nr -> (forall d, d <> cid2 nr -> k' d = k d) -> CI s' k'.
Proof.
  intros I H Hr Hk. unfold renew_store2 in H. bind_inv H.
  pose proof (CI_insert _ _ _ _ _ I B Hr Hk) as I1.
  destruct (find2 c (cons2 x)) as [y|] eqn:F; [|discriminate]. inversion H; subst s'; clear H.
  eapply CI_upd; eauto. destruct I1 as (_ & RO & _). exact (RO y (find2_In _ _ _ F)).
Qed.

Lemma CI_step s o s' k : CI s k -> step_res2 s o = Ok s' -> CI s' (carry_step s o k).
Proof.
  intros I H. pose proof H as H0. destruct o; cbn [step_res2 carry_step] in *.
  - (* form *)
    unfold form4 in H. cbn in H. eapply CI_insert; eauto.
    unfold row_okC, rcost2; cbn. destruct I as (_ & _ & Z).
    unfold insert2 in H. cbn in H. destruct (find2 c (cons2 s)) eqn:F; [discriminate|]. rewrite (Z _ F). lia.
  - (* pay *)
    unfold pay4 in H. bind_inv H. apply lock2_ok in B. destruct B as [F _].
    apply pay_with_contract_ok in B0. eapply (CI_revise s c x0 _ s' x k (accts2 s) (funds2 s)); [exact I|exact H|exact F|lia|lia].
  - (* fund *)
    unfold fund4 in H. bind_inv H. apply lock2_ok in B. destruct B as [F _].
    apply pay_with_contract_ok in B0. eapply CI_credit; eauto; lia.
  - (* replenish *)
    unfold replenish4 in H. bind_inv H. apply lock2_ok in B. destruct B as [F _].
    destruct (dep_total (replenish_deps s accts target) =? 0); [inversion H; subst; exact I|].
    bind_inv H. apply pay_with_contract_ok in B. eapply CI_credit; eauto; lia.
  - (* debit *)
    unfold debit2 in H. destruct (alookup a (accts2 s)) as [bal|]; [|discriminate].
    destruct (bal <? rcost2 u); [discriminate|].
    bind_inv H. destruct x as [fs cs]. inversion H; subst s'; clear H.
    apply distribute2_spec in B. destruct B as [M _]. eapply CI_moved; eauto.
  - (* renew *)
    unfold renew4 in H. bind_inv H. destruct x0 as [fc u].
    unfold renew_contract in B0. bind_inv B0. inversion B0; subst fc u; clear B0.
    eapply CI_renew_store; eauto. unfold row_okC, rcost2; cbn.
    destruct I as (_ & _ & Z). unfold renew_store2, insert2 in H. cbn in H.
    destruct (find2 c' (cons2 s)) eqn:F; [discriminate|]. rewrite (Z _ F). lia.
  - (* refresh *)
    rewrite H0. unfold refresh4 in H. bind_inv H. destruct x0 as [fc u].
    apply lock2_ok in B. destruct B as [F _].
    unfold refresh_contract in B0. bind_inv B0. inversion B0; subst fc u; clear B0.
    eapply CI_renew_store; eauto.
    + unfold row_okC, rcost2, use_of; cbn. rewrite N.eqb_refl, F.
      destruct I as (_ & RO & _). pose proof (RO x (find2_In _ _ _ F)) as R. unfold row_okC, rcost2 in R.
      rewrite (find2_cid _ _ _ F) in R. lia.
    + intros dd Hd. cbn in Hd. destruct (dd =? c') eqn:E; [lia|reflexivity].
Qed.

Lemma CI_init : CI init2 (fun _ => 0).
Proof. split; [constructor|split; [intros r []|reflexivity]]. Qed.

Lemma carry_step_err s o k : (forall s', step_res2 s o <> Ok s') -> carry_step s o k = k.
Proof.
  intros H. destruct o; cbn [carry_step]; try reflexivity.
  destruct (step_res2 s (Refresh4 c c' price allowance coll)) eqn:E; [exfalso; eapply H; eauto|reflexivity|reflexivity].
Qed.

Lemma CI_runs l : forall s k, CI s k -> CI (runs2 s l) (carry_from s k l).
Proof.
  induction l as [|o t IH]; intros s k I; [exact I|].
  cbn [carry_from]. unfold runs2 in *. cbn [fold_left]. rewrite step2_fst. apply IH.
  unfold next2. destruct (step_res2 s o) as [s'| |] eqn:E; cbn [fst].
  - eapply CI_step; eauto.
  - rewrite carry_step_err; [exact I|intros s' H; congruence].
  - rewrite carry_step_err; [exact I|intros s' H; congruence].
Qed.

(* host output − total collateral = recorded spending + what the refresh chain carried over *)
Lemma v2_refresh_chain l r :
  In r (cons2 (runs2 init2 l)) ->
  f2host (cfc r) = f2total (cfc r) + rcost2 (cuse2 r) + carried l (cid2 r).
Proof. intros H. destruct (CI_runs l init2 _ CI_init) as (_ & RO & _). exact (RO r H). Qed.

(* formed and renewed contracts carry nothing (so this is c10_v2_spending for them) *)
Lemma v2_carried_zero l r :
  In r (cons2 (runs2 init2 l)) -> ckind r <> KRefreshed -> carried l (cid2 r) = 0.
Proof.
  intros H K. pose proof (v2_refresh_chain l r H) as A. pose proof (v2_spending l r H K) as B.
  unfold rcost2 in A. lia.
Qed.

(* the definition of the carry, unfolded one step: a successful refresh of c into c' after history l
   gives c' the carry of c plus the whole recorded spending of c at that moment *)
Lemma v2_carried_refresh l c c' p a k s' :
  step_res2 (runs2 init2 l) (Refresh4 c c' p a k) = Ok s' ->
  carried (l ++ [Refresh4 c c' p a k]) c' = carried l c + rcost2 (use_of (runs2 init2 l) c).
Proof.
  intros H. unfold carried.
  assert (G : forall l s k0, carry_from s k0 (l ++ [Refresh4 c c' p a k]) =
                             carry_step (runs2 s l) (Refresh4 c c' p a k) (carry_from s k0 l)).
  { induction l0 as [|o t IH]; intros s k0; cbn [carry_from app]; [reflexivity|].
    rewrite IH. unfold runs2. cbn [fold_left]. rewrite step2_fst. reflexivity. }
  rewrite G. cbn [carry_step]. rewrite H. now rewrite N.eqb_refl.
Qed.

(* a row that has been renewed or refreshed keeps its recorded spending for ever: no RPC revises it
   and account spending only moves value between its columns *)
Lemma renewed_spending_frozen s o c r :
  find2 c (cons2 s) = Some r -> crenewed r = true ->
  exists r', find2 c (cons2 (fst (next2 s o))) = Some r' /\ crenewed r' = true /\
             rcost2 (cuse2 r') = rcost2 (cuse2 r) /\ cfc r' = cfc r.
Proof.
  intros F R. unfold next2. destruct (step_res2 s o) as [s'| |] eqn:E; cbn [fst]; [|exists r; auto|exists r; auto].
  assert (L : forall x, lock2 s c = Ok x -> False).
  { intros x Hx. apply lock2_ok in Hx. destruct Hx as [Fx Rx]. congruence. }
  destruct o; cbn [step_res2] in E.
  - unfold form4 in E. cbn in E. exists r. split; [eapply insert2_find; eauto|auto].
  - unfold pay4 in E. bind_inv E. destruct (N.eq_dec c0 c) as [->|Hne]; [exfalso; eauto|].
    unfold revise2 in E. destruct (find2 c0 (cons2 s)); [|discriminate]. inversion E; subst s'. cbn.
    exists r. rewrite find2_upd_other; auto.
  - unfold fund4 in E. bind_inv E. destruct (N.eq_dec c0 c) as [->|Hne]; [exfalso; eauto|].
    unfold credit2 in E. destruct (find2 c0 (cons2 s)); [|discriminate].
    destruct (credit_deposits c0 deps (accts2 s) (funds2 s)). unfold revise2 in E. cbn in E.
    destruct (find2 c0 (cons2 s)); [|discriminate]. inversion E; subst s'. cbn.
    exists r. rewrite find2_upd_other; auto.
  - unfold replenish4 in E. bind_inv E. destruct (N.eq_dec c0 c) as [->|Hne]; [exfalso; eauto|].
    destruct (dep_total (replenish_deps s accts target) =? 0); [inversion E; subst; exists r; auto|].
    bind_inv E. unfold credit2 in E. destruct (find2 c0 (cons2 s)); [|discriminate].
    destruct (credit_deposits c0 _ (accts2 s) (funds2 s)). unfold revise2 in E. cbn in E.
    destruct (find2 c0 (cons2 s)); [|discriminate]. inversion E; subst s'. cbn.
    exists r. rewrite find2_upd_other; auto.
  - unfold debit2 in E. destruct (alookup a (accts2 s)) as [bal|]; [|discriminate].
    destruct (bal <? rcost2 u); [discriminate|].
    bind_inv E. destruct x as [fs cs]. inversion E; subst s'; clear E.
    apply distribute2_spec in B. destruct B as [[_ M] _].
    destruct (M _ _ F) as (r' & F' & A1 & A2 & _ & (S1 & _) & _). exists r'. cbn. split; [exact F'|].
    split; [congruence|split; [exact S1|exact A1]].
  - unfold renew4 in E. bind_inv E. destruct (N.eq_dec c0 c) as [->|Hne]; [exfalso; eauto|].
    destruct x0 as [fc u]. unfold renew_store2 in E. bind_inv E.
    destruct (find2 c0 (cons2 x0)); [|discriminate]. inversion E; subst s'. cbn.
    exists r. rewrite find2_upd_other; auto. split; [eapply insert2_find; eauto|auto].
  - unfold refresh4 in E. bind_inv E. destruct (N.eq_dec c0 c) as [->|Hne]; [exfalso; eauto|].
    destruct x0 as [fc u]. unfold renew_store2 in E. bind_inv E.
    destruct (find2 c0 (cons2 x0)); [|discriminate]. inversion E; subst s'. cbn.
    exists r. rewrite find2_upd_other; auto. split; [eapply insert2_find; eauto|auto].
Qed.

(* a chain: form, spend, refresh, spend, refresh, renew, refresh — the last row carries the spending
   of its refreshed-from predecessor only (the renewal in between started a new chain) *)
Definition chain_demo : list op2 :=
  [Form4 1 10 1000 100; Pay4 1 5 20 0 3 40; Fund4 1 [(7, 100)]; Refresh4 1 2 10 500 50;
   Debit4 7 (mkU2 4 0 6 0 0 0); Pay4 2 7 0 0 0 0; Refresh4 2 3 10 200 0; Pay4 3 1 0 0 0 0;
   Renew4 3 4 10 300 20 15 5; Pay4 4 2 0 0 0 0; Refresh4 4 5 10 100 10].
