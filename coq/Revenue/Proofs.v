(* Revenue/Proofs.v — lemmas behind the v1 half of Props_C10.v: the conservation invariant
   valid_host_payout = locked_collateral + Σ usage categories, and the backing of the unspent
   account funding by the funding rows, for every sequence of RHP2/RHP3 RPCs. *)
From Coq Require Import Lia ZifyBool ZifyN ZifyNat.
From HostdBase Require Import Base.
From HostdRevenue Require Import Model.
Open Scope N_scope.

(** * monad inversion *)
Lemma bind_ok A B (r : res A) (f : A -> res B) b :
  bind r f = Ok b -> exists a, r = Ok a /\ f a = Ok b.
Proof. destruct r; cbn; intros H; try discriminate; eauto. Qed.

Lemma eguard_ok b u : eguard b = Ok u -> b = true.
Proof. destruct b; cbn; intros H; [reflexivity|discriminate]. Qed.

Lemma csub_ok a b c : csub a b = Ok c -> b <= a /\ c = a - b.
Proof. unfold csub; destruct (b <=? a) eqn:E; intros H; inversion H; split; [lia|reflexivity]. Qed.

Ltac bind_inv H :=
  match type of H with
  | bind (eguard _) _ = Ok _ =>
      let x := fresh "u" in let H1 := fresh "G" in
      apply bind_ok in H; destruct H as (x & H1 & H); apply eguard_ok in H1; bind_inv H
  | bind (csub _ _) _ = Ok _ =>
      let x := fresh "d" in let H1 := fresh "S" in
      apply bind_ok in H; destruct H as (x & H1 & H); apply csub_ok in H1; destruct H1 as [? H1]; bind_inv H
  | bind _ _ = Ok _ =>
      let x := fresh "x" in let H1 := fresh "B" in
      apply bind_ok in H; destruct H as (x & H1 & H); bind_inv H
  | eguard _ = Ok _ => apply eguard_ok in H
  | _ => idtac
  end.

Lemma NoDup_app_single A (l : list A) x : NoDup l -> ~ In x l -> NoDup (l ++ [x]).
Proof.
  induction l as [|y t IH]; cbn; intros ND Hx.
  - constructor; [tauto|constructor].
  - inversion ND; subst. constructor.
    + intros H. apply in_app_or in H. destruct H as [H|[H|[]]]; [contradiction|subst; tauto].
    + apply IH; tauto.
Qed.

(** * usage arithmetic *)
Lemma usum_uadd a b : usum (uadd a b) = usum a + usum b.
Proof. unfold usum, uadd; cbn; lia. Qed.
Lemma uFund_uadd a b : uFund (uadd a b) = uFund a + uFund b.
Proof. reflexivity. Qed.

(** * contract lists *)
Lemma find_con_cid c cs r : find_con c cs = Some r -> cid r = c.
Proof.
  induction cs as [|x t IH]; cbn; [discriminate|].
  destruct (cid x =? c) eqn:E; intros H; [inversion H; subst; lia|auto].
Qed.

Lemma find_con_In c cs r : find_con c cs = Some r -> In r cs.
Proof.
  induction cs as [|x t IH]; cbn; [discriminate|].
  destruct (cid x =? c); intros H; [inversion H; auto|auto].
Qed.

Lemma find_con_none_notin c cs : find_con c cs = None -> ~ In c (map cid cs).
Proof.
  induction cs as [|x t IH]; cbn; [tauto|].
  destruct (cid x =? c) eqn:E; [discriminate|].
  intros H [H1|H1]; [lia|exact (IH H H1)].
Qed.

Lemma In_find_con cs r : NoDup (map cid cs) -> In r cs -> find_con (cid r) cs = Some r.
Proof.
  induction cs as [|x t IH]; cbn; [tauto|].
  intros ND [->|H]; [now rewrite N.eqb_refl|].
  inversion ND as [|? ? Hx ND']; subst.
  destruct (cid x =? cid r) eqn:E.
  - exfalso; apply Hx. assert (cid x = cid r) as -> by lia. now apply in_map.
  - auto.
Qed.

Lemma find_con_app c a b :
  find_con c (a ++ b) = match find_con c a with Some r => Some r | None => find_con c b end.
Proof. induction a as [|x t IH]; cbn; [reflexivity|]. destruct (cid x =? c); auto. Qed.

Lemma map_cid_upd c f cs : (forall r, cid (f r) = cid r) -> map cid (upd_con c f cs) = map cid cs.
Proof.
  intros Hf; induction cs as [|x t IH]; cbn; [reflexivity|].
  destruct (cid x =? c); cbn; [now rewrite Hf|now rewrite IH].
Qed.

Lemma find_upd_same c f cs r :
  (forall r, cid (f r) = cid r) -> find_con c cs = Some r -> find_con c (upd_con c f cs) = Some (f r).
Proof.
  intros Hf; induction cs as [|x t IH]; cbn; [discriminate|].
  destruct (cid x =? c) eqn:E; cbn.
  - intros H; inversion H; subst. rewrite Hf, E. reflexivity.
  - rewrite E; auto.
Qed.

Lemma find_upd_other c c' f cs :
  (forall r, cid (f r) = cid r) -> c' <> c -> find_con c' (upd_con c f cs) = find_con c' cs.
Proof.
  intros Hf Hne; induction cs as [|x t IH]; cbn; [reflexivity|].
  destruct (cid x =? c) eqn:E; cbn.
  - rewrite Hf. destruct (cid x =? c') eqn:E2; [lia|reflexivity].
  - destruct (cid x =? c'); auto.
Qed.

(** * funding rows *)
Fixpoint fsum (c : N) (fs : list frow) : N :=
  match fs with
  | [] => 0
  | f :: t => if fcon f =? c then famt f + fsum c t else fsum c t
  end.

Lemma fsum_app c a b : fsum c (a ++ b) = fsum c a + fsum c b.
Proof. induction a as [|x t IH]; cbn [fsum app]; [reflexivity|]. destruct (fcon x =? c); lia. Qed.

Lemma fsum_fund_add c' a c amt fs :
  fsum c' (fund_add a c amt fs) = fsum c' fs + (if c =? c' then amt else 0).
Proof.
  induction fs as [|x t IH]; cbn [fsum fund_add].
  - cbn. destruct (c =? c'); lia.
  - destruct ((facct x =? a) && (fcon x =? c)) eqn:E; cbn [fsum fcon famt].
    + assert (fcon x = c) by lia. subst c.
      destruct (fcon x =? c'); lia.
    + rewrite IH. destruct (fcon x =? c'); lia.
Qed.

Definition refs_ok (fs : list frow) (cs : list crow) : Prop :=
  forall f, In f fs -> find_con (fcon f) cs <> None.

Lemma fsum_unreferenced c fs cs : refs_ok fs cs -> find_con c cs = None -> fsum c fs = 0.
Proof.
  intros R H; induction fs as [|x t IH]; cbn [fsum]; [reflexivity|].
  destruct (fcon x =? c) eqn:E.
  - exfalso. assert (fcon x = c) by lia. apply (R x); [now left|congruence].
  - apply IH. intros f Hf; apply R; now right.
Qed.

Lemma refs_fund_add a c amt fs cs :
  refs_ok fs cs -> find_con c cs <> None -> refs_ok (fund_add a c amt fs) cs.
Proof.
  intros R Hc; induction fs as [|x t IH]; cbn.
  - intros f [<-|[]]; exact Hc.
  - destruct ((facct x =? a) && (fcon x =? c)) eqn:E.
    + intros f [<-|Hf]; [exact Hc|apply R; now right].
    + intros f [<-|Hf]; [apply R; now left|].
      apply IH; [|exact Hf]. intros g Hg; apply R; now right.
Qed.

(** * the invariant *)
Definition row_ok (fs : list frow) (r : crow) : Prop :=
  vh (crev r) = clocked r + usum (cuse r) /\ uFund (cuse r) = fsum (cid r) fs.

Definition Inv (s : state) : Prop :=
  NoDup (map cid (cons s)) /\
  (forall r, In r (cons s) -> row_ok (funds s) r) /\
  refs_ok (funds s) (cons s).

Lemma Inv_init : Inv init.
Proof. split; [constructor|split; [intros r []|intros f []]]. Qed.

(* insertContract *)
Lemma insert_con_inv s r s' :
  Inv s -> insert_con s r = Ok s' ->
  vh (crev r) = clocked r + usum (cuse r) -> uFund (cuse r) = 0 -> Inv s'.
Proof.
  intros (ND & RO & RF) H Hc Hf. unfold insert_con in H.
  destruct (find_con (cid r) (cons s)) eqn:F; [discriminate|]. inversion H; subst s'; clear H.
  split; [|split]; cbn.
  - rewrite map_app; cbn. apply NoDup_app_single; [exact ND|now apply find_con_none_notin].
  - intros x Hx. apply in_app_or in Hx. destruct Hx as [Hx|[<-|[]]].
    + exact (RO x Hx).
    + split; [exact Hc|]. rewrite Hf. symmetry. eapply fsum_unreferenced; eauto.
  - intros f Hf'. rewrite find_con_app. specialize (RF f Hf').
    destruct (find_con (fcon f) (cons s)); [discriminate|contradiction].
Qed.

Lemma In_upd_con c f cs r' :
  (forall r, cid (f r) = cid r) -> NoDup (map cid cs) -> In r' (upd_con c f cs) ->
  (In r' cs /\ cid r' <> c) \/ (exists x, find_con c cs = Some x /\ r' = f x).
Proof.
  intros Hf; induction cs as [|y t IH]; cbn; [tauto|].
  intros ND H. inversion ND as [|? ? Hy ND']; subst.
  destruct (cid y =? c) eqn:E; cbn in H.
  - destruct H as [<-|H]; [right; eauto|].
    left; split; [now right|]. intros Hc. apply Hy.
    assert (cid y = cid r') as -> by lia. now apply in_map.
  - destruct H as [<-|H]; [left; split; [now left|lia]|].
    destruct (IH ND' H) as [[H1 H2]|(x & H1 & H2)]; [left; split; [now right|exact H2]|right; eauto].
Qed.

(* one row is rewritten (same id) and the funding rows may change *)
Lemma upd_row_inv s c F accts' fs' x :
  Inv s -> find_con c (cons s) = Some x -> (forall r, cid (F r) = cid r) ->
  row_ok fs' (F x) ->
  (forall c', c' <> c -> fsum c' fs' = fsum c' (funds s)) ->
  refs_ok fs' (cons s) ->
  Inv (mkS (upd_con c F (cons s)) accts' fs').
Proof.
  intros (ND & RO & RF) Hx HF Hrow Hsum Hrefs. split; [|split]; cbn.
  - now rewrite map_cid_upd.
  - intros r' Hr'. destruct (In_upd_con c F (cons s) r' HF ND Hr') as [[H1 H2]|(y & H1 & H2)].
    + destruct (RO r' H1) as [A B]. split; [exact A|]. rewrite B. symmetry; now apply Hsum.
    + rewrite Hx in H1; inversion H1; subst; exact Hrow.
  - intros f Hf. destruct (N.eq_dec (fcon f) c) as [->|Hne].
    + erewrite find_upd_same; eauto; discriminate.
    + rewrite find_upd_other; auto.
Qed.

(* reviseContract / clearContract with a usage that carries no account funding *)
Lemma revise_con_inv s c r u s' x :
  Inv s -> revise_con s c r u = Ok s' -> find_con c (cons s) = Some x ->
  vh r = vh (crev x) + usum u -> uFund u = 0 -> Inv s'.
Proof.
  intros I H Hx Hv Hf. unfold revise_con in H. rewrite Hx in H. inversion H; subst s'; clear H.
  pose proof I as (ND & RO & RF).
  eapply upd_row_inv; eauto.
  - pose proof (find_con_In _ _ _ Hx) as Hin. destruct (RO x Hin) as [A B].
    split; cbn [crev clocked cuse cid].
    + rewrite usum_uadd. lia.
    + rewrite uFund_uadd. lia.
Qed.

(* CreditAccountWithContract *)
Lemma credit_store_inv s a c r cost amount s' x :
  Inv s -> credit_store s a c r cost amount = Ok s' -> find_con c (cons s) = Some x ->
  vh r = vh (crev x) + cost + amount -> Inv s'.
Proof.
  intros I H Hx Hv. unfold credit_store in H. bind_inv H. inversion H; subst s'; clear H.
  unfold revise_con in B; cbn [cons accts funds] in B. rewrite Hx in B. inversion B; subst x0; clear B.
  cbn [cons accts funds]. pose proof I as (ND & RO & RF).
  pose proof (find_con_cid _ _ _ Hx) as Hc.
  eapply upd_row_inv; eauto.
  - pose proof (find_con_In _ _ _ Hx) as Hin. destruct (RO x Hin) as [A B]. rewrite Hc in B.
    split; cbn [crev clocked cuse cid].
    + rewrite usum_uadd. unfold usum at 2; cbn. lia.
    + rewrite uFund_uadd, fsum_fund_add, Hc, N.eqb_refl. cbn. lia.
  - intros c' Hne. rewrite fsum_fund_add. destruct (c =? c') eqn:E; [lia|lia].
  - apply refs_fund_add; [exact RF|congruence].
Qed.

(** * account spending: distributeRHP3AccountUsage *)
Lemma take_spec u rem u' rem' m :
  take u rem = (u', rem', m) -> u = u' + m /\ rem = rem' + m.
Proof. unfold take. intros H; inversion H; subst. lia. Qed.

Lemma dist_row_spec u amt u' rem add :
  dist_row u amt = (u', rem, add) ->
  rem + usum add = amt /\ uFund add = 0 /\ uRisk add = 0 /\ atotal u' + usum add = atotal u.
Proof.
  unfold dist_row.
  destruct (take (aSto u) amt) as [[s1 r1] m1] eqn:T1.
  destruct (take (aIng u) r1) as [[s2 r2] m2] eqn:T2.
  destruct (take (aEgr u) r2) as [[s3 r3] m3] eqn:T3.
  destruct (take (aRR u) r3) as [[s4 r4] m4] eqn:T4.
  destruct (take (aRW u) r4) as [[s5 r5] m5] eqn:T5.
  destruct (take (aRpc u) r5) as [[s6 r6] m6] eqn:T6.
  apply take_spec in T1, T2, T3, T4, T5, T6.
  intros H; inversion H; subst; clear H. unfold usum, atotal; cbn. lia.
Qed.

Definition moved_rel (fs fs' : list frow) (cs cs' : list crow) : Prop :=
  map cid cs' = map cid cs /\
  forall c r, find_con c cs = Some r -> exists r', find_con c cs' = Some r' /\
     crev r' = crev r /\ clocked r' = clocked r /\ usum (cuse r') = usum (cuse r) /\
     uRisk (cuse r') = uRisk (cuse r) /\
     uFund (cuse r') + fsum c fs = uFund (cuse r) + fsum c fs'.

Lemma moved_rel_refl fs cs : moved_rel fs fs cs cs.
Proof. split; [reflexivity|]. intros c r H; exists r; repeat split; auto. Qed.

Lemma con_move_spec cs c spent add cs' :
  con_move cs c spent add = Ok cs' -> usum add = spent -> uFund add = 0 -> uRisk add = 0 ->
  map cid cs' = map cid cs /\
  forall c' r, find_con c' cs = Some r -> exists r', find_con c' cs' = Some r' /\
     crev r' = crev r /\ clocked r' = clocked r /\ usum (cuse r') = usum (cuse r) /\
     uRisk (cuse r') = uRisk (cuse r) /\
     uFund (cuse r') + (if c' =? c then spent else 0) = uFund (cuse r).
Proof.
  unfold con_move. destruct (find_con c cs) as [x|] eqn:F; [|discriminate].
  intros H Hs Hf Hk. bind_inv H. inversion H; subst cs'; clear H.
  set (F' := fun x0 : crow => mkC (cid x0) (crev x0) (clocked x0) _).
  assert (HF : forall r, cid (F' r) = cid r) by reflexivity.
  split; [now apply map_cid_upd|].
  intros c' r Hr. destruct (c' =? c) eqn:E.
  - assert (c' = c) by lia; subst c'. rewrite F in Hr; inversion Hr; subst r.
    exists (F' x). split; [now apply find_upd_same|].
    subst F'; cbn [crev clocked cuse]. repeat split.
    + rewrite usum_uadd. unfold usum in *; cbn. lia.
    + cbn. lia.
    + rewrite uFund_uadd; cbn. lia.
  - exists r. split; [rewrite find_upd_other; auto; lia|]. repeat split; lia.
Qed.

Lemma distribute_spec a fs : forall u cs fs' cs',
  distribute a u fs cs = Ok (fs', cs') ->
  moved_rel fs fs' cs cs' /\ (forall f', In f' fs' -> exists f, In f fs /\ fcon f' = fcon f).
Proof.
  induction fs as [|f t IH]; intros u cs fs' cs' H; cbn [distribute] in H.
  - inversion H; subst. split; [apply moved_rel_refl|intros ? []].
  - destruct ((facct f =? a) && negb (famt f =? 0)) eqn:E.
    + destruct (dist_row u (famt f)) as [[u' rem] add] eqn:D.
      apply dist_row_spec in D. destruct D as (D1 & D3 & D4 & D5).
      assert (D2 : usum add = famt f - rem) by lia.
      bind_inv H. destruct x0 as [t' cs2]. inversion H; subst fs' cs'; clear H.
      apply con_move_spec in B; auto. destruct B as [M1 M2].
      apply IH in B0. destruct B0 as [[R1 R2] R3].
      split; [split|].
      * congruence.
      * intros c r Hr. destruct (M2 c r Hr) as (r1 & F1 & A1 & A2 & A3 & A4 & A5).
        destruct (R2 c r1 F1) as (r2 & F2 & B1 & B2 & B3 & B4 & B5).
        exists r2. split; [exact F2|]. repeat split; try congruence.
        cbn [fsum]. destruct (rem =? 0) eqn:Z; cbn [fsum fcon famt];
          destruct (fcon f =? c) eqn:Ec; rewrite N.eqb_sym in Ec; rewrite Ec in A5; lia.
      * intros f' Hf'. destruct (rem =? 0).
        -- destruct (R3 f' Hf') as (g & G1 & G2). exists g; split; [now right|exact G2].
        -- destruct Hf' as [<-|Hf']; [exists f; split; [now left|reflexivity]|].
           destruct (R3 f' Hf') as (g & G1 & G2). exists g; split; [now right|exact G2].
    + bind_inv H. destruct x as [t' cs1]. inversion H; subst fs' cs'; clear H.
      apply IH in B. destruct B as [[R1 R2] R3].
      split; [split; [exact R1|]|].
      * intros c r Hr. destruct (R2 c r Hr) as (r2 & F2 & B1 & B2 & B3 & B4 & B5).
        exists r2. split; [exact F2|]. repeat split; auto.
        cbn [fsum]. destruct (fcon f =? c); lia.
      * intros f' [<-|Hf']; [exists f; split; [now left|reflexivity]|].
        destruct (R3 f' Hf') as (g & G1 & G2). exists g; split; [now right|exact G2].
Qed.

Lemma in_map_find_con c cs : In c (map cid cs) -> exists r, find_con c cs = Some r.
Proof.
  induction cs as [|x t IH]; cbn; [tauto|].
  destruct (cid x =? c) eqn:E; [eauto|].
  intros [H|H]; [lia|auto].
Qed.

Lemma moved_rel_inv s fs' cs' accts' :
  Inv s -> moved_rel (funds s) fs' (cons s) cs' ->
  (forall f', In f' fs' -> exists f, In f (funds s) /\ fcon f' = fcon f) ->
  Inv (mkS cs' accts' fs').
Proof.
  intros (ND & RO & RF) [M1 M2] P. split; [|split]; cbn.
  - now rewrite M1.
  - intros r' Hr'.
    assert (ND' : NoDup (map cid cs')) by now rewrite M1.
    destruct (in_map_find_con (cid r') (cons s)) as (r & Fr); [rewrite <- M1; now apply in_map|].
    destruct (M2 _ _ Fr) as (r2 & F2 & A1 & A2 & A3 & A4 & A5).
    rewrite (In_find_con cs' r' ND' Hr') in F2. inversion F2; subst r2.
    destruct (RO r (find_con_In _ _ _ Fr)) as [B1 B2].
    rewrite (find_con_cid _ _ _ Fr) in B2.
    split; [congruence|lia].
  - intros f' Hf'. destruct (P f' Hf') as (f & Hf & E). rewrite E.
    specialize (RF f Hf). destruct (find_con (fcon f) (cons s)) as [r|] eqn:Fr; [|contradiction].
    destruct (M2 _ _ Fr) as (r2 & F2 & _). congruence.
Qed.

(* DebitAccount *)
Lemma debit_store_inv s a u s' : Inv s -> debit_store s a u = Ok s' -> Inv s'.
Proof.
  intros I H. unfold debit_store in H.
  destruct (alookup a (accts s)) as [bal|]; [|discriminate].
  destruct (bal <? atotal u); [discriminate|].
  bind_inv H. destruct x as [fs cs]. inversion H; subst s'; clear H.
  apply distribute_spec in B. destruct B as [M P].
  eapply moved_rel_inv; eauto.
Qed.

(** * validation functions: what an accepted revision guarantees about the host's valid payout *)
Lemma lock_ok s c r : lock s c = Ok r -> find_con c (cons s) = Some r.
Proof.
  unfold lock. destruct (find_con c (cons s)) as [x|]; [|discriminate].
  destruct (rn (crev x) =? max64); [discriminate|]. intros H; inversion H; reflexivity.
Qed.

Lemma validate_revision_ok cur r pay coll paid burn :
  validate_revision cur r pay coll = Ok (paid, burn) ->
  vh r = vh cur + paid /\ pay <= paid /\ burn <= coll.
Proof.
  unfold validate_revision. intros H. bind_inv H. inversion H; subst; clear H. lia.
Qed.

Lemma validate_payment_ok cur r pay : validate_payment cur r pay = Ok tt -> vh r = vh cur + pay.
Proof. unfold validate_payment. intros H. bind_inv H. lia. Qed.

Lemma validate_clearing_ok cur final fp paid :
  validate_clearing cur final fp = Ok paid -> vh final = vh cur + paid /\ fp <= paid.
Proof. unfold validate_clearing. intros H. bind_inv H. inversion H; subst; clear H. lia. Qed.

Lemma validate_program_ok cur r sto coll burn :
  validate_program cur r sto coll = Ok burn -> vh r = vh cur.
Proof. unfold validate_program. intros H. bind_inv H. lia. Qed.

Lemma clearing_ok cur a b final : clearing cur a b = Ok final -> vh final = b.
Proof. unfold clearing. destruct (rn cur =? max64); [discriminate|]. intros H; inversion H; reflexivity. Qed.

Lemma insert_con_find s r s1 c x :
  insert_con s r = Ok s1 -> find_con c (cons s) = Some x -> find_con c (cons s1) = Some x.
Proof.
  unfold insert_con. destruct (find_con (cid r) (cons s)); [discriminate|].
  intros H F; inversion H; subst; cbn. rewrite find_con_app, F. reflexivity.
Qed.

(** * handlers *)
Lemma form2_inv s c price maxColl fc s' : Inv s -> form2 s c price maxColl fc = Ok s' -> Inv s'.
Proof.
  intros I H. unfold form2 in H. bind_inv H.
  eapply insert_con_inv; [exact I|exact H| |]; cbn; [unfold usum; cbn; lia|reflexivity].
Qed.

Lemma renew_store_inv s c final cu c' r' locked ru s' x :
  Inv s -> renew_store s c final cu c' r' locked ru = Ok s' ->
  find_con c (cons s) = Some x ->
  vh r' = locked + usum ru -> uFund ru = 0 ->
  vh final = vh (crev x) + usum cu -> uFund cu = 0 -> Inv s'.
Proof.
  intros I H Hx A1 A2 A3 A4. unfold renew_store in H. bind_inv H.
  eapply revise_con_inv; [| exact H | eapply insert_con_find; eauto | exact A3 | exact A4].
  eapply insert_con_inv; eauto.
Qed.

Lemma renew2_inv s c c' b p sp cp mc fs ex fr fh fc s' :
  Inv s -> renew2 s c c' b p sp cp mc fs ex fr fh fc = Ok s' -> Inv s'.
Proof.
  intros I H. unfold renew2 in H. bind_inv H.
  apply lock_ok in B. apply clearing_ok in B0. apply validate_clearing_ok in B1. destruct B1 as [V1 V2].
  eapply renew_store_inv; eauto; cbn; try reflexivity; unfold usum; cbn; lia.
Qed.

Lemma renew3_inv s c c' rc p w k mc fs ex fr fh fc s' :
  Inv s -> renew3 s c c' rc p w k mc fs ex fr fh fc = Ok s' -> Inv s'.
Proof.
  intros I H. unfold renew3 in H. bind_inv H.
  apply lock_ok in B. apply clearing_ok in B0. apply validate_clearing_ok in B1. destruct B1 as [V1 V2].
  eapply renew_store_inv; eauto; cbn; try reflexivity; unfold usum; cbn; lia.
Qed.

Lemma pay2_inv s c cost p ts s' : Inv s -> pay2 s c cost p ts = Ok s' -> Inv s'.
Proof.
  intros I H. unfold pay2 in H. bind_inv H. destruct x1 as [paid burn].
  apply lock_ok in B. apply validate_revision_ok in B1. destruct B1 as (V1 & V2 & V3).
  eapply revise_con_inv; [exact I|exact H|exact B| |].
  - rewrite V1. f_equal. unfold rctotal in *.
    destruct (rcBase cost + rcSto cost + rcIng cost + rcEgr cost <=? paid) eqn:E; [|lia].
    destruct ts; unfold usum, usage_of_cost; cbn; lia.
  - destruct ts; reflexivity.
Qed.

Lemma fund3_inv s c a fcst mb p s' : Inv s -> fund3 s c a fcst mb p = Ok s' -> Inv s'.
Proof.
  intros I H. unfold fund3 in H. bind_inv H. destruct x1.
  apply lock_ok in B. apply validate_payment_ok in B1.
  eapply credit_store_inv; eauto. lia.
Qed.

Lemma process_payment_inv s pay s1 a max :
  Inv s -> process_payment s pay = Ok (s1, a, max) -> Inv s1.
Proof.
  intros I H. destruct pay as [c refund p|a' amount]; cbn [process_payment] in H.
  - bind_inv H. destruct x1. inversion H; subst; clear H.
    apply lock_ok in B. apply validate_payment_ok in B1.
    eapply credit_store_inv; eauto. lia.
  - bind_inv H. destruct (balance s a' <? amount); [discriminate|]. inversion H; subst; exact I.
Qed.

Lemma of_res_inv s r : Inv s -> (forall s', r = Ok s' -> Inv s') -> Inv (fst (of_res s r)).
Proof. intros I H. destruct r; cbn; auto. Qed.

Lemma simple3_inv s pay cost : Inv s -> Inv (fst (simple3 s pay cost)).
Proof.
  intros I. unfold simple3.
  destruct (process_payment s pay) as [[[s1 a] max]| |] eqn:P; cbn; auto.
  pose proof (process_payment_inv _ _ _ _ _ I P) as I1.
  destruct (spend max a0 (mkA cost 0 0 0 0 0)) as [u1|]; cbn; auto.
  destruct (debit_store s1 a u1) eqn:D; cbn; auto.
  eapply debit_store_inv; eauto.
Qed.

Lemma exec3_inv s pay pc ic prog fin : Inv s -> Inv (fst (exec3 s pay pc ic prog fin)).
Proof.
  intros I. unfold exec3.
  destruct (process_payment s pay) as [[[s1 a] max]| |] eqn:P; cbn; auto.
  pose proof (process_payment_inv _ _ _ _ _ I P) as I1.
  destruct (spend max a0 (mkA ic 0 0 0 0 0)) as [u0'|]; cbn; auto.
  match goal with |- context [match ?L with Ok _ => _ | Err _ => _ | Panic => _ end] => destruct L as [orow| |] eqn:LK end; cbn; auto.
  destruct (run_prog max rc0 u0' prog) as [[cost u] failed].
  destruct failed.
  - destruct (debit_store s1 a _) eqn:D; cbn; auto. eapply debit_store_inv; eauto.
  - match goal with |- context [match ?L with Ok _ => _ | Err _ => _ | Panic => _ end] => destruct L as [s2| |] eqn:FR end; cbn; auto.
    assert (I2 : Inv s2).
    { destruct (existsb ifin prog); [|inversion FR; subst; exact I1].
      destruct orow as [r|]; [|discriminate].
      bind_inv FR.
      (* the row was read under the lock of the state after the payment *)
      assert (Fr : find_con (cid r) (cons s1) = Some r).
      { destruct (existsb (fun i : instr => icon i || ifin i) prog); [|discriminate].
        destruct pc as [c|]; [|discriminate]. bind_inv LK. inversion LK; subst.
        apply lock_ok in B1. now rewrite (find_con_cid _ _ _ B1). }
      apply validate_program_ok in B0.
      eapply revise_con_inv; eauto. cbn. unfold usum; cbn. lia. }
    destruct (debit_store s2 a u) eqn:D; cbn; auto. eapply debit_store_inv; eauto.
Qed.

Lemma step_out_inv s o : Inv s -> Inv (fst (step_out s o)).
Proof.
  intros I. destruct o; cbn [step_out].
  - apply of_res_inv; auto. intros; eapply form2_inv; eauto.
  - apply of_res_inv; auto. intros; eapply renew2_inv; eauto.
  - apply of_res_inv; auto. intros; eapply pay2_inv; eauto.
  - apply of_res_inv; auto. intros; eapply pay2_inv; eauto.
  - apply of_res_inv; auto. intros; eapply pay2_inv; eauto.
  - apply of_res_inv; auto. intros; eapply fund3_inv; eauto.
  - now apply simple3_inv.
  - now apply exec3_inv.
  - apply of_res_inv; auto. intros; eapply renew3_inv; eauto.
Qed.

Definition runs (s : state) (l : list op) : state := fold_left (fun s o => fst (step s o)) l s.

Lemma step_fst s o : fst (step s o) = fst (step_out s o).
Proof. unfold step. destruct (step_out s o); reflexivity. Qed.

Lemma runs_inv l : forall s, Inv s -> Inv (runs s l).
Proof.
  induction l as [|o t IH]; intros s I; [exact I|].
  cbn. apply IH. rewrite step_fst. now apply step_out_inv.
Qed.

(* C10, v1: after any sequence of RPCs, for every contract the valid host payout of the latest
   signed revision is the locked collateral plus the recorded usage categories *)
Lemma v1_conservation l r :
  In r (cons (runs init l)) ->
  vh (crev r) = clocked r + (uRpc (cuse r) + uSto (cuse r) + uIng (cuse r) + uEgr (cuse r) +
                            uRR (cuse r) + uRW (cuse r) + uFund (cuse r)).
Proof.
  intros H. destruct (runs_inv l init Inv_init) as (_ & RO & _). exact (proj1 (RO r H)).
Qed.

(* the unspent account funding of a contract is what its funding rows still hold *)
Lemma v1_funding_backed l r :
  In r (cons (runs init l)) -> uFund (cuse r) = fsum (cid r) (funds (runs init l)).
Proof.
  intros H. destruct (runs_inv l init Inv_init) as (_ & RO & _). exact (proj2 (RO r H)).
Qed.

(** * per-RPC exactness: the locked collateral of a contract is fixed when it is formed *)
Definition keeps (s s' : state) : Prop :=
  forall c r, find_con c (cons s) = Some r ->
    exists r', find_con c (cons s') = Some r' /\ clocked r' = clocked r.

Lemma keeps_refl s : keeps s s.
Proof. intros c r H; eauto. Qed.
Lemma keeps_trans a b c : keeps a b -> keeps b c -> keeps a c.
Proof.
  intros H1 H2 k r F. destruct (H1 _ _ F) as (r1 & F1 & E1). destruct (H2 _ _ F1) as (r2 & F2 & E2).
  exists r2; split; [exact F2|congruence].
Qed.

Lemma insert_con_keeps s r s' : insert_con s r = Ok s' -> keeps s s'.
Proof. intros H c x F. exists x; split; [eapply insert_con_find; eauto|reflexivity]. Qed.

Lemma upd_keeps s c F accts' fs' :
  (forall r, cid (F r) = cid r) -> (forall r, clocked (F r) = clocked r) ->
  keeps s (mkS (upd_con c F (cons s)) accts' fs').
Proof.
  intros H1 H2 k r Fk. cbn [cons]. destruct (N.eq_dec k c) as [->|Hne].
  - exists (F r). split; [now apply find_upd_same|apply H2].
  - exists r. split; [rewrite find_upd_other; auto|reflexivity].
Qed.

Lemma revise_con_keeps s c r u s' : revise_con s c r u = Ok s' -> keeps s s'.
Proof.
  unfold revise_con. destruct (find_con c (cons s)); [|discriminate].
  intros H; inversion H; subst. now apply upd_keeps.
Qed.

Lemma credit_store_keeps s a c r cost amount s' : credit_store s a c r cost amount = Ok s' -> keeps s s'.
Proof.
  unfold credit_store. intros H. bind_inv H. inversion H; subst s'; clear H.
  apply revise_con_keeps in B. intros k y F. destruct (B k y F) as (y' & F' & E). exists y'; auto.
Qed.

Lemma debit_store_keeps s a u s' : debit_store s a u = Ok s' -> keeps s s'.
Proof.
  unfold debit_store. destruct (alookup a (accts s)) as [bal|]; [|discriminate].
  destruct (bal <? atotal u); [discriminate|]. intros H. bind_inv H. destruct x as [fs cs].
  inversion H; subst s'; clear H. apply distribute_spec in B. destruct B as [[M1 M2] _].
  intros k r F. destruct (M2 _ _ F) as (r' & F' & _ & E & _). exists r'; auto.
Qed.

Lemma process_payment_keeps s pay s1 a max : process_payment s pay = Ok (s1, a, max) -> keeps s s1.
Proof.
  destruct pay as [c refund p|a' amount]; cbn [process_payment]; intros H.
  - bind_inv H. destruct x1. inversion H; subst; clear H. eapply credit_store_keeps; eauto.
  - bind_inv H. destruct (balance s a' <? amount); [discriminate|]. inversion H; subst. apply keeps_refl.
Qed.

Lemma renew_store_keeps s c final cu c' r' locked ru s' :
  renew_store s c final cu c' r' locked ru = Ok s' -> keeps s s'.
Proof.
  unfold renew_store. intros H. bind_inv H.
  eapply keeps_trans; [eapply insert_con_keeps; eauto|eapply revise_con_keeps; eauto].
Qed.

Lemma of_res_keeps s r : (forall s', r = Ok s' -> keeps s s') -> keeps s (fst (of_res s r)).
Proof. intros H. destruct r; cbn; auto using keeps_refl. Qed.

Lemma step_out_keeps s o : keeps s (fst (step_out s o)).
Proof.
  destruct o; cbn [step_out].
  - apply of_res_keeps. intros s' H. unfold form2 in H. bind_inv H. eapply insert_con_keeps; eauto.
  - apply of_res_keeps. intros s' H. unfold renew2 in H. bind_inv H. eapply renew_store_keeps; eauto.
  - apply of_res_keeps. intros s' H. unfold pay2 in H. bind_inv H. destruct x1. eapply revise_con_keeps; eauto.
  - apply of_res_keeps. intros s' H. unfold pay2 in H. bind_inv H. destruct x1. eapply revise_con_keeps; eauto.
  - apply of_res_keeps. intros s' H. unfold pay2 in H. bind_inv H. destruct x1. eapply revise_con_keeps; eauto.
  - apply of_res_keeps. intros s' H. unfold fund3 in H. bind_inv H. destruct x1. eapply credit_store_keeps; eauto.
  - unfold simple3.
    destruct (process_payment s pay) as [[[s1 a] max]| |] eqn:P; cbn; try apply keeps_refl.
    pose proof (process_payment_keeps _ _ _ _ _ P) as K1.
    destruct (spend max a0 (mkA cost 0 0 0 0 0)) as [u1|]; cbn; auto.
    destruct (debit_store s1 a u1) eqn:D; cbn; auto.
    eapply keeps_trans; [exact K1|eapply debit_store_keeps; eauto].
  - unfold exec3.
    destruct (process_payment s pay) as [[[s1 a] max]| |] eqn:P; cbn; try apply keeps_refl.
    pose proof (process_payment_keeps _ _ _ _ _ P) as K1.
    destruct (spend max a0 (mkA initCost 0 0 0 0 0)) as [u0'|]; cbn; auto.
    match goal with |- context [match ?L with Ok _ => _ | Err _ => _ | Panic => _ end] => destruct L as [orow| |] eqn:LK end; cbn; auto.
    destruct (run_prog max rc0 u0' prog) as [[cost u] failed].
    destruct failed.
    + destruct (debit_store s1 a _) eqn:D; cbn; auto.
      eapply keeps_trans; [exact K1|eapply debit_store_keeps; eauto].
    + match goal with |- context [match ?L with Ok _ => _ | Err _ => _ | Panic => _ end] => destruct L as [s2| |] eqn:FR end; cbn; auto.
      assert (K2 : keeps s1 s2).
      { destruct (existsb ifin prog); [|inversion FR; subst; apply keeps_refl].
        destruct orow as [r|]; [|discriminate]. bind_inv FR. eapply revise_con_keeps; eauto. }
      destruct (debit_store s2 a u) eqn:D; cbn.
      * eapply keeps_trans; [exact K1|eapply keeps_trans; [exact K2|eapply debit_store_keeps; eauto]].
      * eapply keeps_trans; eauto.
      * eapply keeps_trans; eauto.
  - apply of_res_keeps. intros s' H. unfold renew3 in H. bind_inv H. eapply renew_store_keeps; eauto.
Qed.

(* Every RPC, accepted or refused, with any renter-chosen values: a contract that exists before
   it still exists after it with the same locked collateral, and its valid host payout moved by
   exactly what its recorded usage moved — nothing the renter paid is dropped or booked twice. *)
Lemma v1_rpc_exact l o c r :
  find_con c (cons (runs init l)) = Some r ->
  exists r', find_con c (cons (fst (step (runs init l) o))) = Some r' /\
    clocked r' = clocked r /\
    vh (crev r') + usum (cuse r) = vh (crev r) + usum (cuse r').
Proof.
  intros F. pose proof (runs_inv l init Inv_init) as I.
  pose proof (step_out_inv _ o I) as I'. rewrite step_fst.
  destruct (step_out_keeps (runs init l) o c r F) as (r' & F' & E).
  exists r'. split; [exact F'|split; [exact E|]].
  destruct I as (_ & RO & _). destruct I' as (_ & RO' & _).
  destruct (RO r (find_con_In _ _ _ F)) as [A _]. destruct (RO' r' (find_con_In _ _ _ F')) as [A' _]. lia.
Qed.

(* account spending only moves value between the categories of the contracts that funded the
   account: revision, locked collateral, Σ usage and risked collateral of every contract stay *)
Lemma v1_debit_moves s a u s' c r :
  debit_store s a u = Ok s' -> find_con c (cons s) = Some r ->
  exists r', find_con c (cons s') = Some r' /\ crev r' = crev r /\ clocked r' = clocked r /\
    usum (cuse r') = usum (cuse r) /\ uRisk (cuse r') = uRisk (cuse r).
Proof.
  unfold debit_store. destruct (alookup a (accts s)) as [bal|]; [|discriminate].
  destruct (bal <? atotal u); [discriminate|]. intros H F. bind_inv H. destruct x as [fs cs].
  inversion H; subst s'; clear H. apply distribute_spec in B. destruct B as [[M1 M2] _].
  destruct (M2 _ _ F) as (r' & F' & E1 & E2 & E3 & E4 & E5). exists r'. cbn [cons].
  repeat split; auto.
Qed.

(** * a concrete history (non-vacuity) *)
Fixpoint tr_v1 (s : state) (l : list op) : list (op * obs) :=
  match l with
  | [] => []
  | o :: t => let '(s', m) := step s o in (o, m) :: tr_v1 s' t
  end.

Definition demo_v1 : list op :=
  [ Form2 1 100 1000000 (mkFC 10000 600 10000 600 0);
    (* write costing 60, the renter pays 100; the host burns 40 of its collateral *)
    Write2 1 (mkRC 10 20 30 0 40) (mkProp 2 9900 700 9900 560 140);
    Fund3 1 1 1 1000000 (mkProp 3 9399 1201 9399 1061 140);
    (* a ReadRegistry program paid by contract (50, of which 30 are spent; refund account 2) *)
    Exec3 (PayContract 1 2 (mkProp 4 9349 1251 9349 1111 140)) None 5
          [mkI KRegRead (mkRC 10 7 3 5 0) true true false false] (mkProp 0 0 0 0 0 0);
    (* a program paid by account whose instruction fails after it was paid for: storage refunded *)
    Exec3 (PayAccount 1 100) None 5 [mkI KPlain (mkRC 10 20 0 0 0) true false false false] (mkProp 0 0 0 0 0 0);
    Renew3 1 2 8 100 0 0 1000000 0 0 9349 1251 (mkFC 5000 408 5000 408 0) ].

(** * account spending never panics on a reachable state *)
Definition covered (fs : list frow) (cs : list crow) : Prop :=
  forall c r, find_con c cs = Some r -> fsum c fs <= uFund (cuse r).

Lemma distribute_total a fs : forall u cs,
  covered fs cs -> refs_ok fs cs -> exists fs' cs', distribute a u fs cs = Ok (fs', cs').
Proof.
  induction fs as [|f t IH]; intros u cs Cv Rf; cbn [distribute]; [eauto|].
  assert (Cv' : forall cs1, (forall c r1, find_con c cs1 = Some r1 -> exists r, find_con c cs = Some r /\
                 (uFund (cuse r1) = uFund (cuse r) \/ (c = fcon f /\ uFund (cuse r) <= uFund (cuse r1) + famt f))) ->
               covered t cs1).
  { intros cs1 H c r1 F1. destruct (H _ _ F1) as (r & F & D). specialize (Cv _ _ F). cbn [fsum] in Cv.
    destruct D as [D|[-> D]]; [destruct (fcon f =? c); lia|rewrite N.eqb_refl in Cv; lia]. }
  destruct ((facct f =? a) && negb (famt f =? 0)) eqn:E.
  - destruct (dist_row u (famt f)) as [[u' rem] add] eqn:D.
    pose proof (dist_row_spec _ _ _ _ _ D) as (D1 & D3 & D4 & D5).
    destruct (find_con (fcon f) cs) as [x|] eqn:Fx; [|exfalso; apply (Rf f); [now left|exact Fx]].
    pose proof (Cv _ _ Fx) as Cx. cbn [fsum] in Cx. rewrite N.eqb_refl in Cx.
    unfold con_move at 1. rewrite Fx. unfold csub.
    destruct (famt f - rem <=? uFund (cuse x)) eqn:L; [|lia]. cbn [bind].
    match goal with |- context [distribute a u' t ?CS] => set (cs1 := CS) end.
    assert (M : con_move cs (fcon f) (famt f - rem) add = Ok cs1).
    { unfold con_move. rewrite Fx. unfold csub. rewrite L. reflexivity. }
    apply con_move_spec in M; [|lia|auto|auto]. destruct M as [M1 M2].
    destruct (IH u' cs1) as (t' & cs2 & R).
    + apply Cv'. intros c r1 F1.
      destruct (in_map_find_con c cs) as (r & F); [rewrite <- M1; rewrite <- (find_con_cid _ _ _ F1); apply in_map; eapply find_con_In; eauto|].
      destruct (M2 _ _ F) as (r1' & F1' & _ & _ & _ & _ & G). rewrite F1 in F1'. inversion F1'; subst r1'.
      exists r. split; [exact F|]. destruct (c =? fcon f) eqn:Ec; [right; split; lia|left; lia].
    + intros g Hg. specialize (Rf g (or_intror Hg)).
      destruct (find_con (fcon g) cs) as [y|] eqn:Fy; [|contradiction].
      destruct (M2 _ _ Fy) as (y' & Fy' & _). congruence.
    + rewrite R. cbn. eauto.
  - destruct (IH u cs) as (t' & cs1 & R).
    + apply Cv'. intros c r1 F1. exists r1; split; [exact F1|left; reflexivity].
    + intros g Hg. apply Rf. now right.
    + rewrite R. cbn. eauto.
Qed.

Lemma v1_debit_total l a u : is_panic (debit_store (runs init l) a u) = false.
Proof.
  destruct (runs_inv l init Inv_init) as (ND & RO & RF).
  unfold debit_store. destruct (alookup a (accts (runs init l))) as [bal|]; [|reflexivity].
  destruct (bal <? atotal u); [reflexivity|].
  destruct (distribute_total a (funds (runs init l)) u (cons (runs init l))) as (fs & cs & R).
  - intros c r F. destruct (RO r (find_con_In _ _ _ F)) as [_ B]. rewrite (find_con_cid _ _ _ F) in B. lia.
  - exact RF.
  - rewrite R. reflexivity.
Qed.
