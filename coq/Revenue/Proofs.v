(* Revenue/Proofs.v — lemmas behind the v1 half of Props_C10.v: the conservation invariant
   valid_host_payout = locked_collateral + Σ usage categories, and the backing of the unspent
   account funding by the funding rows, for every sequence of RHP2/RHP3 RPCs. *)
From Coq Require Import Lia ZifyBool ZifyN ZifyNat.
From HostdBase Require Import Base.
From HostdRevenue Require Import Model.
Open Scope N_scope.

(** * monad inversion *)
Lemma bind_ok A B (r : res A) (f : A -> res B) b :
  bind r f = Ok b -> exists a, r = Ok a /\ f a = Ok b.
Proof. destruct r; cbn; intros H; try discriminate; eauto. Qed.

Lemma eguard_ok b u : eguard b = Ok u -> b = true.
Proof. destruct b; cbn; intros H; [reflexivity|discriminate]. Qed.

Lemma csub_ok a b c : csub a b = Ok c -> b <= a /\ c = a - b.
Proof. unfold csub; destruct (b <=? a) eqn:E; intros H; inversion H; split; [lia|reflexivity]. Qed.

Ltac bind_inv H :=
  match type of H with
  | bind (eguard _) _ = Ok _ =>
      let x := fresh "u" in let H1 := fresh "G" in
      apply bind_ok in H; destruct H as (x & H1 & H); apply eguard_ok in H1; bind_inv H
  | bind (csub _ _) _ = Ok _ =>
      let x := fresh "d" in let H1 := fresh "S" in
      apply bind_ok in H; destruct H as (x & H1 & H); apply csub_ok in H1; destruct H1 as [? H1]; bind_inv H
  | bind _ _ = Ok _ =>
      let x := fresh "x" in let H1 := fresh "B" in
      apply bind_ok in H; destruct H as (x & H1 & H); bind_inv H
  | eguard _ = Ok _ => apply eguard_ok in H
  | _ => idtac
  end.

Lemma NoDup_app_single A (l : list A) x : NoDup l -> ~ In x l -> NoDup (l ++ [x]).
Proof.
  induction l as [|y t IH]; cbn; intros ND Hx.
  - constructor; [tauto|constructor].
  - inversion ND; subst. constructor.
    + intros H. apply in_app_or in H. destruct H as [H|[H|[]]]; [contradiction|subst; tauto].
    + apply IH; tauto.
Qed.

(** * usage arithmetic *)
Lemma usum_uadd a b : usum (uadd a b) = usum a + usum b.
Proof. unfold usum, uadd; cbn; lia. Qed.
Lemma uFund_uadd a b : uFund (uadd a b) = uFund a + uFund b.
Proof. reflexivity. Qed.

(** * contract lists *)
Lemma find_con_cid c cs r : find_con c cs = Some r -> cid r = c.
Proof.
  induction cs as [|x t IH]; cbn; [discriminate|].
  destruct (cid x =? c) eqn:E; intros H; [inversion H; subst; lia|auto].
Qed.

Lemma find_con_In c cs r : find_con c cs = Some r -> In r cs.
Proof.
  induction cs as [|x t IH]; cbn; [discriminate|].
  destruct (cid x =? c); intros H; [inversion H; auto|auto].
Qed.

Lemma find_con_none_notin c cs : find_con c cs = None -> ~ In c (map cid cs).
Proof.
  induction cs as [|x t IH]; cbn; [tauto|].
  destruct (cid x =? c) eqn:E; [discriminate|].
  intros H [H1|H1]; [lia|exact (IH H H1)].
Qed.

Lemma In_find_con cs r : NoDup (map cid cs) -> In r cs -> find_con (cid r) cs = Some r.
Proof.
  induction cs as [|x t IH]; cbn; [tauto|].
  intros ND [->|H]; [now rewrite N.eqb_refl|].
  inversion ND as [|? ? Hx ND']; subst.
  destruct (cid x =? cid r) eqn:E.
  - exfalso; apply Hx. assert (cid x = cid r) as -> by lia. now apply in_map.
  - auto.
Qed.

Lemma find_con_app c a b :
  find_con c (a ++ b) = match find_con c a with Some r => Some r | None => find_con c b end.
Proof. induction a as [|x t IH]; cbn; [reflexivity|]. destruct (cid x =? c); auto. Qed.

Lemma map_cid_upd c f cs : (forall r, cid (f r) = cid r) -> map cid (upd_con c f cs) = map cid cs.
Proof.
  intros Hf; induction cs as [|x t IH]; cbn; [reflexivity|].
  destruct (cid x =? c); cbn; [now rewrite Hf|now rewrite IH].
Qed.

Lemma find_upd_same c f cs r :
  (forall r, cid (f r) = cid r) -> find_con c cs = Some r -> find_con c (upd_con c f cs) = Some (f r).
Proof.
  intros Hf; induction cs as [|x t IH]; cbn; [discriminate|].
  destruct (cid x =? c) eqn:E; cbn.
  - intros H; inversion H; subst. rewrite Hf, E. reflexivity.
  - rewrite E; auto.
Qed.

Lemma find_upd_other c c' f cs :
  (forall r, cid (f r) = cid r) -> c' <> c -> find_con c' (upd_con c f cs) = find_con c' cs.
Proof.
  intros Hf Hne; induction cs as [|x t IH]; cbn; [reflexivity|].
  destruct (cid x =? c) eqn:E; cbn.
  - rewrite Hf. destruct (cid x =? c') eqn:E2; [lia|reflexivity].
  - destruct (cid x =? c'); auto.
Qed.

(** * funding rows *)
Fixpoint fsum (c : N) (fs : list frow) : N :=
  match fs with
  | [] => 0
  | f :: t => if fcon f =? c then famt f + fsum c t else fsum c t
  end.

Lemma fsum_app c a b : fsum c (a ++ b) = fsum c a + fsum c b.
Proof. induction a as [|x t IH]; cbn [fsum app]; [reflexivity|]. destruct (fcon x =? c); lia. Qed.

Lemma fsum_fund_add c' a c amt fs :
  fsum c' (fund_add a c amt fs) = fsum c' fs + (if c =? c' then amt else 0).
Proof.
  induction fs as [|x t IH]; cbn [fsum fund_add].
  - cbn. destruct (c =? c'); lia.
  - destruct ((facct x =? a) && (fcon x =? c)) eqn:E; cbn [fsum fcon famt].
    + assert (fcon x = c) by lia. subst c.
      destruct (fcon x =? c'); lia.
    + rewrite IH. destruct (fcon x =? c'); lia.
Qed.

Definition refs_ok (fs : list frow) (cs : list crow) : Prop :=
  forall f, In f fs -> find_con (fcon f) cs <> None.

Lemma fsum_unreferenced c fs cs : refs_ok fs cs -> find_con c cs = None -> fsum c fs = 0.
Proof.
  intros R H; induction fs as [|x t IH]; cbn [fsum]; [reflexivity|].
  destruct (fcon x =? c) eqn:E.
  - exfalso. assert (fcon x = c) by lia. apply (R x); [now left|congruence].
  - apply IH. intros f Hf; apply R; now right.
Qed.

Lemma refs_fund_add a c amt fs cs :
  refs_ok fs cs -> find_con c cs <> None -> refs_ok (fund_add a c amt fs) cs.
Proof.
  intros R Hc; induction fs as [|x t IH]; cbn.
  - intros f [<-|[]]; exact Hc.
  - destruct ((facct x =? a) && (fcon x =? c)) eqn:E.
    + intros f [<-|Hf]; [exact Hc|apply R; now right].
    + intros f [<-|Hf]; [apply R; now left|].
      apply IH; [|exact Hf]. intros g Hg; apply R; now right.
Qed.

(** * the invariant *)
Definition row_ok (fs : list frow) (r : crow) : Prop :=
  vh (crev r) = clocked r + usum (cuse r) /\ uFund (cuse r) = fsum (cid r) fs.

Definition Inv (s : state) : Prop :=
  NoDup (map cid (cons s)) /\
  (forall r, In r (cons s) -> row_ok (funds s) r) /\
  refs_ok (funds s) (cons s).

Lemma Inv_init : Inv init.
Proof. split; [constructor|split; [intros r []|intros f []]]. Qed.

(* insertContract *)
Lemma insert_con_inv s r s' :
  Inv s -> insert_con s r = Ok s' ->
  vh (crev r) = clocked r + usum (cuse r) -> uFund (cuse r) = 0 -> Inv s'.
Proof.
  intros (ND & RO & RF) H Hc Hf. unfold insert_con in H.
  destruct (find_con (cid r) (cons s)) eqn:F; [discriminate|]. inversion H; subst s'; clear H.
  split; [|split]; cbn.
  - rewrite map_app; cbn. apply NoDup_app_single; [exact ND|now apply find_con_none_notin].
  - intros x Hx. apply in_app_or in Hx. destruct Hx as [Hx|[<-|[]]].
    + exact (RO x Hx).
    + split; [exact Hc|]. rewrite Hf. symmetry. eapply fsum_unreferenced; eauto.
  - intros f Hf'. rewrite find_con_app. specialize (RF f Hf').
    destruct (find_con (fcon f) (cons s)); [discriminate|contradiction].
Qed.

Lemma In_upd_con c f cs r' :
  (forall r, cid (f r) = cid r) -> NoDup (map cid cs) -> In r' (upd_con c f cs) ->
  (In r' cs /\ cid r' <> c) \/ (exists x, find_con c cs = Some x /\ r' = f x).
Proof.
  intros Hf; induction cs as [|y t IH]; cbn; [tauto|].
  intros ND H. inversion ND as [|? ? Hy ND']; subst.
  destruct (cid y =? c) eqn:E; cbn in H.
  - destruct H as [<-|H]; [right; eauto|].
    left; split; [now right|]. intros Hc. apply Hy.
    assert (cid y = cid r') as -> by lia. now apply in_map.
  - destruct H as [<-|H]; [left; split; [now left|lia]|].
    destruct (IH ND' H) as [[H1 H2]|(x & H1 & H2)]; [left; split; [now right|exact H2]|right; eauto].
Qed.

(* one row is rewritten (same id) and the funding rows may change *)
Lemma upd_row_inv s c F accts' fs' x :
  Inv s -> find_con c (cons s) = Some x -> (forall r, cid (F r) = cid r) ->
  row_ok fs' (F x) ->
  (forall c', c' <> c -> fsum c' fs' = fsum c' (funds s)) ->
  refs_ok fs' (cons s) ->
  Inv (mkS (upd_con c F (cons s)) accts' fs').
Proof.
  intros (ND & RO & RF) Hx HF Hrow Hsum Hrefs. split; [|split]; cbn.
  - now rewrite map_cid_upd.
  - intros r' Hr'. destruct (In_upd_con c F (cons s) r' HF ND Hr') as [[H1 H2]|(y & H1 & H2)].
    + destruct (RO r' H1) as [A B]. split; [exact A|]. rewrite B. symmetry; now apply Hsum.
    + rewrite Hx in H1; inversion H1; subst; exact Hrow.
  - intros f Hf. destruct (N.eq_dec (fcon f) c) as [->|Hne].
    + erewrite find_upd_same; eauto; discriminate.
    + rewrite find_upd_other; auto.
Qed.

(* reviseContract / clearContract with a usage that carries no account funding *)
Lemma revise_con_inv s c r u s' x :
  Inv s -> revise_con s c r u = Ok s' -> find_con c (cons s) = Some x ->
  vh r = vh (crev x) + usum u -> uFund u = 0 -> Inv s'.
Proof.
  intros I H Hx Hv Hf. unfold revise_con in H. rewrite Hx in H. inversion H; subst s'; clear H.
  pose proof I as (ND & RO & RF).
  eapply upd_row_inv; eauto.
  - pose proof (find_con_In _ _ _ Hx) as Hin. destruct (RO x Hin) as [A B].
    split; cbn [crev clocked cuse cid].
    + rewrite usum_uadd. lia.
    + rewrite uFund_uadd. lia.
Qed.

(* CreditAccountWithContract *)
Lemma credit_store_inv s a c r cost amount s' x :
  Inv s -> credit_store s a c r cost amount = Ok s' -> find_con c (cons s) = Some x ->
  vh r = vh (crev x) + cost + amount -> Inv s'.
Proof.
  intros I H Hx Hv. unfold credit_store in H. bind_inv H. inversion H; subst s'; clear H.
  unfold revise_con in B; cbn [cons accts funds] in B. rewrite Hx in B. inversion B; subst x0; clear B.
  cbn [cons accts funds]. pose proof I as (ND & RO & RF).
  pose proof (find_con_cid _ _ _ Hx) as Hc.
  eapply upd_row_inv; eauto.
  - pose proof (find_con_In _ _ _ Hx) as Hin. destruct (RO x Hin) as [A B].
    split; cbn [crev clocked cuse cid].
    + rewrite usum_uadd. unfold usum at 2; cbn. lia.
    + rewrite uFund_uadd, fsum_fund_add, Hc, N.eqb_refl. cbn. lia.
  - intros c' Hne. rewrite fsum_fund_add. destruct (c =? c') eqn:E; [lia|lia].
  - apply refs_fund_add; [exact RF|congruence].
Qed.
