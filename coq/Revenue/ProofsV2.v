(* Revenue/ProofsV2.v — lemmas behind the v2 half of Props_C10.v *)
From Coq Require Import Lia ZifyBool ZifyN ZifyNat.
From HostdBase Require Import Base.
From HostdRevenue Require Import Model ModelV2 Proofs.
Open Scope N_scope.

Lemma rcost2_vadd a b : rcost2 (vadd a b) = rcost2 a + rcost2 b.
Proof. unfold rcost2, vadd; cbn; lia. Qed.

(** * contract lists (same lemmas as for v1 rows) *)
Lemma find2_cid c cs r : find2 c cs = Some r -> cid2 r = c.
Proof.
  induction cs as [|x t IH]; cbn; [discriminate|].
  destruct (cid2 x =? c) eqn:E; intros H; [inversion H; subst; lia|auto].
Qed.
Lemma find2_In c cs r : find2 c cs = Some r -> In r cs.
Proof.
  induction cs as [|x t IH]; cbn; [discriminate|].
  destruct (cid2 x =? c); intros H; [inversion H; auto|auto].
Qed.
Lemma find2_none_notin c cs : find2 c cs = None -> ~ In c (map cid2 cs).
Proof.
  induction cs as [|x t IH]; cbn; [tauto|].
  destruct (cid2 x =? c) eqn:E; [discriminate|].
  intros H [H1|H1]; [lia|exact (IH H H1)].
Qed.
Lemma In_find2 cs r : NoDup (map cid2 cs) -> In r cs -> find2 (cid2 r) cs = Some r.
Proof.
  induction cs as [|x t IH]; cbn; [tauto|].
  intros ND [->|H]; [now rewrite N.eqb_refl|].
  inversion ND as [|? ? Hx ND']; subst.
  destruct (cid2 x =? cid2 r) eqn:E.
  - exfalso; apply Hx. assert (cid2 x = cid2 r) as -> by lia. now apply in_map.
  - auto.
Qed.
Lemma find2_app c a b :
  find2 c (a ++ b) = match find2 c a with Some r => Some r | None => find2 c b end.
Proof. induction a as [|x t IH]; cbn; [reflexivity|]. destruct (cid2 x =? c); auto. Qed.
Lemma map_cid2_upd c f cs : (forall r, cid2 (f r) = cid2 r) -> map cid2 (upd2 c f cs) = map cid2 cs.
Proof.
  intros Hf; induction cs as [|x t IH]; cbn; [reflexivity|].
  destruct (cid2 x =? c); cbn; [now rewrite Hf|now rewrite IH].
Qed.
Lemma find2_upd_same c f cs r :
  (forall r, cid2 (f r) = cid2 r) -> find2 c cs = Some r -> find2 c (upd2 c f cs) = Some (f r).
Proof.
  intros Hf; induction cs as [|x t IH]; cbn; [discriminate|].
  destruct (cid2 x =? c) eqn:E; cbn.
  - intros H; inversion H; subst. rewrite Hf, E. reflexivity.
  - rewrite E; auto.
Qed.
Lemma find2_upd_other c c' f cs :
  (forall r, cid2 (f r) = cid2 r) -> c' <> c -> find2 c' (upd2 c f cs) = find2 c' cs.
Proof.
  intros Hf Hne; induction cs as [|x t IH]; cbn; [reflexivity|].
  destruct (cid2 x =? c) eqn:E; cbn.
  - rewrite Hf. destruct (cid2 x =? c') eqn:E2; [lia|reflexivity].
  - destruct (cid2 x =? c'); auto.
Qed.
Lemma find2_upd_none c c' f cs : (forall r, cid2 (f r) = cid2 r) -> find2 c' cs = None -> find2 c' (upd2 c f cs) = None.
Proof.
  intros Hf; induction cs as [|x t IH]; cbn; [reflexivity|].
  destruct (cid2 x =? c') eqn:E; [discriminate|]. intros H.
  destruct (cid2 x =? c); cbn; [rewrite Hf, E; exact H|rewrite E; auto].
Qed.
Lemma In_upd2 c f cs r' :
  (forall r, cid2 (f r) = cid2 r) -> NoDup (map cid2 cs) -> In r' (upd2 c f cs) ->
  (In r' cs /\ cid2 r' <> c) \/ (exists x, find2 c cs = Some x /\ r' = f x).
Proof.
  intros Hf; induction cs as [|y t IH]; cbn; [tauto|].
  intros ND H. inversion ND as [|? ? Hy ND']; subst.
  destruct (cid2 y =? c) eqn:E; cbn in H.
  - destruct H as [<-|H]; [right; eauto|].
    left; split; [now right|]. intros Hc. apply Hy.
    assert (cid2 y = cid2 r') as -> by lia. now apply in_map.
  - destruct H as [<-|H]; [left; split; [now left|lia]|].
    destruct (IH ND' H) as [[H1 H2]|(x & H1 & H2)]; [left; split; [now right|exact H2]|right; eauto].
Qed.
Lemma in_map_find2 c cs : In c (map cid2 cs) -> exists r, find2 c cs = Some r.
Proof.
  induction cs as [|x t IH]; cbn; [tauto|].
  destruct (cid2 x =? c) eqn:E; [eauto|].
  intros [H|H]; [lia|auto].
Qed.

Definition refs2 (fs : list frow) (cs : list crow2) : Prop :=
  forall f, In f fs -> find2 (fcon f) cs <> None.

Lemma fsum_unreferenced2 c fs cs : refs2 fs cs -> find2 c cs = None -> fsum c fs = 0.
Proof.
  intros R H; induction fs as [|x t IH]; cbn [fsum]; [reflexivity|].
  destruct (fcon x =? c) eqn:E.
  - exfalso. assert (fcon x = c) by lia. apply (R x); [now left|congruence].
  - apply IH. intros f Hf; apply R; now right.
Qed.
Lemma refs2_fund_add a c amt fs cs :
  refs2 fs cs -> find2 c cs <> None -> refs2 (fund_add a c amt fs) cs.
Proof.
  intros R Hc; induction fs as [|x t IH]; cbn.
  - intros f [<-|[]]; exact Hc.
  - destruct ((facct x =? a) && (fcon x =? c)) eqn:E.
    + intros f [<-|Hf]; [exact Hc|apply R; now right].
    + intros f [<-|Hf]; [apply R; now left|].
      apply IH; [|exact Hf]. intros g Hg; apply R; now right.
Qed.

(** * the invariant: spending equation for formed/renewed rows, funding backed by rows *)
Definition row_ok2 (fs : list frow) (r : crow2) : Prop :=
  (ckind r <> KRefreshed -> f2host (cfc r) = f2total (cfc r) + rcost2 (cuse2 r)) /\
  vFund (cuse2 r) = fsum (cid2 r) fs.

Definition Inv2 (s : state2) : Prop :=
  NoDup (map cid2 (cons2 s)) /\
  (forall r, In r (cons2 s) -> row_ok2 (funds2 s) r) /\
  refs2 (funds2 s) (cons2 s).

Lemma Inv2_init : Inv2 init2.
Proof. split; [constructor|split; [intros r []|intros f []]]. Qed.

Lemma insert2_inv s r s' :
  Inv2 s -> insert2 s r = Ok s' ->
  (ckind r <> KRefreshed -> f2host (cfc r) = f2total (cfc r) + rcost2 (cuse2 r)) ->
  vFund (cuse2 r) = 0 -> Inv2 s'.
Proof.
  intros (ND & RO & RF) H Hc Hf. unfold insert2 in H.
  destruct (find2 (cid2 r) (cons2 s)) eqn:F; [discriminate|]. inversion H; subst s'; clear H.
  split; [|split]; cbn.
  - rewrite map_app; cbn. apply NoDup_app_single; [exact ND|now apply find2_none_notin].
  - intros x Hx. apply in_app_or in Hx. destruct Hx as [Hx|[<-|[]]].
    + exact (RO x Hx).
    + split; [exact Hc|]. rewrite Hf. symmetry. eapply fsum_unreferenced2; eauto.
  - intros f Hf'. rewrite find2_app. specialize (RF f Hf').
    destruct (find2 (fcon f) (cons2 s)); [discriminate|contradiction].
Qed.

Lemma upd_row_inv2 s c F accts' fs' x :
  Inv2 s -> find2 c (cons2 s) = Some x -> (forall r, cid2 (F r) = cid2 r) ->
  row_ok2 fs' (F x) ->
  (forall c', c' <> c -> fsum c' fs' = fsum c' (funds2 s)) ->
  refs2 fs' (cons2 s) ->
  Inv2 (mkS2 (upd2 c F (cons2 s)) accts' fs').
Proof.
  intros (ND & RO & RF) Hx HF Hrow Hsum Hrefs. split; [|split]; cbn.
  - now rewrite map_cid2_upd.
  - intros r' Hr'. destruct (In_upd2 c F (cons2 s) r' HF ND Hr') as [[H1 H2]|(y & H1 & H2)].
    + destruct (RO r' H1) as [A B]. split; [exact A|]. rewrite B. symmetry; now apply Hsum.
    + rewrite Hx in H1; inversion H1; subst; exact Hrow.
  - intros f Hf. destruct (N.eq_dec (fcon f) c) as [->|Hne].
    + erewrite find2_upd_same; eauto; discriminate.
    + rewrite find2_upd_other; auto.
Qed.

(* reviseV2Contract with the revision PayWithContract produced, funding rows changed by [dfund] for c *)
Lemma revise2_inv s c fc u s' x fs0 :
  Inv2 (mkS2 (cons2 s) (accts2 s) fs0) -> revise2 s c fc u = Ok s' -> find2 c (cons2 s) = Some x ->
  f2host fc = f2host (cfc x) + rcost2 u -> f2total fc = f2total (cfc x) ->
  fsum c (funds2 s) = fsum c fs0 + vFund u ->
  (forall c', c' <> c -> fsum c' (funds2 s) = fsum c' fs0) ->
  refs2 (funds2 s) (cons2 s) ->
  Inv2 s'.
Proof.
  intros I H Hx Hh Ht Hs Ho Hr. unfold revise2 in H. rewrite Hx in H. inversion H; subst s'; clear H.
  pose proof I as (ND & RO & RF). cbn [cons2 funds2] in *.
  pose proof (find2_cid _ _ _ Hx) as Hc.
  eapply (upd_row_inv2 (mkS2 (cons2 s) (accts2 s) fs0)); eauto.
  pose proof (find2_In _ _ _ Hx) as Hin. destruct (RO x Hin) as [A B]. rewrite Hc in B.
  split; cbn [cfc cuse2 cid2 ckind].
  - intros K. specialize (A K). rewrite rcost2_vadd. lia.
  - cbn. rewrite Hc. lia.
Qed.

Lemma credit_deposits_fsum c deps : forall accts fs c',
  fsum c' (snd (credit_deposits c deps accts fs)) = fsum c' fs + (if c =? c' then dep_total deps else 0).
Proof.
  induction deps as [|[a amt] t IH]; intros accts fs c'; cbn [credit_deposits dep_total fold_right snd].
  - destruct (c =? c'); lia.
  - rewrite IH, fsum_fund_add. fold (dep_total t). destruct (c =? c'); lia.
Qed.

Lemma credit_deposits_refs c deps cs : forall accts fs,
  refs2 fs cs -> find2 c cs <> None -> refs2 (snd (credit_deposits c deps accts fs)) cs.
Proof.
  induction deps as [|[a amt] t IH]; intros accts fs R Hc; cbn [credit_deposits snd]; [exact R|].
  apply IH; [now apply refs2_fund_add|exact Hc].
Qed.

Lemma lock2_ok s c r : lock2 s c = Ok r -> find2 c (cons2 s) = Some r /\ crenewed r = false.
Proof.
  unfold lock2. destruct (find2 c (cons2 s)) as [x|]; [|discriminate].
  destruct (crenewed x) eqn:E; [discriminate|]. intros H; inversion H; subst; auto.
Qed.

Lemma pay_with_contract_ok fc u fc' :
  pay_with_contract fc u = Ok fc' ->
  f2host fc' = f2host fc + rcost2 u /\ f2total fc' = f2total fc /\ rcost2 u <= f2renter fc /\
  f2renter fc' = f2renter fc - rcost2 u.
Proof.
  unfold pay_with_contract. destruct (f2renter fc <? rcost2 u) eqn:E1; [discriminate|].
  destruct (f2missed fc <? vRisk u); [discriminate|]. intros H; inversion H; subst; cbn. lia.
Qed.

Lemma form4_inv s c p a k s' : Inv2 s -> form4 s c p a k = Ok s' -> Inv2 s'.
Proof.
  intros I H. unfold form4, new_contract in H.
  eapply insert2_inv; [exact I|exact H| |]; cbn; [intros _; unfold rcost2; cbn; lia|reflexivity].
Qed.

Lemma pay4_inv s c u s' : Inv2 s -> vFund u = 0 -> pay4 s c u = Ok s' -> Inv2 s'.
Proof.
  intros I Hf H. unfold pay4 in H. bind_inv H.
  apply lock2_ok in B. destruct B as [B _]. apply pay_with_contract_ok in B0. destruct B0 as (P1 & P2 & _).
  destruct s as [cs ac fs]. eapply revise2_inv with (fs0 := fs); eauto; cbn; try lia.
  apply I.
Qed.

Lemma credit2_inv s c deps fc u s' x :
  Inv2 s -> credit2 s c deps fc u = Ok s' -> find2 c (cons2 s) = Some x ->
  f2host fc = f2host (cfc x) + rcost2 u -> f2total fc = f2total (cfc x) ->
  vFund u = dep_total deps -> Inv2 s'.
Proof.
  intros I H Hx Hh Ht Hf. unfold credit2 in H. rewrite Hx in H.
  destruct (credit_deposits c deps (accts2 s) (funds2 s)) as [accts' fs'] eqn:CD.
  pose proof (credit_deposits_fsum c deps (accts2 s) (funds2 s)) as FS. rewrite CD in FS; cbn [snd] in FS.
  pose proof (credit_deposits_refs c deps (cons2 s) (accts2 s) (funds2 s)) as RF. rewrite CD in RF; cbn [snd] in RF.
  destruct I as (ND & RO & R0).
  eapply revise2_inv with (fs0 := funds2 s); [| exact H | exact Hx | exact Hh | exact Ht | | | ]; cbn [cons2 accts2 funds2].
  - split; [exact ND|split; [exact RO|exact R0]].
  - rewrite FS, N.eqb_refl. lia.
  - intros c' Hne. rewrite FS. destruct (c =? c') eqn:E; lia.
  - apply RF; [exact R0|congruence].
Qed.

Lemma fund4_inv s c deps s' : Inv2 s -> fund4 s c deps = Ok s' -> Inv2 s'.
Proof.
  intros I H. unfold fund4 in H. bind_inv H.
  apply lock2_ok in B. destruct B as [B _]. apply pay_with_contract_ok in B0. destruct B0 as (P1 & P2 & _).
  eapply credit2_inv; eauto.
Qed.

Lemma replenish4_inv s c l t s' : Inv2 s -> replenish4 s c l t = Ok s' -> Inv2 s'.
Proof.
  intros I H. unfold replenish4 in H. bind_inv H.
  destruct (dep_total (replenish_deps s l t) =? 0); [inversion H; subst; exact I|].
  bind_inv H.
  apply lock2_ok in B. destruct B as [B _]. apply pay_with_contract_ok in B0. destruct B0 as (P1 & P2 & _).
  eapply credit2_inv; eauto.
Qed.

(** * account spending *)
Lemma dist_row2_spec u amt u' rem add :
  dist_row2 u amt = (u', rem, add) ->
  rem + rcost2 add = amt /\ vFund add = 0 /\ vRisk add = 0.
Proof.
  unfold dist_row2.
  destruct (take (vSto u) amt) as [[s1 r1] m1] eqn:T1.
  destruct (take (vIng u) r1) as [[s2 r2] m2] eqn:T2.
  destruct (take (vEgr u) r2) as [[s3 r3] m3] eqn:T3.
  destruct (take (vRpc u) r3) as [[s4 r4] m4] eqn:T4.
  apply take_spec in T1, T2, T3, T4.
  intros H; inversion H; subst; clear H. unfold rcost2; cbn. lia.
Qed.

(* [b] is [a] after some unspent account funding was attributed to revenue categories *)
Definition shifted (a b : usage2) : Prop :=
  rcost2 b = rcost2 a /\ vRisk b = vRisk a /\
  vRpc a <= vRpc b /\ vSto a <= vSto b /\ vEgr a <= vEgr b /\ vIng a <= vIng b /\ vFund b <= vFund a.

Lemma shifted_refl a : shifted a a.
Proof. unfold shifted; lia. Qed.
Lemma shifted_trans a b c : shifted a b -> shifted b c -> shifted a c.
Proof. unfold shifted; lia. Qed.
Lemma shifted_vadd a b h : shifted a b -> shifted (vadd a h) (vadd b h).
Proof. unfold shifted, rcost2, vadd; cbn; lia. Qed.

Definition moved_rel2 (fs fs' : list frow) (cs cs' : list crow2) : Prop :=
  map cid2 cs' = map cid2 cs /\
  forall c r, find2 c cs = Some r -> exists r', find2 c cs' = Some r' /\
     cfc r' = cfc r /\ crenewed r' = crenewed r /\ ckind r' = ckind r /\
     shifted (cuse2 r) (cuse2 r') /\
     vFund (cuse2 r') + fsum c fs = vFund (cuse2 r) + fsum c fs'.

Lemma moved_rel2_refl fs cs : moved_rel2 fs fs cs cs.
Proof. split; [reflexivity|]. intros c r H; exists r. split; [exact H|]. split; [reflexivity|split; [reflexivity|split; [reflexivity|split; [apply shifted_refl|lia]]]]. Qed.

Lemma con_move2_spec cs c spent add cs' :
  con_move2 cs c spent add = Ok cs' -> rcost2 add = spent -> vFund add = 0 -> vRisk add = 0 ->
  map cid2 cs' = map cid2 cs /\
  forall c' r, find2 c' cs = Some r -> exists r', find2 c' cs' = Some r' /\
     cfc r' = cfc r /\ crenewed r' = crenewed r /\ ckind r' = ckind r /\
     shifted (cuse2 r) (cuse2 r') /\
     vFund (cuse2 r') + (if c' =? c then spent else 0) = vFund (cuse2 r).
Proof.
  unfold con_move2. destruct (find2 c cs) as [x|] eqn:F; [|discriminate].
  intros H Hs Hf Hk. bind_inv H. inversion H; subst cs'; clear H.
  set (F' := fun x0 : crow2 => mkC2 (cid2 x0) (cfc x0) _ (crenewed x0) (ckind x0)).
  assert (HF : forall r, cid2 (F' r) = cid2 r) by reflexivity.
  split; [now apply map_cid2_upd|].
  intros c' r Hr. destruct (c' =? c) eqn:E.
  - assert (c' = c) by lia; subst c'. rewrite F in Hr; inversion Hr; subst r.
    exists (F' x). split; [now apply find2_upd_same|].
    subst F'; cbn [cfc crenewed ckind cuse2].
    split; [reflexivity|split; [reflexivity|split; [reflexivity|split]]].
    + unfold shifted, rcost2 in *; cbn; lia.
    + cbn; lia.
  - exists r. split; [rewrite find2_upd_other; auto; lia|].
    split; [reflexivity|split; [reflexivity|split; [reflexivity|split; [apply shifted_refl|lia]]]].
Qed.

Lemma distribute2_spec a fs : forall u cs fs' cs',
  distribute2 a u fs cs = Ok (fs', cs') ->
  moved_rel2 fs fs' cs cs' /\ (forall f', In f' fs' -> exists f, In f fs /\ fcon f' = fcon f).
Proof.
  induction fs as [|f t IH]; intros u cs fs' cs' H; cbn [distribute2] in H.
  - inversion H; subst. split; [apply moved_rel2_refl|intros ? []].
  - destruct ((facct f =? a) && negb (famt f =? 0)) eqn:E.
    + destruct (dist_row2 u (famt f)) as [[u' rem] add] eqn:D.
      apply dist_row2_spec in D. destruct D as (D1 & D3 & D4).
      assert (D2 : rcost2 add = famt f - rem) by lia.
      bind_inv H. destruct x0 as [t' cs2]. inversion H; subst fs' cs'; clear H.
      apply con_move2_spec in B; auto. destruct B as [M1 M2].
      apply IH in B0. destruct B0 as [[R1 R2] R3].
      split; [split|].
      * congruence.
      * intros c r Hr. destruct (M2 c r Hr) as (r1 & F1 & A1 & A2 & A3 & A4 & A5).
        destruct (R2 c r1 F1) as (r2 & F2 & B1 & B2 & B3 & B4 & B5).
        exists r2. split; [exact F2|].
        split; [congruence|split; [congruence|split; [congruence|split; [eapply shifted_trans; eauto|]]]].
        cbn [fsum]. destruct (rem =? 0) eqn:Z; cbn [fsum fcon famt];
          destruct (fcon f =? c) eqn:Ec; rewrite N.eqb_sym in Ec; rewrite Ec in A5; lia.
      * intros f' Hf'. destruct (rem =? 0).
        -- destruct (R3 f' Hf') as (g & G1 & G2). exists g; split; [now right|exact G2].
        -- destruct Hf' as [<-|Hf']; [exists f; split; [now left|reflexivity]|].
           destruct (R3 f' Hf') as (g & G1 & G2). exists g; split; [now right|exact G2].
    + bind_inv H. destruct x as [t' cs1]. inversion H; subst fs' cs'; clear H.
      apply IH in B. destruct B as [[R1 R2] R3].
      split; [split; [exact R1|]|].
      * intros c r Hr. destruct (R2 c r Hr) as (r2 & F2 & B1 & B2 & B3 & B4 & B5).
        exists r2. split; [exact F2|].
        split; [exact B1|split; [exact B2|split; [exact B3|split; [exact B4|]]]].
        cbn [fsum]. destruct (fcon f =? c); lia.
      * intros f' [<-|Hf']; [exists f; split; [now left|reflexivity]|].
        destruct (R3 f' Hf') as (g & G1 & G2). exists g; split; [now right|exact G2].
Qed.

Lemma moved_rel2_inv s fs' cs' accts' :
  Inv2 s -> moved_rel2 (funds2 s) fs' (cons2 s) cs' ->
  (forall f', In f' fs' -> exists f, In f (funds2 s) /\ fcon f' = fcon f) ->
  Inv2 (mkS2 cs' accts' fs').
Proof.
  intros (ND & RO & RF) [M1 M2] P. split; [|split]; cbn.
  - now rewrite M1.
  - intros r' Hr'.
    assert (ND' : NoDup (map cid2 cs')) by now rewrite M1.
    destruct (in_map_find2 (cid2 r') (cons2 s)) as (r & Fr); [rewrite <- M1; now apply in_map|].
    destruct (M2 _ _ Fr) as (r2 & F2 & A1 & A2 & A3 & A4 & A5).
    rewrite (In_find2 cs' r' ND' Hr') in F2. inversion F2; subst r2.
    destruct (RO r (find2_In _ _ _ Fr)) as [B1 B2].
    rewrite (find2_cid _ _ _ Fr) in B2.
    split; [|lia].
    intros K. rewrite A3 in K. specialize (B1 K). rewrite A1. destruct A4 as (S1 & _). lia.
  - intros f' Hf'. destruct (P f' Hf') as (f & Hf & E). rewrite E.
    specialize (RF f Hf). destruct (find2 (fcon f) (cons2 s)) as [r|] eqn:Fr; [|contradiction].
    destruct (M2 _ _ Fr) as (r2 & F2 & _). congruence.
Qed.

Lemma debit2_inv s a u s' : Inv2 s -> debit2 s a u = Ok s' -> Inv2 s'.
Proof.
  intros I H. unfold debit2 in H.
  destruct (alookup a (accts2 s)) as [bal|]; [|discriminate].
  destruct (bal <? rcost2 u); [discriminate|].
  bind_inv H. destruct x as [fs cs]. inversion H; subst s'; clear H.
  apply distribute2_spec in B. destruct B as [M P].
  eapply moved_rel2_inv; eauto.
Qed.

(** * renew / refresh *)
Lemma insert2_find s r s1 c x :
  insert2 s r = Ok s1 -> find2 c (cons2 s) = Some x -> find2 c (cons2 s1) = Some x.
Proof.
  unfold insert2. destruct (find2 (cid2 r) (cons2 s)); [discriminate|].
  intros H F; inversion H; subst; cbn. rewrite find2_app, F. reflexivity.
Qed.

Lemma renew_store2_inv s c nr s' :
  Inv2 s -> renew_store2 s c nr = Ok s' ->
  (ckind nr <> KRefreshed -> f2host (cfc nr) = f2total (cfc nr) + rcost2 (cuse2 nr)) ->
  vFund (cuse2 nr) = 0 -> Inv2 s'.
Proof.
  intros I H A1 A2. unfold renew_store2 in H. bind_inv H.
  pose proof (insert2_inv _ _ _ I B A1 A2) as I1.
  destruct (find2 c (cons2 x)) as [y|] eqn:F; [|discriminate]. inversion H; subst s'; clear H.
  pose proof I1 as (ND & RO & RF).
  eapply upd_row_inv2; eauto.
  destruct (RO y (find2_In _ _ _ F)) as [C1 C2]. split; cbn; auto.
Qed.

Lemma renew4_inv s c c' p a k sc rc s' : Inv2 s -> renew4 s c c' p a k sc rc = Ok s' -> Inv2 s'.
Proof.
  intros I H. unfold renew4 in H. bind_inv H. destruct x0 as [fc u].
  unfold renew_contract in B0. bind_inv B0. inversion B0; subst fc u; clear B0.
  eapply renew_store2_inv; [exact I|exact H| |]; cbn; [intros _; unfold rcost2; cbn; lia|reflexivity].
Qed.

Lemma refresh4_inv s c c' p a k s' : Inv2 s -> refresh4 s c c' p a k = Ok s' -> Inv2 s'.
Proof.
  intros I H. unfold refresh4 in H. bind_inv H. destruct x0 as [fc u].
  unfold refresh_contract in B0. bind_inv B0. inversion B0; subst fc u; clear B0.
  eapply renew_store2_inv; [exact I|exact H| |]; cbn; [intros K; exfalso; apply K; reflexivity|reflexivity].
Qed.

Lemma step_res2_inv s o s' : Inv2 s -> step_res2 s o = Ok s' -> Inv2 s'.
Proof.
  intros I H. destruct o; cbn [step_res2] in H.
  - eapply form4_inv; eauto.
  - eapply pay4_inv; [exact I| |exact H]; reflexivity.
  - eapply fund4_inv; eauto.
  - eapply replenish4_inv; eauto.
  - eapply debit2_inv; eauto.
  - eapply renew4_inv; eauto.
  - eapply refresh4_inv; eauto.
Qed.

Definition runs2 (s : state2) (l : list op2) : state2 := fold_left (fun s o => fst (step2 s o)) l s.

Lemma step2_fst s o : fst (step2 s o) = fst (next2 s o).
Proof. unfold step2. destruct (next2 s o); reflexivity. Qed.

Lemma next2_inv s o : Inv2 s -> Inv2 (fst (next2 s o)).
Proof.
  intros I. unfold next2. destruct (step_res2 s o) eqn:E; cbn; auto. eapply step_res2_inv; eauto.
Qed.

Lemma runs2_inv l : forall s, Inv2 s -> Inv2 (runs2 s l).
Proof.
  induction l as [|o t IH]; intros s I; [exact I|].
  cbn. apply IH. rewrite step2_fst. now apply next2_inv.
Qed.

(* C10, v2, second sentence: for a formed or renewed (not refreshed) contract, host output minus
   total collateral is the recorded renter spending *)
Lemma v2_spending l r :
  In r (cons2 (runs2 init2 l)) -> ckind r <> KRefreshed ->
  f2host (cfc r) = f2total (cfc r) +
    (vRpc (cuse2 r) + vSto (cuse2 r) + vEgr (cuse2 r) + vIng (cuse2 r) + vFund (cuse2 r)).
Proof.
  intros H K. destruct (runs2_inv l init2 Inv2_init) as (_ & RO & _). exact (proj1 (RO r H) K).
Qed.

Lemma v2_funding_backed l r :
  In r (cons2 (runs2 init2 l)) -> vFund (cuse2 r) = fsum (cid2 r) (funds2 (runs2 init2 l)).
Proof.
  intros H. destruct (runs2_inv l init2 Inv2_init) as (_ & RO & _). exact (proj2 (RO r H)).
Qed.

(** * C10, v2, first sentence: recorded usage = Σ usages of the accepted RPCs *)
Definition use_of (s : state2) (c : N) : usage2 :=
  match find2 c (cons2 s) with Some r => cuse2 r | None => v0 end.

(* the Usage an accepted RPC hands to the contract manager for contract c *)
Definition passed (s : state2) (o : op2) (c : N) : usage2 :=
  match step_res2 s o with
  | Ok _ =>
      match o with
      | Form4 c0 p a k => if c0 =? c then snd (new_contract p a k) else v0
      | Pay4 c0 rpc sto egr ing risk => if c0 =? c then mkU2 rpc sto egr ing 0 risk else v0
      | Fund4 c0 d => if c0 =? c then mkU2 0 0 0 0 (dep_total d) 0 else v0
      | Replenish4 c0 l t => if c0 =? c then mkU2 0 0 0 0 (dep_total (replenish_deps s l t)) 0 else v0
      | Debit4 _ _ => v0
      | Renew4 _ c' p a k sc rc =>
          if c' =? c then match renew_contract p a k sc rc with Ok (_, u) => u | _ => v0 end else v0
      | Refresh4 c0 c' p a k =>
          if c' =? c then
            match find2 c0 (cons2 s) with
            | Some r => match refresh_contract (cfc r) p a k with Ok (_, u) => u | _ => v0 end
            | None => v0
            end
          else v0
      end
  | _ => v0
  end.

(* Σ over a history: the usages of its accepted RPCs for contract c *)
Fixpoint hist (s : state2) (l : list op2) (c : N) : usage2 :=
  match l with
  | [] => v0
  | o :: t => vadd (passed s o c) (hist (fst (next2 s o)) t c)
  end.

Lemma vadd_v0_r a : vadd a v0 = a.
Proof. destruct a; unfold vadd; cbn; f_equal; lia. Qed.
Lemma vadd_v0_l a : vadd v0 a = a.
Proof. destruct a; unfold vadd; cbn; f_equal; lia. Qed.
Lemma vadd_assoc a b c : vadd (vadd a b) c = vadd a (vadd b c).
Proof. unfold vadd; cbn; f_equal; lia. Qed.

Lemma revise2_use s c0 fc u s' c :
  revise2 s c0 fc u = Ok s' -> use_of s' c = if c0 =? c then vadd (use_of s c) u else use_of s c.
Proof.
  unfold revise2, use_of. destruct (find2 c0 (cons2 s)) as [x|] eqn:F; [|discriminate].
  intros H; inversion H; subst s'; clear H. cbn [cons2].
  destruct (c0 =? c) eqn:E.
  - assert (c0 = c) by lia; subst c0. rewrite F.
    erewrite find2_upd_same; [reflexivity|intros; reflexivity|exact F].
  - rewrite find2_upd_other; [reflexivity|intros; reflexivity|lia].
Qed.

Lemma insert2_use s r s' c :
  insert2 s r = Ok s' -> use_of s' c = if cid2 r =? c then cuse2 r else use_of s c.
Proof.
  unfold insert2, use_of. destruct (find2 (cid2 r) (cons2 s)) eqn:F; [discriminate|].
  intros H; inversion H; subst s'; clear H. cbn [cons2]. rewrite find2_app.
  destruct (cid2 r =? c) eqn:E.
  - assert (cid2 r = c) by lia; subst c. rewrite F. cbn. now rewrite N.eqb_refl.
  - destruct (find2 c (cons2 s)); [reflexivity|]. cbn. now rewrite E.
Qed.

Lemma insert2_fresh s r s' : insert2 s r = Ok s' -> use_of s (cid2 r) = v0.
Proof.
  unfold insert2, use_of. destruct (find2 (cid2 r) (cons2 s)); [discriminate|reflexivity].
Qed.

Lemma credit2_use s c0 deps fc u s' c :
  credit2 s c0 deps fc u = Ok s' -> use_of s' c = if c0 =? c then vadd (use_of s c) u else use_of s c.
Proof.
  unfold credit2. destruct (find2 c0 (cons2 s)) eqn:F; [|discriminate].
  destruct (credit_deposits c0 deps (accts2 s) (funds2 s)) as [a' f'].
  intros H. apply (revise2_use _ _ _ _ _ c) in H. exact H.
Qed.

Lemma renew_store2_use s c0 nr s' c :
  renew_store2 s c0 nr = Ok s' -> use_of s' c = if cid2 nr =? c then cuse2 nr else use_of s c.
Proof.
  unfold renew_store2. intros H. bind_inv H.
  destruct (find2 c0 (cons2 x)) as [y|] eqn:F; [|discriminate]. inversion H; subst s'; clear H.
  rewrite <- (insert2_use _ _ _ c B). unfold use_of; cbn [cons2].
  destruct (N.eq_dec c c0) as [->|Hne].
  - rewrite F. erewrite find2_upd_same; [reflexivity|intros; reflexivity|exact F].
  - rewrite find2_upd_other; [reflexivity|intros; reflexivity|exact Hne].
Qed.

Lemma moved_rel2_use fs fs' s cs' accts' c :
  moved_rel2 fs fs' (cons2 s) cs' -> shifted (use_of s c) (use_of (mkS2 cs' accts' fs') c).
Proof.
  intros [M1 M2]. unfold use_of; cbn [cons2].
  destruct (find2 c (cons2 s)) as [r|] eqn:F.
  - destruct (M2 _ _ F) as (r' & F' & _ & _ & _ & S & _). rewrite F'. exact S.
  - destruct (find2 c cs') as [r'|] eqn:F'; [|apply shifted_refl].
    exfalso. apply (find2_none_notin _ _ F). rewrite <- M1.
    rewrite <- (find2_cid _ _ _ F'). apply in_map. eapply find2_In; eauto.
Qed.

Lemma shifted_eq a b : a = b -> shifted a b.
Proof. intros ->; apply shifted_refl. Qed.

Lemma step_shift s o c :
  shifted (vadd (use_of s c) (passed s o c)) (use_of (fst (next2 s o)) c).
Proof.
  unfold next2, passed. destruct (step_res2 s o) as [s'| |] eqn:R; cbn [fst];
    try (rewrite vadd_v0_r; apply shifted_refl).
  destruct o; cbn [step_res2] in R.
  - unfold form4 in R. cbn [new_contract] in R. cbn [new_contract snd].
    rewrite (insert2_use _ _ _ c R); cbn [cid2 cuse2].
    destruct (c0 =? c) eqn:E; [|rewrite vadd_v0_r; apply shifted_refl].
    assert (c0 = c) by lia; subst c0. apply insert2_fresh in R; cbn in R. rewrite R, vadd_v0_l. apply shifted_refl.
  - unfold pay4 in R. bind_inv R. rewrite (revise2_use _ _ _ _ _ c R).
    destruct (c0 =? c); [|rewrite vadd_v0_r]; apply shifted_refl.
  - unfold fund4 in R. bind_inv R. rewrite (credit2_use _ _ _ _ _ _ c R).
    destruct (c0 =? c); [|rewrite vadd_v0_r]; apply shifted_refl.
  - unfold replenish4 in R. bind_inv R.
    destruct (dep_total (replenish_deps s accts target) =? 0) eqn:Z.
    + inversion R; subst s'. assert (dep_total (replenish_deps s accts target) = 0) as -> by lia.
      destruct (c0 =? c); rewrite vadd_v0_r; apply shifted_refl.
    + bind_inv R. rewrite (credit2_use _ _ _ _ _ _ c R).
      destruct (c0 =? c); [|rewrite vadd_v0_r]; apply shifted_refl.
  - rewrite vadd_v0_r. unfold debit2 in R.
    destruct (alookup a (accts2 s)) as [bal|]; [|discriminate].
    destruct (bal <? rcost2 u); [discriminate|].
    bind_inv R. destruct x as [fs cs]. inversion R; subst s'; clear R.
    apply distribute2_spec in B. destruct B as [M _]. eapply moved_rel2_use; eauto.
  - unfold renew4 in R. bind_inv R. destruct x0 as [fc u]. rewrite B0.
    rewrite (renew_store2_use _ _ _ _ c R); cbn [cid2 cuse2].
    destruct (c' =? c) eqn:E; [|rewrite vadd_v0_r; apply shifted_refl].
    assert (c' = c) by lia; subst c'.
    unfold renew_store2 in R. bind_inv R. apply insert2_fresh in B1; cbn in B1. rewrite B1, vadd_v0_l. apply shifted_refl.
  - unfold refresh4 in R. bind_inv R. destruct x0 as [fc u].
    apply lock2_ok in B. destruct B as [B _]. rewrite B, B0.
    rewrite (renew_store2_use _ _ _ _ c R); cbn [cid2 cuse2].
    destruct (c' =? c) eqn:E; [|rewrite vadd_v0_r; apply shifted_refl].
    assert (c' = c) by lia; subst c'.
    unfold renew_store2 in R. bind_inv R. apply insert2_fresh in B1; cbn in B1. rewrite B1, vadd_v0_l. apply shifted_refl.
Qed.

Lemma hist_shift l : forall s c, shifted (vadd (use_of s c) (hist s l c)) (use_of (runs2 s l) c).
Proof.
  induction l as [|o t IH]; intros s c; cbn [hist runs2 fold_left].
  - rewrite vadd_v0_r. apply shifted_refl.
  - rewrite step2_fst. rewrite <- vadd_assoc.
    eapply shifted_trans; [apply shifted_vadd, step_shift|apply IH].
Qed.

(* For every history and every contract: what the renter paid according to the recorded usage is
   the sum over the accepted RPCs; so is the risked collateral; every revenue category holds at
   least what the RPCs booked there directly and the rest of it came out of the account funding *)
Lemma v2_usage_sum l c r :
  find2 c (cons2 (runs2 init2 l)) = Some r ->
  let h := hist init2 l c in
  rcost2 (cuse2 r) = rcost2 h /\ vRisk (cuse2 r) = vRisk h /\
  vRpc h <= vRpc (cuse2 r) /\ vSto h <= vSto (cuse2 r) /\ vEgr h <= vEgr (cuse2 r) /\ vIng h <= vIng (cuse2 r) /\
  vFund (cuse2 r) <= vFund h.
Proof.
  intros F h. pose proof (hist_shift l init2 c) as S.
  unfold use_of in S at 2. rewrite F in S. unfold use_of in S; cbn in S. rewrite vadd_v0_l in S.
  exact S.
Qed.

(* an accepted RPC other than an account debit adds exactly its usage, column by column *)
Lemma v2_step_exact s o s' c :
  step_res2 s o = Ok s' -> (forall a u, o <> Debit4 a u) ->
  use_of s' c = vadd (use_of s c) (passed s o c).
Proof.
  intros R ND. unfold passed. rewrite R.
  destruct o; cbn [step_res2] in R.
  - unfold form4 in R. cbn [new_contract] in R. cbn [new_contract snd].
    rewrite (insert2_use _ _ _ c R); cbn [cid2 cuse2].
    destruct (c0 =? c) eqn:E; [|now rewrite vadd_v0_r].
    assert (c0 = c) by lia; subst c0. apply insert2_fresh in R; cbn in R. now rewrite R, vadd_v0_l.
  - unfold pay4 in R. bind_inv R. rewrite (revise2_use _ _ _ _ _ c R).
    destruct (c0 =? c); [reflexivity|now rewrite vadd_v0_r].
  - unfold fund4 in R. bind_inv R. rewrite (credit2_use _ _ _ _ _ _ c R).
    destruct (c0 =? c); [reflexivity|now rewrite vadd_v0_r].
  - unfold replenish4 in R. bind_inv R.
    destruct (dep_total (replenish_deps s accts target) =? 0) eqn:Z.
    + inversion R; subst s'. assert (dep_total (replenish_deps s accts target) = 0) as -> by lia.
      destruct (c0 =? c); now rewrite vadd_v0_r.
    + bind_inv R. rewrite (credit2_use _ _ _ _ _ _ c R).
      destruct (c0 =? c); [reflexivity|now rewrite vadd_v0_r].
  - exfalso; eapply ND; reflexivity.
  - unfold renew4 in R. bind_inv R. destruct x0 as [fc u]. rewrite B0.
    rewrite (renew_store2_use _ _ _ _ c R); cbn [cid2 cuse2].
    destruct (c' =? c) eqn:E; [|now rewrite vadd_v0_r].
    assert (c' = c) by lia; subst c'.
    unfold renew_store2 in R. bind_inv R. apply insert2_fresh in B1; cbn in B1. now rewrite B1, vadd_v0_l.
  - unfold refresh4 in R. bind_inv R. destruct x0 as [fc u].
    apply lock2_ok in B. destruct B as [B _]. rewrite B, B0.
    rewrite (renew_store2_use _ _ _ _ c R); cbn [cid2 cuse2].
    destruct (c' =? c) eqn:E; [|now rewrite vadd_v0_r].
    assert (c' = c) by lia; subst c'.
    unfold renew_store2 in R. bind_inv R. apply insert2_fresh in B1; cbn in B1. now rewrite B1, vadd_v0_l.
Qed.

Lemma v2_refreshed_witness : exists (l : list op2) (r : crow2),
  In r (cons2 (runs2 init2 l)) /\ ckind r = KRefreshed /\
  f2host (cfc r) <> f2total (cfc r) + rcost2 (cuse2 r).
Proof.
  exists [Form4 1 10 100 50; Refresh4 1 2 10 20 5].
  exists (mkC2 2 (mkFC2 0 120 75 55 55) (mkU2 10 0 0 0 0 0) false KRefreshed).
  vm_compute. split; [right; left; reflexivity|split; [reflexivity|discriminate]].
Qed.

(** * account spending never panics on a reachable state (v2) *)
Definition covered2 (fs : list frow) (cs : list crow2) : Prop :=
  forall c r, find2 c cs = Some r -> fsum c fs <= vFund (cuse2 r).

Lemma distribute2_total a fs : forall u cs,
  covered2 fs cs -> refs2 fs cs -> exists fs' cs', distribute2 a u fs cs = Ok (fs', cs').
Proof.
  induction fs as [|f t IH]; intros u cs Cv Rf; cbn [distribute2]; [eauto|].
  assert (Cv' : forall cs1, (forall c r1, find2 c cs1 = Some r1 -> exists r, find2 c cs = Some r /\
                 (vFund (cuse2 r1) = vFund (cuse2 r) \/ (c = fcon f /\ vFund (cuse2 r) <= vFund (cuse2 r1) + famt f))) ->
               covered2 t cs1).
  { intros cs1 H c r1 F1. destruct (H _ _ F1) as (r & F & D). specialize (Cv _ _ F). cbn [fsum] in Cv.
    destruct D as [D|[-> D]]; [destruct (fcon f =? c); lia|rewrite N.eqb_refl in Cv; lia]. }
  destruct ((facct f =? a) && negb (famt f =? 0)) eqn:E.
  - destruct (dist_row2 u (famt f)) as [[u' rem] add] eqn:D.
    pose proof (dist_row2_spec _ _ _ _ _ D) as (D1 & D3 & D4).
    destruct (find2 (fcon f) cs) as [x|] eqn:Fx; [|exfalso; apply (Rf f); [now left|exact Fx]].
    pose proof (Cv _ _ Fx) as Cx. cbn [fsum] in Cx. rewrite N.eqb_refl in Cx.
    unfold con_move2 at 1. rewrite Fx. unfold csub.
    destruct (famt f - rem <=? vFund (cuse2 x)) eqn:L; [|lia]. cbn [bind].
    match goal with |- context [distribute2 a u' t ?CS] => set (cs1 := CS) end.
    assert (M : con_move2 cs (fcon f) (famt f - rem) add = Ok cs1).
    { unfold con_move2. rewrite Fx. unfold csub. rewrite L. reflexivity. }
    apply con_move2_spec in M; [|lia|auto|auto]. destruct M as [M1 M2].
    destruct (IH u' cs1) as (t' & cs2 & R).
    + apply Cv'. intros c r1 F1.
      destruct (in_map_find2 c cs) as (r & F); [rewrite <- M1; rewrite <- (find2_cid _ _ _ F1); apply in_map; eapply find2_In; eauto|].
      destruct (M2 _ _ F) as (r1' & F1' & _ & _ & _ & _ & G). rewrite F1 in F1'. inversion F1'; subst r1'.
      exists r. split; [exact F|]. destruct (c =? fcon f) eqn:Ec; [right; split; lia|left; lia].
    + intros g Hg. specialize (Rf g (or_intror Hg)).
      destruct (find2 (fcon g) cs) as [y|] eqn:Fy; [|contradiction].
      destruct (M2 _ _ Fy) as (y' & Fy' & _). congruence.
    + rewrite R. cbn. eauto.
  - destruct (IH u cs) as (t' & cs1 & R).
    + apply Cv'. intros c r1 F1. exists r1; split; [exact F1|left; reflexivity].
    + intros g Hg. apply Rf. now right.
    + rewrite R. cbn. eauto.
Qed.

Lemma v2_debit_total l a u : is_panic (debit2 (runs2 init2 l) a u) = false.
Proof.
  destruct (runs2_inv l init2 Inv2_init) as (ND & RO & RF).
  unfold debit2. destruct (alookup a (accts2 (runs2 init2 l))) as [bal|]; [|reflexivity].
  destruct (bal <? rcost2 u); [reflexivity|].
  destruct (distribute2_total a (funds2 (runs2 init2 l)) u (cons2 (runs2 init2 l))) as (fs & cs & R).
  - intros c r F. destruct (RO r (find2_In _ _ _ F)) as [_ B]. rewrite (find2_cid _ _ _ F) in B. lia.
  - exact RF.
  - rewrite R. reflexivity.
Qed.
