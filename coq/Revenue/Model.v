(* Revenue/Model.v — the accounting of v1 contracts (C10, first half).

   What is modelled, function by function (no proofs here):
     rhp/contracts.go            Revise, validateStdRevision, ValidateRevision, ValidateProgramRevision,
                                 ValidatePaymentRevision, ClearingRevision + ValidateClearingRevision
                                 (the value checks; addresses / unlock hashes / window are not values
                                 the accounting depends on and are kept well-formed by the harness)
     rhp/v2/contracts.go         validateContractFormation, validateContractRenewal (payout arithmetic)
     rhp/v3/contracts.go         validateContractRenewal (payout arithmetic)
     rhp/v2/rpc.go               rpcFormContract, rpcRenewAndClearContract, rpcSectorRoots, rpcRead, rpcWrite
                                 (cost, excess, collateral, Usage handed to the contract manager)
     rhp/v3/payments.go          processContractPayment, processAccountPayment, processFundAccountPayment
     rhp/v3/rpc.go               handleRPCFundAccount, handleRPCPriceTable / AccountBalance / LatestRevision
                                 (pay, spend one RPC cost, commit), handleRPCRenew, handleRPCExecute
     rhp/v3/execute.go           payForExecution, the registry usage mapping, rollback (storage refund),
                                 commit with finalisation (ValidateProgramRevision, Usage{RiskedCollateral})
     host/accounts               Credit (balance cap unless refund), Budget/Spend/Commit/Rollback for one
                                 RPC at a time (no concurrently open budgets: in-memory balance = store)
     host/contracts/manager.go   Lock (exists, not at max revision), AddContract/RenewContract/ReviseContract
                                 pass-through
     persist/sqlite/contracts.go insertContract, clearContract, reviseContract, incrementContractUsage
                                 (column by column), RenewContract
     persist/sqlite/accounts.go  CreditAccountWithContract, incrementContractAccountFunding, DebitAccount,
                                 distributeRHP3AccountUsage (row order = rowid order, zero rows deleted)

   Currency additions are unbounded N (DESIGN §2: amounts a host tracks stay below 2^128: every amount
   added here is bounded by a contract payout that consensus accepted); Currency.Sub keeps its panic
   (csub) and every SubWithUnderflow keeps its branch. *)
From HostdBase Require Import Base.
Open Scope N_scope.

(** * Usage (contracts.Usage) and the account usage (accounts.Usage) *)
Record usage := mkU { uRpc : N; uSto : N; uIng : N; uEgr : N; uRR : N; uRW : N; uFund : N; uRisk : N }.
Definition u0 : usage := mkU 0 0 0 0 0 0 0 0.
(* Usage.Add, and the UPDATE of incrementContractUsage: one line per column *)
Definition uadd (a b : usage) : usage :=
  mkU (uRpc a + uRpc b) (uSto a + uSto b) (uIng a + uIng b) (uEgr a + uEgr b)
      (uRR a + uRR b) (uRW a + uRW b) (uFund a + uFund b) (uRisk a + uRisk b).
(* the recorded revenue categories + unspent account funding (risked collateral is not revenue) *)
Definition usum (u : usage) : N := uRpc u + uSto u + uIng u + uEgr u + uRR u + uRW u + uFund u.

Record ausage := mkA { aRpc : N; aSto : N; aIng : N; aEgr : N; aRR : N; aRW : N }.
Definition a0 : ausage := mkA 0 0 0 0 0 0.
Definition aadd (a b : ausage) : ausage :=
  mkA (aRpc a + aRpc b) (aSto a + aSto b) (aIng a + aIng b) (aEgr a + aEgr b) (aRR a + aRR b) (aRW a + aRW b).
Definition atotal (a : ausage) : N := aRpc a + aSto a + aIng a + aEgr a + aRR a + aRW a.

(* rhp2.RPCCost / rhp3.ResourceCost as computed by core from the host's prices *)
Record rcost := mkRC { rcBase : N; rcSto : N; rcIng : N; rcEgr : N; rcColl : N }.
Definition rc0 : rcost := mkRC 0 0 0 0 0.
Definition rcadd (a b : rcost) : rcost :=
  mkRC (rcBase a + rcBase b) (rcSto a + rcSto b) (rcIng a + rcIng b) (rcEgr a + rcEgr b) (rcColl a + rcColl b).
Definition rctotal (c : rcost) : N := rcBase c + rcSto c + rcIng c + rcEgr c.

(** * Revisions: revision number and the five proof-output values *)
Record rev := mkRev { rn : N; vr : N; vh : N; mr : N; mh : N; mv : N }.
(* what the renter sends: the new revision number and output values — all renter-chosen *)
Record prop := mkProp { pn : N; pvr : N; pvh : N; pmr : N; pmh : N; pmv : N }.

Record crow := mkC { cid : N; crev : rev; clocked : N; cuse : usage }.
(* contract_account_funding rows in rowid order *)
Record frow := mkF { facct : N; fcon : N; famt : N }.
Record state := mkS { cons : list crow; accts : list (N * N); funds : list frow }.
Definition init : state := mkS [] [] [].

Fixpoint find_con (c : N) (cs : list crow) : option crow :=
  match cs with
  | [] => None
  | r :: t => if cid r =? c then Some r else find_con c t
  end.
Fixpoint upd_con (c : N) (f : crow -> crow) (cs : list crow) : list crow :=
  match cs with
  | [] => []
  | r :: t => if cid r =? c then f r :: t else r :: upd_con c f t
  end.
Definition balance (s : state) (a : N) : N :=
  match alookup a (accts s) with Some b => b | None => 0 end.

(** * rhp/contracts.go *)
Definition eguard (b : bool) : res unit := if b then Ok tt else Err EInvalid.

Definition revise (cur : rev) (p : prop) : res rev :=
  if rn cur =? max64 then Err EInvalid
  else if pn p <=? rn cur then Err EInvalid
  else Ok (mkRev (pn p) (pvr p) (pvh p) (pmr p) (pmh p) (pmv p)).

Definition validate_std (cur r : rev) : res unit :=
  let old := vr cur + vh cur in
  do _ <- eguard (vr r + vh r =? old);
  do _ <- eguard (mr r + mh r + mv r =? old);
  do _ <- eguard (rn cur <? rn r);
  do _ <- eguard (vr r <=? vr cur);
  do _ <- eguard (mr r <=? mr cur);
  eguard (vr r =? mr r).

(* returns (transfer, burn) *)
Definition validate_revision (cur r : rev) (payment collateral : N) : res (N * N) :=
  do _ <- validate_std cur r;
  do _ <- eguard (payment <=? vr cur);
  do _ <- eguard (payment <=? mr cur);
  do _ <- eguard (collateral <=? mh cur);
  do _ <- eguard (vr r <=? vr cur);
  do _ <- eguard (vh cur <=? vh r);
  do _ <- eguard (mh r <=? mh cur);
  let fromRenter := vr cur - vr r in
  let toHost := vh r - vh cur in
  let burn := mh cur - mh r in
  do _ <- eguard (fromRenter =? toHost);
  do _ <- eguard (payment <=? toHost);
  do _ <- eguard (burn <=? collateral);
  Ok (toHost, burn).

Definition validate_program (cur r : rev) (storage collateral : N) : res N :=
  do _ <- validate_std cur r;
  do _ <- eguard (mh r <=? mh cur);
  let burn := mh cur - mh r in
  do _ <- eguard (burn <=? storage + collateral);
  do _ <- eguard (mv cur <=? mv r);
  do _ <- eguard (mv r - mv cur =? burn);
  do _ <- eguard (vr cur =? vr r);
  do _ <- eguard (vh cur =? vh r);
  do _ <- eguard (mr cur =? mr r);
  Ok burn.

Definition validate_payment (cur r : rev) (payment : N) : res unit :=
  do _ <- validate_std cur r;
  do _ <- eguard (payment <=? vr cur);     (* SubWithUnderflow: an error, not a panic (fix b3394f9) *)
  do _ <- eguard (payment <=? mr cur);
  do _ <- eguard (vr r =? vr cur - payment);
  do _ <- eguard (mr r =? mr cur - payment);
  do _ <- eguard (vh r =? vh cur + payment);
  eguard (mh r =? mh cur + payment).

(* ClearingRevision (fvr, fvh are the renter's final valid values; missed := valid, number := max)
   followed by ValidateClearingRevision *)
Definition clearing (cur : rev) (fvr fvh : N) : res rev :=
  if rn cur =? max64 then Err EInvalid else Ok (mkRev max64 fvr fvh fvr fvh 0).
Definition validate_clearing (cur final : rev) (finalPayment : N) : res N :=
  do _ <- eguard (mr final <=? vr cur);
  do _ <- eguard (vh cur <=? vh final);
  let fromRenter := vr cur - mr final in
  let toHost := vh final - vh cur in
  do _ <- eguard (fromRenter =? toHost);
  do _ <- eguard (finalPayment <=? fromRenter);
  Ok toHost.

(** * store transitions (persist/sqlite) *)
(* insertContract: UNIQUE(contract_id) *)
Definition insert_con (s : state) (r : crow) : res state :=
  match find_con (cid r) (cons s) with
  | Some _ => Err EOther
  | None => Ok (mkS (cons s ++ [r]) (accts s) (funds s))
  end.
(* reviseContract / clearContract: UPDATE ... WHERE contract_id RETURNING id, then incrementContractUsage *)
Definition revise_con (s : state) (c : N) (r : rev) (u : usage) : res state :=
  match find_con c (cons s) with
  | None => Err ENotFound
  | Some _ => Ok (mkS (upd_con c (fun x => mkC (cid x) r (clocked x) (uadd (cuse x) u)) (cons s)) (accts s) (funds s))
  end.

(* incrementContractAccountFunding: upsert on (contract, account) *)
Fixpoint fund_add (a c amt : N) (fs : list frow) : list frow :=
  match fs with
  | [] => [mkF a c amt]
  | f :: t => if (facct f =? a) && (fcon f =? c) then mkF a c (famt f + amt) :: t else f :: fund_add a c amt t
  end.

(* CreditAccountWithContract *)
Definition credit_store (s : state) (a c : N) (r : rev) (cost amount : N) : res state :=
  let accts' := aset a (balance s a + amount) (accts s) in
  do s1 <- revise_con (mkS (cons s) accts' (funds s)) c r (mkU cost 0 0 0 0 0 amount 0);
  Ok (mkS (cons s1) (accts s1) (fund_add a c amount (funds s1))).

(* distributeFunds: move min(usage, remainder) *)
Definition take (u rem : N) : N * N * N := let v := N.min u rem in (u - v, rem - v, v).
(* one funding row: Storage, Ingress, Egress, RegistryRead, RegistryWrite, RPC — in this order.
   Returns the usage left, the remainder of the row and the additional contract usage. *)
Definition dist_row (u : ausage) (amt : N) : ausage * N * usage :=
  let '(s1, r1, m1) := take (aSto u) amt in
  let '(s2, r2, m2) := take (aIng u) r1 in
  let '(s3, r3, m3) := take (aEgr u) r2 in
  let '(s4, r4, m4) := take (aRR u) r3 in
  let '(s5, r5, m5) := take (aRW u) r4 in
  let '(s6, r6, m6) := take (aRpc u) r5 in
  (mkA s6 s1 s2 s3 s4 s5, r6, mkU m6 m1 m2 m3 m4 m5 0 0).

(* setContractRemainingFunds(AccountFunding.Sub(spent)) then updateContractUsage(additional) *)
Definition con_move (cs : list crow) (c spent : N) (add : usage) : res (list crow) :=
  match find_con c cs with
  | None => Err ENotFound
  | Some r =>
      do rest <- csub (uFund (cuse r)) spent;
      let u := cuse r in
      let u1 := mkU (uRpc u) (uSto u) (uIng u) (uEgr u) (uRR u) (uRW u) rest (uRisk u) in
      Ok (upd_con c (fun x => mkC (cid x) (crev x) (clocked x) (uadd u1 add)) cs)
  end.

Fixpoint distribute (a : N) (u : ausage) (fs : list frow) (cs : list crow) : res (list frow * list crow) :=
  match fs with
  | [] => Ok ([], cs)
  | f :: t =>
      if (facct f =? a) && negb (famt f =? 0) then
        let '(u', rem, add) := dist_row u (famt f) in
        do cs1 <- con_move cs (fcon f) (famt f - rem) add;
        do (t', cs2) <- distribute a u' t cs1;
        Ok ((if rem =? 0 then t' else mkF (facct f) (fcon f) rem :: t'), cs2)
      else
        do (t', cs1) <- distribute a u t cs;
        Ok (f :: t', cs1)
  end.

(* DebitAccount *)
Definition debit_store (s : state) (a : N) (u : ausage) : res state :=
  match alookup a (accts s) with
  | None => Err ENotFound
  | Some bal =>
      if bal <? atotal u then Err EInsufficient
      else
        do (fs, cs) <- distribute a u (funds s) (cons s);
        Ok (mkS cs (aset a (bal - atotal u) (accts s)) fs)
  end.

(* Manager.Lock → isGoodForModification: the contract exists and has not reached the maximum revision
   number (status and distance to the proof window are kept good by the harness) *)
Definition lock (s : state) (c : N) : res crow :=
  match find_con c (cons s) with
  | None => Err ENotFound
  | Some r => if rn (crev r) =? max64 then Err EInvalid else Ok r
  end.

(** * Operations.  Every numeric argument marked (renter) is chosen by the renter. *)
(* the payouts of a proposed file contract (formation / renewal): all (renter) *)
Record fcv := mkFC { fvr : N; fvh : N; fmr : N; fmh : N; fmv : N }.

Inductive payment :=
| PayContract (c : N) (refund : N) (p : prop)       (* contract, refund account, payment revision (renter) *)
| PayAccount (a : N) (amount : N).                  (* account, withdrawal amount (renter) *)

Inductive ikind := KPlain | KRegRead | KRegWrite.
(* one MDM instruction as the executor accounts for it: its ResourceCost, whether it fails before
   it is paid for (argument validation), whether it fails after (storage/registry), and core's
   RequiresContract / RequiresFinalization *)
Record instr := mkI { ikd : ikind; icost : rcost; ipre : bool; ipost : bool; icon : bool; ifin : bool }.

Inductive op :=
(* RHP2 *)
| Form2 (c : N) (price maxColl : N) (fc : fcv)
| Renew2 (c c' : N) (baseRPC price sprice cprice maxColl : N) (fsize extb : N) (fin_vr fin_vh : N) (fc : fcv)
| Roots2 (c : N) (cost : rcost) (p : prop)
| Read2 (c : N) (cost : rcost) (p : prop)
| Write2 (c : N) (cost : rcost) (p : prop)
(* RHP3 *)
| Fund3 (c a : N) (fundCost maxBal : N) (p : prop)
| Simple3 (pay : payment) (cost : N)                 (* price table / account balance / latest revision *)
| Exec3 (pay : payment) (pc : option N) (initCost : N) (prog : list instr) (fin : prop)
| Renew3 (c c' : N) (renewCost price wsc cc maxColl : N) (fsize extb : N) (fin_vr fin_vh : N) (fc : fcv).

Inductive status := SOk | SErr | SPanic.

(** * RHP2 handlers *)
Definition usage_of_cost (c : rcost) : usage := mkU (rcBase c) (rcSto c) (rcIng c) (rcEgr c) 0 0 0 (rcColl c).

Definition form2 (s : state) (c price maxColl : N) (fc : fcv) : res state :=
  do _ <- eguard (fmv fc =? 0);
  do _ <- eguard (price <=? fvh fc);
  do _ <- eguard (fvh fc =? fmh fc);
  do _ <- eguard (fvh fc <=? maxColl);
  do coll <- csub (fvh fc) price;
  insert_con s (mkC c (mkRev 1 (fvr fc) (fvh fc) (fmr fc) (fmh fc) (fmv fc)) coll (mkU price 0 0 0 0 0 0 0)).

(* Store.RenewContract: insert the renewal, clear the existing contract *)
Definition renew_store (s : state) (c : N) (final : rev) (cu : usage) (c' : N) (r' : rev) (locked : N) (ru : usage) : res state :=
  do s1 <- insert_con s (mkC c' r' locked ru);
  revise_con s1 c final cu.

Definition ext_cost (unit fsize extb : N) : N := if 0 <? extb then unit * fsize * extb else 0.

Definition renew2 (s : state) (c c' baseRPC price sprice cprice maxColl fsize extb fin_vr fin_vh : N) (fc : fcv) : res state :=
  do r <- lock s c;
  let cur := crev r in
  do final <- clearing cur fin_vr fin_vh;
  let expected := if vr cur <? baseRPC then vr cur else baseRPC in
  do finalPayment <- validate_clearing cur final expected;
  let baseRev := price + ext_cost sprice fsize extb in
  let baseColl := ext_cost cprice fsize extb in
  (* rhp/v2 validateContractRenewal *)
  do _ <- eguard (fmh fc <=? fvh fc);
  let burn := fvh fc - fmh fc in
  do _ <- eguard (burn <=? baseRev + baseColl);
  do _ <- eguard (fmv fc =? burn);
  let risked := if baseRev <=? burn then burn - baseRev else 0 in
  do _ <- eguard (baseRev <=? fvh fc);
  let locked := fvh fc - baseRev in
  do _ <- eguard (locked <=? maxColl);
  do sto <- csub baseRev price;
  renew_store s c final (mkU finalPayment 0 0 0 0 0 0 0)
              c' (mkRev 1 (fvr fc) (fvh fc) (fmr fc) (fmh fc) (fmv fc)) locked (mkU price sto 0 0 0 0 0 risked).

(* rpcSectorRoots / rpcRead: the excess goes to egress; rpcWrite: to storage, collateral := burn *)
Definition pay2 (s : state) (c : N) (cost : rcost) (p : prop) (to_storage : bool) : res state :=
  do r <- lock s c;
  let total := rctotal cost in
  let coll := if to_storage then rcColl cost else 0 in
  do rv <- revise (crev r) p;
  do (paid, burn) <- validate_revision (crev r) rv total coll;
  let excess := if total <=? paid then paid - total else 0 in
  let cost' :=
    if to_storage then mkRC (rcBase cost) (rcSto cost + excess) (rcIng cost) (rcEgr cost) burn
    else mkRC (rcBase cost) (rcSto cost) (rcIng cost) (rcEgr cost + excess) (rcColl cost) in
  revise_con s c rv (usage_of_cost cost').

(** * RHP3 *)
Definition fund3 (s : state) (c a fundCost maxBal : N) (p : prop) : res state :=
  do r <- lock s c;
  let cur := crev r in
  do rv <- revise cur p;
  do _ <- eguard (vr rv <=? vr cur);
  let total := vr cur - vr rv in
  do _ <- validate_payment cur rv total;
  do amount <- csub total fundCost;                (* totalAmount.Sub(pt.FundAccountCost) *)
  do _ <- eguard (balance s a + amount <=? maxBal);  (* Credit(refund = false) *)
  credit_store s a c rv fundCost amount.

(* processPayment: returns the state after the payment, the account and the budget *)
Definition process_payment (s : state) (pay : payment) : res (state * N * N) :=
  match pay with
  | PayContract c refund p =>
      do r <- lock s c;
      let cur := crev r in
      do rv <- revise cur p;
      do _ <- eguard (vr rv <=? vr cur);
      let amount := vr cur - vr rv in
      do _ <- validate_payment cur rv amount;
      do s1 <- credit_store s refund c rv 0 amount;  (* Credit(refund = true): no balance cap *)
      Ok (s1, refund, amount)
  | PayAccount a amount =>
      do _ <- eguard (negb (amount =? 0));
      if balance s a <? amount then Err EInsufficient else Ok (s, a, amount)
  end.

(* Budget.Spend *)
Definition spend (max : N) (cur u : ausage) : option ausage :=
  let n := aadd cur u in if max <? atotal n then None else Some n.

(* a step that may fail after it has already changed the state returns the state reached *)
Definition outcome := (state * status)%type.
Definition of_res (s : state) (r : res state) : outcome :=
  match r with Ok s' => (s', SOk) | Err _ => (s, SErr) | Panic => (s, SPanic) end.

Definition simple3 (s : state) (pay : payment) (cost : N) : outcome :=
  match process_payment s pay with
  | Err _ => (s, SErr) | Panic => (s, SPanic)
  | Ok (s1, a, max) =>
      match spend max a0 (mkA cost 0 0 0 0 0) with
      | None => (s1, SErr)                           (* budget rolled back, the credit stays *)
      | Some u => match debit_store s1 a u with
                  | Ok s2 => (s2, SOk) | Err _ => (s1, SErr) | Panic => (s1, SPanic)
                  end
      end
  end.

(* the usage an instruction is booked under (costToAccountUsage, and the registry instructions) *)
Definition usage_of_instr (k : ikind) (c : rcost) : ausage :=
  match k with
  | KPlain => mkA (rcBase c) (rcSto c) (rcIng c) (rcEgr c) 0 0
  | KRegRead => mkA (rcBase c) 0 (rcIng c) (rcEgr c) (rcSto c) 0
  | KRegWrite => mkA (rcBase c) 0 (rcIng c) (rcEgr c) 0 (rcSto c)
  end.

(* executeProgram: returns (cost so far, usage so far, failed?) *)
Fixpoint run_prog (max : N) (cost : rcost) (u : ausage) (prog : list instr) : rcost * ausage * bool :=
  match prog with
  | [] => (cost, u, false)
  | i :: t =>
      if negb (ipre i) then (cost, u, true)
      else match spend max u (usage_of_instr (ikd i) (icost i)) with
           | None => (cost, u, true)
           | Some u' =>
               let cost' := rcadd cost (icost i) in
               if negb (ipost i) then (cost', u', true) else run_prog max cost' u' t
           end
  end.

Definition exec3 (s : state) (pay : payment) (pc : option N) (initCost : N) (prog : list instr) (fin : prop) : outcome :=
  match process_payment s pay with
  | Err _ => (s, SErr) | Panic => (s, SPanic)
  | Ok (s1, a, max) =>
      match spend max a0 (mkA initCost 0 0 0 0 0) with
      | None => (s1, SErr)
      | Some u0' =>
          let needc := existsb (fun i => icon i || ifin i) prog in
          let needf := existsb ifin prog in
          let locked : res (option crow) :=
            if needc then match pc with
                          | None => Err EInvalid
                          | Some c => do r <- lock s1 c; Ok (Some r)
                          end
            else Ok None in
          match locked with
          | Err _ => (s1, SErr) | Panic => (s1, SPanic)
          | Ok orow =>
              let '(cost, u, failed) := run_prog max rc0 u0' prog in
              if failed then
                (* rollback: refund the storage spending, commit the rest *)
                match debit_store s1 a (mkA (aRpc u) 0 (aIng u) (aEgr u) (aRR u) (aRW u)) with
                | Ok s2 => (s2, SErr) | Err _ => (s1, SErr) | Panic => (s1, SPanic)
                end
              else
                (* commit *)
                let fin_res : res state :=
                  if needf then
                    match orow with
                    | None => Err EInvalid
                    | Some r =>
                        do rv <- revise (crev r) fin;
                        do _ <- validate_program (crev r) rv (rcSto cost) (rcColl cost);
                        revise_con s1 (cid r) rv (mkU 0 0 0 0 0 0 0 (rcColl cost))
                    end
                  else Ok s1 in
                match fin_res with
                | Err _ => (s1, SErr)                (* budget rolled back: nothing is debited *)
                | Panic => (s1, SPanic)
                | Ok s2 => match debit_store s2 a u with
                           | Ok s3 => (s3, SOk) | Err _ => (s2, SErr) | Panic => (s2, SPanic)
                           end
                end
          end
      end
  end.

Definition renew3 (s : state) (c c' renewCost price wsc cc maxColl fsize extb fin_vr fin_vh : N) (fc : fcv) : res state :=
  do r <- lock s c;
  let cur := crev r in
  do final <- clearing cur fin_vr fin_vh;
  do finalPayment <- validate_clearing cur final 0;
  let baseRev := renewCost + ext_cost wsc fsize extb in
  let baseColl := ext_cost cc fsize extb in
  (* rhp/v3 validateContractRenewal *)
  do _ <- eguard (fmh fc <=? fvh fc);
  let burn := fvh fc - fmh fc in
  do _ <- eguard (burn <=? baseRev + baseColl);
  do _ <- eguard (fmv fc =? burn);
  let risked := if baseRev <=? burn then burn - baseRev else 0 in
  let minValid := price + baseRev in
  do _ <- eguard (minValid <=? fvh fc);
  let locked := fvh fc - minValid in
  do _ <- eguard (locked <=? maxColl);
  do minMissed <- csub (price + locked) risked;
  do _ <- eguard (minMissed <=? fmh fc);
  renew_store s c final (mkU finalPayment 0 0 0 0 0 0 0)
              c' (mkRev 1 (fvr fc) (fvh fc) (fmr fc) (fmh fc) (fmv fc)) locked (mkU price baseRev 0 0 0 0 0 risked).

Definition step_out (s : state) (o : op) : outcome :=
  match o with
  | Form2 c price maxColl fc => of_res s (form2 s c price maxColl fc)
  | Renew2 c c' b p sp cp mc fs ex fr fh fc => of_res s (renew2 s c c' b p sp cp mc fs ex fr fh fc)
  | Roots2 c cost p => of_res s (pay2 s c cost p false)
  | Read2 c cost p => of_res s (pay2 s c cost p false)
  | Write2 c cost p => of_res s (pay2 s c cost p true)
  | Fund3 c a fc mb p => of_res s (fund3 s c a fc mb p)
  | Simple3 pay cost => simple3 s pay cost
  | Exec3 pay pc ic prog fin => exec3 s pay pc ic prog fin
  | Renew3 c c' rc p w k mc fs ex fr fh fc => of_res s (renew3 s c c' rc p w k mc fs ex fr fh fc)
  end.

(** * Correspondence entry point *)
(* what the harness reads back after every RPC: for every contract of the case (formation order)
   Contract().Revision (number + 5 values), .LockedCollateral, .Usage (8 fields); and the balance of
   every account of the case *)
Record cview := mkV { wid : N; wrev : rev; wlocked : N; wuse : usage }.
Inductive obs := Obs (st : status) (cs : list cview) (bals : list (N * N)).

Definition view (r : crow) : cview := mkV (cid r) (crev r) (clocked r) (cuse r).
(* accounts are reported for ids 1..3 (0 for a missing account) *)
Definition bal_view (s : state) : list (N * N) := map (fun a => (a, balance s a)) [1; 2; 3].

Definition step (s : state) (o : op) : state * obs :=
  let '(s', st) := step_out s o in (s', Obs st (map view (cons s')) (bal_view s')).

Definition status_eqb (a b : status) : bool :=
  match a, b with SOk, SOk | SErr, SErr | SPanic, SPanic => true | _, _ => false end.
Definition rev_eqb (a b : rev) : bool :=
  (rn a =? rn b) && (vr a =? vr b) && (vh a =? vh b) && (mr a =? mr b) && (mh a =? mh b) && (mv a =? mv b).
Definition usage_eqb (a b : usage) : bool :=
  (uRpc a =? uRpc b) && (uSto a =? uSto b) && (uIng a =? uIng b) && (uEgr a =? uEgr b) &&
  (uRR a =? uRR b) && (uRW a =? uRW b) && (uFund a =? uFund b) && (uRisk a =? uRisk b).
Definition cview_eqb (a b : cview) : bool :=
  (wid a =? wid b) && rev_eqb (wrev a) (wrev b) && (wlocked a =? wlocked b) && usage_eqb (wuse a) (wuse b).
Definition pair_eqb (a b : N * N) : bool := (fst a =? fst b) && (snd a =? snd b).
Definition obs_eqb (a b : obs) : bool :=
  match a, b with
  | Obs s1 c1 b1, Obs s2 c2 b2 => status_eqb s1 s2 && list_eqb cview_eqb c1 c2 && list_eqb pair_eqb b1 b2
  end.

Definition case := (N * list (op * obs))%type.
Definition check (cs : list case) := mismatches init step obs_eqb cs.
