(* Revenue/ModelV2.v — the accounting of v2 (RHP4) contracts (C10, second half).

   hostd's part of an RHP4 RPC is what its contract manager and store do with the revision and the
   Usage the coreutils server hands them:
     host/contracts/manager.go   AddV2Contract, ReviseV2Contract (renewed contracts are not revised),
                                 RenewV2Contract
     host/contracts/accounts.go  CreditAccountsWithContract, DebitAccount (pass-through)
     persist/sqlite/contracts.go insertV2Contract (usage columns), reviseV2Contract,
                                 incrementV2ContractUsage (column by column), RenewV2Contract (renewed_to)
     persist/sqlite/accounts.go  RHP4CreditAccounts (balances, contract_v2_account_funding, revision +
                                 usage in one transaction), RHP4DebitAccount, distributeRHP4AccountUsage
   The revision and the Usage themselves are computed by go.sia.tech/core (rhp/v4: NewContract,
   PayWithContract behind ReviseFor*, RenewContract, RefreshContract) from the prices and the renter's
   parameters; that arithmetic is modelled too (it is what the "hence host output − total collateral
   = recorded renter spending" half of the property rests on) and is tied like everything else by
   comparing V2Contract() after every RPC.  Currency additions are unbounded N as in Model.v. *)
From HostdBase Require Import Base.
From HostdRevenue Require Import Model.
Open Scope N_scope.

(* proto4.Usage *)
Record usage2 := mkU2 { vRpc : N; vSto : N; vEgr : N; vIng : N; vFund : N; vRisk : N }.
Definition v0 : usage2 := mkU2 0 0 0 0 0 0.
Definition vadd (a b : usage2) : usage2 :=
  mkU2 (vRpc a + vRpc b) (vSto a + vSto b) (vEgr a + vEgr b) (vIng a + vIng b) (vFund a + vFund b) (vRisk a + vRisk b).
(* Usage.RenterCost: what the renter paid *)
Definition rcost2 (u : usage2) : N := vRpc u + vSto u + vEgr u + vIng u + vFund u.

(* the accounting fields of a V2FileContract *)
Record fc2 := mkFC2 { f2rn : N; f2renter : N; f2host : N; f2missed : N; f2total : N }.

Inductive kind2 := KFormed | KRenewed | KRefreshed.
(* [ckind] is not stored by hostd: it records which RPC created the row, for the statement
   "formed or renewed (not refreshed)" *)
Record crow2 := mkC2 { cid2 : N; cfc : fc2; cuse2 : usage2; crenewed : bool; ckind : kind2 }.
Record state2 := mkS2 { cons2 : list crow2; accts2 : list (N * N); funds2 : list frow }.
Definition init2 : state2 := mkS2 [] [] [].

Fixpoint find2 (c : N) (cs : list crow2) : option crow2 :=
  match cs with
  | [] => None
  | r :: t => if cid2 r =? c then Some r else find2 c t
  end.
Fixpoint upd2 (c : N) (f : crow2 -> crow2) (cs : list crow2) : list crow2 :=
  match cs with
  | [] => []
  | r :: t => if cid2 r =? c then f r :: t else r :: upd2 c f t
  end.
Definition balance2 (s : state2) (a : N) : N :=
  match alookup a (accts2 s) with Some b => b | None => 0 end.

(** * core/rhp/v4 *)
(* PayWithContract *)
Definition pay_with_contract (fc : fc2) (u : usage2) : res fc2 :=
  if f2renter fc <? rcost2 u then Err EInsufficient
  else if f2missed fc <? vRisk u then Err EInsufficient
  else Ok (mkFC2 (f2rn fc + 1) (f2renter fc - rcost2 u) (f2host fc + rcost2 u) (f2missed fc - vRisk u) (f2total fc)).

(* NewContract *)
Definition new_contract (price allowance coll : N) : fc2 * usage2 :=
  (mkFC2 0 allowance (coll + price) coll coll, mkU2 price 0 0 0 0 0).

(* RenewContract: storageCost and riskedColl are core's price × size × duration products *)
Definition renew_contract (price allowance coll storageCost riskedColl : N) : res (fc2 * usage2) :=
  let total := coll + riskedColl in
  let host := total + storageCost + price in
  do a <- csub host total;
  do sto <- csub a price;
  do risk <- csub total coll;
  Ok (mkFC2 0 allowance host coll total, mkU2 price sto 0 0 0 risk).

(* RefreshContract *)
Definition refresh_contract (old : fc2) (price allowance coll : N) : res (fc2 * usage2) :=
  let total := f2total old + coll in
  let missed := f2missed old + coll in
  do risk <- csub total missed;
  Ok (mkFC2 0 (f2renter old + allowance) (f2host old + coll + price) missed total, mkU2 price 0 0 0 0 risk).

(** * hostd: manager + store *)
(* LockV2Contract + the server's Revisable check + Manager.ReviseV2Contract's RenewedTo check *)
Definition lock2 (s : state2) (c : N) : res crow2 :=
  match find2 c (cons2 s) with
  | None => Err ENotFound
  | Some r => if crenewed r then Err EInvalid else Ok r
  end.

(* insertV2Contract *)
Definition insert2 (s : state2) (r : crow2) : res state2 :=
  match find2 (cid2 r) (cons2 s) with
  | Some _ => Err EOther
  | None => Ok (mkS2 (cons2 s ++ [r]) (accts2 s) (funds2 s))
  end.

(* reviseV2Contract: raw_revision := fc, then incrementV2ContractUsage *)
Definition revise2 (s : state2) (c : N) (fc : fc2) (u : usage2) : res state2 :=
  match find2 c (cons2 s) with
  | None => Err ENotFound
  | Some _ => Ok (mkS2 (upd2 c (fun x => mkC2 (cid2 x) fc (vadd (cuse2 x) u) (crenewed x) (ckind x)) (cons2 s)) (accts2 s) (funds2 s))
  end.

(* RHP4CreditAccounts: balances and funding rows per deposit, then the revision *)
Fixpoint credit_deposits (c : N) (deps : list (N * N)) (accts : list (N * N)) (fs : list frow) : list (N * N) * list frow :=
  match deps with
  | [] => (accts, fs)
  | (a, amt) :: t =>
      let bal := match alookup a accts with Some b => b | None => 0 end in
      credit_deposits c t (aset a (bal + amt) accts) (fund_add a c amt fs)
  end.
Definition dep_total (deps : list (N * N)) : N := fold_right (fun d acc => snd d + acc) 0 deps.

Definition credit2 (s : state2) (c : N) (deps : list (N * N)) (fc : fc2) (u : usage2) : res state2 :=
  match find2 c (cons2 s) with
  | None => Err ENotFound
  | Some _ =>
      let '(accts', fs') := credit_deposits c deps (accts2 s) (funds2 s) in
      revise2 (mkS2 (cons2 s) accts' fs') c fc u
  end.

(* distributeRHP4AccountUsage: Storage, Ingress, Egress, RPC *)
Definition dist_row2 (u : usage2) (amt : N) : usage2 * N * usage2 :=
  let '(s1, r1, m1) := take (vSto u) amt in
  let '(s2, r2, m2) := take (vIng u) r1 in
  let '(s3, r3, m3) := take (vEgr u) r2 in
  let '(s4, r4, m4) := take (vRpc u) r3 in
  (mkU2 s4 s1 s3 s2 (vFund u) (vRisk u), r4, mkU2 m4 m1 m3 m2 0 0).

Definition con_move2 (cs : list crow2) (c spent : N) (add : usage2) : res (list crow2) :=
  match find2 c cs with
  | None => Err ENotFound
  | Some r =>
      do rest <- csub (vFund (cuse2 r)) spent;
      let u := cuse2 r in
      let u1 := mkU2 (vRpc u) (vSto u) (vEgr u) (vIng u) rest (vRisk u) in
      Ok (upd2 c (fun x => mkC2 (cid2 x) (cfc x) (vadd u1 add) (crenewed x) (ckind x)) cs)
  end.

Fixpoint distribute2 (a : N) (u : usage2) (fs : list frow) (cs : list crow2) : res (list frow * list crow2) :=
  match fs with
  | [] => Ok ([], cs)
  | f :: t =>
      if (facct f =? a) && negb (famt f =? 0) then
        let '(u', rem, add) := dist_row2 u (famt f) in
        do cs1 <- con_move2 cs (fcon f) (famt f - rem) add;
        do (t', cs2) <- distribute2 a u' t cs1;
        Ok ((if rem =? 0 then t' else mkF (facct f) (fcon f) rem :: t'), cs2)
      else
        do (t', cs1) <- distribute2 a u t cs;
        Ok (f :: t', cs1)
  end.

(* RHP4DebitAccount *)
Definition debit2 (s : state2) (a : N) (u : usage2) : res state2 :=
  match alookup a (accts2 s) with
  | None => Err EInsufficient
  | Some bal =>
      if bal <? rcost2 u then Err EInsufficient
      else
        do (fs, cs) <- distribute2 a u (funds2 s) (cons2 s);
        Ok (mkS2 cs (aset a (bal - rcost2 u) (accts2 s)) fs)
  end.

(** * RPCs *)
Inductive op2 :=
| Form4 (c : N) (price allowance coll : N)
| Pay4 (c : N) (rpc sto egr ing risk : N)            (* AppendSectors / FreeSectors / SectorRoots: core's RPC*Cost *)
| Fund4 (c : N) (deps : list (N * N))                (* FundAccounts: (account, amount) *)
| Replenish4 (c : N) (accts : list N) (target : N)   (* ReplenishAccounts *)
| Debit4 (a : N) (u : usage2)                        (* WriteSector / ReadSector / VerifySector by account token *)
| Renew4 (c c' : N) (price allowance coll storageCost riskedColl : N)
| Refresh4 (c c' : N) (price allowance coll : N).

Definition form4 (s : state2) (c price allowance coll : N) : res state2 :=
  let '(fc, u) := new_contract price allowance coll in
  insert2 s (mkC2 c fc u false KFormed).

Definition pay4 (s : state2) (c : N) (u : usage2) : res state2 :=
  do r <- lock2 s c;
  do fc <- pay_with_contract (cfc r) u;
  revise2 s c fc u.

Definition fund4 (s : state2) (c : N) (deps : list (N * N)) : res state2 :=
  do r <- lock2 s c;
  let u := mkU2 0 0 0 0 (dep_total deps) 0 in
  do fc <- pay_with_contract (cfc r) u;
  credit2 s c deps fc u.

Definition replenish_deps (s : state2) (accts : list N) (target : N) : list (N * N) :=
  map (fun a => (a, if balance2 s a <=? target then target - balance2 s a else 0)) accts.

Definition replenish4 (s : state2) (c : N) (accts : list N) (target : N) : res state2 :=
  (* RPCReplenishAccountsRequest.Validate *)
  do _ <- eguard (negb (target =? 0));
  do _ <- eguard (negb (length accts =? 0)%nat);
  do r <- lock2 s c;
  let deps := replenish_deps s accts target in
  if dep_total deps =? 0 then Ok s
  else
    let u := mkU2 0 0 0 0 (dep_total deps) 0 in
    do fc <- pay_with_contract (cfc r) u;
    credit2 s c deps fc u.

(* Store.RenewV2Contract: insert the new contract, set renewed_to on the existing one *)
Definition renew_store2 (s : state2) (c : N) (nr : crow2) : res state2 :=
  do s1 <- insert2 s nr;
  match find2 c (cons2 s1) with
  | None => Err ENotFound
  | Some _ => Ok (mkS2 (upd2 c (fun x => mkC2 (cid2 x) (cfc x) (cuse2 x) true (ckind x)) (cons2 s1)) (accts2 s1) (funds2 s1))
  end.

Definition renew4 (s : state2) (c c' price allowance coll storageCost riskedColl : N) : res state2 :=
  do r <- lock2 s c;
  do (fc, u) <- renew_contract price allowance coll storageCost riskedColl;
  renew_store2 s c (mkC2 c' fc u false KRenewed).

Definition refresh4 (s : state2) (c c' price allowance coll : N) : res state2 :=
  do r <- lock2 s c;
  do (fc, u) <- refresh_contract (cfc r) price allowance coll;
  renew_store2 s c (mkC2 c' fc u false KRefreshed).

Definition step_res2 (s : state2) (o : op2) : res state2 :=
  match o with
  | Form4 c p a k => form4 s c p a k
  | Pay4 c rpc sto egr ing risk => pay4 s c (mkU2 rpc sto egr ing 0 risk)
  | Fund4 c d => fund4 s c d
  | Replenish4 c l t => replenish4 s c l t
  | Debit4 a u => debit2 s a u
  | Renew4 c c' p a k sc rc => renew4 s c c' p a k sc rc
  | Refresh4 c c' p a k => refresh4 s c c' p a k
  end.

Definition next2 (s : state2) (o : op2) : state2 * status :=
  match step_res2 s o with Ok s' => (s', SOk) | Err _ => (s, SErr) | Panic => (s, SPanic) end.

(** * Correspondence entry point *)
Record cview2 := mkV2 { w2id : N; w2fc : fc2; w2use : usage2; w2renewed : bool }.
Inductive obs2 := Obs2 (st : status) (cs : list cview2) (bals : list (N * N)).
Definition view2 (r : crow2) : cview2 := mkV2 (cid2 r) (cfc r) (cuse2 r) (crenewed r).
Definition bal_view2 (s : state2) : list (N * N) := map (fun a => (a, balance2 s a)) [1; 2; 3].

Definition step2 (s : state2) (o : op2) : state2 * obs2 :=
  let '(s', st) := next2 s o in (s', Obs2 st (map view2 (cons2 s')) (bal_view2 s')).

Definition fc2_eqb (a b : fc2) : bool :=
  (f2rn a =? f2rn b) && (f2renter a =? f2renter b) && (f2host a =? f2host b) && (f2missed a =? f2missed b) && (f2total a =? f2total b).
Definition usage2_eqb (a b : usage2) : bool :=
  (vRpc a =? vRpc b) && (vSto a =? vSto b) && (vEgr a =? vEgr b) && (vIng a =? vIng b) && (vFund a =? vFund b) && (vRisk a =? vRisk b).
Definition cview2_eqb (a b : cview2) : bool :=
  (w2id a =? w2id b) && fc2_eqb (w2fc a) (w2fc b) && usage2_eqb (w2use a) (w2use b) && Bool.eqb (w2renewed a) (w2renewed b).
Definition obs2_eqb (a b : obs2) : bool :=
  match a, b with
  | Obs2 s1 c1 b1, Obs2 s2 c2 b2 => status_eqb s1 s2 && list_eqb cview2_eqb c1 c2 && list_eqb pair_eqb b1 b2
  end.

Definition case2 := (N * list (op2 * obs2))%type.
Definition check2 (cs : list case2) := mismatches init2 step2 obs2_eqb cs.
