(* Revenue/ConcV1.v — n concurrent RHP2/RHP3 sessions over several v1 contracts and accounts (WP-V).

   Model.v runs RPCs one after the other.  The host serves every RHP2 session and every RHP3 stream
   in its own goroutine.  The grain of the code:

     Lock i c       contracts.Manager.Lock (host/contracts/lock.go): waits for the lock of c, reads
                    the row and returns its SignedRevision: the handler's [current] (rhp/v3/payments.go
                    26 and 170, rhp/v3/rpc.go 333 and 535, rhp/v2/rpc.go rpcLock 75)
     Persist i x    the handler decides on ITS COPY of the revision (Revise + Validate* of
                    rhp/contracts.go, prices) and writes in ONE SQL transaction (db.SetMaxOpenConns(1):
                    transactions are serial):
                      ReviseContract            reviseContract(revision) + incrementContractUsage + roots
                      CreditAccountWithContract balance + reviseContract + usage + funding row
                      RenewContract             insertContract(usage) + clearContract(revision, usage)
                    — in all three the revision and the usage it was paid for are in the same
                    transaction.  Deciding touches nothing shared, so it is not a step of its own;
                    an RHP2 session goes on with the revision it persisted (s.contract) and may
                    persist again under the same lock
     Unlock i       at any time after Lock
   and without a contract lock, each ONE SQL transaction:
     Form ...       AddContract
     Debit a u      Budget.Commit → DebitAccount: balance, funding rows and the account_funding →
                    revenue columns of the FUNDING CONTRACTS' rows (whose lock another session may hold)

   An RHP3 RPC paid by contract is SEVERAL of these transactions (XPayC under the lock of the
   paying contract, then — lock released — the program's finalisation XFin under the lock of the
   program's contract, then the lock-free debit of the budget), an RPC paid by account only debits.
   [simple3_atoms] / [single_atom] relate Model.v's RPCs to the transactions.

   What is proved: every schedule, cut at ANY point, has a store that is the sequential run of the
   committed transactions in commit order, each deciding on the row as stored at that moment
   ([conc1_serializable]); every transaction keeps the conservation invariant of Proofs.v, so
   c10_v1_conservation's equation holds in every reachable interleaved state, also BETWEEN the
   transactions of one RPC ([conc1_conservation]): after XPayC the payment sits in the refund
   account's funding column of the paying contract, the debit later moves it into revenue columns.
   Not modelled: the account manager's in-memory budgets (one RPC at a time per account, C04/C15).

   [strict = false] lets a session read the revision before it asks for the lock (seeded C10-mut6:
   rhp/v3 renew validating the clearing revision before Lock); [relaxed1_refuted]. *)
From Coq Require Import Lia ZifyBool ZifyN ZifyNat Arith.
From HostdBase Require Import Base.
From HostdRevenue Require Import Model Proofs.
Open Scope N_scope.

(** * Atomic transactions *)
Inductive ltx :=
| XPay2 (cost : rcost) (p : prop) (to_storage : bool)   (* rpcSectorRoots / rpcRead / rpcWrite *)
| XFund3 (a fundCost maxBal : N) (p : prop)              (* processFundAccountPayment *)
| XPayC (refund : N) (p : prop)                          (* processContractPayment of any RHP3 RPC *)
| XFin (fin : prop) (sto coll : N)                       (* finalisation revision of a program *)
| XRenew2 (c' baseRPC price sprice cprice maxColl fsize extb fin_vr fin_vh : N) (fc : fcv)
| XRenew3 (c' renewCost price wsc cc maxColl fsize extb fin_vr fin_vh : N) (fc : fcv).

Definition fin_tx (s : state) (c : N) (fin : prop) (sto coll : N) : res state :=
  do r <- lock s c;
  do rv <- revise (crev r) fin;
  do _ <- validate_program (crev r) rv sto coll;
  revise_con s c rv (mkU 0 0 0 0 0 0 0 coll).

Definition apply_ltx (s : state) (c : N) (x : ltx) : res state :=
  match x with
  | XPay2 cost p ts => pay2 s c cost p ts
  | XFund3 a fc mb p => fund3 s c a fc mb p
  | XPayC refund p => do y <- process_payment s (PayContract c refund p); Ok (fst (fst y))
  | XFin fin sto coll => fin_tx s c fin sto coll
  | XRenew2 c' b p sp cp mc fs ex fr fh fc => renew2 s c c' b p sp cp mc fs ex fr fh fc
  | XRenew3 c' rc p w k mc fs ex fr fh fc => renew3 s c c' rc p w k mc fs ex fr fh fc
  end.

Inductive atx :=
| ALocked (c : N) (x : ltx)
| AForm (c price maxColl : N) (fc : fcv)
| ADebit (a : N) (u : ausage).

Definition astep (s : state) (t : atx) : res state :=
  match t with
  | ALocked c x => apply_ltx s c x
  | AForm c p mc fc => form2 s c p mc fc
  | ADebit a u => debit_store s a u
  end.

Fixpoint aseq (s : state) (l : list atx) : option state :=
  match l with
  | [] => Some s
  | t :: r => match astep s t with Ok s' => aseq s' r | _ => None end
  end.

(* the store as the handler sees it: row c carries the revision the handler was given *)
Definition with_rev (s : state) (c : N) (rv : rev) : state :=
  mkS (upd_con c (fun x => mkC (cid x) rv (clocked x) (cuse x)) (cons s)) (accts s) (funds s).

Definition rev_of (s : state) (c : N) (dflt : rev) : rev :=
  match find_con c (cons s) with Some r => crev r | None => dflt end.

(** * Sessions *)
Inductive sst1 := UIdle | URead (c : N) (snap : rev) | ULocked (c : N) (snap : rev).

Inductive label1 :=
| KRead (i : nat) (c : N)
| KLock (i : nat) (c : N)
| KPersist (i : nat) (x : ltx)
| KUnlock (i : nat)
| KForm (c price maxColl : N) (fc : fcv)
| KDebit (a : N) (u : ausage).

Record cstate1 := mkCS1 {
  store1 : state;
  holder1 : N -> option nat;
  sess1 : nat -> sst1;
  clog1 : list atx
}.
Definition cinit1 (s0 : state) : cstate1 := mkCS1 s0 (fun _ => None) (fun _ => UIdle) [].

Definition updS1 (f : nat -> sst1) (i : nat) (s : sst1) : nat -> sst1 := fun j => if Nat.eqb j i then s else f j.
Definition updH1 (f : N -> option nat) (c : N) (h : option nat) : N -> option nat := fun d => if d =? c then h else f d.

Definition cstep1 (strict : bool) (st : cstate1) (l : label1) : option cstate1 :=
  match l with
  | KRead i c =>
      if strict then None else
      match sess1 st i, find_con c (cons (store1 st)) with
      | UIdle, Some r => Some (mkCS1 (store1 st) (holder1 st) (updS1 (sess1 st) i (URead c (crev r))) (clog1 st))
      | _, _ => None
      end
  | KLock i c =>
      match holder1 st c with
      | Some _ => None
      | None =>
          match sess1 st i with
          | UIdle =>
              match find_con c (cons (store1 st)) with
              | Some r => Some (mkCS1 (store1 st) (updH1 (holder1 st) c (Some i)) (updS1 (sess1 st) i (ULocked c (crev r))) (clog1 st))
              | None => Some st
              end
          | URead c' snap =>
              if c' =? c then Some (mkCS1 (store1 st) (updH1 (holder1 st) c (Some i)) (updS1 (sess1 st) i (ULocked c snap)) (clog1 st))
              else None
          | _ => None
          end
      end
  | KPersist i x =>
      match sess1 st i with
      | ULocked c snap =>
          match apply_ltx (with_rev (store1 st) c snap) c x with
          | Ok s' => Some (mkCS1 s' (holder1 st) (updS1 (sess1 st) i (ULocked c (rev_of s' c snap))) (clog1 st ++ [ALocked c x]))
          | _ => Some st             (* refused: nothing is written, the session keeps its revision *)
          end
      | _ => None
      end
  | KUnlock i =>
      match sess1 st i with
      | ULocked c _ =>
          match holder1 st c with
          | Some j => if Nat.eqb j i
                      then Some (mkCS1 (store1 st) (updH1 (holder1 st) c None) (updS1 (sess1 st) i UIdle) (clog1 st))
                      else None
          | None => None
          end
      | _ => None
      end
  | KForm c p mc fc =>
      match form2 (store1 st) c p mc fc with
      | Ok s' => Some (mkCS1 s' (holder1 st) (sess1 st) (clog1 st ++ [AForm c p mc fc]))
      | _ => Some st
      end
  | KDebit a u =>
      match debit_store (store1 st) a u with
      | Ok s' => Some (mkCS1 s' (holder1 st) (sess1 st) (clog1 st ++ [ADebit a u]))
      | _ => Some st
      end
  end.

Fixpoint crun1 (strict : bool) (st : cstate1) (tr : list label1) : option cstate1 :=
  match tr with
  | [] => Some st
  | l :: t => match cstep1 strict st l with Some st' => crun1 strict st' t | None => None end
  end.

(** * Lemmas *)
Lemma aseq_app l1 : forall s l2 s1, aseq s l1 = Some s1 -> aseq s (l1 ++ l2) = aseq s1 l2.
Proof.
  induction l1 as [|o t IH]; intros s l2 s1 H; cbn [aseq app] in *.
  - inversion H; reflexivity.
  - destruct (astep s o) as [s'| |]; try discriminate. now apply IH.
Qed.
Lemma aseq_snoc l s s1 o s2 : aseq s l = Some s1 -> astep s1 o = Ok s2 -> aseq s (l ++ [o]) = Some s2.
Proof. intros H E. rewrite (aseq_app _ _ _ _ H). cbn. now rewrite E. Qed.

Lemma upd_con_id c rv cs r :
  find_con c cs = Some r -> crev r = rv -> upd_con c (fun x => mkC (cid x) rv (clocked x) (cuse x)) cs = cs.
Proof.
  induction cs as [|x t IH]; cbn; [discriminate|].
  destruct (cid x =? c) eqn:E.
  - intros H R; inversion H; subst x. rewrite <- R. destruct r; reflexivity.
  - intros H R. f_equal. now apply IH.
Qed.

Lemma with_rev_id s c rv r : find_con c (cons s) = Some r -> crev r = rv -> with_rev s c rv = s.
Proof. intros F R. unfold with_rev. rewrite (upd_con_id _ _ _ _ F R). destruct s; reflexivity. Qed.

Definition snap1_ok (s : state) (c : N) (snap : rev) : Prop :=
  exists r, find_con c (cons s) = Some r /\ crev r = snap.

Definition frame1_all (s s' : state) : Prop :=
  forall c r, find_con c (cons s) = Some r -> exists r', find_con c (cons s') = Some r' /\ crev r' = crev r.
Definition frame1_but (c : N) (s s' : state) : Prop :=
  forall c' r, c' <> c -> find_con c' (cons s) = Some r -> find_con c' (cons s') = Some r.

Lemma debit_store_frame s a u s' : debit_store s a u = Ok s' -> frame1_all s s'.
Proof.
  intros H. unfold debit_store in H.
  destruct (alookup a (accts s)) as [bal|]; [|discriminate].
  destruct (bal <? atotal u); [discriminate|].
  bind_inv H. destruct x as [fs cs]. inversion H; subst s'; clear H.
  apply distribute_spec in B. destruct B as [[_ M] _].
  intros c r F. destruct (M _ _ F) as (r' & F' & A & _). exists r'. cbn. auto.
Qed.

Lemma form2_frame s c p mc fc s' : form2 s c p mc fc = Ok s' -> frame1_all s s'.
Proof.
  unfold form2. intros H. bind_inv H. intros c0 r F. exists r. split; [eapply insert_con_find; eauto|reflexivity].
Qed.

Lemma revise_con_frame s c r u s' : revise_con s c r u = Ok s' -> frame1_but c s s'.
Proof.
  unfold revise_con. destruct (find_con c (cons s)); [|discriminate]. intros H; inversion H; subst s'; clear H.
  intros c' x N F. cbn. rewrite find_upd_other; auto.
Qed.

Lemma credit_store_frame s a c r cost amount s' : credit_store s a c r cost amount = Ok s' -> frame1_but c s s'.
Proof.
  unfold credit_store. intros H. bind_inv H. inversion H; subst s'; clear H. cbn.
  apply revise_con_frame in B. exact B.
Qed.

Lemma renew_store_frame s c final cu c' r' locked ru s' :
  renew_store s c final cu c' r' locked ru = Ok s' -> frame1_but c s s'.
Proof.
  unfold renew_store. intros H. bind_inv H. apply revise_con_frame in H.
  intros c0 r N F. apply H; [exact N|]. eapply insert_con_find; eauto.
Qed.

Lemma apply_ltx_frame s c x s' : apply_ltx s c x = Ok s' -> frame1_but c s s'.
Proof.
  destruct x; cbn [apply_ltx]; intros H.
  - unfold pay2 in H. bind_inv H. destruct x1. eapply revise_con_frame; eauto.
  - unfold fund3 in H. bind_inv H. eapply credit_store_frame; eauto.
  - bind_inv H. destruct x as [[s1 a] m]. inversion H; subst s'; clear H. cbn [fst].
    cbn [process_payment] in B. bind_inv B. inversion B; subst; clear B. eapply credit_store_frame; eauto.
  - unfold fin_tx in H. bind_inv H. eapply revise_con_frame; eauto.
  - unfold renew2 in H. bind_inv H. eapply renew_store_frame; eauto.
  - unfold renew3 in H. bind_inv H. eapply renew_store_frame; eauto.
Qed.

(* every transaction keeps the conservation invariant *)
Lemma astep_inv s t s' : Inv s -> astep s t = Ok s' -> Inv s'.
Proof.
  intros I H. destruct t as [c x|c p mc fc|a u]; cbn [astep] in H.
  - destruct x; cbn [apply_ltx] in H.
    + eapply pay2_inv; eauto.
    + eapply fund3_inv; eauto.
    + bind_inv H. destruct x as [[s1 a] m]. inversion H; subst s'; clear H. eapply process_payment_inv; eauto.
    + unfold fin_tx in H. bind_inv H. apply lock_ok in B. apply validate_program_ok in B1.
      eapply revise_con_inv; eauto. cbn. unfold usum; cbn. lia.
    + eapply renew2_inv; eauto.
    + eapply renew3_inv; eauto.
  - eapply form2_inv; eauto.
  - eapply debit_store_inv; eauto.
Qed.

Lemma aseq_inv l : forall s s', Inv s -> aseq s l = Some s' -> Inv s'.
Proof.
  induction l as [|t r IH]; intros s s' I H; cbn [aseq] in H.
  - inversion H; subst; exact I.
  - destruct (astep s t) as [s1| |] eqn:E; try discriminate. eapply IH; [eapply astep_inv; eauto|exact H].
Qed.

(** * The invariant of the strict system *)
Definition sess_ok1 (st : cstate1) : Prop :=
  forall i, match sess1 st i with
            | UIdle => True
            | URead _ _ => False
            | ULocked c snap => holder1 st c = Some i /\ snap1_ok (store1 st) c snap
            end.

Record cinv1 (s0 : state) (st : cstate1) : Prop := {
  ci1_seq : aseq s0 (clog1 st) = Some (store1 st);
  ci1_sess : sess_ok1 st
}.

Lemma updS1_same f i s : updS1 f i s i = s.
Proof. unfold updS1. now rewrite Nat.eqb_refl. Qed.
Lemma updS1_other f i s j : j <> i -> updS1 f i s j = f j.
Proof. intros H. unfold updS1. destruct (Nat.eqb j i) eqn:E; [apply Nat.eqb_eq in E; congruence|reflexivity]. Qed.
Lemma updH1_same f c h : updH1 f c h c = h.
Proof. unfold updH1. now rewrite N.eqb_refl. Qed.
Lemma updH1_other f c h d : d <> c -> updH1 f c h d = f d.
Proof. intros H. unfold updH1. destruct (d =? c) eqn:E; [lia|reflexivity]. Qed.

Lemma sess_ok1_store st s' l' :
  sess_ok1 st -> frame1_all (store1 st) s' -> sess_ok1 (mkCS1 s' (holder1 st) (sess1 st) l').
Proof.
  intros S F i. specialize (S i). cbn. destruct (sess1 st i) as [|c r|c snap]; auto.
  destruct S as [H (r & Fr & E)]. split; [exact H|]. destruct (F _ _ Fr) as (r' & F' & E'). exists r'. split; congruence.
Qed.

Lemma cstep1_inv s0 st l st' : cinv1 s0 st -> cstep1 true st l = Some st' -> cinv1 s0 st'.
Proof.
  intros [Q S] H. destruct l as [i c|i c|i x|i|c p mc fc|a u]; cbn [cstep1] in H.
  - discriminate.
  - destruct (holder1 st c) eqn:Hh; [discriminate|].
    pose proof (S i) as Si. destruct (sess1 st i) as [|c1 r1|] eqn:Ei; try discriminate; [|contradiction].
    destruct (find_con c (cons (store1 st))) as [r|] eqn:F; inversion H; subst st'; clear H; [|split; assumption].
    split; [exact Q|]. intros j. cbn. destruct (Nat.eq_dec j i) as [->|N].
    + rewrite updS1_same. split; [apply updH1_same|]. exists r. auto.
    + rewrite updS1_other by exact N. specialize (S j). destruct (sess1 st j) as [|c2 r2|c2 snap]; auto.
      destruct S as [S1 S2]. split; [|exact S2]. rewrite updH1_other; [exact S1|congruence].
  - pose proof (S i) as Si. destruct (sess1 st i) as [| |c snap] eqn:Ei; try discriminate.
    destruct Si as [Hh (r & Fr & Er)].
    rewrite (with_rev_id _ _ _ _ Fr Er) in H.
    destruct (apply_ltx (store1 st) c x) as [s'| |] eqn:E; inversion H; subst st'; clear H; try (split; assumption).
    split; cbn.
    + eapply aseq_snoc; [exact Q|exact E].
    + intros j. cbn. destruct (Nat.eq_dec j i) as [->|N].
      * rewrite updS1_same. split; [exact Hh|]. unfold rev_of, snap1_ok.
        destruct (find_con c (cons s')) as [r'|] eqn:F'.
        -- exists r'. auto.
        -- (* every transaction keeps row c *)
           exfalso. clear - E Fr F'.
           assert (K : keeps (store1 st) s').
           { destruct x; cbn [apply_ltx] in E.
             - pose proof (step_out_keeps (store1 st) (Write2 c cost p)) as K. destruct to_storage.
               + cbn [step_out] in K. rewrite E in K. exact K.
               + pose proof (step_out_keeps (store1 st) (Read2 c cost p)) as K2. cbn [step_out] in K2. rewrite E in K2. exact K2.
             - pose proof (step_out_keeps (store1 st) (Fund3 c a fundCost maxBal p)) as K. cbn [step_out] in K. rewrite E in K. exact K.
             - bind_inv E. destruct x as [[s1 a] m]. inversion E; subst s'. eapply process_payment_keeps; eauto.
             - unfold fin_tx in E. bind_inv E. eapply revise_con_keeps; eauto.
             - pose proof (step_out_keeps (store1 st) (Renew2 c c' baseRPC price sprice cprice maxColl fsize extb fin_vr fin_vh fc)) as K.
               cbn [step_out] in K. rewrite E in K. exact K.
             - pose proof (step_out_keeps (store1 st) (Renew3 c c' renewCost price wsc cc maxColl fsize extb fin_vr fin_vh fc)) as K.
               cbn [step_out] in K. rewrite E in K. exact K. }
           destruct (K _ _ Fr) as (r' & F2 & _). congruence.
      * rewrite updS1_other by exact N. pose proof (S j) as Sj.
        destruct (sess1 st j) as [|c2 r2|c2 snap2] eqn:Ej; auto.
        destruct Sj as [S1 (r2 & F2 & E2)]. split; [exact S1|].
        assert (c2 <> c) by (intros ->; congruence).
        exists r2. split; [|exact E2]. eapply apply_ltx_frame; eauto.
  - pose proof (S i) as Si. destruct (sess1 st i) as [| |c snap] eqn:Ei; try discriminate.
    destruct (holder1 st c) as [j0|] eqn:Hh; [|discriminate].
    destruct (Nat.eqb j0 i) eqn:Ej; [|discriminate]. apply Nat.eqb_eq in Ej. subst j0.
    inversion H; subst st'; clear H. split; [exact Q|].
    intros j. cbn. destruct (Nat.eq_dec j i) as [->|N]; [rewrite updS1_same; exact I|].
    rewrite updS1_other by exact N. pose proof (S j) as Sj.
    destruct (sess1 st j) as [|c2 r2|c2 snap2]; auto.
    destruct Sj as [S1 S2]. split; [|exact S2]. rewrite updH1_other; [exact S1|]. intros ->. congruence.
  - destruct (form2 (store1 st) c p mc fc) as [s'| |] eqn:E; inversion H; subst st'; clear H; try (split; assumption).
    split; cbn; [eapply aseq_snoc; [exact Q|exact E]|].
    apply sess_ok1_store; [exact S|eapply form2_frame; eauto].
  - destruct (debit_store (store1 st) a u) as [s'| |] eqn:E; inversion H; subst st'; clear H; try (split; assumption).
    split; cbn; [eapply aseq_snoc; [exact Q|exact E]|].
    apply sess_ok1_store; [exact S|eapply debit_store_frame; eauto].
Qed.

Lemma cinit1_inv s0 : cinv1 s0 (cinit1 s0).
Proof. split; cbn; [reflexivity|intros j; exact I]. Qed.

Lemma crun1_inv s0 tr : forall st st', cinv1 s0 st -> crun1 true st tr = Some st' -> cinv1 s0 st'.
Proof.
  induction tr as [|l t IH]; intros st st' I H; cbn [crun1] in H.
  - inversion H; subst; exact I.
  - destruct (cstep1 true st l) as [st1|] eqn:E; [|discriminate].
    eapply IH; [eapply cstep1_inv; eauto|exact H].
Qed.

(** * Results *)
Lemma conc1_serializable s0 tr st :
  crun1 true (cinit1 s0) tr = Some st -> aseq s0 (clog1 st) = Some (store1 st).
Proof. intros H. exact (ci1_seq _ _ (crun1_inv s0 tr _ _ (cinit1_inv s0) H)). Qed.

(* the equation of c10_v1_conservation in every reachable interleaved state, from any state a
   sequential run of Model.v reaches *)
Lemma conc1_conservation l0 tr st r :
  crun1 true (cinit1 (runs init l0)) tr = Some st -> In r (cons (store1 st)) ->
  vh (crev r) = clocked r + (uRpc (cuse r) + uSto (cuse r) + uIng (cuse r) + uEgr (cuse r) +
                            uRR (cuse r) + uRW (cuse r) + uFund (cuse r)) /\
  uFund (cuse r) = fsum (cid r) (funds (store1 st)).
Proof.
  intros H Hr. apply conc1_serializable in H.
  pose proof (aseq_inv _ _ _ (runs_inv l0 init Inv_init) H) as (_ & RO & _).
  destruct (RO r Hr) as [A B]. split; [exact A|exact B].
Qed.

(* a lock holder's copy of the revision is the stored one *)
Lemma conc1_current s0 tr st i c snap :
  crun1 true (cinit1 s0) tr = Some st -> sess1 st i = ULocked c snap ->
  holder1 st c = Some i /\ exists r, find_con c (cons (store1 st)) = Some r /\ crev r = snap.
Proof.
  intros H E. pose proof (ci1_sess _ _ (crun1_inv s0 tr _ _ (cinit1_inv s0) H) i) as S. rewrite E in S. exact S.
Qed.

(** * Model.v's RPCs as transactions *)
Definition atx_of (o : op) : option atx :=
  match o with
  | Form2 c p mc fc => Some (AForm c p mc fc)
  | Renew2 c c' b p sp cp mc fs ex fr fh fc => Some (ALocked c (XRenew2 c' b p sp cp mc fs ex fr fh fc))
  | Roots2 c cost p => Some (ALocked c (XPay2 cost p false))
  | Read2 c cost p => Some (ALocked c (XPay2 cost p false))
  | Write2 c cost p => Some (ALocked c (XPay2 cost p true))
  | Fund3 c a fc mb p => Some (ALocked c (XFund3 a fc mb p))
  | Renew3 c c' rc p w k mc fs ex fr fh fc => Some (ALocked c (XRenew3 c' rc p w k mc fs ex fr fh fc))
  | _ => None
  end.

(* the RHP2 RPCs, fund-account and both renewals are one transaction *)
Lemma single_atom s o t : atx_of o = Some t -> step_out s o = of_res s (astep s t).
Proof. destruct o; cbn [atx_of]; intros H; inversion H; subst t; reflexivity. Qed.

(* price table / balance / latest revision paid by contract: the payment transaction, then the
   lock-free debit of the refund account *)
Lemma simple3_atoms s c refund p cost :
  simple3 s (PayContract c refund p) cost =
  match astep s (ALocked c (XPayC refund p)) with
  | Ok s1 =>
      match process_payment s (PayContract c refund p) with
      | Ok (_, a, max) =>
          match spend max a0 (mkA cost 0 0 0 0 0) with
          | None => (s1, SErr)
          | Some u => match astep s1 (ADebit a u) with Ok s2 => (s2, SOk) | Err _ => (s1, SErr) | Panic => (s1, SPanic) end
          end
      | _ => (s, SErr)
      end
  | Err _ => (s, SErr)
  | Panic => (s, SPanic)
  end.
Proof.
  unfold simple3. cbn [astep apply_ltx].
  destruct (process_payment s (PayContract c refund p)) as [[[s1 a] m]| |]; cbn [bind fst]; reflexivity.
Qed.

(** * Reading the revision before the lock: the statement fails *)
(* contract 1: renter 1000, host 500 (price 100, locked collateral 400).  Session 0 reads revision 1;
   session 1 locks, is paid 70 for a read (revision 2) and unlocks; session 0 locks and is paid 50
   for a read built on revision 1 with number 3: validated against ITS copy, stored over revision 2. *)
Definition rx1_s0 : state := runs init [Form2 1 100 1000 (mkFC 1000 500 1000 500 0)].
Definition rx1_schedule : list label1 :=
  [KRead 0 1;
   KLock 1 1; KPersist 1 (XPay2 (mkRC 70 0 0 0 0) (mkProp 2 930 570 930 500 70) false); KUnlock 1;
   KLock 0 1; KPersist 0 (XPay2 (mkRC 50 0 0 0 0) (mkProp 3 950 550 950 500 50) false); KUnlock 0].

Definition rx1_view (o : option cstate1) : option (list (N * N * N * N) * nat) :=
  match o with
  | Some st => Some (map (fun r => (rn (crev r), vh (crev r), clocked r, usum (cuse r))) (cons (store1 st)), length (clog1 st))
  | None => None
  end.

Lemma relaxed1_refuted :
  (* both accepted: revision 3 stored with host payout 550 = 400 + 100 + 50, recorded usage 220 *)
  rx1_view (crun1 false (cinit1 rx1_s0) rx1_schedule) = Some ([(3, 550, 400, 220)], 2%nat) /\
  (forall st, crun1 false (cinit1 rx1_s0) rx1_schedule = Some st ->
     (exists r, In r (cons (store1 st)) /\ vh (crev r) <> clocked r + usum (cuse r)) /\
     aseq rx1_s0 (clog1 st) <> Some (store1 st)) /\
  (* the code as it is has no read without the lock; and with the lock the second payment, built on
     revision 1, is refused *)
  crun1 true (cinit1 rx1_s0) rx1_schedule = None /\
  rx1_view (crun1 true (cinit1 rx1_s0) (tl rx1_schedule)) = Some ([(2, 570, 400, 170)], 1%nat).
Proof.
  split; [vm_compute; reflexivity|]. split; [|split; vm_compute; reflexivity].
  intros st H. vm_compute in H. inversion H; subst st; clear H. split.
  - cbn [store1 cons]. eexists. split; [left; reflexivity|]. vm_compute. discriminate.
  - vm_compute. discriminate.
Qed.

(** * Non-vacuity: three sessions, two contracts, an account *)
Definition ex1_s0 : state := runs init [Form2 1 100 1000 (mkFC 1000 500 1000 500 0); Form2 2 100 1000 (mkFC 800 300 800 300 0)].
Definition ex1_schedule : list label1 :=
  [KLock 0 1;                                                        (* an RHP2 session on contract 1 *)
   KLock 1 2; KPersist 1 (XPayC 7 (mkProp 2 700 400 700 400 0));     (* an RHP3 payment by contract 2, refund account 7 *)
   KPersist 0 (XPay2 (mkRC 10 20 0 0 5) (mkProp 2 960 540 960 495 45) true);   (* write, over-paid by 10 *)
   KUnlock 1;
   KDebit 7 (mkA 30 0 0 0 0 0);                                      (* the RHP3 RPC's cost, debited without a lock *)
   KPersist 0 (XPay2 (mkRC 5 0 0 0 0) (mkProp 3 955 545 955 495 50) false);    (* second RPC of the same session *)
   KLock 2 2;                                                        (* another stream takes contract 2 *)
   KPersist 0 (XPay2 (mkRC 5 0 0 0 0) (mkProp 3 950 550 950 495 55) false);    (* stale number: refused *)
   KPersist 2 (XFund3 7 1 1000 (mkProp 3 650 450 650 450 0)); KUnlock 2; KUnlock 0].

Lemma conc1_ex :
  option_map (fun st => (map (fun r => (cid r, rn (crev r), vh (crev r), usum (cuse r), uFund (cuse r))) (cons (store1 st)),
                         balance (store1 st) 7, length (clog1 st))) (crun1 true (cinit1 ex1_s0) ex1_schedule)
  = Some ([(1, 3, 545, 145, 0); (2, 3, 450, 250, 119)], 119, 5%nat) /\
  crun1 true (cinit1 ex1_s0) [KLock 0 1; KLock 1 1] = None.
Proof. split; vm_compute; reflexivity. Qed.
