(* Revenue/ConcV2.v — n concurrent RHP4 sessions over several v2 contracts and accounts (WP-V).

   ModelV2.v runs a list of RPCs one after the other.  The coreutils RHP4 server handles every
   stream in its own goroutine (server.go Serve: `go func() { s.handleHostStream ... }`), so any
   number of RPCs work on the host's contracts and accounts at the same time.  This file models the
   handlers at the grain the code has and proves that every schedule is a sequential ModelV2 run.

   What one revising RPC of session i does (server.go handleRPC{AppendSectors, FreeSectors,
   SectorRoots, FundAccounts, ReplenishAccounts, RenewContract, RefreshContract}):
       Lock i c      Contractor.LockV2Contract (host/contracts/lock.go): waits until nobody holds the
                     lock of c, then reads the row (store.V2Contract, its own SQL transaction) and
                     returns RevisionState{Revision, Renewed, Revisable}: lock and read are one call
       Decide i q    lockContractForRevision's Revisable check, request validation, core's
                     ReviseFor* (PayWithContract) / RenewContract / RefreshContract on the revision
                     THE LOCK RETURNED, signature exchange; ReplenishAccounts also reads the balances
                     (Contractor.AccountBalances, its own SQL transaction) and fixes the deposits.
                     Nothing shared is written; the host's signature exists from here on
       Persist i     ONE SQL transaction (persist/sqlite, db.SetMaxOpenConns(1): transactions are
                     serial): ReviseV2Contract (reviseV2Contract: raw_revision, revision_number, then
                     incrementV2ContractUsage — revision and usage in the same transaction, after
                     Manager.ReviseV2Contract re-read the row for its RenewedTo check),
                     RHP4CreditAccounts (balances, funding rows, revision, usage) or RenewV2Contract
                     (insert the new row with its usage, renewed_to on the old one)
       Unlock i      the deferred unlock(): at any point after Lock (a handler may fail and return)
   and, without any contract lock, each ONE SQL transaction:
       Form ...      AddV2Contract
       Debit a u     DebitAccount of WriteSector / ReadSector / VerifySector: balance, funding rows,
                     and the account_funding -> revenue columns of the FUNDING CONTRACTS' rows — it
                     writes contract rows whose lock another session may hold.

   Intermediate states.  Because every write is a single transaction holding revision AND usage
   (and balances and funding rows), the store only ever passes through states of sequential runs:
   there is no point at which a revision is stored without its usage ([conc2_serializable] is about
   EVERY reachable state, not only quiescent ones).  What is outstanding between Decide and Persist
   is a revision the host has counter-signed but not stored; [conc2_pending] says it is exactly what
   the sequential RPC would write on the store as it is now, whatever other sessions did meanwhile.

   [strict = true] is the code as it is.  [strict = false] additionally lets a session read the row
   BEFORE it asks for the lock and use that copy afterwards (the shape of seeded C10-mut6: "validate
   first, lock later"); [relaxed2_refuted] shows that the theorem rests on the lock. *)
From Coq Require Import Lia ZifyBool ZifyN ZifyNat Arith.
From HostdBase Require Import Base.
From HostdRevenue Require Import Model ModelV2 Proofs ProofsV2.
Open Scope N_scope.

(** * Requests, decisions *)
(* what the renter sends (with the quantities core prices it at) *)
Inductive req2 :=
| QPay (rpc sto egr ing risk : N)                      (* AppendSectors / FreeSectors / SectorRoots *)
| QFund (deps : list (N * N))
| QReplenish (accts : list N) (target : N)
| QRenew (c' price allowance coll storageCost riskedColl : N)
| QRefresh (c' price allowance coll : N).

(* what the handler hands to the Contractor *)
Inductive write2 :=
| WRevise (fc : fc2) (u : usage2)                       (* ReviseV2Contract *)
| WCredit (deps : list (N * N)) (fc : fc2) (u : usage2)  (* CreditAccountsWithContract *)
| WRenew (nr : crow2).                                   (* RenewV2Contract *)

(* Decide: [row] is the row LockV2Contract returned, [s] the store now (only ReplenishAccounts reads
   it: the balances).  Returns what will be written and the ModelV2 operation it amounts to.  A
   replenish that finds nothing to deposit writes nothing and is treated like a refusal. *)
Definition decide2 (s : state2) (c : N) (row : crow2) (q : req2) : res (write2 * op2) :=
  if crenewed row then Err EInvalid
  else match q with
  | QPay rpc sto egr ing risk =>
      let u := mkU2 rpc sto egr ing 0 risk in
      do fc <- pay_with_contract (cfc row) u; Ok (WRevise fc u, Pay4 c rpc sto egr ing risk)
  | QFund deps =>
      let u := mkU2 0 0 0 0 (dep_total deps) 0 in
      do fc <- pay_with_contract (cfc row) u; Ok (WCredit deps fc u, Fund4 c deps)
  | QReplenish accts target =>
      do _ <- eguard (negb (target =? 0));
      do _ <- eguard (negb (length accts =? 0)%nat);
      let deps := replenish_deps s accts target in
      if dep_total deps =? 0 then Err EOther
      else
        let u := mkU2 0 0 0 0 (dep_total deps) 0 in
        do fc <- pay_with_contract (cfc row) u; Ok (WCredit deps fc u, Fund4 c deps)
  | QRenew c' p a k sc rc =>
      do (fc, u) <- renew_contract p a k sc rc;
      Ok (WRenew (mkC2 c' fc u false KRenewed), Renew4 c c' p a k sc rc)
  | QRefresh c' p a k =>
      do (fc, u) <- refresh_contract (cfc row) p a k;
      Ok (WRenew (mkC2 c' fc u false KRefreshed), Refresh4 c c' p a k)
  end.

(* Persist: one SQL transaction *)
Definition persist2 (s : state2) (c : N) (w : write2) : res state2 :=
  match w with
  | WRevise fc u => do _ <- lock2 s c; revise2 s c fc u   (* Manager.ReviseV2Contract: exists, RenewedTo unset *)
  | WCredit deps fc u => credit2 s c deps fc u
  | WRenew nr => renew_store2 s c nr
  end.

(** * Sessions *)
Inductive sst2 :=
| TIdle
| TRead (c : N) (row : crow2)                             (* relaxed system only: read, lock not held *)
| TLocked (c : N) (row : crow2)
| TDecided (c : N) (row : crow2) (w : write2) (o : op2)   (* counter-signed, not yet persisted *)
| TDone (c : N).                                          (* persisted (or the store refused) *)

Inductive label2 :=
| LRead (i : nat) (c : N)
| LLock (i : nat) (c : N)
| LDecide (i : nat) (q : req2)
| LPersist (i : nat)
| LUnlock (i : nat)
| LForm (c price allowance coll : N)
| LDebit (a : N) (u : usage2).

Record cstate2 := mkCS2 {
  store2 : state2;
  holder2 : N -> option nat;       (* who holds the lock of contract c *)
  sess2 : nat -> sst2;
  clog2 : list op2                 (* every committed operation, in commit order *)
}.

Definition cinit2 (s0 : state2) : cstate2 := mkCS2 s0 (fun _ => None) (fun _ => TIdle) [].

Definition updS (f : nat -> sst2) (i : nat) (s : sst2) : nat -> sst2 :=
  fun j => if Nat.eqb j i then s else f j.
Definition updH (f : N -> option nat) (c : N) (h : option nat) : N -> option nat :=
  fun d => if d =? c then h else f d.

Definition locked_on (t : sst2) : option N :=
  match t with
  | TLocked c _ | TDecided c _ _ _ | TDone c => Some c
  | _ => None
  end.

(* [None]: the step cannot happen in this state (a lock that is held, a session asked to do what it
   is not in a position to do).  A step that happens but changes nothing (a refused request, an
   error from the store) returns the state with the session moved on. *)
Definition cstep2 (strict : bool) (st : cstate2) (l : label2) : option cstate2 :=
  match l with
  | LRead i c =>
      if strict then None else
      match sess2 st i, find2 c (cons2 (store2 st)) with
      | TIdle, Some r => Some (mkCS2 (store2 st) (holder2 st) (updS (sess2 st) i (TRead c r)) (clog2 st))
      | _, _ => None
      end
  | LLock i c =>
      match holder2 st c with
      | Some _ => None
      | None =>
          match sess2 st i with
          | TIdle =>
              match find2 c (cons2 (store2 st)) with
              | Some r => Some (mkCS2 (store2 st) (updH (holder2 st) c (Some i)) (updS (sess2 st) i (TLocked c r)) (clog2 st))
              | None => Some st       (* "failed to get contract": unlocked again, nothing happened *)
              end
          | TRead c' r =>
              if c' =? c then Some (mkCS2 (store2 st) (updH (holder2 st) c (Some i)) (updS (sess2 st) i (TLocked c r)) (clog2 st))
              else None
          | _ => None
          end
      end
  | LDecide i q =>
      match sess2 st i with
      | TLocked c row =>
          match decide2 (store2 st) c row q with
          | Ok (w, o) => Some (mkCS2 (store2 st) (holder2 st) (updS (sess2 st) i (TDecided c row w o)) (clog2 st))
          | _ => Some st            (* refused: an error goes to the renter, nothing is left behind *)
          end
      | _ => None
      end
  | LPersist i =>
      match sess2 st i with
      | TDecided c row w o =>
          match persist2 (store2 st) c w with
          | Ok s' => Some (mkCS2 s' (holder2 st) (updS (sess2 st) i (TDone c)) (clog2 st ++ [o]))
          | _ => Some (mkCS2 (store2 st) (holder2 st) (updS (sess2 st) i (TDone c)) (clog2 st))
          end
      | _ => None
      end
  | LUnlock i =>
      match locked_on (sess2 st i) with
      | Some c =>
          match holder2 st c with
          | Some j => if Nat.eqb j i
                      then Some (mkCS2 (store2 st) (updH (holder2 st) c None) (updS (sess2 st) i TIdle) (clog2 st))
                      else None
          | None => None
          end
      | None => None
      end
  | LForm c p a k =>
      match form4 (store2 st) c p a k with
      | Ok s' => Some (mkCS2 s' (holder2 st) (sess2 st) (clog2 st ++ [Form4 c p a k]))
      | _ => Some st
      end
  | LDebit a u =>
      match debit2 (store2 st) a u with
      | Ok s' => Some (mkCS2 s' (holder2 st) (sess2 st) (clog2 st ++ [Debit4 a u]))
      | _ => Some st
      end
  end.

Fixpoint crun2 (strict : bool) (st : cstate2) (tr : list label2) : option cstate2 :=
  match tr with
  | [] => Some st
  | l :: t => match cstep2 strict st l with Some st' => crun2 strict st' t | None => None end
  end.

(** * Sequential runs in which every operation is accepted *)
Fixpoint seq2 (s : state2) (l : list op2) : option state2 :=
  match l with
  | [] => Some s
  | o :: t => match step_res2 s o with Ok s' => seq2 s' t | _ => None end
  end.

Lemma seq2_app l1 : forall s l2 s1, seq2 s l1 = Some s1 -> seq2 s (l1 ++ l2) = seq2 s1 l2.
Proof.
  induction l1 as [|o t IH]; intros s l2 s1 H; cbn [seq2 app] in *.
  - inversion H; reflexivity.
  - destruct (step_res2 s o) as [s'| |]; try discriminate. now apply IH.
Qed.

Lemma seq2_snoc l s s1 o s2 : seq2 s l = Some s1 -> step_res2 s1 o = Ok s2 -> seq2 s (l ++ [o]) = Some s2.
Proof. intros H E. rewrite (seq2_app _ _ _ _ H). cbn. now rewrite E. Qed.

Lemma seq2_runs2 l : forall s s', seq2 s l = Some s' -> runs2 s l = s'.
Proof.
  induction l as [|o t IH]; intros s s' H; cbn [seq2] in H.
  - inversion H; reflexivity.
  - destruct (step_res2 s o) as [s1| |] eqn:E; try discriminate.
    cbn. rewrite step2_fst. unfold next2. rewrite E. cbn. now apply IH.
Qed.

Lemma runs2_app l1 l2 s : runs2 s (l1 ++ l2) = runs2 (runs2 s l1) l2.
Proof. unfold runs2. apply fold_left_app. Qed.

(** * The snapshot a lock holder works with stays current *)
(* the part of a row the decisions read: the revision's accounting fields and renewed_to *)
Definition snap_ok (s : state2) (c : N) (row : crow2) : Prop :=
  exists r, find2 c (cons2 s) = Some r /\ cfc r = cfc row /\ crenewed r = crenewed row.

(* a store transition that leaves revision and renewed_to of every existing row alone *)
Definition frame_all (s s' : state2) : Prop :=
  forall c r, find2 c (cons2 s) = Some r ->
    exists r', find2 c (cons2 s') = Some r' /\ cfc r' = cfc r /\ crenewed r' = crenewed r.
(* ... of every row but c's *)
Definition frame_but (c : N) (s s' : state2) : Prop :=
  forall c' r, c' <> c -> find2 c' (cons2 s) = Some r -> find2 c' (cons2 s') = Some r.

Lemma snap_frame_all s s' c row : frame_all s s' -> snap_ok s c row -> snap_ok s' c row.
Proof.
  intros F (r & H & A & B). destruct (F _ _ H) as (r' & H' & A' & B').
  exists r'. split; [exact H'|split; congruence].
Qed.
Lemma snap_frame_but s s' c c' row : frame_but c s s' -> c' <> c -> snap_ok s c' row -> snap_ok s' c' row.
Proof. intros F N (r & H & A & B). exists r. split; [now apply F|split; assumption]. Qed.

Lemma debit2_frame s a u s' : debit2 s a u = Ok s' -> frame_all s s'.
Proof.
  intros H. unfold debit2 in H.
  destruct (alookup a (accts2 s)) as [bal|]; [|discriminate].
  destruct (bal <? rcost2 u); [discriminate|].
  bind_inv H. destruct x as [fs cs]. inversion H; subst s'; clear H.
  apply distribute2_spec in B. destruct B as [[_ M] _].
  intros c r F. destruct (M _ _ F) as (r' & F' & A & B & _). exists r'. cbn. auto.
Qed.

Lemma form4_frame s c p a k s' : form4 s c p a k = Ok s' -> frame_all s s'.
Proof.
  unfold form4. cbn. intros H c0 r F. exists r. split; [eapply insert2_find; eauto|split; reflexivity].
Qed.

Lemma revise2_frame s c fc u s' : revise2 s c fc u = Ok s' -> frame_but c s s'.
Proof.
  unfold revise2. destruct (find2 c (cons2 s)); [|discriminate]. intros H; inversion H; subst s'; clear H.
  intros c' r N F. cbn. rewrite find2_upd_other; auto.
Qed.

Lemma credit2_frame s c deps fc u s' : credit2 s c deps fc u = Ok s' -> frame_but c s s'.
Proof.
  unfold credit2. destruct (find2 c (cons2 s)); [|discriminate].
  destruct (credit_deposits c deps (accts2 s) (funds2 s)) as [ac fs]. intros H.
  apply revise2_frame in H. exact H.
Qed.

Lemma renew_store2_frame s c nr s' : renew_store2 s c nr = Ok s' -> frame_but c s s'.
Proof.
  unfold renew_store2. intros H. bind_inv H.
  destruct (find2 c (cons2 x)) eqn:Fc; [|discriminate]. inversion H; subst s'; clear H.
  intros c' r N F. cbn. rewrite find2_upd_other; auto. eapply insert2_find; eauto.
Qed.

Lemma persist2_frame s c w s' : persist2 s c w = Ok s' -> frame_but c s s'.
Proof.
  destruct w; cbn [persist2]; intros H.
  - bind_inv H. eapply revise2_frame; eauto.
  - eapply credit2_frame; eauto.
  - eapply renew_store2_frame; eauto.
Qed.

(** * A pending decision is the sequential RPC on the store as it is now *)
Lemma decide2_step s0 s c row q w o :
  decide2 s0 c row q = Ok (w, o) -> snap_ok s c row -> persist2 s c w = step_res2 s o.
Proof.
  unfold decide2. intros D (r & F & A & B).
  destruct (crenewed row) eqn:R; [discriminate|].
  assert (L : lock2 s c = Ok r) by (unfold lock2; rewrite F, B; reflexivity).
  destruct q as [rpc sto egr ing risk|deps|accts target|c' p a k sc rc|c' p a k].
  - bind_inv D. inversion D; subst w o; clear D. cbn [persist2 step_res2]. unfold pay4.
    rewrite L. cbn [bind]. rewrite A, B0. reflexivity.
  - bind_inv D. inversion D; subst w o; clear D. cbn [persist2 step_res2]. unfold fund4.
    rewrite L. cbn [bind]. rewrite A, B0. reflexivity.
  - bind_inv D. destruct (dep_total (replenish_deps s0 accts target) =? 0); [discriminate|].
    bind_inv D. inversion D; subst w o; clear D. cbn [persist2 step_res2]. unfold fund4.
    rewrite L. cbn [bind]. rewrite A, B0. reflexivity.
  - bind_inv D. destruct x as [fc u]. inversion D; subst w o; clear D. cbn [persist2 step_res2]. unfold renew4.
    rewrite L. cbn [bind]. rewrite B0. reflexivity.
  - bind_inv D. destruct x as [fc u]. inversion D; subst w o; clear D. cbn [persist2 step_res2]. unfold refresh4.
    rewrite L. cbn [bind]. rewrite A, B0. reflexivity.
Qed.

(** * The invariant of the strict system *)
Definition sess_ok2 (st : cstate2) : Prop :=
  forall i, match sess2 st i with
            | TIdle => True
            | TRead _ _ => False
            | TLocked c row => holder2 st c = Some i /\ snap_ok (store2 st) c row
            | TDecided c row w o =>
                holder2 st c = Some i /\ snap_ok (store2 st) c row /\ exists s0 q, decide2 s0 c row q = Ok (w, o)
            | TDone c => holder2 st c = Some i
            end.

Record cinv2 (s0 : state2) (st : cstate2) : Prop := {
  ci2_seq : seq2 s0 (clog2 st) = Some (store2 st);
  ci2_sess : sess_ok2 st
}.

Lemma updS_same f i s : updS f i s i = s.
Proof. unfold updS. now rewrite Nat.eqb_refl. Qed.
Lemma updS_other f i s j : j <> i -> updS f i s j = f j.
Proof. intros H. unfold updS. destruct (Nat.eqb j i) eqn:E; [apply Nat.eqb_eq in E; congruence|reflexivity]. Qed.
Lemma updH_same f c h : updH f c h c = h.
Proof. unfold updH. now rewrite N.eqb_refl. Qed.
Lemma updH_other f c h d : d <> c -> updH f c h d = f d.
Proof. intros H. unfold updH. destruct (d =? c) eqn:E; [lia|reflexivity]. Qed.

(* the sessions' part of the invariant after a step that only changed the store, by a transition
   that frames every row *)
Lemma sess_ok2_store st s' l' :
  sess_ok2 st -> frame_all (store2 st) s' -> sess_ok2 (mkCS2 s' (holder2 st) (sess2 st) l').
Proof.
  intros S F i. specialize (S i). cbn. destruct (sess2 st i) as [|c r|c row|c row w o|c]; auto.
  - destruct S as [H P]. split; [exact H|eapply snap_frame_all; eauto].
  - destruct S as (H & P & D). split; [exact H|split; [eapply snap_frame_all; eauto|exact D]].
Qed.

(* the lock of c is held by i: no other session is working on c *)
Lemma other_contract st i j c : sess_ok2 st -> holder2 st c = Some i -> j <> i ->
  forall c', locked_on (sess2 st j) = Some c' -> c' <> c.
Proof.
  intros S H N c' L E. subst c'. specialize (S j).
  destruct (sess2 st j) as [|c1 r|c1 row|c1 row w o|c1]; cbn in L; try discriminate; inversion L; subst c1.
  - destruct S as [S _]. congruence.
  - destruct S as [S _]. congruence.
  - congruence.
Qed.

Lemma cstep2_inv s0 st l st' : cinv2 s0 st -> cstep2 true st l = Some st' -> cinv2 s0 st'.
Proof.
  intros [Q S] H. destruct l as [i c|i c|i q|i|i|c p a k|a u]; cbn [cstep2] in H.
  - discriminate.
  - (* Lock *)
    destruct (holder2 st c) eqn:Hh; [discriminate|].
    pose proof (S i) as Si. destruct (sess2 st i) as [|c1 r1| | |] eqn:Ei; try discriminate; [|contradiction].
    destruct (find2 c (cons2 (store2 st))) as [r|] eqn:F; inversion H; subst st'; clear H; [|split; assumption].
    split; [exact Q|]. intros j. cbn. destruct (Nat.eq_dec j i) as [->|N].
    + rewrite updS_same. split; [apply updH_same|]. exists r. auto.
    + rewrite updS_other by exact N. specialize (S j).
      destruct (sess2 st j) as [|c2 r2|c2 row|c2 row w o|c2]; auto.
      * destruct S as [S1 S2]. split; [|exact S2]. rewrite updH_other; [exact S1|congruence].
      * destruct S as (S1 & S2 & S3). split; [|split; assumption]. rewrite updH_other; [exact S1|congruence].
      * rewrite updH_other; [exact S|congruence].
  - (* Decide *)
    pose proof (S i) as Si. destruct (sess2 st i) as [| |c row| |] eqn:Ei; try discriminate.
    destruct (decide2 (store2 st) c row q) as [[w o]| |] eqn:D; inversion H; subst st'; clear H; try (split; assumption).
    split; [exact Q|]. intros j. cbn. destruct (Nat.eq_dec j i) as [->|N].
    + rewrite updS_same. destruct Si as [S1 S2]. split; [exact S1|split; [exact S2|eauto]].
    + rewrite updS_other by exact N. exact (S j).
  - (* Persist *)
    pose proof (S i) as Si. destruct (sess2 st i) as [| | |c row w o|] eqn:Ei; try discriminate.
    destruct Si as (Hh & P & (sd & q & D)).
    destruct (persist2 (store2 st) c w) as [s'| |] eqn:E; inversion H; subst st'; clear H.
    + split; cbn.
      * eapply seq2_snoc; [exact Q|]. rewrite <- (decide2_step _ _ _ _ _ _ _ D P). exact E.
      * intros j. cbn. destruct (Nat.eq_dec j i) as [->|N]; [rewrite updS_same; exact Hh|].
        rewrite updS_other by exact N. pose proof (S j) as Sj.
        pose proof (other_contract st i j c S Hh N) as O.
        apply persist2_frame in E.
        destruct (sess2 st j) as [|c2 r2|c2 row2|c2 row2 w2 o2|c2]; auto.
        -- destruct Sj as [S1 S2]. split; [exact S1|]. eapply snap_frame_but; eauto.
        -- destruct Sj as (S1 & S2 & S3). split; [exact S1|split; [|exact S3]]. eapply snap_frame_but; eauto.
    + split; [exact Q|]. intros j. cbn. destruct (Nat.eq_dec j i) as [->|N]; [rewrite updS_same; exact Hh|].
      rewrite updS_other by exact N. exact (S j).
    + split; [exact Q|]. intros j. cbn. destruct (Nat.eq_dec j i) as [->|N]; [rewrite updS_same; exact Hh|].
      rewrite updS_other by exact N. exact (S j).
  - (* Unlock *)
    destruct (locked_on (sess2 st i)) as [c|] eqn:L; [|discriminate].
    destruct (holder2 st c) as [j0|] eqn:Hh; [|discriminate].
    destruct (Nat.eqb j0 i) eqn:Ej; [|discriminate]. apply Nat.eqb_eq in Ej. subst j0.
    inversion H; subst st'; clear H. split; [exact Q|].
    intros j. cbn. destruct (Nat.eq_dec j i) as [->|N]; [rewrite updS_same; exact I|].
    rewrite updS_other by exact N. pose proof (S j) as Sj.
    pose proof (other_contract st i j c S Hh N) as O.
    destruct (sess2 st j) as [|c2 r2|c2 row2|c2 row2 w2 o2|c2]; auto.
    + destruct Sj as [S1 S2]. split; [|exact S2]. rewrite updH_other; [exact S1|]. apply O. reflexivity.
    + destruct Sj as (S1 & S2 & S3). split; [|split; assumption]. rewrite updH_other; [exact S1|]. apply O. reflexivity.
    + rewrite updH_other; [exact Sj|]. apply O. reflexivity.
  - (* Form *)
    destruct (form4 (store2 st) c p a k) as [s'| |] eqn:E; inversion H; subst st'; clear H; try (split; assumption).
    split; cbn.
    + eapply seq2_snoc; [exact Q|exact E].
    + apply sess_ok2_store; [exact S|eapply form4_frame; eauto].
  - (* Debit *)
    destruct (debit2 (store2 st) a u) as [s'| |] eqn:E; inversion H; subst st'; clear H; try (split; assumption).
    split; cbn.
    + eapply seq2_snoc; [exact Q|exact E].
    + apply sess_ok2_store; [exact S|eapply debit2_frame; eauto].
Qed.

Lemma cinit2_inv s0 : cinv2 s0 (cinit2 s0).
Proof. split; cbn; [reflexivity|intros j; exact I]. Qed.

Lemma crun2_inv s0 tr : forall st st', cinv2 s0 st -> crun2 true st tr = Some st' -> cinv2 s0 st'.
Proof.
  induction tr as [|l t IH]; intros st st' I H; cbn [crun2] in H.
  - inversion H; subst; exact I.
  - destruct (cstep2 true st l) as [st1|] eqn:E; [|discriminate].
    eapply IH; [eapply cstep2_inv; eauto|exact H].
Qed.

(** * Results *)
(* Every schedule of any number of sessions over any contracts and accounts, cut at ANY point, has
   a store that is the sequential ModelV2 run of the committed operations in commit order, each of
   them accepted. *)
Lemma conc2_serializable s0 tr st :
  crun2 true (cinit2 s0) tr = Some st -> seq2 s0 (clog2 st) = Some (store2 st).
Proof. intros H. exact (ci2_seq _ _ (crun2_inv s0 tr _ _ (cinit2_inv s0) H)). Qed.

Lemma conc2_runs2 l0 tr st :
  crun2 true (cinit2 (runs2 init2 l0)) tr = Some st -> store2 st = runs2 init2 (l0 ++ clog2 st).
Proof.
  intros H. apply conc2_serializable in H. apply seq2_runs2 in H. rewrite runs2_app. symmetry. exact H.
Qed.

(* hence everything proved about sequential runs holds in every reachable interleaved state *)
Lemma conc2_conservation l0 tr st r :
  crun2 true (cinit2 (runs2 init2 l0)) tr = Some st -> In r (cons2 (store2 st)) ->
  (ckind r <> KRefreshed ->
     f2host (cfc r) = f2total (cfc r) +
       (vRpc (cuse2 r) + vSto (cuse2 r) + vEgr (cuse2 r) + vIng (cuse2 r) + vFund (cuse2 r))) /\
  vFund (cuse2 r) = fsum (cid2 r) (funds2 (store2 st)) /\
  (let h := hist init2 (l0 ++ clog2 st) (cid2 r) in
   rcost2 (cuse2 r) = rcost2 h /\ vRisk (cuse2 r) = vRisk h).
Proof.
  intros H Hr. pose proof (conc2_runs2 _ _ _ H) as E. rewrite E in Hr. rewrite E.
  split; [intros K; exact (v2_spending _ _ Hr K)|]. split; [exact (v2_funding_backed _ _ Hr)|].
  pose proof (runs2_inv (l0 ++ clog2 st) init2 Inv2_init) as (ND & _ & _).
  pose proof (v2_usage_sum (l0 ++ clog2 st) (cid2 r) r (In_find2 _ _ ND Hr)) as U. cbn zeta in U |- *.
  split; apply U.
Qed.

(* between Decide and Persist: what the session has counter-signed is exactly what the sequential
   RPC writes on the store as it is now — whatever other sessions committed in between *)
Lemma conc2_pending s0 tr st i c row w o :
  crun2 true (cinit2 s0) tr = Some st -> sess2 st i = TDecided c row w o ->
  persist2 (store2 st) c w = step_res2 (store2 st) o.
Proof.
  intros H E. pose proof (ci2_sess _ _ (crun2_inv s0 tr _ _ (cinit2_inv s0) H) i) as S.
  rewrite E in S. destruct S as (_ & P & (sd & q & D)). eapply decide2_step; eauto.
Qed.

(* two sessions never work on the same contract *)
Lemma conc2_exclusive s0 tr st i j c :
  crun2 true (cinit2 s0) tr = Some st ->
  locked_on (sess2 st i) = Some c -> locked_on (sess2 st j) = Some c -> i = j.
Proof.
  intros H Li Lj. pose proof (ci2_sess _ _ (crun2_inv s0 tr _ _ (cinit2_inv s0) H)) as S.
  assert (A : forall k, locked_on (sess2 st k) = Some c -> holder2 st c = Some k).
  { intros k L. specialize (S k). destruct (sess2 st k) as [|c1 r|c1 row|c1 row w o|c1]; cbn in L; try discriminate;
      inversion L; subst c1; [apply S|apply S|exact S]. }
  pose proof (A i Li). pose proof (A j Lj). congruence.
Qed.

(** * Reading before the lock: the statement fails *)
(* One contract (id 1: allowance 1000, collateral 100, price 10), two appends of price 50 and 70.
   Session 0 reads the row, session 1 locks, decides, persists and unlocks, session 0 then takes
   the lock and works with the copy it read before: it stores revision 1 (again) with the host
   paid 50 over the formation state, while the usage has both payments. *)
Definition rx_s0 : state2 := runs2 init2 [Form4 1 10 1000 100].
Definition rx_schedule : list label2 :=
  [LRead 0 1;
   LLock 1 1; LDecide 1 (QPay 70 0 0 0 0); LPersist 1; LUnlock 1;
   LLock 0 1; LDecide 0 (QPay 50 0 0 0 0); LPersist 0; LUnlock 0].

Definition rx_view (o : option cstate2) : option (list (N * N * N * N) * nat) :=
  match o with
  | Some st => Some (map (fun r => (f2rn (cfc r), f2host (cfc r), f2total (cfc r), rcost2 (cuse2 r))) (cons2 (store2 st)),
                     length (clog2 st))
  | None => None
  end.

Lemma relaxed2_refuted :
  (* the relaxed system runs the schedule: revision number 1, host output 160 = 100 + 10 + 50,
     recorded spending 130 = 10 + 70 + 50 *)
  rx_view (crun2 false (cinit2 rx_s0) rx_schedule) = Some ([(1, 160, 100, 130)], 2%nat) /\
  (* conservation fails in the state reached, and no sequential run of the log explains it *)
  (forall st, crun2 false (cinit2 rx_s0) rx_schedule = Some st ->
     (exists r, In r (cons2 (store2 st)) /\ ckind r <> KRefreshed /\
                f2host (cfc r) <> f2total (cfc r) + rcost2 (cuse2 r)) /\
     seq2 rx_s0 (clog2 st) <> Some (store2 st)) /\
  (* the code as it is cannot run it: there is no read without the lock *)
  crun2 true (cinit2 rx_s0) rx_schedule = None.
Proof.
  split; [vm_compute; reflexivity|]. split; [|vm_compute; reflexivity].
  intros st H. vm_compute in H. inversion H; subst st; clear H. split.
  - cbn [store2 cons2]. eexists. split; [left; reflexivity|]. split; [discriminate|]. vm_compute. discriminate.
  - vm_compute. discriminate.
Qed.

(** * Non-vacuity: a strict schedule of three sessions over two contracts and an account *)
(* contracts 1 and 2; session 0 funds account 7 from contract 1 and is parked counter-signed;
   meanwhile session 1 appends on contract 2 and commits, and an account-paid read on account 7 is
   refused (not funded yet); session 0 persists; the same read now moves 30 from contract 1's
   account funding into its revenue columns WHILE session 2 holds contract 1's lock with a decided
   refresh; the refresh then commits on top; a last request on the refreshed contract is refused *)
Definition ex2_s0 : state2 := runs2 init2 [Form4 1 10 1000 100; Form4 2 10 500 60].
Definition ex2_schedule : list label2 :=
  [LLock 0 1; LDecide 0 (QFund [(7, 200)]);
   LLock 1 2; LDecide 1 (QPay 5 20 0 3 40); LPersist 1; LUnlock 1;
   LDebit 7 (mkU2 10 0 20 0 0 0);
   LPersist 0; LUnlock 0;
   LLock 2 1; LDecide 2 (QRefresh 3 10 300 50);
   LDebit 7 (mkU2 10 0 20 0 0 0);
   LPersist 2; LUnlock 2;
   LLock 1 1; LDecide 1 (QPay 1 0 0 0 0); LUnlock 1].

Lemma conc2_ex :
  option_map (fun st => (map (fun r => (cid2 r, f2rn (cfc r), f2host (cfc r), rcost2 (cuse2 r), vFund (cuse2 r), crenewed r)) (cons2 (store2 st)),
                         clog2 st)) (crun2 true (cinit2 ex2_s0) ex2_schedule)
  = Some ([(1, 1, 310, 210, 170, true); (2, 1, 98, 38, 0, false); (3, 0, 370, 10, 0, false)],
          [Pay4 2 5 20 0 3 40; Fund4 1 [(7, 200)]; Debit4 7 (mkU2 10 0 20 0 0 0); Refresh4 1 3 10 300 50]) /\
  (* a second session cannot get a lock that is held *)
  crun2 true (cinit2 ex2_s0) [LLock 0 1; LLock 1 1] = None.
Proof. split; vm_compute; reflexivity. Qed.
