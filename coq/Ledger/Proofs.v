(* Ledger/Proofs.v — lemmas about Ledger/Model.v *)
From Coq Require Import Lia ZifyBool ZifyN ZifyNat.
From HostdBase Require Import Base.
From HostdLedger Require Import Model.

Lemma observers_pure : forall s a, fst (step s (Balance a)) = s.
Proof. reflexivity. Qed.
