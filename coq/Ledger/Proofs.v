(* Ledger/Proofs.v — the state invariant of the account ledger and its preservation by
   every operation (Ledger/Model.v).  The property-level theorems are in Proofs2.v. *)
From Coq Require Import Lia ZifyBool ZifyN ZifyNat.
From HostdBase Require Import Base.
From HostdLedger Require Import Model Lib.

Local Open Scope N_scope.
Set Implicit Arguments.

(** * Checked arithmetic *)
Lemma cadd_ok : forall x y, x + y < two128 -> cadd x y = Ok (x + y).
Proof. intros. unfold cadd. destruct (x + y <? two128) eqn:E; [reflexivity | lia]. Qed.
Lemma cadd_inv : forall x y z, cadd x y = Ok z -> z = x + y /\ x + y < two128.
Proof. unfold cadd; intros x y z. destruct (x + y <? two128) eqn:E; intros H; [injection H as <-; lia | discriminate]. Qed.
Lemma cadd_not_err : forall x y e, cadd x y <> Err e.
Proof. unfold cadd; intros. destruct (x + y <? two128); discriminate. Qed.
Lemma csub_ok : forall x y, y <= x -> csub x y = Ok (x - y).
Proof. intros. unfold csub. destruct (y <=? x) eqn:E; [reflexivity | lia]. Qed.
Lemma csub_inv : forall x y z, csub x y = Ok z -> y <= x /\ z = x - y.
Proof. unfold csub; intros x y z. destruct (y <=? x) eqn:E; intros H; [injection H as <-; lia | discriminate]. Qed.

Lemma stat_add_ok : forall m d, m + d < two128 -> stat_add m d = Ok (m + d).
Proof. intros. unfold stat_add. destruct (d =? 0) eqn:E; [f_equal; lia | apply cadd_ok; assumption]. Qed.
Lemma stat_sub_ok : forall m d, d <= m -> stat_sub m d = Ok (m - d).
Proof. intros. unfold stat_sub. destruct (d =? 0) eqn:E; [f_equal; lia | apply csub_ok; assumption]. Qed.

Definition usum (u : usage) : N := uRpc u + uStorage u + uEgress u + uIngress u + uRegR u + uRegW u.

Lemma utotal_spec : forall u, utotal u = if usum u <? two128 then Ok (usum u) else Panic.
Proof.
  intros [r s e i x y]. unfold utotal, usum, cadd, bind; cbn [uRpc uStorage uEgress uIngress uRegR uRegW].
  destruct (r + s <? two128) eqn:E1.
  2:{ destruct (r + s + e + i + x + y <? two128) eqn:E; [lia | reflexivity]. }
  destruct (r + s + e <? two128) eqn:E2.
  2:{ destruct (r + s + e + i + x + y <? two128) eqn:E; [lia | reflexivity]. }
  destruct (r + s + e + i <? two128) eqn:E3.
  2:{ destruct (r + s + e + i + x + y <? two128) eqn:E; [lia | reflexivity]. }
  destruct (r + s + e + i + x <? two128) eqn:E4.
  2:{ destruct (r + s + e + i + x + y <? two128) eqn:E; [lia | reflexivity]. }
  reflexivity.
Qed.

Lemma utotal_ok : forall u t, utotal u = Ok t -> t = usum u /\ usum u < two128.
Proof. intros u t. rewrite utotal_spec. destruct (usum u <? two128) eqn:E; intros H; [injection H as <-; lia | discriminate]. Qed.
Lemma utotal_not_err : forall u e, utotal u <> Err e.
Proof. intros u e. rewrite utotal_spec. destruct (usum u <? two128); discriminate. Qed.
Lemma utotal_small : forall u, usum u < two128 -> utotal u = Ok (usum u).
Proof. intros u H. rewrite utotal_spec. destruct (usum u <? two128) eqn:E; [reflexivity | lia]. Qed.

Lemma usub_le : forall a b c, usub a b = Ok c -> usum c <= usum a.
Proof.
  intros [r s e i x y] [r' s' e' i' x' y'] c. unfold usub, bind, csub, usum; cbn [uRpc uStorage uEgress uIngress uRegR uRegW].
  destruct (r' <=? r) eqn:E1; [|discriminate].
  destruct (s' <=? s) eqn:E2; [|discriminate].
  destruct (e' <=? e) eqn:E3; [|discriminate].
  destruct (i' <=? i) eqn:E4; [|discriminate].
  destruct (x' <=? x) eqn:E5; [|discriminate].
  destruct (y' <=? y) eqn:E6; [|discriminate].
  intros H; injection H as <-. cbn [uRpc uStorage uEgress uIngress uRegR uRegW]. lia.
Qed.

(** * Open reservations *)
Definition isopen (a : N) (bd : budget) : bool := (bacct bd =? a) && negb (bdone bd).
Definition cmax (a : N) (bd : budget) : N := if isopen a bd then bmax bd else 0.
Definition cone (a : N) (bd : budget) : N := if isopen a bd then 1 else 0.
(* sum of the [max] of the open budgets on account a / their number *)
Definition openmax (s : state) (a : N) : N := bsum (cmax a) (budgets s).
Definition opencount (s : state) (a : N) : N := bsum (cone a) (budgets s).

Lemma count0_max0 : forall l a, bsum (cone a) l = 0 -> bsum (cmax a) l = 0.
Proof.
  induction l as [|h t IH]; intros a; cbn [bsum]; [reflexivity|].
  unfold cone at 1, cmax at 1. destruct (isopen a h); intros H; [lia | rewrite (IH a); lia].
Qed.

Lemma open_counted : forall l b bd, nth_error l b = Some bd -> bdone bd = false ->
  0 < bsum (cone (bacct bd)) l /\ bmax bd <= bsum (cmax (bacct bd)) l.
Proof.
  induction l as [|h t IH]; intros [|b] bd H Hd; cbn [nth_error] in H; try discriminate; cbn [bsum].
  - injection H as ->. unfold cone, cmax, isopen. rewrite N.eqb_refl, Hd. cbn [negb andb]. lia.
  - destruct (IH _ _ H Hd). lia.
Qed.

(** * The invariant *)
Definition usage_ok (bd : budget) : Prop :=
  bdone bd = false -> exists t, utotal (busage bd) = Ok t /\ t <= bmax bd.

Definition mem_ok (B : N) (s : state) (a : N) : Prop :=
  match alookup a (mem s) with
  | Some e => mopen e = Z.of_N (opencount s a) /\ 0 < opencount s a /\ mbal e + openmax s a <= B
  | None => opencount s a = 0
  end.

Record Inv (B : N) (s : state) : Prop := {
  inv_metric : mBalance s = asum (store s);
  inv_active : mActive s = N.of_nat (length (store s));
  inv_bound : asum (store s) <= B;
  inv_nodup : nodupk (mem s);
  inv_mem : forall a, mem_ok B s a;
  inv_usage : forall b bd, nth_error (budgets s) b = Some bd -> usage_ok bd
}.

Lemma Inv_init : Inv 0 init.
Proof.
  constructor.
  - reflexivity.
  - reflexivity.
  - cbn. lia.
  - constructor.
  - intros a. reflexivity.
  - intros [|b] bd H; discriminate.
Qed.

Lemma Inv_mono : forall B B' s, Inv B s -> B <= B' -> Inv B' s.
Proof.
  intros B B' s [] HB. constructor; try assumption; try lia.
  intros a. specialize (inv_mem0 a). unfold mem_ok in *. destruct (alookup a (mem s)); [|assumption].
  destruct inv_mem0 as (?&?&?). repeat split; try assumption; lia.
Qed.

Lemma sbal_getv : forall s a, sbal s a = getv a (store s).
Proof. reflexivity. Qed.

Lemma sbal_le : forall B s a, Inv B s -> sbal s a <= B.
Proof. intros B s a I. rewrite sbal_getv. pose proof (getv_le_asum a (store s)). pose proof (inv_bound I). lia. Qed.

Lemma get_balance_le : forall B s a, Inv B s -> get_balance s a <= B.
Proof.
  intros B s a I. unfold get_balance. pose proof (inv_mem I a) as M. unfold mem_ok in M.
  destruct (alookup a (mem s)); [destruct M as (_&_&?); lia | exact (sbal_le a I)].
Qed.

(* an open budget keeps its account cached *)
Lemma open_cached : forall B s b bd, Inv B s -> nth_error (budgets s) b = Some bd -> bdone bd = false ->
  exists e, alookup (bacct bd) (mem s) = Some e.
Proof.
  intros B s b bd I H Hd. pose proof (inv_mem I (bacct bd)) as M. unfold mem_ok in M.
  destruct (alookup (bacct bd) (mem s)) as [e|]; [eauto|].
  destruct (open_counted _ _ H Hd) as [Hc _]. unfold opencount in M. lia.
Qed.

(** * Store-only changes *)
Lemma inv_set_store : forall B B' s st mb ma, Inv B s -> B <= B' ->
  mb = asum st -> ma = N.of_nat (length st) -> asum st <= B' ->
  Inv B' (set_store s st mb ma).
Proof.
  intros B B' s st mb ma I HB Hm Ha Hb. pose proof (Inv_mono I HB) as [].
  constructor; cbn [set_store store mBalance mActive mem budgets]; try assumption.
Qed.

(** * release: the common tail of Commit and Rollback *)
Lemma release_inv : forall B s a back e,
  B < two128 ->
  mBalance s = asum (store s) -> mActive s = N.of_nat (length (store s)) -> asum (store s) <= B ->
  nodupk (mem s) ->
  (forall a', a' <> a -> mem_ok B s a') ->
  (forall b bd, nth_error (budgets s) b = Some bd -> usage_ok bd) ->
  alookup a (mem s) = Some e ->
  mopen e = Z.of_N (opencount s a + 1) ->
  mbal e + back + openmax s a <= B ->
  Inv B (fst (release s a back)) /\ snd (release s a back) = ODone /\
  store (fst (release s a back)) = store s /\ budgets (fst (release s a back)) = budgets s /\
  (alookup a (mem (fst (release s a back))) =
     if (opencount s a =? 0) then None else Some {| mbal := mbal e + back; mopen := mopen e - 1 |}) /\
  (forall a', a' <> a -> alookup a' (mem (fst (release s a back))) = alookup a' (mem s)).
Proof.
  intros B s a back e HB Hm Ha Hb Hn Ho Hu He Hopen Hbound.
  unfold release. rewrite He.
  destruct (mopen e - 1 <=? 0)%Z eqn:E.
  - (* last open budget: the entry is dropped *)
    assert (Hc : opencount s a = 0) by lia.
    cbn [fst snd]. rewrite Hc, N.eqb_refl.
    refine (conj _ (conj _ (conj _ (conj _ (conj _ _))))); try reflexivity.
    + constructor; cbn [set_mem store mBalance mActive mem budgets]; try assumption.
      * apply nodupk_aremove; assumption.
      * intros a'. unfold mem_ok, opencount, openmax. cbn [set_mem mem budgets].
        rewrite alookup_aremove by assumption. destruct (a' =? a) eqn:Ea.
        -- apply N.eqb_eq in Ea; subst a'. exact Hc.
        -- apply N.eqb_neq in Ea. exact (Ho a' Ea).
    + cbn [set_mem mem]. rewrite alookup_aremove, N.eqb_refl by assumption. reflexivity.
    + intros a' Ha'. cbn [set_mem mem]. rewrite alookup_aremove by assumption.
      destruct (a' =? a) eqn:Ea; [apply N.eqb_eq in Ea; contradiction | reflexivity].
  - assert (Hc : 0 < opencount s a) by lia.
    rewrite cadd_ok by lia. cbn [fst snd].
    destruct (opencount s a =? 0) eqn:E0; [lia|].
    refine (conj _ (conj _ (conj _ (conj _ (conj _ _))))); try reflexivity.
    + constructor; cbn [set_mem store mBalance mActive mem budgets]; try assumption.
      * apply nodupk_aset; assumption.
      * intros a'. unfold mem_ok, opencount, openmax. cbn [set_mem mem budgets].
        rewrite alookup_aset. destruct (a' =? a) eqn:Ea.
        -- apply N.eqb_eq in Ea; subst a'. cbn [mbal mopen]. fold (opencount s a). fold (openmax s a). lia.
        -- apply N.eqb_neq in Ea. exact (Ho a' Ea).
    + cbn [set_mem mem]. rewrite alookup_aset_same. reflexivity.
    + intros a' Ha'. cbn [set_mem mem]. apply alookup_aset_other; assumption.
Qed.

(** * Well-formed operations and the amount an operation tries to deposit *)
(* coreutils' RPCFundAccounts/RPCReplenishAccounts pass usage.AccountFunding = sum of the deposits
   (rhp4.ReviseForFundAccounts); the store trusts its caller on that. *)
Definition wf_op (o : op) : Prop :=
  match o with R4Credit deps fund _ => fund = asum deps | _ => True end.
Definition att (o : op) : N :=
  match o with Credit _ amt _ _ _ => amt | R4Credit deps _ _ => asum deps | _ => 0 end.

Fixpoint amt_for (x : N) (l : list (N * N)) : N :=
  match l with [] => 0 | (k, v) :: t => (if k =? x then v else 0) + amt_for x t end.

Lemma getv_aset : forall k v x l, getv x (aset k v l) = if x =? k then v else getv x l.
Proof. intros. unfold getv. rewrite alookup_aset. destruct (x =? k); reflexivity. Qed.

Lemma r4_deposits_ok : forall deps st created bals, asum st + asum deps < two128 ->
  exists st' c' bals', r4_deposits st created bals deps = Ok (st', c', bals') /\
    asum st' = asum st + asum deps /\
    N.of_nat (length st') + created = N.of_nat (length st) + c' /\
    forall x, getv x st' = getv x st + amt_for x deps.
Proof.
  induction deps as [|[a amt] t IH]; intros st created bals Hb; cbn [r4_deposits asum amt_for].
  - exists st, created, bals. repeat split; try lia.
  - cbn [asum] in Hb.
    pose proof (getv_le_asum a st) as Hle. pose proof (asum_aset a (getv a st + amt) st) as Hs.
    pose proof (length_aset _ a (getv a st + amt) st) as Hl.
    unfold getv in Hle, Hs, Hl. unfold bind.
    destruct (alookup a st) as [cur|] eqn:L.
    + rewrite cadd_ok by lia.
      destruct (IH (aset a (cur + amt) st) created (bals ++ [cur + amt])) as (st'&c'&bals'&E&H1&H2&H3); [lia|].
      exists st', c', bals'. rewrite E. split; [reflexivity|]. split; [lia|]. split; [lia|].
      intros x. rewrite H3, getv_aset. unfold getv at 2. destruct (x =? a) eqn:Ex.
      * apply N.eqb_eq in Ex; subst x. rewrite L, N.eqb_refl. lia.
      * rewrite N.eqb_sym, Ex. unfold getv. lia.
    + rewrite cadd_ok by lia.
      destruct (IH (aset a (0 + amt) st) (created + 1) (bals ++ [0 + amt])) as (st'&c'&bals'&E&H1&H2&H3); [lia|].
      exists st', c', bals'. rewrite E. split; [reflexivity|]. split; [lia|]. split; [lia|].
      intros x. rewrite H3, getv_aset. unfold getv at 2. destruct (x =? a) eqn:Ex.
      * apply N.eqb_eq in Ex; subst x. rewrite L, N.eqb_refl. lia.
      * rewrite N.eqb_sym, Ex. unfold getv. lia.
Qed.

(** * Budget list updates *)
Lemma close_sums : forall l b bd bd' a, nth_error l b = Some bd -> bdone bd = false -> bdone bd' = true ->
  (bsum (cone a) (upd_nth b bd' l) + cone a bd = bsum (cone a) l) /\
  (bsum (cmax a) (upd_nth b bd' l) + cmax a bd = bsum (cmax a) l).
Proof.
  intros l b bd bd' a H Hd Hd'.
  pose proof (bsum_upd (cone a) l b bd bd' H) as H1. pose proof (bsum_upd (cmax a) l b bd bd' H) as H2.
  assert (cone a bd' = 0 /\ cmax a bd' = 0) as [E1 E2].
  { unfold cone, cmax, isopen. rewrite Hd'. rewrite Bool.andb_false_r. split; reflexivity. }
  lia.
Qed.

Lemma cone_open : forall bd, bdone bd = false -> cone (bacct bd) bd = 1 /\ cmax (bacct bd) bd = bmax bd.
Proof. intros bd Hd. unfold cone, cmax, isopen. rewrite N.eqb_refl, Hd. split; reflexivity. Qed.
Lemma cone_other : forall bd a, a <> bacct bd -> cone a bd = 0 /\ cmax a bd = 0.
Proof.
  intros bd a Ha. unfold cone, cmax, isopen. destruct (bacct bd =? a) eqn:E; [apply N.eqb_eq in E; congruence|].
  split; reflexivity.
Qed.

Lemma inv_upd_budget : forall B s b bd bd', Inv B s -> nth_error (budgets s) b = Some bd ->
  bacct bd' = bacct bd -> bdone bd' = bdone bd -> bmax bd' = bmax bd -> usage_ok bd' ->
  Inv B (set_budgets s (upd_nth b bd' (budgets s))).
Proof.
  intros B s b bd bd' I H Ha Hd Hm Hu. destruct I.
  constructor; cbn [set_budgets store mBalance mActive mem budgets]; try assumption.
  - intros a. specialize (inv_mem0 a). unfold mem_ok, opencount, openmax in *. cbn [set_budgets mem budgets].
    pose proof (bsum_upd (cone a) _ b bd bd' H) as H1. pose proof (bsum_upd (cmax a) _ b bd bd' H) as H2.
    assert (cone a bd' = cone a bd /\ cmax a bd' = cmax a bd) as [E1 E2].
    { unfold cone, cmax, isopen. rewrite Ha, Hd, Hm. split; reflexivity. }
    replace (bsum (cone a) (upd_nth b bd' (budgets s))) with (bsum (cone a) (budgets s)) by lia.
    replace (bsum (cmax a) (upd_nth b bd' (budgets s))) with (bsum (cmax a) (budgets s)) by lia.
    exact inv_mem0.
  - intros b' x Hx. rewrite nth_error_upd in Hx. destruct (Nat.eqb b' b).
    + rewrite H in Hx. injection Hx as <-. exact Hu.
    + exact (inv_usage0 _ _ Hx).
Qed.

Lemma inv_reserve : forall B s a amt e, Inv B s ->
  mopen e = Z.of_N (opencount s a) -> mbal e + openmax s a <= B -> amt <= mbal e ->
  Inv B (set_budgets (set_mem s (aset a {| mbal := mbal e - amt; mopen := mopen e + 1 |} (mem s)))
           (budgets s ++ [{| bacct := a; bmax := amt; busage := uzero; bdone := false |}])).
Proof.
  intros B s a amt e I Ho Hb Ha. destruct I.
  constructor; cbn [set_budgets set_mem store mBalance mActive mem budgets]; try assumption.
  - apply nodupk_aset; assumption.
  - intros a'. specialize (inv_mem0 a'). unfold mem_ok, opencount, openmax in *.
    cbn [set_budgets set_mem mem budgets]. rewrite !bsum_app, alookup_aset.
    destruct (a' =? a) eqn:Ea.
    + apply N.eqb_eq in Ea; subst a'.
      destruct (@cone_open {| bacct := a; bmax := amt; busage := uzero; bdone := false |} eq_refl) as [E1 E2].
      cbn [bacct bmax] in E1, E2. rewrite E1, E2. cbn [mbal mopen]. lia.
    + apply N.eqb_neq in Ea.
      destruct (@cone_other {| bacct := a; bmax := amt; busage := uzero; bdone := false |} a' Ea) as [E1 E2].
      rewrite E1, E2, !N.add_0_r. exact inv_mem0.
  - intros b x Hx. destruct (nth_error_app1 _ _ _ _ _ Hx) as [Hx'|[_ ->]].
    + exact (inv_usage0 _ _ Hx').
    + intros _. exists 0. split; [reflexivity | cbn [bmax]; lia].
Qed.

Lemma inv_set_mem_bal : forall B s a e nb, Inv B s -> alookup a (mem s) = Some e ->
  nb + openmax s a <= B ->
  Inv B (set_mem s (aset a {| mbal := nb; mopen := mopen e |} (mem s))).
Proof.
  intros B s a e nb I L Hb. destruct I.
  constructor; cbn [set_mem store mBalance mActive mem budgets]; try assumption.
  - apply nodupk_aset; assumption.
  - intros a'. specialize (inv_mem0 a'). unfold mem_ok, opencount, openmax in *. cbn [set_mem mem budgets].
    rewrite alookup_aset. destruct (a' =? a) eqn:Ea; [|exact inv_mem0].
    apply N.eqb_eq in Ea; subst a'. rewrite L in inv_mem0. cbn [mbal mopen]. lia.
Qed.

(** * Preservation, operation by operation *)
Lemma inv_credit : forall B s a amt refund expired cok, Inv B s -> B + amt < two128 ->
  Inv (B + amt) (fst (step s (Credit a amt refund expired cok))).
Proof.
  intros B s a amt refund expired cok I HB.
  assert (I' : Inv (B + amt) s) by (apply (Inv_mono I); lia).
  cbn [step]. destruct expired; [exact I'|].
  unfold finish, bind.
  rewrite cadd_ok by (pose proof (get_balance_le a I); lia).
  destruct (negb refund && (maxbal s <? get_balance s a + amt)); [exact I'|].
  unfold store_credit, bind. rewrite cadd_ok by (pose proof (sbal_le a I); lia).
  rewrite stat_add_ok by (rewrite (inv_metric I); pose proof (inv_bound I); lia).
  destruct cok; [|exact I'].
  cbn [fst].
  pose proof (asum_aset a (sbal s a + amt) (store s)) as Hs. rewrite <- sbal_getv in Hs.
  pose proof (length_aset _ a (sbal s a + amt) (store s)) as Hl.
  match goal with |- Inv _ (match alookup a (mem ?S1) with _ => _ end) => set (s1 := S1) end.
  assert (I1 : Inv (B + amt) s1).
  { apply inv_set_store with (B := B); try assumption; try lia.
    - rewrite (inv_metric I). lia.
    - rewrite (inv_active I). destruct (alookup a (store s)); rewrite Hl; lia.
    - pose proof (inv_bound I). lia. }
  change (mem s1) with (mem s).
  destruct (alookup a (mem s)) as [e|] eqn:L; [|exact I1].
  apply (@inv_set_mem_bal (B + amt) s1 a e _ I1 L).
  pose proof (inv_mem I a) as M. unfold mem_ok in M. rewrite L in M.
  unfold get_balance. rewrite L. change (openmax s1 a) with (openmax s a). lia.
Qed.

Lemma inv_newbudget : forall B s a amt rok, Inv B s -> Inv B (fst (step s (NewBudget a amt rok))).
Proof.
  intros B s a amt rok I. cbn [step]. unfold finish, bind.
  pose proof (inv_mem I a) as M. unfold mem_ok in M.
  destruct (alookup a (mem s)) as [e|] eqn:L.
  - destruct (mbal e <? amt) eqn:C; [exact I|]. cbn [fst].
    apply inv_reserve; try assumption; try lia; tauto.
  - destruct rok; [|exact I]. cbn [mbal mopen].
    destruct (sbal s a <? amt) eqn:C; [exact I|]. cbn [fst].
    apply (@inv_reserve B s a amt {| mbal := sbal s a; mopen := 0 |}); cbn [mbal mopen]; try assumption; try lia.
    unfold openmax. rewrite (count0_max0 _ _ M). pose proof (sbal_le a I). lia.
Qed.

Lemma inv_spend : forall B s b u, Inv B s -> Inv B (fst (step s (Spend b u))).
Proof.
  intros B s b u I. cbn [step]. destruct (nth_error (budgets s) b) as [bd|] eqn:Hn; [|exact I].
  unfold finish, bind. destruct (uadd (busage bd) u) as [nu| |]; try exact I.
  destruct (utotal nu) as [sp| |] eqn:T; try exact I.
  destruct (bmax bd <? sp) eqn:C; [exact I|]. cbn [fst].
  apply inv_upd_budget with (bd := bd); try assumption; try reflexivity.
  intros _. exists sp. cbn [with_usage busage bmax]. split; [exact T | lia].
Qed.

Lemma inv_refund : forall B s b u, Inv B s -> Inv B (fst (step s (Refund b u))).
Proof.
  intros B s b u I. cbn [step]. destruct (nth_error (budgets s) b) as [bd|] eqn:Hn; [|exact I].
  destruct (bdone bd) eqn:Hd; [exact I|].
  unfold finish, bind. destruct (usub (busage bd) u) as [nu| |] eqn:S; try exact I. cbn [fst].
  apply inv_upd_budget with (bd := bd); try assumption; try reflexivity.
  intros _. destruct (inv_usage I _ Hn Hd) as (t&Ht&Hle). cbn [with_usage busage bmax].
  destruct (utotal_ok _ Ht) as [-> Hs]. pose proof (usub_le _ _ S).
  exists (usum nu). split; [apply utotal_small; lia | lia].
Qed.

Lemma closed_rest : forall B s s1 b bd bd', Inv B s ->
  nth_error (budgets s) b = Some bd -> bdone bd = false -> bdone bd' = true ->
  mem s1 = mem s -> budgets s1 = upd_nth b bd' (budgets s) ->
  (forall a', a' <> bacct bd -> mem_ok B s1 a') /\
  (forall b' x, nth_error (budgets s1) b' = Some x -> usage_ok x) /\
  opencount s1 (bacct bd) + 1 = opencount s (bacct bd) /\
  openmax s1 (bacct bd) + bmax bd = openmax s (bacct bd).
Proof.
  intros B s s1 b bd bd' I Hn Hd Hd' Em Eb.
  refine (conj _ (conj _ _)).
  - intros a' Ha'. pose proof (inv_mem I a') as M. unfold mem_ok, opencount, openmax in *. rewrite Em, Eb.
    destruct (close_sums _ b bd' a' Hn Hd Hd') as [H1 H2].
    destruct (@cone_other bd a' Ha') as [E1 E2]. rewrite E1 in H1. rewrite E2 in H2.
    rewrite N.add_0_r in H1, H2. rewrite H1, H2. exact M.
  - intros b' x Hx. rewrite Eb, nth_error_upd in Hx. destruct (Nat.eqb b' b).
    + rewrite Hn in Hx. injection Hx as <-. intros Hf. congruence.
    + exact (inv_usage I _ Hx).
  - unfold opencount, openmax. rewrite Eb.
    destruct (close_sums _ b bd' (bacct bd) Hn Hd Hd') as [H1 H2].
    destruct (cone_open _ Hd) as [E1 E2]. rewrite E1 in H1. rewrite E2 in H2. lia.
Qed.

Lemma rollback_spec : forall B s b bd e, Inv B s -> B < two128 ->
  nth_error (budgets s) b = Some bd -> bdone bd = false -> alookup (bacct bd) (mem s) = Some e ->
  snd (step s (Rollback b)) = ODone /\ Inv B (fst (step s (Rollback b))) /\
  store (fst (step s (Rollback b))) = store s /\
  budgets (fst (step s (Rollback b))) = upd_nth b (mark_done bd) (budgets s) /\
  alookup (bacct bd) (mem (fst (step s (Rollback b)))) =
    (if opencount s (bacct bd) =? 1 then None else Some {| mbal := mbal e + bmax bd; mopen := mopen e - 1 |}) /\
  (forall a', a' <> bacct bd -> alookup a' (mem (fst (step s (Rollback b)))) = alookup a' (mem s)).
Proof.
  intros B s b bd e I HB Hn Hd He. cbn [step]. rewrite Hn, Hd, He.
  set (s1 := set_budgets s (upd_nth b (mark_done bd) (budgets s))).
  destruct (@closed_rest B s s1 b bd (mark_done bd) I Hn Hd eq_refl eq_refl eq_refl) as (R1&R2&R3&R4).
  pose proof (inv_mem I (bacct bd)) as M. unfold mem_ok in M. rewrite He in M.
  destruct (@release_inv B s1 (bacct bd) (bmax bd) e) as (Q1&Q2&Q3&Q4&Q5&Q6); try assumption.
  - exact (inv_metric I).
  - exact (inv_active I).
  - exact (inv_bound I).
  - exact (inv_nodup I).
  - rewrite R3. tauto.
  - lia.
  - refine (conj Q2 (conj Q1 (conj Q3 (conj Q4 (conj _ Q6))))).
    rewrite Q5. destruct (opencount s1 (bacct bd) =? 0) eqn:E0; destruct (opencount s (bacct bd) =? 1) eqn:E1; try reflexivity; lia.
Qed.

Lemma inv_rollback : forall B s b, Inv B s -> B < two128 -> Inv B (fst (step s (Rollback b))).
Proof.
  intros B s b I HB. destruct (nth_error (budgets s) b) as [bd|] eqn:Hn; [|cbn [step]; rewrite Hn; exact I].
  destruct (bdone bd) eqn:Hd; [cbn [step]; rewrite Hn, Hd; exact I|].
  destruct (@open_cached B s b bd I Hn Hd) as [e He].
  exact (proj1 (proj2 (rollback_spec b I HB Hn Hd He))).
Qed.

Lemma store_debit_ok : forall B s a u t, Inv B s -> utotal u = Ok t ->
  match store_debit s a u with
  | Ok s1 => exists bal, alookup a (store s) = Some bal /\ t <= bal /\
             s1 = set_store s (aset a (bal - t) (store s)) (mBalance s - t) (mActive s) /\
             Inv B s1
  | Err _ => True
  | Panic => False
  end.
Proof.
  intros B s a u t I T. unfold store_debit, bind. rewrite T.
  destruct (alookup a (store s)) as [bal|] eqn:L; [|exact Logic.I].
  destruct (bal <? t) eqn:C; [exact Logic.I|].
  rewrite csub_ok by lia.
  pose proof (getv_le_asum a (store s)) as Hle. unfold getv in Hle. rewrite L in Hle.
  rewrite stat_sub_ok by (rewrite (inv_metric I); lia).
  exists bal. split; [reflexivity|]. split; [lia|]. split; [reflexivity|].
  pose proof (asum_aset a (bal - t) (store s)) as Hs. unfold getv in Hs. rewrite L in Hs.
  pose proof (length_aset _ a (bal - t) (store s)) as Hl. rewrite L in Hl.
  apply inv_set_store with (B := B); try assumption; try lia.
  - rewrite (inv_metric I). lia.
  - rewrite (inv_active I), Hl. reflexivity.
  - pose proof (inv_bound I). lia.
Qed.

Lemma commit_spec : forall B s b bd e, Inv B s -> B < two128 ->
  nth_error (budgets s) b = Some bd -> bdone bd = false -> alookup (bacct bd) (mem s) = Some e ->
  let a := bacct bd in let t := usum (busage bd) in let r := step s (Commit b true) in
  t <= bmax bd /\
  ((r = (s, OErr EOther) /\ (alookup a (store s) = None \/ sbal s a < t)) \/
   (alookup a (store s) <> None /\ t <= sbal s a /\ snd r = ODone /\ Inv B (fst r) /\
    store (fst r) = aset a (sbal s a - t) (store s) /\
    budgets (fst r) = upd_nth b (mark_committed bd) (budgets s) /\
    alookup a (mem (fst r)) =
      (if opencount s a =? 1 then None else Some {| mbal := mbal e + (bmax bd - t); mopen := mopen e - 1 |}) /\
    (forall a', a' <> a -> alookup a' (mem (fst r)) = alookup a' (mem s)))).
Proof.
  intros B s b bd e I HB Hn Hd He a t r. subst r. cbn [step]. rewrite Hn, Hd. cbn [negb].
  destruct (inv_usage I _ Hn Hd) as (t0&Ht&Hle). destruct (utotal_ok _ Ht) as [-> Hsmall]. fold t in Ht, Hle.
  split; [exact Hle|].
  pose proof (@store_debit_ok B s a (busage bd) t I Ht) as SD. fold a.
  unfold store_debit, bind in SD |- *. rewrite Ht in SD. rewrite Ht. unfold sbal.
  destruct (alookup a (store s)) as [bal|] eqn:Lb; [|left; split; [reflexivity | left; reflexivity]].
  destruct (bal <? t) eqn:C; [left; split; [reflexivity | right; lia]|].
  right. rewrite (@csub_ok bal t) in SD by lia. rewrite (@csub_ok bal t) by lia.
  pose proof (getv_le_asum a (store s)) as Hga. unfold getv in Hga. rewrite Lb in Hga.
  rewrite (@stat_sub_ok (mBalance s) t) in SD by (rewrite (inv_metric I); lia).
  rewrite (@stat_sub_ok (mBalance s) t) by (rewrite (inv_metric I); lia).
  destruct SD as (bal'&Lb'&Hbal&Es1&I1). injection Lb' as <-.
  rewrite (@csub_ok (bmax bd) t) by lia.
  match goal with |- context [release ?S2 a (bmax bd - t)] => set (s2 := S2) end.
  assert (Em : mem s2 = mem s) by reflexivity.
  assert (Eb : budgets s2 = upd_nth b (mark_committed bd) (budgets s)) by reflexivity.
  destruct (@closed_rest B s s2 b bd (mark_committed bd) I Hn Hd eq_refl Em Eb) as (R1&R2&R3&R4).
  pose proof (inv_mem I a) as M. unfold mem_ok in M. fold a in He. rewrite He in M.
  fold a in R3, R4.
  destruct (@release_inv B s2 a (bmax bd - t) e) as (Q1&Q2&Q3&Q4&Q5&Q6); try assumption.
  - exact (inv_metric I1).
  - exact (inv_active I1).
  - exact (inv_bound I1).
  - exact (inv_nodup I).
  - rewrite R3. tauto.
  - lia.
  - split; [discriminate|]. split; [lia|].
    refine (conj Q2 (conj Q1 (conj Q3 (conj Q4 (conj _ Q6))))).
    rewrite Q5. destruct (opencount s2 a =? 0) eqn:E0; destruct (opencount s a =? 1) eqn:E1; try reflexivity; lia.
Qed.

Lemma inv_commit : forall B s b sok, Inv B s -> B < two128 -> Inv B (fst (step s (Commit b sok))).
Proof.
  intros B s b sok I HB. destruct (nth_error (budgets s) b) as [bd|] eqn:Hn; [|cbn [step]; rewrite Hn; exact I].
  destruct (bdone bd) eqn:Hd; [cbn [step]; rewrite Hn, Hd; exact I|].
  destruct sok; [|cbn [step]; rewrite Hn, Hd; exact I].
  destruct (@open_cached B s b bd I Hn Hd) as [e He].
  destruct (commit_spec b I HB Hn Hd He) as [_ [[E _]|(_&_&_&I'&_)]]; [rewrite E; exact I | exact I'].
Qed.

Lemma inv_r4credit : forall B s deps fund cok, Inv B s -> fund = asum deps -> B + asum deps < two128 ->
  Inv (B + asum deps) (fst (step s (R4Credit deps fund cok))).
Proof.
  intros B s deps fund cok I Hf HB.
  assert (I' : Inv (B + asum deps) s) by (apply (Inv_mono I); lia).
  cbn [step]. unfold finish, bind, store_r4credit, bind.
  destruct cok; cbn [negb]; [|exact I'].
  pose proof (inv_bound I) as Hb.
  destruct (@r4_deposits_ok deps (store s) 0 [] ltac:(lia)) as (st'&c'&bals'&E&H1&H2&H3).
  rewrite E. rewrite stat_add_ok by (rewrite (inv_metric I); lia). cbn [fst].
  apply inv_set_store with (B := B); try assumption; try lia.
  - rewrite (inv_metric I). lia.
  - rewrite (inv_active I). lia.
Qed.

Lemma inv_r4debit : forall B s a amt, Inv B s -> Inv B (fst (step s (R4Debit a amt))).
Proof.
  intros B s a amt I. cbn [step]. unfold finish, bind, store_r4debit, bind.
  destruct (alookup a (store s)) as [bal|] eqn:L; [|exact I].
  destruct (bal <? amt) eqn:C; [exact I|].
  pose proof (getv_le_asum a (store s)) as Hle. unfold getv in Hle. rewrite L in Hle.
  rewrite stat_sub_ok by (rewrite (inv_metric I); lia). cbn [fst].
  pose proof (asum_aset a (bal - amt) (store s)) as Hs. unfold getv in Hs. rewrite L in Hs.
  pose proof (length_aset _ a (bal - amt) (store s)) as Hl. rewrite L in Hl.
  apply inv_set_store with (B := B); try assumption; try lia.
  - rewrite (inv_metric I). lia.
  - rewrite (inv_active I), Hl. reflexivity.
  - pose proof (inv_bound I). lia.
Qed.

Lemma inv_setmax : forall B s m, Inv B s -> Inv B (set_max s m).
Proof. intros B s m []. constructor; assumption. Qed.

Theorem inv_step : forall B s o, Inv B s -> wf_op o -> B + att o < two128 ->
  Inv (B + att o) (fst (step s o)).
Proof.
  intros B s o I W HB.
  destruct o; cbn [att] in *; rewrite ?N.add_0_r in *;
    try exact I.
  - exact (inv_setmax m I).
  - apply inv_credit; assumption.
  - apply inv_newbudget; assumption.
  - apply inv_spend; assumption.
  - apply inv_refund; assumption.
  - apply inv_commit; assumption.
  - apply inv_rollback; assumption.
  - apply inv_r4credit; assumption.
  - apply inv_r4debit; assumption.
Qed.

(** * Histories *)
Definition runs (s : state) (l : list op) : state := fold_left (fun s o => fst (step s o)) l s.
Fixpoint atts (l : list op) : N := match l with [] => 0 | o :: t => att o + atts t end.

Theorem inv_runs : forall l B s, Inv B s -> Forall wf_op l -> B + atts l < two128 ->
  Inv (B + atts l) (runs s l).
Proof.
  induction l as [|o t IH]; intros B s I W HB; cbn [runs fold_left atts] in *.
  - rewrite N.add_0_r. exact I.
  - inversion W as [|? ? Wo Wt]; subst.
    replace (B + (att o + atts t)) with ((B + att o) + atts t) by lia.
    apply IH; [apply inv_step; try assumption; lia | assumption | lia].
Qed.

Lemma runs_app : forall l1 l2 s, runs s (l1 ++ l2) = runs (runs s l1) l2.
Proof. intros. unfold runs. apply fold_left_app. Qed.
