(* Ledger/ProofsHandlers.v — every handler ends the budget it opened (C04, WP-M4) *)
From Coq Require Import Lia ZifyBool ZifyN ZifyNat.
From HostdBase Require Import Base.
From HostdLedger Require Import Model Lib Proofs Proofs2 Proofs3 Handlers.

Local Open Scope N_scope.
Set Implicit Arguments.

(** * Bracketed programs
   [wfp o d p]: with the budget variable set (o) and the rollback deferred (d), the rest p of the
   body never reaches a point where it can leave while a budget is open and no rollback is
   deferred: Budget is called once, with no budget open, and while (o && negb d) the only thing
   the body may do is `defer budget.Rollback()`. *)
Fixpoint wfp (o d : bool) (p : list instr) : bool :=
  match p with
  | [] => implb o d
  | i :: t =>
      match i with
      | IBudget => negb o && wfp true false t
      | IDefer => o && wfp true true t
      | ISpend | ICommit | IExecBegin | IInstrs | IExecMark => o && d && wfp o d t
      | IExt | IPay | IFund | IBalance => implb o d && wfp o d t
      end
  end.

Definition bracketed (prog : kind -> list instr) : Prop := forall k, wfp false false (prog k) = true.

Lemma hostd_bracketed : bracketed (prog_of false).
Proof. intros k. destruct k; reflexivity. Qed.

Lemma late_not_bracketed : wfp false false (prog_of true KExecute) = false.
Proof. reflexivity. Qed.

Definition is_some {A} (o : option A) : bool := match o with Some _ => true | None => false end.

Definition good_h (h : hst) : Prop :=
  wfp (is_some (hbud h)) (hdefer h) (hprog h) = true /\
  (hdefer h = true -> hbud h <> None) /\
  (hexec h <> ENone -> hdefer h = true).

Definition good_pc (p : hpc) : Prop :=
  match p with
  | PIdle => True
  | PRun h => good_h h
  | PUnwind h _ => hdefer h = true /\ hbud h <> None
  end.

(** * What one handler step does to the handler *)
Inductive hclass (p p' : hpc) (nb : nat) (ob : obs) : option op -> Prop :=
| HCnone : owner p' = owner p -> hclass p p' nb ob None
| HCenv : forall o, env_ok o = true -> owner p' = owner p -> hclass p p' nb ob (Some o)
| HCnew : forall a amt rok, owner p = None -> owner p' = (if is_done ob then Some nb else None) ->
    hclass p p' nb ob (Some (NewBudget a amt rok))
| HCown : forall b o, owner p = Some b -> owner p' = Some b ->
    (exists u, o = Spend b u) \/ (exists u, o = Refund b u) \/ (exists sok, o = Commit b sok) ->
    hclass p p' nb ob (Some o)
| HCend : forall b, owner p = Some b -> p' = PIdle -> hclass p p' nb ob (Some (Rollback b)).

(* a `return` is only reached with the rollback deferred or no budget open *)
Definition may_return (h : hst) : Prop := hbud h = None \/ hdefer h = true.

Lemma good_ret : forall h, good_h h -> may_return h -> good_pc (ret h) /\ owner (ret h) = hbud h.
Proof.
  intros h (W&D&E) M. unfold ret, ret_handler.
  assert (R : good_pc (if hdefer h then PUnwind h URollback else PIdle) /\
              owner (if hdefer h then PUnwind h URollback else PIdle) = hbud h).
  { destruct (hdefer h) eqn:Hd; cbn.
    - split; [split; [exact Hd | exact (D eq_refl)] | reflexivity].
    - split; [exact I|]. destruct M as [M|M]; [symmetry; exact M | congruence]. }
  destruct (hexec h) eqn:He; try exact R.
  cbn. assert (Hd : hdefer h = true) by (apply E; congruence).
  split; [split; [exact Hd | exact (D Hd)] | reflexivity].
Qed.

Lemma wfp_may_return : forall h i r, hprog h = i :: r -> i <> IDefer ->
  wfp (is_some (hbud h)) (hdefer h) (hprog h) = true -> may_return h.
Proof.
  intros h i r Hp Hi W. rewrite Hp in W. unfold may_return.
  destruct (hbud h); [right | left; reflexivity]. cbn [is_some] in W.
  destruct i; cbn [wfp] in W; try congruence; destruct (hdefer h); cbn in W; try reflexivity; try discriminate.
Qed.

Lemma wfp_nil_may_return : forall h, hprog h = [] ->
  wfp (is_some (hbud h)) (hdefer h) (hprog h) = true -> may_return h.
Proof.
  intros h Hp W. rewrite Hp in W. unfold may_return. cbn [wfp] in W.
  destruct (hbud h); [right | left; reflexivity]. destruct (hdefer h); [reflexivity | discriminate].
Qed.

Ltac btrue H :=
  repeat match type of H with
         | (_ && _)%bool = true => let H1 := fresh H in apply andb_prop in H; destruct H as [H1 H]
         end.

Theorem hstep_class : forall prog p x nb ob oo, bracketed prog -> good_pc p -> hop p x = Some oo ->
  good_pc (hnext prog p x nb ob) /\ hclass p (hnext prog p x nb ob) nb ob oo.
Proof.
  intros prog p x nb ob oo BR G H.
  destruct p as [|h|h u].
  - (* PIdle *)
    destruct x; cbn [hop] in H; try discriminate. injection H as <-. cbn [hnext]. split.
    + cbn. unfold good_h, hnew. cbn. split; [apply BR | split; [discriminate | congruence]].
    + apply HCnone. reflexivity.
  - (* PRun *)
    cbn [good_pc] in G. pose proof G as (W&D&E).
    cbn [hop] in H. cbn [hnext].
    destruct (hprog h) as [|i r] eqn:Hp.
    + destruct x; try discriminate. injection H as <-.
      destruct (good_ret G (wfp_nil_may_return h Hp (proj1 G))) as [G1 O1]. split; [exact G1 | apply HCnone; exact O1].
    + assert (MR : i <> IDefer -> may_return h) by (intros Hi; exact (wfp_may_return h Hp Hi (proj1 G))).
      pose proof W as W'.
      destruct i; cbn [wfp] in W'; btrue W'.
      * (* IExt *)
        destruct x; try discriminate. injection H as <-.
        destruct ok.
        -- split; [|apply HCnone; reflexivity]. cbn. unfold good_h; cbn. repeat split; assumption.
        -- destruct (good_ret G (MR ltac:(discriminate))) as [G1 O1]. split; [exact G1 | apply HCnone; exact O1].
      * (* IPay *)
        destruct x; try discriminate. injection H as <-.
        destruct byc.
        -- destruct (is_bal ob).
           ++ split; [|apply HCenv; reflexivity]. cbn. unfold good_h; cbn. repeat split; assumption.
           ++ destruct (good_ret G (MR ltac:(discriminate))) as [G1 O1]. split; [exact G1 | apply HCenv; [reflexivity | exact O1]].
        -- split; [|apply HCnone; reflexivity]. cbn. unfold good_h; cbn. repeat split; assumption.
      * (* IFund *)
        destruct x; try discriminate. injection H as <-.
        destruct (is_bal ob).
        -- split; [|apply HCenv; reflexivity]. cbn. unfold good_h; cbn. repeat split; assumption.
        -- destruct (good_ret G (MR ltac:(discriminate))) as [G1 O1]. split; [exact G1 | apply HCenv; [reflexivity | exact O1]].
      * (* IBudget *)
        destruct x; try discriminate. injection H as <-.
        assert (Hb : hbud h = None) by (destruct (hbud h); [discriminate | reflexivity]).
        destruct (is_done ob) eqn:Eo.
        -- split; [|apply HCnew; [exact Hb | rewrite Eo; reflexivity]].
           cbn. unfold good_h; cbn. repeat split; try assumption.
           ++ (* the rollback cannot be deferred before a budget exists *)
              destruct (hdefer h) eqn:Hd; [exfalso; apply (D eq_refl); exact Hb | exact W'].
           ++ discriminate.
        -- destruct (good_ret G (MR ltac:(discriminate))) as [G1 O1].
           split; [exact G1 | apply HCnew; [exact Hb | rewrite Eo, O1; exact Hb]].
      * (* IDefer *)
        destruct x; try discriminate. injection H as <-.
        split; [|apply HCnone; reflexivity]. cbn. unfold good_h; cbn.
        split; [rewrite W'0; exact W' | split; [intros _; destruct (hbud h); [discriminate | discriminate W'0] | reflexivity]].
      * (* ISpend *)
        destruct x; try discriminate. unfold on_budget in H.
        destruct (hbud h) as [b|] eqn:Hb; [|discriminate]. injection H as <-.
        destruct (is_done ob).
        -- split; [|apply (@HCown _ _ _ _ b); [exact Hb | exact Hb | left; eexists; reflexivity]].
           cbn. unfold good_h; cbn. rewrite Hb. repeat split; try assumption; try congruence.
        -- destruct (good_ret G (MR ltac:(discriminate))) as [G1 O1].
           split; [exact G1 | apply (@HCown _ _ _ _ b); [exact Hb | rewrite O1; exact Hb | left; eexists; reflexivity]].
      * (* IBalance *)
        destruct x; try discriminate. injection H as <-.
        destruct ok.
        -- split; [|apply HCenv; reflexivity]. cbn. unfold good_h; cbn. repeat split; assumption.
        -- destruct (good_ret G (MR ltac:(discriminate))) as [G1 O1]. split; [exact G1 | apply HCenv; [reflexivity | exact O1]].
      * (* ICommit *)
        destruct x; try discriminate. unfold on_budget in H.
        destruct (hbud h) as [b|] eqn:Hb; [|discriminate]. injection H as <-.
        destruct (is_done ob).
        -- split; [|apply (@HCown _ _ _ _ b); [exact Hb | exact Hb | right; right; eexists; reflexivity]].
           cbn. unfold good_h; cbn. rewrite Hb. repeat split; try assumption; try congruence.
        -- destruct (good_ret G (MR ltac:(discriminate))) as [G1 O1].
           split; [exact G1 | apply (@HCown _ _ _ _ b); [exact Hb | rewrite O1; exact Hb | right; right; eexists; reflexivity]].
      * (* IExecBegin *)
        destruct x; try discriminate. injection H as <-.
        split; [|apply HCnone; reflexivity]. cbn. unfold good_h; cbn. repeat split; try assumption.
        intros _. exact (proj2 (andb_prop _ _ W'0)).
      * (* IInstrs *)
        destruct x; try discriminate.
        -- (* XInstr *)
           unfold on_budget in H. destruct (hbud h) as [b|] eqn:Hb; [|discriminate]. injection H as <-.
           destruct (is_done ob).
           ++ set (h' := setexec h (hexec h) (hstor h + uStorage u) (IInstrs :: r)) in *.
              assert (G' : good_h h').
              { unfold good_h, h'; cbn. rewrite Hb. repeat split; try assumption; try congruence. }
              destruct ok.
              ** split; [exact G' | apply (@HCown _ _ _ _ b); [exact Hb | exact Hb | left; eexists; reflexivity]].
              ** assert (M' : may_return h') by (right; unfold h'; cbn; exact (proj2 (andb_prop _ _ W'0))).
                 destruct (good_ret G' M') as [G1 O1].
                 split; [exact G1 | apply (@HCown _ _ _ _ b); [exact Hb | rewrite O1; exact Hb | left; eexists; reflexivity]].
           ++ destruct (good_ret G (MR ltac:(discriminate))) as [G1 O1].
              split; [exact G1 | apply (@HCown _ _ _ _ b); [exact Hb | rewrite O1; exact Hb | left; eexists; reflexivity]].
        -- (* XInstrFail *)
           injection H as <-. destruct (good_ret G (MR ltac:(discriminate))) as [G1 O1].
           split; [exact G1 | apply HCnone; exact O1].
        -- (* XLoopEnd *)
           injection H as <-. split; [|apply HCnone; reflexivity]. cbn. unfold good_h; cbn. repeat split; assumption.
      * (* IExecMark *)
        destruct x; try discriminate. injection H as <-.
        split; [|apply HCnone; reflexivity]. cbn. unfold good_h; cbn. repeat split; try assumption.
        intros _. exact (proj2 (andb_prop _ _ W'0)).
  - (* PUnwind *)
    cbn [good_pc] in G. destruct G as [Hd Hb].
    destruct (hbud h) as [b|] eqn:Eb; [|congruence].
    assert (RH : ret_handler h = PUnwind h URollback) by (unfold ret_handler; rewrite Hd; reflexivity).
    destruct u; cbn [hop] in H; destruct x; try discriminate; unfold on_budget in H; rewrite Eb in H; injection H as <-; cbn [hnext].
    + destruct (is_done ob); [|rewrite RH]; (split; [cbn; split; [exact Hd | congruence] |
        apply (@HCown _ _ _ _ b); [exact Eb | exact Eb | right; left; eexists; reflexivity]]).
    + rewrite RH. split; [cbn; split; [exact Hd | congruence] |
        apply (@HCown _ _ _ _ b); [exact Eb | exact Eb | right; right; eexists; reflexivity]].
    + split; [exact I | apply HCend; [exact Eb | reflexivity]].
Qed.

(** * What one ledger operation does to the list of budgets *)
Lemma release_budgets : forall s a back, budgets (fst (release s a back)) = budgets s.
Proof.
  intros. unfold release. destruct (alookup a (mem s)) as [e|]; [|reflexivity].
  destruct (mopen e - 1 <=? 0)%Z; [reflexivity|]. destruct (cadd (mbal e) back); reflexivity.
Qed.

Lemma env_budgets : forall s o, env_ok o = true -> budgets (fst (step s o)) = budgets s.
Proof.
  intros s o H. destruct o; try discriminate; cbn [step fst]; try reflexivity.
  - (* Credit *)
    destruct expired; [reflexivity|]. unfold finish, bind.
    destruct (cadd (get_balance s a) amt); try reflexivity.
    destruct (negb refund && (maxbal s <? a0)); [reflexivity|].
    unfold store_credit, bind. destruct (cadd (sbal s a) amt); try reflexivity.
    destruct (stat_add (mBalance s) amt); try reflexivity.
    destruct cok; [|reflexivity]. cbn.
    destruct (alookup a (mem s)); reflexivity.
  - (* R4Credit *)
    unfold finish, bind, store_r4credit, bind. destruct (negb cok); [reflexivity|].
    destruct (r4_deposits (store s) 0 [] deps) as [[[st c] bl]| |]; try reflexivity.
    destruct (stat_add (mBalance s) fund); reflexivity.
  - (* R4Debit *)
    unfold finish, bind, store_r4debit, bind. destruct (alookup a (store s)) as [bal|]; [|reflexivity].
    destruct (bal <? amt); [reflexivity|]. destruct (stat_sub (mBalance s) amt); reflexivity.
Qed.

Lemma newbudget_budgets : forall s a amt rok,
  (snd (step s (NewBudget a amt rok)) = ODone /\
   budgets (fst (step s (NewBudget a amt rok))) =
     budgets s ++ [{| bacct := a; bmax := amt; busage := uzero; bdone := false |}]) \/
  (is_done (snd (step s (NewBudget a amt rok))) = false /\ fst (step s (NewBudget a amt rok)) = s).
Proof.
  intros. cbn [step]. unfold finish, bind.
  destruct (alookup a (mem s)) as [e|].
  - destruct (mbal e <? amt); [right; split; reflexivity | left; split; reflexivity].
  - destruct rok; [|right; split; reflexivity]. cbn [mbal].
    destruct (sbal s a <? amt); [right; split; reflexivity | left; split; reflexivity].
Qed.

(* no new budget, no closed budget reopens *)
Definition keeps (s s' : state) : Prop :=
  length (budgets s') = length (budgets s) /\
  forall b0 bd', nth_error (budgets s') b0 = Some bd' -> bdone bd' = false ->
    exists bd, nth_error (budgets s) b0 = Some bd /\ bdone bd = false.

Lemma keeps_refl : forall s s', budgets s' = budgets s -> keeps s s'.
Proof. intros s s' E. unfold keeps. rewrite E. split; [reflexivity|]. intros b0 bd' H1 H2. exists bd'. auto. Qed.

Lemma length_upd_nth : forall A (l : list A) n x, length (upd_nth n x l) = length l.
Proof. induction l as [|h t IH]; intros [|n] x; cbn; auto. Qed.

Lemma keeps_upd : forall s s' b bd bd', nth_error (budgets s) b = Some bd ->
  (bdone bd = true -> bdone bd' = true) ->
  budgets s' = upd_nth b bd' (budgets s) -> keeps s s'.
Proof.
  intros s s' b bd bd' Hn Hd E. unfold keeps. rewrite E, length_upd_nth. split; [reflexivity|].
  intros b0 x H1 H2. rewrite nth_error_upd in H1. destruct (Nat.eqb b0 b) eqn:Eb.
  - apply PeanoNat.Nat.eqb_eq in Eb; subst b0. rewrite Hn in H1. injection H1 as <-.
    exists bd. split; [exact Hn|]. destruct (bdone bd); [rewrite Hd in H2; [discriminate | reflexivity] | reflexivity].
  - exists x. auto.
Qed.

Lemma own_keeps : forall s o b, (exists u, o = Spend b u) \/ (exists u, o = Refund b u) \/ (exists sok, o = Commit b sok) \/ o = Rollback b ->
  keeps s (fst (step s o)).
Proof.
  intros s o b [[u ->]|[[u ->]|[[sok ->]| ->]]]; cbn [step].
  - destruct (nth_error (budgets s) b) as [bd|] eqn:Hn; [|apply keeps_refl; reflexivity].
    unfold finish, bind. destruct (uadd (busage bd) u) as [nu| |]; try (apply keeps_refl; reflexivity).
    destruct (utotal nu) as [sp| |]; try (apply keeps_refl; reflexivity).
    destruct (bmax bd <? sp); [apply keeps_refl; reflexivity|].
    apply (@keeps_upd s _ b bd (with_usage bd nu) Hn); [cbn; auto | reflexivity].
  - destruct (nth_error (budgets s) b) as [bd|] eqn:Hn; [|apply keeps_refl; reflexivity].
    destruct (bdone bd); [apply keeps_refl; reflexivity|].
    unfold finish, bind. destruct (usub (busage bd) u) as [nu| |]; try (apply keeps_refl; reflexivity).
    apply (@keeps_upd s _ b bd (with_usage bd nu) Hn); [cbn; auto | reflexivity].
  - destruct (nth_error (budgets s) b) as [bd|] eqn:Hn; [|apply keeps_refl; reflexivity].
    destruct (bdone bd); [apply keeps_refl; reflexivity|].
    destruct (negb sok); [apply keeps_refl; reflexivity|].
    unfold store_debit, bind. destruct (utotal (busage bd)) as [t| |]; try (apply keeps_refl; reflexivity).
    destruct (alookup (bacct bd) (store s)) as [bal|]; [|apply keeps_refl; reflexivity].
    destruct (bal <? t); [apply keeps_refl; reflexivity|].
    destruct (csub bal t) as [nb| |]; try (apply keeps_refl; reflexivity).
    destruct (stat_sub (mBalance s) t) as [nm| |]; try (apply keeps_refl; reflexivity).
    destruct (csub (bmax bd) t) as [rem| |]; try (apply keeps_refl; reflexivity).
    apply (@keeps_upd s _ b bd (mark_committed bd) Hn); [cbn; auto |]. rewrite release_budgets. reflexivity.
  - destruct (nth_error (budgets s) b) as [bd|] eqn:Hn; [|apply keeps_refl; reflexivity].
    destruct (bdone bd); [apply keeps_refl; reflexivity|].
    destruct (alookup (bacct bd) (mem s)); [|apply keeps_refl; reflexivity].
    apply (@keeps_upd s _ b bd (mark_done bd) Hn); [cbn; auto |]. rewrite release_budgets. reflexivity.
Qed.

(* the deferred Rollback closes the budget: the "account missing from memory" panic of
   budget.go:106-108 cannot happen for an open budget (Proofs.open_cached) *)
Lemma rollback_closes : forall B s b bd', Inv B s -> B < two128 ->
  nth_error (budgets (fst (step s (Rollback b)))) b = Some bd' -> bdone bd' = true.
Proof.
  intros B s b bd' I HB H.
  destruct (nth_error (budgets s) b) as [bd|] eqn:Hn.
  - destruct (bdone bd) eqn:Hd.
    + cbn [step] in H. rewrite Hn, Hd in H. cbn in H. congruence.
    + destruct (@open_cached B s b bd I Hn Hd) as [e He].
      destruct (rollback_spec b I HB Hn Hd He) as (_&_&_&Eb&_). rewrite Eb, nth_error_upd, PeanoNat.Nat.eqb_refl, Hn in H.
      injection H as <-. reflexivity.
  - cbn [step] in H. rewrite Hn in H. cbn in H. congruence.
Qed.

(** * The system invariant *)
Record SInv (B : N) (y : sys) : Prop := {
  si_led : Inv B (led y);
  si_good : forall t p, nth_error (hs y) t = Some p -> good_pc p;
  si_valid : forall t p b, nth_error (hs y) t = Some p -> owner p = Some b -> (b < length (budgets (led y)))%nat;
  si_owned : forall b bd, nth_error (budgets (led y)) b = Some bd -> bdone bd = false ->
             exists t p, nth_error (hs y) t = Some p /\ owner p = Some b
}.

Lemma nth_error_repeat : forall A (x : A) n t p, nth_error (repeat x n) t = Some p -> p = x.
Proof. induction n as [|n IH]; intros [|t] p H; cbn in H; try discriminate; [congruence | exact (IH _ _ H)]. Qed.

Lemma SInv_init : forall n, SInv 0 (sinit n).
Proof.
  intros n. constructor; cbn.
  - exact Inv_init.
  - intros t p H. rewrite (nth_error_repeat _ _ _ H). exact I.
  - intros t p b H O. rewrite (nth_error_repeat _ _ _ H) in O. discriminate.
  - intros [|b] bd H; discriminate.
Qed.

(* what an action tries to deposit; which actions are well formed *)
Definition xatt (x : hact) : N := match x with XPay _ _ amt _ _ => amt | _ => 0 end.
Definition satt (a : sact) : N := match a with SEnv o => att o | SH _ x => xatt x end.
Definition swf (a : sact) : Prop := match a with SEnv o => wf_op o | SH _ _ => True end.
Fixpoint satts (l : list sact) : N := match l with [] => 0 | a :: t => satt a + satts t end.

Lemma hop_att : forall p x o, hop p x = Some (Some o) -> wf_op o /\ att o <= xatt x.
Proof.
  intros p x o H. destruct p as [|h|h u].
  - destruct x; discriminate.
  - cbn [hop] in H. destruct (hprog h) as [|i r]; [destruct x; discriminate|].
    destruct i; destruct x; try discriminate; unfold on_budget in H;
      try (destruct (hbud h); [|discriminate]); try (destruct byc; [|discriminate]);
      injection H as <-; cbn; split; auto; lia.
  - destruct u; cbn [hop] in H; destruct x; try discriminate; unfold on_budget in H;
      (destruct (hbud h); [|discriminate]); injection H as <-; cbn; split; auto; lia.
Qed.

Lemma nth_error_upd_nat : forall A (l : list A) t t' (x : A) p,
  nth_error (upd_nth t x l) t' = Some p -> (t' = t /\ p = x) \/ (t' <> t /\ nth_error l t' = Some p).
Proof.
  intros A l t t' x p H. rewrite nth_error_upd in H. destruct (Nat.eqb t' t) eqn:E.
  - apply PeanoNat.Nat.eqb_eq in E. left. destruct (nth_error l t); [|discriminate]. split; congruence.
  - apply PeanoNat.Nat.eqb_neq in E. right. auto.
Qed.

Lemma nth_error_upd_same : forall A (l : list A) t (x p : A), nth_error l t = Some p ->
  nth_error (upd_nth t x l) t = Some x.
Proof. intros. rewrite nth_error_upd, PeanoNat.Nat.eqb_refl, H. reflexivity. Qed.

Lemma nth_error_upd_other : forall A (l : list A) t t' (x : A), t' <> t ->
  nth_error (upd_nth t x l) t' = nth_error l t'.
Proof. intros. rewrite nth_error_upd. apply PeanoNat.Nat.eqb_neq in H. rewrite H. reflexivity. Qed.

Theorem sinv_step : forall prog B y a y', bracketed prog -> SInv B y -> swf a -> B + satt a < two128 ->
  sstep prog y a = Some y' -> SInv (B + satt a) y'.
Proof.
  intros prog B y a y' BR S W HB H. unfold sstep in H.
  destruct a as [o|t x]; cbn [sstep_obs] in H.
  - (* somebody else *)
    destruct (env_ok o) eqn:Eo; [|discriminate]. cbn in H. injection H as <-.
    pose proof (env_budgets (led y) o Eo) as Eb.
    constructor; cbn [led hs].
    + apply inv_step; [exact (si_led S) | exact W | exact HB].
    + exact (si_good S).
    + intros t p b H1 H2. rewrite Eb. exact (si_valid S _ H1 H2).
    + intros b bd H1 H2. rewrite Eb in H1. exact (si_owned S _ H1 H2).
  - (* handler slot t *)
    destruct (nth_error (hs y) t) as [p|] eqn:Hp; [|discriminate].
    destruct (hop p x) as [oo|] eqn:Ho; [|discriminate]. cbn in H. injection H as <-.
    set (nb := length (budgets (led y))) in *.
    set (r := match oo with Some o => step (led y) o | None => (led y, ODone) end) in *.
    destruct (@hstep_class prog p x nb (snd r) oo BR (si_good S _ Hp) Ho) as [G C].
    set (p' := hnext prog p x nb (snd r)) in *.
    (* the ledger invariant *)
    assert (IL : Inv (B + xatt x) (fst r)).
    { destruct oo as [o|]; subst r; cbn [fst].
      - destruct (hop_att _ _ Ho) as [Wo Ao]. cbn [satt] in HB.
        apply Inv_mono with (B := B + att o); [|lia]. apply inv_step; [exact (si_led S) | exact Wo | lia].
      - apply Inv_mono with (B := B); [exact (si_led S) | lia]. }
    (* the other slots *)
    assert (OT : forall t0 p0, t0 <> t -> nth_error (upd_nth t p' (hs y)) t0 = Some p0 -> nth_error (hs y) t0 = Some p0).
    { intros t0 p0 Ht H0. rewrite nth_error_upd_other in H0 by exact Ht. exact H0. }
    assert (SAME : nth_error (upd_nth t p' (hs y)) t = Some p') by exact (@nth_error_upd_same _ (hs y) t p' p Hp).
    cbn [satt].
    inversion C as [Eown Eo|o Eenv Eown Eo|a0 amt rok On On' Eo|b o Ob Ob' Ek Eo|b Ob Ep' Eo]; subst oo.
    + (* no ledger call *)
      subst r; cbn [fst snd] in *.
      constructor; cbn [led hs]; [exact IL | | |].
      * intros t0 p0 H0. destruct (nth_error_upd_nat _ _ _ _ H0) as [[-> ->]|[Ht H1]]; [exact G | exact (si_good S _ H1)].
      * intros t0 p0 b H0 O0. destruct (nth_error_upd_nat _ _ _ _ H0) as [[-> ->]|[Ht H1]].
        -- rewrite Eown in O0. exact (si_valid S _ Hp O0).
        -- exact (si_valid S _ H1 O0).
      * intros b bd H1 H2. destruct (si_owned S _ H1 H2) as (t0&p0&H3&H4).
        destruct (PeanoNat.Nat.eq_dec t0 t) as [->|Ht].
        -- exists t, p'. split; [exact SAME|]. rewrite Eown. congruence.
        -- exists t0, p0. split; [rewrite nth_error_upd_other by exact Ht; exact H3 | exact H4].
    + (* a deposit / a read *)
      subst r. pose proof (env_budgets (led y) o Eenv) as Eb.
      constructor; cbn [led hs]; [exact IL | | |].
      * intros t0 p0 H0. destruct (nth_error_upd_nat _ _ _ _ H0) as [[-> ->]|[Ht H1]]; [exact G | exact (si_good S _ H1)].
      * intros t0 p0 b H0 O0. rewrite Eb. destruct (nth_error_upd_nat _ _ _ _ H0) as [[-> ->]|[Ht H1]].
        -- rewrite Eown in O0. exact (si_valid S _ Hp O0).
        -- exact (si_valid S _ H1 O0).
      * intros b bd H1 H2. rewrite Eb in H1. destruct (si_owned S _ H1 H2) as (t0&p0&H3&H4).
        destruct (PeanoNat.Nat.eq_dec t0 t) as [->|Ht].
        -- exists t, p'. split; [exact SAME|]. rewrite Eown. congruence.
        -- exists t0, p0. split; [rewrite nth_error_upd_other by exact Ht; exact H3 | exact H4].
    + (* Budget *)
      subst r. destruct (newbudget_budgets (led y) a0 amt rok) as [[Ed Eb]|[Ed Es]].
      * rewrite Ed in On'. cbn [is_done] in On'.
        constructor; cbn [led hs]; [exact IL | | |].
        -- intros t0 p0 H0. destruct (nth_error_upd_nat _ _ _ _ H0) as [[-> ->]|[Ht H1]]; [exact G | exact (si_good S _ H1)].
        -- intros t0 p0 b H0 O0. rewrite Eb, app_length. cbn [length].
           destruct (nth_error_upd_nat _ _ _ _ H0) as [[-> ->]|[Ht H1]].
           ++ rewrite On' in O0. injection O0 as <-. subst nb. lia.
           ++ pose proof (si_valid S _ H1 O0). lia.
        -- intros b bd H1 H2. rewrite Eb in H1.
           apply nth_error_app1 in H1. destruct H1 as [H3|[-> _]].
           ++ destruct (si_owned S _ H3 H2) as (t0&p0&H4&H5).
              destruct (PeanoNat.Nat.eq_dec t0 t) as [->|Ht]; [congruence|].
              exists t0, p0. split; [rewrite nth_error_upd_other by exact Ht; exact H4 | exact H5].
           ++ exists t, p'. split; [exact SAME | exact On'].
      * rewrite Ed in On'. rewrite Es in *.
        constructor; cbn [led hs]; [exact IL | | |].
        -- intros t0 p0 H0. destruct (nth_error_upd_nat _ _ _ _ H0) as [[-> ->]|[Ht H1]]; [exact G | exact (si_good S _ H1)].
        -- intros t0 p0 b H0 O0. destruct (nth_error_upd_nat _ _ _ _ H0) as [[-> ->]|[Ht H1]]; [congruence | exact (si_valid S _ H1 O0)].
        -- intros b bd H1 H2. destruct (si_owned S _ H1 H2) as (t0&p0&H3&H4).
           destruct (PeanoNat.Nat.eq_dec t0 t) as [->|Ht]; [congruence|].
           exists t0, p0. split; [rewrite nth_error_upd_other by exact Ht; exact H3 | exact H4].
    + (* Spend / Refund / Commit on the own budget *)
      subst r. assert (K : keeps (led y) (fst (step (led y) o))) by (apply (@own_keeps _ _ b); tauto).
      destruct K as [KL KN].
      constructor; cbn [led hs]; [exact IL | | |].
      * intros t0 p0 H0. destruct (nth_error_upd_nat _ _ _ _ H0) as [[-> ->]|[Ht H1]]; [exact G | exact (si_good S _ H1)].
      * intros t0 p0 b0 H0 O0. rewrite KL. destruct (nth_error_upd_nat _ _ _ _ H0) as [[-> ->]|[Ht H1]].
        -- rewrite Ob' in O0. injection O0 as <-. exact (si_valid S _ Hp Ob).
        -- exact (si_valid S _ H1 O0).
      * intros b0 bd' H1 H2. destruct (KN _ _ H1 H2) as (bd&H3&H4).
        destruct (si_owned S _ H3 H4) as (t0&p0&H5&H6).
        destruct (PeanoNat.Nat.eq_dec t0 t) as [->|Ht].
        -- exists t, p'. split; [exact SAME|]. congruence.
        -- exists t0, p0. split; [rewrite nth_error_upd_other by exact Ht; exact H5 | exact H6].
    + (* the deferred Rollback *)
      subst r. assert (K : keeps (led y) (fst (step (led y) (Rollback b)))) by (apply (@own_keeps _ _ b); tauto).
      destruct K as [KL KN]. fold p' in Ep'.
      constructor; cbn [led hs]; [exact IL | | |].
      * intros t0 p0 H0. destruct (nth_error_upd_nat _ _ _ _ H0) as [[-> ->]|[Ht H1]]; [exact G | exact (si_good S _ H1)].
      * intros t0 p0 b0 H0 O0. rewrite KL. destruct (nth_error_upd_nat _ _ _ _ H0) as [[-> ->]|[Ht H1]].
        -- rewrite Ep' in O0. discriminate.
        -- exact (si_valid S _ H1 O0).
      * intros b0 bd' H1 H2. destruct (KN _ _ H1 H2) as (bd&H3&H4).
        destruct (si_owned S _ H3 H4) as (t0&p0&H5&H6).
        destruct (PeanoNat.Nat.eq_dec t0 t) as [->|Ht].
        -- (* it was this handler's budget: it is closed now *)
           exfalso. assert (b0 = b) by congruence. subst b0.
           cbn [satt] in HB.
           rewrite (@rollback_closes B (led y) b bd' (si_led S) ltac:(lia) H1) in H2. discriminate.
        -- exists t0, p0. split; [rewrite nth_error_upd_other by exact Ht; exact H5 | exact H6].
Qed.

Theorem sinv_runs : forall prog l B y, bracketed prog -> SInv B y -> Forall swf l -> B + satts l < two128 ->
  SInv (B + satts l) (sruns prog y l).
Proof.
  intros prog. induction l as [|a t IH]; intros B y BR S W HB; cbn [sruns fold_left satts] in *.
  - rewrite N.add_0_r. exact S.
  - inversion W as [|? ? Wa Wt]; subst. fold (sruns prog) in *.
    replace (B + (satt a + satts t)) with ((B + satt a) + satts t) by lia.
    destruct (sstep prog y a) as [y'|] eqn:E.
    + apply IH; [exact BR | exact (@sinv_step prog B y a y' BR S Wa ltac:(lia) E) | exact Wt | lia].
    + apply IH; [exact BR | | exact Wt | lia].
      destruct S as [S1 S2 S3 S4]. constructor; try assumption. apply Inv_mono with (B := B); [exact S1 | lia].
Qed.

(** * The theorems *)
(* every open budget belongs to a handler that has not returned yet *)
Theorem handlers_end_their_budgets : forall prog n l, bracketed prog -> Forall swf l -> satts l < two128 ->
  forall b bd, nth_error (budgets (led (sruns prog (sinit n) l))) b = Some bd -> bdone bd = false ->
  exists t p, nth_error (hs (sruns prog (sinit n) l)) t = Some p /\ idle p = false /\ owner p = Some b.
Proof.
  intros prog n l BR W HB b bd H1 H2.
  pose proof (@sinv_runs prog l 0 (sinit n) BR (SInv_init n) W ltac:(lia)) as S.
  destruct (si_owned S _ H1 H2) as (t&p&H3&H4). exists t, p. split; [exact H3|]. split; [|exact H4].
  destruct p; [discriminate | reflexivity | reflexivity].
Qed.

Theorem hostd_handlers_end_their_budgets : forall n l, Forall swf l -> satts l < two128 ->
  forall b bd, nth_error (budgets (led (sruns (prog_of false) (sinit n) l))) b = Some bd -> bdone bd = false ->
  exists t p, nth_error (hs (sruns (prog_of false) (sinit n) l)) t = Some p /\ idle p = false /\ owner p = Some b.
Proof. intros n l. exact (@handlers_end_their_budgets (prog_of false) n l hostd_bracketed). Qed.

Lemma no_open_no_count : forall l a, (forall b bd, nth_error l b = Some bd -> isopen a bd = false) -> bsum (cone a) l = 0.
Proof.
  induction l as [|h t IH]; intros a H; cbn [bsum]; [reflexivity|].
  unfold cone at 1. rewrite (H 0%nat h eq_refl). rewrite IH; [reflexivity|].
  intros b bd Hb. exact (H (S b) bd Hb).
Qed.

(* an account none of whose budgets belongs to a running handler: spendable = persisted *)
Theorem views_agree_without_running_payer : forall n l a, Forall swf l -> satts l < two128 ->
  let y := sruns (prog_of false) (sinit n) l in
  (forall t p b bd, nth_error (hs y) t = Some p -> owner p = Some b ->
                    nth_error (budgets (led y)) b = Some bd -> bacct bd <> a) ->
  alookup a (mem (led y)) = None /\ get_balance (led y) a = sbal (led y) a /\ openmax (led y) a = 0.
Proof.
  intros n l a W HB y Hq.
  pose proof (@sinv_runs (prog_of false) l 0 (sinit n) hostd_bracketed (SInv_init n) W ltac:(lia)) as S.
  fold y in S.
  assert (C0 : opencount (led y) a = 0).
  { apply no_open_no_count. intros b bd Hb. unfold isopen.
    destruct (bacct bd =? a) eqn:Ea; [|reflexivity]. apply N.eqb_eq in Ea.
    destruct (bdone bd) eqn:Hd; [reflexivity|]. exfalso.
    destruct (si_owned S _ Hb Hd) as (t&p&H3&H4). exact (Hq t p b bd H3 H4 Hb Ea). }
  pose proof (inv_mem (si_led S) a) as M. unfold mem_ok in M.
  destruct (alookup a (mem (led y))) as [e|] eqn:L; [lia|].
  split; [reflexivity|]. split.
  - unfold get_balance. rewrite L. reflexivity.
  - unfold openmax. exact (count0_max0 _ _ C0).
Qed.

(* all handlers have returned: the two views of every balance agree, nothing is reserved *)
Theorem quiescent_views_agree : forall n l, Forall swf l -> satts l < two128 ->
  let y := sruns (prog_of false) (sinit n) l in
  (forall t p, nth_error (hs y) t = Some p -> idle p = true) ->
  (forall b bd, nth_error (budgets (led y)) b = Some bd -> bdone bd = true) /\
  forall a, alookup a (mem (led y)) = None /\ get_balance (led y) a = sbal (led y) a /\ openmax (led y) a = 0.
Proof.
  intros n l W HB y Hq. split.
  - intros b bd Hb. destruct (bdone bd) eqn:Hd; [reflexivity|]. exfalso.
    destruct (@hostd_handlers_end_their_budgets n l W HB b bd Hb Hd) as (t&p&H1&H2&_).
    fold y in H1. rewrite (Hq _ _ H1) in H2. discriminate.
  - intros a. apply views_agree_without_running_payer; try assumption.
    intros t p b bd H1 H2. fold y in H1. pose proof (Hq _ _ H1) as Hi. destruct p; try discriminate.
Qed.

(* the handler of the seeded change (rollback deferred late): a run after which every handler has
   returned and 4 H of account 0 stay reserved for ever *)
Definition late_witness : list sact :=
  [ SEnv (SetMax 100); SEnv (Credit 0 10 false false true)
  ; SH 0 (XStart KExecute); SH 0 (XExt true)                      (* price table read *)
  ; SH 0 (XExt true); SH 0 (XExt true); SH 0 (XPay false 0 4 false true); SH 0 (XBudget true)
  ; SH 0 (XExt false) ].                                          (* the program request cannot be read *)

Theorem late_defer_leaks :
  let y := sruns (prog_of true) (sinit 1) late_witness in
  Forall swf late_witness /\ satts late_witness < two128 /\
  (forall t p, nth_error (hs y) t = Some p -> idle p = true) /\
  get_balance (led y) 0 = 6 /\ sbal (led y) 0 = 10 /\
  exists bd, nth_error (budgets (led y)) 0 = Some bd /\ bdone bd = false.
Proof.
  cbv zeta. split; [repeat constructor|]. split; [vm_compute; reflexivity|]. split.
  - intros [|[|t]] p H; vm_compute in H; try discriminate. injection H as <-. reflexivity.
  - vm_compute. split; [reflexivity|]. split; [reflexivity|]. eexists. split; reflexivity.
Qed.

(* ... the same request against the real handler (one more step: its defer) ends with the budget closed *)
Definition real_witness : list sact :=
  [ SEnv (SetMax 100); SEnv (Credit 0 10 false false true)
  ; SH 0 (XStart KExecute); SH 0 (XExt true)
  ; SH 0 (XExt true); SH 0 (XExt true); SH 0 (XPay false 0 4 false true); SH 0 (XBudget true)
  ; SH 0 XTau                                                     (* rpc.go:497 defer budget.Rollback() *)
  ; SH 0 (XExt false); SH 0 (XUnwind true) ].

Lemma hostd_on_real_witness :
  let y := sruns (prog_of false) (sinit 1) real_witness in
  get_balance (led y) 0 = 10 /\ sbal (led y) 0 = 10 /\ hs y = [PIdle] /\
  exists bd, nth_error (budgets (led y)) 0 = Some bd /\ bdone bd = true.
Proof. vm_compute. repeat split. eexists. split; reflexivity. Qed.
