(* C04 — Account ledger: no overdraft, no double spend, value conserved.
   Statements only; every proof is [exact lemma].  Model: Ledger/Model.v (one [op] = one
   AccountManager/Budget method body under am.mu, or one store transaction), so a list of
   ops is a schedule of concurrent RPCs at the granularity at which the code serialises them.

   Hypotheses used below, both on the INPUT history only:
   - [Forall wf_op l]: an RHP4 credit is called with usage.AccountFunding = sum of its deposits
     (what coreutils' RPCFundAccounts/RPCReplenishAccounts pass; the store trusts its caller);
   - [atts l < two128]: the sum of all amounts anybody ever tries to deposit stays below 2^128
     hastings (the coin supply is < 2^116 H); without it Currency.Add overflow panics exist.
   - [clean r init l]: no RHP4 debit (r = false), resp. no RHP4 debit or credit (r = true), with
     a non-zero amount hits an account while an RHP3 budget is open on the same key.  Without
     it the reservation guard is FALSE of the code (c04_*_refuted; known finding). *)
From HostdBase Require Import Base.
From HostdLedger Require Import Model Lib Proofs Proofs2 Proofs3 Handlers ProofsHandlers ProofsHandlers2.

(* 1. "An account's balance always equals the sum of accepted deposits minus the sum of
      committed withdrawals and is never negative" — stated in N without truncation:
      balance + withdrawals = deposits. *)
Theorem c04_balance_is_deposits_minus_withdrawals : forall (l : list op) (a : N),
  Forall wf_op l -> (atts l < two128)%N ->
  (sbal (runs init l) a + withdrawn init l a = deposited init l a)%N.
Proof. exact balance_is_deposits_minus_withdrawals. Qed.
Print Assumptions c04_balance_is_deposits_minus_withdrawals.

(* ... and no call ever panics (no Currency.Sub underflow anywhere: balances, metric, in-memory
   state); Spend/Refund panic only by their documented contract and then change nothing. *)
Theorem c04_never_negative_no_panic : forall (l : list op) (o : op),
  Forall wf_op l -> wf_op o -> (atts l + att o < two128)%N ->
  match o with Spend _ _ | Refund _ _ => False | _ => True end ->
  snd (step (runs init l) o) <> OPanic.
Proof. exact history_never_panics. Qed.
Print Assumptions c04_never_negative_no_panic.

Theorem c04_spend_refund_panic_changes_nothing : forall s b u,
  (snd (step s (Spend b u)) = OPanic -> fst (step s (Spend b u)) = s) /\
  (snd (step s (Refund b u)) = OPanic -> fst (step s (Refund b u)) = s).
Proof. exact spend_refund_panic_unchanged. Qed.
Print Assumptions c04_spend_refund_panic_changes_nothing.

(* 2. Reservation guard.  Full statement: a Budget that succeeds is covered by the balance minus
      all other outstanding reservations, in every history:
        forall l a amt rok, snd (step (runs init l) (NewBudget a amt rok)) = ODone ->
                            amt + openmax (runs init l) a <= sbal (runs init l) a.
      FALSE of the faithful model (c04_budget_guard_refuted); it holds for every history in which
      no RHP4 debit interferes with an open RHP3 budget, and always w.r.t. the balance the manager
      holds in memory. *)
Theorem c04_budget_guard_partial : forall l a amt rok,
  Forall wf_op l -> (atts l < two128)%N -> clean false init l = true ->
  snd (step (runs init l) (NewBudget a amt rok)) = ODone ->
  (amt + openmax (runs init l) a <= sbal (runs init l) a)%N.
Proof. exact budget_guard_partial. Qed.
Print Assumptions c04_budget_guard_partial.

Theorem c04_budget_guard_in_memory : forall s a amt rok s',
  step s (NewBudget a amt rok) = (s', ODone) -> (amt <= get_balance s a)%N.
Proof. exact budget_guard_mem. Qed.
Print Assumptions c04_budget_guard_in_memory.

Theorem c04_budget_guard_refuted : exists l a amt rok,
  Forall wf_op l /\ (atts l < two128)%N /\
  snd (step (runs init l) (NewBudget a amt rok)) = ODone /\
  ~ (amt + openmax (runs init l) a <= sbal (runs init l) a)%N.
Proof. exact budget_guard_refuted. Qed.
Print Assumptions c04_budget_guard_refuted.

(* the spendable balance the manager reports is exactly balance minus open reservations *)
Theorem c04_spendable_is_balance_minus_reservations_partial : forall l a,
  Forall wf_op l -> (atts l < two128)%N -> clean true init l = true ->
  (get_balance (runs init l) a + openmax (runs init l) a = sbal (runs init l) a)%N.
Proof. exact spendable_exact. Qed.
Print Assumptions c04_spendable_is_balance_minus_reservations_partial.

(* withdrawals: an RHP4 debit succeeds only if the persisted balance covers it (always) ... *)
Theorem c04_r4debit_covered_by_balance : forall s a amt s',
  step s (R4Debit a amt) = (s', ODone) -> (amt <= sbal s a /\ sbal s' a = sbal s a - amt)%N.
Proof. exact r4debit_guard. Qed.
Print Assumptions c04_r4debit_covered_by_balance.

(* ... "minus all other outstanding reservations" holds when the manager has no open RHP3 budget
   on the key, and is refuted otherwise (same known finding) *)
Theorem c04_r4debit_guard_partial : forall B s a amt s',
  Inv B s -> alookup a (mem s) = None ->
  step s (R4Debit a amt) = (s', ODone) -> (amt + openmax s a <= sbal s a)%N.
Proof. exact r4debit_guard_partial. Qed.
Print Assumptions c04_r4debit_guard_partial.

Theorem c04_r4debit_guard_refuted : exists l a amt,
  Forall wf_op l /\ (atts l < two128)%N /\
  snd (step (runs init l) (R4Debit a amt)) = ODone /\
  ~ (amt + openmax (runs init l) a <= sbal (runs init l) a)%N.
Proof. exact r4debit_guard_refuted. Qed.
Print Assumptions c04_r4debit_guard_refuted.

(* every reachable state satisfies the ledger invariant [Inv] used as hypothesis below *)
Theorem c04_reachable_invariant : forall l,
  Forall wf_op l -> (atts l < two128)%N -> Inv (atts l) (runs init l).
Proof. exact reachable_inv. Qed.
Print Assumptions c04_reachable_invariant.

(* 3. "committed reservations deduct exactly what was spent": only that account's persisted
      balance moves, by exactly the budget's usage (<= its max); the budget is closed; its max
      leaves the open reservations and the unspent part goes back to the spendable balance. *)
Theorem c04_commit_exact : forall B s b bd s',
  Inv B s -> (B < two128)%N -> nth_error (budgets s) b = Some bd -> bdone bd = false ->
  step s (Commit b true) = (s', ODone) ->
  let a := bacct bd in let t := usum (busage bd) in
  (t <= bmax bd)%N /\ (sbal s' a + t = sbal s a)%N /\ (forall x, x <> a -> sbal s' x = sbal s x) /\
  (exists bd', nth_error (budgets s') b = Some bd' /\ bdone bd' = true) /\
  (openmax s' a + bmax bd = openmax s a)%N /\
  (forall e', alookup a (mem s') = Some e' ->
     exists e, alookup a (mem s) = Some e /\ mbal e' = (mbal e + (bmax bd - t))%N) /\
  (alookup a (mem s') = None -> opencount s a = 1%N).
Proof. exact commit_exact. Qed.
Print Assumptions c04_commit_exact.

Theorem c04_commit_returns_unspent_partial : forall B s b bd s',
  Inv B s -> (B < two128)%N -> Kr true s ->
  nth_error (budgets s) b = Some bd -> bdone bd = false ->
  step s (Commit b true) = (s', ODone) ->
  get_balance s' (bacct bd) = (get_balance s (bacct bd) + (bmax bd - usum (busage bd)))%N.
Proof. exact commit_returns_unspent. Qed.
Print Assumptions c04_commit_returns_unspent_partial.

(* "rolled-back ... reservations return their funds": the persisted balances do not move, the
   budget is closed and its max is spendable again *)
Theorem c04_rollback_exact : forall B s b bd,
  Inv B s -> (B < two128)%N -> nth_error (budgets s) b = Some bd -> bdone bd = false ->
  let a := bacct bd in let s' := fst (step s (Rollback b)) in
  snd (step s (Rollback b)) = ODone /\ store s' = store s /\
  (exists bd', nth_error (budgets s') b = Some bd' /\ bdone bd' = true) /\
  (openmax s' a + bmax bd = openmax s a)%N /\
  (forall e', alookup a (mem s') = Some e' ->
     exists e, alookup a (mem s) = Some e /\ mbal e' = (mbal e + bmax bd)%N) /\
  (alookup a (mem s') = None -> opencount s a = 1%N).
Proof. exact rollback_exact. Qed.
Print Assumptions c04_rollback_exact.

Theorem c04_rollback_returns_funds_partial : forall B s b bd,
  Inv B s -> (B < two128)%N -> Kr true s ->
  nth_error (budgets s) b = Some bd -> bdone bd = false ->
  get_balance (fst (step s (Rollback b))) (bacct bd) = (get_balance s (bacct bd) + bmax bd)%N.
Proof. exact rollback_returns_funds. Qed.
Print Assumptions c04_rollback_returns_funds_partial.

(* "... or failed reservations return their funds": a failing Budget / Commit / Credit / RHP4 call
   changes nothing at all (a budget whose commit failed is still open and is then rolled back) *)
Theorem c04_failed_commit_changes_nothing : forall s b sok s' e,
  step s (Commit b sok) = (s', OErr e) -> s' = s.
Proof. exact failed_commit_unchanged. Qed.
Print Assumptions c04_failed_commit_changes_nothing.

Theorem c04_failed_budget_changes_nothing : forall s a amt rok s' e,
  step s (NewBudget a amt rok) = (s', OErr e) -> s' = s.
Proof. exact failed_budget_unchanged. Qed.
Print Assumptions c04_failed_budget_changes_nothing.

Theorem c04_failed_credit_changes_nothing : forall s a amt rf ex cok s' e,
  step s (Credit a amt rf ex cok) = (s', OErr e) -> s' = s.
Proof. exact failed_credit_unchanged. Qed.
Print Assumptions c04_failed_credit_changes_nothing.

Theorem c04_failed_r4debit_changes_nothing : forall s a amt s' e,
  step s (R4Debit a amt) = (s', OErr e) -> s' = s.
Proof. exact failed_r4debit_unchanged. Qed.
Print Assumptions c04_failed_r4debit_changes_nothing.

Theorem c04_failed_r4credit_changes_nothing : forall s deps fund cok s' e,
  step s (R4Credit deps fund cok) = (s', OErr e) -> s' = s.
Proof. exact failed_r4credit_unchanged. Qed.
Print Assumptions c04_failed_r4credit_changes_nothing.

(* the store's own re-check never refuses a commit when no RHP4 debit interfered *)
Theorem c04_commit_succeeds_partial : forall B s b bd,
  Inv B s -> (B < two128)%N -> Kr false s ->
  nth_error (budgets s) b = Some bd -> bdone bd = false ->
  alookup (bacct bd) (store s) <> None ->
  snd (step s (Commit b true)) = ODone.
Proof. exact commit_succeeds. Qed.
Print Assumptions c04_commit_succeeds_partial.

(* no double spend: committing or rolling back a closed budget again has no effect *)
Theorem c04_no_double_spend : forall s b bd sok,
  nth_error (budgets s) b = Some bd -> bdone bd = true ->
  step s (Commit b sok) = (s, ODone) /\ step s (Rollback b) = (s, ODone).
Proof. exact done_budget_inert. Qed.
Print Assumptions c04_no_double_spend.

(* 4. "The reported total account balance metric equals the sum of all balances and the
      active-account metric the number of accounts." *)
Theorem c04_metrics_exact : forall l, Forall wf_op l -> (atts l < two128)%N ->
  mBalance (runs init l) = asum (store (runs init l)) /\
  mActive (runs init l) = N.of_nat (length (store (runs init l))).
Proof. exact metrics_exact. Qed.
Print Assumptions c04_metrics_exact.

(* non-vacuity: a clean history with two open budgets on one account, a failing and a succeeding
   commit and a rollback; the hypotheses hold and the ledger moved *)
Definition c04_demo : list op :=
  [SetMax 100; Credit 0 50 false false true; R4Credit [(1, 7); (0, 5)]%N 12 true;
   NewBudget 0 30 true; NewBudget 0 20 true;
   Spend 0 {| uRpc := 10; uStorage := 0; uEgress := 5; uIngress := 0; uRegR := 0; uRegW := 0 |};
   Commit 0 false; Commit 0 true; Commit 0 true; Rollback 1; R4Debit 1 3].
Example c04_nonvacuous :
  Forall wf_op c04_demo /\ (atts c04_demo <? two128)%N = true /\ clean true init c04_demo = true /\
  sbal (runs init c04_demo) 0 = 40%N /\ withdrawn init c04_demo 0 = 15%N /\ deposited init c04_demo 0 = 55%N /\
  mBalance (runs init c04_demo) = 44%N /\ mActive (runs init c04_demo) = 2%N /\
  clean false init witness_b = false.
Proof. vm_compute. repeat split; repeat constructor. Qed.

(* 5. The budget USERS (WP-M4).  Sections 1-4 let any caller issue Budget/Spend/Refund/Commit/
      Rollback in any order; "failed reservations return their funds" also needs every RPC handler
      to end the budget it opened — commit or rollback — on every return path.  Handlers.v has the
      RHP3 handlers of rhp/v3/{rpc,payments,execute}.go as bracketed programs over the ledger
      operations, every early `return` explicit, composed with the ledger: [sys] = ledger +
      handler slots, [sact] = a step of handler slot t or an operation of anybody else (deposits,
      RHP4, reads; never a budget operation: the *Budget never leaves its handler), [sruns] = any
      interleaving of any number of RPCs on any accounts (slots are reused).
      Hypotheses, on the input only: [Forall swf l] / [satts l < two128] as in sections 1-4. *)

(* every open budget belongs to a handler that has not returned: for EVERY program that defers the
   rollback right after it obtained the budget ([bracketed]) ... *)
Theorem c04_handlers_end_their_budgets : forall prog n l,
  bracketed prog -> Forall swf l -> (satts l < two128)%N ->
  forall b bd, nth_error (budgets (led (sruns prog (sinit n) l))) b = Some bd -> bdone bd = false ->
  exists t p, nth_error (hs (sruns prog (sinit n) l)) t = Some p /\ idle p = false /\ owner p = Some b.
Proof. exact handlers_end_their_budgets. Qed.
Print Assumptions c04_handlers_end_their_budgets.

(* ... which the handlers of /repo are: handleRPCPriceTable, handleRPCAccountBalance,
   handleRPCLatestRevision, handleRPCExecute + programExecutor.Execute/commit/rollback,
   handleRPCFundAccount, handleRPCRenew *)
Theorem c04_hostd_handlers_are_bracketed : bracketed (prog_of false).
Proof. exact hostd_bracketed. Qed.
Print Assumptions c04_hostd_handlers_are_bracketed.

Theorem c04_hostd_handlers_end_their_budgets : forall n l, Forall swf l -> (satts l < two128)%N ->
  forall b bd, nth_error (budgets (led (sruns (prog_of false) (sinit n) l))) b = Some bd -> bdone bd = false ->
  exists t p, nth_error (hs (sruns (prog_of false) (sinit n) l)) t = Some p /\ idle p = false /\ owner p = Some b.
Proof. exact hostd_handlers_end_their_budgets. Qed.
Print Assumptions c04_hostd_handlers_end_their_budgets.

(* hence: all handlers returned => every budget is closed, no account is cached in memory, the
   spendable balance the manager reports is the persisted balance and nothing is reserved *)
Theorem c04_quiescent_balance_views_agree : forall n l, Forall swf l -> (satts l < two128)%N ->
  let y := sruns (prog_of false) (sinit n) l in
  (forall t p, nth_error (hs y) t = Some p -> idle p = true) ->
  (forall b bd, nth_error (budgets (led y)) b = Some bd -> bdone bd = true) /\
  forall a, alookup a (mem (led y)) = None /\ get_balance (led y) a = sbal (led y) a /\ openmax (led y) a = 0%N.
Proof. exact quiescent_views_agree. Qed.
Print Assumptions c04_quiescent_balance_views_agree.

(* the same for one account while RPCs paid from OTHER accounts are still running *)
Theorem c04_balance_views_agree_without_running_payer : forall n l a, Forall swf l -> (satts l < two128)%N ->
  let y := sruns (prog_of false) (sinit n) l in
  (forall t p b bd, nth_error (hs y) t = Some p -> owner p = Some b ->
                    nth_error (budgets (led y)) b = Some bd -> bacct bd <> a) ->
  alookup a (mem (led y)) = None /\ get_balance (led y) a = sbal (led y) a /\ openmax (led y) a = 0%N.
Proof. exact views_agree_without_running_payer. Qed.
Print Assumptions c04_balance_views_agree_without_running_payer.

(* the late-defer variant of handleRPCExecute (seeded change C04-mut8: `defer budget.Rollback()`
   moved from after processPayment to before newExecutor) is not bracketed, and a request whose
   program cannot be read leaves 4 H of a 10 H account reserved with every handler returned *)
Theorem c04_late_defer_leaks_refuted :
  let y := sruns (prog_of true) (sinit 1) late_witness in
  Forall swf late_witness /\ (satts late_witness < two128)%N /\
  (forall t p, nth_error (hs y) t = Some p -> idle p = true) /\
  get_balance (led y) 0 = 6%N /\ sbal (led y) 0 = 10%N /\
  exists bd, nth_error (budgets (led y)) 0 = Some bd /\ bdone bd = false.
Proof. exact late_defer_leaks. Qed.
Print Assumptions c04_late_defer_leaks_refuted.

(* no handler ever gets stuck holding its budget: from every reachable state every handler can run
   to its return by its own steps (the failing branch of every instruction is always enabled), so
   "all handlers have returned" is reachable from everywhere *)
Theorem c04_handler_can_always_return : forall prog n l t p,
  bracketed prog -> Forall swf l -> (satts l < two128)%N ->
  nth_error (hs (sruns prog (sinit n) l)) t = Some p ->
  exists xs, nth_error (hs (sruns prog (sinit n) (l ++ map (SH t) xs))) t = Some PIdle.
Proof. exact handler_can_always_return. Qed.
Print Assumptions c04_handler_can_always_return.

(* a budget is ended by the handler that opened it and by nobody else: no two handlers hold the
   same budget *)
Theorem c04_budgets_have_one_owner : forall prog l n,
  bracketed prog -> Forall swf l -> (satts l < two128)%N -> unique_owner (sruns prog (sinit n) l).
Proof. exact budgets_have_one_owner. Qed.
Print Assumptions c04_budgets_have_one_owner.

(* non-vacuity: two RPCs interleaved on one account — an account-balance request paid by contract
   that the renter abandons after paying, and a failing program paid from the account — plus a
   deposit by somebody else; all handlers return, hypotheses hold, money moved *)
Definition c04_handlers_demo : list sact :=
  [ SEnv (SetMax 100); SEnv (Credit 0 50 false false true)
  ; SH 0 (XStart KExecute); SH 1 (XStart KAccountBalance)
  ; SH 0 (XExt true); SH 0 (XExt true); SH 0 (XExt true); SH 0 (XPay false 0 30 false true)
  ; SH 1 (XExt true); SH 1 (XExt true); SH 1 (XExt true); SH 1 (XPay true 0 5 false true); SH 1 (XExt true)
  ; SH 0 (XBudget true); SH 1 (XBudget true); SH 0 XTau; SH 1 XTau
  ; SH 1 (XSpend (sto 0)); SH 0 (XExt true); SH 0 (XSpend {| uRpc := 2; uStorage := 0; uEgress := 0; uIngress := 0; uRegR := 0; uRegW := 0 |})
  ; SEnv (R4Credit [(1, 7)]%N 7 true)
  ; SH 0 (XExt true); SH 0 (XExt true); SH 0 (XExt true); SH 0 (XExt true); SH 0 XTau
  ; SH 0 (XInstr {| uRpc := 1; uStorage := 6; uEgress := 3; uIngress := 0; uRegR := 0; uRegW := 0 |} true)
  ; SH 1 (XExt false); SH 1 (XUnwind true)
  ; SH 0 XInstrFail; SH 0 (XUnwind true); SH 0 (XUnwind true); SH 0 (XUnwind true) ].
Example c04_handlers_nonvacuous :
  let y := sruns (prog_of false) (sinit 2) c04_handlers_demo in
  Forall swf c04_handlers_demo /\ (satts c04_handlers_demo <? two128)%N = true /\
  hs y = [PIdle; PIdle] /\ length (budgets (led y)) = 2%nat /\
  sbal (led y) 0 = 49%N /\ get_balance (led y) 0 = 49%N /\ sbal (led y) 1 = 7%N /\ mBalance (led y) = 56%N.
Proof. vm_compute. repeat split; repeat constructor. Qed.
