(* C04 — Account ledger. Statements only. *)
From HostdBase Require Import Base.
From HostdLedger Require Import Model Proofs.

Example c04_nonvacuous : snd (step init (Balance 1)) = OBal 0.
Proof. vm_compute; reflexivity. Qed.
