(* C04 — Account ledger. Statements only. *)
From HostdBase Require Import Base.
From HostdLedger Require Import Model Proofs.

Theorem c04_observers_pure : forall s a, fst (step s (Balance a)) = s.
Proof. exact observers_pure. Qed.
Print Assumptions c04_observers_pure.

Example c04_nonvacuous : snd (step init (Balance 1)) = OBal 0.
Proof. vm_compute; reflexivity. Qed.
