(* Ledger/Model.v — the ephemeral-account ledger of hostd:
     host/accounts/accounts.go   AccountManager.{Balance,Credit,Budget}
     host/accounts/budget.go     Budget.{Spend,Refund,Commit,Rollback}, Usage.{Total,Add,Sub}
     persist/sqlite/accounts.go  CreditAccountWithContract, DebitAccount, AccountBalance,
                                 RHP4AccountBalance(s), RHP4CreditAccounts, RHP4DebitAccount,
                                 Accounts, PruneAccounts; host_stats accountBalance/activeAccounts
     host/contracts/accounts.go  (pure delegation to the RHP4 store methods)
   Every AccountManager/Budget method body runs under am.mu and every store method is one
   SQL transaction on a single connection, so one [op] = one atomic step and a schedule of
   concurrent RPCs is a list of ops.
   The model corresponds to /repo HEAD, which contains fix 04473e2 (= fixes/C04-rhp4-debit-metric.patch:
   RHP4DebitAccount decrements the accountBalance metric; without it c04_metrics_exact is false)
   and f936643 (= fixes/C04-rhp4-debit-expiration.patch: the expiration written by an RHP4 debit
   is encoded, so Store.Accounts can list the account again).
   Abstracted (see Funding/Model.v, C11): the attribution of a debit to funding contracts and
   the contract row updates inside the same transactions; they cannot fail on a consistent
   store (c11_debit_never_panics) except through the funding contract being absent, which is
   the op-carried bit [cok].  No proofs here. *)
From HostdBase Require Import Base.

(* accounts.Usage, fields in declaration order *)
Record usage := { uRpc : N; uStorage : N; uEgress : N; uIngress : N; uRegR : N; uRegW : N }.
Definition uzero : usage := {| uRpc := 0; uStorage := 0; uEgress := 0; uIngress := 0; uRegR := 0; uRegW := 0 |}.

(* Usage.Total: chained Currency.Add (panics on overflow) *)
Definition utotal (u : usage) : res N :=
  do a <- cadd (uRpc u) (uStorage u);
  do b <- cadd a (uEgress u);
  do c <- cadd b (uIngress u);
  do d <- cadd c (uRegR u);
  cadd d (uRegW u).

(* Usage.Add / Usage.Sub: field by field *)
Definition uadd (a b : usage) : res usage :=
  do r <- cadd (uRpc a) (uRpc b);
  do s <- cadd (uStorage a) (uStorage b);
  do e <- cadd (uEgress a) (uEgress b);
  do i <- cadd (uIngress a) (uIngress b);
  do x <- cadd (uRegR a) (uRegR b);
  do y <- cadd (uRegW a) (uRegW b);
  Ok {| uRpc := r; uStorage := s; uEgress := e; uIngress := i; uRegR := x; uRegW := y |}.
Definition usub (a b : usage) : res usage :=
  do r <- csub (uRpc a) (uRpc b);
  do s <- csub (uStorage a) (uStorage b);
  do e <- csub (uEgress a) (uEgress b);
  do i <- csub (uIngress a) (uIngress b);
  do x <- csub (uRegR a) (uRegR b);
  do y <- csub (uRegW a) (uRegW b);
  Ok {| uRpc := r; uStorage := s; uEgress := e; uIngress := i; uRegR := x; uRegW := y |}.

(* accounts.Budget; [bdone] is the [committed] flag (set by Commit and by Rollback) *)
Record budget := { bacct : N; bmax : N; busage : usage; bdone : bool }.
(* accounts.accountState *)
Record mentry := { mbal : N; mopen : Z }.

Record state := {
  store : list (N * N);       (* accounts table: account key -> balance (rows are never deleted) *)
  mBalance : N;               (* host_stats accountBalance *)
  mActive : N;                (* host_stats activeAccounts *)
  maxbal : N;                 (* settings.MaxAccountBalance *)
  mem : list (N * mentry);    (* AccountManager.balances *)
  budgets : list budget       (* every *Budget ever returned; the n-th successful Budget call has index n *)
}.
Definition init : state :=
  {| store := []; mBalance := 0; mActive := 0; maxbal := 0; mem := []; budgets := [] |}.

Definition set_store (s : state) (st : list (N * N)) (mb ma : N) : state :=
  {| store := st; mBalance := mb; mActive := ma; maxbal := maxbal s; mem := mem s; budgets := budgets s |}.
Definition set_mem (s : state) (m : list (N * mentry)) : state :=
  {| store := store s; mBalance := mBalance s; mActive := mActive s; maxbal := maxbal s; mem := m; budgets := budgets s |}.
Definition set_budgets (s : state) (b : list budget) : state :=
  {| store := store s; mBalance := mBalance s; mActive := mActive s; maxbal := maxbal s; mem := mem s; budgets := b |}.
Definition set_max (s : state) (m : N) : state :=
  {| store := store s; mBalance := mBalance s; mActive := mActive s; maxbal := m; mem := mem s; budgets := budgets s |}.

Fixpoint upd_nth {A} (n : nat) (x : A) (l : list A) : list A :=
  match l, n with
  | [], _ => []
  | _ :: t, O => x :: t
  | h :: t, S n' => h :: upd_nth n' x t
  end.

Inductive op :=
| SetMax (m : N)
  (* AccountManager.Credit(req, refund): [expired] = req.Expiration is in the past,
     [cok] = the funding contract of req.Revision exists in the store *)
| Credit (a amt : N) (refund expired cok : bool)
  (* AccountManager.Budget(a, amt); [rok] = the store's AccountBalance read succeeds *)
| NewBudget (a amt : N) (rok : bool)
| Spend (b : nat) (u : usage)
| Refund (b : nat) (u : usage)
  (* Budget.Commit; [sok] = false: the store's DebitAccount fails before touching the database *)
| Commit (b : nat) (sok : bool)
| Rollback (b : nat)
  (* Store.RHP4CreditAccounts(deposits, contract, rev, usage): [fund] = usage.AccountFunding,
     [cok] = the v2 contract exists *)
| R4Credit (deps : list (N * N)) (fund : N) (cok : bool)
  (* Store.RHP4DebitAccount(a, usage): [amt] = usage.RenterCost() *)
| R4Debit (a amt : N)
| Balance (a : N)            (* AccountManager.Balance *)
| StoreBalance (a : N)       (* Store.AccountBalance *)
| R4Balance (a : N)          (* Store.RHP4AccountBalance *)
| R4Balances (l : list N)    (* Store.RHP4AccountBalances *)
| Metrics                    (* Store.Metrics().Accounts *)
| Accounts                   (* Store.Accounts(all) *)
| Prune.                     (* Store.PruneAccounts *)

Inductive obs :=
| ODone
| OErr (e : err)
| OPanic
| OBal (n : N)
| OBals (l : list N)
| OMetrics (bal active : N)
| OAccounts (l : list (N * N)).

Definition sbal (s : state) (a : N) : N :=
  match alookup a (store s) with Some b => b | None => 0 end.

(* AccountManager.getBalance *)
Definition get_balance (s : state) (a : N) : N :=
  match alookup a (mem s) with Some e => mbal e | None => sbal s a end.

(* incrementCurrencyStat: a zero delta returns before touching the row *)
Definition stat_add (m d : N) : res N := if (d =? 0)%N then Ok m else cadd m d.
Definition stat_sub (m d : N) : res N := if (d =? 0)%N then Ok m else csub m d.

(* Store.CreditAccountWithContract *)
Definition store_credit (s : state) (a amt : N) (cok : bool) : res state :=
  do nb <- cadd (sbal s a) amt;
  do nm <- stat_add (mBalance s) amt;
  let na := match alookup a (store s) with Some _ => mActive s | None => (mActive s + 1)%N end in
  if cok then Ok (set_store s (aset a nb (store s)) nm na) else Err EOther.

(* Store.DebitAccount (the amount is usage.Total(), computed before the transaction) *)
Definition store_debit (s : state) (a : N) (u : usage) : res state :=
  do amt <- utotal u;
  match alookup a (store s) with
  | None => Err EOther                        (* sql.ErrNoRows is an error here *)
  | Some bal =>
      if (bal <? amt)%N then Err EOther       (* "insufficient balance" *)
      else
        do nb <- csub bal amt;
        do nm <- stat_sub (mBalance s) amt;
        Ok (set_store s (aset a nb (store s)) nm (mActive s))
  end.

(* the deposit loop of Store.RHP4CreditAccounts *)
Fixpoint r4_deposits (st : list (N * N)) (created : N) (bals : list N) (deps : list (N * N))
  : res (list (N * N) * N * list N) :=
  match deps with
  | [] => Ok (st, created, bals)
  | (a, amt) :: t =>
      let '(cur, created') := match alookup a st with Some b => (b, created) | None => (0%N, (created + 1)%N) end in
      do nb <- cadd cur amt;
      r4_deposits (aset a nb st) created' (bals ++ [nb]) t
  end.

Definition store_r4credit (s : state) (deps : list (N * N)) (fund : N) (cok : bool) : res (state * list N) :=
  if negb cok then Err EOther else
  do r <- r4_deposits (store s) 0 [] deps;
  let '(st, created, bals) := r in
  do nm <- stat_add (mBalance s) fund;
  Ok (set_store s st nm (mActive s + created)%N, bals).

(* Store.RHP4DebitAccount (incl. the metric decrement added by fix 04473e2) *)
Definition store_r4debit (s : state) (a amt : N) : res state :=
  match alookup a (store s) with
  | None => Err EInsufficient
  | Some bal =>
      if (bal <? amt)%N then Err EInsufficient
      else
        do nm <- stat_sub (mBalance s) amt;
        Ok (set_store s (aset a (bal - amt)%N (store s)) nm (mActive s))
  end.

(* Err/Panic before any in-memory change: the store transaction rolled back *)
Definition finish (s : state) (r : res (state * obs)) : state * obs :=
  match r with Ok x => x | Err e => (s, OErr e) | Panic => (s, OPanic) end.

Definition mark_done (b : budget) : budget :=
  {| bacct := bacct b; bmax := bmax b; busage := busage b; bdone := true |}.
(* Commit zeroes the budget *)
Definition mark_committed (b : budget) : budget :=
  {| bacct := bacct b; bmax := 0; busage := uzero; bdone := true |}.
Definition with_usage (b : budget) (u : usage) : budget :=
  {| bacct := bacct b; bmax := bmax b; busage := u; bdone := bdone b |}.

(* the tail shared by Commit and Rollback: openTxns--, drop the entry or give [back] *)
Definition release (s : state) (a back : N) : state * obs :=
  match alookup a (mem s) with
  | None => (s, OPanic)                                   (* "account missing from memory" *)
  | Some e =>
      if (mopen e - 1 <=? 0)%Z then (set_mem s (aremove a (mem s)), ODone)
      else match cadd (mbal e) back with
           | Ok nb => (set_mem s (aset a {| mbal := nb; mopen := mopen e - 1 |} (mem s)), ODone)
           | _ => (s, OPanic)
           end
  end.

Definition step (s : state) (o : op) : state * obs :=
  match o with
  | SetMax m => (set_max s m, ODone)
  | Credit a amt refund expired cok =>
      if expired then (s, OErr EOther) else
      finish s (
        do cb <- cadd (get_balance s a) amt;
        if negb refund && (maxbal s <? cb)%N then Err EInvalid else
        do s' <- store_credit s a amt cok;
        Ok (match alookup a (mem s') with
            | Some e => set_mem s' (aset a {| mbal := cb; mopen := mopen e |} (mem s'))
            | None => s'
            end, OBal cb))
  | NewBudget a amt rok =>
      finish s (
        do e <- match alookup a (mem s) with
                | Some e => Ok e
                | None => if rok then Ok {| mbal := sbal s a; mopen := 0 |} else Err EOther
                end;
        if (mbal e <? amt)%N then Err EInsufficient else
        Ok (set_budgets
              (set_mem s (aset a {| mbal := (mbal e - amt)%N; mopen := (mopen e + 1)%Z |} (mem s)))
              (budgets s ++ [{| bacct := a; bmax := amt; busage := uzero; bdone := false |}]),
            ODone))
  | Spend b u =>
      match nth_error (budgets s) b with
      | None => (s, OErr EInvalid)
      | Some bd =>
          finish s (
            do nu <- uadd (busage bd) u;
            do spent <- utotal nu;
            if (bmax bd <? spent)%N then Err EInsufficient
            else Ok (set_budgets s (upd_nth b (with_usage bd nu) (budgets s)), ODone))
      end
  | Refund b u =>
      match nth_error (budgets s) b with
      | None => (s, OErr EInvalid)
      | Some bd =>
          if bdone bd then (s, OPanic) else
          finish s (do nu <- usub (busage bd) u;
                    Ok (set_budgets s (upd_nth b (with_usage bd nu) (budgets s)), ODone))
      end
  | Rollback b =>
      match nth_error (budgets s) b with
      | None => (s, OErr EInvalid)
      | Some bd =>
          if bdone bd then (s, ODone) else
          match alookup (bacct bd) (mem s) with
          | None => (s, OPanic)
          | Some _ =>
              (* b.committed = true happens before the balance is touched *)
              release (set_budgets s (upd_nth b (mark_done bd) (budgets s))) (bacct bd) (bmax bd)
          end
      end
  | Commit b sok =>
      match nth_error (budgets s) b with
      | None => (s, OErr EInvalid)
      | Some bd =>
          if bdone bd then (s, ODone) else
          if negb sok then (s, OErr EOther) else
          match store_debit s (bacct bd) (busage bd) with
          | Err e => (s, OErr EOther)
          | Panic => (s, OPanic)
          | Ok s1 =>
              match (do spent <- utotal (busage bd); csub (bmax bd) spent) with
              | Ok rem => release (set_budgets s1 (upd_nth b (mark_committed bd) (budgets s1))) (bacct bd) rem
              | _ => (s1, OPanic)
              end
          end
      end
  | R4Credit deps fund cok =>
      finish s (do r <- store_r4credit s deps fund cok; Ok (fst r, OBals (snd r)))
  | R4Debit a amt =>
      finish s (do s' <- store_r4debit s a amt; Ok (s', ODone))
  | Balance a => (s, OBal (get_balance s a))
  | StoreBalance a => (s, OBal (sbal s a))
  | R4Balance a => (s, OBal (sbal s a))
  | R4Balances l => (s, OBals (map (sbal s) l))
  | Metrics => (s, OMetrics (mBalance s) (mActive s))
  | Accounts => (s, OAccounts (store s))
  | Prune => (s, OErr EOther)   (* the statement names a column that does not exist *)
  end.

Definition N_list_eqb := list_eqb N.eqb.
(* account listings are compared as finite maps (row order is not part of the property) *)
Definition amap_sub (l1 l2 : list (N * N)) : bool :=
  forallb (fun kv => match alookup (fst kv) l2 with Some v => (v =? snd kv)%N | None => false end) l1.
Definition obs_eqb (a b : obs) : bool :=
  match a, b with
  | ODone, ODone => true
  | OErr e, OErr f => err_eqb e f
  | OPanic, OPanic => true
  | OBal x, OBal y => (x =? y)%N
  | OBals x, OBals y => N_list_eqb x y
  | OMetrics x n, OMetrics y m => ((x =? y) && (n =? m))%N
  | OAccounts x, OAccounts y => amap_sub x y && amap_sub y x && (length x =? length y)%nat
  | _, _ => false
  end.

Definition case := (N * list (op * obs))%type.
Definition check (cs : list case) := mismatches init step obs_eqb cs.
