(* Ledger/ProofsHandlers2.v — the handler programs never get stuck: from every reachable state
   every handler can run to its return (so "all handlers have returned" is reachable from
   everywhere and the theorems of ProofsHandlers.v are not about an empty set of runs); and a
   budget has one owner. *)
From Coq Require Import Lia ZifyBool ZifyN ZifyNat.
From HostdBase Require Import Base.
From HostdLedger Require Import Model Lib Proofs Proofs2 Proofs3 Handlers ProofsHandlers.

Local Open Scope N_scope.
Set Implicit Arguments.

(* one handler on its own *)
Definition hstep1 (prog : kind -> list instr) (s : state) (p : hpc) (x : hact) : option (state * hpc) :=
  match hop p x with
  | None => None
  | Some oo =>
      let r := match oo with Some o => step s o | None => (s, ODone) end in
      Some (fst r, hnext prog p x (length (budgets s)) (snd r))
  end.

Fixpoint hruns (prog : kind -> list instr) (s : state) (p : hpc) (xs : list hact) : option (state * hpc) :=
  match xs with
  | [] => Some (s, p)
  | x :: t => match hstep1 prog s p x with Some (s', p') => hruns prog s' p' t | None => None end
  end.

(* the way out of every instruction *)
Definition pick (i : instr) : hact :=
  match i with
  | IExt => XExt false
  | IPay => XPay false 0 0 false false
  | IFund => XPay false 0 0 false false
  | IBudget => XBudget false
  | IDefer => XTau
  | ISpend => XSpend uzero
  | IBalance => XBalance 0 false
  | ICommit => XCommit false
  | IExecBegin => XTau
  | IInstrs => XInstrFail
  | IExecMark => XTau
  end.

Lemma pick_progress : forall prog h i r, good_h h -> hprog h = i :: r ->
  exists oo, hop (PRun h) (pick i) = Some oo /\
  forall nb ob, (exists h', hnext prog (PRun h) (pick i) nb ob = PRun h' /\ hprog h' = r) \/
                (hnext prog (PRun h) (pick i) nb ob = ret h /\ may_return h).
Proof.
  intros prog h i r G Hp. pose proof G as (W&D&E).
  assert (MR : i <> IDefer -> may_return h) by (intros Hi; exact (wfp_may_return h Hp Hi W)).
  assert (OB : match i with ISpend | ICommit => hbud h <> None | _ => True end).
  { rewrite Hp in W. destruct i; try exact I; cbn [wfp] in W; destruct (hbud h); try discriminate; cbn in W; discriminate. }
  cbn [hop hnext]. rewrite Hp.
  destruct i; cbn [pick]; cbv beta iota.
  - eexists; split; [reflexivity|]. intros; right; split; [reflexivity | apply MR; discriminate].
  - eexists; split; [reflexivity|]. intros; left; eexists; split; reflexivity.
  - eexists; split; [reflexivity|]. intros nb ob. destruct (is_bal ob).
    + left; eexists; split; reflexivity.
    + right; split; [reflexivity | apply MR; discriminate].
  - eexists; split; [reflexivity|]. intros nb ob. destruct (is_done ob).
    + left; eexists; split; reflexivity.
    + right; split; [reflexivity | apply MR; discriminate].
  - eexists; split; [reflexivity|]. intros; left; eexists; split; reflexivity.
  - unfold on_budget. destruct (hbud h); [|congruence]. eexists; split; [reflexivity|]. intros nb ob. destruct (is_done ob).
    + left; eexists; split; reflexivity.
    + right; split; [reflexivity | apply MR; discriminate].
  - eexists; split; [reflexivity|]. intros; right; split; [reflexivity | apply MR; discriminate].
  - unfold on_budget. destruct (hbud h); [|congruence]. eexists; split; [reflexivity|]. intros nb ob. destruct (is_done ob).
    + left; eexists; split; reflexivity.
    + right; split; [reflexivity | apply MR; discriminate].
  - eexists; split; [reflexivity|]. intros; left; eexists; split; reflexivity.
  - eexists; split; [reflexivity|]. intros; right; split; [reflexivity | apply MR; discriminate].
  - eexists; split; [reflexivity|]. intros; left; eexists; split; reflexivity.
Qed.

Lemma unwind_returns : forall prog h u s, hdefer h = true -> hbud h <> None ->
  exists xs s', hruns prog s (PUnwind h u) xs = Some (s', PIdle).
Proof.
  intros prog h u s Hd Hb. destruct (hbud h) as [b|] eqn:Eb; [|congruence].
  assert (RH : ret_handler h = PUnwind h URollback) by (unfold ret_handler; rewrite Hd; reflexivity).
  assert (R : forall s0, exists xs s', hruns prog s0 (PUnwind h URollback) xs = Some (s', PIdle)).
  { intros s0. exists [XUnwind true]. eexists. cbn [hruns]; unfold hstep1; cbn [hop]. unfold on_budget. rewrite Eb. cbn [hnext]. reflexivity. }
  assert (C : forall s0, exists xs s', hruns prog s0 (PUnwind h UCommit) xs = Some (s', PIdle)).
  { intros s0. destruct (R (fst (step s0 (Commit b true)))) as (xs&s'&H).
    exists (XUnwind true :: xs), s'. cbn [hruns]; unfold hstep1; cbn [hop]. unfold on_budget. rewrite Eb. cbn [hnext]. rewrite RH. exact H. }
  destruct u; [|apply C|apply R].
  destruct (is_done (snd (step s (Refund b (sto (hstor h)))))) eqn:Ed.
  - destruct (C (fst (step s (Refund b (sto (hstor h)))))) as (xs&s'&H).
    exists (XUnwind true :: xs), s'. cbn [hruns]; unfold hstep1; cbn [hop]. unfold on_budget. rewrite Eb. cbn [hnext]. rewrite Ed. exact H.
  - destruct (R (fst (step s (Refund b (sto (hstor h)))))) as (xs&s'&H).
    exists (XUnwind true :: xs), s'. cbn [hruns]; unfold hstep1; cbn [hop]. unfold on_budget. rewrite Eb. cbn [hnext]. rewrite Ed, RH. exact H.
Qed.

Lemma ret_returns : forall prog h s, good_h h -> may_return h ->
  exists xs s', hruns prog s (ret h) xs = Some (s', PIdle).
Proof.
  intros prog h s G M. destruct (good_ret G M) as [G1 _].
  destruct (ret h) as [|h'|h' u] eqn:Er.
  - exists [], s. reflexivity.
  - exfalso. unfold ret, ret_handler in Er. destruct (hexec h); destruct (hdefer h); discriminate.
  - cbn [good_pc] in G1. destruct G1 as [Hd Hb]. exact (@unwind_returns prog h' u s Hd Hb).
Qed.

Lemma run_returns : forall prog n h s, bracketed prog -> (length (hprog h) <= n)%nat -> good_h h ->
  exists xs s', hruns prog s (PRun h) xs = Some (s', PIdle).
Proof.
  intros prog n. induction n as [|n IH]; intros h s BR L G.
  - destruct (hprog h) as [|i r] eqn:Hp; [|cbn in L; lia].
    pose proof G as (W&_&_).
    destruct (ret_returns prog s G (wfp_nil_may_return h Hp W)) as (xs&s'&H).
    exists (XTau :: xs), s'. cbn [hruns]; unfold hstep1; cbn [hop hnext]. rewrite Hp. exact H.
  - destruct (hprog h) as [|i r] eqn:Hp.
    + pose proof G as (W&_&_).
      destruct (ret_returns prog s G (wfp_nil_may_return h Hp W)) as (xs&s'&H).
      exists (XTau :: xs), s'. cbn [hruns]; unfold hstep1; cbn [hop hnext]. rewrite Hp. exact H.
    + destruct (pick_progress prog G Hp) as (oo&Ho&Hn).
      set (r0 := match oo with Some o => step s o | None => (s, ODone) end).
      destruct (@hstep_class prog (PRun h) (pick i) (length (budgets s)) (snd r0) oo BR G Ho) as [G' _].
      destruct (Hn (length (budgets s)) (snd r0)) as [(h'&E1&E2)|[E1 M]].
      * rewrite E1 in G'. cbn [good_pc] in G'.
        destruct (IH h' (fst r0) BR ltac:(rewrite E2; cbn in L; lia) G') as (xs&s'&H).
        exists (pick i :: xs), s'. cbn [hruns]. unfold hstep1. rewrite Ho. fold r0. rewrite E1. exact H.
      * destruct (ret_returns prog (fst r0) G M) as (xs&s'&H).
        exists (pick i :: xs), s'. cbn [hruns]. unfold hstep1. rewrite Ho. fold r0. rewrite E1. exact H.
Qed.

Theorem can_return : forall prog p s, bracketed prog -> good_pc p ->
  exists xs s', hruns prog s p xs = Some (s', PIdle).
Proof.
  intros prog p s BR G. destruct p as [|h|h u].
  - exists [], s. reflexivity.
  - exact (@run_returns prog (length (hprog h)) h s BR (le_n _) G).
  - destruct G as [Hd Hb]. exact (@unwind_returns prog h u s Hd Hb).
Qed.

(* the same inside the system: slot t takes the steps, everybody else stands still *)
Lemma sruns_slot : forall prog xs y t p s' p', nth_error (hs y) t = Some p ->
  hruns prog (led y) p xs = Some (s', p') ->
  led (sruns prog y (map (SH t) xs)) = s' /\ nth_error (hs (sruns prog y (map (SH t) xs))) t = Some p'.
Proof.
  intros prog. induction xs as [|x xs IH]; intros y t p s' p' Hp H; cbn [hruns map sruns fold_left] in *.
  - injection H as <- <-. auto.
  - fold (sruns prog). unfold hstep1 in H. destruct (hop p x) as [oo|] eqn:Ho; [|discriminate].
    unfold sstep. cbn [sstep_obs]. rewrite Hp, Ho. cbn [option_map fst].
    set (r := match oo with Some o => step (led y) o | None => (led y, ODone) end) in *.
    apply IH with (p := hnext prog p x (length (budgets (led y))) (snd r)).
    + cbn [hs]. exact (@nth_error_upd_same _ (hs y) t _ p Hp).
    + cbn [led]. exact H.
Qed.

Theorem handler_can_always_return : forall prog n l t p, bracketed prog -> Forall swf l -> satts l < two128 ->
  nth_error (hs (sruns prog (sinit n) l)) t = Some p ->
  exists xs, nth_error (hs (sruns prog (sinit n) (l ++ map (SH t) xs))) t = Some PIdle.
Proof.
  intros prog n l t p BR W HB Hp.
  pose proof (@sinv_runs prog l 0 (sinit n) BR (SInv_init n) W ltac:(lia)) as S.
  destruct (@can_return prog p (led (sruns prog (sinit n) l)) BR (si_good S _ Hp)) as (xs&s'&H).
  exists xs. unfold sruns at 1. rewrite fold_left_app. fold (sruns prog (sinit n) l).
  exact (proj2 (sruns_slot prog xs _ t Hp H)).
Qed.

(** * One owner per budget *)
Definition unique_owner (y : sys) : Prop :=
  forall t t' p p' b, nth_error (hs y) t = Some p -> nth_error (hs y) t' = Some p' ->
    owner p = Some b -> owner p' = Some b -> t = t'.

Lemma unique_step : forall prog B y a y', bracketed prog -> SInv B y -> unique_owner y ->
  sstep prog y a = Some y' -> unique_owner y'.
Proof.
  intros prog B y a y' BR S U H. unfold sstep in H.
  destruct a as [o|t x]; cbn [sstep_obs] in H.
  - destruct (env_ok o); [|discriminate]. cbn in H. injection H as <-. exact U.
  - destruct (nth_error (hs y) t) as [p|] eqn:Hp; [|discriminate].
    destruct (hop p x) as [oo|] eqn:Ho; [|discriminate]. cbn in H. injection H as <-.
    set (nb := length (budgets (led y))) in *.
    set (r := match oo with Some o => step (led y) o | None => (led y, ODone) end) in *.
    destruct (@hstep_class prog p x nb (snd r) oo BR (si_good S _ Hp) Ho) as [_ C].
    set (p' := hnext prog p x nb (snd r)) in *.
    (* the budget of the new pc is the old one, or a fresh index nobody owns *)
    assert (K : forall b, owner p' = Some b -> owner p = Some b \/ b = nb).
    { intros b Hb. inversion C as [Eown Eo|o Eenv Eown Eo|a0 amt rok On On' Eo|b0 o Ob Ob' Ek Eo|b0 Ob Ep' Eo].
      - left; congruence.
      - left; congruence.
      - right. rewrite On' in Hb. destruct (is_done (snd r)); [congruence | discriminate].
      - left; congruence.
      - rewrite Ep' in Hb. discriminate. }
    intros t1 t2 p1 p2 b H1 H2 O1 O2. cbn [hs] in H1, H2.
    destruct (nth_error_upd_nat _ _ _ _ H1) as [[-> ->]|[N1 H1']];
      destruct (nth_error_upd_nat _ _ _ _ H2) as [[-> ->]|[N2 H2']]; try reflexivity.
    + destruct (K b O1) as [Kb| ->].
      * exact (U _ _ _ _ _ Hp H2' Kb O2).
      * pose proof (si_valid S _ H2' O2). subst nb. lia.
    + destruct (K b O2) as [Kb| ->].
      * exact (U _ _ _ _ _ H1' Hp O1 Kb).
      * pose proof (si_valid S _ H1' O1). subst nb. lia.
    + exact (U _ _ _ _ _ H1' H2' O1 O2).
Qed.

Theorem budgets_have_one_owner : forall prog l n, bracketed prog -> Forall swf l -> satts l < two128 ->
  unique_owner (sruns prog (sinit n) l).
Proof.
  intros prog l n BR. revert n.
  assert (G : forall l B y, SInv B y -> unique_owner y -> Forall swf l -> B + satts l < two128 ->
              unique_owner (sruns prog y l)).
  { induction l0 as [|a t IH]; intros B y S U W HB; cbn [sruns fold_left satts] in *; [exact U|].
    fold (sruns prog). inversion W as [|? ? Wa Wt]; subst.
    destruct (sstep prog y a) as [y'|] eqn:E.
    - apply (IH (B + satt a) y'); [exact (@sinv_step prog B y a y' BR S Wa ltac:(lia) E) | exact (@unique_step prog B y a y' BR S U E) | exact Wt | lia].
    - apply (IH B y); [exact S | exact U | exact Wt | lia]. }
  intros n W HB. apply (G l 0 (sinit n)); [exact (SInv_init n) | | exact W | lia].
  intros t t' p p' b H1 _ O1 _. cbn in H1. rewrite (nth_error_repeat _ _ _ H1) in O1. discriminate.
Qed.
