(* Ledger/Lib.v — list/association-list/sum lemmas used by the ledger proofs *)
From Coq Require Import Lia ZifyBool ZifyN ZifyNat.
From HostdBase Require Import Base.
From HostdLedger Require Import Model.

Local Open Scope N_scope.

Definition getv (k : N) (l : list (N * N)) : N :=
  match alookup k l with Some v => v | None => 0 end.

Fixpoint asum (l : list (N * N)) : N :=
  match l with [] => 0 | (_, v) :: t => v + asum t end.

Lemma alookup_aset : forall V (k k' : N) (v : V) l,
  alookup k' (aset k v l) = if k' =? k then Some v else alookup k' l.
Proof.
  induction l as [|[k0 v0] t IH]; cbn [aset alookup].
  - destruct (k' =? k); reflexivity.
  - destruct (k =? k0) eqn:E; cbn [alookup].
    + apply N.eqb_eq in E; subst k0. destruct (k' =? k); reflexivity.
    + destruct (k' =? k0) eqn:E2.
      * apply N.eqb_eq in E2; subst k0.
        destruct (k' =? k) eqn:E3; [apply N.eqb_eq in E3; subst; rewrite N.eqb_refl in E; discriminate | reflexivity].
      * exact IH.
Qed.

Lemma alookup_aset_same : forall V (k : N) (v : V) l, alookup k (aset k v l) = Some v.
Proof. intros. rewrite alookup_aset, N.eqb_refl. reflexivity. Qed.

Lemma alookup_aset_other : forall V (k k' : N) (v : V) l, k' <> k -> alookup k' (aset k v l) = alookup k' l.
Proof. intros. rewrite alookup_aset. destruct (k' =? k) eqn:E; [apply N.eqb_eq in E; contradiction | reflexivity]. Qed.

Lemma asum_aset : forall k v l, asum (aset k v l) + getv k l = asum l + v.
Proof.
  unfold getv. induction l as [|[k0 v0] t IH]; cbn [aset asum alookup].
  - lia.
  - destruct (k =? k0) eqn:E; cbn [asum]; lia.
Qed.

Lemma getv_le_asum : forall k l, getv k l <= asum l.
Proof.
  unfold getv. induction l as [|[k0 v0] t IH]; cbn [asum alookup]; [lia|].
  destruct (k =? k0); lia.
Qed.

Lemma length_aset : forall V (k : N) (v : V) l,
  length (aset k v l) = match alookup k l with Some _ => length l | None => S (length l) end.
Proof.
  induction l as [|[k0 v0] t IH]; cbn [aset alookup length]; [reflexivity|].
  destruct (k =? k0); cbn [length]; [reflexivity|]. rewrite IH. destruct (alookup k t); reflexivity.
Qed.

(* keys without duplicates *)
Definition nodupk {V} (l : list (N * V)) : Prop := NoDup (map fst l).

Lemma alookup_none_notin : forall V (k : N) (l : list (N * V)), alookup k l = None -> ~ In k (map fst l).
Proof.
  induction l as [|[k0 v0] t IH]; cbn [alookup map fst In]; [tauto|].
  destruct (k =? k0) eqn:E; [discriminate|]. intros H [H1|H1]; [subst; rewrite N.eqb_refl in E; discriminate | exact (IH H H1)].
Qed.

Lemma in_keys_aset : forall V (k x : N) (v : V) l, In x (map fst (aset k v l)) -> x = k \/ In x (map fst l).
Proof.
  induction l as [|[k0 v0] t IH]; cbn [aset map fst In].
  - intros [H|[]]; auto.
  - destruct (k =? k0) eqn:E; cbn [map fst In].
    + apply N.eqb_eq in E; subst. tauto.
    + intros [H|H]; [tauto|]. destruct (IH H); tauto.
Qed.

Lemma nodupk_aset : forall V (k : N) (v : V) l, nodupk l -> nodupk (aset k v l).
Proof.
  unfold nodupk. induction l as [|[k0 v0] t IH]; cbn [aset map fst]; intros H.
  - constructor; [tauto | constructor].
  - inversion H as [|? ? Hn Hd]; subst. destruct (k =? k0) eqn:E; cbn [map fst].
    + apply N.eqb_eq in E; subst. constructor; assumption.
    + constructor; [|exact (IH Hd)]. intros Hin. destruct (in_keys_aset _ _ _ _ _ Hin) as [->|Hin']; [rewrite N.eqb_refl in E; discriminate | contradiction].
Qed.

Lemma in_keys_aremove : forall V (k x : N) (l : list (N * V)), In x (map fst (aremove k l)) -> In x (map fst l).
Proof.
  induction l as [|[k0 v0] t IH]; cbn [aremove map fst In]; [tauto|].
  destruct (k =? k0); cbn [map fst In]; [tauto|]. intros [H|H]; [tauto | right; exact (IH H)].
Qed.

Lemma nodupk_aremove : forall V (k : N) (l : list (N * V)), nodupk l -> nodupk (aremove k l).
Proof.
  unfold nodupk. induction l as [|[k0 v0] t IH]; cbn [aremove map fst]; intros H; [constructor|].
  inversion H as [|? ? Hn Hd]; subst. destruct (k =? k0); cbn [map fst]; [assumption|].
  constructor; [|exact (IH Hd)]. intros Hin. apply Hn. exact (in_keys_aremove _ _ _ _ Hin).
Qed.

Lemma alookup_in : forall V (k : N) (v : V) l, alookup k l = Some v -> In k (map fst l).
Proof.
  induction l as [|[k0 v0] t IH]; cbn [alookup map fst In]; [discriminate|].
  destruct (k =? k0) eqn:E; [apply N.eqb_eq in E; subst; tauto | intros H; right; exact (IH H)].
Qed.

Lemma alookup_aremove : forall V (k k' : N) (l : list (N * V)), nodupk l ->
  alookup k' (aremove k l) = if k' =? k then None else alookup k' l.
Proof.
  unfold nodupk. induction l as [|[k0 v0] t IH]; cbn [aremove alookup map fst]; intros H.
  - destruct (k' =? k); reflexivity.
  - inversion H as [|? ? Hn Hd]; subst. destruct (k =? k0) eqn:E.
    + apply N.eqb_eq in E; subst k0. destruct (k' =? k) eqn:E2; [|reflexivity].
      apply N.eqb_eq in E2; subst k'. destruct (alookup k t) eqn:L; [|reflexivity].
      exfalso; apply Hn; exact (alookup_in _ _ _ _ L).
    + cbn [alookup]. destruct (k' =? k0) eqn:E2.
      * apply N.eqb_eq in E2; subst k0. destruct (k' =? k) eqn:E3; [apply N.eqb_eq in E3; subst; rewrite N.eqb_refl in E; discriminate | reflexivity].
      * exact (IH Hd).
Qed.

(* sums over the budget list *)
Fixpoint bsum (f : budget -> N) (l : list budget) : N :=
  match l with [] => 0 | b :: t => f b + bsum f t end.

Lemma bsum_app : forall f l x, bsum f (l ++ [x]) = bsum f l + f x.
Proof. induction l as [|h t IH]; intros; cbn [app bsum]; [lia | rewrite IH; lia]. Qed.

Lemma bsum_upd : forall f l b bd bd', nth_error l b = Some bd ->
  bsum f (upd_nth b bd' l) + f bd = bsum f l + f bd'.
Proof.
  induction l as [|h t IH]; intros [|b] bd bd' H; cbn [nth_error] in H; try discriminate; cbn [upd_nth bsum].
  - injection H as ->. lia.
  - specialize (IH _ _ bd' H). lia.
Qed.

Lemma nth_error_upd : forall A (l : list A) b b' (x : A),
  nth_error (upd_nth b x l) b' = if Nat.eqb b' b then match nth_error l b with Some _ => Some x | None => None end else nth_error l b'.
Proof.
  induction l as [|h t IH]; intros [|b] [|b'] x; cbn [upd_nth nth_error Nat.eqb]; try reflexivity.
  - destruct (Nat.eqb b' b); reflexivity.
  - apply IH.
Qed.

Lemma nth_error_app1 : forall A (l : list A) x b y, nth_error (l ++ [x]) b = Some y ->
  nth_error l b = Some y \/ (b = length l /\ y = x).
Proof.
  induction l as [|h t IH]; intros x [|b] y; cbn [app nth_error length].
  - intros H; injection H as <-; auto.
  - destruct b; cbn [nth_error]; discriminate.
  - auto.
  - intros H. destruct (IH _ _ _ H) as [?|[-> ->]]; auto.
Qed.
