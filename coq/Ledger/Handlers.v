(* Ledger/Handlers.v — the USERS of accounts.Budget: the RHP3 stream handlers, as bracketed
   programs over the ledger operations of Model.v, composed with the ledger.

   Model.v lets any caller issue NewBudget / Spend / Refund / Commit / Rollback in any order.
   In /repo (HEAD a56b3e6) the only caller of AccountManager.Budget is rhp/v3/payments.go:149
   (processPayment), and the *Budget it returns lives in a local variable of the handler that
   called processPayment (and in programExecutor.budget, reachable from that handler's frame
   only).  So every budget operation of the running system is issued by one of the programs
   below; that each of them ends the budget it opened on EVERY return path is the theorem of
   ProofsHandlers.v — not an assumption.

   A handler body is a list of [instr]; each instruction is one point where the code can leave
   through a `return` (the step fails) or go on.  Line numbers: rhp/v3/rpc.go unless a file is
   named.

     IExt        a step that does not touch the ledger and can fail: reading a request from the
                 stream, writing a response, reading the price table, locking a contract,
                 validating a revision or a signature, syncing storage, ...  failure = `return`.
                 A step that the code only takes under a condition (finalization, contract
                 needed) is an IExt that succeeds when it is not taken.
     IPay        payments.go:128-143: the account and amount of the payment become known.
                 By contract (processContractPayment): sh.accounts.Credit(fundReq, true)
                 (payments.go:82) on the refund account, failure = `return` (:83-90), success is
                 followed by the WriteResponse of the host signature (:93, an IExt); account :=
                 req.RefundAccount, amount := fundAmount (:96).  By ephemeral account
                 (processAccountPayment): no ledger call; account := req.Account, amount :=
                 req.Amount (:117).
     IFund       payments.go:229 (processFundAccountPayment): sh.accounts.Credit(fundReq, false)
     IBudget     payments.go:149  sh.accounts.Budget(account, amount); failure = `return`
     IDefer      `defer budget.Rollback()`
     ISpend      budget.Spend(cost); failure = `return`
     IBalance    rpc.go:201 sh.accounts.Balance(req.Account)
     ICommit     budget.Commit(); failure = `return`
     IExecBegin  execute.go:811  `defer pe.rollback()` (pe.committed = false)
     IInstrs     execute.go:813-822 + 570-634: the instructions of the program, each paying with
                 pe.budget.Spend (payForExecution, execute.go:82-89) before it runs; a failing
                 instruction, a failing payment, a failing write of an output = `return`
     IExecMark   execute.go:661  pe.committed = true (first statement of pe.commit)

   A `return` runs the deferred calls, last registered first:
     - inside Execute with pe.committed = false: pe.rollback (execute.go:636-655):
       budget.Refund(StorageRevenue: pe.usage.StorageRevenue) then budget.Commit() — a failed
       program pays for everything except storage; the error of this Commit is dropped;
     - then the handler's own `budget.Rollback()` if it was registered (a no-op on a budget
       that Commit closed: budget.go:100-102).
   Execute returns with the goroutine that executes the instructions (executeProgram) finished:
   the code with fixes/C04-executor-joins-program-goroutine.patch.  On the tree without it that
   goroutine can still be paying from the budget while pe.rollback commits it (Budget.Spend takes
   no lock): the harness reproduces that (sig commit-returned-less-than-unspent-while-program-
   kept-spending, known_findings.d/C04.json); it does not keep the budget open.
   A Go panic in a ledger call (Currency overflow/underflow) unwinds the same deferred calls,
   so a step whose ledger call does not answer ODone is a `return` here as well.

   [late = true] is handleRPCExecute of seeded change C04-mut8: `defer budget.Rollback()` moved
   from right after processPayment to just before newExecutor.  Kept for the refuted witness.
   No proofs in this file. *)
From HostdBase Require Import Base.
From HostdLedger Require Import Model.

Inductive instr :=
| IExt | IPay | IFund | IBudget | IDefer | ISpend | IBalance | ICommit
| IExecBegin | IInstrs | IExecMark.

Inductive kind :=
| KPriceTable | KAccountBalance | KLatestRevision | KExecute | KFundAccount | KRenew
| KProbe.  (* not a handler: a direct caller `b, err := am.Budget(a, n); if err == nil { b.Rollback() }`
              (the harness probing that the whole balance can be reserved) *)

(* processPayment, payments.go:121-150 *)
Definition process_payment : list instr :=
  [ IExt      (* :123 ReadRequest(&paymentType) fails; :145 unrecognized payment type *)
  ; IExt      (* :18-67 contract payment: request read, contract locked, revision computed and
                 validated, renter signature checked, settings read;
                 :101-116 account payment: request read, expiry/amount/account/signature checked *)
  ; IPay      (* :82 Credit(fundReq, true) (+ :93 WriteResponse) / nothing *)
  ; IBudget   (* :149 *) ].

(* handleRPCPriceTable, rpc.go:77-122: the payment comes after the table was sent *)
Definition prog_price_table : list instr :=
  [ IExt (* :78 RHP3PriceTable *); IExt (* :83 json.Marshal *); IExt (* :92 WriteResponse(table) *) ]
  ++ process_payment (* :98; :99-100 the renter did not intend to pay: return nil *)
  ++ [ IDefer  (* :106 *)
     ; ISpend  (* :108 UpdatePriceTableCost *)
     ; ICommit (* :112 *)
     ; IExt    (* :117 Register; :121 WriteResponse *) ].

(* handleRPCAccountBalance, rpc.go:168-217 *)
Definition prog_account_balance : list instr :=
  [ IExt (* :171 readPriceTable *) ]
  ++ process_payment (* :179 *)
  ++ [ IDefer   (* :185 *)
     ; ISpend   (* :188 AccountBalanceCost *)
     ; IExt     (* :196 ReadRequest(&req, 32) *)
     ; IBalance (* :201 *)
     ; ICommit  (* :210 *)
     ; IExt     (* :216 WriteResponse *) ].

(* handleRPCLatestRevision, rpc.go:219-270 *)
Definition prog_latest_revision : list instr :=
  [ IExt (* :222 ReadRequest *); IExt (* :226 Contract *); IExt (* :236 WriteResponse *)
  ; IExt (* :240 readPriceTable; :241-242 no payment intended *) ]
  ++ process_payment (* :249 *)
  ++ [ IDefer  (* :257 *)
     ; ISpend  (* :259 LatestRevisionCost *)
     ; ICommit (* :263 *) ].

(* programExecutor.Execute, execute.go:805-827, with pe.commit (657-750) inlined *)
Definition execute_body : list instr :=
  [ IExecBegin (* execute.go:811 *)
  ; IInstrs    (* :813-822 *)
  ; IExecMark  (* :661 *)
  ; IExt       (* :663 sectors.Sync *)
  ; IExt       (* :679 read the finalize request *)
  ; IExt       (* :685 rhp.Revise *)
  ; IExt       (* :692 ValidateProgramRevision *)
  ; IExt       (* :705 renter signature *)
  ; IExt       (* :723 updater.Commit *)
  ; IExt       (* :732 WriteResponse *)
  ; ICommit    (* :739 *)
  ; IExt       (* :745 AddTemporarySectors *) ].

(* handleRPCExecute, rpc.go:479-568 *)
Definition prog_execute (late : bool) : list instr :=
  [ IExt (* :482 readPriceTable *) ]
  ++ process_payment (* :490 *)
  ++ (if late then [] else [ IDefer (* :497 *) ])
  ++ [ IExt   (* :502 ReadRequest(&executeReq) *)
     ; ISpend (* :510 program init cost *)
     ; IExt   (* :525 ErrContractRequired *)
     ; IExt   (* :535 contracts.Lock *)
     ; IExt   (* :550 WriteResponse(&cancelToken) *) ]
  ++ (if late then [ IDefer (* C04-mut8 *) ] else [])
  ++ [ IExt   (* :560 newExecutor (ReviseContract) *) ]
  ++ execute_body (* :565 *).

(* handleRPCFundAccount, rpc.go:124-166 with processFundAccountPayment, payments.go:155-251:
   no budget, one non-refund Credit *)
Definition prog_fund_account : list instr :=
  [ IExt (* :127 readPriceTable *); IExt (* :136 ReadRequest(&fundReq) *)
  ; IExt (* payments.go:156-218 *); IFund (* payments.go:229 *)
  ; IExt (* payments.go:241 WriteResponse *); IExt (* rpc.go:165 WriteResponse *) ].

(* handleRPCRenew, rpc.go:272-476: paid by the clearing revision, no ledger call at all *)
Definition prog_renew : list instr :=
  [ IExt; IExt; IExt; IExt; IExt; IExt; IExt; IExt; IExt; IExt; IExt; IExt ].

Definition prog_probe : list instr := [ IPay; IBudget; IDefer ].

Definition prog_of (late : bool) (k : kind) : list instr :=
  match k with
  | KPriceTable => prog_price_table
  | KAccountBalance => prog_account_balance
  | KLatestRevision => prog_latest_revision
  | KExecute => prog_execute late
  | KFundAccount => prog_fund_account
  | KRenew => prog_renew
  | KProbe => prog_probe
  end.

(** * One running handler *)
Inductive estate := ENone | ERunning | ECommitted.

Record hst := {
  hprog : list instr;     (* what is left of the body *)
  hacct : N; hamt : N;    (* account, amount returned by process*Payment *)
  hbud : option nat;      (* the handler's `budget` variable: index of the *Budget in [budgets] *)
  hdefer : bool;          (* `defer budget.Rollback()` is registered *)
  hexec : estate;         (* inside Execute: pe.rollback registered / pe.committed *)
  hstor : N               (* pe.usage.StorageRevenue *)
}.

Definition hnew (p : list instr) : hst :=
  {| hprog := p; hacct := 0; hamt := 0; hbud := None; hdefer := false; hexec := ENone; hstor := 0 |}.
Definition setp (h : hst) (p : list instr) : hst :=
  {| hprog := p; hacct := hacct h; hamt := hamt h; hbud := hbud h; hdefer := hdefer h; hexec := hexec h; hstor := hstor h |}.
Definition setpay (h : hst) (a amt : N) (p : list instr) : hst :=
  {| hprog := p; hacct := a; hamt := amt; hbud := hbud h; hdefer := hdefer h; hexec := hexec h; hstor := hstor h |}.
Definition setbud (h : hst) (b : nat) (p : list instr) : hst :=
  {| hprog := p; hacct := hacct h; hamt := hamt h; hbud := Some b; hdefer := hdefer h; hexec := hexec h; hstor := hstor h |}.
Definition setdefer (h : hst) (p : list instr) : hst :=
  {| hprog := p; hacct := hacct h; hamt := hamt h; hbud := hbud h; hdefer := true; hexec := hexec h; hstor := hstor h |}.
Definition setexec (h : hst) (e : estate) (n : N) (p : list instr) : hst :=
  {| hprog := p; hacct := hacct h; hamt := hamt h; hbud := hbud h; hdefer := hdefer h; hexec := e; hstor := n |}.

(* the deferred calls still to run after a `return` *)
Inductive ustage :=
| URefund     (* pe.rollback: execute.go:647 budget.Refund *)
| UCommit     (* pe.rollback: execute.go:648 budget.Commit *)
| URollback.  (* the handler's budget.Rollback() *)

Inductive hpc :=
| PIdle                          (* no RPC in this slot: not started, or handleHostStream's rpcFn returned *)
| PRun (h : hst)
| PUnwind (h : hst) (u : ustage).

(* the handler function returns: its own deferred Rollback, if registered *)
Definition ret_handler (h : hst) : hpc := if hdefer h then PUnwind h URollback else PIdle.
(* any `return`: first Execute's deferred pe.rollback when it is registered and pe.committed is false *)
Definition ret (h : hst) : hpc :=
  match hexec h with ERunning => PUnwind h URefund | _ => ret_handler h end.

Inductive hact :=
| XStart (k : kind)                       (* rhp.go:156-183: the RPC id was read, rpcFn is called *)
| XTau                                    (* a step without a choice: defer, flag, the final return *)
| XExt (ok : bool)
| XPay (byc : bool) (a amt : N) (ex cok : bool)
                                          (* byc: paid by contract; a, amt: account and amount;
                                             ex, cok: the Credit's expiry / funding contract bits *)
| XBudget (rok : bool)
| XSpend (u : usage)
| XBalance (a : N) (ok : bool)
| XCommit (sok : bool)
| XInstr (u : usage) (ok : bool)          (* payForExecution(u), then the instruction and the write of its output (ok) *)
| XInstrFail                              (* an instruction fails before it pays; an output cannot be written; ctx done *)
| XLoopEnd                                (* all outputs written *)
| XUnwind (sok : bool).                   (* the next deferred call runs *)

Definition sto (n : N) : usage :=
  {| uRpc := 0; uStorage := n; uEgress := 0; uIngress := 0; uRegR := 0; uRegW := 0 |}.

Definition on_budget (h : hst) (f : nat -> op) : option (option op) :=
  match hbud h with Some b => Some (Some (f b)) | None => None end.

(* is the step enabled, and which ledger operation does it issue *)
Definition hop (p : hpc) (x : hact) : option (option op) :=
  match p with
  | PIdle => match x with XStart _ => Some None | _ => None end
  | PRun h =>
      match hprog h, x with
      | [], XTau => Some None
      | IExt :: _, XExt _ => Some None
      | IPay :: _, XPay byc a amt ex cok => Some (if byc then Some (Credit a amt true ex cok) else None)
      | IFund :: _, XPay _ a amt ex cok => Some (Some (Credit a amt false ex cok))
      | IBudget :: _, XBudget rok => Some (Some (NewBudget (hacct h) (hamt h) rok))
      | IDefer :: _, XTau => Some None
      | ISpend :: _, XSpend u => on_budget h (fun b => Spend b u)
      | IBalance :: _, XBalance a _ => Some (Some (Balance a))
      | ICommit :: _, XCommit sok => on_budget h (fun b => Commit b sok)
      | IExecBegin :: _, XTau => Some None
      | IInstrs :: _, XInstr u _ => on_budget h (fun b => Spend b u)
      | IInstrs :: _, XInstrFail => Some None
      | IInstrs :: _, XLoopEnd => Some None
      | IExecMark :: _, XTau => Some None
      | _, _ => None
      end
  | PUnwind h URefund => match x with XUnwind _ => on_budget h (fun b => Refund b (sto (hstor h))) | _ => None end
  | PUnwind h UCommit => match x with XUnwind sok => on_budget h (fun b => Commit b sok) | _ => None end
  | PUnwind h URollback => match x with XUnwind _ => on_budget h (fun b => Rollback b) | _ => None end
  end.

Definition is_done (ob : obs) : bool := match ob with ODone => true | _ => false end.
Definition is_bal (ob : obs) : bool := match ob with OBal _ => true | _ => false end.

(* where an enabled step goes; [nb] = the index a new budget gets, [ob] = what the ledger answered *)
Definition hnext (prog : kind -> list instr) (p : hpc) (x : hact) (nb : nat) (ob : obs) : hpc :=
  match p with
  | PIdle => match x with XStart k => PRun (hnew (prog k)) | _ => p end
  | PRun h =>
      match hprog h, x with
      | [], _ => ret h
      | IExt :: r, XExt ok => if ok then PRun (setp h r) else ret h
      | IPay :: r, XPay byc a amt _ _ =>
          if byc then (if is_bal ob then PRun (setpay h a amt (IExt :: r)) else ret h)
          else PRun (setpay h a amt r)
      | IFund :: r, _ => if is_bal ob then PRun (setp h r) else ret h
      | IBudget :: r, _ => if is_done ob then PRun (setbud h nb r) else ret h
      | IDefer :: r, _ => PRun (setdefer h r)
      | ISpend :: r, _ => if is_done ob then PRun (setp h r) else ret h
      | IBalance :: r, XBalance _ ok => if ok then PRun (setp h r) else ret h
      | ICommit :: r, _ => if is_done ob then PRun (setp h r) else ret h
      | IExecBegin :: r, _ => PRun (setexec h ERunning 0 r)
      | IInstrs :: r, XInstr u ok =>
          if is_done ob
          then (let h' := setexec h (hexec h) (hstor h + uStorage u) (hprog h) in if ok then PRun h' else ret h')
          else ret h
      | IInstrs :: r, XLoopEnd => PRun (setp h r)
      | IInstrs :: r, _ => ret h
      | IExecMark :: r, _ => PRun (setexec h ECommitted (hstor h) r)
      | _, _ => p
      end
  | PUnwind h URefund => if is_done ob then PUnwind h UCommit else ret_handler h
  | PUnwind h UCommit => ret_handler h
  | PUnwind h URollback => PIdle
  end.

(** * The composed system: the ledger, handler slots, everybody else *)
Record sys := { led : state; hs : list hpc }.

Inductive sact :=
| SEnv (o : op)              (* anybody else: deposits, RHP4, settings, reads — never a budget *)
| SH (t : nat) (x : hact).   (* handler slot t takes a step *)

Definition env_ok (o : op) : bool :=
  match o with
  | NewBudget _ _ _ | Spend _ _ | Refund _ _ | Commit _ _ | Rollback _ => false
  | _ => true
  end.

(* one step and what the ledger answered (ODone for a step without a ledger call) *)
Definition sstep_obs (prog : kind -> list instr) (y : sys) (a : sact) : option (sys * obs) :=
  match a with
  | SEnv o =>
      if env_ok o then let r := step (led y) o in Some ({| led := fst r; hs := hs y |}, snd r) else None
  | SH t x =>
      match nth_error (hs y) t with
      | None => None
      | Some p =>
          match hop p x with
          | None => None
          | Some oo =>
              let r := match oo with Some o => step (led y) o | None => (led y, ODone) end in
              Some ({| led := fst r; hs := upd_nth t (hnext prog p x (length (budgets (led y))) (snd r)) (hs y) |}, snd r)
          end
      end
  end.

Definition sstep (prog : kind -> list instr) (y : sys) (a : sact) : option sys :=
  option_map fst (sstep_obs prog y a).

(* a step that is not enabled does not happen *)
Definition sruns (prog : kind -> list instr) (y : sys) (l : list sact) : sys :=
  fold_left (fun y a => match sstep prog y a with Some y' => y' | None => y end) l y.

Definition sinit (n : nat) : sys := {| led := init; hs := repeat PIdle n |}.

(* the budget a handler is responsible for *)
Definition owner (p : hpc) : option nat :=
  match p with PIdle => None | PRun h => hbud h | PUnwind h _ => hbud h end.
Definition idle (p : hpc) : bool := match p with PIdle => true | _ => false end.

(** * Correspondence entry point: recorded streams against the handler programs.
   A recorded step is (action, what the harness saw): HSkip when the ledger call is not
   observable from outside (Spend/Refund/Rollback touch only the Budget and am.balances). *)
Inductive hobs := HSkip | HSaw (o : obs) | HStuck.

Definition hobs_eqb (m r : hobs) : bool :=
  match m, r with
  | HStuck, HStuck => true
  | HStuck, _ => false
  | _, HSkip => true
  | HSaw a, HSaw b => obs_eqb a b
  | _, _ => false
  end.

Definition cstep (y : sys) (a : sact) : sys * hobs :=
  match sstep_obs (prog_of false) y a with
  | Some (y', ob) => (y', HSaw ob)
  | None => (y, HStuck)
  end.

Definition hcase := (N * list (sact * hobs))%type.
Definition hcheck (cs : list hcase) := mismatches (sinit 4) cstep hobs_eqb cs.
