(* Ledger/Proofs3.v — reservations, commit/rollback exactness, failures, panics (C04) *)
From Coq Require Import Lia ZifyBool ZifyN ZifyNat.
From HostdBase Require Import Base.
From HostdLedger Require Import Model Lib Proofs Proofs2.

Local Open Scope N_scope.
Set Implicit Arguments.

(** * Reservations *)
(* what Budget checks: the in-memory (or, if none is cached, the persisted) balance *)
Lemma budget_guard_mem : forall s a amt rok s', step s (NewBudget a amt rok) = (s', ODone) ->
  amt <= get_balance s a.
Proof.
  intros s a amt rok s'. cbn [step]. unfold finish, bind, get_balance.
  destruct (alookup a (mem s)) as [e|].
  - destruct (mbal e <? amt) eqn:C; [discriminate | intros _; lia].
  - destruct rok; [|discriminate]. cbn [mbal]. destruct (sbal s a <? amt) eqn:C; [discriminate | intros _; lia].
Qed.

(* balance minus all other outstanding reservations covers a granted budget *)
Lemma budget_guard_state : forall B s a amt rok s', Inv B s -> Kr false s ->
  step s (NewBudget a amt rok) = (s', ODone) -> amt + openmax s a <= sbal s a.
Proof.
  intros B s a amt rok s' I K H. pose proof (@budget_guard_mem s a amt rok s' H) as G. unfold get_balance in G.
  pose proof (inv_mem I a) as M. unfold mem_ok in M.
  destruct (alookup a (mem s)) as [e|] eqn:L.
  - specialize (K a e L). cbn in K. lia.
  - unfold openmax. rewrite (count0_max0 _ _ M). lia.
Qed.

Theorem budget_guard_partial : forall l a amt rok, Forall wf_op l -> atts l < two128 ->
  clean false init l = true ->
  snd (step (runs init l) (NewBudget a amt rok)) = ODone ->
  amt + openmax (runs init l) a <= sbal (runs init l) a.
Proof.
  intros l a amt rok W HB C H.
  destruct (@Kr_runs false l 0 init Inv_init (Kr_init false) W ltac:(lia) C) as [K I].
  destruct (step (runs init l) (NewBudget a amt rok)) as [s' ob] eqn:E. cbn [snd] in H. subst ob.
  exact (@budget_guard_state _ _ a amt rok s' I K E).
Qed.

Definition witness_b : list op := [R4Credit [(0, 10)] 10 true; NewBudget 0 8 true; R4Debit 0 5].

Theorem budget_guard_refuted : exists l a amt rok, Forall wf_op l /\ atts l < two128 /\
  snd (step (runs init l) (NewBudget a amt rok)) = ODone /\
  ~ (amt + openmax (runs init l) a <= sbal (runs init l) a).
Proof.
  exists witness_b, 0, 2, true. split; [repeat constructor|]. split; [vm_compute; reflexivity|].
  split; [vm_compute; reflexivity|]. vm_compute. intros H; apply H; reflexivity.
Qed.

(* the manager's spendable balance is exactly balance minus open reservations as long as no RHP4
   call moved money on an account it has cached *)
Theorem spendable_exact : forall l a, Forall wf_op l -> atts l < two128 -> clean true init l = true ->
  get_balance (runs init l) a + openmax (runs init l) a = sbal (runs init l) a.
Proof.
  intros l a W HB C.
  destruct (@Kr_runs true l 0 init Inv_init (Kr_init true) W ltac:(lia) C) as [K I].
  unfold get_balance. pose proof (inv_mem I a) as M. unfold mem_ok in M.
  destruct (alookup a (mem (runs init l))) as [e|] eqn:L.
  - exact (K a e L).
  - unfold openmax. rewrite (count0_max0 _ _ M). lia.
Qed.

(* an RHP4 debit is covered by the persisted balance ... *)
Lemma r4debit_guard : forall s a amt s', step s (R4Debit a amt) = (s', ODone) ->
  amt <= sbal s a /\ sbal s' a = sbal s a - amt.
Proof.
  intros s a amt s'. cbn [step]. unfold finish, bind, store_r4debit, bind, sbal.
  destruct (alookup a (store s)) as [bal|] eqn:L; [|discriminate].
  destruct (bal <? amt) eqn:C; [discriminate|].
  destruct (stat_sub (mBalance s) amt); try discriminate.
  intros H; injection H as <-. cbn [set_store store]. rewrite alookup_aset_same. lia.
Qed.

(* ... and by balance minus open RHP3 reservations when the manager holds none for the account *)
Lemma r4debit_guard_partial : forall B s a amt s', Inv B s -> alookup a (mem s) = None ->
  step s (R4Debit a amt) = (s', ODone) -> amt + openmax s a <= sbal s a.
Proof.
  intros B s a amt s' I L H. destruct (@r4debit_guard s a amt s' H) as [G _].
  pose proof (inv_mem I a) as M. unfold mem_ok in M. rewrite L in M.
  unfold openmax. rewrite (count0_max0 _ _ M). lia.
Qed.

Theorem r4debit_guard_refuted : exists l a amt, Forall wf_op l /\ atts l < two128 /\
  snd (step (runs init l) (R4Debit a amt)) = ODone /\
  ~ (amt + openmax (runs init l) a <= sbal (runs init l) a).
Proof.
  exists [R4Credit [(0, 10)] 10 true; NewBudget 0 8 true], 0, 5.
  split; [repeat constructor|]. split; [vm_compute; reflexivity|].
  split; [vm_compute; reflexivity|]. vm_compute. intros H; apply H; reflexivity.
Qed.

(** * Commit and Rollback are exact *)
Lemma last_open : forall B s b bd, Inv B s -> nth_error (budgets s) b = Some bd -> bdone bd = false ->
  opencount s (bacct bd) = 1 -> openmax s (bacct bd) = bmax bd.
Proof.
  intros B s b bd I Hn Hd H1. unfold opencount, openmax in *.
  destruct (close_sums _ b (mark_done bd) (bacct bd) Hn Hd eq_refl) as [C1 C2].
  destruct (cone_open _ Hd) as [E1 E2]. rewrite E1 in C1. rewrite E2 in C2.
  assert (Z0 : bsum (cone (bacct bd)) (upd_nth b (mark_done bd) (budgets s)) = 0) by lia.
  rewrite (count0_max0 _ _ Z0) in C2. lia.
Qed.

(* a successful commit deducts exactly what was spent from the persisted balance of that account
   only, closes the budget, and hands the unspent part of the reservation back *)
Theorem commit_exact : forall B s b bd s', Inv B s -> B < two128 ->
  nth_error (budgets s) b = Some bd -> bdone bd = false ->
  step s (Commit b true) = (s', ODone) ->
  let a := bacct bd in let t := usum (busage bd) in
  t <= bmax bd /\ sbal s' a + t = sbal s a /\ (forall x, x <> a -> sbal s' x = sbal s x) /\
  (exists bd', nth_error (budgets s') b = Some bd' /\ bdone bd' = true) /\
  openmax s' a + bmax bd = openmax s a /\
  (forall e', alookup a (mem s') = Some e' ->
     exists e, alookup a (mem s) = Some e /\ mbal e' = mbal e + (bmax bd - t)) /\
  (alookup a (mem s') = None -> opencount s a = 1).
Proof.
  intros B s b bd s' I HB Hn Hd H a t.
  destruct (@open_cached B s b bd I Hn Hd) as [e He].
  destruct (commit_spec b I HB Hn Hd He) as [Ht [[E _]|(Hnn&Hle&Hs&_&Hst&Hbu&Hma&Hmo)]].
  - rewrite E in H. discriminate.
  - rewrite H in *. cbn [fst snd] in *. fold a t in Ht, Hle, Hst, Hma, Hmo, He.
    pose proof (@openmax_close s s' b bd (mark_committed bd) a Hn Hd eq_refl Hbu) as Hom.
    fold a in Hom. rewrite N.eqb_refl in Hom.
    refine (conj Ht (conj _ (conj _ (conj _ (conj Hom (conj _ _)))))).
    + unfold sbal at 1. rewrite Hst, alookup_aset_same. lia.
    + intros x Hx. unfold sbal at 1. rewrite Hst, alookup_aset_other by assumption. reflexivity.
    + exists (mark_committed bd). rewrite Hbu, nth_error_upd, PeanoNat.Nat.eqb_refl, Hn. split; reflexivity.
    + intros e' He'. rewrite Hma in He'. destruct (opencount s a =? 1); [discriminate|].
      injection He' as <-. exists e. split; [exact He | reflexivity].
    + intros Hnone. rewrite Hma in Hnone. destruct (opencount s a =? 1) eqn:E1; [lia | discriminate].
Qed.

Theorem rollback_exact : forall B s b bd, Inv B s -> B < two128 ->
  nth_error (budgets s) b = Some bd -> bdone bd = false ->
  let a := bacct bd in let s' := fst (step s (Rollback b)) in
  snd (step s (Rollback b)) = ODone /\ store s' = store s /\
  (exists bd', nth_error (budgets s') b = Some bd' /\ bdone bd' = true) /\
  openmax s' a + bmax bd = openmax s a /\
  (forall e', alookup a (mem s') = Some e' ->
     exists e, alookup a (mem s) = Some e /\ mbal e' = mbal e + bmax bd) /\
  (alookup a (mem s') = None -> opencount s a = 1).
Proof.
  intros B s b bd I HB Hn Hd a s'.
  destruct (@open_cached B s b bd I Hn Hd) as [e He].
  destruct (rollback_spec b I HB Hn Hd He) as (Hs&_&Hst&Hbu&Hma&Hmo). fold s' a in Hst, Hbu, Hma, Hmo, He.
  pose proof (@openmax_close s s' b bd (mark_done bd) a Hn Hd eq_refl Hbu) as Hom.
  fold a in Hom. rewrite N.eqb_refl in Hom.
  refine (conj Hs (conj Hst (conj _ (conj Hom (conj _ _))))).
  - exists (mark_done bd). rewrite Hbu, nth_error_upd, PeanoNat.Nat.eqb_refl, Hn. split; reflexivity.
  - intros e' He'. rewrite Hma in He'. destruct (opencount s a =? 1); [discriminate|].
    injection He' as <-. exists e. split; [exact He | reflexivity].
  - intros Hnone. rewrite Hma in Hnone. destruct (opencount s a =? 1) eqn:E1; [lia | discriminate].
Qed.

(* in terms of what AccountManager.Balance reports: the reservation comes back *)
Theorem rollback_returns_funds : forall B s b bd, Inv B s -> B < two128 -> Kr true s ->
  nth_error (budgets s) b = Some bd -> bdone bd = false ->
  get_balance (fst (step s (Rollback b))) (bacct bd) = get_balance s (bacct bd) + bmax bd.
Proof.
  intros B s b bd I HB K Hn Hd.
  destruct (@rollback_exact B s b bd I HB Hn Hd) as (_&Hst&_&Hom&Hsome&Hnone).
  destruct (@open_cached B s b bd I Hn Hd) as [e He]. specialize (K _ _ He). cbn in K.
  unfold get_balance. rewrite He.
  destruct (alookup (bacct bd) (mem (fst (step s (Rollback b))))) as [e'|] eqn:L.
  - destruct (Hsome e' eq_refl) as (e0&He0&Hm). rewrite He in He0. injection He0 as <-. exact Hm.
  - specialize (Hnone eq_refl). rewrite (@last_open B s b bd I Hn Hd Hnone) in K.
    unfold sbal. rewrite Hst. fold (sbal s (bacct bd)). lia.
Qed.

Theorem commit_returns_unspent : forall B s b bd s', Inv B s -> B < two128 -> Kr true s ->
  nth_error (budgets s) b = Some bd -> bdone bd = false ->
  step s (Commit b true) = (s', ODone) ->
  get_balance s' (bacct bd) = get_balance s (bacct bd) + (bmax bd - usum (busage bd)).
Proof.
  intros B s b bd s' I HB K Hn Hd H.
  destruct (@commit_exact B s b bd s' I HB Hn Hd H) as (Ht&Hsb&_&_&Hom&Hsome&Hnone).
  destruct (@open_cached B s b bd I Hn Hd) as [e He]. specialize (K _ _ He). cbn in K.
  unfold get_balance. rewrite He.
  destruct (alookup (bacct bd) (mem s')) as [e'|] eqn:L.
  - destruct (Hsome e' eq_refl) as (e0&He0&Hm). rewrite He in He0. injection He0 as <-. exact Hm.
  - specialize (Hnone eq_refl). rewrite (@last_open B s b bd I Hn Hd Hnone) in K. lia.
Qed.

(* in histories without cross-protocol interference the store never refuses a commit *)
Theorem commit_succeeds : forall B s b bd, Inv B s -> B < two128 -> Kr false s ->
  nth_error (budgets s) b = Some bd -> bdone bd = false ->
  alookup (bacct bd) (store s) <> None ->
  snd (step s (Commit b true)) = ODone.
Proof.
  intros B s b bd I HB K Hn Hd Hrow.
  destruct (@open_cached B s b bd I Hn Hd) as [e He].
  destruct (commit_spec b I HB Hn Hd He) as [Ht [[E [Hno|Hlt]]|(_&_&Hs&_)]]; try exact Hs; try contradiction.
  specialize (K _ _ He). cbn in K.
  pose proof (open_counted _ _ Hn Hd) as [_ Hmx]. fold (openmax s (bacct bd)) in Hmx. lia.
Qed.

(** * Failures leave everything as it was *)
Lemma failed_commit_unchanged : forall s b sok s' e, step s (Commit b sok) = (s', OErr e) -> s' = s.
Proof.
  intros s b sok s' e. cbn [step]. destruct (nth_error (budgets s) b) as [bd|]; [|intros H; injection H; auto].
  destruct (bdone bd); [discriminate|]. destruct sok; cbn [negb]; [|intros H; injection H; auto].
  destruct (store_debit s (bacct bd) (busage bd)) as [s1| |]; [|intros H; injection H; auto|discriminate].
  destruct (do spent <- utotal (busage bd); csub (bmax bd) spent); try discriminate.
  unfold release. destruct (alookup (bacct bd) _); [|discriminate].
  destruct (_ <=? _)%Z; [discriminate|]. destruct (cadd _ _); discriminate.
Qed.

Lemma failed_budget_unchanged : forall s a amt rok s' e, step s (NewBudget a amt rok) = (s', OErr e) -> s' = s.
Proof.
  intros s a amt rok s' e. cbn [step]. unfold finish, bind.
  destruct (alookup a (mem s)) as [e0|].
  - destruct (mbal e0 <? amt); [intros H; injection H; auto | discriminate].
  - destruct rok; [|intros H; injection H; auto]. cbn [mbal].
    destruct (sbal s a <? amt); [intros H; injection H; auto | discriminate].
Qed.

Lemma finish_err : forall s (r : res (state * obs)) s' e,
  (forall x, r = Ok x -> forall e', snd x <> OErr e') -> finish s r = (s', OErr e) -> s' = s.
Proof.
  intros s r s' e Hok. unfold finish. destruct r as [[s1 o1]| |].
  - intros H; injection H as <- ->. exfalso. exact (Hok _ eq_refl e eq_refl).
  - intros H; injection H; auto.
  - discriminate.
Qed.

Lemma failed_r4debit_unchanged : forall s a amt s' e, step s (R4Debit a amt) = (s', OErr e) -> s' = s.
Proof.
  intros s a amt s' e. cbn [step]. apply finish_err. intros [s1 o1]. unfold bind.
  destruct (store_r4debit s a amt); try discriminate. intros H; injection H as <- <-. discriminate.
Qed.

Lemma failed_r4credit_unchanged : forall s deps fund cok s' e, step s (R4Credit deps fund cok) = (s', OErr e) -> s' = s.
Proof.
  intros s deps fund cok s' e. cbn [step]. apply finish_err. intros [s1 o1]. unfold bind.
  destruct (store_r4credit s deps fund cok); try discriminate. intros H; injection H as <- <-. discriminate.
Qed.

Lemma failed_credit_unchanged : forall s a amt rf ex cok s' e, step s (Credit a amt rf ex cok) = (s', OErr e) -> s' = s.
Proof.
  intros s a amt rf ex cok s' e. cbn [step]. destruct ex; [intros H; injection H; auto|].
  apply finish_err. intros [s1 o1]. unfold bind.
  destruct (cadd _ _); try discriminate. destruct (_ && _); try discriminate.
  destruct (store_credit _ _ _ _); try discriminate. intros H; injection H as <- <-. discriminate.
Qed.

(* no double spend: a committed or rolled-back budget can be committed / rolled back again
   without any effect *)
Lemma done_budget_inert : forall s b bd sok, nth_error (budgets s) b = Some bd -> bdone bd = true ->
  step s (Commit b sok) = (s, ODone) /\ step s (Rollback b) = (s, ODone).
Proof. intros s b bd sok Hn Hd. cbn [step]. rewrite Hn, Hd. split; reflexivity. Qed.

(** * Panics
   With the total ever deposited below 2^128 (the coin supply is below 2^116 H) no ledger call
   panics: in particular no Currency.Sub ever underflows — balances, the balance metric and the
   in-memory state never "go negative".  Spend/Refund may panic by their documented contract
   (overflowing usage, over-refund, refund after commit) and then change nothing. *)
Theorem no_panic : forall B s o, Inv B s -> wf_op o -> B + att o < two128 ->
  match o with Spend _ _ | Refund _ _ => False | _ => True end ->
  snd (step s o) <> OPanic.
Proof.
  intros B s o I W HB Hk. destruct o; try contradiction; cbn [att] in HB; rewrite ?N.add_0_r in HB;
    try (cbn [step snd]; discriminate).
  - (* Credit *)
    cbn [step]. destruct expired; [cbn; discriminate|]. unfold finish, bind.
    rewrite cadd_ok by (pose proof (get_balance_le a I); lia).
    destruct (negb refund && (maxbal s <? get_balance s a + amt)); [cbn; discriminate|].
    unfold store_credit, bind. rewrite cadd_ok by (pose proof (sbal_le a I); lia).
    rewrite stat_add_ok by (rewrite (inv_metric I); pose proof (inv_bound I); lia).
    destruct cok; cbn; discriminate.
  - (* NewBudget *)
    cbn [step]. unfold finish, bind. destruct (alookup a (mem s)) as [e|].
    + destruct (mbal e <? amt); cbn; discriminate.
    + destruct rok; [|cbn; discriminate]. cbn [mbal]. destruct (sbal s a <? amt); cbn; discriminate.
  - (* Commit *)
    destruct (nth_error (budgets s) b) as [bd|] eqn:Hn; [|cbn [step]; rewrite Hn; cbn; discriminate].
    destruct (bdone bd) eqn:Hd; [cbn [step]; rewrite Hn, Hd; cbn; discriminate|].
    destruct sok; [|cbn [step]; rewrite Hn, Hd; cbn; discriminate].
    destruct (@open_cached B s b bd I Hn Hd) as [e He].
    destruct (commit_spec b I HB Hn Hd He) as [_ [[E _]|(_&_&Hs&_)]]; [rewrite E; cbn; discriminate | rewrite Hs; discriminate].
  - (* Rollback *)
    destruct (nth_error (budgets s) b) as [bd|] eqn:Hn; [|cbn [step]; rewrite Hn; cbn; discriminate].
    destruct (bdone bd) eqn:Hd; [cbn [step]; rewrite Hn, Hd; cbn; discriminate|].
    destruct (@open_cached B s b bd I Hn Hd) as [e He].
    destruct (rollback_spec b I HB Hn Hd He) as (Hs&_). rewrite Hs. discriminate.
  - (* R4Credit *)
    cbn [wf_op] in W. cbn [step]. unfold finish, bind, store_r4credit, bind.
    destruct cok; cbn [negb]; [|cbn; discriminate].
    pose proof (inv_bound I) as Hb.
    destruct (@r4_deposits_ok deps (store s) 0 [] ltac:(lia)) as (st'&c'&bals'&E&H1&H2&H3).
    rewrite E. rewrite stat_add_ok by (rewrite (inv_metric I); lia). cbn. discriminate.
  - (* R4Debit *)
    cbn [step]. unfold finish, bind, store_r4debit, bind.
    destruct (alookup a (store s)) as [bal|] eqn:L; [|cbn; discriminate].
    destruct (bal <? amt) eqn:C; [cbn; discriminate|].
    pose proof (getv_le_asum a (store s)) as Hle. unfold getv in Hle. rewrite L in Hle.
    rewrite stat_sub_ok by (rewrite (inv_metric I); lia). cbn. discriminate.
Qed.

Lemma spend_refund_panic_unchanged : forall s b u,
  (snd (step s (Spend b u)) = OPanic -> fst (step s (Spend b u)) = s) /\
  (snd (step s (Refund b u)) = OPanic -> fst (step s (Refund b u)) = s).
Proof.
  intros s b u. cbn [step]. destruct (nth_error (budgets s) b) as [bd|]; [|split; reflexivity].
  split.
  - unfold finish, bind. destruct (uadd _ _); try reflexivity. destruct (utotal _); try reflexivity.
    destruct (_ <? _); [reflexivity | cbn; discriminate].
  - destruct (bdone bd); [reflexivity|]. unfold finish, bind. destruct (usub _ _); try reflexivity. cbn; discriminate.
Qed.

Theorem history_never_panics : forall l o, Forall wf_op l -> wf_op o -> atts l + att o < two128 ->
  match o with Spend _ _ | Refund _ _ => False | _ => True end ->
  snd (step (runs init l) o) <> OPanic.
Proof.
  intros l o W Wo HB Hk. apply (@no_panic (atts l) (runs init l) o); try assumption.
  apply reachable_inv; [assumption | lia].
Qed.
