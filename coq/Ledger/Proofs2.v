(* Ledger/Proofs2.v — the property-level lemmas of C04 (statements collected in Props_C04.v) *)
From Coq Require Import Lia ZifyBool ZifyN ZifyNat.
From HostdBase Require Import Base.
From HostdLedger Require Import Model Lib Proofs.

Local Open Scope N_scope.
Set Implicit Arguments.

(** * Accepted deposits and committed withdrawals of a history
   Defined from what each call returned (and, for Commit, from the budget it was called on):
   a credit counts when it returned the new balance(s), an RHP4 debit when it returned nil,
   an RHP3 commit when it returned nil on a budget that was not yet committed/rolled back —
   it then withdraws what had been spent on that budget. *)
Definition deposits_of (o : op) (ob : obs) : list (N * N) :=
  match o, ob with
  | Credit a amt _ _ _, OBal _ => [(a, amt)]
  | R4Credit deps _ _, OBals _ => deps
  | _, _ => []
  end.

Definition withdrawals_of (s : state) (o : op) (ob : obs) : list (N * N) :=
  match o, ob with
  | Commit b _, ODone =>
      match nth_error (budgets s) b with
      | Some bd => if bdone bd then [] else [(bacct bd, usum (busage bd))]
      | None => []
      end
  | R4Debit a amt, ODone => [(a, amt)]
  | _, _ => []
  end.

Fixpoint deposited (s : state) (l : list op) (a : N) : N :=
  match l with
  | [] => 0
  | o :: t => amt_for a (deposits_of o (snd (step s o))) + deposited (fst (step s o)) t a
  end.
Fixpoint withdrawn (s : state) (l : list op) (a : N) : N :=
  match l with
  | [] => 0
  | o :: t => amt_for a (withdrawals_of s o (snd (step s o))) + withdrawn (fst (step s o)) t a
  end.

Lemma release_store : forall s a back, store (fst (release s a back)) = store s.
Proof.
  intros. unfold release. destruct (alookup a (mem s)); [|reflexivity].
  destruct (mopen m - 1 <=? 0)%Z; [reflexivity|]. destruct (cadd (mbal m) back); reflexivity.
Qed.

Lemma sbal_aset : forall s st mb ma k v x,
  st = aset k v (store s) -> sbal (set_store s st mb ma) x = if x =? k then v else sbal s x.
Proof. intros; subst. unfold sbal. cbn [set_store store]. rewrite alookup_aset. destruct (x =? k); reflexivity. Qed.

Ltac triv := cbn [fst snd deposits_of withdrawals_of amt_for]; lia.

Lemma conserve_step : forall B s o a, Inv B s -> wf_op o -> B + att o < two128 ->
  sbal (fst (step s o)) a + amt_for a (withdrawals_of s o (snd (step s o)))
  = sbal s a + amt_for a (deposits_of o (snd (step s o))).
Proof.
  intros B s o x I W HB. destruct o; cbn [att] in HB; rewrite ?N.add_0_r in HB;
    try (cbn [step fst snd deposits_of withdrawals_of amt_for]; lia).
  - (* SetMax *) unfold sbal. cbn [step fst snd set_max store deposits_of withdrawals_of amt_for]. lia.
  - (* Credit *)
    cbn [step]. destruct expired; [triv|].
    unfold finish, bind.
    rewrite cadd_ok by (pose proof (get_balance_le a I); lia).
    destruct (negb refund && (maxbal s <? get_balance s a + amt)); [triv|].
    unfold store_credit, bind. rewrite cadd_ok by (pose proof (sbal_le a I); lia).
    rewrite stat_add_ok by (rewrite (inv_metric I); pose proof (inv_bound I); lia).
    destruct cok; [|triv].
    cbn [fst snd deposits_of withdrawals_of amt_for].
    match goal with |- sbal ?S x + _ = _ => assert (E : sbal S x = if x =? a then sbal s a + amt else sbal s x) end.
    { cbn [set_store mem]. destruct (alookup a (mem s)); unfold sbal; cbn [set_mem set_store store];
        rewrite alookup_aset; destruct (x =? a); reflexivity. }
    rewrite E. destruct (x =? a) eqn:E1; destruct (a =? x) eqn:E2; try lia.
    apply N.eqb_eq in E1; subst. lia.
  - (* NewBudget *)
    cbn [step]. unfold finish, bind.
    destruct (alookup a (mem s)) as [e|].
    + destruct (mbal e <? amt); cbn [fst snd deposits_of withdrawals_of amt_for]; [lia | unfold sbal; cbn; lia].
    + destruct rok; [|triv]. cbn [mbal].
      destruct (sbal s a <? amt); cbn [fst snd deposits_of withdrawals_of amt_for]; [lia | unfold sbal; cbn; lia].
  - (* Spend *)
    cbn [step]. destruct (nth_error (budgets s) b) as [bd|]; [|triv].
    unfold finish, bind. destruct (uadd (busage bd) u) as [nu| |]; try triv.
    destruct (utotal nu) as [sp| |]; try triv.
    destruct (bmax bd <? sp); cbn [fst snd deposits_of withdrawals_of amt_for]; [lia | unfold sbal; cbn; lia].
  - (* Refund *)
    cbn [step]. destruct (nth_error (budgets s) b) as [bd|]; [|triv].
    destruct (bdone bd); [triv|].
    unfold finish, bind. destruct (usub (busage bd) u) as [nu| |]; cbn [fst snd deposits_of withdrawals_of amt_for]; try lia.
    unfold sbal; cbn; lia.
  - (* Commit *)
    destruct (nth_error (budgets s) b) as [bd|] eqn:Hn;
      [|cbn [step]; rewrite Hn; cbn [fst snd deposits_of withdrawals_of amt_for]; destruct sok; lia].
    destruct (bdone bd) eqn:Hd;
      [cbn [step]; rewrite Hn, Hd; cbn [fst snd deposits_of withdrawals_of]; rewrite Hn, Hd; cbn [amt_for]; lia|].
    destruct sok; [|cbn [step]; rewrite Hn, Hd; cbn [negb fst snd deposits_of withdrawals_of amt_for]; lia].
    destruct (@open_cached B s b bd I Hn Hd) as [e He].
    destruct (commit_spec b I HB Hn Hd He) as [Ht [[E _]|(Hnn&Hle&Hs&_&Hst&_)]].
    + rewrite E. triv.
    + unfold withdrawals_of. rewrite Hs, Hn, Hd. cbn [deposits_of amt_for].
      unfold sbal at 1. rewrite Hst, alookup_aset.
      destruct (x =? bacct bd) eqn:E1; destruct (bacct bd =? x) eqn:E2; try lia.
      * apply N.eqb_eq in E1; subst x. lia.
      * fold (sbal s x). lia.
  - (* Rollback *)
    cbn [step]. destruct (nth_error (budgets s) b) as [bd|]; [|triv].
    destruct (bdone bd); [triv|].
    destruct (alookup (bacct bd) (mem s)); [|triv].
    cbn [deposits_of withdrawals_of amt_for]. unfold sbal. rewrite release_store. cbn [set_budgets store]. lia.
  - (* R4Credit *)
    cbn [wf_op] in W. cbn [step]. unfold finish, bind, store_r4credit, bind.
    destruct cok; cbn [negb]; [|triv].
    pose proof (inv_bound I) as Hb.
    destruct (@r4_deposits_ok deps (store s) 0 [] ltac:(lia)) as (st'&c'&bals'&E&H1&H2&H3).
    rewrite E. rewrite stat_add_ok by (rewrite (inv_metric I); lia).
    cbn [fst snd deposits_of withdrawals_of amt_for]. rewrite !sbal_getv. cbn [set_store store]. rewrite H3. lia.
  - (* R4Debit *)
    cbn [step]. unfold finish, bind, store_r4debit, bind.
    destruct (alookup a (store s)) as [bal|] eqn:L; [|triv].
    destruct (bal <? amt) eqn:C; [triv|].
    pose proof (getv_le_asum a (store s)) as Hle. unfold getv in Hle. rewrite L in Hle.
    rewrite stat_sub_ok by (rewrite (inv_metric I); lia).
    cbn [fst snd deposits_of withdrawals_of amt_for].
    rewrite (@sbal_aset s _ _ _ a (bal - amt) x eq_refl).
    destruct (x =? a) eqn:E1; destruct (a =? x) eqn:E2; try lia.
    apply N.eqb_eq in E1; subst x. unfold sbal. rewrite L. lia.
Qed.

Theorem conservation : forall l B s a, Inv B s -> Forall wf_op l -> B + atts l < two128 ->
  sbal (runs s l) a + withdrawn s l a = sbal s a + deposited s l a.
Proof.
  induction l as [|o t IH]; intros B s a I W HB; cbn [runs fold_left atts withdrawn deposited] in *.
  - lia.
  - inversion W as [|? ? Wo Wt]; subst.
    pose proof (@conserve_step B s o a I Wo ltac:(lia)) as Hs.
    assert (I' : Inv (B + att o) (fst (step s o))) by (apply inv_step; try assumption; lia).
    specialize (IH (B + att o) (fst (step s o)) a I' Wt ltac:(lia)). unfold runs in IH. lia.
Qed.

(* the ledger equation for the host's whole history *)
Theorem balance_is_deposits_minus_withdrawals : forall l a, Forall wf_op l -> atts l < two128 ->
  sbal (runs init l) a + withdrawn init l a = deposited init l a.
Proof.
  intros l a W HB. pose proof (@conservation l 0 init a Inv_init W ltac:(lia)) as H.
  change (sbal init a) with 0 in H. lia.
Qed.

Theorem reachable_inv : forall l, Forall wf_op l -> atts l < two128 -> Inv (atts l) (runs init l).
Proof. intros l W HB. apply (@inv_runs l 0 init Inv_init W). lia. Qed.

Theorem metrics_exact : forall l, Forall wf_op l -> atts l < two128 ->
  mBalance (runs init l) = asum (store (runs init l)) /\
  mActive (runs init l) = N.of_nat (length (store (runs init l))).
Proof. intros l W HB. pose proof (reachable_inv W HB) as I. split; [exact (inv_metric I) | exact (inv_active I)]. Qed.

(** * The in-memory balance against the persisted one
   [Kr false]: spendable + open reservations <= persisted balance;  [Kr true]: equality.
   Both are broken by an RHP4 debit that hits an account with an open RHP3 budget (the known
   finding); equality also by an RHP4 credit on such an account (harmless direction). *)
Definition Kr (r : bool) (s : state) : Prop :=
  forall a e, alookup a (mem s) = Some e ->
    if r then mbal e + openmax s a = sbal s a else mbal e + openmax s a <= sbal s a.

Definition cached0 (s : state) (kv : N * N) : bool :=
  match alookup (fst kv) (mem s) with Some _ => (snd kv =? 0) | None => true end.

(* the operation does not move money on an account whose balance the manager has cached, behind
   the manager's back *)
Definition ok_op (r : bool) (s : state) (o : op) : bool :=
  match o with
  | R4Debit a amt => cached0 s (a, amt)
  | R4Credit deps _ _ => if r then forallb (cached0 s) deps else true
  | _ => true
  end.

Fixpoint clean (r : bool) (s : state) (l : list op) : bool :=
  match l with [] => true | o :: t => ok_op r s o && clean r (fst (step s o)) t end.

Lemma cached0_amt : forall s deps x e, forallb (cached0 s) deps = true -> alookup x (mem s) = Some e ->
  amt_for x deps = 0.
Proof.
  induction deps as [|[k v] t IH]; intros x e H L; cbn [amt_for forallb] in *; [reflexivity|].
  apply andb_prop in H as [H1 H2]. rewrite (IH x e H2 L).
  destruct (k =? x) eqn:E; [|lia]. apply N.eqb_eq in E; subst k.
  unfold cached0 in H1. cbn [fst snd] in H1. rewrite L in H1. lia.
Qed.

Lemma openmax_close : forall s s' b bd bd' a, nth_error (budgets s) b = Some bd ->
  bdone bd = false -> bdone bd' = true -> budgets s' = upd_nth b bd' (budgets s) ->
  openmax s' a + (if a =? bacct bd then bmax bd else 0) = openmax s a.
Proof.
  intros s s' b bd bd' a Hn Hd Hd' Eb. unfold openmax. rewrite Eb.
  destruct (close_sums _ b bd' a Hn Hd Hd') as [_ H2].
  destruct (a =? bacct bd) eqn:E.
  - apply N.eqb_eq in E; subst a. destruct (cone_open _ Hd) as [_ E2]. lia.
  - apply N.eqb_neq in E. destruct (@cone_other bd a E) as [_ E2]. lia.
Qed.

Lemma openmax_same : forall s s' b bd bd' a, nth_error (budgets s) b = Some bd ->
  bacct bd' = bacct bd -> bdone bd' = bdone bd -> bmax bd' = bmax bd ->
  budgets s' = upd_nth b bd' (budgets s) -> openmax s' a = openmax s a.
Proof.
  intros s s' b bd bd' a Hn Ha Hd Hm Eb. unfold openmax. rewrite Eb.
  pose proof (bsum_upd (cmax a) _ b bd bd' Hn) as H2.
  assert (cmax a bd' = cmax a bd) by (unfold cmax, isopen; rewrite Ha, Hd, Hm; reflexivity). lia.
Qed.

Lemma Kr_weaken : forall s, Kr true s -> Kr false s.
Proof. intros s K a e L. specialize (K a e L). cbn in *. lia. Qed.

Ltac kr r := destruct r; cbn beta iota in *; lia.

Lemma Kr_step : forall r B s o, Inv B s -> Kr r s -> wf_op o -> B + att o < two128 ->
  ok_op r s o = true -> Kr r (fst (step s o)).
Proof.
  intros r B s o I K W HB OK. destruct o; cbn [att] in HB; rewrite ?N.add_0_r in HB; try exact K.
  - (* Credit *)
    cbn [step]. destruct expired; [exact K|]. unfold finish, bind.
    rewrite cadd_ok by (pose proof (get_balance_le a I); lia).
    destruct (negb refund && (maxbal s <? get_balance s a + amt)); [exact K|].
    unfold store_credit, bind. rewrite cadd_ok by (pose proof (sbal_le a I); lia).
    rewrite stat_add_ok by (rewrite (inv_metric I); pose proof (inv_bound I); lia).
    destruct cok; [|exact K]. cbn [fst set_store mem].
    intros x e L. unfold get_balance in L.
    destruct (alookup a (mem s)) as [ea|] eqn:La.
    + unfold openmax, sbal. cbn [set_mem set_store mem store budgets] in *. rewrite alookup_aset in L |- *.
      destruct (x =? a) eqn:E.
      * apply N.eqb_eq in E; subst x. injection L as <-. cbn [mbal]. specialize (K a ea La).
        unfold openmax, sbal in K. kr r.
      * specialize (K x e L). unfold openmax, sbal in K. exact K.
    + unfold openmax, sbal. cbn [set_store mem store budgets] in *. rewrite alookup_aset.
      destruct (x =? a) eqn:E; [apply N.eqb_eq in E; subst x; congruence|].
      specialize (K x e L). exact K.
  - (* NewBudget *)
    cbn [step]. unfold finish, bind.
    pose proof (inv_mem I a) as M. unfold mem_ok in M.
    assert (forall e0, (alookup a (mem s) = Some e0 \/ (alookup a (mem s) = None /\ e0 = {| mbal := sbal s a; mopen := 0 |})) ->
            (mbal e0 <? amt) = false ->
            Kr r (set_budgets (set_mem s (aset a {| mbal := mbal e0 - amt; mopen := mopen e0 + 1 |} (mem s)))
                    (budgets s ++ [{| bacct := a; bmax := amt; busage := uzero; bdone := false |}]))) as Hgen.
    { intros e0 He0 C x e L. unfold openmax, sbal. cbn [set_budgets set_mem mem store budgets] in *.
      rewrite bsum_app. rewrite alookup_aset in L. destruct (x =? a) eqn:E.
      - apply N.eqb_eq in E; subst x. injection L as <-. cbn [mbal].
        destruct (@cone_open {| bacct := a; bmax := amt; busage := uzero; bdone := false |} eq_refl) as [_ E2].
        cbn [bacct bmax] in E2. rewrite E2.
        destruct He0 as [He0|[He0 ->]].
        + specialize (K a e0 He0). unfold openmax, sbal in K. kr r.
        + rewrite He0 in M. cbn [mbal] in *. rewrite (count0_max0 _ _ M). unfold sbal in *. kr r.
      - apply N.eqb_neq in E.
        destruct (@cone_other {| bacct := a; bmax := amt; busage := uzero; bdone := false |} x E) as [_ E2].
        rewrite E2, N.add_0_r. exact (K x e L). }
    destruct (alookup a (mem s)) as [e0|] eqn:La.
    + destruct (mbal e0 <? amt) eqn:C; [exact K|]. cbn [fst]. apply Hgen; [left; reflexivity | exact C].
    + destruct rok; [|exact K]. cbn [mbal mopen]. destruct (sbal s a <? amt) eqn:C; [exact K|]. cbn [fst].
      apply (Hgen {| mbal := sbal s a; mopen := 0 |}); [right; split; reflexivity | exact C].
  - (* Spend *)
    cbn [step]. destruct (nth_error (budgets s) b) as [bd|] eqn:Hn; [|exact K].
    unfold finish, bind. destruct (uadd (busage bd) u) as [nu| |]; try exact K.
    destruct (utotal nu) as [sp| |]; try exact K. destruct (bmax bd <? sp); [exact K|]. cbn [fst].
    intros x e L. cbn [set_budgets mem] in L.
    match goal with |- context [openmax ?S x] =>
      rewrite (@openmax_same s S b bd (with_usage bd nu) x Hn eq_refl eq_refl eq_refl eq_refl) end. exact (K x e L).
  - (* Refund *)
    cbn [step]. destruct (nth_error (budgets s) b) as [bd|] eqn:Hn; [|exact K].
    destruct (bdone bd); [exact K|].
    unfold finish, bind. destruct (usub (busage bd) u) as [nu| |]; try exact K. cbn [fst].
    intros x e L. cbn [set_budgets mem] in L.
    match goal with |- context [openmax ?S x] =>
      rewrite (@openmax_same s S b bd (with_usage bd nu) x Hn eq_refl eq_refl eq_refl eq_refl) end. exact (K x e L).
  - (* Commit *)
    destruct (nth_error (budgets s) b) as [bd|] eqn:Hn; [|cbn [step]; rewrite Hn; exact K].
    destruct (bdone bd) eqn:Hd; [cbn [step]; rewrite Hn, Hd; exact K|].
    destruct sok; [|cbn [step]; rewrite Hn, Hd; exact K].
    destruct (@open_cached B s b bd I Hn Hd) as [e0 He0].
    destruct (commit_spec b I HB Hn Hd He0) as [Ht [[E _]|(Hnn&Hle&Hs&_&Hst&Hbu&Hma&Hmo)]]; [rewrite E; exact K|].
    intros x e L.
    pose proof (@openmax_close s _ b bd (mark_committed bd) x Hn Hd eq_refl Hbu) as Hom.
    assert (Hsb : sbal (fst (step s (Commit b true))) x =
                  if x =? bacct bd then sbal s (bacct bd) - usum (busage bd) else sbal s x).
    { unfold sbal at 1. rewrite Hst, alookup_aset. destruct (x =? bacct bd); reflexivity. }
    rewrite Hsb. clear Hsb.
    destruct (x =? bacct bd) eqn:E.
    + apply N.eqb_eq in E; subst x. rewrite Hma in L.
      destruct (opencount s (bacct bd) =? 1); [discriminate|]. injection L as <-. cbn [mbal].
      specialize (K _ _ He0).
      pose proof (open_counted _ _ Hn Hd) as [_ Hmx]. fold (openmax s (bacct bd)) in Hmx.
      destruct r; cbn beta iota in *; clear - K Hom Hmx Ht Hle; lia.
    + apply N.eqb_neq in E. rewrite (Hmo x E) in L. specialize (K x e L).
      rewrite N.add_0_r in Hom. rewrite Hom. exact K.
  - (* Rollback *)
    destruct (nth_error (budgets s) b) as [bd|] eqn:Hn; [|cbn [step]; rewrite Hn; exact K].
    destruct (bdone bd) eqn:Hd; [cbn [step]; rewrite Hn, Hd; exact K|].
    destruct (@open_cached B s b bd I Hn Hd) as [e0 He0].
    destruct (rollback_spec b I HB Hn Hd He0) as (Hs&_&Hst&Hbu&Hma&Hmo).
    intros x e L.
    pose proof (@openmax_close s _ b bd (mark_done bd) x Hn Hd eq_refl Hbu) as Hom.
    assert (Hsb : sbal (fst (step s (Rollback b))) x = sbal s x) by (unfold sbal; rewrite Hst; reflexivity).
    rewrite Hsb. clear Hsb.
    destruct (x =? bacct bd) eqn:E.
    + apply N.eqb_eq in E; subst x. rewrite Hma in L.
      destruct (opencount s (bacct bd) =? 1); [discriminate|]. injection L as <-. cbn [mbal].
      specialize (K _ _ He0). destruct r; cbn beta iota in *; clear - K Hom; lia.
    + apply N.eqb_neq in E. rewrite (Hmo x E) in L. specialize (K x e L).
      rewrite N.add_0_r in Hom. rewrite Hom. exact K.
  - (* R4Credit *)
    cbn [wf_op] in W. cbn [step]. unfold finish, bind, store_r4credit, bind.
    destruct cok; cbn [negb]; [|exact K].
    pose proof (inv_bound I) as Hb.
    destruct (@r4_deposits_ok deps (store s) 0 [] ltac:(lia)) as (st'&c'&bals'&E&H1&H2&H3).
    rewrite E. rewrite stat_add_ok by (rewrite (inv_metric I); lia). cbn [fst].
    intros x e L. cbn [set_store mem] in L. specialize (K x e L).
    unfold openmax. rewrite sbal_getv. cbn [set_store store budgets]. rewrite H3. fold (openmax s x).
    rewrite <- sbal_getv. cbn [ok_op] in OK. destruct r; cbn beta iota in *.
    + rewrite (@cached0_amt s deps x e OK L). lia.
    + lia.
  - (* R4Debit *)
    cbn [ok_op] in OK. unfold cached0 in OK. cbn [fst snd] in OK.
    cbn [step]. unfold finish, bind, store_r4debit, bind.
    destruct (alookup a (store s)) as [bal|] eqn:L0; [|exact K].
    destruct (bal <? amt) eqn:C; [exact K|].
    pose proof (getv_le_asum a (store s)) as Hle. unfold getv in Hle. rewrite L0 in Hle.
    rewrite stat_sub_ok by (rewrite (inv_metric I); lia). cbn [fst].
    intros x e L. cbn [set_store mem] in L. specialize (K x e L).
    unfold openmax. cbn [set_store budgets]. fold (openmax s x).
    rewrite (@sbal_aset s _ _ _ a (bal - amt) x eq_refl).
    destruct (x =? a) eqn:E; [|exact K].
    apply N.eqb_eq in E; subst x. rewrite L in OK.
    assert (sbal s a = bal) by (unfold sbal; rewrite L0; reflexivity). kr r.
Qed.

Theorem Kr_runs : forall r l B s, Inv B s -> Kr r s -> Forall wf_op l -> B + atts l < two128 ->
  clean r s l = true -> Kr r (runs s l) /\ Inv (B + atts l) (runs s l).
Proof.
  induction l as [|o t IH]; intros B s I K W HB C; cbn [runs fold_left atts clean] in *.
  - rewrite N.add_0_r. split; assumption.
  - inversion W as [|? ? Wo Wt]; subst. apply andb_prop in C as [C1 C2].
    replace (B + (att o + atts t)) with ((B + att o) + atts t) by lia.
    apply IH; try assumption; try lia.
    + apply inv_step; try assumption; lia.
    + apply (@Kr_step r B s o); try assumption; lia.
Qed.

Lemma Kr_init : forall r, Kr r init.
Proof. intros r a e L. discriminate. Qed.
